/-
Line-protocol driver.  usage: driver <engine> < ops
Input lines:  "#case <id>"  resets the engine;  every other line is
"<op>\t<what the implementation printed for it>" (the tab part may be absent).
Output: "#case" lines are echoed; one model line per operation.
-/
import LA.Drive.Lnk
import LA.Drive.ReadAhead
import LA.Drive.ReadObs
import LA.Drive.Pm
import LA.Drive.Match
import LA.Drive.SafeWrite
import LA.Drive.Enc
import LA.Drive.Trad
import LA.Drive.Pass
import LA.Drive.ZipEnc
import LA.Drive.Unicode
import LA.Drive.Entry
import LA.Drive.Api
import LA.Drive.Acl
import LA.Drive.Thr
import LA.Drive.ClientWrite
import LA.Drive.Xtr
import LA.Drive.ReadData
import LA.Drive.Flt
import LA.Drive.Tree
import LA.Drive.Codec
import LA.Drive.CodecOracle
open LA

def engines : List (String × Engine) := [
  ("lnk", LA.Lnk.engine),
  ("rda", LA.RA.engine),
  ("part", LA.ReadObs.enginePart),
  ("cons", LA.ReadObs.engineCons),
  ("trunc", LA.ReadObs.engineTrunc),
  ("rd", LA.ReadObs.engineRd),
  ("pm", LA.Pm.engine),
  ("match", LA.Match.engine),
  ("safe", LA.SafeWrite.engine),
  ("safeorc", LA.SafeWrite.oracleEngine),
  ("enc", LA.EncDrive.engine),
  ("trad", LA.TradDrive.engine),
  ("pass", LA.PassDrive.engine),
  ("zipenc", LA.ZipEncDrive.engine),
  ("uni", LA.Unicode.engine),
  ("ent", LA.Entry.engine),
  ("api", LA.Api.engine),
  ("acl", LA.Acl.engine),
  ("thr", LA.Thr.engine),
  ("cw", LA.WC.engine),
  ("det", LA.WC.engine),
  ("xtr", LA.Xtr.engine),
  ("xtrtar", LA.Xtr.engine),
  ("xtrdeep", LA.Xtr.engine),
  ("pathclean", LA.Xtr.enginePath),
  ("rdd", LA.RD.engine),
  ("flt", LA.Flt.engine),
  ("tree", LA.Tree.engine),
  ("codec", LA.Codec.engine),
  ("codecp", LA.Codec.engine),
  ("codec.c10", LA.Codec.oracle10),
  ("codec.c02", LA.Codec.oracle02)
]

partial def loop (e : Engine) (h : IO.FS.Stream) (out : IO.FS.Stream) (s : e.σ) : IO Unit := do
  let line ← h.getLine
  if line.isEmpty then return ()
  let line := if line.endsWith "\n" then (line.dropEnd 1).toString else line
  if line.startsWith "#case" then
    out.putStrLn line
    loop e h out e.init
  else
    let (op, obs) := match line.splitOn "\t" with
      | [a] => (a, "")
      | a :: b :: _ => (a, b)
      | [] => ("", "")
    let (s', o) := e.step s op obs
    out.putStrLn o
    loop e h out s'

def main (args : List String) : IO UInt32 := do
  match args with
  | [name] =>
    match engines.lookup name with
    | some e =>
      let out ← IO.getStdout
      loop e (← IO.getStdin) out e.init
      out.flush
      return 0
    | none => IO.eprintln s!"unknown engine {name}"; return 2
  | _ => IO.eprintln "usage: driver <engine>"; return 2
