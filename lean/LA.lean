-- Root of the `LA` library: generated tables, executable models, property theorems.
import LA.Model.Util
import LA.Props.C01
import LA.Props.C04
import LA.Props.C05
import LA.Props.C06
import LA.Props.C08
import LA.Props.C12
import LA.Props.C17
import LA.Props.C19
import LA.Props.C09
import LA.Props.C09Filters
import LA.Props.C11
import LA.Props.C03
import LA.Props.C02
import LA.Props.C10
