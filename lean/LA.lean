-- Root of the `LA` library: generated tables, executable models, property theorems.
import LA.Model.Util
