-- Root of the `LA` library: generated tables, executable models, property theorems.
import LA.Model.Util
import LA.Props.C01
import LA.Props.C05
import LA.Props.C08
import LA.Props.C17
import LA.Props.C02
import LA.Props.C10
