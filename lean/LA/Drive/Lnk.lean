/- Line-protocol glue for the `lnk` engine (C17). -/
import LA.Model.Lnk
namespace LA.Lnk

def descEnt (k : String) : Option Ent → String
  | none => s!"{k}=null"
  | some e =>
    let hl := match e.hardlink with | some t => toString t | none => "-"
    let ft := match e.ftype with
      | .reg => "100000" | .dir => "40000" | .blk => "60000" | .chr => "20000"
      | .lnk => "120000" | .fifo => "10000"
    s!"{k}={e.tag}:hl={hl}:sz={if e.sizeSet then 1 else 0}:k={e.dev}/{e.ino}/{e.nlink}/{ft}"

def parseFType : String → Option FType
  | "reg" => some .reg | "dir" => some .dir | "blk" => some .blk | "chr" => some .chr
  | "lnk" => some .lnk | "fifo" => some .fifo | _ => none

/-- Tag printed first in an observation like `e=12:hl=…` (none for `null`). -/
def obsTag (obs : String) (key : String) : Option Nat :=
  match (obs.splitOn " ").find? (·.startsWith (key ++ "=")) with
  | none => none
  | some w => (((w.drop (key.length + 1)).toString.splitOn ":").headD "").toNat?

/-- Index (among records satisfying `p`) of the first record for which `q` holds. -/
def indexAmong (p q : LE → Bool) (tbl : List LE) : Nat :=
  let cands := tbl.filter p
  (cands.findIdx? q).getD 0

def stepLine (s : State) (op obs : String) : State × String :=
  match LA.words op with
  | ["strategy", n] =>
    match n with
    | "tar" => ({ strategy := .tar }, "ok")
    | "mtree" => ({ strategy := .mtree }, "ok")
    | "oldcpio" => ({ strategy := .oldCpio }, "ok")
    | "newcpio" => ({ strategy := .newCpio }, "ok")
    | _ => (s, "bad-op")
  | ["push", t, d, i, n, ft] =>
    match t.toNat?, d.toInt?, i.toInt?, n.toNat?, parseFType ft with
    | some t, some d, some i, some n, some ft =>
      let (s', a, b) := push s { tag := t, dev := d, ino := i, nlink := n, ftype := ft }
      (s', descEnt "e" a ++ " " ++ descEnt "f" b)
    | _, _, _, _, _ => (s, "bad-op")
  | ["drain"] =>
    -- monitor: the implementation's answer selects which held record is drained
    let k := match obsTag obs "e" with
      | some t => indexAmong (fun le => le.held.isSome)
                    (fun le => match le.held with | some e => e.tag == t | none => false) s.tbl
      | none => 0
    let (s', a) := drainAt s k
    (s', descEnt "e" a ++ " f=null")
  | ["partial"] =>
    let k := match obsTag obs "p" with
      | some t => indexAmong (fun le => le.held.isNone) (fun le => le.canon == t) s.tbl
      | none => 0
    match partialAt s k with
    | (s', some (c, l)) => (s', s!"p={c}:links={l}")
    | (s', none) => (s', "p=null:links=0")
  | _ => (s, "bad-op")

def engine : LA.Engine := { σ := State, init := { strategy := .tar }, step := stepLine }

end LA.Lnk
