/-
Line-protocol glue for the `api` engine (C07): the model of LA/Model/Handle.lean
run as a *monitor*.  For every op the implementation's line (`obs`) is parsed;
among the outcomes the model allows for that op (`candidates`) the first one
whose prediction equals the observation is taken.  If none does, the model
prints the prediction of its first candidate, which then differs from the
implementation's line and is reported as a correspondence break.
-/
import LA.Model.Handle
namespace LA.Api
open LA.Handle LA.Gen.ApiStates

structure DState where
  kind : Option Kind := none
  h : Option Handle := none
  /-- the client callbacks registered with the current handle are the harness's counting ones -/
  cb : Bool := false
  /-- callback totals over the case, as the harness prints them -/
  tOpen : Nat := 0
  tClose : Nat := 0
  tFree : Nat := 0
  /-- writer: name of the format set last (decides whether write_header allocates a per-entry compressor) -/
  fmt : String := ""
  /-- some handle of this case was freed while it still owned something -/
  leaked : Bool := false

def parseKind : String → Option Kind
  | "read" => some .read | "write" => some .write | "wdisk" => some .writeDisk
  | "rdisk" => some .readDisk | "match" => some .«match» | _ => none

def rcs : List Rc := [.ok, .warn, .failed, .fatal, .eof, .retry]

/-- Outcomes with every combination of the listed field values. -/
def outcomes (rc rc2 rc3 : List Rc) (ns : List Nat) (flags : List Bool) (alts : List Nat) : List Outcome :=
  alts.flatMap fun alt => ns.flatMap fun n => flags.flatMap fun flag =>
    rc3.flatMap fun c => rc2.flatMap fun b => rc.map fun a =>
      { rc := a, rc2 := b, rc3 := c, n := n, flag := flag, alt := alt }

def setFormatFunc : String → Option String
  | "ustar" => some "archive_write_set_format_ustar" | "pax" => some "archive_write_set_format_pax"
  | "cpio" => some "archive_write_set_format_cpio_newc" | "zip" => some "archive_write_set_format_zip"
  | "raw" => some "archive_write_set_format_raw" | "mtree" => some "archive_write_set_format_mtree_default"
  | "7zip" => some "archive_write_set_format_7zip" | "xar" => some "archive_write_set_format_xar"
  | "ar" => some "archive_write_set_format_ar_bsd" | "iso9660" => some "archive_write_set_format_iso9660"
  | "shar" => some "archive_write_set_format_shar" | "warc" => some "archive_write_set_format_warc"
  | _ => none

/-- Protocol op → model op and the outcomes the monitor may choose from. -/
def decode (d : DState) (k : Kind) (w : List String) : Option (Op × List Outcome) :=
  let plain (f : String) := some (Op.plain f, outcomes (rcs ++ [.pos]) [.ok] [.ok] [0] [false] [0, 9])
  let unch := some (Op.unchecked, outcomes rcs [.ok] [.ok] [0] [false] [0])
  match w with
  | ["errno"] | ["error_string"] => unch
  | ["fail"] => some (.fail, [{}])
  | ["free"] => some (.free, outcomes rcs rcs [.ok] [0] [false] [0, 2])
  | ["close"] => if k == .«match» then none else some (.close, outcomes [.ok] rcs [.ok] [0] [false] [0, 2])
  | _ =>
  match k, w with
  -- reader
  | .read, ["support_format_all"] => plain "archive_read_support_format_all"
  | .read, ["support_filter_all"] => plain "archive_read_support_filter_all"
  | .read, ["support_format_raw"] => plain "archive_read_support_format_raw"
  | .read, ["set_options", _] => plain "_archive_set_options"
  | .read, ["header_position"] => plain "archive_read_header_position"
  | .read, "open_mem" :: _ => some (.rOpen (some "archive_read_open_memory2") true, outcomes [.fatal, .failed, .warn] [.ok] [.ok] [0] [false] [0, 1, 2, 3])
  | .read, "open_file" :: _ => some (.rOpen (some "archive_read_open_filenames") true, outcomes [.fatal, .failed, .warn] [.ok] [.ok] [0] [false] [0, 1, 2, 3])
  | .read, "open_fd" :: _ => some (.rOpen (some "archive_read_open_fd") true, outcomes [.fatal, .failed, .warn] [.ok] [.ok] [0] [false] [0, 1, 2, 3])
  | .read, "open_cb" :: _ => some (.rOpen none true, outcomes [.fatal, .failed, .warn] [.ok] [.ok] [0] [false] [0, 1, 2, 3])
  | .read, ["set_read_cb"] => some (.rSetReader, [{}])
  | .read, ["open1"] => some (.rOpen none false, outcomes [.fatal, .failed, .warn] [.ok] [.ok] [0] [false] [0, 1, 2, 3])
  | .read, ["next_header"] | .read, ["next_header2"] => some (.rNextHeader, outcomes rcs rcs [.ok] [0] [false] [0])
  | .read, ["read_data", "0"] => unch
  | .read, ["read_data", _] => some (.rReadData, outcomes rcs [.ok] [.ok] [0] [false, true] [0])
  | .read, ["read_data_block"] => some (.rReadDataBlock, outcomes rcs [.ok] [.ok] [0] [false] [0])
  | .read, ["data_skip"] => some (.rDataSkip, outcomes rcs [.ok] [.ok] [0] [false] [0])
  | .read, ["seek_data"] => some (.rSeekData, outcomes rcs [.ok] [.ok] [0] [false] [0])
  -- writer
  | .write, ["set_format", f] => (setFormatFunc f).map fun fn => (Op.wSetFormat fn, outcomes rcs [.ok] [.ok] [0] [false] [0])
  | .write, ["add_filter", "none"] => unch
  | .write, ["add_filter", f] => some (.wAddFilter ("archive_write_add_filter_" ++ f), outcomes rcs [.ok] [.ok] [0] [false] [0])
  | .write, ["set_options", _] => plain "_archive_set_options"
  | .write, ["set_bytes_per_block", _] => plain "archive_write_set_bytes_per_block"
  | .write, ["get_bytes_per_block"] => plain "archive_write_get_bytes_per_block"
  | .write, ["open_mem"] => some (.wOpen (some "archive_write_open_memory"), outcomes [.fatal, .failed, .warn] rcs [.ok] [9, 0, 1, 2, 3] [false] [0])
  | .write, ["open_file", _] => some (.wOpen (some "open_filename"), outcomes [.fatal, .failed, .warn] rcs [.ok] [9, 0, 1, 2, 3] [false] [0])
  | .write, ["open_fd"] => some (.wOpen (some "archive_write_open_fd"), outcomes [.fatal, .failed, .warn] rcs [.ok] [9, 0, 1, 2, 3] [false] [0])
  | .write, "open_cb" :: _ => some (.wOpen none, outcomes [.fatal, .failed, .warn] rcs [.ok] [9, 0, 1, 2, 3] [false] [0])
  | .write, ["write_header", _, ty, sz] =>
      -- the zip writer (default: deflate) allocates a compressor per regular file
      -- that only its finish_entry releases
      let _ := sz
      let holds := d.fmt == "zip" && ty == "reg"
      some (.wHeader, outcomes rcs rcs [.ok, .warn, .failed, .fatal] [0] [holds] [0, 1])
  | .write, ["write_data", _] => some (.wData, outcomes rcs [.ok] [.ok] [0] [false] [0])
  | .write, ["finish_entry"] => some (.wFinishEntry, outcomes [.ok] rcs [.ok] [0] [false] [0])
  -- disk writer
  | .writeDisk, ["set_options", _] => unch
  | .writeDisk, ["set_standard_lookup"] =>
      some (.lookup "archive_write_disk_set_standard_lookup" "archive_write_disk_set_group_lookup", [{}])
  | .writeDisk, ["set_skip_file"] => plain "archive_write_disk_set_skip_file"
  | .writeDisk, "header" :: _ => some (.dHeader, outcomes rcs rcs [.ok] [0, 1, 2] [false, true] [0, 1, 2])
  | .writeDisk, ["data", _] => some (.dData, outcomes rcs [.ok] [.ok] [0] [false] [0])
  | .writeDisk, ["data_block", _, _] => some (.dDataBlock, outcomes rcs [.ok] [.ok] [0] [false] [0])
  | .writeDisk, ["finish_entry"] => some (.dFinishEntry, outcomes [.ok] rcs [.ok] [0] [false] [0, 2])
  -- disk reader
  | .readDisk, ["open", _] => some (.kOpen, outcomes [.ok] [.ok] [.ok] [0] [false] [0, 9])
  | .readDisk, ["next_header2"] | .readDisk, ["next_header"] => some (.kNextHeader, outcomes rcs [.ok] [.ok] [0] [false] [0, 9])
  | .readDisk, ["descend"] => plain "archive_read_disk_descend"
  | .readDisk, ["can_descend"] => plain "archive_read_disk_can_descend"
  | .readDisk, ["read_data_block"] => some (.kReadDataBlock, outcomes rcs [.ok] [.ok] [0] [false] [0])
  | .readDisk, ["set_behavior", _] => plain "archive_read_disk_set_behavior"
  | .readDisk, ["set_symlink_logical"] => plain "archive_read_disk_set_symlink_logical"
  | .readDisk, ["set_standard_lookup"] =>
      some (.lookup "archive_read_disk_set_standard_lookup" "archive_read_disk_set_gname_lookup", [{}])
  | .readDisk, ["current_filesystem"] => plain "archive_read_disk_current_filesystem"
  -- matcher
  | .«match», ["exclude_pattern", _] => plain "archive_match_exclude_pattern"
  | .«match», ["include_pattern", _] => plain "archive_match_include_pattern"
  | .«match», ["path_excluded", _] => plain "archive_match_path_excluded"
  | .«match», ["excluded", _] => plain "archive_match_excluded"
  | .«match», ["include_uid", _] => plain "archive_match_include_uid"
  | .«match», ["include_uname", _] => plain "archive_match_include_uname"
  | .«match», ["include_time", _] | .«match», ["include_date", _] | .«match», ["exclude_entry", _] => plain "validate_time_flag"
  | .«match», ["owner_excluded", _] => plain "archive_match_owner_excluded"
  | .«match», ["time_excluded", _] => plain "archive_match_time_excluded"
  | .«match», ["unmatched_inclusions"] => plain "archive_match_path_unmatched_inclusions"
  | .«match», ["unmatched_next"] => plain "archive_match_path_unmatched_inclusions_next"
  | .«match», ["set_recursion", _] => plain "archive_match_set_inclusion_recursion"
  | _, _ => none

/-- The line the harness prints after a call (`report()` in eng_api.c). -/
def render (d : DState) (k : Kind) (h : Handle) (rc : Rc) : String :=
  let rcName := match rc with
    | .pos => "pos" | r => r.name
  let st := if h.alive then h.st.name else "-"
  let extra := match k with
    | .read => s!" cl={d.tClose}"
    | .write => s!" op={d.tOpen} cl={d.tClose} fr={d.tFree}"
    | .writeDisk => if h.alive then s!" fx={h.fixups} fd={b2n h.fd}" else " fx=- fd=-"
    | _ => ""
  s!"{rcName} st={st}{extra}"

/-- Does the registration part of an open op get through (is the handle still NEW enough)? -/
def clientAfter (d : DState) (k : Kind) (h : Handle) (w : List String) : Bool :=
  match k, w with
  | .read, "open_cb" :: _ =>
      if (checked h "archive_read_set_read_callback" fun h => (h, .ok)).2 == .ok then true else d.cb
  | .read, "open_mem" :: _ | .read, "open_file" :: _ | .read, "open_fd" :: _ =>
      if (checked h "archive_read_set_read_callback" fun h => (h, .ok)).2 == .ok then false else d.cb
  | .write, "open_cb" :: _ =>
      if (checked h "archive_write_open2" fun h => (h, .ok)).2 == .ok then true else d.cb
  | .write, "open_mem" :: _ | .write, "open_file" :: _ | .write, "open_fd" :: _ =>
      if (checked h "archive_write_open2" fun h => (h, .ok)).2 == .ok then false else d.cb
  | _, _ => d.cb

/-- Apply one candidate outcome: new engine state and the predicted line. -/
def apply (d : DState) (k : Kind) (h : Handle) (w : List String) (op : Op) (o : Outcome) : DState × String :=
  let cb := clientAfter d k h w
  let (h', rc) := step h op o
  let d1 := if cb then
      { d with cb := cb, tOpen := d.tOpen + (h'.nOpen - h.nOpen), tClose := d.tClose + (h'.nClose - h.nClose),
               tFree := d.tFree + (h'.nFree - h.nFree) }
    else { d with cb := cb }
  let d2 := match w with
    | ["set_format", f] => if rc != .fatal || h'.st == h.st then { d1 with fmt := f } else d1
    | _ => d1
  let line := render d2 k h' rc
  if h'.alive then ({ d2 with h := some h' }, line)
  else
    let dirty := ledger h' != Ledger.empty || h'.lost != 0 || h'.bad != 0
    ({ d2 with h := none, cb := false, fmt := "", leaked := d2.leaked || dirty }, line)

def stepLine (d : DState) (opText obs : String) : DState × String :=
  let w := LA.words opText
  match w with
  | ["kind", k] =>
    match parseKind k with
    | some k => ({ kind := some k }, "ok")
    | none => (d, "bad-op")
  | ["fds"] =>
    match d.kind with
    | none => (d, "bad-op")
    | some k =>
      -- the harness frees a handle that is still alive before it counts descriptors
      let d1 := match d.h with
        | some h => (apply d k h ["free"] .free {}).1
        | none => d
      (d1, if d1.leaked then "fds=0\n!teardown exit=99" else "fds=0")
  | _ =>
  match d.kind with
  | none => (d, "bad-op")
  | some k =>
    match d.h, w with
    | none, ["new"] => let h := Handle.new k; ({ d with h := some h }, render d k h .ok)
    | none, _ => (d, "nohandle")
    | some _, ["new"] => (d, "nohandle")
    | some h, _ =>
      match decode d k w with
      | none => (d, "bad-op")
      | some (op, cands) =>
        let tries := cands.map fun o => apply d k h w op o
        match tries.find? fun t => t.2 == obs with
        | some t => t
        | none =>
          match tries.head? with
          | some t => (t.1, t.2 ++ " !unexplained")
          | none => (d, "bad-op")

def engine : LA.Engine := { σ := DState, init := {}, step := stepLine }

end LA.Api
