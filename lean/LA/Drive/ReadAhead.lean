/- Line-protocol glue for the `rda` engine (C01/C05/C08). -/
import LA.Model.ReadAhead
namespace LA.RA

structure DState where
  s : State := {}
  useSkip : Bool := false
  opened : Bool := false
  openFatal : Bool := false

def flags (d : DState) : String :=
  if !d.opened || d.openFatal then " pos=- eof=- fatal=-"
  else s!" pos={d.s.position} eof={if d.s.eof then 1 else 0} fatal={if d.s.fatal then 1 else 0}"

def parseBlocks : List String → Option (List (List Nat))
  | [] => some []
  | w :: ws => do
    let b ← LA.parseHex w
    let r ← parseBlocks ws
    pure (b :: r)

def stepLine (d : DState) (op _obs : String) : DState × String :=
  match LA.words op with
  | "src" :: t :: ws =>
    match parseBlocks ws with
    | some bs => ({ d with s := { d.s with src := bs, term := if t == "err" then .err else .eof } }, "ok")
    | none => (d, "bad-op")
  | "node" :: ws =>
    match parseBlocks ws with
    | some bs => ({ d with s := { d.s with later := d.s.later ++ [bs] } }, "ok")
    | none => (d, "bad-op")
  | "skips" :: ws =>
    match ws.mapM String.toInt? with
    | some ks => ({ d with s := { d.s with skips := ks }, useSkip := true }, "ok")
    | none => (d, "bad-op")
  | ["open"] =>
    -- archive_read_open1: choose_filters verifies the source with ahead(1); the raw
    -- and empty format bidders peek with ahead(1) as well.
    let (r, s1) := ahead d.s 1
    match r with
    | .fatal =>
      let d' := { d with s := s1, opened := true, openFatal := true }
      (d', "open fatal" ++ flags d')
    | _ =>
      let d' := { d with s := s1, opened := true }
      (d', "open ok" ++ flags d')
  | ["ahead", m] =>
    if !d.opened || d.openFatal then (d, "bad-op") else
    match m.toNat? with
    | none => (d, "bad-op")
    | some min =>
      let (r, s1) := ahead d.s min
      let d' := { d with s := s1 }
      let txt := match r with
        | .window w _ => s!"win {w.length} {LA.toHex (w.take min)} truth=ok"
        | .short k => s!"short {k}"
        | .fatal => "fatal"
        | .stuck => "stuck"
      (d', txt ++ flags d')
  | ["consume", m] =>
    if !d.opened || d.openFatal then (d, "bad-op") else
    match m.toInt? with
    | none => (d, "bad-op")
    | some n =>
      let (r, s1) := consume d.s n
      let d' := { d with s := s1 }
      ((d', (if r ≥ 0 then s!"consumed {r}" else "fatal") ++ flags d'))
  | _ => (d, "bad-op")

def engine : LA.Engine := { σ := DState, init := {}, step := stepLine }

end LA.RA
