/- Shared parsing/printing helpers of the C20 engines (`enc`, `trad`, `pass`, `zipenc`). -/
import LA.Model.Util
namespace LA.C20U

def toBytes (l : List Nat) : List UInt8 := l.map Nat.toUInt8
def ofBytes (l : List UInt8) : List Nat := l.map UInt8.toNat

def parseBytes (s : String) : Option (List UInt8) := (LA.parseHex s).map toBytes
def hexOf (l : List UInt8) : String := LA.toHex (ofBytes l)

/-- fixed-width lower-case hex -/
def hexW (width : Nat) (n : Nat) : String :=
  String.ofList ((List.range width).reverse.map fun i => LA.hexNibble (n / 16 ^ i % 16))

/-- value of `key=` among blank-separated words -/
def field (ws : List String) (key : String) : Option String :=
  match ws.find? (·.startsWith (key ++ "=")) with
  | some w => some (w.drop (key.length + 1)).toString
  | none => none

end LA.C20U
