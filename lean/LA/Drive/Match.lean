/- Line-protocol glue for the `match` engine (C16, archive_match.c). -/
import LA.Model.Util
import LA.Model.Match
import LA.Drive.Pm
namespace LA.Match
open LA.Pm

structure DState where
  st : State := {}
  e : Entry := {}

/-- narrow: the units are the bytes; wide: code points, converted as the library does. -/
def conv (v : String) (u : Option (List Nat)) : Option (List Nat) :=
  match u with
  | none => none
  | some u => if v == "w" then utf8 u else some u

def showUnits (u : List Nat) : String :=
  if u.isEmpty then "-" else ",".intercalate (u.map fun x => String.ofList (Nat.toDigits 16 x))

def status (o : Option State) (d : DState) : DState × String :=
  match o with
  | some st => ({ d with st := st }, "ok")
  | none => (d, "failed")

def stepLine (d : DState) (op obs : String) : DState × String :=
  match LA.words op with
  | ["incl", v, p] =>
    match parsePtr p with
    | some p => status (includePattern d.st (conv v p)) d
    | none => (d, "bad-op")
  | ["excl", v, p] =>
    match parsePtr p with
    | some p => status (excludePattern d.st (conv v p)) d
    | none => (d, "bad-op")
  | ["recursion", b] => ({ d with st := { d.st with recursiveInclude := b != "0" } }, "ok")
  | ["time", f, s, n] =>
    match f.toNat?, s.toInt?, n.toInt? with
    | some f, some s, some n => status (includeTime d.st f s n) d
    | _, _, _ => (d, "bad-op")
  | ["entry", v, p, _, _, _, _, _, _, _, un, gn] =>
    -- times and ids are taken as the entry object reports them (it normalises them; C14's business)
    match parsePtr p, parsePtr un, parsePtr gn, LA.words obs with
    | some p, some un, some gn, ["ok", ms, mn, cs, csec, cn, uid, gid] =>
      match ms.toInt?, mn.toInt?, csec.toInt?, cn.toInt?, uid.toInt?, gid.toInt? with
      | some ms, some mn, some csec, some cn, some uid, some gid =>
        ({ d with e := { path := conv v p, mtimeSec := ms, mtimeNsec := mn, ctimeSet := cs != "0",
                         ctimeSec := csec, ctimeNsec := cn,
                         uid := uid, gid := gid, uname := conv v un, gname := conv v gn } }, obs)
      | _, _, _, _, _, _ => (d, "bad-obs")
    | _, _, _, _ => (d, "bad-op")
  | ["exent", f] =>
    match f.toNat? with
    | some f => status (excludeEntry d.st f d.e) d
    | none => (d, "bad-op")
  | ["uid", i] => match i.toInt? with
    | some i => ({ d with st := includeUid d.st i }, "ok") | none => (d, "bad-op")
  | ["gid", i] => match i.toInt? with
    | some i => ({ d with st := includeGid d.st i }, "ok") | none => (d, "bad-op")
  | ["uname", v, n] =>
    match (parseUnits n).bind (fun u => conv v (some u)) with
    | some n => ({ d with st := includeUname d.st n }, "ok") | none => (d, "bad-op")
  | ["gname", v, n] =>
    match (parseUnits n).bind (fun u => conv v (some u)) with
    | some n => ({ d with st := includeGname d.st n }, "ok") | none => (d, "bad-op")
  | ["q", "path"] => let (st, r) := apiPathExcluded d.st d.e; ({ d with st := st }, s!"r={r}")
  | ["q", "time"] => (d, s!"r={apiTimeExcluded d.st d.e}")
  | ["q", "owner"] => (d, s!"r={apiOwnerExcluded d.st d.e}")
  | ["q", "all"] => let (st, r) := excluded d.st d.e; ({ d with st := st }, s!"r={r}")
  | ["unmatched"] => (d, s!"n={unmatchedInclusions d.st}")
  | ["unext", _] =>
    let (st, r) := unmatchedNextStep d.st
    ({ d with st := st }, match r with
      | none => "eof"
      | some p => if p.any (· ≥ 128) then "ok ?" else "ok " ++ showUnits p)
  | _ => (d, "bad-op")

def engine : LA.Engine := { σ := DState, init := {}, step := stepLine }

end LA.Match
