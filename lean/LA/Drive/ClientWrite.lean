/- Line-protocol glue for the `cw` engine (C09/C11): the write core and the client filter. -/
import LA.Model.WriteCore
namespace LA.WC
open LA.CW LA.Ustar

structure DState where
  h : Option Handle := none
  w : DW := .script []
  accLen : Nat := 0
  accHash : Nat := 14695981039346656037
  monitor : Bool := false        -- a format/filter the model does not cover: check the predicate on `obs` only
  freed : Bool := false
  fileCheck : Bool := false      -- this line ends with the file-content check of the fd/filename/FILE sinks
  sysScript : List SysAns := []
  sinkReg : Bool := false        -- the sink is a regular file (its content is read back at the end)
  sawFatal : Bool := false       -- an earlier call returned fatal (the handle may be in state FATAL)
  everBad : Bool := false        -- some earlier call saw a failing callback invocation
  sawFilter : Bool := false      -- a `filter` op was issued (the filter chain is freed when open fails)

def fnvStep (h b : Nat) : Nat := ((h ^^^ (b % 256)) * 1099511628211) % 18446744073709551616
def mix (h x : Nat) : Nat := ((h ^^^ (x % 18446744073709551616)) * 1099511628211) % 18446744073709551616

def cellByte : Cell → Nat
  | some b => b
  | none => 0

def offerHash (o : List Cell) : Nat := o.foldl (fun h c => fnvStep h (cellByte c)) 14695981039346656037

def eventsHash (evs : List Event) : Nat :=
  evs.foldl (fun h e => mix (mix (mix h (offerHash e.offer)) e.offer.length) (e.ret + 1000).toNat) 14695981039346656037

def rle : List Nat → List (Nat × Nat)
  | [] => []
  | x :: r =>
    match rle r with
    | (y, n) :: t => if x = y then (y, n + 1) :: t else (x, 1) :: (y, n) :: t
    | [] => [(x, 1)]

def rleStr (l : List Nat) : String :=
  if l.isEmpty then "-" else ",".intercalate ((rle l).map fun (x, n) => s!"{x}*{n}")

def stName (r : Int) : String :=
  if r = 0 then "ok" else if r = -20 then "warn" else if r = -25 then "failed" else if r = -30 then "fatal"
  else if r = -10 then "retry" else if r = 1 then "eof" else if r = -99 then "MODEL-OOB" else if r > 0 then "pos" else "other"

/-- Account for the events of one call and format the common tail of the output line. -/
def report (d : DState) (evs : List Event) : DState × String :=
  let tk := taken evs
  let accHash := tk.foldl (fun h c => fnvStep h (cellByte c)) d.accHash
  let bad := evs.any (fun e => e.ret ≤ 0)
  let d' := { d with accLen := d.accLen + tk.length, accHash := accHash, everBad := d.everBad || bad }
  let undef := evs.any (fun e => e.offer.any Option.isNone)
  let memTxt := match d.w with
    | .mem m => s!" used={m.clientUsed}" ++ (if m.oob then " MODEL-OOB" else "")
    | .fd s => s!" sys={s.n} short={s.short} eintr={s.eintr} sh={s.h}"
    | _ => ""
  let streamTxt := match d.h with
    | some h => if h.fmt = .raw ∧ h.enc.isNone ∧ !d.sawFilter ∧ !d.everBad then " stream=ok" else ""
    | none => ""
  (d', s!" ev={evs.length} sz={rleStr (evs.map (·.offer.length))} h={eventsHash evs} bad={if bad then 1 else 0}" ++
    s!" acc={d'.accLen}:{d'.accHash}" ++ (if undef then " UNDEF" else "") ++ streamTxt ++ memTxt ++
    (if d.fileCheck then " file=ok" else ""))

def finish (d : DState) (name : String) (r : Int × Handle × List Event × DW) (asCount : Bool := false) :
    DState × String :=
  let d1 := { d with h := some r.2.1, w := r.2.2.2 }
  let (d2, tail) := report d1 r.2.2.1
  (d2, name ++ " " ++ (if asCount ∧ r.1 ≥ 0 then toString r.1 else stName r.1) ++ tail)

def parseAns (s : String) : Option Ans :=
  if s == "z" then some .zero
  else if s == "e" then some .error
  else if s == "A" then some (.accept 1000000000)
  else if s.startsWith "a" then (s.drop 1).toString.toNat?.map Ans.accept
  else none

def parseSys (s : String) : Option SysAns :=
  if s == "z" then some .zero
  else if s == "e" then some .error
  else if s == "i" then some .eintr
  else if s == "A" then some (.accept 1000000000)
  else if s.startsWith "a" then (s.drop 1).toString.toNat?.map SysAns.accept
  else none

def genRand (len seed : Nat) : List Nat :=
  let rec go : Nat → Nat → List Nat → List Nat
    | 0, _, acc => acc.reverse
    | n + 1, x, acc =>
      let x' := (x * 1103515245 + 12345) % 2147483648
      go n x' ((x' / 65536) % 256 :: acc)
  go len (seed % 2147483648) []

def parseType : String → Option FileType
  | "reg" => some .reg | "dir" => some .dir | "lnk" => some .lnk | "hard" => some .reg
  | "chr" => some .chr | "blk" => some .blk | "fifo" => some .fifo | "sock" => some .sock
  | _ => none

def genFill (len seed : Nat) : List Nat :=
  (List.range len).map fun i => (seed + i * 7 + i / 256) % 256

/-- Monitor mode: the only thing checked is the property predicate on what the
implementation printed: a call during which the callback failed must not report success. -/
def monitorLine (obs : String) (freeOnFatal : Bool := false) : String :=
  let ws := LA.words obs
  -- archive_write_free on a handle that is already FATAL closes the filters and deliberately
  -- drops the status of that ("(void)__archive_write_filters_close(a)")
  let bad := ws.contains "bad=1" && !(freeOnFatal && ws.head? == some "free")
  let st := ws.getD 1 ""
  let okish := st == "ok" || st == "warn" || st.toNat?.isSome
  if bad && okish then "VIOLATED write-fault-not-reported: " ++ obs else obs

/-- `archive_write_open_fd` / `_filename` (regular file: unpadded by default) / `_FILE`. -/
def openSink (d : DState) (h : Handle) (byFdOrName : Bool) (kind : String) : DState × String :=
  -- S_ISCHR / S_ISBLK / S_ISFIFO: /dev/null, a FIFO, a pipe; a socket or a regular file is neither
  let pads := kind == "fifo" || kind == "null" || kind == "pipe"
  let h' := { h with fileSink := byFdOrName, sinkPads := pads }
  let w0 : DW := .fd { sc := d.sysScript }
  finish { d with w := w0, sinkReg := kind == "reg" } "open" (apiOpen driverWriter w0 h')

def stepLine0 (d : DState) (op obs : String) : DState × String :=
  let ws := LA.words op
  -- structural ops first (also in monitor mode)
  match ws with
  | ["new"] => ({ h := some {} }, "ok")
  | "sys" :: as =>
    match as.mapM parseSys with
    | some sc => ({ d with sysScript := sc }, "ok")
    | none => (d, "bad-op")
  | "script" :: as =>
    match as.mapM parseAns with
    | some sc => ({ d with w := .script sc }, "ok")
    | none => (d, "bad-op")
  | ["leakcheck"] =>
    -- after `free` nothing the handle owned may remain: the model's handle is a value, it owns nothing.
    -- In monitor mode the implementation's answer is passed through for the predicate.
    if d.monitor then (d, obs) else (d, "leaks=0")
  | _ =>
  match d.h with
  | none => (d, "bad-op")
  | some h =>
  if d.freed then (d, "bad-op") else
  match ws with
  | ["fmt", f] =>
    if h.state ≠ .new then (if d.monitor then (d, obs) else ({ d with h := some { h with state := .fatal } }, "fmt fatal")) else
    if f == "raw" then ({ d with h := some { h with fmt := .raw } }, "fmt ok")
    else if f == "ustar" then ({ d with h := some { h with fmt := .ustar } }, "fmt ok")
    else ({ d with monitor := true }, obs)
  | ["filter", f] =>
    if d.monitor then (d, obs) else
    if h.state ≠ .new then ({ d with h := some { h with state := .fatal } }, "filter fatal") else
    if h.enc.isSome then ({ d with monitor := true }, obs) else
    if f == "b64" then ({ d with sawFilter := true, h := some { h with enc := some { kind := .b64 } } }, "filter ok")
    else if f == "uu" then ({ d with sawFilter := true, h := some { h with enc := some { kind := .uu } } }, "filter ok")
    else ({ d with monitor := true }, obs)
  | ["opt", _] =>
    -- writer/filter options are outside the model: from here on only the predicates are checked
    ({ d with monitor := true }, obs)
  | ["opener", v] =>
    match v.toInt? with
    | some r => ({ d with h := some { h with openerRet := r } }, "ok")
    | none => (d, "bad-op")
  | _ =>
  if d.monitor then (d, monitorLine obs d.sawFatal) else
  match ws with
  | ["bpb", v] =>
    match v.toInt? with
    | none => (d, "bad-op")
    | some n =>
      -- archive_write_set_bytes_per_block: ARCHIVE_STATE_NEW; negative values are ignored
      if h.state ≠ .new then ({ d with h := some { h with state := .fatal } }, "bpb fatal")
      else if n < 0 then (d, "bpb ok")
      else ({ d with h := some { h with bpb := n.toNat } }, "bpb ok")
  | ["bil", v] =>
    match v.toInt? with
    | none => (d, "bad-op")
    | some n =>
      let r := setBil h n
      ({ d with h := some r.2 }, "bil " ++ stName r.1)
  | ["open"] => finish d "open" (apiOpen driverWriter d.w h)
  | ["openfd"] => openSink d h true "reg"
  | ["openfile"] => openSink d h true "reg"
  | ["openFILE"] => openSink d h false "reg"
  | ["openFILE", "reg"] => openSink d h false "reg"
  | ["openfd", k] => if k == "reg" || k == "fifo" || k == "null" || k == "pipe" || k == "sock" then openSink d h true k else (d, "bad-op")
  | ["openfile", k] => if k == "reg" || k == "fifo" || k == "null" then openSink d h true k else (d, "bad-op")
  | ["openmem", blk, sz] =>
    match blk.toNat?, sz.toNat? with
    | some b, some s =>
      let h' := { h with memSink := true }
      finish { d with w := .mem (LA.MemSink.memOpen b s) } "open" (apiOpen driverWriter (.mem (LA.MemSink.memOpen b s)) h')
    | _, _ => (d, "bad-op")
  | ["header", ty, path, size, mode, uid, gid, mtime, un, gn, link, rmaj, rmin] =>
    match parseType ty, LA.parseHex path, size.toInt?, mode.toNat?, uid.toInt?, gid.toInt?, mtime.toInt?,
      LA.parseHex un, LA.parseHex gn, LA.parseHex link, rmaj.toInt?, rmin.toInt? with
    | some ft, some p, some sz, some md, some u, some g, some mt, some unm, some gnm, some lk, some rj, some rn =>
      let hl : List Nat := if ty == "hard" then lk else []
      let sl : List Nat := if ty == "lnk" then lk else []
      let e : Entry := {
        pathname := p
        -- archive_entry_set_size/_uid/_gid store 0 for a negative argument
        size := if sz < 0 then 0 else sz
        mode := md
        uid := if u < 0 then 0 else u
        gid := if g < 0 then 0 else g
        mtime := mt
        uname := unm
        gname := gnm
        filetype := ft
        hardlink := hl
        symlink := sl
        rdevmajor := rj
        rdevminor := rn }
      finish d "header" (apiHeader driverWriter d.w h e)
    | _, _, _, _, _, _, _, _, _, _, _, _ => (d, "bad-op")
  | ["data", hex] =>
    match LA.parseHex hex with
    | some bs => finish d "data" (apiData driverWriter d.w h (bs.map some)) true
    | none => (d, "bad-op")
  | ["rand", len, seed] =>
    match len.toNat?, seed.toNat? with
    | some l, some s => finish d "data" (apiData driverWriter d.w h ((genRand l s).map some)) true
    | _, _ => (d, "bad-op")
  | ["pass", _] => (d, if h.state = .new then "pass ok" else "pass fatal")
  | ["fill", len, seed] =>
    match len.toNat?, seed.toNat? with
    | some l, some s => finish d "data" (apiData driverWriter d.w h ((genFill l s).map some)) true
    | _, _ => (d, "bad-op")
  | ["finish"] => finish d "finish" (apiFinishEntry driverWriter d.w h)
  | ["close"] => finish d "close" (apiClose driverWriter d.w h)
  | ["free"] =>
    let isFd := match d.w with | .fd _ => d.sinkReg | _ => false
    let r := finish { d with fileCheck := isFd } "free" (apiFree driverWriter d.w h)
    ({ r.1 with freed := true, fileCheck := false }, r.2)
  | _ => (d, "bad-op")

/-- Engine `det` merges two runs of the implementation under different heap/stack poison; a
line on which they differ arrives as `NONDET …` and is a violation of C11 whatever the model says. -/
def stepLine (d : DState) (op obs : String) : DState × String :=
  let r0 := stepLine0 d op obs
  let r := ({ r0.1 with sawFatal := r0.1.sawFatal || (LA.words r0.2).getD 1 "" == "fatal" }, r0.2)
  if obs.startsWith "NONDET" then (r.1, "VIOLATED output-depends-on-heap-or-stack-contents: " ++ obs) else r

def engine : LA.Engine := { σ := DState, init := {}, step := stepLine }

end LA.WC
