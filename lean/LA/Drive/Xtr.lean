/- Line-protocol glue for the `xtr` / `xtrtar` / `pathclean` engines (C04). -/
import LA.Model.Extract
namespace LA.Xtr
open LA.FS LA.PathClean

def s2b (s : String) : List Nat := s.toUTF8.toList.map (·.toNat)

def CT : Int := 500000000

/-- The canary tree of harness/eng_xtr.c: /R with a, a/b, a/b/f, a/a, b, f, d, l -> b, target. -/
def initFS : FS :=
  let f (i : Nat) := Tree.file i
  { root := .dir 493 0 [(s2b "R", .dir 493 CT [
      (s2b "a", .dir 493 CT [(s2b "b", .dir 493 CT [(s2b "f", f 1)]), (s2b "a", f 2)]),
      (s2b "b", f 3), (s2b "f", f 4), (s2b "d", .dir 448 CT []), (s2b "l", f 5),
      (s2b "target", .dir 493 CT [])])],
    files := fun i => match i with
      | 1 => some (.reg (s2b "cabf") 420 CT) | 2 => some (.reg (s2b "caa") 420 CT)
      | 3 => some (.reg (s2b "cb") 420 CT) | 4 => some (.reg (s2b "cf") 384 CT)
      | 5 => some (.lnk (s2b "b")) | _ => none,
    next := 10 }

def targetPos : List Name := [s2b "R", s2b "target"]

structure DState where
  pr : Proc := { fs := initFS, cwd := targetPos, umask := 18 }
  w : Writer := { flags := {} }
  tar : Bool := false
  deep : Bool := false   -- monitor only: pathnames of PATH_MAX and more (predicate on the implementation's line)

/-! ### snapshot (executable only) -/

def octal (n : Nat) : String := String.ofList (Nat.toDigits 8 n)

def hex16 (n : Nat) : String :=
  let d := Nat.toDigits 16 n
  String.ofList (List.replicate (16 - d.length) '0' ++ d)

def mtStr (t : Int) : String := if t > 0 ∧ t < 1500000000 then toString t else "now"

partial def countRefs (ino : Nat) : Tree → Nat
  | .file i => if i = ino then 1 else 0
  | .dir _ _ es => es.foldl (fun n (_, t) => n + countRefs ino t) 0

def strLt (a b : List Nat) : Bool := strGt b a

/-- A path in a snapshot: hex, or "#<length>.<fnv>" when longer than 200 bytes (as harness/xtr_tree.h). -/
def pathStr (rel : List Nat) : String :=
  if rel.length > 200 then s!"#{rel.length}.{hex16 (LA.fnv1a rel)}" else LA.toHex rel

def descr (fs : FS) (rel : List Nat) (t : Tree) : String :=
  " " ++ pathStr rel ++ ":" ++
  match t with
  | .dir m mt _ => s!"d:{octal m}:{mtStr mt}"
  | .file i => match fs.files i with
    | some (.reg d m mt) => s!"f:{octal m}:{countRefs i fs.root}:{d.length}:{hex16 (LA.fnv1a d)}:{mtStr mt}"
    | some (.lnk tg) => s!"l:{LA.toHex tg}"
    | some (.fifo m mt) => s!"p:{octal m}:{mtStr mt}"
    | none => "?"

partial def snapWalk (fs : FS) (rel : List Nat) : Tree → String
  | .file _ => ""
  | .dir _ _ es =>
    let sorted := es.toArray.qsort (fun a b => strLt a.1 b.1) |>.toList
    sorted.foldl (fun acc (n, t) =>
      let r := if rel.isEmpty then n else rel ++ [SLASH] ++ n
      acc ++ descr fs r t ++ snapWalk fs r t) ""

/-- Serialisation of everything outside the target (the target subtree replaced by a hole). -/
partial def serial (fs : FS) (skip : Option (List Name)) (pos : List Name) : Tree → String
  | .file i => match fs.files i with
    | some (.reg d m mt) => s!"f{i}:{m}:{mt}:{LA.toHex d}"
    | some (.lnk tg) => s!"l{i}:{LA.toHex tg}"
    | some (.fifo m mt) => s!"p{i}:{m}:{mt}"
    | none => "?"
  | .dir m mt es =>
    if skip = some pos then "HOLE" else
    s!"d:{m}:{mt}[" ++ es.foldl (fun acc (n, t) => acc ++ LA.toHex n ++ "=" ++ serial fs skip (pos ++ [n]) t ++ ";") "" ++ "]"

def canaryStr (fs : FS) : String := serial fs (some targetPos) [] fs.root

def snapshot (fs : FS) : String :=
  match get fs.root targetPos with
  | some t =>
    "T" ++ descr fs [DOT] t ++ snapWalk fs [] t ++ " | canary=" ++
      (if canaryStr fs = canaryStr initFS then "ok" else "CHANGED")
  | none => "T? | canary=CHANGED"

/-! ### pre-existing content: planted without following symlinks -/

/-- Walk real directories only, creating missing ones 0755 when `create`; the
tree built so far is returned also when the walk is stopped by a non-directory. -/
def safeParents (fs : FS) (pos : List Name) (create : Bool) : List Name → FS × Option (List Name)
  | [] => (fs, some pos)
  | c :: rest =>
    match (get fs.root pos).bind (·.child c) with
    | some (.dir ..) => safeParents fs (pos ++ [c]) create rest
    | some (.file _) => (fs, none)
    | none => if create then safeParents (putAt fs pos c (.dir 493 0 [])) (pos ++ [c]) create rest else (fs, none)

def plant (fs0 : FS) (kind : String) (path arg : List Nat) (mode : Nat) : FS × Bool :=
  let comps := compsOf path
  -- a hard link source is looked up first (and nothing is created when it is unusable)
  let src : Option (Option Nat) :=
    if kind = "hardlink" then
      let ac := compsOf arg
      match ac.getLast? with
      | none => none
      | some an =>
        match safeParents fs0 targetPos false ac.dropLast with
        | (_, none) => none
        | (_, some ad) =>
          match (get fs0.root ad).bind (·.child an) with
          | some (.file i) => some (some i)
          | _ => none
    else if kind = "symlink" ∧ arg = [] then none
    else some none
  match src, comps.getLast? with
  | some src, some n =>
    match safeParents fs0 targetPos true comps.dropLast with
    | (fs, none) => (fs, false)
    | (fs, some d) =>
      if ((get fs.root d).bind (·.child n)).isSome then (fs, false) else
      match kind, src with
      | "dir", _ => (putAt fs d n (.dir mode 0 []), true)
      | "file", _ => let (fs, i) := alloc fs (.reg arg mode 0); (putAt fs d n (.file i), true)
      | "symlink", _ => let (fs, i) := alloc fs (.lnk arg); (putAt fs d n (.file i), true)
      | "fifo", _ => let (fs, i) := alloc fs (.fifo mode 0); (putAt fs d n (.file i), true)
      | "hardlink", some i => (putAt fs d n (.file i), true)
      | _, _ => (fs, false)
  | _, _ => (fs0, false)

/-! ### the engines -/

def parseOct (s : String) : Option Nat :=
  s.toList.foldl (fun acc c => match acc with
    | none => none
    | some n => if '0' ≤ c ∧ c ≤ '7' then some (n * 8 + (c.toNat - '0'.toNat)) else none) (some 0)

def parseKind : String → Option EKind
  | "file" => some .file | "dir" => some .dir | "symlink" => some .symlink
  | "hardlink" => some .hardlink | "fifo" => some .fifo | _ => none

def parseFlags (ws : List String) : XFlags :=
  { unlink := ws.contains "unlink", noOverwrite := ws.contains "nooverwrite", safeWrites := ws.contains "safewrites",
    perm := ws.contains "perm", time := ws.contains "time" }

def stepXtr (s : DState) (op obs : String) : DState × String :=
  match LA.words op with
  | ["mode", m] => ({ s with tar := m == "tar", deep := m == "deepmon" }, "ok")
  | "opts" :: ws =>
    let fl := parseFlags ws
    ({ s with w := { s.w with flags := fl } }, s!"ok flags={fl.bits}")
  | ["pre", k, p, a, m] =>
    match LA.parseHex p, LA.parseHex a, parseOct m with
    | some p, some a, some m =>
      let (fs, okp) := plant s.pr.fs k p a m
      ({ s with pr := { s.pr with fs := fs } }, if okp then "ok" else "err")
    | _, _, _ => (s, "bad-op")
  | ["ent", k, p, l, m, t, d] =>
    match parseKind k, LA.parseHex p, LA.parseHex l, parseOct m, t.toInt?, LA.parseHex d with
    | some k, some p, some l, some m, some t, some d =>
      if s.tar then (s, "q") else
      if s.deep then
        -- the property's predicate on what the implementation printed: refused is not fatal, cwd and umask as before
        let okl := obs.endsWith "env=ok" && !((obs.splitOn " ").any fun w => w.endsWith "=fatal")
        (s, if okl then obs else "h=<ok|warn|failed> … env=ok expected")
      else
      let e : Entry := { kind := k, path := p, link := l, mode := m, mtime := t, data := d }
      let ((h, w), pr) := (header s.w e).run s.pr
      let cwd0 := s.pr.cwd; let um0 := s.pr.umask
      let hasFd : Bool := match w.cur with | some (_, _, es) => es.hasFd | none => false
      let (dst, pr) := if h = .ok ∧ d ≠ [] ∧ hasFd = true then
          let (x, pr) := (writeData w d).run pr; (x.str, pr)
        else ("-", pr)
      let ((f, w), pr) := (finishEntry w).run pr
      let env := if pr.cwd ≠ cwd0 then "cwd" else if pr.umask ≠ um0 then "umask" else "ok"
      -- the harness chdir()s back between calls only in its own interest; the model keeps what the writer left
      ({ s with pr := pr, w := w }, s!"h={h.str} d={dst} f={f.str} env={env}")
    | _, _, _, _, _, _ => (s, "bad-op")
  | ["close"] =>
    if s.deep then (s, if obs.endsWith "env=ok" && !((obs.splitOn " ").any fun w => w.endsWith "=fatal") then obs else "c=<st> fr=<st> env=ok expected")
    else if s.tar then
      -- monitor: bsdtar must finish normally (exit 0, or 1 = some entries refused)
      let okc := obs.startsWith "tar=ok " || obs.startsWith "tar=warn "
      (s, if okc then obs else "tar=<ok|warn> expected")
    else
      let cwd0 := s.pr.cwd; let um0 := s.pr.umask
      let ((c, w), pr) := (close s.w).run s.pr
      let env := if pr.cwd ≠ cwd0 then "cwd" else if pr.umask ≠ um0 then "umask" else "ok"
      ({ s with pr := pr, w := w }, s!"c={c.str} fr=ok env={env}")
  | ["snap"] =>
    if s.tar || s.deep then (s, if (obs.splitOn " | ").getLast? == some "canary=ok" then obs else "canary=ok expected")
    else (s, snapshot s.pr.fs)
  | _ => (s, "bad-op")

def engine : LA.Engine := { σ := DState, init := {}, step := stepXtr }

/-! ### `pathclean`: cleanup_pathname_fsobj / check_symlinks_fsobj / strip_absolute_path called directly -/

def showRes : Res → String
  | .ok p => "ok " ++ LA.toHex p
  | .failed _ => "failed"
  | .oob => "oob"

def stepPath (s : DState) (op _obs : String) : DState × String :=
  match LA.words op with
  | ["clean", nd, na, p] =>
    match LA.parseHex p with
    | some p => (s, showRes (cleanupLiteral { nodotdot := nd == "1", noabs := na == "1" } p))
    | none => (s, "bad-op")
  | ["strip", p] =>
    match LA.parseHex p with
    | some p => (s, match stripAbsolute p with | some k => s!"{k}" | none => "oob")
    | none => (s, "bad-op")
  | ["pre", k, p, a, m] =>
    match LA.parseHex p, LA.parseHex a, parseOct m with
    | some p, some a, some m =>
      let (fs, okp) := plant s.pr.fs k p a m
      ({ s with pr := { s.pr with fs := fs } }, if okp then "ok" else "err")
    | _, _, _ => (s, "bad-op")
  | ["symcheck", sec, unl, ln, p] =>
    -- cleanup (NODOTDOT|NOABSOLUTEPATHS) then check_symlinks_fsobj on the result, then a snapshot
    match LA.parseHex p with
    | some p =>
      match cleanup { nodotdot := true, noabs := true } p with
      | .ok q =>
        let fl : XFlags := { secureSymlinks := sec == "1", unlink := unl == "1" }
        let (r, pr) := (checkSymlinks fl (ln == "1") q).run s.pr
        -- the literal string-index transcription must agree
        let (r', pr') := (checkSymlinksIdx fl (ln == "1") q).run s.pr
        let agree := r' == r && snapshot pr'.fs == snapshot pr.fs
        let env := if pr.cwd ≠ s.pr.cwd then "cwd" else "ok"
        ({ s with pr := pr }, (if agree then "" else "MODELS-DISAGREE ") ++ s!"{r.str} env={env} {snapshot pr.fs}")
      | _ => (s, "rejected")
    | none => (s, "bad-op")
  | _ => (s, "bad-op")

def enginePath : LA.Engine := { σ := DState, init := {}, step := stepPath }

end LA.Xtr
