/- Line-protocol glue for the `acl` engine (C15). -/
import LA.Model.Acl
namespace LA.Acl

structure DState where
  wide : Bool := false
  acl : Acl := {}

def parseOct (s : String) : Option Nat :=
  s.toList.foldl (fun acc c => match acc with
    | none => none
    | some n => if '0' ≤ c ∧ c ≤ '7' then some (n * 8 + (c.toNat - '0'.toNat)) else none) (some 0)

def hexNat (s : String) : Option Nat :=
  if s.isEmpty then none else
  s.toList.foldl (fun acc c => match acc, LA.hexDigit c with
    | some n, some d => some (n * 16 + d)
    | _, _ => none) (some 0)

def toHexNat (n : Nat) : String := String.ofList (Nat.toDigits 16 n)

/-- Text on the protocol line: narrow = hex bytes, wide = dot-separated hex code
points; `-` is the empty text. -/
def decodeText (wide : Bool) (s : String) : Option (List Ch) :=
  if s == "-" then some [] else
  if wide then (s.splitOn ".").mapM hexNat else LA.parseHex s

def encodeText (wide : Bool) (t : List Ch) : String :=
  if t.isEmpty then "-" else
  if wide then ".".intercalate (t.map toHexNat) else LA.toHex t

def stName : Status → String
  | .ok => "ok" | .warn => "warn" | .failed => "failed" | .fatal => "fatal"

/-- What `archive_entry_acl_reset(e, all types)` followed by
`archive_entry_acl_next` until it stops returns: the three entries made up from
`mode` first when anything is stored (every stored entry matches, and with
ACCESS wanted the count must exceed 3), then the list. -/
def aclNextAll (acl : Acl) : List Entry :=
  if acl.entries.isEmpty then [] else
  [⟨Gen.AclMaps.typeAccess, Gen.AclMaps.tagUserObj, (acl.mode >>> 6) &&& 7, -1, []⟩,
   ⟨Gen.AclMaps.typeAccess, Gen.AclMaps.tagGroupObj, (acl.mode >>> 3) &&& 7, -1, []⟩,
   ⟨Gen.AclMaps.typeAccess, Gen.AclMaps.tagOther, acl.mode &&& 7, -1, []⟩] ++ acl.entries

def dumpAcl (wide : Bool) (acl : Acl) : String :=
  let es := aclNextAll acl
  let body := es.map fun e => s!" {e.type}/{e.tag}/{e.permset}/{e.id}/{encodeText wide e.name}"
  s!"mode={String.ofList (Nat.toDigits 8 acl.mode)} types={acl.types} n={es.length}" ++ String.join body

def faultName : Fault → String
  | .oob => "!fault out-of-bounds-read" | .null => "!fault null-dereference"

def stepLine (s : DState) (op _obs : String) : DState × String :=
  match LA.words op with
  | ["variant", v] => ({ wide := v == "w" }, "ok")
  | ["mode", m] =>
    match parseOct m with
    | some m => ({ s with acl := { s.acl with mode := m } }, "ok")
    | none => (s, "bad-op")
  | ["clear"] => ({ s with acl := { s.acl with entries := [], types := 0 } }, "ok")
  | ["add", ty, pm, tg, id, nm] =>
    match ty.toNat?, pm.toNat?, tg.toNat?, id.toInt?, decodeText s.wide nm with
    | some ty, some pm, some tg, some id, some nm =>
      -- the string layer keeps the characters before the first NUL
      let (acl, st) := addEntry s.acl ty pm tg id (nm.takeWhile (· ≠ 0))
      ({ s with acl := acl }, stName st)
    | _, _, _, _, _ => (s, "bad-op")
  | ["totext", fl] =>
    match fl.toNat? with
    | some fl =>
      match toText s.wide s.acl fl with
      | .null => (s, "null")
      | .text t => (s, s!"len={t.length} t={encodeText s.wide t}")
      | .overrun _ => (s, "!abort buffer-overrun")
    | none => (s, "bad-op")
  | ["rt", fl, want] =>
    match fl.toNat?, want.toNat? with
    | some fl, some want =>
      match toText s.wide s.acl fl with
      | .null => (s, "null")
      | .overrun _ => (s, "!abort buffer-overrun")
      | .text t =>
        -- a C string ends at its first NUL
        match fromText s.wide {} (t.takeWhile (· ≠ 0)) want with
        | .ok o => (s, s!"t={encodeText s.wide t} st={stName o.status} {dumpAcl s.wide o.acl}")
        | .error f => (s, faultName f)
    | _, _ => (s, "bad-op")
  | ["parse", want, txt] =>
    match want.toNat?, decodeText s.wide txt with
    | some want, some t =>
      match fromText s.wide s.acl (t.takeWhile (· ≠ 0)) want with
      | .ok o => ({ s with acl := o.acl }, s!"st={stName o.status}")
      | .error f => (s, faultName f)
    | _, _ => (s, "bad-op")
  | ["parsenl", want, txt] =>
    match want.toNat?, decodeText false txt with
    | some want, some t =>
      match fromText false s.acl t want with
      | .ok o => ({ s with acl := o.acl }, s!"st={stName o.status}")
      | .error f => (s, faultName f)
    | _, _ => (s, "bad-op")
  -- the tar reader on a pax record cut off after the ACL value: the archive is truncated
  | ["paxtrunc", _] => (s, "fatal")
  -- ... and with ':' for the newline that ends the record: "Malformed pax attributes"
  | ["paxcolon", _] => (s, "warn")
  | ["dump"] => (s, dumpAcl s.wide s.acl)
  | _ => (s, "bad-op")

def engine : LA.Engine := { σ := DState, init := {}, step := stepLine }

end LA.Acl
