/-
Line-protocol glue for the `flt` engine (C03).

For stacks made only of uuencode / b64encode the model predicts everything the
harness prints: the encoded bytes (write-filter models, chunk by chunk, layer
by layer), whether the read bidder recognises them, and what the read filter
returns when it is driven through the `LA.RA` model of the real read-ahead
window with the same read block size (so the windows are the ones the C sees).

For codec-backed filters (gzip, bzip2, xz, lzma, lzip, zstd, lz4, compress) the
compressed bytes are the library's free choice: `enc=` is copied from the
implementation's line, and the prediction for the reader half is the identity
law of C03 itself (decoded = original, same codes in the same order).
-/
import LA.Model.Uu
import LA.Model.B64
import LA.Model.UuRead
import LA.Model.ReadAhead
import LA.Model.Drive
import LA.Gen.Limits
namespace LA.Flt
open LA.UuRead

/-! payloads, hashing -/

def genBytes (kind : String) (len seed : Nat) : List Nat := Id.run do
  let txt := "the quick brown fox jumps over the lazy dog\n".toUTF8
  let mut out : Array Nat := Array.mkEmpty len
  let mut s : UInt64 := seed.toUInt64
  for i in [0:len] do
    if kind == "rnd" then
      s := s * 6364136223846793005 + 1442695040888963407
      out := out.push (s >>> 56).toNat
    else if kind == "rep" then out := out.push ((seed + i % 7) % 256)
    else if kind == "text" then out := out.push (txt.get! ((i + seed) % txt.size)).toNat
    else out := out.push 0
  return out.toList

/-- `segs:<seed>:<seg>,…` — content built from segments (see harness/eng_flt.c). -/
def genSegs (seed : Nat) (segs : List String) : Option (List Nat) := Id.run do
  let txt := "the quick brown fox jumps over the lazy dog\n".toUTF8
  let mut out : Array Nat := #[]
  let mut s : UInt64 := seed.toUInt64
  for g in segs do
    let k := g.front
    let body := (g.drop 1).toString
    let (dist, len) : Nat × Nat :=
      if k == 'c' then
        match body.splitOn "x" with
        | [d, l] => (d.toNat?.getD 0, l.toNat?.getD 0)
        | _ => (0, 0)
      else (0, body.toNat?.getD 0)
    for _ in [0:len] do
      if k == 'r' then
        s := s * 6364136223846793005 + 1442695040888963407
        out := out.push (s >>> 56).toNat
      else if k == 't' then out := out.push (txt.get! (out.size % txt.size)).toNat
      else if k == 'c' then out := out.push (if dist ≥ 1 ∧ dist ≤ out.size then out[out.size - dist]! else 0)
      else out := out.push 0
  return some out.toList

def parsePayload (spec : String) : Option (List Nat) :=
  if spec.startsWith "segs:" then
    match (spec.drop 5).toString.splitOn ":" with
    | [sd, l] => do genSegs (← sd.toNat?) (l.splitOn ",")
    | _ => none
  else
  if spec.startsWith "hex:" then LA.parseHex (spec.drop 4).toString
  else if spec.startsWith "gen:" then
    match (spec.drop 4).toString.splitOn ":" with
    | [k, l, s] => do pure (genBytes k (← l.toNat?) (← s.toNat?))
    | [k, l, s, pre] => do pure ((← LA.parseHex pre) ++ genBytes k (← l.toNat?) (← s.toNat?))
    | _ => none
  else none

def fnv64 (bs : List Nat) : UInt64 :=
  bs.foldl (fun h b => (h ^^^ b.toUInt64) * 1099511628211) 14695981039346656037

def hex16 (v : UInt64) : String :=
  let ds := Nat.toDigits 16 v.toNat
  String.ofList (List.replicate (16 - ds.length) '0' ++ ds)

/-- CRC-32 (reflected, polynomial 0xEDB88320), as zlib's `crc32`. -/
def crc32 (bs : List Nat) : Nat :=
  let step (c : UInt32) (b : Nat) : UInt32 := Id.run do
    let mut x := c ^^^ b.toUInt32
    for _ in [0:8] do
      x := if x &&& 1 == 1 then (x >>> 1) ^^^ 0xEDB88320 else x >>> 1
    return x
  ((bs.foldl step 0xFFFFFFFF) ^^^ 0xFFFFFFFF).toNat

def sizeHash (bs : List Nat) : String := s!"{bs.length}:{hex16 (fnv64 bs)}"

/-! write chunking (mirrors `encode()` in harness/eng_flt.c) -/

def parseSizes (w : String) : List Nat :=
  if w == "all" then []
  else if w.startsWith "c" then [((w.drop 1).toString.toNat?).getD 0]
  else (w.splitOn "+").map (fun t => t.toNat?.getD 0)

partial def cutLoop (sizes : Array Nat) (p : List Nat) (k : Nat) (acc : Array (List Nat)) : Array (List Nat) :=
  let piece := p.take (sizes[k % sizes.size]!)
  let acc := acc.push piece
  let p := p.drop piece.length
  if p.isEmpty then acc else cutLoop sizes p (k + 1) acc

def cutChunks (w : String) (p : List Nat) : List (List Nat) :=
  if w == "all" then (if p.isEmpty then [] else [p])
  else
    let sizes := parseSizes w
    let sizes := if sizes.all (· == 0) then [Nat.max p.length 1] else sizes
    (cutLoop sizes.toArray p 0 #[]).toList

/-! options -/

def pctDecode : List Char → List Nat
  | '%' :: a :: b :: r =>
    match LA.hexDigit a, LA.hexDigit b with
    | some x, some y => (x * 16 + y) :: pctDecode r
    | _, _ => 37 :: pctDecode (a :: b :: r)
  | c :: r => c.toNat :: pctDecode r
  | [] => []

structure TextOpts where
  mode : Nat := 420          -- 0644
  name : List Nat := [45]    -- "-"

/-- Options addressed to module `m` ("uuencode" / "b64encode"), in order. -/
def textOpts (opts : String) (m : String) : TextOpts := Id.run do
  let mut o : TextOpts := {}
  if opts == "-" then return o
  for t in opts.splitOn ";" do
    match t.splitOn ":" with
    | [mod, kv] =>
      if mod == m then
        match kv.splitOn "=" with
        | [k, v] =>
          let val := pctDecode v.toList
          if k == "mode" then o := { o with mode := LA.LineFilter.modeOption val }
          else if k == "name" then o := { o with name := val }
        | _ => pure ()
    | _ => pure ()
  return o

/-- Value of the (last) `zstd:long=N` option, 0 when absent. -/
def zstdLong (opts : String) : Nat :=
  (opts.splitOn ";").foldl (fun acc t =>
    if t.startsWith "zstd:long=" then ((t.drop 10).toString.toNat?).getD acc else acc) 0

def optStatuses (opts : String) : String :=
  if opts == "-" then "-" else ",".intercalate ((opts.splitOn ";").map fun _ => "ok")

/-! filter tables -/

def writeCode : String → Option Nat
  | "gzip" => some 1 | "bzip2" => some 2 | "compress" => some 3 | "lzma" => some 5 | "xz" => some 6
  | "uuencode" => some 7 | "b64encode" => some 7 | "lzip" => some 9 | "lz4" => some 13 | "zstd" => some 14
  | _ => none

def readName : Nat → String
  | 1 => "gzip" | 2 => "bzip2" | 3 => "compress_(.Z)" | 5 => "lzma" | 6 => "xz" | 7 => "uu"
  | 9 => "lzip" | 13 => "lz4" | 14 => "zstd" | _ => "?"

def isText (f : String) : Bool := f == "uuencode" || f == "b64encode"

/-! the reader side for text stacks, over the `LA.RA` model of the read-ahead window -/

def raAhead (s : LA.RA.State) (min : Nat) : Ans × LA.RA.State :=
  match LA.RA.ahead s min with
  | (.window w _, s') => (.window w.length, s')
  | (.short k, s') => (.short k, s')
  | (_, s') => (.fatal, s')

/-- Run the uu read filter to the end over a block source; returns the blocks it
hands out (one per `uudecode_filter_read` return) and whether it ended cleanly. -/
partial def filterBlocks (s : LA.RA.State) (st : RState) (acc : Array (List Nat)) : Array (List Nat) × String :=
  let (r, s1) := LA.RA.ahead s 1
  match r with
  | .fatal | .stuck => (acc, "fatal")
  | _ =>
    let w := match r with | .window w _ => w | _ => []
    match filterRead st w with
    | .fatal => (acc, "fatal")
    | .oob => (acc, "oob")
    | .more st' =>
      let (_, s2) := LA.RA.consume s1 w.length
      filterBlocks s2 st' acc
    | .ret out used st' =>
      let (_, s2) := LA.RA.consume s1 used
      if out.isEmpty then (acc, "ok") else filterBlocks s2 st' (acc.push out)

/-- `choose_filters` with only the uu bidder: peel layers while it bids. -/
partial def peel (blocks : List (List Nat)) (layers : Nat) : List (List Nat) × Nat × String :=
  if layers ≥ LA.Gen.Limits.maxNumberFilters then (blocks, layers, "fatal")
  else
    let src := blocks.filter (· ≠ [])
    let s0 : LA.RA.State := { src := src, canSkip := false }
    match bid src.flatten raAhead s0 with
    | (.bid 0, _) => (blocks, layers, "ok")
    | (.bid _, s1) =>
      -- `uudecode_bidder_init`; the filter then reads through the same upstream state
      let (bl, st) := filterBlocks s1 {} #[]
      if st == "ok" then peel bl.toList (layers + 1) else (bl.toList, layers + 1, st)
    | (.oob, _) => (blocks, layers, "oob")
    | (.stuck, _) => (blocks, layers, "stuck")

def clientBlocks (enc : List Nat) (rb : Nat) : List (List Nat) :=
  let rb := if rb = 0 then 1 else rb
  let rec go (fuel : Nat) (p : List Nat) (acc : Array (List Nat)) : Array (List Nat) :=
    match fuel with
    | 0 => acc
    | f + 1 => if p.isEmpty then acc else go f (p.drop rb) (acc.push (p.take rb))
  (go (enc.length + 1) enc #[]).toList

/-! one protocol line -/

def obsField (obs key : String) : String :=
  match (obs.splitOn " ").find? (·.startsWith (key ++ "=")) with
  | some w => (w.drop (key.length + 1)).toString
  | none => "?"

def codesStr (cs : List Nat) : String := ",".intercalate ((cs ++ [0]).map toString)
def namesStr (cs : List Nat) : String := ",".intercalate (cs.map readName ++ ["none"])

/-- The reader half for a decoded result `dec` expected equal to `want`. -/
def readerHalf (st : String) (dec want : List Nat) (codes : List Nat) : String :=
  if st != "ok" then
    s!" r=ok hdr=ok data={st} dec=? eq=0 ubytes=? rcodes={codesStr codes} rnames={namesStr codes} end=- close=ok"
  else
    let fd := ((dec.zip want).takeWhile (fun p => p.1 == p.2)).length
    let eq := if dec == want then "1" else s!"0@{fd}"
    if dec.isEmpty then
      s!" r=ok hdr=eof data=ok dec={sizeHash dec} eq={eq} ubytes=-1 rcodes={codesStr codes} rnames={namesStr codes} end=- close=ok"
    else
      s!" r=ok hdr=ok data=ok dec={sizeHash dec} eq={eq} ubytes={dec.length} rcodes={codesStr codes} rnames={namesStr codes} end=eof close=ok"

/-- `archive_write_set_filter_option(a, "uuencode", …)` reaches only the first
filter of that name (`archive_set_filter_option` returns after the first match). -/
def encodeText (stack : List String) (opts : String) (bpb : Nat) (chunks : List (List Nat)) : List (List Nat) :=
  (stack.foldl (fun (acc : List (List Nat) × List String) f =>
    let o : TextOpts := if acc.2.contains f then {} else textOpts opts f
    let c := if f == "uuencode" then LA.Uu.codec else LA.B64.codec
    ((LA.LineFilter.run c bpb o.mode o.name (acc.1.filter (· ≠ []))).emitted, f :: acc.2)) (chunks, [])).1

def stepLine (_ : Unit) (op obs : String) : Unit × String :=
  match LA.words op with
  | ["rt", fl, opts, pl, wch, bb, rb, mode] =>
    let stack := if fl == "-" then [] else fl.splitOn ","
    match parsePayload pl, stack.mapM writeCode, rb.toNat? with
    | some p, some codes, some rbn =>
      -- C03's exception: all filters enabled and the plain payload is itself claimed by a bidder
      if mode == "allx" ∨ (mode == "all" ∧ obsField obs "psig" == "1") then ((), obs) else
      let psig := s!" psig={obsField obs "psig"}"
      let whalf := s!"w=ok opts={optStatuses opts} wcodes={codesStr codes}"
      if stack.all isText ∧ !stack.isEmpty then
        let bpb := ((bb.splitOn "/").headD "-").toNat?.getD 10240
        let enc := (encodeText stack opts bpb (cutChunks wch p)).flatten
        let hx := if enc.length ≤ 400 then " hex=" ++ LA.toHex enc else ""
        let (bl, layers, st) := peel (clientBlocks enc rbn) 0
        let dec := bl.flatten
        ((), whalf ++ s!" enc={sizeHash enc}{hx}" ++ psig ++ readerHalf st dec p (List.replicate layers 7))
      else if stack.contains "zstd" ∧ zstdLong opts > 27 ∧ !p.isEmpty then
        -- known finding C03-zstd-long: the write filter accepts long=28..31 (documented range 10..31),
        -- the read filter never raises ZSTD_d_windowLogMax above the library default (27)
        ((), whalf ++ s!" enc={obsField obs "enc"}{psig} r=fatal hdr=- data=ok dec={sizeHash []} eq=0@0 ubytes=-1 rcodes=- rnames=- end=- close=ok")
      else
        -- a lone gzip filter: the member framing is libarchive's own (LA.Drive.gzHeader / gzTrailer)
        let gz :=
          if stack == ["gzip"] ∧ bb.endsWith "/1" then
            let off := opts.splitOn ";" |>.any (· == "gzip:!timestamp")
            let obsgz := obsField obs "gz"
            let mt := if off then 0 else
              match LA.parseHex ((obsgz.drop 8).take 8).toString with
              | some [a, b, c, d] => a + b * 256 + c * 65536 + d * 16777216
              | _ => 0
            let level := (opts.splitOn ";").foldl (fun acc t =>
              if t.startsWith "gzip:compression-level=" then ((t.drop 23).toString.toNat?).getD acc else acc) 100
            " gz=" ++ LA.toHex (LA.Drive.gzHeader mt level) ++ ":" ++
              LA.toHex (LA.Drive.gzTrailer (crc32 p) (p.length % 4294967296))
          else ""
        ((), whalf ++ s!" enc={obsField obs "enc"}" ++ gz ++ psig ++ readerHalf "ok" p p codes)
    | _, _, _ => ((), "bad-op")
  | ["mm", fl, _, pa, _, pb, _, mode] =>
    match parsePayload pa, parsePayload pb, (fl.splitOn ",").mapM writeCode with
    | some a, some b, some codes =>
      if mode == "all" ∧ obsField obs "psig" == "1" then ((), obs) else
      ((), s!"wa=ok wb=ok wcodes={codesStr codes} encA={obsField obs "encA"} encB={obsField obs "encB"} psig={obsField obs "psig"}" ++
           readerHalf "ok" (a ++ b) (a ++ b) codes)
    | _, _, _ => ((), "bad-op")
  | "mmn" :: fl :: _ :: mode :: rest =>
    -- members written separately with their own options: decoded = concatenation of the inputs
    let rec pay : List String → Option (List Nat)
      | _ :: p :: r => do pure ((← parsePayload p) ++ (← pay r))
      | _ => some []
    match pay rest, (fl.splitOn ",").mapM writeCode with
    | some all, some codes =>
      if mode == "all" ∧ obsField obs "psig" == "1" then ((), obs) else
      ((), s!"w=ok wcodes={codesStr codes} encs={obsField obs "encs"} psig={obsField obs "psig"}" ++
           readerHalf "ok" all all codes)
    | _, _ => ((), "bad-op")
  | ["tr", fl, opts, pl, cut, rb] =>
    let stack := fl.splitOn ","
    match parsePayload pl, rb.toNat? with
    | some p, some rbn =>
      if !(stack.all isText) then ((), "bad-op") else
      let enc := (encodeText stack opts 10240 (cutChunks "all" p)).flatten
      let k := ((cut.drop 1).toString.toNat?).getD 0
      let lineEnd : Nat := Id.run do   -- offset just after the (k+1)-th newline (or after the last one there is)
        let mut seen := 0
        let mut pos := 0
        let mut i := 0
        for b in enc do
          i := i + 1
          if b == 10 ∧ seen < k + 1 then
            seen := seen + 1
            pos := i
        return pos
      let keep := if cut.startsWith "l" then lineEnd
                  else if cut.startsWith "-" then enc.length - k else enc.length * k / 1000
      let (bl, layers, st) := peel (clientBlocks (enc.take keep) rbn) 0
      let dec := bl.flatten
      if st != "ok" then ((), s!"w=ok enc={enc.length} keep={keep} filters=-1 st=fatal")
      else ((), s!"w=ok enc={enc.length} keep={keep} filters={layers} st=ok dec={sizeHash dec} full={if dec == p then 1 else 0}")
    | _, _ => ((), "bad-op")
  | ["gz", hh, pl, tt, _] =>
    match LA.parseHex hh, parsePayload pl, LA.parseHex tt with
    | some h, some p, some t =>
      -- the deflate bytes are zlib's; the header length is what `peek_at_header` must find
      let dn := (obsField obs "member").toNat?.getD 0 - h.length - t.length
      let probe := h ++ List.replicate dn 0 ++ t
      if LA.Drive.peekAtHeader probe == h.length ∧ h.length ≠ 0 ∧ t.length == 8 then
        ((), s!"member={obsField obs "member"}" ++ readerHalf "ok" p p [1])
      else ((), obs)
    | _, _, _ => ((), "bad-op")
  | _ => ((), "bad-op")

def engine : LA.Engine := { σ := Unit, init := (), step := stepLine }

end LA.Flt
