/- Line-protocol glue for the `enc` engine (C20): AES-CTR layer of archive_cryptor.c.
The AES block function is taken from the table of (counter block, encrypted block)
pairs that the harness computed independently with OpenSSL ECB and printed in the
`E=` field of its answer. -/
import LA.Model.Ctr
import LA.Drive.C20Util
namespace LA.EncDrive
open LA.Ctr LA.C20U

structure S where
  ctx : Option Ctx := none
  acc : List UInt8 := []      -- everything output so far
  pend : List UInt8 := []     -- pending input of `updp`

def parseTable (s : String) : List (List UInt8 × List UInt8) :=
  (s.splitOn ",").filterMap fun pair =>
    match pair.splitOn ":" with
    | [a, b] => match parseBytes a, parseBytes b with
      | some x, some y => some (x, y)
      | _, _ => none
    | _ => none

def mkBlock (o : List UInt8) : Block :=
  if h : o.length = BS then ⟨o.toArray, by simp [h]⟩ else zeroBlock

/-- `E` as far as the harness told us; anything else maps to the zero block (and shows
up as a disagreement). -/
def mkE (tbl : List (List UInt8 × List UInt8)) : Block → Block := fun b =>
  match tbl.find? (·.1 == b.toList) with
  | some (_, o) => mkBlock o
  | none => zeroBlock

def stepLine (s : S) (op obs : String) : S × String :=
  match LA.words op with
  | "init" :: _ :: key :: start :: rest =>
    let s := if rest == ["keep"] then { s with pend := s.acc, acc := [] } else s
    match parseBytes key, start.toNat? with
    | some k, some st =>
      if k.length = 16 ∨ k.length = 24 ∨ k.length = 32 then ({ s with ctx := some (initAt st) }, "r=0")
      else ({ s with ctx := none }, "r=-1")
    | _, _ => (s, "bad-op")
  | [u, arg, cap] =>
    if u != "upd" && u != "updp" then (s, "bad-op") else
    let inp? : Option (List UInt8 × List UInt8) :=
      if u == "updp" then arg.toNat?.map fun n => (s.pend.take n, s.pend.drop n)
      else (parseBytes arg).map fun b => (b, s.pend)
    match s.ctx, inp?, cap.toNat? with
    | none, _, _ => (s, "not-inited")
    | some c, some (inp, pend'), some cap =>
      let etab := (field (LA.words obs) "E").getD ""
      match update (mkE (parseTable etab)) c inp cap with
      | .oob => (s, "oob")
      | .ok c' out =>
        ({ ctx := some c', acc := s.acc ++ out, pend := pend' },
         s!"r=0 n={out.length} out={hexOf out} E={etab}")
    | _, _, _ => (s, "bad-op")
  | ["rel"] =>
    match s.ctx with
    | none => (s, "not-inited")
    | some _ => ({ s with ctx := none }, "r=0")
  | _ => (s, "bad-op")

def engine : LA.Engine := { σ := S, init := {}, step := stepLine }

end LA.EncDrive
