/-
Line-protocol glue for the `zipenc` engine (C20): prediction of what a whole
write → read round trip through the real zip writer and reader must show, from the
models (`Passphrase.retryLoop` over the candidate list / callback, the layout
constants of `WinZipAes` / `ZipCrypt`).

Monitor parts (taken from the implementation's line, see DESIGN 2.1 / brief item 4):
* `cand=`: one flag per distinct candidate passphrase — "its derived verification
  value matches" — recomputed by the harness with its own PBKDF2 / PKWARE code on the
  archive image.  It stands for the primitives (parameters of the model), and lets the
  model follow the 1/256 (PKWARE) and 2^-16 (AES) accidental matches honestly.
* `len=`, the compressed size of deflated entries, `tampered=`: facts about the image.
* after an accidental match or a tampered image the property only demands *some*
  error by the end of the entry: status and byte counts are copied, the status must
  be non-OK.
-/
import LA.Model.WinZipAes
import LA.Drive.C20Util
namespace LA.ZipEncDrive
open LA.Passphrase LA.C20U

def kvOf (ws : List String) (k : String) : String := (field ws k).getD ""

/-- `h:<hex>` | `g:<len>:<seed>` (LCG) | `z:<len>:<byte>` -/
def makeBody (spec : String) : List Nat :=
  match spec.splitOn ":" with
  | ["h", hex] => (LA.parseHex hex).getD []
  | ["g", l, s] =>
    let len := l.toNat?.getD 0
    let rec go (n : Nat) (x : Nat) (acc : List Nat) : List Nat :=
      match n with
      | 0 => acc.reverse
      | n + 1 =>
        let x' := (x * 1103515245 + 12345) % 2147483648
        go n x' ((x' / 65536 % 256) :: acc)
    go len ((s.toNat?.getD 0) % 4294967296) []
  | ["z", l, b] => List.replicate (l.toNat?.getD 0) ((b.toNat?.getD 0) % 256)
  | _ => []

/-- expand `r<count>x<hex>` items -/
def parseList (s : String) : List P :=
  if s == "-" ∨ s == "n" then [] else
  (s.splitOn ",").flatMap fun t =>
    if t.startsWith "r" then
      match (t.drop 1).toString.splitOn "x" with
      | [c, h] => match c.toNat?, parseBytes h with
        | some c, some b => List.replicate c b
        | _, _ => []
      | _ => []
    else match parseBytes t with
      | some b => [b]
      | none => []

def dedup (l : List P) : List P :=
  l.foldl (fun acc p => if acc.contains p then acc else acc ++ [p]) []

def st (ok : Bool) : String := if ok then "ok" else "failed"

def replaceTail (pred obs : List String) (from_ : Nat) : List String :=
  pred.take from_ ++ obs.drop from_

def stepLine (_ : Unit) (op obs : String) : Unit × String :=
  let ws := LA.words op
  let ob := LA.words obs
  match ws with
  | "ref" :: _ => ((), obs)      -- reference archives: judged by the oracle on the implementation's line
  | "rt" :: ws =>
    let enc := kvOf ws "enc"; let comp := kvOf ws "comp"
    let szSet := kvOf ws "sz" == "set"
    let body := makeBody (kvOf ws "body")
    let wp := kvOf ws "wp"
    let rp := parseList (kvOf ws "rp")
    let rcbS := kvOf ws "rcb"
    let rcb : List P := parseList rcbS
    let blen := body.length
    -- ---------------- write side ----------------
    let wpBytes : Option P :=
      if wp.startsWith "v:" ∨ wp.startsWith "c:" then parseBytes (wp.drop 2).toString else none
    let usable := match wpBytes with | some (_ :: _) => true | _ => false
    let stPw := if wp.startsWith "v:" then st usable else "ok"
    let encrypts := enc != "none" && !(szSet && blen == 0)
    let wfail := encrypts && !usable
    let stD := if blen == 0 then "ok" else st (!wfail)
    let stF := st (!wfail)
    let wTok := s!"w=ok/{stPw}/ok/ok/{stD}/{stF}/ok"
    if wfail then ((), " ".intercalate (replaceTail [wTok] ob 1)) else
    -- ---------------- layout ----------------
    let aes : Option LA.WinZipAes.Enc :=
      if enc == "aes128" then some .aes128 else if enc == "aes256" then some .aes256 else none
    let isAes := encrypts && aes.isSome
    let flags := (if encrypts then 1 else 0) + 8
    let method := if isAes then LA.Gen.Crypt.winzipAesMethod else if comp == "deflate" then 8 else 0
    let strength := match isAes, aes with | true, some e => e.strengthByte | _, _ => 0
    let extra := if !encrypts then 0 else match aes with
      | some e => e.headerSize + LA.WinZipAes.authCodeSize
      | none => LA.ZipCrypt.headerSize
    let obLay := kvOf ob "lay"
    let csTok := if comp == "store" then s!"cs{blen + extra}" else ((obLay.splitOn ".").getLastD "cs?")
    let layTok := s!"lay=fl{flags}.m{method}.s{strength}.{csTok}"
    let tampered := kvOf ob "tampered" == "1"
    -- ---------------- read side ----------------
    let addTok := "add=" ++ (if rp.isEmpty then "-" else ",".intercalate (rp.map fun _ => "ok"))
    let head := [wTok, "len=" ++ kvOf ob "len", layTok, "tampered=" ++ kvOf ob "tampered",
                 "cand=" ++ kvOf ob "cand", addTok, "open=ok", "|", "h=ok"]
    let dAll := hexW 16 (LA.fnv1a body)
    let dNone := hexW 16 (LA.fnv1a [])
    if !encrypts then
      ((), " ".intercalate (head ++ ["he=-1/0/0", "de=0", "me=0", "r=eof", s!"n={blen}", s!"d={dAll}",
        "dense=1", "eq=1", "cb=0", "end=eof", "he=0"]))
    else
      -- the passphrase state as the reader has it at the first header
      let rcbA := rcb.toArray
      let s0 : St := { list := rp, cb := if rcbS == "-" then none else some (fun i => rcbA[i]?) }
      let cands := dedup (rp ++ rcb)
      let flagsStr := (kvOf ob "cand").toList
      let m : P → Bool := fun p =>
        match cands.findIdx? (· == p) with
        | some i => flagsStr[i]? == some '1'
        | none => false
      let cap := if isAes then LA.Gen.Crypt.retryCapAes else LA.Gen.Crypt.retryCapTrad
      let encTok := ["he=-1/1/1", "de=1", "me=0"]
      match retryLoop cap m (reset s0) 0 with
      | .broken => ((), "model: passphrase list broken")
      | .failed s' _ _ =>
        ((), " ".intercalate (head ++ encTok ++ ["r=failed", "n=0", s!"d={dNone}", "dense=1",
          s!"eq={if blen == 0 then 1 else 0}", s!"cb={s'.calls}", "end=eof", "he=1"]))
      | .found s' p _ =>
        if some p == wpBytes && !tampered then
          ((), " ".intercalate (head ++ encTok ++ ["r=eof", s!"n={blen}", s!"d={dAll}", "dense=1", "eq=1",
            s!"cb={s'.calls}", "end=eof", "he=1"]))
        else
          -- accidental match or damaged image: an error by the end of the entry
          let r := kvOf ob "r"
          let pre := head ++ encTok
          -- PKWARE has no authentication code: a flipped bit that does not change the
          -- decrypted, inflated bytes (deflate padding) goes unnoticed, legitimately
          let harmless := !isAes && r == "eof" && kvOf ob "eq" == "1"
          if r == "warn" ∨ r == "failed" ∨ r == "fatal" ∨ harmless then
            ((), " ".intercalate (replaceTail pre ob pre.length))
          else ((), " ".intercalate (pre ++ ["r=MUST-REPORT-AN-ERROR"]))
  | _ => ((), "bad-op")

def engine : LA.Engine := { σ := Unit, init := (), step := stepLine }

end LA.ZipEncDrive
