/- Line-protocol glue for the `tree` engine (C12): builds the `Node` described by the
tree-building ops and prints what `capture`, `linkify`, `restore` and `listing`
predict for the scenario ops of harness/eng_tree.c. -/
import LA.Model.Tree
namespace LA.Tree

/-- Flat description of one object as the ops give it. -/
structure Flat where
  path : Path
  ty : Char                -- 'd' 'f' 'l' 'p'
  mode : Nat
  mtime : Time
  ino : Nat
  content : Content := { size := 0, seed := 0, segs := [] }
  target : List Nat := []
  deriving Repr

/-- "taken from the clock while the case ran" (the harness prints such a time as NOW). -/
def nowT : Time := ⟨-1, 0⟩

structure DState where
  flats : List Flat := []
  sealed : Bool := false       -- `seal` applies the modes and times; before it objects have creation defaults
  rootMeta : Meta := { mode := 0o755, mtime := nowT }
  extra : List Nat := []       -- inode numbers that have one more link outside the tree
  nextIno : Nat := 1
  blk : Nat := 4096
  order : List Path := []      -- readdir order as last observed (walk / list)
  deriving Repr

def splitOn47 (bs : List Nat) : Path :=
  let rec go : List Nat → Name → Path → Path
    | [], cur, acc => (cur.reverse :: acc).reverse
    | b :: r, cur, acc => if b == 47 then go r [] (cur.reverse :: acc) else go r (b :: cur) acc
  if bs.isEmpty then [] else go bs [] []

def parsePath (s : String) : Option Path := (LA.parseHex s).map splitOn47

def relBytes (p : Path) : List Nat :=
  match p with
  | [] => []
  | n :: r => n ++ r.flatMap fun c => 47 :: c

def hexPath (p : Path) : String := LA.toHex (relBytes p)

def parseOct (s : String) : Option Nat :=
  s.toList.foldl (fun acc c => match acc with
    | none => none
    | some v => if '0' ≤ c ∧ c ≤ '7' then some (v * 8 + (c.toNat - '0'.toNat)) else none) (some 0)

def toOct (n : Nat) : String := String.ofList (Nat.toDigits 8 n)

def parseSegs (s : String) : Option (List (Nat × Nat)) :=
  if s == "-" then some [] else
  (s.splitOn ",").mapM fun x =>
    match x.splitOn ":" with
    | [a, b] => match a.toNat?, b.toNat? with
      | some a, some b => some (a, b)
      | _, _ => none
    | _ => none

def DState.find (d : DState) (p : Path) : Option Flat := d.flats.find? (·.path == p)

def DState.parentOk (d : DState) (p : Path) : Bool :=
  match p with
  | [] => false
  | _ =>
    let n := p.getLast?.getD []
    n.length > 0 && n.length ≤ 255 &&
    (p.dropLast == [] || match d.find p.dropLast with
      | some f => f.ty == 'd'
      | none => false)

/-! ### building the `Node` -/

def lexLt : List Nat → List Nat → Bool
  | [], [] => false
  | [], _ :: _ => true
  | _ :: _, [] => false
  | a :: x, b :: y => if a < b then true else if b < a then false else lexLt x y

def insertBy {α : Type} (lt : α → α → Bool) (x : α) : List α → List α
  | [] => [x]
  | y :: r => if lt x y then x :: y :: r else y :: insertBy lt x r

def sortBy {α : Type} (lt : α → α → Bool) (l : List α) : List α := l.foldr (insertBy lt) []

def nlinkOf (d : DState) (ino : Nat) : Nat :=
  (d.flats.filter fun f => f.ty != 'd' && f.ino == ino).length + (d.extra.filter (· == ino)).length

def Flat.md (d : DState) (f : Flat) : Meta :=
  if d.sealed then { mode := f.mode, mtime := f.mtime }
  else { mode := if f.ty == 'd' then 0o700 else if f.ty == 'l' then 0o777 else 0o600, mtime := nowT }

def Flat.inode (d : DState) (f : Flat) : Inode :=
  { ino := f.ino, nlink := nlinkOf d f.ino,
    ftype := if f.ty == 'f' then .reg else if f.ty == 'l' then .lnk else .fifo,
    md := f.md d,
    payload := if f.ty == 'f' then .data f.content else if f.ty == 'l' then .target f.target else .none }

/-- Position of a path in the implementation's own emission order (readdir order is
not fixed by the property); unknown paths keep their creation order after the known ones. -/
def rank (order : List Path) (p : Path) : Nat := (order.findIdx? (· == p)).getD order.length

def forestOf (l : List (Name × Node)) : Forest :=
  l.foldr (fun x acc => Forest.cons x.1 x.2 acc) Forest.nil

def buildAt (d : DState) (order : List Path) : Nat → Path → Forest
  | 0, _ => .nil
  | fuel + 1, p =>
    let kids := d.flats.filter fun f => f.path != [] && f.path.dropLast == p
    let ranked := kids.map fun f => (rank order f.path, f)
    let kids := (sortBy (fun (a b : Nat × Flat) => a.1 < b.1) ranked).map (·.2)
    forestOf (kids.map fun f =>
      (f.path.getLast?.getD [],
       if f.ty == 'd' then Node.dir (f.md d) (buildAt d order fuel f.path)
       else Node.leaf (f.inode d)))

def buildTree (d : DState) (order : List Path) : Node :=
  .dir (if d.sealed then d.rootMeta else { mode := 0o755, mtime := nowT }) (buildAt d order (d.flats.length + 1) [])

/-! ### rendering -/

def ceilTo (blk x : Nat) : Nat := if blk == 0 then x else (x + blk - 1) / blk * blk
def floorTo (blk x : Nat) : Nat := if blk == 0 then x else x / blk * blk

/-- Allocated extents of a file whose data segments are `segs` on a file system with
allocation unit `blk`: the blocks touched, merged, clipped to the size. -/
def extents (blk size : Nat) (segs : List (Nat × Nat)) : List (Nat × Nat) :=
  let rounded := (segs.filter fun s => s.2 > 0 && s.1 < size).map fun s =>
    (floorTo blk s.1, Nat.min size (ceilTo blk (s.1 + s.2)))
  let sorted := sortBy (fun a b => a.1 < b.1) rounded
  let merged := sorted.foldl (fun (acc : List (Nat × Nat)) s =>
    match acc with
    | [] => [s]
    | (a, b) :: r => if s.1 ≤ b then (a, Nat.max b s.2) :: r else s :: (a, b) :: r) []
  merged.reverse.map fun (a, b) => (a, b - a)

def showExt (l : List (Nat × Nat)) : String :=
  if l.isEmpty then "-" else String.intercalate "," (l.map fun (a, b) => s!"{a}:{b}")

/-- `setup_sparse_fiemap` + `archive_entry_sparse_add_entry`/`_count`: nothing for a file without
holes, `0:0` for a file that is one hole, else the data extents. -/
def sparseMap (blk : Nat) (c : Content) : String :=
  if c.size == 0 then "-" else
  let e := extents blk c.size c.segs
  if e == [(0, c.size)] then "-" else if e.isEmpty then "0:0" else showExt e

def tyChar : Lnk.FType → String
  | .dir => "d" | .reg => "f" | .lnk => "l" | .fifo => "p" | _ => "o"

def showTime (t : Time) : String := if t.sec == -1 then "NOW" else s!"{t.sec}.{t.nsec}"

def hexOrDash (bs : List Nat) : String := LA.toHex bs

def renderWalkEntry (d : DState) (es : List Entry) (e : Entry) : String :=
  let g := if e.ftype == .dir then "- -" else
    let j := (es.findIdx? fun x => x.ftype != .dir && x.ino == e.ino).getD 0
    s!"{j} {e.nlink}"
  let (c, sp, tg) := match e.payload with
    | .data c =>
      let ok := match d.find e.path with
        | some f => f.ty == 'f' && f.content.size == c.size && (c.size == 0 || f.content == c)
        | none => false
      (if ok then "ok" else "BAD", sparseMap d.blk c, "-")
    | .target t => ("-", "-", hexOrDash t)
    | .none => ("-", "-", "-")
  s!"{hexPath e.path} {tyChar e.ftype} {toOct e.mode} {showTime e.mtime} {g} {e.size} {c} {sp} {tg}"

def kindChar : Kind → String
  | .dir => "d" | .reg _ => "f" | .lnk _ => "l" | .fifo => "p" | .other => "o"

/-- Snapshot line of a file system, the way the harness prints one (sorted by path string). -/
def renderSnap (d : DState) (holesKept : Bool) (fs : FS) : String :=
  let sorted := sortBy (fun (a b : Path × FNode) => lexLt (relBytes a.1) (relBytes b.1)) fs
  String.join (sorted.map fun (p, n) =>
    let g := if n.kind == .dir then "-" else
      toString ((sorted.findIdx? fun x => x.2.kind != .dir && x.2.ino == n.ino).getD 0)
    let mt := match n.mtime with
      | some t => showTime t
      | none => "NOW"
    let (sz, c, ex, tg) := match n.kind with
      | .reg c =>
        let ok := match d.find p with
          | some f => if f.ty != 'f' then "?" else if f.content.size != c.size then "BADSIZE"
                      else if c.size == 0 || f.content == c then "ok" else "BAD"
          | none => "?"
        let ex := if holesKept then extents d.blk c.size c.segs
                  else if c.size == 0 then [] else [(0, c.size)]
        (toString c.size, ok, showExt ex, "-")
      | .lnk t => ("0", "-", "-", hexOrDash t)
      | _ => ("0", "-", "-", "-")
    s!"|{hexPath p} {kindChar n.kind} {toOct n.mode} {mt} {g} {sz} {c} {ex} {tg}")

/-! ### what a format keeps (spec level, see tools/props/C12.py FORMATS) -/

structure Fmt where
  nsDiv : Nat            -- mtime resolution in ns (1 = exact, 1000000000 = seconds)
  fifo : Bool
  hardlinks : Bool
  sparse : Bool
  root : Bool            -- is an entry for "." itself stored?
  deriving Repr

def fmtOf : String → Fmt
  | "pax" => ⟨1, true, true, true, true⟩
  | "paxr" => ⟨1000000000, true, true, true, true⟩
  | "gnutar" => ⟨1000000000, true, true, false, true⟩
  | "ustar" => ⟨1000000000, true, true, false, true⟩
  | "newc" => ⟨1000000000, true, true, false, true⟩
  | "odc" => ⟨1000000000, true, true, false, true⟩
  | "zip" => ⟨1000000000, false, false, false, true⟩
  | "7zip" => ⟨100, true, false, false, true⟩
  | "xar" => ⟨1000000000, true, true, false, false⟩
  | "iso9660" => ⟨1000000000, false, true, false, true⟩
  | _ => ⟨1, true, true, true, true⟩

def normEntry (f : Fmt) (e : Entry) : Option Entry :=
  if e.ftype == .fifo && !f.fifo then none else
  if e.path == [] && !f.root then none else
  some { e with mtime := { e.mtime with nsec := e.mtime.nsec / f.nsDiv * f.nsDiv },
                nlink := if f.hardlinks || e.ftype == .dir then e.nlink else 1 }

def hasFlag (s : String) (c : Char) : Bool := s.toList.contains c

/-- The entry list the extracting side reads back for format `fmt`. -/
def archiveOf (fmt : String) (es : List Entry) : List Entry :=
  if fmt == "newc" then cpioArchive .newCpio es
  else if fmt == "odc" then cpioArchive .oldCpio es
  else if fmt == "xar" then xarArchive es
  else linkify .tar es

def renderSt (l : List St) : String :=
  let n := (l.filter (· == .failed)).length
  -- archive_read_extract2 demotes a failed header to ARCHIVE_WARN
  s!"x={if n == 0 then "ok" else "warn"} nfail={n}"

/-- Paths listed in an observation line (`|<hexpath> ...|...`), in order. -/
def obsPaths (obs : String) : List Path :=
  ((obs.splitOn "|").drop 1).filterMap fun part =>
    match (part.splitOn " ").head? with
    | some h => parsePath h
    | none => none

/-- `bsdtar -t` names: "./a/b" (directories with a trailing '/'). -/
def stripListName (bs : List Nat) : List Nat :=
  let bs := if bs.take 2 == [46, 47] then bs.drop 2 else if bs == [46] then [] else bs
  if bs.getLast? == some 47 then bs.dropLast else bs

def obsListPaths (obs : String) : List Path :=
  ((obs.splitOn "|").drop 1).filterMap fun part => (LA.parseHex part).map fun bs => splitOn47 (stripListName bs)

def listName (e : Entry) : String :=
  let b := relBytes e.path
  LA.toHex ([46, 47] ++ b ++ (if e.ftype == .dir && !b.isEmpty then [47] else []))

def splitComma (s : String) : List String := if s == "-" then [] else s.splitOn ","

def stepLine (d : DState) (op obs : String) : DState × String :=
  match LA.words op with
  | ["d", p, m, s, ns] =>
    match parsePath p, parseOct m, s.toInt?, ns.toNat? with
    | some p, some m, some s, some ns =>
      if p == [] then ({ d with rootMeta := { mode := m, mtime := ⟨s, ns⟩ } }, "ok")
      else if (d.find p).isSome || !d.parentOk p then (d, "skip")
      else ({ d with flats := d.flats ++ [{ path := p, ty := 'd', mode := m, mtime := ⟨s, ns⟩, ino := 0 }] }, "ok")
    | _, _, _, _ => (d, "bad-op")
  | ["f", p, m, s, ns, sz, seed, segs] =>
    match parsePath p, parseOct m, s.toInt?, ns.toNat?, sz.toNat?, seed.toNat?, parseSegs segs with
    | some p, some m, some s, some ns, some sz, some seed, some segs =>
      if p == [] || (d.find p).isSome || !d.parentOk p then (d, "skip")
      else ({ d with flats := d.flats ++ [{ path := p, ty := 'f', mode := m, mtime := ⟨s, ns⟩, ino := d.nextIno,
                                            content := { size := sz, seed := seed, segs := segs } }],
                     nextIno := d.nextIno + 1 }, "ok")
    | _, _, _, _, _, _, _ => (d, "bad-op")
  | ["l", p, s, ns, t] =>
    match parsePath p, s.toInt?, ns.toNat?, LA.parseHex t with
    | some p, some s, some ns, some t =>
      if p == [] || (d.find p).isSome || !d.parentOk p then (d, "skip")
      else ({ d with flats := d.flats ++ [{ path := p, ty := 'l', mode := 0o777, mtime := ⟨s, ns⟩, ino := d.nextIno, target := t }],
                     nextIno := d.nextIno + 1 }, "ok")
    | _, _, _, _ => (d, "bad-op")
  | ["p", p, m, s, ns] =>
    match parsePath p, parseOct m, s.toInt?, ns.toNat? with
    | some p, some m, some s, some ns =>
      if p == [] || (d.find p).isSome || !d.parentOk p then (d, "skip")
      else ({ d with flats := d.flats ++ [{ path := p, ty := 'p', mode := m, mtime := ⟨s, ns⟩, ino := d.nextIno }],
                     nextIno := d.nextIno + 1 }, "ok")
    | _, _, _, _ => (d, "bad-op")
  | ["h", p, q] =>
    match parsePath p, parsePath q with
    | some p, some q =>
      match d.find q with
      | some f =>
        if p == [] || (d.find p).isSome || !d.parentOk p || f.ty == 'd' then (d, "skip")
        else ({ d with flats := d.flats ++ [{ f with path := p }] }, "ok")
      | none => (d, "skip")
    | _, _ => (d, "bad-op")
  | ["hx", q] =>
    match parsePath q with
    | some q =>
      match d.find q with
      | some f => if f.ty == 'd' then (d, "skip") else ({ d with extra := f.ino :: d.extra }, "ok")
      | none => (d, "skip")
    | none => (d, "bad-op")
  | ["x", _, _, _] => (d, obs)          -- xattrs are outside the model (compared by the oracle only)
  | ["xcmp", _, _] => (d, obs)
  | ["seal"] =>
    -- the allocation unit and xattr support are properties of the scratch file system
    let w := LA.words ((obs.splitOn "|").headD "")
    let blk := match w.find? (·.startsWith "blk=") with
      | some x => ((x.drop 4).toString.toNat?).getD 4096
      | none => 4096
    let xa := match w.find? (·.startsWith "xattr=") with
      | some x => (x.drop 6).toString
      | none => "1"
    let d := { d with blk := blk, sealed := true }
    (d, s!"S blk={blk} xattr={xa}" ++ renderSnap d true (toFS (buildTree d [])))
  | ["walk"] =>
    let d := { d with order := obsPaths obs }
    let t := buildTree d d.order
    let es := capture t
    (d, "W eof cwd=1" ++ String.join (es.map fun e => "|" ++ renderWalkEntry d es e))
  | ["rt", fmt0, flags, uid] =>
    -- "<fmt>-seq": same archive, read back through a sequential source
    let fmt := if fmt0.endsWith "-seq" then (fmt0.dropEnd 4).toString else fmt0
    let f := fmtOf fmt
    let o : Opts := { root := uid == "0", perm := hasFlag flags 'p', time := hasFlag flags 't',
                      umask := 0o022, sameOwner := uid == "0" }
    let es := capture (buildTree d d.order)
    let kept := es.filterMap (normEntry f)
    let w := if (es.filter fun e => e.ftype == .fifo && !f.fifo).isEmpty then "ok" else "failed"
    let r := restore o 0o755 (archiveOf fmt kept)
    (d, s!"R w={w} " ++ renderSt r.2 ++ renderSnap d (f.sparse || hasFlag flags 's') r.1)
  | ["cli", tool, fmt, _copts, xopts, uid] =>
    let fmt := if fmt == "-" then (if tool == "tar" then "paxr" else "odc") else fmt
    let f := fmtOf fmt
    let xo := splitComma xopts
    let root := uid == "0"
    let o : Opts :=
      if tool == "tar" then
        { root := root, perm := root || xo.contains "-p", time := !xo.contains "-m", umask := 0o022, sameOwner := root }
      else
        { root := root, perm := true, time := xo.any (fun x => x.startsWith "-" && !x.startsWith "--" && hasFlag x 'm'),
          umask := 0o022, sameOwner := root }
    -- bsdtar walks with archive_read_disk; bsdcpio is fed `find .` (depth-first pre-order)
    let t := buildTree d d.order
    let es := if tool == "tar" then capture t else t.objects []
    let kept := es.filterMap (normEntry f)
    let r := restore o 0o755 (archiveOf fmt kept)
    let rc2 := if r.2.all (· == .ok) then "0" else "1"
    (d, s!"C rc=0,{rc2}" ++ renderSnap d (f.sparse || xo.contains "-S") r.1)
  | ["list", _fmt] =>
    let t := buildTree d (obsListPaths obs)
    let es := linkify .tar (capture t)
    let names := (listing es).zip es
    (d, "L rc=0,0" ++ String.join (names.map fun (_, e) => "|" ++ listName e))
  | _ => (d, "bad-op")

def engine : LA.Engine := { σ := DState, init := {}, step := stepLine }

end LA.Tree
