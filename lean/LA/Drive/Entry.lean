/- Line-protocol glue for the `ent` engine (C14): same operations, same dump as harness/eng_ent.c. -/
import LA.Model.Entry
namespace LA.Entry

structure DState where
  main : Entry := new
  clone : Option Entry := none
  /-- set once an operation executed undefined behaviour: the C process is gone -/
  crashed : Bool := false

def oct (n : Nat) : String := String.ofList (Nat.toDigits 8 n)
def b01 (b : Bool) : String := if b then "1" else "0"
def strS : Option Bytes → String
  | none => "~"
  | some b => toHex b

def dumpTime (k : String) (f : TimeField) (e : Entry) : String :=
  s!"{k}={timeSec f e},{timeNsec f e},{b01 (timeIsSet f e)}"

def dumpDigests (e : Entry) : String :=
  let one (t : Nat) : String :=
    match digest e t with
    | none => "?"
    | some d => if d.all (· == 0) then "0" else toHex d
  ",".intercalate ((List.range 6).map fun i => one (i + 1))

def dump (e : Entry) : String :=
  let sps := if e.sparse.isEmpty then "-" else String.join (e.sparse.map fun p => s!"{p.1}:{p.2};")
  let xa := if e.xattrs.isEmpty then "-" else String.join (e.xattrs.map fun p => s!"{toHex p.1}:{toHex p.2};")
  let sm := String.ofList ((strmode e).map fun c => if c == ' ' then '_' else c)
  let mac := match macMetadata e with
    | none => "~,0"
    | some b => s!"{toHex b},{b.length}"
  let ff := fflags e
  String.intercalate " " [
    dumpTime "at" .atime e, dumpTime "bt" .birthtime e, dumpTime "ct" .ctime e, dumpTime "mt" .mtime e,
    s!"dev={dev e},{devmajor e},{devminor e},{b01 (devIsSet e)}",
    s!"rdev={rdev e},{rdevmajor e},{rdevminor e},{b01 (rdevIsSet e)}",
    s!"ino={ino e},{ino e},{b01 (inoIsSet e)}",
    s!"nl={nlink e}",
    s!"uid={uid e},{b01 (uidIsSet e)}", s!"gid={gid e},{b01 (gidIsSet e)}",
    s!"sz={size e},{b01 (sizeIsSet e)}",
    s!"mode={oct (mode e).toNat}", s!"ft={oct (filetype e).toNat},{b01 (filetypeIsSet e)}",
    s!"perm={oct (perm e).toNat},{b01 (permIsSet e)}",
    s!"sm={sm}",
    s!"p={strS (getStr .pathname e)}", s!"un={strS (getStr .uname e)}", s!"gn={strS (getStr .gname e)}",
    s!"sp={strS (getStr .sourcepath e)}",
    s!"hl={strS (hardlink e)},{b01 (hardlinkIsSet e)}", s!"sl={strS (symlink e)}",
    s!"ff={ff.1},{ff.2}", s!"fft={strS (fflagsTextV e)}", s!"slt={symlinkType e}",
    s!"enc={b01 (isDataEncrypted e)},{b01 (isMetadataEncrypted e)},{isEncrypted e}",
    s!"sps={sps}", s!"xa={xa}", s!"mac={mac}",
    s!"dg={dumpDigests e}", s!"dgx={b01 ((digest e 7).isNone && (digest e 0).isNone)}"]

def parseStr (s : String) : Option (Option Bytes) :=
  if s == "~" then some none else (parseHex s).map some

def parseTimeField : String → Option TimeField
  | "atime" => some .atime | "birthtime" => some .birthtime | "ctime" => some .ctime | "mtime" => some .mtime
  | _ => none

/-- C conversion of a decimal argument to a `char` truth value. -/
def charTruth (i : Int) : Bool := i % 256 != 0

def stripPrefix (s p : String) : Option String :=
  if s.startsWith p then some (s.drop p.length).toString else none

/-- Parse one protocol line into a model operation plus the name of the API variant. -/
def parseOp (w : List String) : Option Op :=
  match w with
  | [op, a, b] =>
    match stripPrefix op "set_" with
    | some f =>
      match parseTimeField f, a.toInt?, b.toInt? with
      | some tf, some t, some ns => some (.setTime tf t ns)
      | _, _, _ =>
        if op == "set_fflags" then
          match a.toNat?, b.toNat? with
          | some s, some c => some (.setFflags s c)
          | _, _ => none
        else if op == "set_digest" then
          match a.toInt?, parseHex b with
          | some t, some d => some (.setDigest t ((d ++ List.replicate 64 0).take 64))
          | _, _ => none
        else none
    | none =>
      if op == "sparse_add" then
        match a.toInt?, b.toInt? with
        | some o, some l => some (.sparseAdd o l)
        | _, _ => none
      else if op == "xattr_add" then
        match parseHex a, parseHex b with
        | some n, some v => some (.xattrAdd n v)
        | _, _ => none
      else none
  | [op] =>
    match op with
    | "unset_atime" => some (.unsetTime .atime) | "unset_birthtime" => some (.unsetTime .birthtime)
    | "unset_ctime" => some (.unsetTime .ctime) | "unset_mtime" => some (.unsetTime .mtime)
    | "unset_size" => some .unsetSize
    | "set_link_to_hardlink" => some .setLinkToHardlink | "set_link_to_symlink" => some .setLinkToSymlink
    | "sparse_clear" => some .sparseClear | "sparse_count" => some .sparseCount
    | "sparse_reset" => some .sparseReset | "sparse_next" => some .sparseNext
    | "xattr_clear" => some .xattrClear | "xattr_reset" => some .xattrReset | "xattr_next" => some .xattrNext
    | "stat" => some .stat | "clear" => some .clear | "fflags_text" => some .fflagsText
    | _ => none
  | [op, a] =>
    let int (k : Int → Op) : Option Op := a.toInt?.map k
    let nat (k : Nat → Op) : Option Op := a.toNat?.map k
    let str (k : Option Bytes → Op) : Option Op := (parseStr a).map k
    match op with
    | "set_size" => int .setSize
    | "set_dev" => nat .setDev | "set_devmajor" => nat .setDevmajor | "set_devminor" => nat .setDevminor
    | "set_rdev" => nat .setRdev | "set_rdevmajor" => nat .setRdevmajor | "set_rdevminor" => nat .setRdevminor
    | "set_ino" => int .setIno | "set_ino64" => int .setIno
    | "set_nlink" => nat .setNlink | "set_uid" => int .setUid | "set_gid" => int .setGid
    | "set_mode" => nat fun n => .setMode (BitVec.ofNat 32 n)
    | "set_perm" => nat fun n => .setPerm (BitVec.ofNat 32 n)
    | "set_filetype" => nat fun n => .setFiletype (BitVec.ofNat 32 n)
    | "set_symlink_type" => int .setSymlinkType
    | "set_is_data_encrypted" => int fun i => .setIsDataEncrypted (charTruth i)
    | "set_is_metadata_encrypted" => int fun i => .setIsMetadataEncrypted (charTruth i)
    | "copy_mac_metadata" => str .copyMacMetadata
    | "copy_fflags_text" | "copy_fflags_text_w" => if a == "~" then none else (parseHex a).map .copyFflagsText
    | "set_pathname" | "set_pathname_utf8" | "copy_pathname" | "copy_pathname_w" | "update_pathname_utf8" =>
      str (.setStr .pathname)
    | "set_uname" | "set_uname_utf8" | "copy_uname" | "copy_uname_w" | "update_uname_utf8" => str (.setStr .uname)
    | "set_gname" | "set_gname_utf8" | "copy_gname" | "copy_gname_w" | "update_gname_utf8" => str (.setStr .gname)
    | "copy_sourcepath" | "copy_sourcepath_w" => str (.setStr .sourcepath)
    | "set_hardlink" => str .setHardlink
    | "set_hardlink_utf8" | "copy_hardlink" | "copy_hardlink_w" | "update_hardlink_utf8" => str .copyHardlink
    | "set_symlink" | "set_symlink_utf8" | "copy_symlink" | "copy_symlink_w" | "update_symlink_utf8" => str .setSymlink
    | "set_link" | "set_link_utf8" | "copy_link" | "copy_link_w" | "update_link_utf8" => str .setLink
    | _ => none
  | op :: rest =>
    if op == "copy_stat" then
      match rest.mapM String.toInt? with
      | some [a, an, c, cn, m, mn, d, g, u, i, nl, rd, sz, mo] =>
        some (.copyStat { atime := a, atime_nsec := an, ctime := c, ctime_nsec := cn, mtime := m, mtime_nsec := mn,
                          dev := d.toNat, gid := g.toNat, uid := u.toNat, ino := i.toNat, nlink := nl.toNat,
                          rdev := rd.toNat, size := sz, mode := mo.toNat })
      | _ => none
    else none
  | [] => none

def statS (s : StatRec) : String :=
  s!"{s.atime},{s.atime_nsec},{s.ctime},{s.ctime_nsec},{s.mtime},{s.mtime_nsec},{s.dev},{s.gid},{s.uid},{s.ino},{s.nlink},{s.rdev},{s.size},{oct s.mode}"

/-- What the C call returns (the `r=` field). -/
def retOf (name : String) (e : Entry) (op : Op) : String :=
  match op with
  | .sparseCount => toString (sparseCount e).2
  | .sparseReset => toString (sparseReset e).2
  | .sparseNext =>
    match (sparseNext e).2 with
    | some (o, l) => s!"ok,{o},{l}"
    | none => "warn,0,0"
  | .xattrReset => toString (xattrReset e).2
  | .xattrNext =>
    match (xattrNext e).2 with
    | none => "warn,~,~,0"
    | some (n, v) => s!"ok,{toHex n},{toHex v},{v.length}"
  | .setDigest t d => if (setDigest e t d).2 then "ok" else "warn"
  | .stat => statS (stat e).2
  | .fflagsText => strS (fflagsText e).2
  | .copyFflagsText s =>
    match (strtofflags s).2.2 with
    | none => "null"
    | some off =>
      -- the wide variant reports the position in characters: bytes that are not UTF-8 continuation bytes
      if name == "copy_fflags_text_w" then toString ((s.take off).filter fun b => b / 64 != 2).length
      else toString off
  | .copyHardlink v =>
    if name == "update_hardlink_utf8" then (if v.isNone && e.has fSYMLINK then "0" else "1") else "-"
  | .setSymlink v =>
    if name == "update_symlink_utf8" then (if v.isNone && e.has fHARDLINK then "0" else "1") else "-"
  | _ => if name.startsWith "update_" then "1" else "-"

def crashLine : String := "!crash exit=1"

def outLine (r : String) (s : DState) : String :=
  let base := s!"r={r} {dump s.main}"
  match s.clone with
  | none => base
  | some c => base ++ " || " ++ dump c

def stepLine (s : DState) (line _obs : String) : DState × String :=
  if s.crashed then (s, crashLine) else
  let w := LA.words line
  match w with
  | [] => (s, "bad-op")
  | w0 :: rest =>
    let (onClone, name) := match stripPrefix w0 "c:" with
      | some n => (true, n)
      | none => (false, w0)
    if onClone && s.clone.isNone then (s, "noclone") else
    if name == "clone" && rest.isEmpty then
      let s' := { s with clone := some (clone s.main) }
      (s', outLine "-" s')
    else if name == "drop_clone" && rest.isEmpty then
      let s' := { s with clone := none }
      (s', outLine "-" s')
    else if name == "reset" && rest.isEmpty then
      let s' : DState := {}
      (s', outLine "-" s')
    else if name == "xattr_count" && rest.isEmpty then
      let e := if onClone then s.clone.getD new else s.main
      (s, outLine (toString (xattrCount e)) s)
    else
    match parseOp (name :: rest) with
    | none => (s, "bad-op")
    | some op =>
      let e := if onClone then s.clone.getD new else s.main
      match step e op with
      | none => ({ s with crashed := true }, crashLine)
      | some e' =>
        let s' := if onClone then { s with clone := some e' } else { s with main := e' }
        (s', outLine (retOf name e op) s')

def engine : LA.Engine := { σ := DState, init := {}, step := stepLine }

end LA.Entry
