/- Line-protocol glue for the `pm` engine (C16, archive_pathmatch.c). -/
import LA.Model.Util
import LA.Model.Pm
namespace LA.Pm

def hexVal (s : String) : Option Nat :=
  if s.isEmpty then none else
  s.toList.foldl (fun acc c => match acc, LA.hexDigit c with
    | some a, some d => some (a * 16 + d)
    | _, _ => none) (some 0)

/-- "-" = empty string, otherwise hex code units separated by ','. -/
def parseUnits (s : String) : Option (List Nat) :=
  if s == "-" then some [] else (s.splitOn ",").mapM hexVal

/-- as `parseUnits`, with "null" = NULL pointer -/
def parsePtr (s : String) : Option (Option (List Nat)) :=
  if s == "null" then some none else (parseUnits s).map some

def cfgOf (v : String) : Cfg := if v == "w" then wide else narrow

def showRes : Res → String
  | .no => "r=0" | .yes => "r=1" | .oob => "oob"

/-- All subjects over `alpha` of length exactly `n`, lexicographic by alphabet index. -/
def subjectsOfLen (alpha : List Nat) : Nat → List (List Nat)
  | 0 => [[]]
  | n + 1 => alpha.flatMap fun a => (subjectsOfLen alpha n).map (a :: ·)

def enumOne (cfg : Cfg) (fl : Flags) (alpha : List Nat) (smax : Nat) (p : List Nat) : String :=
  let step := fun (acc : Nat × Nat × Nat) (s : List Nat) =>
    let (h, yes, oob) := acc
    let r := pathmatch cfg (some p) (some s) fl
    let code := match r with | .no => 0 | .yes => 1 | .oob => 2
    (((h ^^^ code) * 1099511628211) % 18446744073709551616,
      if code = 1 then yes + 1 else yes, if code = 2 then oob + 1 else oob)
  let (h, yes, oob) := (List.range (smax + 1)).foldl
    (fun acc n => (subjectsOfLen alpha n).foldl step acc) (14695981039346656037, 0, 0)
  let hx := (Nat.toDigits 16 h)
  let pad := String.ofList (List.replicate (16 - hx.length) '0' ++ hx)
  s!"yes={yes} oob={oob} d={pad}"

def stepLine (_ : Unit) (op _obs : String) : Unit × String :=
  match LA.words op with
  | ["match", v, f, p, s] =>
    match f.toNat?, parsePtr p, parsePtr s with
    | some f, some p, some s => ((), showRes (pathmatch (cfgOf v) p s (.ofNat f)))
    | _, _, _ => ((), "bad-op")
  | ["pm", v, f, p, s] =>
    match f.toNat?, parseUnits p, parseUnits s with
    | some f, some p, some s => ((), showRes (pm (cfgOf v) p s (.ofNat f) 0 0))
    | _, _, _ => ((), "bad-op")
  | ["list", v, b, c] =>
    match parseUnits b, parseUnits c with
    | some b, some [c] =>
      let p := C_LBRACK :: (b ++ [C_RBRACK])
      ((), match pmList (cfgOf v) p 1 (1 + b.length) c with
           | none => "oob" | some true => "r=1" | some false => "r=0")
    | _, _ => ((), "bad-op")
  | ["skip", _, s] =>
    match parseUnits s with
    | some s => ((), match slashskip s 0 with | none => "oob" | some j => s!"off={j}")
    | none => ((), "bad-op")
  | ["enum", v, f, a, m, p] =>
    match f.toNat?, parseUnits a, m.toNat?, parseUnits p with
    | some f, some a, some m, some p =>
      if a.isEmpty ∨ a.length > 32 ∨ m > 8 then ((), "bad-op")
      else ((), enumOne (cfgOf v) (.ofNat f) a m p)
    | _, _, _, _ => ((), "bad-op")
  | _ => ((), "bad-op")

def engine : LA.Engine := { σ := Unit, init := (), step := stepLine }

end LA.Pm
