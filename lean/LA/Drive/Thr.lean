/- Line-protocol glue for the `thr` engine (C13).

Prediction (from `LA.C13.independent_commute`): the digest of every workload in the
concurrent run equals its digest in the sequential run equals its digest alone;
ThreadSanitizer names no static object except those the reviewed classification
(`LA.Gen.Statics.classified`) lists as racy or idempotently initialised; no race
on heap memory; no crash.  The digests themselves are not computed by the model
(the property leaves them open): the first run of a case (`solo`) supplies them. -/
import LA.Model.Util
import LA.Model.Shared
namespace LA.Thr
open LA.Shared

structure State where
  kinds : List String := []
  ref : Option (List String) := none

/-- A race report on this static object is expected (and reported as a known finding). -/
def tolerated (sym : String) : Bool :=
  builtKeys.any (fun k => k.2 == sym && (classOf k == some .racy || classOf k == some .idempotentInit))

def field (ws : List String) (key : String) : Option String :=
  match ws.find? (·.startsWith (key ++ "=")) with
  | some w => some (w.drop (key.length + 1)).toString
  | none => none

def digestsOf (ws : List String) : List String := (ws.drop 1).takeWhile (fun w => !(w.any (· == '=')))

def wlOk : List String → Bool
  | ["wl", "rd", _] => true
  | ["wl", "wr", _, _, s, n] => s.toNat?.isSome && n.toNat?.isSome
  | ["wl", "dw", s, n] => s.toNat?.isSome && n.toNat?.isSome
  | ["wl", "dr"] => true
  | ["wl", "ver"] => true
  | _ => false

def stepLine (s : State) (op obs : String) : State × String :=
  let ws := LA.words op
  let os := LA.words obs
  match ws with
  | "wl" :: k :: _ =>
    if wlOk ws && s.kinds.length < 16 then ({ s with kinds := s.kinds ++ [k] }, "ok") else (s, "bad-op")
  | [w] =>
    if w == "solo" || w == "seq" then
      match s.ref with
      | some r => (s, "d " ++ " ".intercalate r)
      | none =>
        -- first run of the case: take the digests from the implementation
        let d := digestsOf os
        if os.head? == some "d" && d.length == s.kinds.length then
          ({ s with ref := some d }, "d " ++ " ".intercalate d)
        else (s, "d ?")
    else (s, "bad-op")
  | ["par", _] =>
    let races := match field os "races" with
      | some "-" => []
      | some r => (r.splitOn ",").filter tolerated
      | none => []
    let rs := if races.isEmpty then "-" else ",".intercalate races
    let ext := (field os "ext").getD "0"
    if s.kinds.all (· == "ver") then
      -- archive_version_details(): recorded racy; digests and crashes are whatever happened
      let d := digestsOf os
      let cr := (field os "crashes").getD "0"
      let hp := (field os "heap").getD "0"
      (s, "d " ++ " ".intercalate d ++ s!" races={rs} heap={hp} other=0 crashes={cr} ext={ext}")
    else
      let d := match s.ref with
        | some r => r
        | none => digestsOf os
      -- documented exception: archive_read_disk changes the process-wide working directory (fchdir); two or
      -- more disk readers running concurrently may disturb one another, so their digests are not predicted
      let od := digestsOf os
      let manyDr := (s.kinds.filter (· == "dr")).length ≥ 2
      let d := if manyDr && od.length == d.length then
          (List.zip s.kinds (List.zip d od)).map (fun x => if x.1 == "dr" then x.2.2 else x.2.1)
        else d
      (s, "d " ++ " ".intercalate d ++ s!" races={rs} heap=0 other=0 crashes=0 ext={ext}")
  | _ => (s, "bad-op")

def engine : LA.Engine := { σ := State, init := {}, step := stepLine }

end LA.Thr
