/- Line-protocol glue for the engines that sit on `harness/eng_read.c`:
`part` (C05), `cons` (C06), `trunc` (C08), `rd` (C01). -/
import LA.Model.ReadObs
namespace LA.ReadObs

structure DState where
  ref : Option Rec := none

def kvOf (op key : String) : String :=
  match (LA.words op).find? (·.startsWith (key ++ "=")) with
  | some w => (w.drop (key.length + 1)).toString
  | none => "-"

def isRun (op : String) : Bool := op.startsWith "run"

/-- `part`: the first run of a case is the reference; every later run (other
partition, other byte source) must reproduce its record. -/
def stepPart (d : DState) (op obs : String) : DState × String :=
  if !isRun op then ({}, obs) else
  match d.ref with
  | none => ({ ref := parse obs }, obs)
  | some r => (d, if r.clean then r.render else obs)   -- outside the domain of C05: no prediction

/-- `cons`: first run = reference with every entry read in full. -/
def stepCons (d : DState) (op obs : String) : DState × String :=
  if !isRun op then ({}, obs) else
  match d.ref with
  | none => ({ ref := parse obs }, obs)
  | some r => (d, if r.clean then (predictCons r ((kvOf op "cons").splitOn ",")).render else obs)

/-- `trunc`: first run = intact reference; later runs are checked with `truncOk`. -/
def stepTrunc (d : DState) (op obs : String) : DState × String :=
  if !isRun op then ({}, obs) else
  match d.ref with
  | none => ({ ref := parse obs }, obs)
  | some r =>
    match parse obs with
    | some t => (d, if !r.clean || truncOk r t then obs else "expected: a reported prefix of " ++ r.render)
    | none => (d, "expected: a parsable record")

/-- `rd`: every run on any input must be well formed. -/
def stepRd (d : DState) (op obs : String) : DState × String :=
  if !isRun op then (d, obs) else
  match parse obs with
  | some t => (d, if wellFormed t then obs else "expected: documented statuses, nothing after end, no over-long read, no leak")
  | none => (d, "expected: a parsable record")

def enginePart : LA.Engine := { σ := DState, init := {}, step := stepPart }
def engineCons : LA.Engine := { σ := DState, init := {}, step := stepCons }
def engineTrunc : LA.Engine := { σ := DState, init := {}, step := stepTrunc }
def engineRd : LA.Engine := { σ := DState, init := {}, step := stepRd }

end LA.ReadObs
