/- Line-protocol glue for the `codec` engine (C10, C02). -/
import LA.Model.Util
import LA.Model.NumFmt
namespace LA.Codec
open LA.NumFmt

def sent : Nat := 35  -- '#': bytes of the buffer the formatter did not touch

def showFmt (r : Bool × List Nat) (bufsz : Nat) : String :=
  let b := r.2 ++ List.replicate (bufsz - r.2.length) sent
  s!"r={if r.1 then "-1" else "0"} b={LA.toHex b}"

def fmtOp (kind : String) (v : Int) (s max : Nat) (strict : Bool) : Option (Bool × List Nat) :=
  match kind with
  | "ustar_octal" => some (ustarFormatOctal v s)
  | "v7tar_octal" => some (ustarFormatOctal v s)
  | "ustar_number" => some (ustarFormatNumber v s max strict)
  | "v7tar_number" => some (ustarFormatNumber v s max strict)
  | "ustar_256" => some (false, format256 v s)
  | "gnutar_octal" => some (gnutarFormatOctal v s)
  | "gnutar_number" => some (gnutarFormatNumber v s max)
  | "odc_octal" => some (odcFormatOctal v s)
  | "newc_hex" => some (newcFormatHex v s)
  | "ar_octal" => some (arFormat 8 v s)
  | "ar_decimal" => some (arFormat 10 v s)
  | _ => none

def atolOp (kind : String) (b : List Nat) : Option Int :=
  match kind with
  | "tar" => some (tarAtol b)
  | "tar8" => some (tarAtol8 b)
  | "tar10" => some (tarAtol10 b)
  | "tar256" => some (tarAtol256 b)
  | "cpio8" => some (toI64 (cpioAtol8 b 0))
  | "cpio16" => some (toI64 (cpioAtol16 b 0))
  | _ => none

structure DState where
  dummy : Unit := ()

def stepLine (d : DState) (op _obs : String) : DState × String :=
  match LA.words op with
  | "fmt" :: kind :: v :: s :: rest =>
    match v.toInt?, s.toNat? with
    | some v, some s =>
      let max := match rest with | m :: _ => m.toNat?.getD s | [] => s
      let strict := match rest with | _ :: st :: _ => st != "0" | _ => true
      let bufsz := if max > s then max else s
      if s = 0 ∨ bufsz > 64 then (d, "bad-op") else
      match fmtOp kind v s max strict with
      | some r => (d, showFmt r bufsz)
      | none => (d, "bad-op")
    | _, _ => (d, "bad-op")
  | ["atol", kind, hex] =>
    match LA.parseHex hex with
    | some b =>
      if b.isEmpty then (d, "bad-op") else
      match atolOp kind b with
      | some v => (d, s!"v={v}")
      | none => (d, "bad-op")
    | none => (d, "bad-op")
  | _ => (d, "bad-op")

def engine : LA.Engine := { σ := DState, init := {}, step := stepLine }

end LA.Codec
