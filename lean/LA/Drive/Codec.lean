/- Line-protocol glue for the `codec` engine (C10, C02). -/
import LA.Model.Util
import LA.Model.NumFmt
import LA.Model.Codec
import LA.Model.Pax
import LA.Model.Ar
namespace LA.Codec
open LA.NumFmt

def sent : Nat := 35  -- '#': bytes of the buffer the formatter did not touch

def showFmt (r : Bool × List Nat) (bufsz : Nat) : String :=
  let b := r.2 ++ List.replicate (bufsz - r.2.length) sent
  s!"r={if r.1 then "-1" else "0"} b={LA.toHex b}"

def fmtOp (kind : String) (v : Int) (s max : Nat) (strict : Bool) : Option (Bool × List Nat) :=
  match kind with
  | "ustar_octal" => some (ustarFormatOctal v s)
  | "v7tar_octal" => some (ustarFormatOctal v s)
  | "ustar_number" => some (ustarFormatNumber v s max strict)
  | "v7tar_number" => some (ustarFormatNumber v s max strict)
  | "ustar_256" => some (false, format256 v s)
  | "gnutar_octal" => some (gnutarFormatOctal v s)
  | "gnutar_number" => some (gnutarFormatNumber v s max)
  | "odc_octal" => some (odcFormatOctal v s)
  | "newc_hex" => some (newcFormatHex v s)
  | "ar_octal" => some (arFormat 8 v s)
  | "ar_decimal" => some (arFormat 10 v s)
  | _ => none

def atolOp (kind : String) (b : List Nat) : Option Int :=
  match kind with
  | "tar" => some (tarAtol b)
  | "tar8" => some (tarAtol8 b)
  | "tar10" => some (tarAtol10 b)
  | "tar256" => some (tarAtol256 b)
  | "cpio8" => some (toI64 (cpioAtol8 b 0))
  | "cpio16" => some (toI64 (cpioAtol16 b 0))
  | _ => none

/-! ### whole-archive ops -/

def kv (ws : List String) (k : String) : Option String :=
  match ws.find? (fun w => w.startsWith (k ++ "=")) with
  | some w => some (w.drop (k.length + 1)).toString
  | none => none

def hex64 (n : Nat) : String :=
  String.ofList ((List.range 16).reverse.map fun i => LA.hexNibble (n / 16 ^ i % 16))

def toOct (n : Nat) : String := String.ofList (Nat.toDigits 8 n)

def hexOrDash (b : List Nat) : String := if b.isEmpty then "-" else LA.toHex b

def bodyByte (seed i : Nat) : Nat := (seed % 4294967296 * 31 + i % 4294967296 * 7 + (i / 256) % 4294967296) % 256

def parseFmt : String → Option Fmt
  | "ustar" => some .ustar | "odc" => some .odc | "newc" => some .newc | _ => none

def parseFType : String → FType
  | "reg" => .reg | "dir" => .dir | "lnk" => .lnk | "chr" => .chr | "blk" => .blk
  | "fifo" => .fifo | "sock" => .sock | _ => .none

def optHex (o : Option String) : Option (List Nat) :=
  match o with
  | none => none
  | some "-" => none
  | some h => LA.parseHex h

def optInt (o : Option String) (d : Int) : Int :=
  match o with | some s => (s.toInt?).getD d | none => d

def clamp0 (v : Int) : Int := if v < 0 then 0 else v

/-- Entry described by an `ent` line, as the `archive_entry_set_*` calls of the harness leave it:
`set_uid/gid/size/ino64` replace a negative value by 0; `dev_t`/`unsigned` setters wrap as the
C casts do. -/
def parseEntry (ws : List String) : Entry :=
  let sizeO : Option Int := match kv ws "size" with
    | none => none | some "-" => none | some s => s.toInt?.map clamp0
  let perm : Nat := match kv ws "perm" with
    | some s => s.toList.foldl (fun a c => a * 8 + (c.toNat - 48)) 0
    | none => 420
  { path := optHex (kv ws "path")
    ftype := match kv ws "type" with | some t => parseFType t | none => .reg
    perm := perm
    uid := clamp0 (optInt (kv ws "uid") 0), gid := clamp0 (optInt (kv ws "gid") 0)
    size := sizeO
    mtime := match kv ws "mtime" with | some "-" => 0 | o => optInt o 0
    mtimeNs := match kv ws "mtime" with | some "-" => 0 | _ => ((kv ws "mtimens").bind String.toNat?).getD 0
    uname := (optHex (kv ws "uname")).getD [], gname := (optHex (kv ws "gname")).getD []
    sym := (optHex (kv ws "sym")).getD [], hard := (optHex (kv ws "hard")).getD []
    rdevmajor := optInt (kv ws "rdevmajor") 0, rdevminor := optInt (kv ws "rdevminor") 0
    dev := (optInt (kv ws "dev") 0) % 18446744073709551616, ino := clamp0 (optInt (kv ws "ino") 0)
    nlink := (optInt (kv ws "nlink") 0) % 4294967296 }

/-- The chunk sequence the harness feeds to `archive_write_data`. -/
def mkChunks (seed len : Nat) (sizes : List Nat) (sparse : List (Nat × Nat) := []) : List (List Nat) :=
  -- with a sparse map the harness hands over NUL bytes outside the listed data regions
  let isData (i : Nat) : Bool := sparse.isEmpty || sparse.any fun r => r.1 ≤ i && i < r.1 + r.2
  let body := (List.range len).map fun i => if isData i then bodyByte seed i else 0
  let rec go (fuel pos : Nat) (cyc : List Nat) (acc : List (List Nat)) : List (List Nat) :=
    match fuel with
    | 0 => acc.reverse
    | fuel + 1 =>
      if pos ≥ len then acc.reverse else
      let (q, cyc') := match cyc with
        | [] => (0, sizes)
        | q :: r => (q, if r.isEmpty then sizes else r)
      let k := if q > 0 ∧ q < len - pos then q else len - pos
      go fuel (pos + k) cyc' (((body.drop pos).take k) :: acc)
  go (len + 1) 0 sizes []

def showRB (r : RB) (skipped : Bool) : String :=
  let sz := match r.size with | some s => toString s | none => "-"
  let mt := match r.mtime with | some s => s!"{s}.0" | none => "-"
  let body := if skipped then "skipped" else s!"{r.body.length}:{hex64 (LA.fnv1a r.body)}:{r.bodySt.str}"
  s!"st={r.st.str} path={hexOrDash r.path} type={toOct r.ftype} perm={toOct r.perm} uid={r.uid} gid={r.gid} size={sz} mtime={mt} uname={hexOrDash r.uname} gname={hexOrDash r.gname} sym={hexOrDash r.sym} hard={hexOrDash r.hard} rdev={r.rdevmajor},{r.rdevminor} dev={r.dev} ino={r.ino} nlink={r.nlink} body={body}"

structure DState where
  fmt : Option Fmt := none
  fmtName : String := ""
  isOpen : Bool := false
  bpb : Nat := 10240
  bilb : Int := -1
  filter : String := "none"
  ws : WState := {}
  out : List Nat := []
  rbs : List RB := []
  partialRead : Bool := false
  rbs2 : Option (List RB) := none  -- read-back of the rewritten archive (none: not modelled)
  ar : Option ArVariant := none     -- the ar writers have their own state machine
  arSt : ArState := {}

/-- The entry object the reader returned, as a writer sees it when it is handed on unchanged. -/
def entryOfRB (r : RB) : Entry :=
  let ft : FType := if r.ftype = LA.Gen.CodecConsts.AE_IFREG then .reg else if r.ftype = LA.Gen.CodecConsts.AE_IFDIR then .dir
    else if r.ftype = LA.Gen.CodecConsts.AE_IFLNK then .lnk else if r.ftype = LA.Gen.CodecConsts.AE_IFCHR then .chr
    else if r.ftype = LA.Gen.CodecConsts.AE_IFBLK then .blk else if r.ftype = LA.Gen.CodecConsts.AE_IFIFO then .fifo
    else if r.ftype = LA.Gen.CodecConsts.AE_IFSOCK then .sock else .none
  { path := some r.path, ftype := ft, perm := r.perm % 4096, uid := r.uid, gid := r.gid, size := r.size,
    mtime := r.mtime.getD 0, uname := r.uname, gname := r.gname, sym := r.sym, hard := r.hard,
    rdevmajor := r.rdevmajor, rdevminor := r.rdevminor, dev := r.dev, ino := r.ino, nlink := r.nlink }

/-- `rewrite f=g`: the read-back entries written again with the modelled writer `g` and read. -/
def doRewrite (d : DState) (g : Fmt) (bpb : Nat) (bilb : Int) : DState × String :=
  let step := fun (acc : List Nat × WState × List Status) (r : RB) =>
    let (hs, _, bytes, st') := writeEntry g acc.2.1 (entryOfRB r) [r.body]
    (acc.1 ++ bytes, st', acc.2.2 ++ [hs])
  let (out, ws, hss) := d.rbs.foldl step ([], {}, [])
  let (cst, cb) := closeBytes g ws
  let raw := out ++ cb
  let total := raw ++ List.replicate (clientPad raw.length bpb bilb) 0
  let rr := readArchive false total 0
  let hs := if hss.isEmpty then "-" else String.intercalate "," (hss.map Status.str)
  ({ d with rbs2 := some rr.entries },
   s!"o=ok h={hs} c={cst.str} len={total.length} hash={hex64 (LA.fnv1a total)} fmt={String.ofList (Nat.toDigits 16 rr.fmt)} n={rr.entries.length} end={rr.endSt.str}")

def obsField (obs k : String) : String := (kv (LA.words obs) k).getD "?"

def doCloseAr (d : DState) (abort : Bool) : DState × String :=
  let cb := if abort then [] else arCloseBytes d.arSt
  let raw := d.out ++ cb
  let total := if abort then raw else raw ++ List.replicate (clientPad raw.length d.bpb d.bilb) 0
  let rr := if total.take 8 = arMagic then arReadArchive abort total else ⟨0, [], .fatal, 0⟩
  let d' := { d with rbs := rr.entries, isOpen := false, partialRead := abort }
  (d', s!"c=ok len={total.length} hash={hex64 (LA.fnv1a total)} hex={if total.length ≤ 1536 then LA.toHex total else "+"} fmt={String.ofList (Nat.toDigits 16 rr.fmt)} n={rr.entries.length} end={rr.endSt.str}")

def doClose (d : DState) (abort : Bool) (obs : String) : DState × String :=
  match d.fmt with
  | none => match d.ar with
    | none => (d, obs)
    | some _ => doCloseAr d abort
  | some f =>
    -- write filters are not modelled: with a filter the engine only monitors (the oracle engines
    -- still evaluate the property on what the implementation printed)
    if d.filter != "none" then ({ d with fmt := none }, obs) else
    let (cst, cb) := if abort then (Status.ok, []) else closeBytes f d.ws
    let raw := d.out ++ cb
    let total := if abort then raw else raw ++ List.replicate (clientPad raw.length d.bpb d.bilb) 0
    let rr := readArchive abort total 0
    let d' := { d with rbs := rr.entries, isOpen := false, partialRead := abort }
    let (len, hash, hex) :=
      if d.filter == "none" then
        (toString total.length, hex64 (LA.fnv1a total), if total.length ≤ 1536 then LA.toHex total else "+")
      else (obsField obs "len", obsField obs "hash", obsField obs "hex")   -- filter output is not modelled
    (d', s!"c={cst.str} len={len} hash={hash} hex={hex} fmt={String.ofList (Nat.toDigits 16 rr.fmt)} n={rr.entries.length} end={rr.endSt.str}")

/-- The chunks an `ent` line asks for. -/
def entChunks (ws : List String) : List (List Nat) :=
  match kv ws "body" with
  | none => [] | some "-" => []
  | some b => match b.splitOn ":" with
    | [sd, ln] =>
      let sizes := match kv ws "chunks" with
        | some c => (c.splitOn ",").filterMap String.toNat?
        | none => []
      let sparse : List (Nat × Nat) := match kv ws "sparse" with
        | none => [] | some "-" => []
        | some l => (l.splitOn ",").filterMap fun it => match it.splitOn ":" with
          | [o, n] => match o.toNat?, n.toNat? with
            | some o, some n => some (o, n)
            | _, _ => none
          | _ => none
      mkChunks (sd.toNat?.getD 0) (ln.toNat?.getD 0) sizes sparse
    | _ => []

def stepLine (d : DState) (op obs : String) : DState × String :=
  match LA.words op with
  | "fmt" :: kind :: v :: s :: rest =>
    match v.toInt?, s.toNat? with
    | some v, some s =>
      let max := match rest with | m :: _ => m.toNat?.getD s | [] => s
      let strict := match rest with | _ :: st :: _ => st != "0" | _ => true
      let bufsz := if max > s then max else s
      if s = 0 ∨ bufsz > 64 then (d, "bad-op") else
      match fmtOp kind v s max strict with
      | some r => (d, showFmt r bufsz)
      | none => (d, "bad-op")
    | _, _ => (d, "bad-op")
  | ["atol", kind, hex] =>
    match LA.parseHex hex with
    | some b =>
      if b.isEmpty then (d, "bad-op") else
      match atolOp kind b with
      | some v => (d, s!"v={v}")
      | none => (d, "bad-op")
    | none => (d, "bad-op")
  | ["paxrec", k, v] =>
    match LA.parseHex k, LA.parseHex v with
    | some k, some v => (d, s!"b={LA.toHex (LA.Pax.record k v)}")
    | _, _ => (d, "bad-op")
  | ["paxbody", h] =>
    match (if h == "-" then some [] else LA.parseHex h) with
    | none => (d, "bad-op")
    | some body =>
      match LA.Pax.parseRecords body.length body with
      | none => (d, "st=warn")          -- "Ignoring malformed pax attributes"
      | some kvs =>
        -- SCHILY.xattr.<name> (1..128 bytes) becomes an extended attribute; other keys are unknown to the reader
        let pfx : List Nat := [83, 67, 72, 73, 76, 89, 46, 120, 97, 116, 116, 114, 46]
        -- the key is handed on as a C string (`archive_strncpy`): it ends at the first NUL
        let xs := kvs.filterMap fun kv =>
          let key := cstr kv.1
          let name := key.drop 13
          if key.take 13 = pfx ∧ 1 ≤ name.length ∧ name.length ≤ 128 then some (hexOrDash name ++ ":" ++ hexOrDash kv.2) else none
        let xs := xs.mergeSort (fun a b => decide (a ≤ b))
        -- a SCHILY.xattr name of more than 128 bytes is skipped with a warning ("Unable to parse xattr")
        if kvs.any (fun kv => (cstr kv.1).take 13 == pfx && decide (((cstr kv.1).drop 13).length > 128)) then (d, "st=warn") else
        (d, s!"st=ok n={xs.length} x={if xs.isEmpty then "-" else String.intercalate "," xs}")
  | "open" :: ws =>
    let name := (kv ws "f").getD ""
    let d' : DState := { fmt := parseFmt name, fmtName := name, isOpen := true,
                         bpb := ((kv ws "bpb").bind String.toNat?).getD 10240,
                         bilb := optInt (kv ws "bilb") (-1),
                         filter := (kv ws "filter").getD "none" }
    let d' := { d' with ar := if d'.filter != "none" then none
                              else if name == "arbsd" then some .bsd else if name == "arsvr4" then some .svr4 else none }
    match d'.fmt, d'.ar with
    | none, none => (d', obs)
    | _, _ => (d', "o=ok")
  | "ent" :: ws =>
    match d.fmt with
    | none =>
      match d.ar with
      | none => (d, obs)
      | some v =>
        let e := parseEntry ws
        let chunks := entChunks ws
        let nofinish := (kv ws "nofinish").isSome
        let h := arWriteHeader v d.arSt e
        if h.1 = .unmodelled then ({ d with ar := none }, obs) else
        let r := chunks.foldl arDataStep (0, [], h.2.2)
        let fin := if nofinish then (Status.ok, []) else arFinishEntry r.2.2
        let d' := { d with arSt := r.2.2, out := d.out ++ h.2.1 ++ r.2.1 ++ fin.2 }
        (d', s!"h={h.1.str} w={r.1}:ok f={if nofinish then "-" else fin.1.str} len={if d.bpb = 0 then toString d'.out.length else "-"}")
    | some f =>
      let e := parseEntry ws
      let chunks : List (List Nat) := match kv ws "body" with
        | none => [] | some "-" => []
        | some b => match b.splitOn ":" with
          | [sd, ln] =>
            let sizes := match kv ws "chunks" with
              | some c => (c.splitOn ",").filterMap String.toNat?
              | none => []
            let sparse : List (Nat × Nat) := match kv ws "sparse" with
              | none => [] | some "-" => []
              | some l => (l.splitOn ",").filterMap fun it => match it.splitOn ":" with
                | [o, n] => match o.toNat?, n.toNat? with
                  | some o, some n => some (o, n)
                  | _, _ => none
                | _ => none
            mkChunks (sd.toNat?.getD 0) (ln.toNat?.getD 0) sizes sparse
          | _ => []
      let nofinish := (kv ws "nofinish").isSome
      let (hs, hb, st1) := writeHeader f d.ws e
      if hs = .failed ∨ hs = .fatal then
        let d' := { d with ws := st1, out := d.out ++ hb }
        (d', s!"h={hs.str} w=0:ok f=- len={if d.bpb = 0 then (if d.filter == "none" then toString d'.out.length else obsField obs "len") else "-"}")
      else
        let r := chunks.foldl dataStep (0, [], st1)
        let (fb, st3) := if nofinish then ([], r.2.2) else finishEntry r.2.2
        let d' := { d with ws := st3, out := d.out ++ hb ++ r.2.1 ++ fb }
        (d', s!"h={hs.str} w={r.1}:ok f={if nofinish then "-" else "ok"} len={if d.bpb = 0 then (if d.filter == "none" then toString d'.out.length else obsField obs "len") else "-"}")
  | ["done"] =>
    -- a crashed spec-level case is echoed (the oracle engines report it); for the modelled formats it is a mismatch
    (d, if d.fmt.isNone && obs.startsWith "!" then obs else "done")
  | ["close"] => doClose d false obs
  | ["abort"] => doClose d true obs
  | "rewrite" :: ws =>
    match d.fmt, (kv ws "f").bind parseFmt with
    | some _, some g =>
      doRewrite d g (((kv ws "bpb").bind String.toNat?).getD 10240) (optInt (kv ws "bilb") (-1))
    | _, _ => ({ d with rbs2 := none }, obs)
  | ["rd2", i] =>
    match d.rbs2 with
    | none => (d, obs)
    | some l =>
      match i.toNat? with
      | some i => match l[i]? with
        | some r => (d, showRB r false)
        | none => (d, "none")
      | none => (d, "bad-op")
  | ["rd", i] =>
    match d.fmt, d.ar with
    | none, none => (d, obs)
    | _, _ =>
      match i.toNat? with
      | some i =>
        match d.rbs[i]? with
        | some r => (d, showRB r (d.partialRead && r.size.getD 0 > 1048576))
        | none => (d, "none")
      | none => (d, "bad-op")
  | _ => (d, "bad-op")

def engine : LA.Engine := { σ := DState, init := {}, step := stepLine }

end LA.Codec
