/-
The executable predicates of C10 and C02 evaluated on the *implementation's* observed
behaviour (engine names `codec.c10`, `codec.c02`): the driver is fed every op of a case
together with what the harness printed for it and answers "-" for every op but `done`,
where it prints `ok` or the first violated clause.

  C10:  header status ok  ⇒  the entry reads back equal to `norm f e` on every field `f` carries
        (never plain success while storing a different value); refused entries leave an
        archive that reads back as exactly the accepted entries.
  C02:  additionally  representable f e ⇒ status ok; detected format is the written one;
        the archive ends cleanly.
-/
import LA.Model.Util
import LA.Model.FmtSpec
import LA.Drive.Codec
namespace LA.Codec

structure Written where
  e : Entry
  hst : String
  bodyLen : Nat
  bodyHash : Nat
  hasBody : Bool
  x : Extras := {}
  fflags : String := ""                    -- file flags text handed to the writer
  expHard : Option (List Nat) := none      -- hard-link target the format must return (from the group logic)
  expNlink : Option Nat := none            -- link count the format computes itself
  orphan : Bool := false                   -- a link entry whose target was not written before it
  grp : List (List Nat) := []              -- iso9660: normalised names of the whole link group
  grpBody : Option (Nat × Nat × Int) := none   -- iso9660: body length, digest and size of the group's file

instance : Inhabited Written := ⟨⟨{}, "", 0, 0, false, {}, "", none, none, false, [], none⟩⟩

structure ReadObs where
  -- (Inhabited below)
  rb : RB
  nsec : Nat
  bodyLen : Nat
  bodyHash : String
  bodySt : String
  skipped : Bool
  x : Extras := {}
  fflags : String := ""

instance : Inhabited ReadObs := ⟨⟨{}, 0, 0, "", "", false, {}, ""⟩⟩

structure OState where
  c02 : Bool := false
  fmt : Option WFmt := none
  fmtName : String := ""
  filter : String := "none"
  wopt : String := ""             -- write options
  ropt : String := ""             -- read options (both reads)
  aborted : Bool := false
  written : List Written := []
  closeCode : Nat := 0
  closeN : Nat := 0
  closeEnd : String := ""
  closeSt : String := ""
  closed : Bool := false
  reads : List ReadObs := []
  rwFmt : Option WFmt := none     -- `rewrite` target
  rwH : List String := []         -- header statuses of the rewrite
  rwEnd : String := ""
  rwCode : Nat := 0
  reads2 : List ReadObs := []
  bad : Option String := none     -- malformed observation
  carry : Option String := none   -- first violated clause of an earlier archive of the same case

def parseOct (s : String) : Nat := s.toList.foldl (fun a c => a * 8 + (c.toNat - 48)) 0
def parseHexNat (s : String) : Nat := s.toList.foldl (fun a c => a * 16 + (LA.hexDigit c).getD 0) 0

def hexField (ws : List String) (k : String) : List Nat :=
  match kv ws k with
  | some "-" => [] | some h => (LA.parseHex h).getD [] | none => []

def parseTime (o : Option String) : Option (Int × Nat) :=
  match o with
  | none => none
  | some "-" => none
  | some t => match t.splitOn "." with
    | [a] => a.toInt?.map (·, 0)
    | [a, b] => a.toInt?.map (·, b.toNat?.getD 0)
    | _ => none

def parseItems (o : Option String) : List String :=
  match o with
  | none => [] | some "-" => [] | some l => l.splitOn ","

/-- The metadata keys shared by `ent` lines and read-back lines. -/
def parseExtras (ws : List String) : Extras :=
  { mtimeSet := match kv ws "mtime" with | none => false | some "-" => false | some _ => true
    atime := parseTime (kv ws "atime"), ctime := parseTime (kv ws "ctime"), btime := parseTime (kv ws "btime")
    sparse := (parseItems (kv ws "sparse")).filterMap fun it =>
      match it.splitOn ":" with
      | [o, l] => match o.toNat?, l.toNat? with
        | some o, some l => some (o, l)
        | _, _ => none
      | _ => none
    acl := parseItems (kv ws "acl")
    xattr := parseItems (kv ws "xattr") }

def parseRead (obs : String) : Option ReadObs :=
  let ws := LA.words obs
  match kv ws "st" with
  | none => none
  | some st =>
    let stt : Status := if st == "ok" then .ok else if st == "warn" then .warn else .failed
    let (mt, ns) : Option Int × Nat := match kv ws "mtime" with
      | some "-" => (none, 0)
      | some m => match m.splitOn "." with
        | [a, b] => (a.toInt?, b.toNat?.getD 0)
        | _ => (none, 0)
      | none => (none, 0)
    let (rM, rm) : Int × Int := match (kv ws "rdev").map (·.splitOn ",") with
      | some [a, b] => (a.toInt?.getD 0, b.toInt?.getD 0)
      | _ => (0, 0)
    let rb : RB := {
      st := stt, path := hexField ws "path"
      ftype := parseOct ((kv ws "type").getD "0"), perm := parseOct ((kv ws "perm").getD "0")
      uid := optInt (kv ws "uid") 0, gid := optInt (kv ws "gid") 0
      size := match kv ws "size" with | some "-" => none | o => some (optInt o 0)
      mtime := mt
      uname := hexField ws "uname", gname := hexField ws "gname"
      sym := hexField ws "sym", hard := hexField ws "hard"
      rdevmajor := rM, rdevminor := rm
      dev := optInt (kv ws "dev") 0, ino := optInt (kv ws "ino") 0
      nlink := (optInt (kv ws "nlink") 0).toNat }
    -- mtree spells "no flags" (overriding a /set) `flags=none`
    let ffl := match kv ws "fflags" with | some "none" => "" | some t => t | none => ""
    match (kv ws "body").map (·.splitOn ":") with
    | some [l, h, s] => some ⟨rb, ns, l.toNat?.getD 0, h, s, false, parseExtras ws, ffl⟩
    | some ["skipped"] => some ⟨rb, ns, 0, "", "", true, parseExtras ws, ffl⟩
    | _ => none

/-- The body a reader must deliver for a written entry: what was accepted, zero filled
to the declared size. -/
def expectedBody (e : Entry) (seed len : Nat) (sparse : List (Nat × Nat) := []) : List Nat :=
  let size := e.sizeV.toNat
  -- with a sparse map the harness hands over NUL bytes outside the listed data regions
  let isData (i : Nat) : Bool := sparse.isEmpty || sparse.any fun r => r.1 ≤ i && i < r.1 + r.2
  let given := (List.range (min len size)).map fun i => if isData i then bodyByte seed i else 0
  given ++ List.replicate (size - given.length) 0

def accepted (f : WFmt) (w : Written) : Bool := w.hst == "ok" || (w.hst == "warn" && f.warnStores)

/-! ### hard-link groups

Which entries of an archive name the same file is a property of the whole archive: tar stores the
target's name in the link entry (`norm`), the cpio family stores (dev, ino, nlink) and the reader names
the first member it saw, xar and iso9660 store the link by name and count the links themselves; they can
only link to a file written *before* the link. -/

def storesLinkByName (f : WFmt) : Bool := f == .xar || f == .iso9660
def dropsLink (f : WFmt) : Bool :=
  !(isTar f || isCpio f || storesLinkByName f)

/-- The reader's `record_hardlink` replayed on the written entries: the name a later member of a
(dev, ino) group gets as its hard-link target. -/
def cpioExpHard (acc : List Written) : List (List Nat) :=
  let step (st : LinkTab × List (List Nat)) (w : Written) : LinkTab × List (List Nat) :=
    let rb : RB := { path := w.e.path.getD [], dev := w.e.dev, ino := w.e.ino, nlink := w.e.nlink.toNat }
    let r := recordHardlink st.1 rb
    (r.1, st.2 ++ [r.2.hard])
  (acc.foldl step ([], [])).2

def linkAdjust (f : WFmt) (acc : List Written) : List Written :=
  if isCpio f then
    (acc.zip (cpioExpHard acc)).map fun p => { p.1 with expHard := some p.2 }
  else if storesLinkByName f then
    (List.range acc.length).map fun i =>
      let w := acc.getD i default
      let before := acc.take i
      -- the group of `t`: the plain entry of that name and the links written after it
      let groupOf (t : List Nat) : List Written :=
        match (List.range acc.length).find? (fun j => (acc.getD j default).e.path == some t && (acc.getD j default).e.hard.isEmpty) with
        | none => []
        | some j => (acc.getD j default) :: ((acc.drop (j + 1)).filter fun v => v.e.hard == t)
      if !w.e.hard.isEmpty then
        if before.any (fun v => v.e.path == some w.e.hard && v.e.hard.isEmpty) then
          let g := groupOf w.e.hard
          let tgt := g.headD w
          { w with expHard := some w.e.hard, expNlink := some g.length,
                   grp := g.map (fun v => (norm f v.e).path.getD []),
                   grpBody := some (tgt.bodyLen, tgt.bodyHash, tgt.e.sizeV) }
        else { w with orphan := true }
      else
        let g := groupOf (w.e.path.getD [])
        if g.length > 1 then
          { w with expNlink := some g.length, grp := g.map (fun v => (norm f v.e).path.getD []),
                   grpBody := some (w.bodyLen, w.bodyHash, w.e.sizeV) }
        else w
  else acc

/-! ### mtree writer options: which keywords are written decides which fields come back -/

def mtreeDefaultKeys : List String :=
  ["device", "flags", "gid", "gname", "link", "mode", "nlink", "size", "time", "type", "uid", "uname"]

def mtreeAllKeys : List String :=
  mtreeDefaultKeys ++ ["cksum", "inode", "md5", "resdevice", "rmd160", "sha1", "sha256", "sha384", "sha512"]

def mtreeKeys (opts : String) : List String :=
  (opts.splitOn ",").foldl (fun ks tok =>
    let t := if tok.startsWith "mtree:" then (tok.drop 6).toString else tok
    if t == "all" then mtreeAllKeys
    else if t == "!all" then []
    else if t.startsWith "!" then ks.filter (· != (t.drop 1).toString)
    else if mtreeAllKeys.contains t && !ks.contains t then ks ++ [t] else ks) mtreeDefaultKeys

def optHas (opts tok : String) : Bool :=
  (opts.splitOn ",").any fun t => t == tok || t == "mtree:" ++ tok

/-- The expectation restricted to the keywords an mtree archive was written with. -/
def Exp.mtreeKeys (x : Exp) (ks : List String) : Exp :=
  let has (k : String) : Bool := ks.contains k
  { x with ftype := if has "type" then x.ftype else none
           perm := if has "mode" then x.perm else none
           uid := if has "uid" then x.uid else none
           gid := if has "gid" then x.gid else none
           uname := if has "uname" then x.uname else none
           gname := if has "gname" then x.gname else none
           mtime := if has "time" then x.mtime else none
           mtimeNs := if has "time" then x.mtimeNs else none
           size := if has "size" then x.size else none
           sym := if has "link" && has "type" then x.sym else none
           rdev := if has "device" && has "type" then x.rdev else none }

def carriesFflags : WFmt → Bool
  | .pax | .paxr | .mtree => true | _ => false

/-- `norm` completed by what the extras say: an unset mtime, and the Joliet view of an image. -/
def normX (f : WFmt) (joliet : Bool) (e : Entry) (x : Extras) (opts : String := "") : Exp :=
  let n := norm f e
  let n := if x.mtimeSet then n else { n with mtime := unsetMtimeReads f, mtimeNs := none }
  let n := if f == .mtree then n.mtreeKeys (mtreeKeys opts) else n
  if joliet then n.joliet e.ftype else n

/-- What the link-group logic adds to the per-entry expectation. -/
def linkMismatch (f : WFmt) (w : Written) (r : ReadObs) : Option String :=
  if w.orphan then
    (if r.rb.hard == w.e.hard then none
     else some "hard link entry written before (or without) its target stored as a plain file")
  else if !w.e.hard.isEmpty && dropsLink f then
    some "hard link target not stored: the entry is kept as an empty file"
  else
    let h : Option String := match w.expHard with
      | some t =>
        if f == .iso9660 then
          (if r.rb.hard.isEmpty || w.grp.contains r.rb.hard then none
           else some s!"hard wrote={t} read={r.rb.hard}")
        else if r.rb.hard == t then none else some s!"hard wrote={t} read={r.rb.hard}"
      | none =>
        if f == .iso9660 && !w.grp.isEmpty && !(r.rb.hard.isEmpty || w.grp.contains r.rb.hard) then
          some s!"hard wrote=[] read={r.rb.hard}" else none
    h.orElse fun _ => match w.expNlink with
      | some n => if r.rb.nlink == n then none else some s!"nlink wrote={n} read={r.rb.nlink}"
      | none => none

/-- Check one (written, read) pair. -/
def checkPair (c02 : Bool) (f : WFmt) (tag : String) (w0 : Written) (r : ReadObs) (joliet : Bool := false)
    (opts : String := "") : Option String :=
  -- iso9660 names one member of a link group as the file (with the body) and the others as links to it
  let isoMember := f == .iso9660 && !w0.grp.isEmpty && !w0.orphan
  let w : Written := match isoMember, w0.grpBody with
    | true, some (bl, bh, sz) =>
      if r.rb.hard.isEmpty then { w0 with bodyLen := bl, bodyHash := bh, e := { w0.e with size := some sz, hard := [] } }
      else { w0 with hasBody := false, e := { w0.e with hard := [] } }
    | _, _ => w0
  if c02 && representable f w.e && w.hst != "ok" then
    some s!"C02 {tag} representable entry not accepted status={w.hst}"
  else if w.hst != "ok" then none        -- reported: nothing is promised about the stored value
  else if w.e.path.isNone then some s!"C10 {tag} status=ok field=path missing mandatory field"
  else if w.e.ftype = .none && w.e.hard.isEmpty then some s!"C10 {tag} status=ok field=type missing mandatory field"
  else
    let nx := normX f joliet w.e w.x opts
    let nx := if isoMember && !r.rb.hard.isEmpty then { nx with size := none } else nx
    let nx := if w0.orphan || (!w0.e.hard.isEmpty && (dropsLink f || storesLinkByName f)) then { nx with size := none } else nx
    match ((nx.mismatch r.rb r.nsec).orElse
          (fun _ => if joliet then none else Extras.mismatch f w.e.mtime w.e.sizeV.toNat w.x r.x)).orElse
          (fun _ => (if joliet then none else linkMismatch f w0 r).orElse fun _ =>
            if carriesFflags f && !joliet && (f != .mtree || (mtreeKeys opts).contains "flags") && w.fflags != r.fflags then
              some s!"fflags wrote={w.fflags} read={r.fflags}" else none) with
    | some m => some s!"C10 {tag} status=ok field={m}"
    | none =>
      if r.rb.st != .ok then some s!"C10 {tag} status=ok field=readstatus read={r.rb.st.str}"
      else if r.skipped then none
      else if (norm f w.e).body && w.hasBody then
        if r.bodyLen != w.bodyLen then some s!"C10 {tag} status=ok field=bodylen wrote={w.bodyLen} read={r.bodyLen}"
        else if r.bodyHash != hex64 w.bodyHash then some s!"C10 {tag} status=ok field=body differs"
        else if r.bodySt != "eof" then some s!"C10 {tag} status=ok field=bodystatus read={r.bodySt}"
        else none
      else none

/-- Directories a container format may synthesise for the parents of stored members. -/
def isParentOf (dir : List Nat) (p : List Nat) : Bool :=
  let d := joinSlash (cleanComponents dir)
  let q := joinSlash (cleanComponents p)
  d.isEmpty || (d.length < q.length && q.take d.length == d && q.getD d.length 0 == slash)

/-- C02's fixed-point clause: the entries obtained from the read, fed unchanged into writer `g`
and read again, come back as `norm g` of themselves (for `g = f`: unchanged). -/
def rewriteVerdict (s : OState) (f : WFmt) : Option String :=
  match s.rwFmt with
  | none => none
  | some g =>
    let tag := s!"f={f.name} rewrite={g.name}"
    -- pair every first-read entry with its header status in the rewrite
    let items := (s.reads.zip (s.rwH ++ List.replicate s.reads.length "?")).filter fun p =>
      !((norm g p.1.rb.toEntry).path.getD []).isEmpty      -- the synthesised root directory of a container
    let acc := items.filter fun p => p.2 == "ok" || (p.2 == "warn" && g.warnStores)
    let refused := items.findSome? fun p =>
      if representable g p.1.rb.toEntry && p.2 != "ok" then
        some s!"C02 {tag} representable read-back entry not accepted status={p.2} path={LA.toHex p.1.rb.path}"
      else none
    refused.orElse fun _ =>
    if items.any (fun p => p.2 == "fatal") then none else     -- C10 territory
    let check (r1 : ReadObs) (h : String) (r2 : ReadObs) : Option String :=
      if h != "ok" || !representable g r1.rb.toEntry || !r1.x.inRange g then none else    -- unrepresentable but accepted: C10's business
      match ((normX g false r1.rb.toEntry r1.x).mismatch r2.rb r2.nsec).orElse
            (fun _ => Extras.mismatch g (r1.rb.mtime.getD 0) (r1.rb.size.getD 0).toNat r1.x r2.x) with
      | some m => some s!"C02 {tag} status=ok field={m}"
      | none =>
        if carriesFflags g && carriesFflags f && r1.fflags != r2.fflags then
          some s!"C02 {tag} status=ok field=fflags wrote={r1.fflags} read={r2.fflags}"
        else
        if (norm g r1.rb.toEntry).body && (norm f r1.rb.toEntry).body && !r1.skipped
            && (r1.bodyLen != r2.bodyLen || r1.bodyHash != r2.bodyHash) then
          some s!"C02 {tag} status=ok field=body differs"
        else none
    let pairs : Option String :=
      if g.unordered || f.unordered then
        acc.findSome? fun p =>
          let want := (norm g p.1.rb.toEntry).path.getD []
          match s.reads2.find? (fun r => r.rb.path == want || r.rb.path == want ++ [slash] || r.rb.path ++ [slash] == want) with
          | some r2 => check p.1 p.2 { r2 with rb := { r2.rb with path := want } }
          | none => if p.2 == "ok" then some s!"C02 {tag} accepted entry not read back path={LA.toHex want}" else none
      else
        let rec go : List (ReadObs × String) → List ReadObs → Option String
          | p :: ps, r2 :: rs => (check p.1 p.2 r2).orElse fun _ => go ps rs
          | p :: _, [] => some s!"C02 {tag} accepted entry not read back path={LA.toHex p.1.rb.path}"
          | [], r2 :: _ => some s!"C02 {tag} entry read back that was never accepted path={LA.toHex r2.rb.path}"
          | [], [] => none
        go acc s.reads2
    pairs.orElse fun _ =>
      if s.rwEnd != "eof" then some s!"C02 {tag} archive does not end cleanly end={s.rwEnd}"
      else if !s.reads2.isEmpty && !g.codes.contains s.rwCode then
        some s!"C02 {tag} detected format {String.ofList (Nat.toDigits 16 s.rwCode)}"
      else none

def verdict (s : OState) : String :=
  match s.bad with
  | some b => "BAD-OBS " ++ b
  | none =>
  match s.fmt with
  | none => "ok"      -- not a round-trip case (formatter ops only)
  | some f =>
    if s.written.any (fun w => w.hst.startsWith "!") then s!"C10 f={f.name} crashed in archive_write_header" else
    if s.closeSt.startsWith "!" then s!"C02 f={f.name} crashed in archive_write_close" else
    if !s.closed then "ok" else
    let acc := linkAdjust f (s.written.filter (accepted f))
    let dironly := f == .mtree && optHas s.wopt "dironly"
    let acc := if dironly then acc.filter (fun w => w.e.ftype == .dir) else acc   -- `dironly`: nothing else is written
    let hasSub (h n : String) : Bool := (h.splitOn n).length > 1
    -- the Joliet tree is what is read when Rock Ridge is switched off on either side
    let joliet := f == .iso9660 && (hasSub s.ropt "!rockridge" || hasSub s.wopt "!rockridge")
    let jmax := if hasSub s.wopt "joliet=long" then 103 else 64
    let tag := (if s.filter == "none" then s!"f={f.name}" else s!"f={f.name} filter={s.filter}") ++ (if joliet then " view=joliet" else "")
    -- a header refusal that is FATAL kills the handle: every later entry is rejected too, which is
    -- not "a refused entry leaves an archive that still reads back as the accepted entries"
    if s.written.any (·.hst == "fatal") then s!"C10 {tag} refusal was fatal: the archive cannot take further entries"
    else if s.written.any (fun w => w.hst.startsWith "!") then s!"C10 {tag} crashed in archive_write_header"
    else
    if s.reads.isEmpty && s.closeEnd == "fatal" && s.closeSt == "ok" && !s.aborted && s.written.all (·.hst == "ok") && !s.written.isEmpty then
      s!"C02 {tag} every entry accepted with ARCHIVE_OK but the archive cannot be read back at all"
    else
    if s.filter != "none" && s.closeEnd == "fatal" && s.closeSt == "ok" && !s.aborted && s.written.any (accepted f) then
      s!"C02 {tag} the filtered stream cannot be read back to its end (end=fatal after {s.reads.length} entries)"
    else
    if s.closeSt == "fatal" || s.closeSt == "failed" then
      s!"C10 {tag} close failed status={s.closeSt} after the entries were accepted"
    else
    let endOk := if s.aborted then true else s.closeEnd == "eof"
    let codeOk := s.reads.isEmpty || f.codes.contains s.closeCode
    let pairs : Option String :=
      if f.unordered then
        -- every entry accepted with plain OK is found by its normalised name; entries accepted with a
        -- warning may come back under any name; other extra entries only as synthesised parents
        let same (r : ReadObs) (w : Written) : Bool :=
          let p := (norm f w.e).path.getD []
          r.rb.path == p || r.rb.path == p ++ [slash] || r.rb.path ++ [slash] == p
        -- (Joliet: a name the UCS-2 tree cannot hold unchanged is mangled, like a warned one)
        let plain (w : Written) : Bool := w.hst == "ok" && (!joliet || jolietSafe jmax ((norm f w.e).path.getD []))
        let oks := acc.filter plain
        let warns := acc.filter (fun w => !plain w)
        let twice (w : Written) : Bool := (acc.filter fun v => (norm f v.e).path == (norm f w.e).path).length > 1
        let miss := oks.findSome? fun w =>
          match s.reads.find? (fun r => same r w) with
          | some r => (checkPair s.c02 f tag w { r with rb := { r.rb with path := (norm f w.e).path.getD [] } } joliet s.wopt).map
                        fun m => if twice w then m ++ " (pathname written twice)" else m
          | none => some s!"C10 {tag} accepted entry not read back path={LA.toHex ((norm f w.e).path.getD [])}"
        miss.orElse fun _ =>
          let strangers := s.reads.filter fun r =>
            !(acc.any (same r)) && !((f == .iso9660 || f == .mtree || f == .xar) && acc.any (fun w => isParentOf r.rb.path ((norm f w.e).path.getD [])))
          let unmatchedWarns := (warns.filter fun w => !(s.reads.any (fun r => same r w))).length
          if strangers.length > unmatchedWarns then
            some s!"C10 {tag} entry read back that was never accepted path={LA.toHex ((strangers.getD unmatchedWarns default).rb.path)}"
          else none
      else
        let rec go : List Written → List ReadObs → Option String
          | w :: ws, r :: rs => (checkPair s.c02 f tag w r false s.wopt).orElse fun _ => go ws rs
          | w :: _, [] => if s.aborted then none else some s!"C10 {tag} accepted entry not read back path={LA.toHex (w.e.path.getD [])}"
          | [], r :: _ => some s!"C10 {tag} entry read back that was never accepted path={LA.toHex r.rb.path}"
          | [], [] => none
        go acc s.reads
    let refusedRepr : Option String :=
      if s.c02 then s.written.findSome? fun w =>
        if representable f w.e && w.hst != "ok" then some s!"C02 {tag} representable entry not accepted status={w.hst}" else none
      else none
    match pairs.orElse (fun _ => refusedRepr) with
    | some m => m
    | none =>
      if !endOk then s!"C02 {tag} archive does not end cleanly end={s.closeEnd}"
      else if s.c02 && !codeOk then s!"C02 {tag} detected format {String.ofList (Nat.toDigits 16 s.closeCode)}"
      else if s.closeSt != "ok" then s!"C10 {tag} close status={s.closeSt}"
      else match rewriteVerdict s f with
        | some m => m
        | none => "ok"

def oStep (s : OState) (op obs : String) : OState × String :=
  match LA.words op with
  | "open" :: ws =>
    let name := (kv ws "f").getD ""
    -- a case may hold several archives: the one just finished is judged before the next starts
    let v := verdict s
    let carry := s.carry.orElse fun _ => if v == "ok" then none else some v
    ({ s with fmt := WFmt.ofName name, fmtName := name, filter := (kv ws "filter").getD "none", written := [], reads := [],
              wopt := (kv ws "opt").getD "", ropt := (kv ws "ropt").getD "", carry := carry,
              rwFmt := none, rwH := [], reads2 := [], closeSt := "", closeEnd := "",
              closed := false, aborted := false }, "-")
  | "ent" :: ws =>
    let e := parseEntry ws
    let hst := if obs.startsWith "!" then "!crash" else obsField obs "h"
    let (seed, len) : Nat × Nat := match kv ws "body" with
      | none => (0, 0) | some "-" => (0, 0)
      | some b => match b.splitOn ":" with
        | [sd, ln] => (sd.toNat?.getD 0, ln.toNat?.getD 0)
        | _ => (0, 0)
    -- what the entry looks like to the reader: size as the writer declares it
    let x := parseExtras ws
    let body := if e.sizeV ≤ 65536 then expectedBody e seed len x.sparse else []
    let w : Written := { e := e, hst := hst, bodyLen := body.length, bodyHash := LA.fnv1a body,
                         hasBody := e.sizeV ≤ 65536 && (kv ws "nofinish").isNone, x := x,
                         fflags := match kv ws "fflags" with | some "-" => "" | some t => t | none => "" }
    if hst == "?" then ({ s with bad := some "ent line without status" }, "-")
    else ({ s with written := s.written ++ [w] }, "-")
  | [c] =>
    if c == "close" || c == "abort" then
      let ws := LA.words obs
      ({ s with closed := true, aborted := c == "abort"
              , closeCode := parseHexNat ((kv ws "fmt").getD "0")
              , closeN := ((kv ws "n").bind String.toNat?).getD 0
              , closeEnd := (kv ws "end").getD "?", closeSt := if obs.startsWith "!" then "!crash" else (kv ws "c").getD "?" }, "-")
    else if c == "done" then (s, match s.carry with | some v => v | none => verdict s)
    else (s, "-")
  | "rewrite" :: ws =>
    let o := LA.words obs
    ({ s with rwFmt := (kv ws "f").bind WFmt.ofName
            , rwH := ((kv o "h").getD "").splitOn ","
            , rwEnd := (kv o "end").getD "?"
            , rwCode := parseHexNat ((kv o "fmt").getD "0"), reads2 := [] }, "-")
  | ["rd2", _] =>
    if obs == "none" || obs.startsWith "!" then (s, "-")
    else match parseRead obs with
      | some r => ({ s with reads2 := s.reads2 ++ [r] }, "-")
      | none => ({ s with bad := some ("unparsable rd2 line: " ++ (obs.take 80).toString) }, "-")
  | ["rd", _] =>
    if obs == "none" || obs.startsWith "!" then (s, "-")
    else match parseRead obs with
      | some r => ({ s with reads := s.reads ++ [r] }, "-")
      | none => ({ s with bad := some ("unparsable rd line: " ++ obs.take 80) }, "-")
  | _ => (s, "-")

def oracle10 : LA.Engine := { σ := OState, init := {}, step := oStep }
def oracle02 : LA.Engine := { σ := OState, init := { c02 := true }, step := oStep }

end LA.Codec
