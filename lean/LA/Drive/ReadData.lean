/- Line-protocol glue for the `rdd` engine (C06): `harness/eng_rdd.c` drives the real
archive_read.c over a scripted format; this is the same script on `LA.RD`. -/
import LA.Model.ReadData
namespace LA.RD

structure DState where
  h : H := {}
  script : List Entry := []     -- entries declared before `open` (in order)
  opened : Bool := false

def parseSt : String → Option St
  | "ok" => some .ok | "eof" => some .eof | "retry" => some (.err .retry) | "warn" => some (.err .warn)
  | "failed" => some (.err .failed) | "fatal" => some (.err .fatal) | _ => none

def St.name : St → String
  | .ok => "ok" | .eof => "eof" | .err .retry => "retry" | .err .warn => "warn"
  | .err .failed => "failed" | .err .fatal => "fatal"

def AState.name : AState → String
  | .new => "new" | .header => "header" | .data => "data" | .eof => "eof" | .closed => "closed" | .fatal => "fatal"

def parseTSt (s : String) : Option TSt :=
  match parseSt s with
  | some .eof => some .eof
  | some (.err e) => some (.err e)
  | _ => none

/-- `<st>` or `<st>:<off>:<hex>` -/
def parseEv (w : String) : Option Ev :=
  match w.splitOn ":" with
  | [s] => do let st ← parseSt s; pure { st := st }
  | [s, o, x] => do
    let st ← parseSt s
    let off ← o.toInt?
    let bs ← LA.parseHex x
    pure { st := st, out := some (off, bs) }
  | _ => none

/-- `T<st>` or `T<st>:<off>` -/
def parseTerm (w : String) : Option Term :=
  if !w.startsWith "T" then none else
  match ((w.drop 1).toString).splitOn ":" with
  | [s] => do let st ← parseTSt s; pure { st := st }
  | [s, o] => do let st ← parseTSt s; let off ← o.toInt?; pure { st := st, off := some off }
  | _ => none

def parseHook (w : String) : Option (Option St) :=
  if w == "nohook" then some none
  else match w.splitOn ":" with
    | ["hook", s] => (parseSt s).map some
    | _ => none

def parseEvs : List String → Option (List Ev × Term)
  | [] => none
  | [t] => do let tm ← parseTerm t; pure ([], tm)
  | w :: ws => do
    let e ← parseEv w
    let (es, tm) ← parseEvs ws
    pure (e :: es, tm)

def flags (d : DState) : String :=
  let h := d.h
  s!" st={h.state.name} oo={h.rd.outOff} of={h.rd.off} rem={h.rd.blk.length} pr={if h.rd.posix then 1 else 0} rq={h.rd.requested} fc={h.fileCount} ev={h.evpos}"

def stepLine (d : DState) (op _obs : String) : DState × String :=
  match LA.words op with
  | "entry" :: hst :: size :: hook :: rest =>
    if d.opened then (d, "bad-op") else
    match parseSt hst, size.toNat?, parseHook hook, parseEvs rest with
    | some st, some sz, some hk, some (evs, tm) =>
      ({ d with script := d.script ++ [{ hst := st, size := sz, evs := evs, term := tm, hook := hk }] }, "ok")
    | _, _, _, _ => (d, "bad-op")
  | ["open"] =>
    if d.opened then (d, "bad-op") else
    let d' := { d with h := openH d.script, opened := true }
    (d', "open ok" ++ flags d')
  | ["next_header"] =>
    if !d.opened then (d, "bad-op") else
    let (r, h') := nextHeader d.h
    let d' := { d with h := h' }
    let e := match h'.entryObj with
      | some (i, sz) => s!" ent=e{i} size={sz}"
      | none => " ent=- size=-"
    (d', s!"hdr {r.name}" ++ e ++ flags d')
  | ["read_data", n] =>
    if !d.opened then (d, "bad-op") else
    match n.toNat? with
    | none => (d, "bad-op")
    | some s =>
      let (r, h') := readData d.h s
      let d' := { d with h := h' }
      let txt := match r with
        | .ok bs => s!"rd {bs.length} {LA.toHex (bs.take 32)} h={LA.fnv1a bs}"
        | .err e _ => s!"rd {(St.err e).name}"
      (d', txt ++ flags d')
  | ["read_data_block"] =>
    if !d.opened then (d, "bad-op") else
    let (st, out, h') := dataBlock d.h
    let d' := { d with h := h' }
    let (o, bs) := out.getD (0, [])
    (d', s!"blk {st.name} off={o} len={bs.length} {LA.toHex bs}" ++ flags d')
  | ["data_skip"] =>
    if !d.opened then (d, "bad-op") else
    let (r, h') := dataSkip d.h
    let d' := { d with h := h' }
    (d', s!"skip {r.name}" ++ flags d')
  | _ => (d, "bad-op")

def engine : LA.Engine := { σ := DState, init := {}, step := stepLine }

end LA.RD
