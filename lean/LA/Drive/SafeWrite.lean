/- Line-protocol glue for the `safe` engine (C19) and its oracle `safeorc`
(the property predicates evaluated on the implementation's own record). -/
import LA.Model.SafeWrite
namespace LA.SafeWrite

/-- Body descriptions shared with harness/eng_safe.c:
`z<n>` = n zero bytes, `p<n>:<seed>` = n non-zero bytes from
s' = (s*1103515245+12345) mod 2^31, byte = (s' / 65536) mod 255 + 1; parts joined by `+`; `-` = empty. -/
def genP : Nat → Nat → Bytes → Bytes
  | 0, _, acc => acc.reverse
  | n + 1, s, acc =>
    let s' := (s * 1103515245 + 12345) % 2147483648
    genP n s' (((s' / 65536) % 255 + 1) :: acc)

def expandPart (p : String) : Option Bytes :=
  match p.toList with
  | 'z' :: r => (String.ofList r).toNat?.map zeros
  | 'p' :: r =>
    match (String.ofList r).splitOn ":" with
    | [n, s] => match n.toNat?, s.toNat? with
      | some n, some s => some (genP n s [])
      | _, _ => none
    | _ => none
  | _ => none

def expand (spec : String) : Option Bytes :=
  if spec == "-" then some [] else
  (spec.splitOn "+").foldl (fun acc p => match acc, expandPart p with
    | some a, some b => some (a ++ b)
    | _, _ => none) (some [])

def hex16 (n : Nat) : String :=
  String.ofList ((List.range 16).reverse.map fun i => hexNibble (n / 16 ^ i % 16))

def Name.str : Name → String
  | .target => "name"
  | .tmp => "tmp"

def Status.str : Status → String
  | .ok => "ok" | .warn => "warn" | .failed => "failed" | .fatal => "fatal"

def opText (ev : Ev) : String :=
  let c := Name.str ev.post.fdOn
  match ev.op with
  | .openExcl n => s!"open-creat-excl@{Name.str n}"
  | .lstat n => s!"lstat@{Name.str n}"
  | .mkstemp => "mkstemp@tmp"
  | .unlink n => s!"unlink@{Name.str n}"
  | .rename a b => s!"rename@{Name.str a}>{Name.str b}"
  | .fstat => s!"fstat@{c}"
  | .fchmod => s!"fchmod@{c}"
  | .fchown => s!"fchown@{c}"
  | .futimens => s!"futimens@{c}"
  | .close => s!"close@{c}"
  | .lseek o => s!"lseek@{c}:{o}"
  | .write o d => s!"write@{c}:{o}:{d.length}"
  | .ftruncate n => s!"ftruncate@{c}:{n}"
  | .lchown n => s!"lchown@{Name.str n}"
  | .chmod n => s!"chmod@{Name.str n}"
  | .utimensat n => s!"utimensat@{Name.str n}"

def viewTok (old : Bytes) : Option Bytes → String
  | none => "-"
  | some c => if c == old then "o" else s!"h{hex16 (fnv1a c)}:{c.length}"

def listTok (fs : FS) : String :=
  match fs.view .tmp with
  | none => "0"
  | some c => s!"1:{c.length}"

def evTok (old : Bytes) (ev : Ev) : String :=
  let r := match ev.res with
    | .ok _ => "0" | .err => "x" | .inj => "F"
  s!"{opText ev}={r}|{viewTok old (ev.post.view .target)}|{listTok ev.post}"

structure DState where
  old : Bytes := []
  fails : List Nat := []
  cfg : Cfg := {}
  ready : Bool := false         -- setup seen
  started : Bool := false       -- header seen
  hdrOk : Bool := false
  s : S := ⟨{}, { fs := {} }⟩
  printed : Nat := 0

def DState.F (d : DState) : Nat → Bool := fun i => d.fails.contains i

/-- The tokens of the calls logged since the last line. -/
def flush (d : DState) (s : S) (head : String) : DState × String :=
  let news := s.w.log.drop d.printed
  let toks := if news.isEmpty then " -" else String.join (news.map fun ev => " " ++ evTok d.old ev)
  ({ d with s := s, printed := s.w.log.length }, head ++ " |" ++ toks)

def kv (ws : List String) (k : String) : Option String :=
  (ws.find? (·.startsWith (k ++ "="))).map fun w => (w.drop (k.length + 1)).toString

def drText : DR → String
  | .n k => s!"r={k}"
  | .st s => s!"r={Status.str s}"
  | .oob => "r=oob"

def contains (hay needle : String) : Bool := (hay.splitOn needle).length > 1

def stepLine (d : DState) (op obs : String) : DState × String :=
  match words op with
  | "setup" :: ws =>
    match (kv ws "old").bind expand with
    | none => (d, "bad-op")
    | some old =>
      let fl := (kv ws "flags").getD "-"
      let fails := match kv ws "fail" with
        | some f => if f == "-" then [] else (f.splitOn ",").filterMap String.toNat?
        | none => []
      let blk := ((kv (words obs) "blk").bind String.toNat?).getD 4096
      let cfg : Cfg := { safe := !contains fl "inplace", owner := contains fl "owner", time := contains fl "time",
                         sparse := contains fl "sparse", blk := blk }
      ({ old := old, fails := fails, cfg := cfg, ready := true, s := ⟨{}, { fs := initFS old }⟩ }, s!"ok blk={blk}")
  | "header" :: ws =>
    if !d.ready || d.started then (d, "bad-op") else
    match (kv ws "size").bind String.toNat? with
    | none => (d, "bad-op")
    | some size =>
      let cfg := { d.cfg with size := size }
      let r := header d.F cfg d.s.w
      flush { d with cfg := cfg, started := true, hdrOk := r.2 == .ok } r.1 s!"st={Status.str r.2}"
  | ["data", spec] =>
    if !d.started then (d, "bad-op") else
    if !d.hdrOk then flush d d.s "r=skipped" else
    match expand spec with
    | none => (d, "bad-op")
    | some b => let r := dataCall d.F d.cfg b d.s; flush d r.1 (drText r.2)
  | ["block", off, spec] =>
    if !d.started then (d, "bad-op") else
    if !d.hdrOk then flush d d.s "r=skipped" else
    match off.toNat?, expand spec with
    | some o, some b => let r := blockCall d.F d.cfg o b d.s; flush d r.1 (drText r.2)
    | _, _ => (d, "bad-op")
  | ["finish"] =>
    if !d.ready then (d, "bad-op") else
    let r := finishEntry d.F d.cfg d.s
    flush d r.1 s!"st={Status.str r.2}"
  | [c] =>
    if !d.ready || (c != "close" && c != "free") then (d, "bad-op") else
    let r := closeCall d.F d.cfg d.s
    let left := if (r.1.w.fs.view .tmp).isSome then 1 else 0
    flush d r.1 s!"st={Status.str r.2} left={left} final={viewTok d.old (r.1.w.fs.view .target)}"
  | _ => (d, "bad-op")

def engine : LA.Engine := { σ := DState, init := {}, step := stepLine }

/-! ## Oracle: `atomicOk` and `noTemp` on the implementation's record -/

structure OState where
  old : Bytes := []
  size : Nat := 0
  calls : List Call := []
  views : List (Option String) := []    -- the T field of every recorded call, in order
  unlinkFaulted : Bool := false
  leftAfterClose : List Nat := []
  finished : Bool := false              -- finish_entry / close seen: later data calls are not part of the entry
  bad : Bool := false

/-- No temporary file after close / free, unless an unlink of it was itself made to fail. -/
def noTemp (unlinkFaulted : Bool) (left : List Nat) : Bool := unlinkFaulted || left.all (· == 0)

def tokensOf (obs : String) : List String :=
  match obs.splitOn " |" with
  | [_, t] => (words t).filter (· != "-")
  | _ => []

def orcStep (o : OState) (op obs : String) : OState × String :=
  let toks := tokensOf obs
  let vs := toks.map fun t => match t.splitOn "|" with
    | [_, v, _] => if v == "-" then none else some v
    | _ => some "?"
  let o := { o with views := o.views ++ vs,
                    unlinkFaulted := o.unlinkFaulted || toks.any (·.startsWith "unlink@tmp=F") }
  match words op with
  | "setup" :: ws =>
    match (kv ws "old").bind expand with
    | some old => ({ old := old }, "-")
    | none => ({ o with bad := true }, "-")
  | "header" :: ws => ({ o with size := ((kv ws "size").bind String.toNat?).getD 0 }, "-")
  | ["data", spec] =>
    if contains obs "r=skipped" || o.finished then (o, "-") else
    match expand spec with
    | some b => ({ o with calls := o.calls ++ [.data b] }, "-")
    | none => ({ o with bad := true }, "-")
  | ["block", off, spec] =>
    if contains obs "r=skipped" || o.finished then (o, "-") else
    match off.toNat?, expand spec with
    | some k, some b => ({ o with calls := o.calls ++ [.block k b] }, "-")
    | _, _ => ({ o with bad := true }, "-")
  | ["finish"] => ({ o with finished := true }, "-")
  | [c] =>
    let left := ((kv (words obs) "left").bind String.toNat?).getD 99
    let o := { o with leftAfterClose := o.leftAfterClose ++ [left], finished := true }
    if c == "free" || c == "close" then
      let new := expected o.size o.calls
      let newTok := viewTok o.old (some new)
      let a := atomicOk "o" newTok o.views
      let firstBad := o.views.findIdx? fun v => !(v == some "o" || v == some newTok)
      let t := noTemp o.unlinkFaulted o.leftAfterClose
      (o, s!"atomic={if a then "ok" else s!"VIOLATED-at-call-{firstBad.getD 0}"} " ++
          s!"notemp={if t then "ok" else "VIOLATED"} new={newTok}{if o.bad then " bad-input" else ""}")
    else (o, "-")
  | _ => (o, "-")

def oracleEngine : LA.Engine := { σ := OState, init := {}, step := orcStep }

end LA.SafeWrite
