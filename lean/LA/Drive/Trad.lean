/- Line-protocol glue for the `trad` engine (C20): traditional PKWARE cipher. -/
import LA.Model.ZipCrypt
import LA.Drive.C20Util
namespace LA.TradDrive
open LA.ZipCrypt LA.C20U

def keysStr (k : Keys) : String :=
  s!" k={hexW 8 k.k0.toNat},{hexW 8 k.k1.toNat},{hexW 8 k.k2.toNat}"

def Z := zlibCrc32Byte

def stepLine (k : Keys) (op _obs : String) : Keys × String :=
  match LA.words op with
  | ["winit", pw] =>
    match parseBytes pw with
    | some p => let k' := initKeys Z p; (k', "r=0" ++ keysStr k')
    | none => (k, "bad-op")
  | ["rinit", pw, hdr, klen] =>
    match parseBytes pw, parseBytes hdr, klen.toNat? with
    | some p, some h, some kl =>
      match initR Z p h kl with
      | .short => (k, "r=-1 chk=ff" ++ keysStr k)
      | .ok k' c => (k', s!"r=0 chk={hexW 2 c.toNat}" ++ keysStr k')
      | .oob => (k, "oob")
    | _, _, _ => (k, "bad-op")
  | ["enc", hex, cap] =>
    match parseBytes hex, cap.toNat? with
    | some inp, some cap =>
      let (k', out) := encryptUpdate Z k inp cap
      (k', s!"n={out.length} out={hexOf out}" ++ keysStr k')
    | _, _ => (k, "bad-op")
  | ["dec", hex, cap] =>
    match parseBytes hex, cap.toNat? with
    | some inp, some cap =>
      let (k', out) := decryptUpdate Z k inp cap
      (k', s!"n={out.length} out={hexOf out}" ++ keysStr k')
    | _, _ => (k, "bad-op")
  | ["upd", b] =>
    match b.toNat? with
    | some b => let k' := updateKeys Z k b.toUInt8; (k', "same=1" ++ keysStr k')
    | none => (k, "bad-op")
  | ["byte"] =>
    let b := hexW 2 (decryptByte k).toNat
    (k, s!"b={b}/{b}" ++ keysStr k)
  | _ => (k, "bad-op")

def engine : LA.Engine := { σ := Keys, init := ⟨0, 0, 0⟩, step := stepLine }

end LA.TradDrive
