/- Line-protocol glue for the `pass` engine (C20): archive_read_add_passphrase.c. -/
import LA.Model.Passphrase
import LA.Drive.C20Util
namespace LA.PassDrive
open LA.Passphrase LA.C20U

def dump (s : St) : String :=
  let l := if s.list.isEmpty then "empty" else ",".intercalate (s.list.map hexOf)
  s!" cand={s.candidate} list={l} last=1 calls={s.calls}"

/-- "a,b,null,c" -> scripted answers; beyond the script the callback answers NULL -/
def parseScript (s : String) : List (Option P) :=
  if s == "n" then [] else
  (s.splitOn ",").map fun t => if t == "null" then none else parseBytes t

def scriptCb (script : List (Option P)) (base : Nat) : Callback :=
  fun i => if i < base then none else (script[i - base]?).join

def stepLine (s : St) (op _obs : String) : St × String :=
  match LA.words op with
  | ["add", x] =>
    let arg : Option (Option P) := if x == "null" then some none else (parseBytes x).map some
    match arg with
    | none => (s, "bad-op")
    | some a =>
      let (s', st) := add s a
      (s', (if st == .ok then "st=ok" else "st=failed") ++ dump s')
  | ["cb", x] =>
    let s' := if x == "-" then setCallback s none else setCallback s (some (scriptCb (parseScript x) s.calls))
    (s', "st=ok" ++ dump s')
  | ["reset"] => let s' := reset s; (s', "ok" ++ dump s')
  | ["next"] =>
    match next s with
    | .broken => (s, "broken")
    | .ret s' p =>
      let ps := match p with | none => "null" | some b => hexOf b
      (s', s!"p={ps}" ++ dump s')
  | _ => (s, "bad-op")

def engine : LA.Engine := { σ := St, init := {}, step := stepLine }

end LA.PassDrive
