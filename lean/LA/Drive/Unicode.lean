/- Line-protocol glue for the `uni` engine (C18). -/
import LA.Model.Unicode
namespace LA.Unicode
open LA.Gen.Utf8Table

def hexNat (n : Nat) : String := String.ofList (Nat.toDigits 16 n)

def parseHexNat (s : String) : Option Nat :=
  s.toList.foldl (fun acc c => match acc, LA.hexDigit c with
    | some a, some d => some (a * 16 + d)
    | _, _ => none) (if s.isEmpty then none else some 0)

def showDec : Dec → String
  | .oob => "oob"
  | .ret r uc => s!"r={r} uc=" ++ (match uc with | some u => hexNat u | none => "-")

def decByName : String → Option (List Nat → Nat → Dec)
  | "d8r" => some utf8Raw
  | "d8" => some utf8ToUnicode
  | "dc8" => some cesu8ToUnicode
  | "d16be" => some (utf16ToUnicode true)
  | "d16le" => some (utf16ToUnicode false)
  | _ => none

@[inline] def mix (dg : UInt64) (v : Nat) : UInt64 := (dg ^^^ UInt64.ofNat v) * 1099511628211

def hex16 (v : UInt64) : String :=
  let s := hexNat v.toNat
  String.ofList (List.replicate (16 - s.length) '0') ++ s

/-- bytes as hex, or as `#<n>:<fnv1a-64>` when there are more than 2048 (as the harness prints them) -/
def showBytes (bs : List Nat) : String :=
  if bs.length ≤ 2048 then LA.toHex bs
  else s!"#{bs.length}:" ++ hex16 (bs.foldl mix 14695981039346656037)

def showConv : Conv → String
  | .oob => "oob"
  | .lenWrap => "len-wrap"
  | .hang => "hang"
  | .ok r out => s!"r={r} out={showBytes out}"

def showApp : AppRes → String
  | .oobRead => "oob-read"
  | .oobWrite i c => s!"oob-write idx={i} cap={c}"
  | .lenWrap => "len-wrap"
  | .ok r as => s!"r={r} len={as.data.length} cap={as.cap} out={showBytes as.data} nul=ok"

/-- Operand syntax of the protocol: `-` | hex | `@N` (N pattern bytes 'a'+(i%26)) |
`R<k>:<unithex>:<tailhex|->` (unit repeated k times, then tail). -/
def parseOperand (s : String) : Option (List Nat) :=
  if s.startsWith "@" then
    (s.drop 1).toString.toNat?.map fun n => (List.range n).map fun i => 97 + i % 26
  else if s.startsWith "R" then
    match (s.drop 1).toString.splitOn ":" with
    | [k, u, tl] =>
      match k.toNat?, LA.parseHex u, LA.parseHex tl with
      | some k, some u, some tl => some ((List.replicate k u).flatten ++ tl)
      | _, _, _ => none
    | _ => none
  else LA.parseHex s

/-! ### linear-time twins of the model loops

The model functions append to a `List` at every step, which is quadratic in the output length.
The border families reach 76 KB, so for long inputs the driver runs these `Array`-based twins.
They are not part of any theorem; `pick` runs both on every mid-sized input and reports a
disagreement, and both are compared with the C on every run. -/

instance : Inhabited Conv := ⟨.oob⟩

def pick [DecidableEq α] (n : Nat) (slow fast : Unit → α) (bad : α) : α :=
  if n > 400 then fast ()
  else if n > 100 then (let a := slow (); if a = fast () then a else bad)
  else slow ()

structure FStr where
  alloc : Bool
  cap : Nat
  data : Array Nat

def FStr.ofA (as : AStr) : FStr := ⟨as.alloc, as.cap, as.data.toArray⟩
def FStr.toA (f : FStr) : AStr := ⟨f.alloc, f.cap, f.data.toList⟩

def ensureF (as : FStr) (s : Nat) : FStr :=
  let e := ensure ⟨as.alloc, as.cap, []⟩ s
  { as with alloc := e.alloc, cap := e.cap }

partial def unparseGrowF (e : Enc) (lenTm uc : Nat) (as : FStr) : Option FStr :=
  let room := if as.data.size + e.ts ≤ as.cap then as.cap - e.ts - as.data.size
    else 18446744073709551616 - (as.data.size + e.ts - as.cap)
  let bs := unparse e room uc
  if bs.isEmpty then
    if as.data.size + e.ts ≤ as.cap then unparseGrowF e lenTm uc (ensureF as (as.cap + lenTm + e.ts)) else none
  else if as.data.size + bs.length ≤ as.cap then some { as with data := as.data.appendList bs }
  else none

/-- twin of `appendLoop`; `none`: something other than `.ok` (the caller then asks the model). -/
partial def appendLoopF (fe te : Enc) (tm : Nat) (xs : List Nat) (len : Nat) (as : FStr) (ret : Int) : Option (Int × FStr) :=
  match parse fe xs len with
  | .oob => none
  | .ret n uc =>
    if n = 0 then
      if as.cap ≤ as.data.size then none
      else if te.ts = 2 ∧ as.cap ≤ as.data.size + 1 then none
      else some (ret, as)
    else
      let ret := if n < 0 then -1 else ret
      let k := n.natAbs
      if k ≤ len ∧ 0 < k then
        match unparseGrowF te ((len - k) * tm) (uc.getD 0) as with
        | some as' => appendLoopF fe te tm (xs.drop k) (len - k) as' ret
        | none => none
      else none

def appendUnicodeF (flag : Nat) (as : AStr) (xs : List Nat) (len : Nat) : AppRes :=
  let te := toEnc flag
  let tm := tmOf flag
  let f := ensureF (FStr.ofA as) (as.data.length + len * tm + te.ts)
  match appendLoopF (fromEnc flag) te tm xs len f 0 with
  | some (r, f') => .ok r f'.toA
  | none => appendUnicode flag as xs len

def runAppend (flag : Nat) (as : AStr) (xs : List Nat) (len : Nat) : AppRes :=
  pick (len + as.data.length / 8) (fun _ => appendUnicode flag as xs len) (fun _ => appendUnicodeF flag as xs len) .lenWrap

partial def transcodeF (fe te : Enc) (xs : List Nat) (len : Nat) (out : Array Nat) (ret : Int) : Conv :=
  match parse fe xs len with
  | .oob => .oob
  | .ret n uc =>
    if n = 0 then .ok ret out.toList
    else
      let ret := if n < 0 then -1 else ret
      let k := n.natAbs
      if k ≤ len ∧ 0 < k then transcodeF fe te (xs.drop k) (len - k) (out.appendList (unparse te 4 (uc.getD 0))) ret
      else .lenWrap

def runTranscode (fe te : Enc) (xs : List Nat) (len : Nat) : Conv :=
  pick len (fun _ => transcode fe te xs len [] 0) (fun _ => transcodeF fe te xs len #[] 0) .hang

partial def utf8ToUtf8F (xs : List Nat) (len : Nat) (out : Array Nat) (ret : Int) : Conv :=
  match utf8ToUnicode xs len with
  | .oob => .oob
  | .ret r uc =>
    if r = 0 then .ok ret out.toList
    else if 0 < r then
      let k := r.toNat
      if k ≤ len ∧ 0 < k then utf8ToUtf8F (xs.drop k) (len - k) (out.appendList (xs.take k)) ret
      else .lenWrap
    else
      match (if r = -3 ∧ isSurrogate (uc.getD 0) then cesu8ToUnicode xs len else Dec.ret r uc) with
      | .oob => .oob
      | .ret n uc =>
        let ret := if n < 0 then -1 else ret
        let k := n.natAbs
        if k = 0 then .hang
        else if k ≤ len then utf8ToUtf8F (xs.drop k) (len - k) (out.appendList (unicodeToUtf8 4 (uc.getD 0))) ret
        else .lenWrap

def runU8U8 (xs : List Nat) (len : Nat) : Conv :=
  pick len (fun _ => utf8ToUtf8 xs len) (fun _ => utf8ToUtf8F xs len #[] 0) .hang

/-- twin of `bestEffortToUtf16` (one `ensure`, then two bytes per source byte) -/
def bestEffortToUtf16F (be : Bool) (as : AStr) (xs : List Nat) (length : Nat) : AppRes :=
  if xs.length < length then bestEffortToUtf16 be as xs length else
  let e := ensure as (as.data.length + (length + 1) * 2)
  let (out, ret) := (xs.take length).foldl (fun (acc : Array Nat × Int) b =>
    if b > 127 then (acc.1.appendList (enc16 be (unicodeRChar % 65536)), -1) else (acc.1.appendList (enc16 be (b % 65536)), acc.2))
    (as.data.toArray, 0)
  .ok ret { e with data := out.toList }

def runBto (be : Bool) (as : AStr) (xs : List Nat) (length : Nat) : AppRes :=
  pick (length + as.data.length / 8) (fun _ => bestEffortToUtf16 be as xs length) (fun _ => bestEffortToUtf16F be as xs length) .lenWrap

partial def bestEffortFromUtf16LoopF (be : Bool) (xs : List Nat) (bytes : Nat) (cap : Nat) (out : Array Nat) (ret : Int) :
    Option (Int × Array Nat) :=
  match utf16ToUnicode be xs bytes with
  | .oob => none
  | .ret n uc =>
    if n = 0 then (if cap ≤ out.size then none else some (ret, out))
    else
      let ret := if n < 0 then -1 else ret
      let k := n.natAbs
      if k ≤ bytes ∧ 0 < k then
        let (c, ret) := if uc.getD 0 > 127 then (63, (-1 : Int)) else (uc.getD 0, ret)
        if cap ≤ out.size then none
        else bestEffortFromUtf16LoopF be (xs.drop k) (bytes - k) cap (out.push c) ret
      else none

def bestEffortFromUtf16F (be : Bool) (as : AStr) (xs : List Nat) (bytes : Nat) : AppRes :=
  let e := ensure as (as.data.length + bytes + 1)
  match bestEffortFromUtf16LoopF be xs bytes e.cap as.data.toArray 0 with
  | some (r, out) => .ok r { e with data := out.toList }
  | none => bestEffortFromUtf16 be as xs bytes

def runBfrom (be : Bool) (as : AStr) (xs : List Nat) (bytes : Nat) : AppRes :=
  pick (bytes + as.data.length / 8) (fun _ => bestEffortFromUtf16 be as xs bytes) (fun _ => bestEffortFromUtf16F be as xs bytes) .lenWrap

def mkAs (cap : Nat) (pre : List Nat) : Option AStr :=
  if cap = 0 then (if pre.isEmpty then some {} else none)
  else if pre.length ≥ cap then none
  else some { alloc := true, cap := cap, data := pre }

/-! digests of the in-process enumerations (same mixing as the harness) -/

def sentinel : Nat := 0xAAAAAAAA

def mixDec (dg : UInt64) (d : Dec) : UInt64 :=
  match d with
  | .oob => mix (mix dg 999) 999
  | .ret r uc => mix (mix dg (r + 16).toNat) (uc.getD sentinel)

def mixBytes (dg : UInt64) (bs : List Nat) : UInt64 :=
  bs.foldl mix (mix dg bs.length)

def enumStep (dg : UInt64) (uc : Nat) : UInt64 :=
  let b8 := unicodeToUtf8 4 uc
  let dg := mixBytes dg b8
  let k := b8.length
  let dg := mixDec (mixDec (mixDec dg (utf8Raw b8 k)) (utf8ToUnicode b8 k)) (cesu8ToUnicode b8 k)
  let bb := unicodeToUtf16 true 4 uc
  let dg := mixDec (mixBytes dg bb) (utf16ToUnicode true bb bb.length)
  let bl := unicodeToUtf16 false 4 uc
  mixDec (mixBytes dg bl) (utf16ToUnicode false bl bl.length)

def enumScalars : Nat → Nat → UInt64 → UInt64
  | 0, _, dg => dg
  | cnt + 1, uc, dg => enumScalars cnt (uc + 1) (enumStep dg uc)

def rankBytes (al : Array Nat) (k : Nat) (i : Nat) : List Nat :=
  let m := al.size
  let rec go : Nat → Nat → List Nat → List Nat
    | 0, _, acc => acc
    | j + 1, x, acc => go j (x / m) (al[x % m]! :: acc)
  go k i []

def enumBytes (al : Array Nat) (k : Nat) : Nat → Nat → UInt64 → UInt64
  | 0, _, dg => dg
  | cnt + 1, i, dg =>
    let s := rankBytes al k i
    let dg := mixDec (mixDec (mixDec dg (utf8Raw s k)) (utf8ToUnicode s k)) (cesu8ToUnicode s k)
    let dg := mixDec (mixDec dg (utf16ToUnicode true s k)) (utf16ToUnicode false s k)
    enumBytes al k cnt (i + 1) dg

/-! public conversion objects in a UTF-8 locale (`archive_strncpy_l`) -/

/-- Which flag word `create_sconv_object` builds for `to_charset` / `from_charset`
when the current locale charset is UTF-8 (only the UTF bits). -/
def charsetBits (cs : String) (toSide : Bool) : Option Nat :=
  match cs with
  | "UTF-8" => some (2 ^ (if toSide then bitToUtf8 else bitFromUtf8))
  | "UTF-16BE" => some (2 ^ (if toSide then bitToUtf16be else bitFromUtf16be))
  | "UTF-16LE" => some (2 ^ (if toSide then bitToUtf16le else bitFromUtf16le))
  | _ => none

/-- `IS_DECOMPOSABLE_BLOCK` -/
def isDecomposableBlock (uc : Nat) : Bool := decomposableBlocks.getD (uc / 256) 0 != 0

/-- `archive_strncpy_l(as, p, n, sc)`; `sc` from `archive_string_conversion_to_charset(a, cs, 1)`
(`dir = "to"`) or `…_from_charset` (`"from"`), locale charset UTF-8.
* to UTF-16xx: `archive_string_append_unicode`;
* to UTF-8: `strncat_from_utf8_to_utf8`;
* from UTF-8 / UTF-16xx: `archive_string_normalize_C`, which equals the plain transcoding on
  input without code points from decomposable blocks (the generator stays inside that domain;
  NFC composition itself is not modelled). -/
def convModel (dir cs : String) (pre xs : List Nat) : String :=
  let n := xs.length
  let withPre (c : Conv) : Conv := match c with | .ok r out => .ok r (pre ++ out) | c => c
  match dir, cs with
  | "to", "UTF-8" => showConv (withPre (runU8U8 xs (mbsnbytes xs n)))
  | "to", _ =>
    match charsetBits cs true with
    | none => "no-conv"
    | some b =>
      let flag := b + 2 ^ bitFromUtf8
      let len := mbsnbytes xs n
      if len = 0 then s!"r=0 out={showBytes pre}" else
      -- the destination as archive_strncat left it: one `ensure(length + 1)` from an empty string
      let as0 : AStr := if pre.isEmpty then {} else { ensure {} (pre.length + 1) with data := pre }
      match runAppend flag as0 xs len with
      | .ok r as => s!"r={r} out={showBytes as.data}"
      | r => showApp r
  | "from", _ =>
    match charsetBits cs false with
    | none => "no-conv"
    | some b =>
      let fe := fromEnc b
      let len := if fe = .utf8 then mbsnbytes xs n else utf16nbytes xs n
      if len = 0 then s!"r=0 out={showBytes pre}" else
      showConv (withPre (runTranscode fe .utf8 xs len))
  | _, _ => "bad-op"

/-! `archive_mstring` views, locale C.UTF-8.  What glibc's `mbrtowc` / `wcrtomb` do there is an
assumption of the differential engine only (no theorem uses it): the pre-2003 UTF-8 with up to
6 bytes and 31 bits, overlong forms and surrogates rejected (probed on the glibc in use). -/

/-- glibc `mbrtowc` in C.UTF-8: `(bytes consumed, wide character)`, `none` = EILSEQ / incomplete. -/
def libcMbrtowc (xs : List Nat) (len : Nat) : Option (Nat × Nat) :=
  match xs[0]? with
  | none => none
  | some ch =>
    let (k, v0, mn) :=
      if ch < 0x80 then (1, ch, 0)
      else if 0xc2 ≤ ch ∧ ch < 0xe0 then (2, ch % 32, 0x80)
      else if 0xe0 ≤ ch ∧ ch < 0xf0 then (3, ch % 16, 0x800)
      else if 0xf0 ≤ ch ∧ ch < 0xf8 then (4, ch % 8, 0x10000)
      else if 0xf8 ≤ ch ∧ ch < 0xfc then (5, ch % 4, 0x200000)
      else if 0xfc ≤ ch ∧ ch < 0xfe then (6, ch % 2, 0x4000000)
      else (0, 0, 0)
    if k = 0 ∨ len < k then none else
    let tail := (xs.drop 1).take (k - 1)
    if tail.length ≠ k - 1 ∨ tail.any (fun b => !isCont b) then none else
    let v := tail.foldl (fun a b => a * 64 + b % 64) v0
    if v < mn ∨ isSurrogate v then none else some (k, v)

/-- `archive_wstring_append_from_mbs` over that `mbrtowc`. -/
partial def libcMbsToWcs (xs : List Nat) (len : Nat) (acc : Array Nat) : Option (List Nat) :=
  if len = 0 then some acc.toList else
  match xs[0]? with
  | none => some acc.toList
  | some 0 => some acc.toList
  | some _ =>
    match libcMbrtowc xs len with
    | some (k, v) =>
      if 0 < k ∧ k ≤ len then libcMbsToWcs (xs.drop k) (len - k) (acc.push v) else none
    | none => none

def isScalarB (c : Nat) : Bool := c ≤ unicodeMax && !isSurrogate c

/-- `archive_string_append_from_wcs` over glibc `wcrtomb`: `?` and -1 for a surrogate
(the generator stays at or below U+10FFFF). -/
def libcWcsToMbs (ws : List Nat) : Int × List Nat :=
  let (r, out) := ws.foldl (fun (acc : Int × Array Nat) c =>
    if isSurrogate c then (-1, acc.2.push 63) else (acc.1, acc.2.appendList (unicodeToUtf8 4 c))) (0, #[])
  (r, out.toList)

/-- `strncat_from_utf8_libarchive2(as, p, len, sc)` with its buffer: `_utf8_to_unicode`, then glibc `wcrtomb`
(refuses surrogates: the function returns -1 at once, `as->length` staying where the last re-allocation put it);
what does not decode becomes `?`.  `MB_CUR_MAX` is 6 in C.UTF-8.  State: `cap`, `lenSet` = `as->length`,
`out` = bytes up to `p`.  `none`: a read or store outside the blocks. -/
partial def la2Loop (xs : List Nat) (len : Nat) (alloc : Bool) (cap lenSet : Nat) (out : Array Nat) :
    Option (Int × Nat × List Nat) :=
  match utf8Raw xs len with
  | .oob => none
  | .ret n uc =>
    if n = 0 then (if out.size < cap then some (0, cap, out.toList) else none)
    else
      -- `if (p >= end)`: end = s + buffer_length - MB_CUR_MAX - 1
      let (cap, lenSet) :=
        if (out.size : Int) ≥ (cap : Int) - 7 then
          ((ensure ⟨alloc, cap, []⟩ (out.size + (if len * 2 > 6 then len * 2 else 6) + 1)).cap, out.size)
        else (cap, lenSet)
      let k := n.natAbs
      if k > len then none
      else
        let bs := if n < 0 then some [63] else if isSurrogate (uc.getD 0) then none else some (unicodeToUtf8 4 (uc.getD 0))
        match bs with
        | none => some (-1, cap, out.toList.take lenSet)
        | some bs =>
          if out.size + bs.length > cap then none
          else la2Loop (xs.drop k) (len - k) true cap lenSet (out.appendList bs)

def la2Model (pre xs : List Nat) : String :=
  -- the destination as archive_strncat left it, then `archive_string_ensure(as, as->length + len + 1)`
  let as0 : AStr := if pre.isEmpty then {} else { ensure {} (pre.length + 1) with data := pre }
  let e := ensure as0 (pre.length + xs.length + 1)
  match la2Loop xs xs.length true e.cap pre.length pre.toArray with
  | none => "oob"
  | some (r, _, out) => s!"r={r} out={showBytes out}"

def showBytesView (k : String) (r : Int) (p : Option (List Nat)) : String :=
  s!"{k}={r}:" ++ (match p with | none => "null" | some b => showBytes b)

def showWcsView (r : Int) (p : Option (List Nat)) : String :=
  s!"w={r}:" ++ (match p with
    | none => "null"
    | some [] => "-"
    | some ws =>
      if ws.length ≤ 512 then ",".intercalate (ws.map hexNat)
      else
        let dg := ws.foldl (fun d v => mix (mix (mix (mix d (v / 16777216 % 256)) (v / 65536 % 256)) (v / 256 % 256)) (v % 256))
          14695981039346656037
        s!"#{ws.length}:" ++ hex16 dg)

def takeUntilZero (xs : List Nat) : List Nat := xs.takeWhile (· ≠ 0)

def be32 (xs : List Nat) : List Nat :=
  let rec go : List Nat → Array Nat → List Nat
    | a :: b :: c :: d :: r, acc => go r (acc.push ((((a * 256 + b) * 256 + c) * 256 + d)))
    | _, acc => acc.toList
  go xs #[]

/-- views of an `archive_mstring` whose MBS form `m` is set (and nothing else) -/
def viewsOfMbs (m : List Nat) : String :=
  let u := match runU8U8 m m.length with
    | .ok 0 out => showBytesView "u" 0 (some out)
    | _ => showBytesView "u" (-1) none
  let w := match libcMbsToWcs m m.length #[] with
    | some ws => showWcsView 0 (some ws)
    | none => showWcsView (-1) none
  showBytesView "m" 0 (some m) ++ " " ++ u ++ " " ++ w

def msModel (kind : String) (xs : List Nat) : String :=
  match kind with
  | "mbs" => viewsOfMbs (takeUntilZero xs)
  | "utf8" =>
    let u := takeUntilZero xs
    -- get_mbs: from_charset("UTF-8") = normalize_C (see convModel); the pointer is set even on failure
    let (mr, mb) := match runTranscode .utf8 .utf8 u u.length with
      | .ok r out => (r, out)
      | _ => ((-2 : Int), [])
    let mbs := if u.isEmpty then (0, []) else (mr, mb)
    let w := if mbs.1 = 0 then
        match libcMbsToWcs mbs.2 mbs.2.length #[] with
        | some ws => showWcsView 0 (some ws)
        | none => showWcsView (-1) none
      else showWcsView 0 none
    showBytesView "m" mbs.1 (some mbs.2) ++ " " ++ showBytesView "u" 0 (some u) ++ " " ++ w
  | "wcs" =>
    let ws := takeUntilZero (be32 xs)
    let (mr, mb) := libcWcsToMbs ws
    let u := if mr = 0 then
        match runU8U8 mb mb.length with
        | .ok 0 out => showBytesView "u" 0 (some out)
        | _ => showBytesView "u" (-1) none
      else showBytesView "u" 0 none
    showBytesView "m" mr (some mb) ++ " " ++ u ++ " " ++ showWcsView 0 (some ws)
  | _ => "bad-op"

/-- `archive_mstring_copy_mbs_len_l(aes, mbs, len, sc)` with `sc = from_charset(cs)` in a UTF-8 locale,
then the three views: the MBS form is the conversion result; when the conversion reports a failure
nothing is set and every view is NULL with return value 0. -/
def mslModel (cs : String) (xs : List Nat) : String :=
  match charsetBits cs false with
  | none => "bad-op"
  | some b =>
    let fe := fromEnc b
    let len := if fe = .utf8 then mbsnbytes xs xs.length else utf16nbytes xs xs.length
    let (r, m) := if len = 0 then ((0 : Int), ([] : List Nat)) else
      match runTranscode fe .utf8 xs len with
      | .ok r out => (r, out)
      | _ => (-2, [])
    if r = 0 then s!"c=0 " ++ viewsOfMbs m
    else s!"c={r} m=0:null u=0:null w=0:null"

def stepLine (_ : Unit) (op obs : String) : Unit × String :=
  let out :=
    match LA.words op with
    | ["u8u8", hx] =>
      match parseOperand hx with
      | some xs => showConv (runU8U8 xs xs.length)
      | none => "bad-op"
    | ["la2", hx] =>
      match parseOperand hx with
      | some xs => la2Model [] xs
      | none => "bad-op"
    | ["la2", hx, pl] =>
      match parseOperand hx, pl.toNat? with
      | some xs, some p => la2Model ((List.range p).map (fun i => 97 + i % 26)) xs
      | _, _ => "bad-op"
    | ["u8u8", hx, pl] =>
      match parseOperand hx, pl.toNat? with
      | some xs, some p =>
        match runU8U8 xs xs.length with
        | .ok r out => showConv (.ok r ((List.range p).map (fun i => 97 + i % 26) ++ out))
        | c => showConv c
      | _, _ => "bad-op"
    | [d, hx] =>
      match decByName d, LA.parseHex hx with
      | some f, some xs => showDec (f xs xs.length)
      | _, _ => "bad-op"
    | ["big8", hx, ns] =>
      match LA.parseHex hx, ns.toNat? with
      | some xs, some n =>
        if n < xs.length then "bad-op" else
        let ys := (xs ++ List.replicate 8 0).take n
        showDec (utf8Raw ys n) ++ " " ++ showDec (utf8ToUnicode ys n) ++ " " ++ showDec (cesu8ToUnicode ys n)
      | _, _ => "bad-op"
    | ["enum", los, his] =>
      match los.toNat?, his.toNat? with
      | some lo, some hi => "digest=" ++ hex16 (enumScalars (hi - lo) lo 14695981039346656037)
      | _, _ => "bad-op"
    | ["rt", _, _] => obs     -- iconv round trip: a test judged by the oracle, not modelled
    | ["ms", kind, hx] =>
      match parseOperand hx with
      | some xs => msModel kind xs
      | none => "bad-op"
    | ["ms", kind, hx, _] =>
      match parseOperand hx with
      | some xs => msModel kind xs
      | none => "bad-op"
    | ["msl", cs, hx] =>
      match parseOperand hx with
      | some xs => mslModel cs xs
      | none => "bad-op"
    | ["msl", cs, hx, _] =>
      match parseOperand hx with
      | some xs => mslModel cs xs
      | none => "bad-op"
    | [e, ucs, rs] =>
      match parseHexNat ucs, rs.toNat? with
      | some uc, some rem =>
        if e = "e8" ∨ e = "e16be" ∨ e = "e16le" then
          let bs := if e = "e8" then unicodeToUtf8 rem uc else unicodeToUtf16 (e = "e16be") rem uc
          s!"w={bs.length} out={LA.toHex bs}"
        else "bad-op"
      | _, _ => "bad-op"
    | ["conv", dir, cs, hx] =>
      match parseOperand hx with
      | some xs => convModel dir cs [] xs
      | none => "bad-op"
    | ["conv", dir, cs, hx, pl] =>
      match parseOperand hx, pl.toNat? with
      | some xs, some p => convModel dir cs ((List.range p).map (fun i => 97 + i % 26)) xs
      | _, _ => "bad-op"
    | ["app", fl, cap, pre, sx] =>
      match fl.toNat?, cap.toNat?, parseOperand pre, parseOperand sx with
      | some flag, some cap, some pre, some xs =>
        match mkAs cap pre with
        | some as => showApp (runAppend flag as xs xs.length)
        | none => "bad-op"
      | _, _, _, _ => "bad-op"
    | ["enumb", als, ks, los, his] =>
      match LA.parseHex als, ks.toNat?, los.toNat?, his.toNat? with
      | some al, some k, some lo, some hi =>
        if al.isEmpty ∨ k = 0 ∨ k > 8 then "bad-op"
        else "digest=" ++ hex16 (enumBytes al.toArray k (hi - lo) lo 14695981039346656037)
      | _, _, _, _ => "bad-op"
    | [b, be, cap, pre, sx] =>
      match be.toNat?, cap.toNat?, parseOperand pre, parseOperand sx with
      | some be, some cap, some pre, some xs =>
        if b = "bto" ∨ b = "bfrom" then
          match mkAs cap pre with
          | some as =>
            if b = "bto" then showApp (runBto (be != 0) as xs xs.length)
            else showApp (runBfrom (be != 0) as xs xs.length)
          | none => "bad-op"
        else "bad-op"
      | _, _, _, _ => "bad-op"
    | _ => "bad-op"
  ((), out)

def engine : LA.Engine := { σ := Unit, init := (), step := stepLine }

end LA.Unicode
