/- Line-protocol glue for the `uni` engine (C18). -/
import LA.Model.Unicode
namespace LA.Unicode
open LA.Gen.Utf8Table

def hexNat (n : Nat) : String := String.ofList (Nat.toDigits 16 n)

def parseHexNat (s : String) : Option Nat :=
  s.toList.foldl (fun acc c => match acc, LA.hexDigit c with
    | some a, some d => some (a * 16 + d)
    | _, _ => none) (if s.isEmpty then none else some 0)

def showDec : Dec → String
  | .oob => "oob"
  | .ret r uc => s!"r={r} uc=" ++ (match uc with | some u => hexNat u | none => "-")

def decByName : String → Option (List Nat → Nat → Dec)
  | "d8r" => some utf8Raw
  | "d8" => some utf8ToUnicode
  | "dc8" => some cesu8ToUnicode
  | "d16be" => some (utf16ToUnicode true)
  | "d16le" => some (utf16ToUnicode false)
  | _ => none

def showConv : Conv → String
  | .oob => "oob"
  | .lenWrap => "len-wrap"
  | .hang => "hang"
  | .ok r out => s!"r={r} out={LA.toHex out}"

def showApp : AppRes → String
  | .oobRead => "oob-read"
  | .oobWrite i c => s!"oob-write idx={i} cap={c}"
  | .lenWrap => "len-wrap"
  | .ok r as => s!"r={r} len={as.data.length} cap={as.cap} out={LA.toHex as.data} nul=ok"

def mkAs (cap : Nat) (pre : List Nat) : Option AStr :=
  if cap = 0 then (if pre.isEmpty then some {} else none)
  else if pre.length ≥ cap then none
  else some { alloc := true, cap := cap, data := pre }

/-! digests of the in-process enumerations (same mixing as the harness) -/

@[inline] def mix (dg : UInt64) (v : Nat) : UInt64 := (dg ^^^ UInt64.ofNat v) * 1099511628211

def sentinel : Nat := 0xAAAAAAAA

def mixDec (dg : UInt64) (d : Dec) : UInt64 :=
  match d with
  | .oob => mix (mix dg 999) 999
  | .ret r uc => mix (mix dg (r + 16).toNat) (uc.getD sentinel)

def mixBytes (dg : UInt64) (bs : List Nat) : UInt64 :=
  bs.foldl mix (mix dg bs.length)

def enumStep (dg : UInt64) (uc : Nat) : UInt64 :=
  let b8 := unicodeToUtf8 4 uc
  let dg := mixBytes dg b8
  let k := b8.length
  let dg := mixDec (mixDec (mixDec dg (utf8Raw b8 k)) (utf8ToUnicode b8 k)) (cesu8ToUnicode b8 k)
  let bb := unicodeToUtf16 true 4 uc
  let dg := mixDec (mixBytes dg bb) (utf16ToUnicode true bb bb.length)
  let bl := unicodeToUtf16 false 4 uc
  mixDec (mixBytes dg bl) (utf16ToUnicode false bl bl.length)

def enumScalars : Nat → Nat → UInt64 → UInt64
  | 0, _, dg => dg
  | cnt + 1, uc, dg => enumScalars cnt (uc + 1) (enumStep dg uc)

def rankBytes (al : Array Nat) (k : Nat) (i : Nat) : List Nat :=
  let m := al.size
  let rec go : Nat → Nat → List Nat → List Nat
    | 0, _, acc => acc
    | j + 1, x, acc => go j (x / m) (al[x % m]! :: acc)
  go k i []

def enumBytes (al : Array Nat) (k : Nat) : Nat → Nat → UInt64 → UInt64
  | 0, _, dg => dg
  | cnt + 1, i, dg =>
    let s := rankBytes al k i
    let dg := mixDec (mixDec (mixDec dg (utf8Raw s k)) (utf8ToUnicode s k)) (cesu8ToUnicode s k)
    let dg := mixDec (mixDec dg (utf16ToUnicode true s k)) (utf16ToUnicode false s k)
    enumBytes al k cnt (i + 1) dg

def hex16 (v : UInt64) : String :=
  let s := hexNat v.toNat
  String.ofList (List.replicate (16 - s.length) '0') ++ s

/-! public conversion objects in a UTF-8 locale (`archive_strncpy_l`) -/

/-- Which flag word `create_sconv_object` builds for `to_charset` / `from_charset`
when the current locale charset is UTF-8 (only the UTF bits). -/
def charsetBits (cs : String) (toSide : Bool) : Option Nat :=
  match cs with
  | "UTF-8" => some (2 ^ (if toSide then bitToUtf8 else bitFromUtf8))
  | "UTF-16BE" => some (2 ^ (if toSide then bitToUtf16be else bitFromUtf16be))
  | "UTF-16LE" => some (2 ^ (if toSide then bitToUtf16le else bitFromUtf16le))
  | _ => none

/-- `IS_DECOMPOSABLE_BLOCK` -/
def isDecomposableBlock (uc : Nat) : Bool := decomposableBlocks.getD (uc / 256) 0 != 0

/-- `archive_strncpy_l(as, p, n, sc)`; `sc` from `archive_string_conversion_to_charset(a, cs, 1)`
(`dir = "to"`) or `…_from_charset` (`"from"`), locale charset UTF-8.
* to UTF-16xx: `archive_string_append_unicode`;
* to UTF-8: `strncat_from_utf8_to_utf8`;
* from UTF-8 / UTF-16xx: `archive_string_normalize_C`, which equals the plain transcoding on
  input without code points from decomposable blocks (the generator stays inside that domain;
  NFC composition itself is not modelled). -/
def convModel (dir cs : String) (xs : List Nat) : String :=
  let n := xs.length
  match dir, cs with
  | "to", "UTF-8" => showConv (utf8ToUtf8 xs (mbsnbytes xs n))
  | "to", _ =>
    match charsetBits cs true with
    | none => "no-conv"
    | some b =>
      let flag := b + 2 ^ bitFromUtf8
      let len := mbsnbytes xs n
      if len = 0 then "r=0 out=-" else
      match appendUnicode flag {} xs len with
      | .ok r as => s!"r={r} out={LA.toHex as.data}"
      | r => showApp r
  | "from", _ =>
    match charsetBits cs false with
    | none => "no-conv"
    | some b =>
      let fe := fromEnc b
      let len := if fe = .utf8 then mbsnbytes xs n else utf16nbytes xs n
      if len = 0 then "r=0 out=-" else
      showConv (transcode fe .utf8 xs len [] 0)
  | _, _ => "bad-op"

/-! `archive_mstring` views, locale C.UTF-8.  What glibc's `mbrtowc` / `wcrtomb` do there is an
assumption of the differential engine only (no theorem uses it): the pre-2003 UTF-8 with up to
6 bytes and 31 bits, overlong forms and surrogates rejected (probed on the glibc in use). -/

/-- glibc `mbrtowc` in C.UTF-8: `(bytes consumed, wide character)`, `none` = EILSEQ / incomplete. -/
def libcMbrtowc (xs : List Nat) (len : Nat) : Option (Nat × Nat) :=
  match xs[0]? with
  | none => none
  | some ch =>
    let (k, v0, mn) :=
      if ch < 0x80 then (1, ch, 0)
      else if 0xc2 ≤ ch ∧ ch < 0xe0 then (2, ch % 32, 0x80)
      else if 0xe0 ≤ ch ∧ ch < 0xf0 then (3, ch % 16, 0x800)
      else if 0xf0 ≤ ch ∧ ch < 0xf8 then (4, ch % 8, 0x10000)
      else if 0xf8 ≤ ch ∧ ch < 0xfc then (5, ch % 4, 0x200000)
      else if 0xfc ≤ ch ∧ ch < 0xfe then (6, ch % 2, 0x4000000)
      else (0, 0, 0)
    if k = 0 ∨ len < k then none else
    let tail := (xs.drop 1).take (k - 1)
    if tail.length ≠ k - 1 ∨ tail.any (fun b => !isCont b) then none else
    let v := tail.foldl (fun a b => a * 64 + b % 64) v0
    if v < mn ∨ isSurrogate v then none else some (k, v)

/-- `archive_wstring_append_from_mbs` over that `mbrtowc`. -/
def libcMbsToWcs (xs : List Nat) (len : Nat) (acc : List Nat) : Option (List Nat) :=
  if len = 0 then some acc else
  match xs[0]? with
  | none => some acc
  | some 0 => some acc
  | some _ =>
    match libcMbrtowc xs len with
    | some (k, v) =>
      if _h : 0 < k ∧ k ≤ len then libcMbsToWcs (xs.drop k) (len - k) (acc ++ [v]) else none
    | none => none
termination_by len
decreasing_by omega

def isScalarB (c : Nat) : Bool := c ≤ unicodeMax && !isSurrogate c

/-- `archive_string_append_from_wcs` over glibc `wcrtomb`: `?` and -1 for a surrogate
(the generator stays at or below U+10FFFF). -/
def libcWcsToMbs (ws : List Nat) : Int × List Nat :=
  ws.foldl (fun (r, out) c => if isSurrogate c then (-1, out ++ [63]) else (r, out ++ unicodeToUtf8 4 c)) (0, [])

def showBytesView (k : String) (r : Int) (p : Option (List Nat)) : String :=
  s!"{k}={r}:" ++ (match p with | none => "null" | some b => LA.toHex b)

def showWcsView (r : Int) (p : Option (List Nat)) : String :=
  s!"w={r}:" ++ (match p with
    | none => "null"
    | some [] => "-"
    | some ws => ",".intercalate (ws.map hexNat))

def takeUntilZero (xs : List Nat) : List Nat := xs.takeWhile (· ≠ 0)

def be32 : List Nat → List Nat
  | a :: b :: c :: d :: r => (((a * 256 + b) * 256 + c) * 256 + d) :: be32 r
  | _ => []

def msModel (kind : String) (xs : List Nat) : String :=
  match kind with
  | "mbs" =>
    let m := takeUntilZero xs
    let u := match utf8ToUtf8 m m.length with
      | .ok 0 out => showBytesView "u" 0 (some out)
      | _ => showBytesView "u" (-1) none
    let w := match libcMbsToWcs m m.length [] with
      | some ws => showWcsView 0 (some ws)
      | none => showWcsView (-1) none
    showBytesView "m" 0 (some m) ++ " " ++ u ++ " " ++ w
  | "utf8" =>
    let u := takeUntilZero xs
    -- get_mbs: from_charset("UTF-8") = normalize_C (see convModel); the pointer is set even on failure
    let (mr, mb) := match transcode .utf8 .utf8 u u.length [] 0 with
      | .ok r out => (r, out)
      | _ => ((-2 : Int), [])
    let mbs := if u.isEmpty then (0, []) else (mr, mb)
    let w := if mbs.1 = 0 then
        match libcMbsToWcs mbs.2 mbs.2.length [] with
        | some ws => showWcsView 0 (some ws)
        | none => showWcsView (-1) none
      else showWcsView 0 none
    showBytesView "m" mbs.1 (some mbs.2) ++ " " ++ showBytesView "u" 0 (some u) ++ " " ++ w
  | "wcs" =>
    let ws := takeUntilZero (be32 xs)
    let (mr, mb) := libcWcsToMbs ws
    let u := if mr = 0 then
        match utf8ToUtf8 mb mb.length with
        | .ok 0 out => showBytesView "u" 0 (some out)
        | _ => showBytesView "u" (-1) none
      else showBytesView "u" 0 none
    showBytesView "m" mr (some mb) ++ " " ++ u ++ " " ++ showWcsView 0 (some ws)
  | _ => "bad-op"

def stepLine (_ : Unit) (op obs : String) : Unit × String :=
  let out :=
    match LA.words op with
    | ["u8u8", hx] =>
      match LA.parseHex hx with
      | some xs => showConv (utf8ToUtf8 xs xs.length)
      | none => "bad-op"
    | [d, hx] =>
      match decByName d, LA.parseHex hx with
      | some f, some xs => showDec (f xs xs.length)
      | _, _ => "bad-op"
    | ["big8", hx, ns] =>
      match LA.parseHex hx, ns.toNat? with
      | some xs, some n =>
        if n < xs.length then "bad-op" else
        let ys := (xs ++ List.replicate 8 0).take n
        showDec (utf8Raw ys n) ++ " " ++ showDec (utf8ToUnicode ys n) ++ " " ++ showDec (cesu8ToUnicode ys n)
      | _, _ => "bad-op"
    | ["enum", los, his] =>
      match los.toNat?, his.toNat? with
      | some lo, some hi => "digest=" ++ hex16 (enumScalars (hi - lo) lo 14695981039346656037)
      | _, _ => "bad-op"
    | ["rt", _, _] => obs     -- iconv round trip: a test judged by the oracle, not modelled
    | ["ms", kind, hx] =>
      match LA.parseHex hx with
      | some xs => msModel kind xs
      | none => "bad-op"
    | [e, ucs, rs] =>
      match parseHexNat ucs, rs.toNat? with
      | some uc, some rem =>
        if e = "e8" ∨ e = "e16be" ∨ e = "e16le" then
          let bs := if e = "e8" then unicodeToUtf8 rem uc else unicodeToUtf16 (e = "e16be") rem uc
          s!"w={bs.length} out={LA.toHex bs}"
        else "bad-op"
      | _, _ => "bad-op"
    | ["app", fl, cap, pre, sx] =>
      match fl.toNat?, cap.toNat?, LA.parseHex pre, LA.parseHex sx with
      | some flag, some cap, some pre, some xs =>
        match mkAs cap pre with
        | some as => showApp (appendUnicode flag as xs xs.length)
        | none => "bad-op"
      | _, _, _, _ => "bad-op"
    | ["enumb", als, ks, los, his] =>
      match LA.parseHex als, ks.toNat?, los.toNat?, his.toNat? with
      | some al, some k, some lo, some hi =>
        if al.isEmpty ∨ k = 0 ∨ k > 8 then "bad-op"
        else "digest=" ++ hex16 (enumBytes al.toArray k (hi - lo) lo 14695981039346656037)
      | _, _, _, _ => "bad-op"
    | [b, be, cap, pre, sx] =>
      match be.toNat?, cap.toNat?, LA.parseHex pre, LA.parseHex sx with
      | some be, some cap, some pre, some xs =>
        if b = "bto" ∨ b = "bfrom" then
          match mkAs cap pre with
          | some as =>
            if b = "bto" then showApp (bestEffortToUtf16 (be != 0) as xs xs.length)
            else showApp (bestEffortFromUtf16 (be != 0) as xs xs.length)
          | none => "bad-op"
        else "bad-op"
      | _, _, _, _ => "bad-op"
    | ["conv", dir, cs, hx] =>
      match LA.parseHex hx with
      | some xs => convModel dir cs xs
      | none => "bad-op"
    | _ => "bad-op"
  ((), out)

def engine : LA.Engine := { σ := Unit, init := (), step := stepLine }

end LA.Unicode
