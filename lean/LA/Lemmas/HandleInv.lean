/-
Invariants of the handle life-cycle model (property C07): what stays true of a
handle of each kind along every history (`Inv`), why `free` then leaves nothing
behind (`free_clean`), and why a reader that has ended never yields an entry
again (`ended_never_yields`).  Property theorems are in `LA/Props/C07.lean`.
-/
import LA.Lemmas.Handle
set_option linter.unusedSimpArgs false
set_option linter.unusedVariables false
namespace LA.Handle
open LA.Gen.ApiStates

/-! ## a reader past its last entry -/

/-- The reader is past its last entry: EOF was reached, the handle was closed, or it failed. -/
def Ended (h : Handle) : Prop := h.st = .eof ∨ h.st = .closed ∨ h.st = .fatal

theorem ended_checked (h : Handle) (f : String) (body : Handle → Handle × Rc)
    (he : Ended h) (hb : Ended (body h).1) : Ended (checked h f body).1 := by
  unfold checked
  split
  · exact he
  · split
    · exact hb
    · exact Or.inr (Or.inr rfl)

/-- Once ended, always ended: no call of the reader's API leads back to HEADER
or DATA (`archive_read_open1` needs NEW, `archive_read_data_skip` needs DATA). -/
theorem ended_step (h : Handle) (hk : h.kind = .read) (he : Ended h) (op : Op) (o : Outcome) :
    Ended (step h op o).1 := by
  by_cases halive : h.alive = true
  case neg => simp [step, stepCore, halive]; exact he
  by_cases hb : op.belongs h.kind = true
  case neg => simp [step, stepCore, halive, hb]; exact he
  have hnew : (h.st == St.new) = false := by rcases he with e | e | e <;> simp [e]
  have hdata : (h.st == St.data) = false := by rcases he with e | e | e <;> simp [e]
  have hhd : (h.st == St.header || h.st == St.data) = false := by rcases he with e | e | e <;> simp [e]
  have fat : ∀ g : Handle, Ended { g with st := St.fatal } := fun g => Or.inr (Or.inr rfl)
  rw [hk] at hb
  cases op with
  | plain f =>
    simp only [step, stepCore, halive, hk, hb]; simp only [Bool.not_true, Bool.false_eq_true, if_false]
    apply ended_checked _ _ _ he
    split
    · exact fat h
    · exact he
  | unchecked => simp [step, stepCore, halive, hk, hb]; exact he
  | fail => simp [step, stepCore, halive, hk, hb]; exact fat h
  | rSetReader =>
    simp only [step, stepCore, halive, hk, hb]; simp only [Bool.not_true, Bool.false_eq_true, if_false]
    exact ended_checked _ _ _ he he
  | rOpen w reg =>
    have inner : ∀ g : Handle, g.kind = .read → Ended g →
        Ended (checked g "archive_read_open1" (rOpen1Body o)).1 := by
      intro g gk ge
      have : (g.st == St.new) = false := by rcases ge with e | e | e <;> simp [e]
      rw [chk_read_archive_read_open1 g _ gk]; simp [this]; exact fat g
    have go : ∀ g : Handle, g.kind = .read → Ended g →
        Ended (checked (if reg = true then
          (checked g "archive_read_set_read_callback" fun h => ({ h with hasReader := true }, Rc.ok)).1
          else g) "archive_read_open1" (rOpen1Body o)).1 := by
      intro g gk ge
      cases reg with
      | false => simpa using inner g gk ge
      | true =>
        simp only [if_true]
        apply inner
        · rw [chk_read_archive_read_set_read_callback g _ gk]; split <;> simpa using gk
        · exact ended_checked _ _ _ ge ge
    cases w with
    | none => simp only [step, stepCore, halive, hk, hb]; simp only [Bool.not_true, Bool.false_eq_true, if_false]; exact go h hk he
    | some w =>
      simp only [step, stepCore, halive, hk, hb]; simp only [Bool.not_true, Bool.false_eq_true, if_false]
      exact ended_checked _ _ _ he (go h hk he)
  | rNextHeader =>
    simp [step, stepCore, halive, hk, hb, chk_read_archive_read_next_header2 h _ hk, hhd]; exact fat h
  | rReadData =>
    simp only [step, stepCore, halive, hk, hb, hdata]; simp only [Bool.not_true, Bool.false_eq_true, if_false, Bool.and_false]
    exact ended_checked _ _ _ he he
  | rReadDataBlock =>
    simp only [step, stepCore, halive, hk, hb]; simp only [Bool.not_true, Bool.false_eq_true, if_false]
    exact ended_checked _ _ _ he he
  | rSeekData =>
    simp only [step, stepCore, halive, hk, hb]; simp only [Bool.not_true, Bool.false_eq_true, if_false]
    exact ended_checked _ _ _ he he
  | rDataSkip =>
    simp [step, stepCore, halive, hk, hb, rDataSkip, chk_read_archive_read_data_skip h _ hk, hdata]; exact fat h
  | close =>
    have := step_close h o halive
    rw [hk] at this; simp only at this
    rw [this, rClose_fst o h hk]
    by_cases hc : h.st = .closed
    · simp [hc]; exact he
    · simp only [hc, if_false]; unfold Ended; simp
  | free =>
    simp only [step, stepCore, halive, hk, hb]; simp only [Bool.not_true, Bool.false_eq_true, if_false]
    simp only [rFree, chk_read_archive_read_free h _ hk, allowed_65535, if_true]
    unfold Ended
    simp only [relHandle_st, rFreeFilters_st, relRegs_st]
    by_cases hc : (h.st != St.closed && h.st != St.fatal) = true
    · simp only [hc, if_true]; rw [rClose_fst o h hk]
      have : ¬ h.st = .closed := by intro e; simp [e] at hc
      simp [this]
    · simp only [hc]; exact he
  | _ => simp [Op.belongs] at hb

/-- `archive_read_next_header` returning EOF or FATAL leaves the reader ended,
whatever the format's `read_header` and the skip of the previous body returned. -/
theorem next_header_ends (h : Handle) (hk : h.kind = .read) (halive : h.alive = true) (o : Outcome)
    (hr : (step h .rNextHeader o).2 = .eof ∨ (step h .rNextHeader o).2 = .fatal) :
    Ended (step h .rNextHeader o).1 := by
  have hb : Op.rNextHeader.belongs .read = true := rfl
  simp only [step, stepCore, halive, hk, hb] at hr ⊢
  simp only [Bool.not_true, Bool.false_eq_true, if_false] at hr ⊢
  rw [chk_read_archive_read_next_header2 h _ hk] at hr ⊢
  unfold Ended
  cases hs : h.st <;> simp [hs] at hr ⊢
  · -- HEADER: no body to skip
    simp [rNextHeaderBody, hs] at hr ⊢
    cases hrc : o.rc <;> simp [hrc, Rc.val] at hr ⊢
  · -- DATA: the rest of the body is skipped first
    simp [rNextHeaderBody, hs, rDataSkip, chk_read_archive_read_data_skip h _ hk] at hr ⊢
    cases hr2 : o.rc2 <;> cases hrc : o.rc <;> simp [hr2, hrc, Rc.val] at hr ⊢

/-- Did some `next_header` of the history return an entry (OK or WARN)? -/
def yields : List (Op × Outcome) → List Rc → Bool
  | (op, _) :: ops, r :: rs => (op == .rNextHeader && (r == .ok || r == .warn)) || yields ops rs
  | _, _ => false

theorem ended_never_yields (rest : List (Op × Outcome)) :
    ∀ h : Handle, h.kind = .read → Ended h → yields rest (run h rest).2 = false := by
  induction rest with
  | nil => intro h _ _; rfl
  | cons p rest ih =>
    intro h hk he
    obtain ⟨op, o⟩ := p
    have hk' : (step h op o).1.kind = .read := by
      have := step_kind h op o
      rw [this]; exact hk
    have he' := ended_step h hk he op o
    simp only [run, yields]
    rw [ih _ hk' he']
    simp only [Bool.or_false, Bool.and_eq_false_imp, beq_iff_eq]
    intro hop; subst hop
    by_cases halive : h.alive = true
    · have hhd : (h.st == St.header || h.st == St.data) = false := by
        rcases he with e | e | e <;> simp [e]
      simp [step, stepCore, halive, hk, Op.belongs, chk_read_archive_read_next_header2 h _ hk, hhd]
    · simp [step, stepCore, halive]


/-! ## the resource invariant -/

/-- Everything the handle ever acquired has been released, once: nothing is left
in the ledger, nothing was released twice, nothing was dropped unreleased. -/
abbrev Clean (h : Handle) : Prop := ledger h = Ledger.empty ∧ h.bad = 0 ∧ h.lost = 0

def Inv (h : Handle) : Prop :=
  h.alive = true ∧ h.bad = 0 ∧ h.lost = 0 ∧
  match h.kind with
  | .«match» => h.filters = [] ∧ h.client = false ∧ h.ent = false ∧ h.fd = false ∧ h.fixups = 0 ∧
      h.tree = false ∧ h.topen = false
  | .readDisk => h.filters = [] ∧ h.client = false ∧ h.ent = false ∧ h.fd = false ∧ h.fixups = 0 ∧
      (h.topen = true → h.tree = true) ∧ (h.st = .closed → h.topen = false)
  | .writeDisk => h.filters = [] ∧ h.client = false ∧ h.tree = false ∧ h.topen = false ∧
      (h.st = .header ∨ h.st = .data ∨ h.st = .fatal) ∧ (h.st = .header → h.fd = false)
  | .read => h.ent = false ∧ h.fd = false ∧ h.fixups = 0 ∧ h.tree = false ∧ h.topen = false ∧
      h.client = (h.filters.getLast? == some .opened) ∧ (h.st = .new → h.filters = [])
  | .write => h.fd = false ∧ h.fixups = 0 ∧ h.tree = false ∧ h.topen = false ∧ h.ent = false ∧
      (h.client = true → h.filters ≠ []) ∧ (h.st = .new → h.client = false) ∧
      ((h.st = .new ∨ h.st = .closed) → openCount h.filters = 0)

theorem inv_match (h : Handle) (hk : h.kind = .«match») : Inv h ↔
    (h.alive = true ∧ h.bad = 0 ∧ h.lost = 0 ∧ h.filters = [] ∧ h.client = false ∧ h.ent = false ∧
     h.fd = false ∧ h.fixups = 0 ∧ h.tree = false ∧ h.topen = false) := by unfold Inv; rw [hk]
theorem inv_readDisk (h : Handle) (hk : h.kind = .readDisk) : Inv h ↔
    (h.alive = true ∧ h.bad = 0 ∧ h.lost = 0 ∧ h.filters = [] ∧ h.client = false ∧ h.ent = false ∧
     h.fd = false ∧ h.fixups = 0 ∧ (h.topen = true → h.tree = true) ∧ (h.st = .closed → h.topen = false)) := by
  unfold Inv; rw [hk]
theorem inv_writeDisk (h : Handle) (hk : h.kind = .writeDisk) : Inv h ↔
    (h.alive = true ∧ h.bad = 0 ∧ h.lost = 0 ∧ h.filters = [] ∧ h.client = false ∧ h.tree = false ∧
     h.topen = false ∧ (h.st = .header ∨ h.st = .data ∨ h.st = .fatal) ∧ (h.st = .header → h.fd = false)) := by
  unfold Inv; rw [hk]
theorem inv_read (h : Handle) (hk : h.kind = .read) : Inv h ↔
    (h.alive = true ∧ h.bad = 0 ∧ h.lost = 0 ∧ h.ent = false ∧ h.fd = false ∧ h.fixups = 0 ∧
     h.tree = false ∧ h.topen = false ∧ h.client = (h.filters.getLast? == some .opened) ∧
     (h.st = .new → h.filters = [])) := by unfold Inv; rw [hk]
theorem inv_write (h : Handle) (hk : h.kind = .write) : Inv h ↔
    (h.alive = true ∧ h.bad = 0 ∧ h.lost = 0 ∧ h.fd = false ∧ h.fixups = 0 ∧ h.tree = false ∧
     h.topen = false ∧ h.ent = false ∧ (h.client = true → h.filters ≠ []) ∧ (h.st = .new → h.client = false) ∧
     ((h.st = .new ∨ h.st = .closed) → openCount h.filters = 0)) := by unfold Inv; rw [hk]

theorem inv_fatal (h : Handle) (hi : Inv h) : Inv { h with st := .fatal } := by
  unfold Inv at *
  cases hk : h.kind <;> simp_all

theorem inv_regs (h : Handle) (n : Nat) (hi : Inv h) : Inv { h with regs := n } := by
  unfold Inv at *
  cases hk : h.kind <;> simp_all

theorem inv_checked (h : Handle) (f : String) (body : Handle → Handle × Rc)
    (hi : Inv h) (hb : Inv (body h).1) : Inv (checked h f body).1 := by
  unfold checked; split
  · exact hi
  · split
    · exact hb
    · exact inv_fatal h hi

theorem inv_plain (h : Handle) (f : String) (o : Outcome) (hi : Inv h) :
    Inv (stepCore h (.plain f) o).1 := by
  simp only [stepCore]
  apply inv_checked _ _ _ hi
  split
  · exact inv_fatal h hi
  · exact inv_regs h _ hi

theorem inv_step_match (h : Handle) (op : Op) (o : Outcome) (hk : h.kind = .«match») (hi : Inv h)
    (hop : op ≠ .free) : Inv (step h op o).1 := by
  have halive : h.alive = true := hi.1
  by_cases hb : op.belongs h.kind = true
  case neg => simp [step, halive, hb]; exact hi
  rw [step_core h op o halive hb]
  rw [hk] at hb
  cases op with
  | plain f => exact inv_plain h f o hi
  | unchecked => exact hi
  | fail => exact inv_fatal h hi
  | free => exact absurd rfl hop
  | _ => simp [Op.belongs] at hb

theorem free_clean_match (h : Handle) (o : Outcome) (hk : h.kind = .«match») (hi : Inv h) :
    Clean (step h .free o).1 := by
  have halive : h.alive = true := hi.1
  rw [step_core h .free o halive rfl]
  unfold Inv at hi; rw [hk] at hi; simp only at hi
  obtain ⟨_, hbad, hlost, h1, h2, h3, h4, h5, h6, h7⟩ := hi
  simp [stepCore, hk, chk_match_archive_match_free h _ hk, Clean, ledger, Ledger.empty,
    relHandle, relRegs, halive, hbad, hlost, h1, h2, h3, h4, h5, h6, h7, b2n, openCount]

/-! disk reader -/

theorem inv_step_readDisk (h : Handle) (op : Op) (o : Outcome) (hk : h.kind = .readDisk) (hi : Inv h)
    (hop : op ≠ .free) : Inv (step h op o).1 := by
  have halive : h.alive = true := hi.1
  by_cases hb : op.belongs h.kind = true
  case neg => simp [step, halive, hb]; exact hi
  rw [step_core h op o halive hb]
  rw [hk] at hb
  cases op with
  | plain f => exact inv_plain h f o hi
  | unchecked => exact hi
  | fail => exact inv_fatal h hi
  | free => exact absurd rfl hop
  | lookup pre setter =>
    simp only [stepCore]
    apply inv_checked _ _ _ hi
    simp only
    apply inv_checked
    · exact inv_checked _ _ _ hi (inv_regs h _ hi)
    · exact inv_regs _ _ (inv_checked _ _ _ hi (inv_regs h _ hi))
  | kOpen =>
    simp only [stepCore]
    apply inv_checked _ _ _ hi
    split
    · exact inv_fatal h hi
    · rw [inv_readDisk _ (by simpa using hk)]; rw [inv_readDisk _ hk] at hi; simp_all
  | kNextHeader =>
    simp only [stepCore, chk_readDisk_archive_read_next_header2 h _ hk, allowed_6]
    split
    · split
      · exact inv_fatal h hi
      · rename_i hst _
        rw [inv_readDisk _ (by simpa using hk)]; rw [inv_readDisk _ hk] at hi
        cases hrc : o.rc <;> simp_all <;> (rcases hst with e | e <;> simp_all)
    · exact inv_fatal h hi
  | kReadDataBlock =>
    simp only [stepCore]
    apply inv_checked _ _ _ hi
    split
    · exact inv_fatal h hi
    · exact hi
  | close =>
    simp only [stepCore, hk]
    rw [kClose_fst h hk]
    have hk2 : (kCloseTree (if h.st = .fatal then h else { h with st := .closed })).kind = .readDisk := by
      by_cases hd : h.st = .fatal <;> simp [hd, hk]
    rw [inv_readDisk _ hk2]; rw [inv_readDisk _ hk] at hi
    obtain ⟨h1, h2, h3, h4, h5, h6, h7, h8, h9, h10⟩ := hi
    by_cases hf : h.st = .fatal <;> cases ht : h.topen <;> cases hr : h.tree <;>
      simp_all [kCloseTree]
  | _ => simp [Op.belongs] at hb

theorem clean_iff (h : Handle) : Clean h ↔
    (h.alive = false ∧ h.regs = 0 ∧ h.filters = [] ∧ h.client = false ∧ h.ent = false ∧ h.fd = false ∧
     h.fixups = 0 ∧ h.tree = false ∧ h.topen = false ∧ h.bad = 0 ∧ h.lost = 0) := by
  unfold Clean ledger Ledger.empty b2n
  constructor
  · intro ⟨h1, h2, h3⟩
    simp only [Ledger.mk.injEq] at h1
    obtain ⟨a1, a2, a3, a4, a5, a6, a7, a8, a9, a10⟩ := h1
    refine ⟨?_, a2, ?_, ?_, ?_, ?_, a8, ?_, ?_, h2, h3⟩
    · cases hh : h.alive <;> simp_all
    · exact List.length_eq_zero_iff.mp a3
    · cases hh : h.client <;> simp_all
    · cases hh : h.ent <;> simp_all
    · cases hh : h.fd <;> simp_all
    · cases hh : h.tree <;> simp_all
    · cases hh : h.topen <;> simp_all
  · intro ⟨a1, a2, a3, a4, a5, a6, a7, a8, a9, a10, a11⟩
    simp [a1, a2, a3, a4, a5, a6, a7, a8, a9, a10, a11, openCount]

theorem free_clean_readDisk (h : Handle) (o : Outcome) (hk : h.kind = .readDisk) (hi : Inv h) :
    Clean (step h .free o).1 := by
  have halive : h.alive = true := hi.1
  rw [step_core h .free o halive rfl]
  rw [inv_readDisk _ hk] at hi
  obtain ⟨h1, h2, h3, h4, h5, h6, h7, h8, h9, h10⟩ := hi
  simp only [stepCore, hk, kFree, chk_readDisk_archive_read_free h _ hk, allowed_65535, if_true]
  rw [clean_iff]
  by_cases hc : h.st = .closed
  · have := h10 hc
    simp [hc, relHandle, relRegs, h1, h2, h3, h4, h5, h6, h7, h8, this, b2n]
  · have hc' : (h.st != St.closed) = true := by simpa using hc
    simp only [hc', if_true]
    rw [kClose_fst h hk]
    by_cases hf : h.st = .fatal <;> cases ht : h.topen <;> cases hr : h.tree <;>
      simp_all [kCloseTree, relHandle, relRegs, b2n]

/-! disk writer -/

theorem dFinishEntry_inv (h : Handle) (o : Outcome) (hk : h.kind = .writeDisk) (hi : Inv h) :
    Inv (dFinishEntry o h).1 ∧ ((dFinishEntry o h).1.fd = false ∨ (dFinishEntry o h).1.st = .fatal) := by
  rw [dFinishEntry, chk_writeDisk_archive_write_disk_finish_entry h _ hk, allowed_6]
  have hi' := (inv_writeDisk _ hk).mp hi
  obtain ⟨h1, h2, h3, h4, h5, h6, h7, h8, h9⟩ := hi'
  by_cases hs : h.st = .header
  · simp [hs]; exact ⟨hi, h9 hs⟩
  · by_cases hd : h.st = .data
    · simp only [hd, beq_self_eq_true, Bool.or_true, if_true]
      simp only [show (St.data == St.header) = false from rfl, Bool.false_eq_true, if_false]
      split
      · refine ⟨?_, Or.inl (by simp)⟩
        rw [inv_writeDisk _ (by simpa using hk)]; simp_all
      · refine ⟨?_, Or.inl (by simp)⟩
        rw [inv_writeDisk _ (by simpa using hk)]; simp_all
    · have : (h.st == St.header || h.st == St.data) = false := by simp [hs, hd]
      simp only [this, Bool.false_eq_true, if_false]
      exact ⟨inv_fatal h hi, Or.inr trivial⟩

theorem dFinishEntry_data (h : Handle) (o : Outcome) (hk : h.kind = .writeDisk) (hd : h.st = .data) :
    dFinishEntry o h = (if o.alt == 2 then (relFd h, o.rc2)
      else ({ relEnt (relFd h) with st := .header }, o.rc2)) := by
  rw [dFinishEntry, chk_writeDisk_archive_write_disk_finish_entry h _ hk, allowed_6]
  simp [hd]

theorem dHeaderBody_inv (h : Handle) (o : Outcome) (hk : h.kind = .writeDisk) (hi : Inv h)
    (hs : h.st = .header ∨ h.st = .data) : Inv (dHeaderBody o h).1 := by
  rcases h with ⟨k, st, alive, regs, hasReader, filters, client, ent, fd, fixups, tree, topen, bad, lost, nOpen, nClose, nFree⟩
  simp only at hk hs; subst hk
  simp only [Inv] at hi
  obtain ⟨h1, h2, h3, h4, h5, h6, h7, h8, h9⟩ := hi
  subst h1 h2 h3 h4 h5 h6 h7
  rcases hs with hs | hs <;> subst hs
  · have := h9 rfl; subst this
    by_cases c4 : Rc.warn.val ≤ o.rc.val <;>
    cases c1 : (o.alt == 1) <;> cases c5 : o.flag <;> cases ent <;>
      simp [dHeaderBody, relEnt, b2n, Inv, c1, c5, c4]
  · by_cases c4 : Rc.warn.val ≤ o.rc.val <;>
    cases c1 : (o.alt == 1) <;> cases c2 : (o.alt == 2) <;> cases c3 : (o.rc2 == Rc.fatal) <;>
      cases c5 : o.flag <;> cases ent <;> cases fd <;>
      simp [dHeaderBody, dFinishEntry, chk_writeDisk_archive_write_disk_finish_entry, relEnt, relFd, b2n, Inv,
        c1, c2, c3, c5, c4]

theorem inv_lookup (h : Handle) (pre setter : String) (o : Outcome) (hi : Inv h) :
    Inv (stepCore h (.lookup pre setter) o).1 := by
  simp only [stepCore]
  apply inv_checked _ _ _ hi
  simp only
  apply inv_checked
  · exact inv_checked _ _ _ hi (inv_regs h _ hi)
  · exact inv_regs _ _ (inv_checked _ _ _ hi (inv_regs h _ hi))

theorem dClose_inv (h : Handle) (o : Outcome) (hk : h.kind = .writeDisk) (hi : Inv h) :
    Inv (dClose o h).1 := by
  rw [dClose_fst o h hk]
  rcases h with ⟨k, st, alive, regs, hasReader, filters, client, ent, fd, fixups, tree, topen, bad, lost, nOpen, nClose, nFree⟩
  simp only at hk; subst hk
  simp only [Inv] at hi
  obtain ⟨h1, h2, h3, h4, h5, h6, h7, h8, h9⟩ := hi
  subst h1 h2 h3 h4 h5 h6 h7
  cases c2 : (o.alt == 2) <;> cases ent <;> cases fd <;> cases st <;>
    simp_all [relEnt, relFd, relFixups, Inv]

theorem inv_step_writeDisk (h : Handle) (op : Op) (o : Outcome) (hk : h.kind = .writeDisk) (hi : Inv h)
    (hop : op ≠ .free) : Inv (step h op o).1 := by
  have halive : h.alive = true := hi.1
  by_cases hb : op.belongs h.kind = true
  case neg => simp [step, halive, hb]; exact hi
  rw [step_core h op o halive hb]
  rw [hk] at hb
  cases op with
  | plain f => exact inv_plain h f o hi
  | unchecked => exact hi
  | fail => exact inv_fatal h hi
  | free => exact absurd rfl hop
  | lookup pre setter => exact inv_lookup h pre setter o hi
  | dHeader =>
    simp only [stepCore, chk_writeDisk_archive_write_disk_header h _ hk, allowed_6]
    split
    · rename_i hst
      exact dHeaderBody_inv h o hk hi (by simpa using hst)
    · exact inv_fatal h hi
  | dData => simp only [stepCore]; exact inv_checked _ _ _ hi hi
  | dDataBlock => simp only [stepCore]; exact inv_checked _ _ _ hi hi
  | dFinishEntry => simp only [stepCore]; exact (dFinishEntry_inv h o hk hi).1
  | close => simp only [stepCore, hk]; exact dClose_inv h o hk hi
  | _ => simp [Op.belongs] at hb

theorem free_clean_writeDisk (h : Handle) (o : Outcome) (hk : h.kind = .writeDisk) (hi : Inv h) :
    Clean (step h .free o).1 := by
  have halive : h.alive = true := hi.1
  rw [step_core h .free o halive rfl]
  simp only [stepCore, hk, dFree, chk_writeDisk_archive_write_disk_free h _ hk, allowed_65535, if_true]
  rw [dClose_fst o h hk, clean_iff]
  rcases h with ⟨k, st, alive, regs, hasReader, filters, client, ent, fd, fixups, tree, topen, bad, lost, nOpen, nClose, nFree⟩
  simp only at hk; subst hk
  simp only [Inv] at hi
  obtain ⟨h1, h2, h3, h4, h5, h6, h7, h8, h9⟩ := hi
  subst h1 h2 h3 h4 h5 h6 h7
  cases c2 : (o.alt == 2) <;> cases ent <;> cases fd <;> cases st <;>
    simp_all [relEnt, relFd, relFixups, relRegs, relHandle]

/-! reader -/

theorem rOpen1Body_inv (h : Handle) (o : Outcome) (hk : h.kind = .read) (hi : Inv h) (hs : h.st = .new) :
    Inv (rOpen1Body o h).1 := by
  rcases h with ⟨k, st, alive, regs, hasReader, filters, client, ent, fd, fixups, tree, topen, bad, lost, nOpen, nClose, nFree⟩
  simp only at hk hs; subst hk hs
  simp only [Inv] at hi
  obtain ⟨h1, h2, h3, h4, h5, h6, h7, h8, h9, h10⟩ := hi
  have hf := h10 trivial
  subst h1 h2 h3 h4 h5 h6 h7 h8 hf
  simp at h9; subst h9
  obtain ⟨rc, rc2, rc3, n, flag, alt⟩ := o
  have e1 : openCount (List.replicate (n + 1) (closeF FSt.opened)) = 0 := by
    rw [← List.map_replicate]; exact openCount_map_closeF _
  have e2 : ((List.replicate (n + 1) (closeF FSt.opened)).getLast? == some FSt.opened) = false := by
    rw [← List.map_replicate]; exact getLast?_map_closeF _
  cases hasReader
  · simp [rOpen1Body, Inv]
  · rcases alt with _ | _ | _ | _ | k <;>
      simp [rOpen1Body, rFreeFilters, rCloseFilters, rSetFilters, callCloser, Inv, b2n,
        List.getLast?_replicate, e1] <;> simp [closeF]

theorem inv_hasReader (h : Handle) (b : Bool) (hi : Inv h) : Inv { h with hasReader := b } := by
  unfold Inv at *
  cases hk : h.kind <;> simp_all

theorem inv_read_st (h : Handle) (s : St) (hk : h.kind = .read) (hs : s ≠ .new) (hi : Inv h) :
    Inv { h with st := s } := by
  rw [inv_read _ (by simpa using hk)]; rw [inv_read _ hk] at hi
  simp_all

theorem rDataSkip_inv (h : Handle) (r : Rc) (hk : h.kind = .read) (hi : Inv h) : Inv (rDataSkip h r).1 := by
  rw [rDataSkip]
  apply inv_checked _ _ _ hi
  exact inv_read_st h _ hk (by decide) hi

theorem rNextHeaderBody_inv (h : Handle) (o : Outcome) (hk : h.kind = .read) (hi : Inv h)
    (hs : h.st = .header ∨ h.st = .data) : Inv (rNextHeaderBody o h).1 := by
  have key : ∀ g : Handle, g.kind = .read → Inv g → ∀ d : St, d ≠ .new → ∀ r1 : Rc,
      Inv (({ g with st := (match o.rc with
        | .eof => St.eof | .ok => St.data | .warn => St.data | .fatal => St.fatal | _ => d) } : Handle),
        (if o.rc.val < r1.val || o.rc == .eof then o.rc else r1)).1 := by
    intro g gk gi d gs r1
    apply inv_read_st g _ gk _ gi
    cases o.rc <;> simp [gs]
  rw [rNextHeaderBody]
  rcases hs with hs | hs
  · simp only [hs, show (St.header == St.data) = false from rfl, Bool.false_eq_true, if_false, Bool.false_and]
    exact key h hk hi _ (by decide) Rc.ok
  · simp only [hs, beq_self_eq_true, if_true, Bool.true_and]
    have hp := rDataSkip_inv h o.rc2 hk hi
    have hpk : (rDataSkip h o.rc2).1.kind = .read := by rw [rDataSkip_kind]; exact hk
    have hps : (rDataSkip h o.rc2).1.st ≠ .new := by
      rw [rDataSkip, chk_read_archive_read_data_skip h _ hk, allowed_4]; simp [hs]
    split
    · exact inv_fatal _ hp
    · exact key _ hpk hp _ hps (rDataSkip h o.rc2).2

theorem rClose_inv (h : Handle) (o : Outcome) (hk : h.kind = .read) (hi : Inv h) : Inv (rClose o h).1 := by
  rw [rClose_fst o h hk]
  by_cases hc : h.st = .closed
  · simp [hc]; exact hi
  · simp only [hc, if_false]
    rw [inv_read _ (by simpa using hk)]; rw [inv_read _ hk] at hi
    obtain ⟨h1, h2, h3, h4, h5, h6, h7, h8, h9, h10⟩ := hi
    simp only [rCloseFilters]
    have e := getLast?_map_closeF h.filters
    cases hl : (h.filters.getLast? == some FSt.opened)
    · simp_all [callCloser]
    · simp_all [callCloser]

theorem inv_step_read (h : Handle) (op : Op) (o : Outcome) (hk : h.kind = .read) (hi : Inv h)
    (hop : op ≠ .free) : Inv (step h op o).1 := by
  have halive : h.alive = true := hi.1
  by_cases hb : op.belongs h.kind = true
  case neg => simp [step, halive, hb]; exact hi
  rw [step_core h op o halive hb]
  rw [hk] at hb
  cases op with
  | plain f => exact inv_plain h f o hi
  | unchecked => exact hi
  | fail => exact inv_fatal h hi
  | free => exact absurd rfl hop
  | rSetReader => simp only [stepCore]; exact inv_checked _ _ _ hi (inv_hasReader h _ hi)
  | rOpen w reg =>
    have inner : ∀ g : Handle, g.kind = .read → Inv g →
        Inv (checked g "archive_read_open1" (rOpen1Body o)).1 := by
      intro g gk gi
      rw [chk_read_archive_read_open1 g _ gk, allowed_1]
      split
      · rename_i hst; exact rOpen1Body_inv g o gk gi (by simpa using hst)
      · exact inv_fatal g gi
    have go : ∀ g : Handle, g.kind = .read → Inv g →
        Inv (checked (if reg = true then
          (checked g "archive_read_set_read_callback" fun h => ({ h with hasReader := true }, Rc.ok)).1
          else g) "archive_read_open1" (rOpen1Body o)).1 := by
      intro g gk gi
      cases reg with
      | false => simpa using inner g gk gi
      | true =>
        simp only [if_true]
        apply inner
        · rw [checked_kind _ _ _ (fun _ => rfl)]; exact gk
        · exact inv_checked _ _ _ gi (inv_hasReader g _ gi)
    cases w with
    | none => simp only [stepCore]; exact go h hk hi
    | some w => simp only [stepCore]; exact inv_checked _ _ _ hi (go h hk hi)
  | rNextHeader =>
    simp only [stepCore, chk_read_archive_read_next_header2 h _ hk, allowed_6]
    split
    · rename_i hst; exact rNextHeaderBody_inv h o hk hi (by simpa using hst)
    · exact inv_fatal h hi
  | rReadData =>
    simp only [stepCore]
    split
    · exact hi
    · exact inv_checked _ _ _ hi hi
  | rReadDataBlock => simp only [stepCore]; exact inv_checked _ _ _ hi hi
  | rSeekData => simp only [stepCore]; exact inv_checked _ _ _ hi hi
  | rDataSkip => simp only [stepCore]; exact rDataSkip_inv h _ hk hi
  | close => simp only [stepCore, hk]; exact rClose_inv h o hk hi
  | _ => simp [Op.belongs] at hb

theorem free_clean_read (h : Handle) (o : Outcome) (hk : h.kind = .read) (hi : Inv h) :
    Clean (step h .free o).1 := by
  have halive : h.alive = true := hi.1
  rw [step_core h .free o halive rfl]
  simp only [stepCore, hk, rFree, chk_read_archive_read_free h _ hk, allowed_65535, if_true]
  -- whichever way, free works on an invariant handle
  have key : ∀ g : Handle, g.kind = .read → Inv g → Clean (relHandle (rFreeFilters (relRegs g))) := by
    intro g gk gi
    rw [inv_read _ gk] at gi
    obtain ⟨h1, h2, h3, h4, h5, h6, h7, h8, h9, h10⟩ := gi
    rw [clean_iff]
    simp only [rFreeFilters, rCloseFilters, relHandle]
    cases hl : (g.filters.getLast? == some FSt.opened) <;>
      simp_all [callCloser, openCount_map_closeF, relRegs]
  split
  · exact key _ (by rw [rClose_kind]; exact hk) (rClose_inv h o hk hi)
  · exact key h hk hi

/-! writer -/

theorem wOpenFilters_go_length (l : List FSt) (g : Nat) : (wOpenFilters.go l g).length = l.length := by
  induction l generalizing g with
  | nil => simp [wOpenFilters.go]
  | cons a t ih =>
    unfold wOpenFilters.go
    split
    · rfl
    · cases g <;> simp [ih]

theorem wOpenFilters_length (l : List FSt) (g : Nat) : (wOpenFilters l g).length = l.length := by
  simp [wOpenFilters, wOpenFilters_go_length]

theorem inv_write_st (h : Handle) (s : St) (hk : h.kind = .write) (hs : s ≠ .new ∧ s ≠ .closed) (hi : Inv h) :
    Inv { h with st := s } := by
  rw [inv_write _ (by simpa using hk)]; rw [inv_write _ hk] at hi
  simp_all

theorem wFinishEntry_inv (h : Handle) (r : Rc) (hk : h.kind = .write) (hi : Inv h) :
    Inv (wFinishEntry h r).1 ∧ (wFinishEntry h r).1.kind = .write ∧
      ((wFinishEntry h r).1.st = .header ∨ (wFinishEntry h r).1.st = .fatal) := by
  rw [wFinishEntry, chk_write_archive_write_finish_entry h _ hk, allowed_6]
  have hi' := (inv_write _ hk).mp hi
  split
  · split
    · refine ⟨?_, by simpa using hk, Or.inl rfl⟩
      rw [inv_write _ (by simpa using hk)]; simp_all
    · exact ⟨inv_write_st h _ hk (by decide) hi, hk, Or.inl rfl⟩
  · exact ⟨inv_fatal h hi, hk, Or.inr rfl⟩

theorem wHeaderBody_inv (h : Handle) (o : Outcome) (hk : h.kind = .write) (hi : Inv h)
    (hflag : o.flag = false) : Inv (wHeaderBody o h).1 := by
  rw [wHeaderBody]
  split
  · exact inv_fatal h hi
  · obtain ⟨pi, pk, ps⟩ := wFinishEntry_inv h o.rc2 hk hi
    simp only
    repeat' split
    all_goals first
      | exact inv_fatal _ pi
      | exact pi
      | (rw [inv_write _ (by simpa using pk)]
         have := (inv_write _ pk).mp pi
         simp_all [b2n])

theorem wCloseFilters_inv (h : Handle) (hk : h.kind = .write) (hi : Inv h) : Inv (wCloseFilters h) := by
  rw [inv_write _ (by simpa using hk)]; rw [inv_write _ hk] at hi
  simp_all [openCount_map_closeF]

theorem wClose_inv (h : Handle) (o : Outcome) (hk : h.kind = .write) (hi : Inv h) : Inv (wClose o h).1 := by
  rw [wClose_fst o h hk]
  split
  · exact hi
  · split
    · exact wCloseFilters_inv h hk hi
    · have hi' := (inv_write _ hk).mp hi
      rw [inv_write _ (by by_cases hd : h.st = .data <;> simp [hd, hk])]
      by_cases hd : h.st = .data <;> simp_all [openCount_map_closeF]

theorem wOpenBody_inv (h : Handle) (o : Outcome) (hk : h.kind = .write) (hi : Inv h) (hs : h.st = .new) :
    Inv (wOpenBody o h).1 := by
  have hi' := (inv_write _ hk).mp hi
  obtain ⟨h1, h2, h3, h4, h5, h6, h7, h8, h9, h10, h11⟩ := hi'
  have hc : h.client = false := h10 hs
  have hne : wOpenFilters (h.filters ++ [FSt.new]) o.n ≠ [] := by
    intro e
    have := congrArg List.length e
    rw [wOpenFilters_length] at this
    simp at this
  rw [wOpenBody]
  simp only
  split
  · -- the open failed: filters closed and freed, the handle is still new
    rw [inv_write _ (by simp [hk])]
    simp only [wFreeFilters, wCloseFilters_filters, wCloseFilters_lost, wCloseFilters_client]
    have hne2 : (List.map closeF (wOpenFilters (h.filters ++ [FSt.new]) o.n)).isEmpty = false := by
      cases hh : wOpenFilters (h.filters ++ [FSt.new]) o.n with
      | nil => exact absurd hh hne
      | cons a t => simp
    simp [hne2, openCount_map_closeF, h1, h2, h3, h4, h5, h6, h7, h8, hc, hs, b2n, openCount]
  · rw [inv_write _ (by simp [hk])]
    simp [h1, h2, h3, h4, h5, h6, h7, h8, hc, b2n, hne]

theorem inv_step_write (h : Handle) (op : Op) (o : Outcome) (hk : h.kind = .write) (hi : Inv h)
    (hop : op ≠ .free) (hflag : op = .wHeader → o.flag = false) : Inv (step h op o).1 := by
  have halive : h.alive = true := hi.1
  by_cases hb : op.belongs h.kind = true
  case neg => simp [step, halive, hb]; exact hi
  rw [step_core h op o halive hb]
  rw [hk] at hb
  cases op with
  | plain f => exact inv_plain h f o hi
  | unchecked => exact hi
  | fail => exact inv_fatal h hi
  | free => exact absurd rfl hop
  | wSetFormat f => simp only [stepCore]; exact inv_checked _ _ _ hi (inv_regs h _ hi)
  | wAddFilter f =>
    simp only [stepCore]
    apply inv_checked _ _ _ hi
    rw [inv_write _ (by simpa using hk)]
    have := (inv_write _ hk).mp hi
    simp_all [openCount_append, openCount]
  | wOpen w =>
    have inner : ∀ g : Handle, g.kind = .write → Inv g →
        Inv (checked g "archive_write_open2" (wOpenBody o)).1 := by
      intro g gk gi
      rw [chk_write_archive_write_open2 g _ gk, allowed_1]
      split
      · rename_i hst; exact wOpenBody_inv g o gk gi (by simpa using hst)
      · exact inv_fatal g gi
    cases w with
    | none => simp only [stepCore]; exact inner h hk hi
    | some w => simp only [stepCore]; exact inv_checked _ _ _ hi (inner h hk hi)
  | wHeader =>
    simp only [stepCore]
    exact inv_checked _ _ _ hi (wHeaderBody_inv h o hk hi (hflag rfl))
  | wData => simp only [stepCore]; exact inv_checked _ _ _ hi hi
  | wFinishEntry => simp only [stepCore]; exact (wFinishEntry_inv h _ hk hi).1
  | close => simp only [stepCore, hk]; exact wClose_inv h o hk hi
  | _ => simp [Op.belongs] at hb

theorem free_clean_write (h : Handle) (o : Outcome) (hk : h.kind = .write) (hi : Inv h) :
    Clean (step h .free o).1 := by
  have halive : h.alive = true := hi.1
  rw [step_core h .free o halive rfl]
  simp only [stepCore, hk, wFree, chk_write_archive_write_free h _ hk, allowed_65535, if_true]
  have key : ∀ g : Handle, g.kind = .write → Inv g → openCount g.filters = 0 →
      Clean (relHandle (wFreeFilters (relRegs g))) := by
    intro g gk gi go
    have := (inv_write _ gk).mp gi
    obtain ⟨h1, h2, h3, h4, h5, h6, h7, h8, h9, h10, h11⟩ := this
    rw [clean_iff]
    simp only [wFreeFilters, relHandle, relRegs_client, relRegs_filters, relRegs_lost]
    cases hc : g.client
    · cases hf : g.filters <;> simp_all [relRegs]
    · have := h9 hc
      cases hf : g.filters with
      | nil => exact absurd hf this
      | cons a t => simp_all [relRegs]
  split
  · rename_i hst
    have hnf : ¬ h.st = .fatal := by simpa using hst
    refine key _ (by rw [wClose_kind]; exact hk) (wClose_inv h o hk hi) ?_
    rw [wClose_fst o h hk]
    have := (inv_write _ hk).mp hi
    split
    · rename_i h1; exact this.2.2.2.2.2.2.2.2.2.2 h1
    · simp only [hnf, if_false]
      by_cases hd : h.st = .data <;> simp [hd, openCount_map_closeF]
  · refine key _ (by simpa using hk) (wCloseFilters_inv h hk hi) ?_
    simp [openCount_map_closeF]

/-! all kinds together -/

theorem inv_new (k : Kind) : Inv (new k) := by cases k <;> simp [Inv, new, openCount]

theorem inv_step (h : Handle) (op : Op) (o : Outcome) (hi : Inv h) (hop : op ≠ .free)
    (hflag : op = .wHeader → o.flag = false) : Inv (step h op o).1 := by
  cases hk : h.kind with
  | read => exact inv_step_read h op o hk hi hop
  | write => exact inv_step_write h op o hk hi hop hflag
  | writeDisk => exact inv_step_writeDisk h op o hk hi hop
  | readDisk => exact inv_step_readDisk h op o hk hi hop
  | «match» => exact inv_step_match h op o hk hi hop

theorem free_clean (h : Handle) (o : Outcome) (hi : Inv h) : Clean (step h .free o).1 := by
  cases hk : h.kind with
  | read => exact free_clean_read h o hk hi
  | write => exact free_clean_write h o hk hi
  | writeDisk => exact free_clean_writeDisk h o hk hi
  | readDisk => exact free_clean_readDisk h o hk hi
  | «match» => exact free_clean_match h o hk hi

/-- A freed handle ignores every further call. -/
theorem clean_dead (h : Handle) (hc : Clean h) (op : Op) (o : Outcome) : (step h op o).1 = h := by
  have : h.alive = false := ((clean_iff h).mp hc).1
  simp [step, this]

theorem good_step (h : Handle) (op : Op) (o : Outcome) (hg : Inv h ∨ Clean h)
    (hflag : op = .wHeader → o.flag = false) : Inv (step h op o).1 ∨ Clean (step h op o).1 := by
  rcases hg with hi | hc
  · by_cases hop : op = .free
    · subst hop; exact Or.inr (free_clean h o hi)
    · exact Or.inl (inv_step h op o hi hop hflag)
  · rw [clean_dead h hc]; exact Or.inr hc

/-- Histories in which no `write_header` outcome reports a per-entry compressor
that only the format's `finish_entry` releases (`Outcome.flag`; the zip, 7zip
and xar writers have one). -/
def NoEntryCompressor (hist : List (Op × Outcome)) : Prop :=
  ∀ p ∈ hist, p.1 = .wHeader → p.2.flag = false

theorem good_run (hist : List (Op × Outcome)) :
    ∀ h : Handle, (Inv h ∨ Clean h) → NoEntryCompressor hist → Inv (run h hist).1 ∨ Clean (run h hist).1 := by
  induction hist with
  | nil => intro h hg _; exact hg
  | cons p rest ih =>
    intro h hg hn
    obtain ⟨op, o⟩ := p
    simp only [run]
    apply ih
    · exact good_step h op o hg (hn (op, o) (by simp))
    · intro q hq; exact hn q (by simp [hq])


end LA.Handle
