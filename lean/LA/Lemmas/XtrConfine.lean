/-
Helper lemmas for C04, part 12: Hoare triples over programs, and the assertion
that is kept from the call that starts an entry to the call that finishes it.
-/
import LA.Lemmas.XtrCalls
set_option linter.unusedSimpArgs false
set_option linter.unusedVariables false
namespace LA.Xtr
open LA.FS LA.PathClean

def Triple {α} (P : Proc → Prop) (m : Prog α) (Q : α → Proc → Prop) : Prop :=
  ∀ pr, P pr → Q (m.run pr).1 (m.run pr).2

theorem triple_pure {α} {P : Proc → Prop} {Q : α → Proc → Prop} {a : α} (h : ∀ pr, P pr → Q a pr) :
    Triple P (pure a) Q := fun pr hp => h pr hp

theorem triple_bind {α β} {P : Proc → Prop} {m : Prog α} {Q : α → Proc → Prop} {f : α → Prog β}
    {R : β → Proc → Prop} (h1 : Triple P m Q) (h2 : ∀ a, Triple (Q a) (f a) R) : Triple P (m >>= f) R := by
  intro pr hp
  rw [run_bind']
  exact h2 _ _ (h1 pr hp)

theorem triple_conseq {α} {P P' : Proc → Prop} {m : Prog α} {Q Q' : α → Proc → Prop}
    (hP : ∀ pr, P' pr → P pr) (h : Triple P m Q) (hQ : ∀ a pr, Q a pr → Q' a pr) : Triple P' m Q' :=
  fun pr hp => hQ _ _ (h pr (hP pr hp))

theorem triple_sys {P : Proc → Prop} {s : Sys} {Q : R → Proc → Prop}
    (h : ∀ pr, P pr → Q (exec s pr).1 (exec s pr).2) : Triple P (sys s) Q := by
  intro pr hp; rw [run_sys]; exact h pr hp

theorem triple_of_allCalls {α} {I : Proc → Prop} {C : Sys → Prop} (hC : ∀ s pr, C s → I pr → I (exec s pr).2)
    {m : Prog α} (hm : AllCalls C m) : Triple I m (fun _ => I) := fun pr hp => run_allCalls hC hm hp

theorem triple_ite {α} {P : Proc → Prop} {Q : α → Proc → Prop} {b : Prop} [Decidable b] {m1 m2 : Prog α}
    (h1 : b → Triple P m1 Q) (h2 : ¬ b → Triple P m2 Q) : Triple P (if b then m1 else m2) Q := by
  by_cases h : b
  · simp only [h, if_true]; exact h1 h
  · simp only [h, if_false]; exact h2 h

/-! ### family contexts -/

theorem fam_weaken {q q2 p : List Nat} (h : Fam q p) (hp : initOf q <+: initOf q2) : Fam q2 p := by
  rcases h with h | ⟨hr, hi⟩
  · exact Or.inl h
  · exact Or.inr ⟨hr, List.IsPrefix.trans hi hp⟩

theorem initOf_prefix_qx {q : List Nat} (h : Good q) : initOf q <+: initOf (qx q) := by
  rw [initOf_qx h]; exact List.dropLast_prefix _

theorem famCtx_self {q : List Nat} (h : Good q) : FamCtx q q := ⟨fam_self h, fam_tmp h⟩
theorem famCtx_qx {q : List Nat} (h : Good q) : FamCtx (qx q) q :=
  ⟨fam_weaken (fam_self h) (initOf_prefix_qx h), fam_weaken (fam_tmp h) (initOf_prefix_qx h)⟩

theorem famCtx_dot : FamCtx [DOT] [DOT] := by
  refine ⟨Or.inl rfl, Or.inr ⟨⟨?_, ?_, ?_, ?_⟩, ?_⟩⟩
  · decide
  · decide
  · decide
  · unfold NoDots; decide
  · unfold initOf; decide

theorem anc_fam {q : List Nat} (h : Good q) : ∀ p, Anc q p → Fam q p := by
  intro p hp
  rcases hp with rfl | ⟨rest, hr⟩
  · exact fam_self h
  · exact fam_prefix h hr

theorem anc_fam_qx {q : List Nat} (h : Good q) : ∀ p, Anc q p → Fam (qx q) p :=
  fun p hp => fam_weaken (anc_fam h p hp) (initOf_prefix_qx h)

theorem anc_fam_dot : ∀ p, Anc [DOT] p → Fam [DOT] p := by
  intro p hp
  rcases hp with rfl | ⟨rest, hr⟩
  · exact Or.inl rfl
  · exfalso
    have : SLASH ∈ ([DOT] : List Nat) := by rw [hr]; simp
    simp at this

def NameOK (name : List Nat) : Prop := name = [DOT] ∨ Good name

/-- No component of `name`, the last one included, is a symlink (trivially so for "."). -/
def Full (c : Ctx) (name : List Nat) (pr : Proc) : Prop := name = [DOT] ∨ (Good name ∧ Sem c (qx name) pr)

/-- `finish_entry` will call `chmod(name)`, which follows a final symlink. -/
def CN (e : Entry) (es : ES) : Prop :=
  es.todoMode = true ∧ es.hasFd = false ∧ e.kind ≠ .symlink ∧ e.isDir = false

/-- The strongest family a plain entry keeps: `qx name`, or "." itself. -/
def famOf (name : List Nat) : List Nat := if name = [DOT] then [DOT] else qx name

theorem famCtx_famOf {name : List Nat} (h : NameOK name) : FamCtx (famOf name) name := by
  unfold famOf
  rcases h with rfl | h
  · simp only [if_true]; exact famCtx_dot
  · by_cases hd : name = [DOT]
    · subst hd; simp only [if_true]; exact famCtx_dot
    · simp only [hd, if_false]; exact famCtx_qx h

theorem anc_famOf {name : List Nat} (h : NameOK name) : ∀ p, Anc name p → Fam (famOf name) p := by
  unfold famOf
  rcases h with rfl | h
  · simp only [if_true]; exact anc_fam_dot
  · by_cases hd : name = [DOT]
    · subst hd; simp only [if_true]; exact anc_fam_dot
    · simp only [hd, if_false]; exact anc_fam_qx h

theorem famCtx_name {name : List Nat} (h : NameOK name) : FamCtx name name := by
  rcases h with rfl | h
  · exact famCtx_dot
  · exact famCtx_self h

theorem anc_name {name : List Nat} (h : NameOK name) : ∀ p, Anc name p → Fam name p := by
  rcases h with rfl | h
  · exact anc_fam_dot
  · exact anc_fam h

/-- `Sem` for the family of a plain entry is what `Full` says (plus `Sem c name`). -/
theorem sem_famOf_iff {c : Ctx} {name : List Nat} {pr : Proc} (h : NameOK name) :
    Sem c (famOf name) pr ↔ (Sem c name pr ∧ Full c name pr) := by
  unfold famOf Full
  by_cases hd : name = [DOT]
  · subst hd; simp
  · have hg : Good name := by rcases h with h | h; exact absurd h hd; exact h
    simp only [hd, if_false, false_or]
    constructor
    · intro hs; exact ⟨sem_of_full hg hs, hg, hs⟩
    · intro hs; exact hs.2.2

theorem restore_spec_plain (c : Ctx) (fl : XFlags) (um : Nat) (e : Entry) (name : List Nat) (hn : NameOK name)
    (hk : e.kind = .file ∨ e.kind = .dir ∨ e.kind = .fifo) (es : ES) :
    Triple (fun pr => Sem c name pr ∧ Full c name pr) (restoreEntry fl um e name es)
      (fun r pr' => Sem c name pr' ∧ (CN e r.2 → Full c name pr')) := by
  have hall : AllCalls (QCall (famOf name)) (restoreEntry fl um e name es) :=
    allCalls_restoreEntry _ name (famCtx_famOf hn) fl um e
      (fun es' => allCalls_createObject_plain _ name (famCtx_famOf hn) fl um e es' hk)
      (allCalls_createParentDir _ name (anc_famOf hn) fl um) es
  have := triple_of_allCalls (I := Sem c (famOf name)) (fun s pr hq hS => sem_exec hS s hq) hall
  exact triple_conseq (fun pr hp => (sem_famOf_iff hn).mpr hp) this
    (fun a pr hq => ⟨((sem_famOf_iff hn).mp hq).1, fun _ => ((sem_famOf_iff hn).mp hq).2⟩)

theorem restore_spec_symlink (c : Ctx) (fl : XFlags) (um : Nat) (e : Entry) (name : List Nat) (hn : NameOK name)
    (hk : e.kind = .symlink) (es : ES) :
    Triple (fun pr => Sem c name pr ∧ Full c name pr) (restoreEntry fl um e name es)
      (fun r pr' => Sem c name pr' ∧ (CN e r.2 → Full c name pr')) := by
  have hall : AllCalls (QCall name) (restoreEntry fl um e name es) :=
    allCalls_restoreEntry _ name (famCtx_name hn) fl um e
      (fun es' => allCalls_createObject_symlink name (famCtx_name hn) fl um e es' hk)
      (allCalls_createParentDir _ name (anc_name hn) fl um) es
  have := triple_of_allCalls (I := Sem c name) (fun s pr hq hS => sem_exec hS s hq) hall
  exact triple_conseq (fun pr hp => hp.1) this
    (fun a pr hq => ⟨hq, fun hcn => absurd hk hcn.2.2.1⟩)


/-- Assertion carried through the restore of a hard-link entry: `chmod(name)` is
only due while no component of `name` is a symlink. -/
def HL (c : Ctx) (name : List Nat) (e : Entry) (es : ES) (pr : Proc) : Prop :=
  Sem c name pr ∧ (CN e es → Sem c (famOf name) pr)

theorem hl_exec {c : Ctx} {name : List Nat} {e : Entry} {es : ES} {pr : Proc} {s : Sys}
    (h1 : QCall name s) (h2 : QCall (famOf name) s) (h : HL c name e es pr) : HL c name e es (exec s pr).2 :=
  ⟨sem_exec h.1 s h1, fun hcn => sem_exec (h.2 hcn) s h2⟩

theorem hl_allCalls {α} {c : Ctx} {name : List Nat} {e : Entry} {es : ES} {m : Prog α}
    (h1 : AllCalls (QCall name) m) (h2 : AllCalls (QCall (famOf name)) m) :
    Triple (HL c name e es) m (fun _ => HL c name e es) := by
  intro pr hp
  exact ⟨run_allCalls (I := Sem c name) (fun s pr hq hS => sem_exec hS s hq) h1 hp.1,
    fun hcn => run_allCalls (I := Sem c (famOf name)) (fun s pr hq hS => sem_exec hS s hq) h2 (hp.2 hcn)⟩

theorem hl_mono {c : Ctx} {name : List Nat} {e : Entry} {es es' : ES} {pr : Proc} (h : HL c name e es pr)
    (hm : CN e es' → CN e es) : HL c name e es' pr := ⟨h.1, fun hcn => h.2 (hm hcn)⟩

theorem exec_link_err (o n : List Nat) (pr : Proc) :
    (exec (.link o n) pr).1 = .ok ∨ ((exec (.link o n) pr).2 = pr ∧ ∃ e, (exec (.link o n) pr).1 = .err e) := by
  simp only [exec]
  repeat' split
  all_goals first | exact Or.inl rfl | exact Or.inr ⟨rfl, _, rfl⟩

/-- `unlink(p)` on a family path removes an entry inside the target: every `Sem` fact survives. -/
theorem doUnlink_keeps_any {c : Ctx} {q p : List Nat} {pr : Proc} (hS : Sem c q pr) (hF : Fam q p) :
    ∀ q2, Sem c q2 pr → Sem c q2 (doUnlink pr pr.cwd p).2 := by
  intro q2 hS2
  unfold doUnlink
  split
  · exact hS2
  · exact hS2
  · rename_i d n hl
    rcases locate_fam hS hF hl with ⟨_, hloc⟩ | ⟨r, n', hloc, hpre, hcomps⟩
    · simp at hloc
    · simp only [Loc.entry.injEq] at hloc
      obtain ⟨rfl, rfl⟩ := hloc
      split
      · exact hS2
      · exact hS2
      · exact sem_delAt hS2 r n


/-- The flags of the property: SECURE_SYMLINKS | SECURE_NODOTDOT | SECURE_NOABSOLUTEPATHS. -/
def SecureFlags (fl : XFlags) : Prop := fl.secureSymlinks = true ∧ fl.nodotdot = true ∧ fl.noabs = true

theorem clean_secure {fl : XFlags} (h : SecureFlags fl) : fl.clean = { nodotdot := true, noabs := true } := by
  unfold XFlags.clean; rw [h.2.1, h.2.2]

theorem nameOK_of_cleanup {p q : List Nat} (hn : ∀ x ∈ p, x ≠ 0)
    (h : cleanup { nodotdot := true, noabs := true } p = .ok q) : NameOK q := by
  obtain ⟨_, _, _, hr⟩ := cleanup_rel hn h
  rcases hr with ⟨h1, _⟩ | ⟨h1, _⟩
  · exact Or.inl h1
  · exact Or.inr h1

/-- The link part of the hard-link branch: `link(e.link, name)` after the link name was checked. -/
theorem link_step (c : Ctx) (e : Entry) (name lc : List Nat) (hn : NameOK name) (es : ES)
    (hnf : ∀ x ∈ e.link, x ≠ 0) (hcl : cleanup { nodotdot := true, noabs := true } e.link = .ok lc) :
    Triple (fun pr => HL c name e es pr ∧ (Good lc → NoLinkAt pr.fs c.T (initOf lc)))
      (do
        let r ← sys (Sys.link e.link name)
        match errOf r with
          | some en => pure (some en, es)
          | none => pure (none, { es with todoMode := false, todoTimes := false, defMode := false, defTimes := false }))
      (fun r pr' => HL c name e r.2 pr') := by
  refine triple_bind (Q := fun r pr' => (errOf r = none → Sem c name pr') ∧ (errOf r ≠ none → HL c name e es pr')) ?_ ?_
  · refine triple_sys ?_
    intro pr hp
    have hS := sem_exec_link hp.1.1 (famCtx_name hn).self hnf hcl hp.2
    rcases exec_link_err e.link name pr with hok | ⟨hsame, en, herr⟩
    · rw [hok]; exact ⟨fun _ => hS, fun h => absurd rfl h⟩
    · rw [herr]; exact ⟨fun h => by simp [errOf] at h, fun _ => by rw [hsame]; exact hp.1⟩
  · intro r
    cases hr : errOf r with
    | some en => exact triple_pure (fun pr hp => hp.2 (by simp))
    | none =>
      exact triple_pure (fun pr hp => ⟨hp.1 rfl, fun hcn => by simp [CN] at hcn⟩)

theorem not_good_dot : ¬ Good [DOT] := by
  intro h
  exact (h [DOT] (by decide)).2.1 rfl

theorem triple_sys_keep {P : Proc → Prop} {s : Sys} (h : ∀ pr, P pr → P (exec s pr).2) :
    Triple P (sys s) (fun _ => P) := triple_sys h

theorem hl_sys {c : Ctx} {name : List Nat} {e : Entry} {es : ES} {s : Sys}
    (h1 : QCall name s) (h2 : QCall (famOf name) s) : Triple (HL c name e es) (sys s) (fun _ => HL c name e es) :=
  triple_sys_keep (fun pr hp => hl_exec h1 h2 hp)

/-- What a successful `locate` of a relative dot-free path went through. -/
theorem locate_entry_facts {fs : FS} {base : List Name} {p : List Nat} (hr : Rel p) {d : List Name} {n : Name}
    (h : locate fs base p = .ok (.entry d n)) :
    walk fs maxLinks base (initOf p) = .ok d ∧ (∃ t, get fs.root d = some t ∧ t.isDir = true) ∧
    ¬ n.length > nameMax ∧ compsOf p = initOf p ++ [n] := by
  replace h := (locate_ok h).1
  unfold locate0 at h
  simp only [hr.ne_nil, if_false, hr.notAbs, Bool.false_eq_true] at h
  cases hl : (compsOf p).getLast? with
  | none => exact absurd (List.getLast?_eq_none_iff.mp hl) hr.ne
  | some last =>
    have hmem : last ∈ compsOf p := List.mem_of_getLast? hl
    have hnd := hr.noDots last hmem
    have hcond : ¬ (last = DOTN ∨ last = DOTDOTN ∨ trailingSlash p = true) := by
      simp [hnd.1, hnd.2, hr.noTrail]
    simp only [hl, if_neg hcond] at h
    have hsplit : compsOf p = initOf p ++ [last] := dropLast_getLast? _ _ hl
    split at h
    · simp at h
    · rename_i d' hw
      split at h
      · rename_i m mt es hg
        split at h
        · simp at h
        · rename_i hlen
          simp only [Except.ok.injEq, Loc.entry.injEq] at h
          obtain ⟨rfl, rfl⟩ := h
          exact ⟨hw, ⟨_, hg, rfl⟩, hlen, hsplit⟩
      · simp at h
      · simp at h

/-- `lstat(name)` right after `name` was made a link to inode `i`. -/
theorem lstat_after_put {c : Ctx} {name : List Nat} {pr : Proc} (hS : Sem c name pr) (hg : Good name)
    {r : List Name} {n : Name} (i : Nat)
    (hl : locate pr.fs pr.cwd name = .ok (.entry (c.T ++ r) n)) :
    lookupNoFollow (putAt pr.fs (c.T ++ r) n (.file i)) pr.cwd name = .ok (c.T ++ r ++ [n], .file i) := by
  have hr := rel_good hg
  obtain ⟨hw, ⟨tD, hD, hDd⟩, hlen, hsplit⟩ := locate_entry_facts hr hl
  obtain ⟨tT, hT, hTd⟩ := hS.inv.tdir
  rw [hS.inv.cwd] at hw hl ⊢
  have hndi : NoDots (initOf name) := fun x hx => hr.noDots x (by rw [hsplit]; simp [hx])
  have hreq : c.T ++ r = c.T ++ initOf name :=
    (walk_noLink pr.fs maxLinks (initOf name) c.T tT hndi hT (hS.nl tT hT) _ hw)
  have hr2 : r = initOf name := List.append_cancel_left hreq
  subst hr2
  have hlenok := walk_ok_len pr.fs maxLinks (initOf name) c.T tT hndi hT (hS.nl tT hT) _ hw
  -- the directory that holds `n` in the new tree
  have hD' : get (putAt pr.fs (c.T ++ initOf name) n (.file i)).root (c.T ++ initOf name)
      = some ((tD.put n (.file i)).touch) := by
    simp only [putAt]; rw [get_modify_same, hD]; rfl
  have hw' : walk (putAt pr.fs (c.T ++ initOf name) n (.file i)) maxLinks c.T (initOf name)
      = .ok (c.T ++ initOf name) :=
    walk_chain _ maxLinks (initOf name) c.T hndi hlenok ⟨_, hD', by simpa using hDd⟩
  unfold lookupNoFollow
  rw [locate_of_lt (locate_ok hl).2]
  unfold locate0
  have hlast : (compsOf name).getLast? = some n := by rw [hsplit]; simp
  have hmem : n ∈ compsOf name := by rw [hsplit]; simp
  have hnd := hr.noDots n hmem
  have hcond : ¬ (n = DOTN ∨ n = DOTDOTN ∨ trailingSlash name = true) := by simp [hnd.1, hnd.2, hr.noTrail]
  simp only [hr.ne_nil, if_false, hr.notAbs, Bool.false_eq_true, hlast, if_neg hcond]
  have hdl : (compsOf name).dropLast = initOf name := rfl
  rw [hdl, hw']
  simp only [hD']
  cases tD with
  | file j => simp [Tree.isDir] at hDd
  | dir m mt es =>
    simp only [Tree.put, Tree.touch, hlen, if_false]
    rw [hD']
    simp only [Tree.put, Tree.touch, Option.bind_some, Tree.child, alGet_alSet, if_true]


/-- Outcome of `linkat(e.link, name)` for the program that follows it. -/
def LinkPost (c : Ctx) (name : List Nat) (e : Entry) (es : ES) (r : R) (pr1 : Proc) : Prop :=
  (errOf r ≠ none → HL c name e es pr1) ∧
  (errOf r = none → Sem c name pr1 ∧ ∃ i p, lookupNoFollow pr1.fs pr1.cwd name = .ok (p, .file i) ∧
    (isLnk pr1.fs (.file i) = false → CN e es → Sem c (famOf name) pr1))

theorem famOf_good {name : List Nat} (hg : Good name) : famOf name = qx name := by
  unfold famOf
  have : name ≠ [DOT] := fun h => not_good_dot (h ▸ hg)
  simp [this]

theorem link_post (c : Ctx) (e : Entry) (name lc : List Nat) (hn : NameOK name) (es : ES)
    (hnf : ∀ x ∈ e.link, x ≠ 0) (hcl : cleanup { nodotdot := true, noabs := true } e.link = .ok lc) :
    Triple (fun pr => HL c name e es pr ∧ (Good lc → NoLinkAt pr.fs c.T (initOf lc)))
      (sys (Sys.link e.link name)) (LinkPost c name e es) := by
  refine triple_sys ?_
  intro pr hp
  have hS := hp.1.1
  have hF := (famCtx_name hn).self
  have hfail : ∀ en, LinkPost c name e es (.err en) pr :=
    fun en => ⟨fun _ => hp.1, fun h => by simp [errOf] at h⟩
  simp only [exec]
  split
  · exact hfail _
  · rename_i pos src hlk
    split
    · exact hfail _
    · exact hfail _
    · rename_i d n hl
      rcases locate_fam hS hF hl with ⟨_, hloc⟩ | ⟨r, n', hloc, _, hcomps⟩
      · simp at hloc
      simp only [Loc.entry.injEq] at hloc
      obtain ⟨rfl, rfl⟩ := hloc
      split
      · exact hfail _
      · split
        · exact hfail _
        · rename_i i
          have hg : Good name := by
            rcases hn with rfl | h
            · -- "." is located as an object, not as an entry
              exfalso
              rcases locate_fam hS (Or.inl rfl) hl with ⟨_, hloc⟩ | ⟨r', n', hloc, _, hc'⟩
              · simp at hloc
              · have e1 : compsOf [DOT] = [DOTN] := by decide
                rw [e1] at hc' hcomps
                have : ∀ (x : Name), x ∈ r ++ [n] → x = DOTN := by
                  intro x hx; rw [← hcomps] at hx; simpa using hx
                have hn' := this n (by simp)
                -- then `locate` would have taken the "." branch
                replace hl := (locate_ok hl).1
                unfold locate0 at hl
                simp only [show ([DOT] : List Nat) ≠ [] by decide, if_false, e1, List.getLast?_singleton, true_or,
                  if_true] at hl
                split at hl
                · simp at hl
                · split at hl <;> simp at hl
            · exact h
          obtain ⟨hin, hlt⟩ := lookup_raw_inside hS hnf hcl hp.2 hlk
          have hnotpre : ¬ (r ++ [n]) <+: initOf name := by
            have : initOf name = r := by unfold initOf; rw [hcomps]; simp
            rw [this]; exact not_prefix_snoc r n
          refine ⟨fun h => absurd rfl h, fun _ => ⟨?_, i, c.T ++ r ++ [n], ?_, ?_⟩⟩
          · exact sem_putAt hS r n (.file i) (refsIn_file hin) (refsIn_file hlt) (Or.inr hnotpre)
          · exact lstat_after_put hS hg i hl
          · intro hnl hcn
            have hS2 := hp.1.2 hcn
            exact sem_putAt hS2 r n (.file i) (refsIn_file hin) (refsIn_file hlt)
              (Or.inl ⟨fun hd => by simp [Tree.isDir] at hd, fun _ => by
                rw [isLnk_setRoot] at hnl; exact hnl⟩)


/-- What follows `linkat` in the hard-link branch of `create_filesystem_object`. -/
theorem link_tail (c : Ctx) (e : Entry) (name : List Nat) (hn : NameOK name) (es : ES) (r : R) :
    Triple (LinkPost c name e es r)
      (match errOf r with
        | some en => pure (some en, es)
        | none =>
          if e.filesize = 0 then
            pure (none, { es with todoMode := false, todoTimes := false, defMode := false, defTimes := false })
          else do
            let r2 ← sys (.lstat name)
            match r2 with
            | .st ⟨.reg, _⟩ => do
              let r3 ← sys (.openTrunc name)
              match errOf r3 with
              | some en => pure (some en, es)
              | none => pure (none, { es with hasFd := true })
            | .st _ => pure (none, { es with todoMode := false, todoTimes := false, defMode := false, defTimes := false })
            | .err en => pure (some en, es)
            | _ => pure (some .EIO, es) : Prog (Option Err × ES))
      (fun x pr' => HL c name e x.2 pr') := by
  have hF1 := famCtx_name hn
  have hF2 := famCtx_famOf hn
  cases hr : errOf r with
  | some en => exact triple_pure (fun pr hp => hp.1 (by rw [hr]; simp))
  | none =>
    simp only []
    refine triple_ite (fun _ => triple_pure (fun pr hp => ⟨(hp.2 hr).1, fun hcn => by simp [CN] at hcn⟩)) (fun _ => ?_)
    intro pr1 hp
    obtain ⟨hS, i, p, hlook, hfull⟩ := hp.2 hr
    rw [run_bind', run_sys]
    simp only [exec, hlook, statR, statOfTree]
    cases hf : pr1.fs.files i with
    | none =>
      simp only [run_pure]
      exact ⟨hS, fun hcn => hfull (by simp [isLnk, hf]) hcn⟩
    | some nd =>
      cases nd with
      | lnk tg => simp only [run_pure]; exact ⟨hS, fun hcn => by simp [CN] at hcn⟩
      | fifo m mt => simp only [run_pure]; exact ⟨hS, fun hcn => by simp [CN] at hcn⟩
      | reg d m mt =>
        simp only []
        have hHL : HL c name e es pr1 := ⟨hS, fun hcn => hfull (by simp [isLnk, hf]) hcn⟩
        have := triple_bind (hl_sys (c := c) (e := e) (es := es) (s := .openTrunc name) hF1.self hF2.self)
          (f := fun r3 => (match errOf r3 with
              | some en => pure (some en, es)
              | none => pure (none, { es with hasFd := true }) : Prog (Option Err × ES)))
          (R := fun x pr' => HL c name e x.2 pr')
          (fun r3 => by
            cases errOf r3 with
            | some en => exact triple_pure (fun _ h => h)
            | none => exact triple_pure (fun _ h => hl_mono h (fun hcn => by simp [CN] at hcn)))
        exact this pr1 hHL


theorem createObject_hl (c : Ctx) (fl : XFlags) (hfl : SecureFlags fl) (um : Nat) (e : Entry) (name : List Nat)
    (hn : NameOK name) (hk : e.kind = .hardlink) (hnf : ∀ x ∈ e.link, x ≠ 0) (es : ES) :
    Triple (HL c name e es) (createObject fl um e name es) (fun r pr' => HL c name e r.2 pr') := by
  unfold createObject
  simp only [hk]
  rw [clean_secure hfl]
  cases hcl : cleanup { nodotdot := true, noabs := true } e.link with
  | failed w => exact triple_pure (fun pr hp => hp)
  | oob => exact triple_pure (fun pr hp => hp)
  | ok lc =>
    have hlc : NameOK lc := nameOK_of_cleanup hnf hcl
    simp only []
    refine triple_bind
      (Q := fun r pr' => HL c name e es pr' ∧ (r = .ok → Good lc → NoLinkAt pr'.fs c.T (initOf lc))) ?_ ?_
    · intro pr hp
      rcases hlc with rfl | hg
      · have hk := checkSymlinks_dot c fl true pr
        exact ⟨⟨hk _ hp.1, fun hcn => hk _ (hp.2 hcn)⟩, fun _ hg => absurd hg not_good_dot⟩
      · obtain ⟨hkeep, hsound⟩ := checkSymlinks_spec c fl hfl.1 true lc hg pr
        refine ⟨⟨hkeep _ hp.1, fun hcn => hkeep _ (hp.2 hcn)⟩, fun hr _ => ?_⟩
        have := hsound hr
        rw [hp.1.inv.cwd] at this
        simpa [loopTarget, initOf] using this
    · intro r
      refine triple_ite (fun _ => triple_pure (fun pr hp => hp.1)) (fun hr => ?_)
      have hrok : r = .ok := by simpa using hr
      subst hrok
      have hstep := triple_bind (link_post c e name lc hn es hnf hcl) (fun r => link_tail c e name hn es r)
      refine triple_ite (fun _ => ?_) (fun _ => ?_)
      · refine triple_bind (Q := fun _ pr' => HL c name e es pr' ∧ (Good lc → NoLinkAt pr'.fs c.T (initOf lc))) ?_
          (fun _ => hstep)
        refine triple_sys ?_
        intro pr hp
        have hF1 : QCall name (Sys.unlink name) := (famCtx_name hn).self
        have hF2 : QCall (famOf name) (Sys.unlink name) := (famCtx_famOf hn).self
        refine ⟨hl_exec hF1 hF2 hp.1, fun hg => ?_⟩
        have hSlc : Sem c lc pr := ⟨hp.1.1.inv, hp.1.1.wf, hp.2 rfl hg⟩
        exact (doUnlink_keeps_any hp.1.1 (famCtx_name hn).self lc hSlc).nl
      · exact triple_conseq (fun pr hp => ⟨hp.1, hp.2 rfl⟩) hstep (fun _ _ h => h)

/-- `restore_entry` for a hard-link entry, given what `create_filesystem_object` guarantees. -/
theorem restore_hl (c : Ctx) (fl : XFlags) (um : Nat) (e : Entry) (name : List Nat) (hn : NameOK name)
    (hk : e.kind = .hardlink)
    (hco : ∀ es, Triple (HL c name e es) (createObject fl um e name es) (fun r pr' => HL c name e r.2 pr'))
    (es : ES) :
    Triple (HL c name e es) (restoreEntry fl um e name es) (fun r pr' => HL c name e r.2 pr') := by
  have hF1 := famCtx_name hn
  have hF2 := famCtx_famOf hn
  have hcp : ∀ es, Triple (HL c name e es) (createParentDir fl um name) (fun _ => HL c name e es) :=
    fun es => hl_allCalls (allCalls_createParentDir _ name (anc_name hn) fl um)
      (allCalls_createParentDir _ name (anc_famOf hn) fl um)
  have hunl : ∀ es, Triple (HL c name e es) (sys (Sys.unlink name)) (fun _ => HL c name e es) :=
    fun es => hl_sys hF1.self hF2.self
  have hrmd : ∀ es, Triple (HL c name e es) (sys (Sys.rmdir name)) (fun _ => HL c name e es) :=
    fun es => hl_sys hF1.self hF2.self
  have hcoPure : ∀ es, Triple (HL c name e es)
      (do let x ← createObject fl um e name es; pure ((none : Option St), x.1, x.2))
      (fun r pr' => HL c name e r.2.2 pr') :=
    fun es => triple_bind (hco es) (fun x => triple_pure (fun pr hp => hp))
  unfold restoreEntry
  have hdir : e.isDir = false := by simp [Entry.isDir, hk]
  simp only [hdir, hk]
  refine triple_bind (Q := fun _ pr' => HL c name e es pr') ?_ ?_
  · refine triple_ite (fun _ => ?_) (fun _ => triple_pure (fun _ hp => hp))
    refine triple_bind (hunl es) (fun r => ?_)
    split
    · exact triple_pure (fun _ hp => hp)
    · refine triple_bind (hrmd es) (fun r2 => ?_)
      split <;> exact triple_pure (fun _ hp => hp)
    · exact triple_pure (fun _ hp => hp)
  · intro b
    refine triple_ite (fun _ => triple_pure (fun _ hp => hp)) (fun _ => ?_)
    refine triple_bind (hco es) (fun x1 => ?_)
    refine triple_bind (Q := fun x pr' => HL c name e x.2 pr') ?_ ?_
    · refine triple_ite (fun _ => ?_) (fun _ => triple_pure (fun _ hp => hp))
      refine triple_bind (hcp x1.2) (fun x2 => ?_)
      exact triple_conseq (P := HL c name e { x1.2 with fix := x2.2 ++ x1.2.fix })
        (fun pr hp => hl_mono hp (fun h => h)) (hco _) (fun _ _ h => h)
    · intro x3
      refine triple_ite (fun _ => triple_pure (fun _ hp => hp)) (fun _ => ?_)
      refine triple_ite (fun _ => triple_pure (fun _ hp => by simpa using hp)) (fun _ => ?_)
      refine triple_bind (Q := fun x pr' => HL c name e x.2.2 pr') ?_ ?_
      · refine triple_ite (fun _ => ?_) (fun _ => ?_)
        · refine triple_bind (hrmd x3.2) (fun r => ?_)
          split
          · exact triple_pure (fun _ hp => hp)
          · exact hcoPure x3.2
        · refine triple_ite (fun _ => ?_) (fun _ => triple_pure (fun _ hp => hp))
          simp only [Bool.false_eq_true, if_false]
          refine triple_bind (Q := fun _ pr' => HL c name e x3.2 pr') (triple_pure (fun _ hp => hp)) (fun r1 => ?_)
          refine triple_bind (Q := fun _ pr' => HL c name e x3.2 pr') ?_ (fun r => ?_)
          · split
            · exact triple_pure (fun _ hp => hp)
            · exact hl_sys trivial trivial
          · split
            · rename_i s
              refine triple_ite (fun _ => ?_) (fun _ => ?_)
              · refine triple_ite (fun _ => ?_) (fun _ => ?_)
                · refine triple_bind (hl_sys (es := x3.2) hF1.tmp hF2.tmp) (fun r2 => ?_)
                  split
                  · exact triple_pure (fun _ hp => hp)
                  · exact triple_pure (fun _ hp => hl_mono hp (fun h => by simp [CN] at h))
                · refine triple_bind (hunl x3.2) (fun r2 => ?_)
                  split
                  · exact triple_pure (fun _ hp => hp)
                  · exact hcoPure x3.2
              · simp only [Bool.not_false, if_true]
                refine triple_bind (hrmd x3.2) (fun r2 => ?_)
                split
                · exact triple_pure (fun _ hp => hp)
                · exact hcoPure x3.2
            · exact triple_pure (fun _ hp => hp)
      · intro x4
        split
        · exact triple_pure (fun _ hp => hp)
        · split <;> exact triple_pure (fun _ hp => hp)


theorem restore_spec_hardlink (c : Ctx) (fl : XFlags) (hfl : SecureFlags fl) (um : Nat) (e : Entry)
    (name : List Nat) (hn : NameOK name) (hk : e.kind = .hardlink)
    (hnf : ∀ x ∈ e.link, x ≠ 0) (es : ES) :
    Triple (fun pr => Sem c name pr ∧ Full c name pr) (restoreEntry fl um e name es)
      (fun r pr' => Sem c name pr' ∧ (CN e r.2 → Full c name pr')) := by
  have := restore_hl c fl um e name hn hk (fun es' => createObject_hl c fl hfl um e name hn hk hnf es') es
  exact triple_conseq (fun pr hp => ⟨hp.1, fun _ => (sem_famOf_iff hn).mpr hp⟩) this
    (fun r pr hq => ⟨hq.1, fun hcn => ((sem_famOf_iff hn).mp (hq.2 hcn)).2⟩)

theorem restore_spec (c : Ctx) (fl : XFlags) (hfl : SecureFlags fl) (um : Nat) (e : Entry)
    (name : List Nat) (hn : NameOK name) (hnf : ∀ x ∈ e.link, x ≠ 0) (es : ES) :
    Triple (fun pr => Sem c name pr ∧ Full c name pr) (restoreEntry fl um e name es)
      (fun r pr' => Sem c name pr' ∧ (CN e r.2 → Full c name pr')) := by
  cases hk : e.kind with
  | file => exact restore_spec_plain c fl um e name hn (Or.inl hk) es
  | dir => exact restore_spec_plain c fl um e name hn (Or.inr (Or.inl hk)) es
  | fifo => exact restore_spec_plain c fl um e name hn (Or.inr (Or.inr hk)) es
  | symlink => exact restore_spec_symlink c fl um e name hn hk es
  | hardlink => exact restore_spec_hardlink c fl hfl um e name hn hk hnf es

/-- `chmod(name)` when `Full` holds. -/
theorem sem_exec_chmod_full {c : Ctx} {name : List Nat} {pr : Proc} (hS : Sem c name pr) (hF : Full c name pr)
    (m : Nat) : Sem c name (exec (.chmod name m) pr).2 := by
  rcases hF with rfl | ⟨hg, hfull⟩
  · exact sem_exec_chmod_dot hS m
  · have := hfull.nl
    rw [initOf_qx hg] at this
    exact sem_exec_chmod hS hg this m

/-- `_archive_write_disk_finish_entry`. -/
theorem finishEntry_spec (c : Ctx) (w : Writer) :
    Triple (fun pr => Sem c [] pr ∧ match w.cur with
        | none => True
        | some (e, name, es) => NameOK name ∧ Sem c name pr ∧ (CN e es → Full c name pr))
      (finishEntry w) (fun r pr' => Sem c [] pr' ∧ r.2.cur = none ∧ r.2.flags = w.flags ∧ r.2.fixups = w.fixups) := by
  unfold finishEntry
  cases hcur : w.cur with
  | none => exact triple_pure (fun pr hp => ⟨hp.1, hcur, rfl, rfl⟩)
  | some x =>
    obtain ⟨e, name, es⟩ := x
    simp only []
    by_cases hn : NameOK name
    rotate_left
    · intro pr hp; exact absurd hp.2.1 hn
    have hF := famCtx_name hn
    have hq : ∀ s, QCall name s → Triple (fun pr => Sem c name pr) (sys s) (fun _ pr => Sem c name pr) :=
      fun s h => triple_sys_keep (fun pr hp => sem_exec hp s h)
    refine triple_conseq (P := fun pr => Sem c name pr ∧ (CN e es → Full c name pr))
      (Q := fun r pr' => Sem c name pr' ∧ r.2.cur = none ∧ r.2.flags = w.flags ∧ r.2.fixups = w.fixups)
      (fun pr hp => ⟨hp.2.2.1, hp.2.2.2⟩) ?_ (fun r pr hq => ⟨sem_base hq.1, hq.2⟩)
    refine triple_bind (Q := fun _ pr' => Sem c name pr') ?_ (fun r1 => ?_)
    · -- set_mode
      refine triple_ite (fun htm => ?_) (fun _ => triple_pure (fun _ hp => hp.1))
      refine triple_ite (fun _ => ?_) (fun hks => ?_)
      · refine triple_bind (triple_conseq (fun pr hp => hp.1) (hq _ hF.self) (fun _ _ h => h)) (fun r => ?_)
        split <;> exact triple_pure (fun _ hp => hp)
      · refine triple_ite (fun hnd => ?_) (fun _ => triple_pure (fun _ hp => hp.1))
        refine triple_bind (Q := fun _ pr' => Sem c name pr') ?_ (fun r => ?_)
        · refine triple_ite (fun _ => triple_conseq (fun pr hp => hp.1) (hq _ trivial) (fun _ _ h => h)) (fun hfd => ?_)
          refine triple_sys ?_
          intro pr hp
          have hcn : CN e es := ⟨htm, by simpa using hfd, hks, by simpa using hnd⟩
          exact sem_exec_chmod_full hp.1 (hp.2 hcn) _
        · split <;> exact triple_pure (fun _ hp => hp)
    · refine triple_bind (Q := fun _ pr' => Sem c name pr') ?_ (fun r2 => ?_)
      · -- set_times
        refine triple_ite (fun _ => ?_) (fun _ => triple_pure (fun _ hp => hp))
        refine triple_bind (Q := fun _ pr' => Sem c name pr') ?_ (fun r => ?_)
        · exact triple_ite (fun _ => hq _ trivial) (fun _ => hq _ hF.self)
        · split <;> exact triple_pure (fun _ hp => hp)
      · refine triple_bind (Q := fun _ pr' => Sem c name pr') ?_
          (fun ret => triple_pure (fun _ hp => ⟨hp, rfl, rfl, rfl⟩))
        refine triple_ite (fun _ => ?_) (fun _ => triple_pure (fun _ hp => hp))
        refine triple_bind (hq _ trivial) (fun _ => ?_)
        refine triple_ite (fun _ => ?_) (fun _ => triple_pure (fun _ hp => hp))
        refine triple_bind (hq _ ⟨rfl, hF.self, hF.tmp⟩) (fun r => ?_)
        split
        · exact triple_bind (hq _ hF.tmp) (fun _ => triple_pure (fun _ hp => hp))
        · exact triple_pure (fun _ hp => hp)


/-- Every value the program can return (whatever the calls return) satisfies `P`. -/
def AllRets {α : Type} (P : α → Prop) : Prog α → Prop
  | .ret a => P a
  | .call _ k => ∀ r, AllRets P (k r)

theorem allRets_bind {α β} {Q : α → Prop} {P : β → Prop} {m : Prog α} {f : α → Prog β}
    (hm : AllRets Q m) (hf : ∀ a, Q a → AllRets P (f a)) : AllRets P (m >>= f) := by
  induction m with
  | ret a => exact hf a hm
  | call s k ih => exact fun r => ih r (hm r)

theorem allRets_any {α β} {P : β → Prop} (m : Prog α) {f : α → Prog β}
    (hf : ∀ a, AllRets P (f a)) : AllRets P (m >>= f) := by
  induction m with
  | ret a => exact hf a
  | call s k ih => exact fun r => ih r

theorem allRets_pure {α} {P : α → Prop} {a : α} (h : P a) : AllRets P (pure a : Prog α) := h

theorem run_allRets {α} {P : α → Prop} {m : Prog α} (h : AllRets P m) (pr : Proc) : P (m.run pr).1 := by
  induction m generalizing pr with
  | ret a => exact h
  | call s k ih => simp only [Prog.run]; exact ih _ (h _) _

theorem triple_and_rets {α} {P : Proc → Prop} {m : Prog α} {Q : α → Proc → Prop} {R : α → Prop}
    (h : Triple P m Q) (hr : AllRets R m) : Triple P m (fun r pr' => Q r pr' ∧ R r) :=
  fun pr hp => ⟨h pr hp, run_allRets hr pr⟩

def NulFreeL (p : List Nat) : Prop := ∀ x ∈ p, x ≠ 0
def PF (l : List Fixup) : Prop := ∀ f ∈ l, NulFreeL f.name

theorem pf_nil : PF [] := fun _ h => by simp at h
theorem pf_append {a b : List Fixup} (ha : PF a) (hb : PF b) : PF (a ++ b) := by
  intro f hf; rcases List.mem_append.mp hf with h | h; exact ha f h; exact hb f h
theorem pf_cons {f : Fixup} {l : List Fixup} (hf : NulFreeL f.name) (hl : PF l) : PF (f :: l) := by
  intro g hg; rcases List.mem_cons.mp hg with rfl | h; exact hf; exact hl g h

theorem allRets_createDir (fl : XFlags) (um : Nat) :
    ∀ (n : Nat) (p : List Nat), p.length = n → NulFreeL p → AllRets (fun r => PF r.2) (createDir fl um p) := by
  intro n
  induction n using Nat.strongRecOn with
  | _ n ih =>
    intro p hn hp
    have hdb := dirBase_eq p
    rw [createDir]
    split
    rename_i slash base hdbe
    rw [hdbe] at hdb
    have hrec : ∀ d, slash = some d → AllRets (fun r => PF r.2) (createDir fl um d) := by
      intro d hd
      subst hd
      simp only at hdb
      refine ih d.length (by rw [← hn, hdb.1]; simp) d rfl ?_
      intro x hx; exact hp x (by rw [hdb.1]; simp [hx])
    split
    · split
      · rename_i d _ _; exact hrec d rfl
      · exact pf_nil
    · refine allRets_any _ (fun r => ?_)
      refine allRets_bind (Q := fun r => PF r.2) ?_ (fun a ha => ?_)
      · split
        · exact pf_nil
        · split
          · exact pf_nil
          · refine allRets_any _ (fun r2 => ?_); split <;> exact pf_nil
        · split
          · exact pf_nil
          · split
            · rename_i d _ _; exact hrec d rfl
            · exact pf_nil
        · exact pf_nil
      · split
        split
        · exact ha
        · refine allRets_any _ (fun r3 => ?_)
          split
          · refine allRets_any _ (fun r4 => ?_); split <;> exact ha
          · split
            · exact pf_cons hp ha
            · exact ha
        · exact ha

theorem allRets_createParentDir (fl : XFlags) (um : Nat) (name : List Nat) (hn : NulFreeL name) :
    AllRets (fun r => PF r.2) (createParentDir fl um name) := by
  unfold createParentDir
  have hdb := dirBase_eq name
  split
  · exact pf_nil
  · rename_i d hd
    cases hh : dirBase name with
    | mk o b =>
      rw [hh] at hdb hd
      simp only at hd
      subst hd
      simp only at hdb
      exact allRets_createDir fl um _ d rfl (fun x hx => hn x (by rw [hdb.1]; simp [hx]))

macro "allrets" : tactic => `(tactic| repeat (first
  | exact rfl
  | intro _
  | refine allRets_any _ (fun _ => ?_)
  | split))

theorem allRets_createObject (fl : XFlags) (um : Nat) (e : Entry) (name : List Nat) (es : ES) :
    AllRets (fun r => r.2.fix = es.fix) (createObject fl um e name es) := by
  unfold createObject
  allrets

theorem allRets_restoreEntry (fl : XFlags) (um : Nat) (e : Entry) (name : List Nat) (hn : NulFreeL name)
    (es : ES) (hes : PF es.fix) : AllRets (fun r => PF r.2.fix) (restoreEntry fl um e name es) := by
  have hco : ∀ es', PF es'.fix → AllRets (fun r => PF r.2.fix) (createObject fl um e name es') := by
    intro es' h
    have := allRets_createObject fl um e name es'
    have h2 : ∀ (m : Prog (Option Err × ES)), AllRets (fun r => r.2.fix = es'.fix) m → AllRets (fun r => PF r.2.fix) m := by
      intro m hm
      induction m with
      | ret a =>
        show PF a.2.fix
        rw [show a.2.fix = es'.fix from hm]; exact h
      | call s k ih => exact fun r => ih r (hm r)
    exact h2 _ this
  have hco3 : ∀ es', PF es'.fix → AllRets (fun r : Option St × Option Err × ES => PF r.2.2.fix)
      (do let x ← createObject fl um e name es'
          match x with
          | (en, es) => pure (none, en, es)) := by
    intro es' h
    refine allRets_bind (hco es' h) (fun x hx => ?_)
    obtain ⟨en, es2⟩ := x
    exact hx
  unfold restoreEntry
  refine allRets_any _ (fun b => ?_)
  split
  · exact hes
  · refine allRets_bind (hco es hes) (fun x1 hx1 => ?_)
    obtain ⟨en1, es1⟩ := x1
    simp only at hx1 ⊢
    refine allRets_bind (Q := fun r => PF r.2.fix) ?_ (fun x2 hx2 => ?_)
    · split
      · refine allRets_bind (allRets_createParentDir fl um name hn) (fun x hx => ?_)
        obtain ⟨s0, fx⟩ := x
        exact hco _ (pf_append hx hx1)
      · exact hx1
    · obtain ⟨en2, es2⟩ := x2
      simp only at hx2 ⊢
      split
      · exact hx2
      · split
        · show PF (if e.isDir = true then _ else es2).fix
          split <;> exact hx2
        · refine allRets_bind (Q := fun r => PF r.2.2.fix) ?_ (fun x3 hx3 => ?_)
          · split
            · refine allRets_any _ (fun r => ?_)
              split
              · exact hx2
              · exact hco3 _ hx2
            · split
              · refine allRets_any _ (fun r1 => ?_)
                refine allRets_any _ (fun r => ?_)
                split
                · split
                  · split
                    · refine allRets_any _ (fun r2 => ?_)
                      split <;> exact hx2
                    · refine allRets_any _ (fun r2 => ?_)
                      split
                      · exact hx2
                      · exact hco3 _ hx2
                  · split
                    · refine allRets_any _ (fun r2 => ?_)
                      split
                      · exact hx2
                      · exact hco3 _ hx2
                    · show PF (if _ then _ else es2).fix
                      split <;> exact hx2
                · exact hx2
              · exact hx2
          · obtain ⟨early, en3, es3⟩ := x3
            simp only at hx3 ⊢
            split
            · exact hx3
            · split <;> exact hx3


/-- What is known about the entry being written between `header` and `finish_entry`. -/
def CurOK (c : Ctx) (w : Writer) (pr : Proc) : Prop :=
  match w.cur with
  | none => True
  | some (e, name, es) => NameOK name ∧ Sem c name pr ∧ (CN e es → Full c name pr)

/-- Invariant of the writer between API calls. -/
def G (c : Ctx) (w : Writer) (pr : Proc) : Prop := Sem c [] pr ∧ CurOK c w pr

/-- An entry the confinement proof covers: C strings, pathname shorter than PATH_MAX
(`edit_deep_directories` does not come into play). -/
def EntryOK (e : Entry) : Prop := (∀ x ∈ e.path, x ≠ 0) ∧ (∀ x ∈ e.link, x ≠ 0) ∧ e.path.length < pathMax

theorem prog_pure_bind {α β} (a : α) (f : α → Prog β) : (pure a : Prog α) >>= f = f a := rfl

theorem sem_dot_of_base {c : Ctx} {pr : Proc} (h : Sem c [] pr) : Sem c [DOT] pr :=
  sem_weaken h (by decide)

theorem joinSlash_nulfree : ∀ (K : List (List Nat)), (∀ c ∈ K, ∀ x ∈ c, x ≠ 0) → NulFreeL (joinSlash K) := by
  intro K
  induction K with
  | nil => intro _ x hx; simp [joinSlash] at hx
  | cons c K ih =>
    intro h
    cases K with
    | nil => intro x hx; simp [joinSlash] at hx; exact h c (by simp) x hx
    | cons d K' =>
      intro x hx
      simp only [joinSlash, List.mem_append, List.mem_cons] at hx
      rcases hx with hx | rfl | hx
      · exact h c (by simp) x hx
      · decide
      · exact ih (fun c' hc' => h c' (by simp [hc'])) x (by simpa [joinSlash] using hx)

theorem nulFree_of_cleanup {p q : List Nat} (hn : ∀ x ∈ p, x ≠ 0)
    (h : cleanup { nodotdot := true, noabs := true } p = .ok q) : NulFreeL q := by
  obtain ⟨_, _, _, hr⟩ := cleanup_rel hn h
  rcases hr with ⟨rfl, _⟩ | ⟨hg, hc⟩
  · intro x hx; simp at hx; subst hx; decide
  · have : q = joinSlash (splitSlash q) := (join_split q).symm
    rw [this]
    apply joinSlash_nulfree
    intro c hc' x hx
    rw [← compsOf_good hg, hc] at hc'
    have hmem : c ∈ splitSlash p := by
      have := (List.mem_filter.mp hc').1
      unfold compsOf at this
      exact (List.mem_filter.mp this).1
    exact (split_clean p hn c hmem x hx).1

theorem header_spec (c : Ctx) (fl : XFlags) (hfl : SecureFlags fl) (w : Writer) (hw : w.flags = fl) (e : Entry)
    (he : EntryOK e) (hpf : PF w.fixups) :
    Triple (fun pr => Sem c [] pr) (header w e) (fun r pr' => G c r.2 pr' ∧ r.2.flags = fl ∧ PF r.2.fixups) := by
  unfold header
  simp only [hw]
  rw [clean_secure hfl]
  cases hcl : cleanup { nodotdot := true, noabs := true } e.path with
  | failed x => exact triple_pure (fun pr hp => ⟨⟨hp, trivial⟩, rfl, hpf⟩)
  | oob => exact triple_pure (fun pr hp => ⟨⟨hp, trivial⟩, rfl, hpf⟩)
  | ok name =>
    have hn : NameOK name := nameOK_of_cleanup he.1 hcl
    simp only []
    refine triple_ite (fun _ => triple_pure (fun pr hp => ⟨⟨hp, trivial⟩, rfl, hpf⟩)) (fun _ => ?_)
    refine triple_bind (Q := fun _ pr' => Sem c [] pr') (triple_sys_keep (fun pr hp => sem_exec hp _ trivial))
      (fun u => ?_)
    refine triple_bind (Q := fun r pr' => Sem c [] pr' ∧ (r = .ok → Sem c name pr' ∧ Full c name pr')) ?_
      (fun chk => ?_)
    · simp only [hfl.1, if_true]
      intro pr hp
      rcases hn with rfl | hg
      · have hk := checkSymlinks_dot c fl false pr
        exact ⟨hk _ hp, fun _ => ⟨hk _ (sem_dot_of_base hp), Or.inl rfl⟩⟩
      · obtain ⟨hkeep, hsound⟩ := checkSymlinks_spec c fl hfl.1 false name hg pr
        refine ⟨hkeep _ hp, fun hr => ?_⟩
        have hnl := hsound hr
        rw [hp.inv.cwd] at hnl
        have hfull : Sem c (qx name) ((checkSymlinks fl false name).run pr).2 :=
          ⟨(hkeep _ hp).inv, (hkeep _ hp).wf, by rw [initOf_qx hg]; simpa [loopTarget] using hnl⟩
        exact ⟨sem_of_full hg hfull, Or.inr ⟨hg, hfull⟩⟩
    · refine triple_ite (fun _ => triple_pure (fun pr hp => ⟨⟨hp.1, trivial⟩, rfl, hpf⟩)) (fun hchk => ?_)
      have hok : chk = .ok := by simpa using hchk
      have hshort : decide (name.length ≥ pathMax) = false := by
        have := cleanup_len_le _ _ _ he.1 hcl
        have h2 := he.2.2
        simp; omega
      simp only [hshort, Bool.false_eq_true, if_false, prog_pure_bind, List.append_nil]
      refine triple_bind (Q := fun r pr' => (Sem c name pr' ∧ (CN e r.2 → Full c name pr')) ∧ PF r.2.fix)
        (triple_and_rets
          (triple_conseq (fun pr hp => hp.2 hok) (restore_spec c fl hfl _ e name hn he.2.1 _) (fun _ _ h => h))
          ?_)
        (fun r => ?_)
      · exact allRets_restoreEntry _ _ _ _ (nulFree_of_cleanup he.1 hcl) _ pf_nil
      refine triple_pure (fun pr hp' => ?_)
      obtain ⟨hp, hfix⟩ := hp'
      refine ⟨⟨sem_base hp.1, ?_⟩, ?_, ?_⟩
      · unfold CurOK
        split
        · trivial
        · rename_i e' name' es' hc
          by_cases hr : r.1 = .ok ∨ r.1 = .warn
          · simp only [hr, if_true] at hc
            simp only [Option.some.injEq, Prod.mk.injEq] at hc
            obtain ⟨rfl, rfl, rfl⟩ := hc
            exact ⟨hn, hp⟩
          · simp only [hr, if_false] at hc
            simp at hc
      · split <;> rfl
      · have hfe : ∀ (o : Option Fixup), (∀ f, o = some f → NulFreeL f.name) →
            PF ((match o with | some f => [f] | none => []) ++ r.2.fix ++ w.fixups) := by
          intro o ho
          refine pf_append (pf_append ?_ hfix) hpf
          cases o with
          | none => exact pf_nil
          | some f => exact pf_cons (ho f rfl) pf_nil
        split <;> (apply hfe; intro f hf; split at hf <;> simp at hf; subst hf; exact he.1)


theorem writeData_spec (c : Ctx) (w : Writer) (d : List Nat) :
    Triple (G c w) (writeData w d) (fun _ pr' => G c w pr') := by
  unfold writeData
  cases hcur : w.cur with
  | none => exact triple_pure (fun _ hp => hp)
  | some x =>
    obtain ⟨e, name, es⟩ := x
    simp only []
    refine triple_ite (fun _ => ?_) (fun _ => triple_pure (fun _ hp => hp))
    refine triple_bind (Q := fun _ pr' => G c w pr') ?_ (fun r => ?_)
    · refine triple_sys ?_
      intro pr hp
      unfold G CurOK at hp ⊢
      rw [hcur] at hp ⊢
      simp only at hp ⊢
      obtain ⟨h0, hn, h1, h2⟩ := hp
      refine ⟨sem_exec h0 _ trivial, hn, sem_exec h1 _ trivial, fun hcn => ?_⟩
      rcases h2 hcn with hd | ⟨hg, hf⟩
      · exact Or.inl hd
      · exact Or.inr ⟨hg, sem_exec hf _ trivial⟩
    · split <;> exact triple_pure (fun _ hp => hp)

theorem mem_mergeFix : ∀ (n : Nat) (a b : List Fixup), a.length + b.length = n → ∀ f, f ∈ mergeFix a b → f ∈ a ∨ f ∈ b := by
  intro n
  induction n using Nat.strongRecOn with
  | _ n ih =>
    intro a b hn f hf
    cases a with
    | nil => rw [mergeFix] at hf; exact Or.inr hf
    | cons x a' =>
      cases b with
      | nil => rw [mergeFix] at hf; exact Or.inl hf; simp
      | cons y b' =>
        rw [mergeFix] at hf
        split at hf
        · simp only [List.mem_cons] at hf
          rcases hf with rfl | hf
          · exact Or.inl (by simp)
          · rcases ih _ (by simp at hn ⊢; omega) a' (y :: b') rfl f hf with h | h
            · exact Or.inl (by simp [h])
            · exact Or.inr h
        · simp only [List.mem_cons] at hf
          rcases hf with rfl | hf
          · exact Or.inr (by simp)
          · rcases ih _ (by simp at hn ⊢; omega) (x :: a') b' rfl f hf with h | h
            · exact Or.inl h
            · exact Or.inr (by simp [h])

theorem mem_sortFix : ∀ (n : Nat) (l : List Fixup), l.length = n → ∀ f, f ∈ sortFix l → f ∈ l := by
  intro n
  induction n using Nat.strongRecOn with
  | _ n ih =>
    intro l hn f hf
    rw [sortFix] at hf
    split at hf
    · exact hf
    · rename_i hlen
      rcases mem_mergeFix _ _ _ rfl f hf with h | h
      · exact List.mem_of_mem_take (ih _ (by simp only [List.length_take]; omega) _ rfl f h)
      · exact List.mem_of_mem_drop (ih _ (by simp only [List.length_drop]; omega) _ rfl f h)


theorem nulFree_strip {p : List Nat} (h : NulFreeL p) : NulFreeL (stripTrailingSlashes p) := by
  intro x hx
  apply h x
  unfold stripTrailingSlashes at hx
  have h1 : x ∈ p.reverse.dropWhile (· == SLASH) := List.mem_reverse.mp hx
  exact List.mem_reverse.mp ((List.dropWhile_sublist _).subset h1)

/-- One fix-up at close: clean-up, symlink check, `open(O_NOFOLLOW)`, type check, then the
mode / time changes. -/
theorem applyFixup_spec (c : Ctx) (fl : XFlags) (hfl : SecureFlags fl) (p : Fixup) (hp : NulFreeL p.name) :
    Triple (fun pr => Sem c [] pr) (applyFixup fl p) (fun _ pr' => Sem c [] pr') := by
  unfold applyFixup
  simp only []
  refine triple_ite (fun _ => triple_pure (fun _ h => h)) (fun _ => ?_)
  refine triple_bind
    (Q := fun o pr' => Sem c [] pr' ∧ ∀ q, o = some q → NameOK q ∧ Sem c q pr') ?_ (fun o => ?_)
  · rw [if_pos hfl.1]
    rw [clean_secure hfl]
    cases hcl : cleanup { nodotdot := true, noabs := true } (stripTrailingSlashes p.name) with
    | failed x => exact triple_pure (fun _ h => ⟨h, fun q hq => by simp at hq⟩)
    | oob => exact triple_pure (fun _ h => ⟨h, fun q hq => by simp at hq⟩)
    | ok q =>
      have hn : NameOK q := nameOK_of_cleanup (nulFree_strip hp) hcl
      simp only []
      refine triple_bind (Q := fun r pr' => Sem c [] pr' ∧ (r = .ok → Sem c q pr')) ?_ (fun r => ?_)
      · intro pr h
        rcases hn with rfl | hg
        · have hk := checkSymlinks_dot c { fl with unlink := false } true pr
          exact ⟨hk _ h, fun _ => hk _ (sem_dot_of_base h)⟩
        · obtain ⟨hkeep, hsound⟩ := checkSymlinks_spec c { fl with unlink := false } hfl.1 true q hg pr
          refine ⟨hkeep _ h, fun hr => ⟨(hkeep _ h).inv, (hkeep _ h).wf, ?_⟩⟩
          have := hsound hr
          rw [h.inv.cwd] at this
          simpa [loopTarget, initOf] using this
      · refine triple_ite (fun hr => triple_pure (fun _ h => ⟨h.1, fun q' hq' => ?_⟩))
          (fun _ => triple_pure (fun _ h => ⟨h.1, fun q' hq' => by simp at hq'⟩))
        simp only [Option.some.injEq] at hq'
        subst hq'
        exact ⟨hn, h.2 hr⟩
  · cases o with
    | none => exact triple_pure (fun _ h => h.1)
    | some name =>
      simp only []
      by_cases hn : NameOK name
      rotate_left
      · intro pr h; exact absurd (h.2 name rfl).1 hn
      have hF := famCtx_name hn
      refine triple_conseq (P := fun pr => Sem c name pr) (Q := fun _ pr => Sem c name pr)
        (fun pr h => (h.2 name rfl).2) ?_ (fun _ pr h => sem_base h)
      refine triple_of_allCalls (I := fun pr => Sem c name pr) (C := QCall name) (fun s pr hq hS => sem_exec hS s hq) ?_
      allcalls
      iterate 6 (all_goals (first | allcalls))


theorem applyFixups_spec (c : Ctx) (fl : XFlags) (hfl : SecureFlags fl) : ∀ (l : List Fixup), PF l →
    Triple (fun pr => Sem c [] pr) (applyFixups fl l) (fun _ pr' => Sem c [] pr') := by
  intro l
  induction l with
  | nil => intro _; exact triple_pure (fun _ h => h)
  | cons p r ih =>
    intro hpf
    unfold applyFixups
    exact triple_bind (applyFixup_spec c fl hfl p (hpf p (by simp)))
      (fun _ => ih (fun f hf => hpf f (by simp [hf])))

theorem close_spec (c : Ctx) (fl : XFlags) (hfl : SecureFlags fl) (w : Writer) (hw : w.flags = fl)
    (hpf : PF w.fixups) : Triple (G c w) (close w) (fun _ pr' => Sem c [] pr') := by
  unfold close
  refine triple_bind (finishEntry_spec c w) (fun r => ?_)
  obtain ⟨ret, w'⟩ := r
  refine triple_bind (Q := fun _ pr' => Sem c [] pr') ?_ (fun _ => triple_pure (fun _ h => h))
  intro pr hp
  obtain ⟨h0, _, hfl', hfx⟩ := hp
  simp only at hfl' hfx
  rw [hfl', hw, hfx]
  exact applyFixups_spec c fl hfl _ (fun f hf => hpf f (mem_sortFix _ _ rfl f hf)) pr h0

theorem extractEntry_spec (c : Ctx) (fl : XFlags) (hfl : SecureFlags fl) (w : Writer) (hw : w.flags = fl)
    (hpf : PF w.fixups) (e : Entry) (he : EntryOK e) :
    Triple (fun pr => Sem c [] pr) (extractEntry w e)
      (fun r pr' => Sem c [] pr' ∧ r.2.cur = none ∧ r.2.flags = fl ∧ PF r.2.fixups) := by
  unfold extractEntry
  refine triple_bind (header_spec c fl hfl w hw e he hpf) (fun r1 => ?_)
  obtain ⟨h, w1⟩ := r1
  simp only []
  refine triple_bind (Q := fun _ pr' => G c w1 pr' ∧ w1.flags = fl ∧ PF w1.fixups) ?_ (fun d => ?_)
  · refine triple_ite (fun _ => ?_) (fun _ => triple_pure (fun _ hp => hp))
    intro pr hp
    exact ⟨writeData_spec c w1 _ pr hp.1, hp.2⟩
  · refine triple_bind
      (Q := fun r pr' => (Sem c [] pr' ∧ r.2.cur = none ∧ r.2.flags = w1.flags ∧ r.2.fixups = w1.fixups) ∧
        (w1.flags = fl ∧ PF w1.fixups)) ?_ (fun r2 => ?_)
    · intro pr hp
      exact ⟨finishEntry_spec c w1 pr hp.1, hp.2⟩
    · obtain ⟨f, w2⟩ := r2
      exact triple_pure (fun pr hp => ⟨hp.1.1, hp.1.2.1, by rw [hp.1.2.2.1]; exact hp.2.1,
        by rw [hp.1.2.2.2]; exact hp.2.2⟩)

theorem extractAll_spec (c : Ctx) (fl : XFlags) (hfl : SecureFlags fl) : ∀ (es : List Entry) (w : Writer),
    w.flags = fl → PF w.fixups → w.cur = none → (∀ e ∈ es, EntryOK e) →
    Triple (fun pr => Sem c [] pr) (extractAll w es)
      (fun r pr' => Sem c [] pr' ∧ r.2.cur = none ∧ r.2.flags = fl ∧ PF r.2.fixups) := by
  intro es
  induction es with
  | nil => intro w hw hpf hc _; exact triple_pure (fun pr hp => ⟨hp, hc, hw, hpf⟩)
  | cons e es ih =>
    intro w hw hpf _ he
    unfold extractAll
    refine triple_bind (extractEntry_spec c fl hfl w hw hpf e (he e (by simp))) (fun r1 => ?_)
    obtain ⟨s, w1⟩ := r1
    simp only []
    by_cases hq : w1.flags = fl ∧ PF w1.fixups ∧ w1.cur = none
    · refine triple_bind (triple_conseq (fun pr hp => hp.1) (ih w1 hq.1 hq.2.1 hq.2.2 (fun e' he' => he e' (by simp [he'])))
        (fun _ _ h => h)) (fun r2 => ?_)
      obtain ⟨ss, w2⟩ := r2
      exact triple_pure (fun _ hp => hp)
    · intro pr hp; exact absurd ⟨hp.2.2.1, hp.2.2.2, hp.2.1⟩ hq


theorem extractArchive_spec (c : Ctx) (fl : XFlags) (hfl : SecureFlags fl) (es : List Entry)
    (he : ∀ e ∈ es, EntryOK e) :
    Triple (fun pr => Sem c [] pr) (extractArchive fl es) (fun _ pr' => Sem c [] pr') := by
  unfold extractArchive
  refine triple_bind (extractAll_spec c fl hfl es { flags := fl } rfl pf_nil rfl he) (fun r => ?_)
  obtain ⟨ss, w⟩ := r
  simp only []
  by_cases hq : w.flags = fl ∧ PF w.fixups ∧ w.cur = none
  · refine triple_bind (Q := fun _ pr' => Sem c [] pr') ?_ (fun r2 => ?_)
    · intro pr hp
      refine close_spec c fl hfl w hq.1 hq.2.1 pr ⟨hp.1, ?_⟩
      unfold CurOK; rw [hq.2.2]; trivial
    · obtain ⟨s, w2⟩ := r2
      exact triple_pure (fun _ hp => hp)
  · intro pr hp; exact absurd ⟨hp.2.2.1, hp.2.2.2, hp.2.1⟩ hq

end LA.Xtr
