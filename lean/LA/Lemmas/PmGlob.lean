/-
The matcher model against an independent, inductively defined glob relation, on the
fragment "ordinary characters, `?`, `*`" with slash-free subjects.
-/
import LA.Lemmas.PmSpec
set_option linter.unusedSimpArgs false
namespace LA.Pm

/-- Ordinary pattern character: nothing `pm()` or `__archive_pathmatch()` treats specially anywhere. -/
def Plain (c : Nat) : Prop :=
  c ≠ 0 ∧ c ≠ C_STAR ∧ c ≠ C_QUEST ∧ c ≠ C_LBRACK ∧ c ≠ C_BSL ∧ c ≠ C_SLASH ∧ c ≠ C_DOLLAR ∧ c ≠ C_CARET

/-- The wildcard fragment. -/
def Frag (p : List Nat) : Prop := ∀ c ∈ p, Plain c ∨ c = C_QUEST ∨ c = C_STAR

/-- Textbook glob matching: `?` is any one character, `*` any (possibly empty) run, anything
else itself; the whole subject must be consumed. -/
inductive Glob : List Nat → List Nat → Prop
  | nil : Glob [] []
  | lit {c : Nat} {p s : List Nat} : c ≠ C_QUEST → c ≠ C_STAR → Glob p s → Glob (c :: p) (c :: s)
  | any {d : Nat} {p s : List Nat} : Glob p s → Glob (C_QUEST :: p) (d :: s)
  | star {p s : List Nat} (k : Nat) : Glob p (s.drop k) → Glob (C_STAR :: p) s

theorem glob_nil_iff (x : List Nat) : Glob [] x ↔ x = [] := by
  constructor
  · intro h; cases h; rfl
  · rintro rfl; exact .nil

theorem glob_lit_iff {c : Nat} (h1 : c ≠ C_QUEST) (h2 : c ≠ C_STAR) (p x : List Nat) :
    Glob (c :: p) x ↔ ∃ x', x = c :: x' ∧ Glob p x' := by
  constructor
  · intro h
    cases h with
    | lit _ _ h => exact ⟨_, rfl, h⟩
    | any _ => exact absurd rfl h1
    | star _ _ => exact absurd rfl h2
  · rintro ⟨x', rfl, h⟩; exact .lit h1 h2 h

theorem glob_quest_iff (p x : List Nat) :
    Glob (C_QUEST :: p) x ↔ ∃ d x', x = d :: x' ∧ Glob p x' := by
  constructor
  · intro h
    cases h with
    | lit h1 _ _ => exact absurd rfl h1
    | any h => exact ⟨_, _, rfl, h⟩
  · rintro ⟨d, x', rfl, h⟩; exact .any h

theorem glob_star_iff (p x : List Nat) : Glob (C_STAR :: p) x ↔ ∃ k, Glob p (x.drop k) := by
  constructor
  · intro h
    cases h with
    | lit _ h2 _ => exact absurd rfl h2
    | star k h => exact ⟨k, h⟩
  · rintro ⟨k, h⟩; exact .star k h

/-- What `while (*p == '*') ++p;` skipped and where it stopped. -/
theorem skipStars_spec {p : List Nat} {i j : Nat} (h : skipStars p i = some j) :
    i ≤ j ∧ (∀ k, i ≤ k → k < j → rd p k = some C_STAR) ∧ ∃ c, rd p j = some c ∧ c ≠ C_STAR := by
  induction hn : p.length + 1 - i using Nat.strongRecOn generalizing i with
  | _ n ih =>
    rw [skipStars_eq] at h
    cases hr : rd p i with
    | none => simp [hr] at h
    | some c =>
      simp only [hr] at h
      by_cases hc : c = C_STAR
      · simp only [hc, if_true] at h
        have hlt := rd_lt hr (by omega)
        obtain ⟨h1, h2, h3⟩ := ih (p.length + 1 - (i + 1)) (by omega) h rfl
        refine ⟨by omega, ?_, h3⟩
        intro k hk1 hk2
        rcases Nat.eq_or_lt_of_le hk1 with rfl | hk
        · rw [hr, hc]
        · exact h2 k hk hk2
      · simp only [hc, if_false, Option.some.injEq] at h
        subst h
        exact ⟨Nat.le_refl _, fun k h1 h2 => by omega, c, hr, hc⟩

/-- A run of stars is one star. -/
theorem glob_star_run (p : List Nat) (i j : Nat) (hij : i < j) (hj : j ≤ p.length)
    (hs : ∀ k, i ≤ k → k < j → rd p k = some C_STAR) (x : List Nat) :
    Glob (p.drop i) x ↔ ∃ k, Glob (p.drop j) (x.drop k) := by
  induction hn : j - i generalizing i x with
  | zero => omega
  | succ n ih =>
    have hi : i < p.length := by omega
    have hpi : p[i] = C_STAR := rd_getElem (hs i (Nat.le_refl _) hij) hi
    rw [List.drop_eq_getElem_cons hi, hpi, glob_star_iff]
    by_cases hlast : i + 1 = j
    · subst hlast; rfl
    · constructor
      · rintro ⟨k, hk⟩
        obtain ⟨k', hk'⟩ := (ih (i + 1) (by omega) (fun m h1 h2 => hs m (by omega) h2) _ (by omega)).mp hk
        exact ⟨k + k', by rw [← List.drop_drop]; exact hk'⟩
      · rintro ⟨k, hk⟩
        exact ⟨0, (ih (i + 1) (by omega) (fun m h1 h2 => hs m (by omega) h2) _ (by omega)).mpr ⟨k, by simpa using hk⟩⟩

theorem unanch_noSlash (cfg : Cfg) (p s : List Nat) (fl : Flags) (hs : NoNul s)
    (hns : ∀ c ∈ s, c ≠ C_SLASH) (pi si : Nat) (hsi : si ≤ s.length) :
    unanch cfg p s fl pi si = pm cfg p s fl pi si := by
  obtain ⟨d, hd⟩ := rd_isSome hsi
  have hne : d ≠ C_SLASH := by
    intro h; subst h
    have hl := rd_lt hd (by decide)
    exact hns _ (List.getElem_mem hl) (rd_getElem hd hl)
  have hnone : strchrSlash s si = some none :=
    (strchrSlash_none_iff hs hsi).mpr fun j _ hj => hns _ (List.getElem_mem hj)
  rw [unanch_eq]; simp only [hd, hne, if_false, hnone]
  cases pm cfg p s fl pi si <;> rfl

theorem dotSlash_frag {p : List Nat} (hp : Frag p) (i : Nat) (hi : i ≤ p.length) : dotSlash p i = some i :=
  dotSlash_noSlash (fun c hc => by
    rcases hp c hc with h | h | h
    · exact h.2.2.2.2.2.1
    · omega
    · omega) i hi

/-- On the wildcard fragment, against a slash-free subject, the matcher *is* textbook glob
matching — for every flag combination (anchoring cannot show without a `/`). -/
theorem pmLoop_glob (cfg : Cfg) (hg : cfg.guardClass = true) (p s : List Nat) (fl : Flags)
    (hp : Frag p) (hs : NoNul s) (hns : ∀ c ∈ s, c ≠ C_SLASH)
    (pi : Nat) (hpi : pi ≤ p.length) (si : Nat) (hsi : si ≤ s.length) :
    pmLoop cfg p s fl pi si = .yes ↔ Glob (p.drop pi) (s.drop si) := by
  induction hn : p.length - pi using Nat.strongRecOn generalizing pi si with
  | _ n ih =>
    obtain ⟨d, hd⟩ := rd_isSome hsi
    have hdne : d ≠ C_SLASH := by
      intro h; subst h
      have hl := rd_lt hd (by decide)
      exact hns _ (List.getElem_mem hl) (rd_getElem hd hl)
    have hd0 : d = 0 ↔ si = s.length := by
      rw [← rd_zero_iff hs]; constructor
      · rintro rfl; exact hd
      · intro h; rw [h] at hd; cases hd; rfl
    rcases Nat.eq_or_lt_of_le hpi with heq | hlt
    · -- end of pattern
      subst heq
      rw [pmLoop_eq]; simp only [rd_len, hd, if_true, hdne, if_false]
      rw [List.drop_length, glob_nil_iff, List.drop_eq_nil_iff]
      by_cases h0 : d = 0
      · simp [Res.ofBool, h0]; have := hd0.mp h0; omega
      · simp [Res.ofBool, h0]; have := mt hd0.mpr h0; omega
    · have hc := rd_of_lt hlt
      have hpd : p.drop pi = p[pi] :: p.drop (pi + 1) := List.drop_eq_getElem_cons hlt
      rcases hp _ (List.getElem_mem hlt) with hpl | hq | hst
      · -- ordinary character
        obtain ⟨h0, h1, h2, h3, h4, h5, h6, h7⟩ := hpl
        obtain ⟨c1, hc1⟩ := rd_isSome (show pi + 1 ≤ p.length by omega)
        rw [pmLoop_eq]; simp only [hc, hc1, hd, h0, h1, h2, h3, h4, h5, h6, if_false, false_and]
        rw [hpd, glob_lit_iff h2 h1]
        by_cases hcd : p[pi] = d
        · have hdz : d ≠ 0 := hcd ▸ h0
          have hsl := rd_lt hd hdz
          have hsd : s.drop si = d :: s.drop (si + 1) := by
            rw [List.drop_eq_getElem_cons hsl, rd_getElem hd hsl]
          simp only [hcd, ne_eq, not_true, if_false]
          rw [ih _ (by omega) (pi + 1) (by omega) (si + 1) (by omega) rfl, hsd]
          constructor
          · intro h; exact ⟨_, rfl, h⟩
          · rintro ⟨x', hx, h⟩; rw [List.cons.injEq] at hx; rw [hx.2]; exact h
        · simp only [ne_eq, hcd, not_false_eq_true, if_true]
          constructor
          · intro h; cases h
          · rintro ⟨x', hx, _⟩
            exfalso
            rcases Nat.lt_or_ge si s.length with hsl | hsl
            · rw [List.drop_eq_getElem_cons hsl, List.cons.injEq, rd_getElem hd hsl] at hx
              exact hcd hx.1.symm
            · rw [List.drop_eq_nil_iff.mpr hsl] at hx; cases hx
      · -- '?'
        rw [hq] at hc
        rw [hpd, hq, glob_quest_iff]
        rcases Nat.eq_or_lt_of_le hsi with heq | hsl
        · subst heq
          rw [pm_question_at_end' cfg p s fl pi hc]
          simp
        · rw [pm_question' cfg p s fl pi si hs hc hsl,
            ih _ (by omega) (pi + 1) (by omega) (si + 1) (by omega) rfl, List.drop_eq_getElem_cons hsl]
          constructor
          · intro h; exact ⟨_, _, rfl, h⟩
          · rintro ⟨d', x', hx, h⟩; rw [List.cons.injEq] at hx; rw [hx.2]; exact h
      · -- '*'
        rw [hst] at hc
        obtain ⟨pj, hpj⟩ := Option.ne_none_iff_exists'.mp (skipStars_ne_none (Nat.le_of_lt hlt))
        obtain ⟨hij, hrun, c', hc', hc'ne⟩ := skipStars_spec hpj
        have hpjle := skipStars_le hpj
        have hijlt : pi < pj := skipStars_gt hc hpj
        rw [pmLoop_star_iff cfg hg p s hs fl pi si pj hc hpj hsi,
          glob_star_run p pi pj hijlt hpjle hrun]
        rcases Nat.eq_or_lt_of_le hpjle with heq | hpjlt
        · -- nothing after the stars
          subst heq
          simp only [rd_len, true_or, true_iff]
          exact ⟨s.length, by simp [glob_nil_iff]⟩
        · have hcj : c' = p[pj] := (rd_getElem hc' hpjlt).symm
          have hc'0 : c' ≠ 0 := by
            rcases hp _ (List.getElem_mem hpjlt) with h | h | h
            · rw [hcj]; exact h.1
            · rw [hcj, h]; decide
            · exact absurd (hcj.trans h) hc'ne
          have hz : rd p pj ≠ some 0 := by rw [hc']; simp [hc'0]
          simp only [hz, false_or]
          -- the re-entry through the entry point is plain `pm` here
          have hre : ∀ sj, sj ≤ s.length → matchAt cfg p s fl pj sj = pmLoop cfg p s fl pj sj := by
            intro sj hsj
            obtain ⟨e, he⟩ := rd_isSome hsj
            have hcar : c' ≠ C_CARET := by
              rcases hp _ (List.getElem_mem hpjlt) with h | h | h
              · rw [hcj]; exact h.2.2.2.2.2.2.2
              · rw [hcj, h]; decide
              · exact absurd (hcj.trans h) hc'ne
            have hsl : c' ≠ C_SLASH := by
              rcases hp _ (List.getElem_mem hpjlt) with h | h | h
              · rw [hcj]; exact h.2.2.2.2.2.1
              · rw [hcj, h]; decide
              · exact absurd (hcj.trans h) hc'ne
            rw [matchAt_eq]; simp only [hc', hc'0, hcar, if_false]
            rw [matchBody_eq]; simp only [hc', he, hc'ne, hsl, false_and, false_or, if_false]
            have hpm : pm cfg p s fl pj sj = pmLoop cfg p s fl pj sj := by
              rw [pm_eq, dotSlash_noSlash hns sj hsj, dotSlash_frag hp pj hpjle]
            split
            · rw [unanch_noSlash cfg p s fl hs hns pj sj hsj, hpm]
            · exact hpm
          -- the rest cannot match the empty subject
          have hnonempty : ¬ Glob (p.drop pj) [] := by
            rw [List.drop_eq_getElem_cons hpjlt, ← hcj]
            intro h
            generalize hx : ([] : List Nat) = x at h
            cases h with
            | lit _ _ _ => cases hx
            | any _ => cases hx
            | star _ _ => exact hc'ne rfl
          constructor
          · rintro ⟨sj, h1, h2, h3⟩
            rw [hre sj (Nat.le_of_lt h2), ih _ (by omega) pj hpjle sj (Nat.le_of_lt h2) rfl] at h3
            exact ⟨sj - si, by rw [List.drop_drop]; rw [show si + (sj - si) = sj by omega]; exact h3⟩
          · rintro ⟨k, hk⟩
            rw [List.drop_drop] at hk
            have hlt2 : si + k < s.length := by
              rcases Nat.lt_or_ge (si + k) s.length with h | h
              · exact h
              · rw [List.drop_eq_nil_iff.mpr h] at hk; exact absurd hk hnonempty
            refine ⟨si + k, by omega, hlt2, ?_⟩
            rw [hre _ (Nat.le_of_lt hlt2), ih _ (by omega) pj hpjle _ (Nat.le_of_lt hlt2) rfl]
            exact hk

end LA.Pm
