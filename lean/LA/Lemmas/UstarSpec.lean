/- The ustar byte model against the spec-level description (`norm .ustar`). Core Lean only. -/
import LA.Lemmas.Ustar
import LA.Model.FmtSpec
namespace LA.Codec
open LA.NumFmt LA.Gen.TarLayout LA.Gen.CodecConsts

/-- The strings of an entry are C strings of bytes. -/
def wfEntry (e : Entry) : Prop :=
  (∀ p, e.path = some p → wfStr p) ∧ wfStr e.uname ∧ wfStr e.gname ∧ wfStr e.sym ∧ wfStr e.hard

theorem wfStr_dirSlash (ft : FType) (p : List Nat) (h : wfStr p) : wfStr (dirSlash ft p) := by
  unfold dirSlash
  split
  · intro c hc
    rcases List.mem_append.1 hc with hc | hc
    · exact h c hc
    · simp only [List.mem_singleton] at hc; rw [hc]; decide
  · exact h

theorem wfStr_tarLink (e : Entry) (h : wfEntry e) : wfStr (tarLink e) := by
  unfold tarLink; split
  · exact h.2.2.2.2
  · exact h.2.2.2.1

/-- The size `archive_write_ustar_header` stores: only regular files that are no links have data. -/
def ustarSize (e : Entry) : Int := if e.hard ≠ [] ∨ e.sym ≠ [] ∨ e.ftype ≠ .reg then 0 else e.sizeV

/-- Unfolding `archive_write_ustar_header` when it reports success. -/
theorem ustarWriteHeader_ok (st : WState) (e : Entry) (b : List Nat) (st' : WState)
    (hok : ustarWriteHeader st e = (.ok, b, st')) :
    ∃ p0, e.path = some p0 ∧
      ustarFailed e (dirSlash e.ftype p0) (ustarSize e) none true = false ∧
      b = ustarHdr e (dirSlash e.ftype p0) (ustarSize e) ∧
      st' = { st with remaining := (ustarSize e).toNat, padding := pad512 (ustarSize e).toNat } := by
  unfold ustarWriteHeader at hok
  cases hp : e.path with
  | none => rw [hp] at hok; simp at hok
  | some p0 =>
    rw [hp] at hok
    simp only [] at hok
    refine ⟨p0, rfl, ?_⟩
    by_cases hf : (ustarFormatHeader e (dirSlash e.ftype p0) (ustarSize e) none true).1 = true
    · unfold ustarSize at hf; rw [if_pos hf] at hok; simp at hok
    · unfold ustarSize at hf ⊢; rw [if_neg hf] at hok
      simp only [Prod.mk.injEq, true_and] at hok
      refine ⟨?_, hok.1.symm, hok.2.symm⟩
      simpa [ustarFormatHeader] using hf

/-- … and when it does not: nothing is written. -/
theorem ustarWriteHeader_refused (st : WState) (e : Entry) (h : (ustarWriteHeader st e).1 ≠ .ok) :
    ustarWriteHeader st e = (.failed, [], st) := by
  unfold ustarWriteHeader at *
  cases hp : e.path with
  | none => rfl
  | some p0 =>
    rw [hp] at h
    simp only [] at h ⊢
    by_cases hf : (ustarFormatHeader e (dirSlash e.ftype p0)
        (if e.hard ≠ [] ∨ e.sym ≠ [] ∨ e.ftype ≠ .reg then 0 else e.sizeV) none true).1 = true
    · rw [if_pos hf]
    · rw [if_neg hf] at h; simp at h

theorem ustar_agrees (e : Entry) (p0 : List Nat) (hpath : e.path = some p0)
    (hnotrail : e.ftype = .reg → e.hard = [] → p0.getLast? ≠ some slash)
    (hhs : e.hard ≠ [] → e.sym = []) (t : Nat) (ht : ustarType e none = some t)
    (rb : RB) (rem : Nat)
    (hspec : ustarSpecRB e (dirSlash e.ftype p0) (ustarSize e) t = some (rb, rem)) :
    (norm .ustar e).mismatch rb 0 = none := by
  unfold ustarSize at hspec
  unfold ustarType at ht
  simp only [] at ht
  by_cases hh : e.hard ≠ []
  · rw [if_pos hh] at ht
    have ht' := Option.some.inj ht
    subst ht'
    have hs := hhs hh
    unfold ustarSpecRB tarTypeSwitch at hspec
    simp only [hh, hs, true_or, if_true, ne_eq, not_true_eq_false, not_false_eq_true] at hspec
    have h49 : ¬(49 = 51 ∨ 49 = 52) := by omega
    rw [if_neg h49] at hspec
    unfold tarDirFix at hspec
    have hreg : ¬((0 : Nat) = AE_IFREG ∧ (dirSlash e.ftype p0).getLast? = some slash) := by
      intro h; exact absurd h.1 (by decide)
    simp only [if_neg hreg, Option.some.injEq, Prod.mk.injEq] at hspec
    obtain ⟨hrb, _⟩ := hspec
    subst hrb
    have hl : tarLink e = e.hard := by unfold tarLink; rw [if_pos hh]
    simp [Exp.mismatch, norm, chkField, hpath, normPath, carriesHard, isTar, carriesIds, carriesNames, carriesRdev,
      permMask, isCpio, hh, hs, hl]
    by_cases hl2 : e.ftype = .lnk <;> simp [hl2]
  · rw [if_neg hh] at ht
    have hh' : e.hard = [] := by simpa using hh
    have hl : tarLink e = e.sym := by unfold tarLink; rw [if_neg hh]
    cases hf : e.ftype <;> rw [hf] at ht <;> simp only [ustarTypeflag] at ht
    all_goals cases ht
    all_goals
      unfold ustarSpecRB tarTypeSwitch tarDirFix at hspec
      simp [hf, hh', hl, AE_IFREG, AE_IFLNK, AE_IFCHR, AE_IFBLK, AE_IFDIR, AE_IFIFO] at hspec
    · -- regular file: the name does not end in '/', so the reader keeps it a regular file
      have hds : dirSlash FType.reg p0 = p0 := by unfold dirSlash; simp
      rw [hds, if_neg (hnotrail hf hh')] at hspec
      simp only [Prod.mk.injEq] at hspec
      obtain ⟨rfl, _⟩ := hspec
      by_cases hsym : e.sym = [] <;>
        simp [Exp.mismatch, norm, chkField, hpath, normPath, carriesHard, isTar, carriesIds, carriesNames, carriesRdev,
          permMask, isCpio, hh', hf, hsym, dirSlash, FType.bits, AE_IFREG]
    all_goals
      obtain ⟨rfl, _⟩ := hspec
      simp [Exp.mismatch, norm, chkField, hpath, normPath, carriesHard, isTar, carriesIds, carriesNames, carriesRdev,
        permMask, isCpio, hh', hf, FType.bits, AE_IFLNK, AE_IFCHR, AE_IFBLK, AE_IFDIR, AE_IFIFO]
theorem tarTypeSwitch_isSome (rb : RB) (t : Nat) (link : List Nat) (size : Int) (h : t = 49 → size = 0) :
    ∃ r, tarTypeSwitch rb t link size = some r := by
  unfold tarTypeSwitch
  by_cases h49 : t = 49
  · rw [if_pos h49, if_pos (h h49)]; exact ⟨_, rfl⟩
  · rw [if_neg h49]
    repeat (first | exact ⟨_, rfl⟩ | split)

/-- The reader's type switch never refuses what the writer produced (it refuses only a hard
link with a non-zero size, and the writer stores size 0 for every link). -/
theorem ustarSpecRB_isSome (e : Entry) (path : List Nat) (t : Nat) (ht : ustarType e none = some t) :
    ∃ r, ustarSpecRB e path (ustarSize e) t = some r := by
  have h49 : t = 49 → ustarSize e = 0 := by
    intro h49
    have hh : e.hard ≠ [] := by
      intro hh
      unfold ustarType at ht
      simp only [hh, ne_eq, not_true_eq_false, if_false] at ht
      cases hf : e.ftype <;> rw [hf] at ht <;> simp [ustarTypeflag] at ht <;> omega
    unfold ustarSize; rw [if_pos (Or.inl hh)]
  unfold ustarSpecRB
  obtain ⟨r, hr⟩ := tarTypeSwitch_isSome _ t (tarLink e) (ustarSize e) h49
  rw [hr]
  exact ⟨_, rfl⟩

end LA.Codec
