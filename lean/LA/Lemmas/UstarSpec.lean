/- The ustar byte model against the spec-level description (`norm .ustar`). Core Lean only. -/
import LA.Lemmas.UstarCodec
import LA.Model.FmtSpec
namespace LA.Codec
open LA.NumFmt LA.Gen.TarLayout LA.Gen.CodecConsts

/-- The strings of an entry are C strings of bytes. -/
def wfEntry (e : Entry) : Prop :=
  (∀ p, e.path = some p → wfStr p) ∧ wfStr e.uname ∧ wfStr e.gname ∧ wfStr e.sym ∧ wfStr e.hard

theorem wfStr_dirSlash (ft : FType) (p : List Nat) (h : wfStr p) : wfStr (dirSlash ft p) := by
  unfold dirSlash
  split
  · intro c hc
    rcases List.mem_append.1 hc with hc | hc
    · exact h c hc
    · simp only [List.mem_singleton] at hc; rw [hc]; decide
  · exact h

theorem wfStr_tarLink (e : Entry) (h : wfEntry e) : wfStr (tarLink e) := by
  unfold tarLink; split
  · exact h.2.2.2.2
  · exact h.2.2.2.1

/-- The size `archive_write_ustar_header` stores: only regular files that are no links have data. -/
def ustarSize (e : Entry) : Int := if e.hard ≠ [] ∨ e.sym ≠ [] ∨ e.ftype ≠ .reg then 0 else e.sizeV

/-- Unfolding `archive_write_ustar_header` when it reports success. -/
theorem ustarWriteHeader_ok (st : WState) (e : Entry) (b : List Nat) (st' : WState)
    (hok : ustarWriteHeader st e = (.ok, b, st')) :
    ∃ p0, e.path = some p0 ∧
      ustarFailed e (dirSlash e.ftype p0) (ustarSize e) none true = false ∧
      b = ustarHdr e (dirSlash e.ftype p0) (ustarSize e) ∧
      st' = { st with remaining := (ustarSize e).toNat, padding := pad512 (ustarSize e).toNat } := by
  unfold ustarWriteHeader at hok
  cases hp : e.path with
  | none => rw [hp] at hok; simp at hok
  | some p0 =>
    rw [hp] at hok
    simp only [] at hok
    refine ⟨p0, rfl, ?_⟩
    by_cases hf : (ustarFormatHeader e (dirSlash e.ftype p0) (ustarSize e) none true).1 = true
    · unfold ustarSize at hf; rw [if_pos hf] at hok; simp at hok
    · unfold ustarSize at hf ⊢; rw [if_neg hf] at hok
      simp only [Prod.mk.injEq, true_and] at hok
      refine ⟨?_, hok.1.symm, hok.2.symm⟩
      simpa [ustarFormatHeader] using hf

/-- … and when it does not: nothing is written. -/
theorem ustarWriteHeader_refused (st : WState) (e : Entry) (h : (ustarWriteHeader st e).1 ≠ .ok) :
    ustarWriteHeader st e = (.failed, [], st) := by
  unfold ustarWriteHeader at *
  cases hp : e.path with
  | none => rfl
  | some p0 =>
    rw [hp] at h
    simp only [] at h ⊢
    by_cases hf : (ustarFormatHeader e (dirSlash e.ftype p0)
        (if e.hard ≠ [] ∨ e.sym ≠ [] ∨ e.ftype ≠ .reg then 0 else e.sizeV) none true).1 = true
    · rw [if_pos hf]
    · rw [if_neg hf] at h; simp at h

theorem ustar_agrees (e : Entry) (p0 : List Nat) (hpath : e.path = some p0)
    (hnotrail : e.ftype = .reg → e.hard = [] → p0.getLast? ≠ some slash)
    (hhs : e.hard ≠ [] → e.sym = []) (t : Nat) (ht : ustarType e none = some t)
    (rb : RB) (rem : Nat)
    (hspec : ustarSpecRB e (dirSlash e.ftype p0) (ustarSize e) t = some (rb, rem)) :
    (norm .ustar e).mismatch rb 0 = none := by
  unfold ustarSize at hspec
  unfold ustarType at ht
  simp only [] at ht
  by_cases hh : e.hard ≠ []
  · rw [if_pos hh] at ht
    have ht' := Option.some.inj ht
    subst ht'
    have hs := hhs hh
    unfold ustarSpecRB tarTypeSwitch at hspec
    simp only [hh, hs, true_or, if_true, ne_eq, not_true_eq_false, not_false_eq_true] at hspec
    have h49 : ¬(49 = 51 ∨ 49 = 52) := by omega
    rw [if_neg h49] at hspec
    unfold tarDirFix at hspec
    have hreg : ¬((0 : Nat) = AE_IFREG ∧ (dirSlash e.ftype p0).getLast? = some slash) := by
      intro h; exact absurd h.1 (by decide)
    simp only [if_neg hreg, Option.some.injEq, Prod.mk.injEq] at hspec
    obtain ⟨hrb, _⟩ := hspec
    subst hrb
    have hl : tarLink e = e.hard := by unfold tarLink; rw [if_pos hh]
    simp [Exp.mismatch, norm, chkField, hpath, normPath, carriesHard, isTar, carriesIds, carriesNames, carriesRdev,
      permMask, isCpio, hh, hs, hl]
    by_cases hl2 : e.ftype = .lnk <;> simp [hl2]
  · rw [if_neg hh] at ht
    have hh' : e.hard = [] := by simpa using hh
    have hl : tarLink e = e.sym := by unfold tarLink; rw [if_neg hh]
    cases hf : e.ftype <;> rw [hf] at ht <;> simp only [ustarTypeflag] at ht
    all_goals cases ht
    all_goals
      unfold ustarSpecRB tarTypeSwitch tarDirFix at hspec
      simp [hf, hh', hl, AE_IFREG, AE_IFLNK, AE_IFCHR, AE_IFBLK, AE_IFDIR, AE_IFIFO] at hspec
    · -- regular file: the name does not end in '/', so the reader keeps it a regular file
      have hds : dirSlash FType.reg p0 = p0 := by unfold dirSlash; simp
      rw [hds, if_neg (hnotrail hf hh')] at hspec
      simp only [Prod.mk.injEq] at hspec
      obtain ⟨rfl, _⟩ := hspec
      by_cases hsym : e.sym = [] <;>
        simp [Exp.mismatch, norm, chkField, hpath, normPath, carriesHard, isTar, carriesIds, carriesNames, carriesRdev,
          permMask, isCpio, hh', hf, hsym, dirSlash, FType.bits, AE_IFREG]
    all_goals
      obtain ⟨rfl, _⟩ := hspec
      simp [Exp.mismatch, norm, chkField, hpath, normPath, carriesHard, isTar, carriesIds, carriesNames, carriesRdev,
        permMask, isCpio, hh', hf, FType.bits, AE_IFLNK, AE_IFCHR, AE_IFBLK, AE_IFDIR, AE_IFIFO]
theorem tarTypeSwitch_isSome (rb : RB) (t : Nat) (link : List Nat) (size : Int) (h : t = 49 → size = 0) :
    ∃ r, tarTypeSwitch rb t link size = some r := by
  unfold tarTypeSwitch
  by_cases h49 : t = 49
  · rw [if_pos h49, if_pos (h h49)]; exact ⟨_, rfl⟩
  · rw [if_neg h49]
    repeat (first | exact ⟨_, rfl⟩ | split)

/-- The reader's type switch never refuses what the writer produced (it refuses only a hard
link with a non-zero size, and the writer stores size 0 for every link). -/
theorem ustarSpecRB_isSome (e : Entry) (path : List Nat) (t : Nat) (ht : ustarType e none = some t) :
    ∃ r, ustarSpecRB e path (ustarSize e) t = some r := by
  have h49 : t = 49 → ustarSize e = 0 := by
    intro h49
    have hh : e.hard ≠ [] := by
      intro hh
      unfold ustarType at ht
      simp only [hh, ne_eq, not_true_eq_false, if_false] at ht
      cases hf : e.ftype <;> rw [hf] at ht <;> simp [ustarTypeflag] at ht <;> omega
    unfold ustarSize; rw [if_pos (Or.inl hh)]
  unfold ustarSpecRB
  obtain ⟨r, hr⟩ := tarTypeSwitch_isSome _ t (tarLink e) (ustarSize e) h49
  rw [hr]
  exact ⟨_, rfl⟩

theorem numfield_ok (v : Int) (off s mx : Nat) (act : Bool) (h : act = true → 0 ≤ v ∧ v.toNat < 8 ^ s) :
    (⟨v, off, s, mx, act⟩ : NumField).failed true = false := by
  unfold NumField.failed
  cases act with
  | false => rfl
  | true =>
    obtain ⟨h0, h1⟩ := h rfl
    simp only [Bool.true_and, ustarFormatNumber, if_true]
    rw [ustarFormatOctal_eq, if_neg (by omega), if_pos h1]

theorem representable_ustar_not_failed (e : Entry) (p0 : List Nat) (hp : e.path = some p0)
    (hr : representable .ustar e = true) :
    ustarFailed e (dirSlash e.ftype p0) (ustarSize e) none true = false := by
  unfold representable at hr
  rw [hp] at hr
  simp only [Bool.and_eq_true] at hr
  obtain ⟨⟨hshape, hranges⟩, hnames⟩ := hr
  unfold reprNames at hnames
  simp only [normPath, convertsNames, imp, Bool.not_false, Bool.true_or, Bool.true_and, Bool.and_eq_true,
    decide_eq_true_eq, bne_iff_ne, ne_eq] at hnames
  obtain ⟨⟨⟨hsplit, hsym⟩, hhard⟩, hdbl⟩ := hnames
  unfold reprRanges at hranges
  simp only [carriesIds, carriesNames, carriesRdev, idMax, mtimeRange, sizeMax, rdevMax, imp, inR, isCpio,
    Bool.not_true, Bool.false_or, Bool.and_eq_true, decide_eq_true_eq, Bool.true_and, beq_self_eq_true,
    Bool.true_or, Bool.or_eq_true, beq_iff_eq, Bool.not_eq_true', Bool.and_true] at hranges
  unfold reprShape at hshape
  simp only [imp, Bool.and_eq_true, Bool.or_eq_true, Bool.not_eq_true', List.isEmpty_eq_false_iff, beq_iff_eq,
    bne_iff_ne, ne_eq, carriesHard, isTar, Bool.true_and, Bool.and_true, List.isEmpty_iff] at hshape
  obtain ⟨⟨⟨⟨⟨⟨_, _⟩, htyp⟩, _⟩, _⟩, hhs⟩, _⟩ := hshape
  obtain ⟨⟨⟨⟨⟨huid, hgid⟩, hmt⟩, hsz⟩, hun, hgn⟩, hrdev⟩ := hranges
  have huid := of_decide_eq_true huid
  have hgid := of_decide_eq_true hgid
  have hmt := of_decide_eq_true hmt
  have h811 : (8 : Nat) ^ 11 = 8589934592 := by decide
  have h86 : (8 : Nat) ^ 6 = 262144 := by decide
  have hlinklen : (tarLink e).length ≤ 100 := by unfold tarLink; split <;> assumption
  have hsize : 0 ≤ ustarSize e ∧ (ustarSize e).toNat < 8 ^ 11 := by
    unfold ustarSize Entry.sizeV
    split
    · rw [h811]; omega
    · cases hs : e.size with
      | none => simp only [Option.getD_none]; rw [h811]; omega
      | some s => rw [hs] at hsz; have hsz := of_decide_eq_true hsz; simp only [Option.getD_some]; rw [h811]; omega
  unfold ustarFailed
  simp only [Bool.or_eq_false_iff, beq_eq_false_iff_ne, ne_eq, decide_eq_false_iff_not, Bool.and_eq_false_imp,
    decide_eq_true_eq, List.any_eq_false, Option.isNone_eq_false_iff, ustar_linkname_size, ustar_uname_size,
    ustar_gname_size]
  refine ⟨⟨⟨⟨⟨hsplit, decide_eq_false (by omega)⟩, fun h => absurd (of_decide_eq_true h) (by omega)⟩,
    fun h => absurd (of_decide_eq_true h) (by omega)⟩, ?_⟩, ?_⟩
  · intro f hf
    simp only [ustarNumFields, List.mem_cons, List.mem_nil_iff, or_false] at hf
    rcases hf with rfl | rfl | rfl | rfl | rfl | rfl | rfl
    · simp only [Bool.not_eq_true]; exact numfield_ok _ _ _ _ _ (fun _ => ⟨by omega, by simp only [ustar_mode_size]; rw [h86]; omega⟩)
    · simp only [Bool.not_eq_true]; exact numfield_ok _ _ _ _ _ (fun _ => ⟨by omega, by simp only [ustar_uid_size]; rw [h86]; omega⟩)
    · simp only [Bool.not_eq_true]; exact numfield_ok _ _ _ _ _ (fun _ => ⟨by omega, by simp only [ustar_gid_size]; rw [h86]; omega⟩)
    · simp only [Bool.not_eq_true]; exact numfield_ok _ _ _ _ _ (fun _ => ⟨hsize.1, by simp only [ustar_size_size]; exact hsize.2⟩)
    · simp only [Bool.not_eq_true]; exact numfield_ok _ _ _ _ _ (fun _ => ⟨by omega, by simp only [ustar_mtime_size]; rw [h811]; omega⟩)
    · simp only [Bool.not_eq_true]
      apply numfield_ok
      intro hact
      simp only [decide_eq_true_eq] at hact
      have : (e.ftype == FType.chr || e.ftype == FType.blk) = true := by
        rcases hact with h | h <;> simp [h]
      rcases hrdev with h | h
      · rw [this] at h; cases h
      · have h1 := of_decide_eq_true h.1; exact ⟨by omega, by simp only [ustar_rdevmajor_size]; rw [h86]; omega⟩
    · simp only [Bool.not_eq_true]
      apply numfield_ok
      intro hact
      simp only [decide_eq_true_eq] at hact
      have : (e.ftype == FType.chr || e.ftype == FType.blk) = true := by
        rcases hact with h | h <;> simp [h]
      rcases hrdev with h | h
      · rw [this] at h; cases h
      · have h2 := of_decide_eq_true h.2; exact ⟨by omega, by simp only [ustar_rdevminor_size]; rw [h86]; omega⟩
  · unfold ustarType
    simp only []
    by_cases hh : e.hard ≠ []
    · rw [if_pos hh]; simp
    · rw [if_neg hh]
      have hh' : e.hard = [] := by simpa using hh
      rcases htyp with h | h
      · cases hf : e.ftype <;> simp [hf, typesOf, ustarTypeflag] at h ⊢
      · exact absurd hh' h

/-- The reader expects exactly as many body bytes as the writer declared (and wrote). -/
theorem ustar_rem (e : Entry) (p0 : List Nat)
    (hnotrail : e.ftype = .reg → e.hard = [] → p0.getLast? ≠ some slash)
    (t : Nat) (ht : ustarType e none = some t) (rb : RB) (rem : Nat)
    (hspec : ustarSpecRB e (dirSlash e.ftype p0) (ustarSize e) t = some (rb, rem)) :
    rem = (ustarSize e).toNat ∧ rb.body = [] ∧ rb.bodySt = .eof := by
  unfold ustarSize at hspec ⊢
  unfold ustarType at ht
  simp only [] at ht
  by_cases hh : e.hard ≠ []
  · rw [if_pos hh] at ht
    have ht' := Option.some.inj ht
    subst ht'
    unfold ustarSpecRB tarTypeSwitch at hspec
    simp only [hh, true_or, if_true, ne_eq, not_true_eq_false, not_false_eq_true] at hspec
    have h49 : ¬(49 = 51 ∨ 49 = 52) := by omega
    rw [if_neg h49] at hspec
    unfold tarDirFix at hspec
    have hreg : ¬((0 : Nat) = AE_IFREG ∧ (dirSlash e.ftype p0).getLast? = some slash) := by
      intro h; exact absurd h.1 (by decide)
    simp only [if_neg hreg, Option.some.injEq, Prod.mk.injEq] at hspec
    obtain ⟨hrb, hrem⟩ := hspec
    subst hrb
    simp [hh, ← hrem]
  · rw [if_neg hh] at ht
    have hh' : e.hard = [] := by simpa using hh
    cases hf : e.ftype <;> rw [hf] at ht <;> simp only [ustarTypeflag] at ht
    all_goals cases ht
    all_goals
      unfold ustarSpecRB tarTypeSwitch tarDirFix at hspec
      simp [hf, hh', AE_IFREG, AE_IFLNK, AE_IFCHR, AE_IFBLK, AE_IFDIR, AE_IFIFO] at hspec
    · have hds : dirSlash FType.reg p0 = p0 := by unfold dirSlash; simp
      rw [hds, if_neg (hnotrail hf hh')] at hspec
      simp only [Prod.mk.injEq] at hspec
      obtain ⟨rfl, hrem⟩ := hspec
      simp [hh', hf, ← hrem]
    all_goals
      obtain ⟨rfl, hrem⟩ := hspec
      simp [hh', hf, ← hrem]

/-- Whether the header is accepted does not depend on the writer state. -/
theorem ustarWriteHeader_status_indep (st st' : WState) (e : Entry) :
    (ustarWriteHeader st e).1 = (ustarWriteHeader st' e).1 := by
  unfold ustarWriteHeader
  cases e.path with
  | none => rfl
  | some p0 =>
    simp only []
    by_cases hf : (ustarFormatHeader e (dirSlash e.ftype p0)
        (if e.hard ≠ [] ∨ e.sym ≠ [] ∨ e.ftype ≠ .reg then 0 else e.sizeV) none true).1 = true
    · rw [if_pos hf, if_pos hf]
    · rw [if_neg hf, if_neg hf]

theorem dirSlash_idem (ft : FType) (p : List Nat) : dirSlash ft (dirSlash ft p) = dirSlash ft p := by
  unfold dirSlash
  by_cases h : ft = .dir ∧ p ≠ [] ∧ p.getLast? ≠ some slash
  · rw [if_pos h]
    have : ¬(ft = .dir ∧ p ++ [slash] ≠ [] ∧ (p ++ [slash]).getLast? ≠ some slash) := by
      intro h'; exact h'.2.2 (by simp)
    rw [if_neg this]
  · rw [if_neg h, if_neg h]

end LA.Codec
