/-
Helper lemmas for C04, part 9: strings.  A cleaned path (other than ".") and
the paths the writer derives from it (ancestors, temporary name) are relative,
dot-free and have the expected components.
-/
import LA.Lemmas.PathClean
import LA.Lemmas.FSExec
set_option linter.unusedSimpArgs false
set_option linter.unusedVariables false
namespace LA.FS
open LA.PathClean

/-- A cleaned path other than ".": non-empty, every '/'-separated piece is a
real name (not empty, not ".", not ".."). -/
def Good (q : List Nat) : Prop := ∀ c ∈ splitSlash q, c ≠ [] ∧ c ≠ DOTN ∧ c ≠ DOTDOTN

theorem Good.ne_nil {q : List Nat} (h : Good q) : q ≠ [] := by
  rintro rfl
  exact (h [] (by simp [splitSlash])).1 rfl

theorem compsOf_good {q : List Nat} (h : Good q) : compsOf q = splitSlash q := by
  unfold compsOf
  apply List.filter_eq_self.mpr
  intro c hc
  have := (h c hc).1
  simpa using this

theorem isAbs_good {q : List Nat} (h : Good q) : isAbs q = false := by
  cases q with
  | nil => rfl
  | cons x r =>
    by_cases hx : x = SLASH
    · subst hx
      exact absurd rfl (h [] (by rw [splitSlash_cons_slash]; simp)).1
    · simp [isAbs, hx]

theorem splitSlash_snoc_slash (a : List Nat) : splitSlash (a ++ [SLASH]) = splitSlash a ++ [[]] := by
  have := splitSlash_append a []
  simpa [splitSlash] using this

theorem trailingSlash_good {q : List Nat} (h : Good q) : trailingSlash q = false := by
  unfold trailingSlash
  cases hl : q.getLast? with
  | none => rfl
  | some x =>
    by_cases hx : x = SLASH
    · subst hx
      have hq := dropLast_getLast? q SLASH hl
      have : [] ∈ splitSlash q := by rw [hq, splitSlash_snoc_slash]; simp
      exact absurd rfl (h [] this).1
    · simp [hx]

theorem rel_good {q : List Nat} (h : Good q) : Rel q := by
  refine ⟨?_, isAbs_good h, trailingSlash_good h, ?_⟩
  · rw [compsOf_good h]; exact splitSlash_ne_nil q
  · intro c hc; rw [compsOf_good h] at hc; exact ⟨(h c hc).2.1, (h c hc).2.2⟩

theorem fam_self {q : List Nat} (h : Good q) : Fam q q := Or.inr ⟨rel_good h, List.prefix_refl _⟩

theorem fam_dot : Fam [DOT] [DOT] := Or.inl rfl

/-- An ancestor: `q = p ++ "/" ++ rest`. -/
theorem good_prefix {q p rest : List Nat} (h : Good q) (hq : q = p ++ SLASH :: rest) :
    Good p ∧ splitSlash q = splitSlash p ++ splitSlash rest := by
  have hs : splitSlash q = splitSlash p ++ splitSlash rest := by rw [hq, splitSlash_append]
  exact ⟨fun c hc => h c (by rw [hs]; exact List.mem_append_left _ hc), hs⟩

theorem dropLast_prefix_of_prefix {α} {a b : List α} (h : a <+: b) : a.dropLast <+: b.dropLast := by
  obtain ⟨t, rfl⟩ := h
  cases t with
  | nil => simp
  | cons x t =>
    have : (a ++ x :: t).dropLast = a ++ (x :: t).dropLast := by
      rw [List.dropLast_append_of_ne_nil (by simp)]
    rw [this]
    exact List.IsPrefix.trans (List.dropLast_prefix a) (List.prefix_append _ _)

theorem fam_prefix {q p rest : List Nat} (h : Good q) (hq : q = p ++ SLASH :: rest) : Fam q p := by
  obtain ⟨hp, hs⟩ := good_prefix h hq
  refine Or.inr ⟨rel_good hp, ?_⟩
  unfold initOf
  rw [compsOf_good hp, compsOf_good h, hs]
  exact dropLast_prefix_of_prefix (List.prefix_append _ _)

/-- Appending slash-free bytes only changes the last component. -/
theorem splitSlash_append_noslash (a s : List Nat) (hs : ∀ x ∈ s, x ≠ SLASH) :
    ∃ i l, splitSlash a = i ++ [l] ∧ splitSlash (a ++ s) = i ++ [l ++ s] := by
  induction a with
  | nil => exact ⟨[], [], by simp [splitSlash], by simpa using splitSlash_clean hs⟩
  | cons x a ih =>
    obtain ⟨i, l, h1, h2⟩ := ih
    by_cases hx : x = SLASH
    · subst hx
      exact ⟨[] :: i, l, by rw [splitSlash_cons_slash, h1]; rfl, by
        rw [List.cons_append, splitSlash_cons_slash, h2]; rfl⟩
    · obtain ⟨h, t, e1, e2⟩ := splitSlash_cons_other a x hx
      obtain ⟨h', t', e1', e2'⟩ := splitSlash_cons_other (a ++ s) x hx
      rw [List.cons_append, e2', e2]
      rw [h1] at e1
      rw [h2] at e1'
      cases i with
      | nil =>
        simp only [List.nil_append, List.cons.injEq] at e1 e1'
        obtain ⟨rfl, rfl⟩ := e1
        obtain ⟨rfl, rfl⟩ := e1'
        exact ⟨[], x :: l, rfl, rfl⟩
      | cons i0 i =>
        simp only [List.cons_append, List.cons.injEq] at e1 e1'
        obtain ⟨rfl, rfl⟩ := e1
        obtain ⟨rfl, rfl⟩ := e1'
        exact ⟨(x :: i0) :: i, l, rfl, rfl⟩

theorem fam_tmp {q : List Nat} (h : Good q) : Fam q (tmpName q) := by
  have hsfx : ∀ x ∈ [46, 88, 88, 88, 88, 88, 88], x ≠ SLASH := by decide
  obtain ⟨i, l, h1, h2⟩ := splitSlash_append_noslash q [46, 88, 88, 88, 88, 88, 88] hsfx
  have hg : Good (tmpName q) := by
    intro c hc
    unfold tmpName at hc
    rw [h2] at hc
    simp only [List.mem_append, List.mem_singleton] at hc
    rcases hc with hc | rfl
    · exact h c (by rw [h1]; simp [hc])
    · refine ⟨by simp, ?_, ?_⟩
      · intro e; have := congrArg List.length e; simp [DOTN] at this
      · intro e; have := congrArg List.length e; simp [DOTDOTN] at this
  refine Or.inr ⟨rel_good hg, ?_⟩
  unfold initOf
  rw [compsOf_good hg, compsOf_good h]
  unfold tmpName
  rw [h1, h2]
  simp

end LA.FS
