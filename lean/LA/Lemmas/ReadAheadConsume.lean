import LA.Lemmas.ReadAheadSpec
set_option linter.unusedSimpArgs false
namespace LA.RA

theorem dropBytes_flatten (src : List (List Nat)) (k : Nat) :
    (dropBytes src k).flatten = src.flatten.drop k := by
  induction src generalizing k with
  | nil => simp [dropBytes]
  | cons b rest ih =>
    unfold dropBytes
    by_cases h0 : k = 0
    · simp [h0]
    · simp only [h0, if_false]
      by_cases hl : k < b.length
      · simp only [hl, if_true, List.flatten_cons]
        rw [List.drop_append]
        have : k - b.length = 0 := by omega
        simp [this]
      · simp only [hl, if_false, List.flatten_cons, ih]
        rw [List.drop_append]
        have : b.drop k = [] := List.drop_of_length_le (by omega)
        simp [this]

theorem dropBytes_ok (src : List (List Nat)) (k : Nat) (h : SrcOk src) : SrcOk (dropBytes src k) := by
  induction src generalizing k with
  | nil => simp [dropBytes, SrcOk]
  | cons b rest ih =>
    unfold dropBytes
    have hr : SrcOk rest := fun x hx => h x (List.mem_cons_of_mem _ hx)
    by_cases h0 : k = 0
    · simpa [h0] using h
    · simp only [h0, if_false]
      by_cases hl : k < b.length
      · simp only [hl, if_true]
        intro x hx
        rcases List.mem_cons.mp hx with rfl | hm
        · intro hn
          have : (b.drop k).length = 0 := by rw [hn]; rfl
          simp at this; omega
        · exact hr x hm
      · simp only [hl, if_false]; exact ih _ hr

/-- All skip answers come from a well-behaved skipper (no error codes). -/
def SkipsOk (sk : List Int) : Prop := ∀ g ∈ sk, 0 ≤ g

/-- `skipLoop` only touches `src` and `skips`; it removes `j ≤ request` bytes. -/
theorem skipLoop_spec (s : State) (request total : Nat) (sk : List Int) (hok : SrcOk s.src) :
    let r := skipLoop s request total sk
    (∃ j, j ≤ request ∧ j ≤ srcLen s.src ∧ r.2.src.flatten = s.src.flatten.drop j ∧
        (r.1 = ((total + j : Nat) : Int) ∨ (r.1 < 0 ∧ ¬ SkipsOk sk))) ∧
    SrcOk r.2.src ∧
    r.2 = { s with src := r.2.src, skips := r.2.skips } := by
  induction sk generalizing s request total with
  | nil =>
    simp only [skipLoop]
    exact ⟨⟨0, by omega, by omega, by simp, Or.inl (by simp)⟩, hok, by first | rfl | trivial⟩
  | cons get rest ih =>
    simp only [skipLoop]
    by_cases h1 : get = -999
    · rw [if_pos h1]
      refine ⟨⟨0, by omega, by omega, by simp, Or.inr ⟨by omega, ?_⟩⟩, hok, by first | rfl | trivial⟩
      intro h; have := h (-999) (by simp [h1]); omega
    · rw [if_neg h1]
      by_cases h2 : get < 0
      · rw [if_pos h2]
        refine ⟨⟨0, by omega, by omega, by simp, Or.inr ⟨h2, ?_⟩⟩, hok, by first | rfl | trivial⟩
        intro h; have := h get (by simp); omega
      · rw [if_neg h2]
        generalize hg : Nat.min (Nat.min get.toNat request) (srcLen s.src) = g
        have hg1 : g ≤ request := by
          rw [← hg]; exact Nat.le_trans (Nat.min_le_left _ _) (Nat.min_le_right _ _)
        have hg2 : g ≤ srcLen s.src := by rw [← hg]; exact Nat.min_le_right _ _
        by_cases h3 : g = 0 ∨ g = request
        · rw [if_pos h3]
          exact ⟨⟨g, hg1, hg2, by simp [dropBytes_flatten], Or.inl rfl⟩,
                 dropBytes_ok _ _ hok, by first | rfl | trivial⟩
        · rw [if_neg h3]
          have hok' := dropBytes_ok s.src g hok
          obtain ⟨⟨j, j1, j2, j3, j4⟩, k1, k2⟩ :=
            ih { s with src := dropBytes s.src g } (request - g) (total + g) hok'
          refine ⟨⟨g + j, by omega, ?_, ?_, ?_⟩, k1, ?_⟩
          · simp only [srcLen, dropBytes_flatten, List.length_drop] at j2 ⊢
            unfold srcLen at hg2
            omega
          · rw [j3]; simp [dropBytes_flatten, List.drop_drop]
          · rcases j4 with j4 | ⟨j4, j5⟩
            · left; rw [j4]; push_cast; omega
            · right; refine ⟨j4, ?_⟩
              intro h; apply j5; intro x hx; exact h x (List.mem_cons_of_mem _ hx)
          · rw [k2]
/-- Outcome of `advance_file_pointer` relative to the abstract stream. -/
def GoodAdv (s : State) (n : Nat) (skOk : Prop) (r : Int × State) : Prop :=
  Inv r.2 ∧ r.2.term = s.term ∧ (∃ k, remaining r.2 = (remaining s).drop k) ∧
  ((r.1 = (n : Int) ∧ n ≤ (remaining s).length ∧ remaining r.2 = (remaining s).drop n ∧
      r.2.position = s.position + n ∧ r.2.fatal = false) ∨
   (r.1 = ((remaining s).length : Int) ∧ (remaining s).length < n ∧ s.term = .eof ∧
      remaining r.2 = [] ∧ r.2.fatal = false) ∨
   (r.1 < 0 ∧ r.2.fatal = true ∧ (¬ skOk ∨ ((remaining s).length < n ∧ s.term = .err))))

theorem readSkipLoop_spec (s : State) (request total : Nat) (hi : Inv s) (hf : s.fatal = false)
    (hcb : s.cb = []) (hca : s.cavail = 0) (hr : 0 < request) :
    let r := readSkipLoop s request total
    Inv r.2 ∧ r.2.term = s.term ∧ (∃ k, remaining r.2 = (remaining s).drop k) ∧
    ((r.1 = ((total + request : Nat) : Int) ∧ request ≤ (remaining s).length ∧
        remaining r.2 = (remaining s).drop request ∧ r.2.position = s.position + request ∧ r.2.fatal = false) ∨
     (r.1 = ((total + (remaining s).length : Nat) : Int) ∧ (remaining s).length < request ∧ s.term = .eof ∧
        remaining r.2 = [] ∧ r.2.fatal = false) ∨
     (r.1 < 0 ∧ r.2.fatal = true ∧ (remaining s).length < request ∧ s.term = .err)) := by
  fun_induction readSkipLoop s request total
  case case1 s request total hsrc nxt more hlat ih =>
    have hin : Inv { s with src := nxt, later := more } :=
      { cbIn := hi.cbIn, bufLt := hi.bufLt, clientEq := hi.clientEq, prov := hi.prov,
        eofSrc := by intro he; have := hi.eofSrc he; rw [hlat] at this; simp at this,
        srcOk := hi.laterOk nxt (by simp [hlat]),
        laterOk := fun n hn => hi.laterOk n (by simp [hlat, hn]) }
    have hrem : remaining { s with src := nxt, later := more } = remaining s := by
      simp [remaining, hsrc, hlat]
    have := ih hin hf hcb hca hr
    rw [hrem] at this
    exact this
  case case2 s request total hsrc hlat hterm =>
    have hrem : remaining s = [] := by
      rw [remaining_eq s hi.clientEq, hcb]
      have : s.cblk.drop s.cnext = [] := List.drop_of_length_le (by have := hi.clientEq; omega)
      simp [this, tailBytes, hsrc, hlat]
    refine ⟨{ hi with eofSrc := hi.eofSrc }, rfl, ⟨0, by simp; rfl⟩, Or.inr (Or.inr ⟨by simp, rfl, by simp [hrem]; exact hr, hterm⟩)⟩
  case case3 s request total hsrc hlat hterm =>
    have hrem : remaining s = [] := by
      rw [remaining_eq s hi.clientEq, hcb]
      have : s.cblk.drop s.cnext = [] := List.drop_of_length_le (by have := hi.clientEq; omega)
      simp [this, tailBytes, hsrc, hlat]
    refine ⟨{ hi with eofSrc := by intro _; exact ⟨hsrc, hlat, hterm⟩ }, rfl, ⟨0, by simp; rfl⟩, Or.inr (Or.inl ⟨by simp [hrem], by simp [hrem]; exact hr, hterm, ?_, hf⟩)⟩
    exact hrem
  case case4 s request total rest hsrc =>
    exfalso; exact hi.srcOk [] (by simp [hsrc]) rfl
  case case5 s request total b bs rest hsrc n hn =>
    have hc := hi.clientEq
    have hd : s.cblk.drop s.cnext = [] := List.drop_of_length_le (by omega)
    have hrem : remaining s = (b :: bs) ++ (rest.flatten ++ s.later.flatten.flatten) := by
      rw [remaining_eq s hc, hcb]; simp [hd, tailBytes, hsrc]
    have hn' : request ≤ (b :: bs).length := hn
    have hdrop : remaining { s with cblk := b :: bs, cnext := request, cavail := n - request, position := s.position + request, src := rest } = (remaining s).drop request := by
      rw [hrem]
      unfold remaining
      simp only [hcb, List.nil_append]
      have : ((b :: bs).drop request).take (n - request) = (b :: bs).drop request :=
        List.take_of_length_le (by simp [n])
      rw [this, List.drop_append]
      have : request - (bs.length + 1) = 0 := by simp at hn'; omega
      simp [this]
    refine ⟨?_, rfl, ⟨request, hdrop⟩, Or.inl ⟨rfl, ?_, hdrop, rfl, hf⟩⟩
    · exact { cbIn := by have := hi.cbIn; simp [hcb] at this ⊢; omega, bufLt := hi.bufLt,
              clientEq := by simp only [n]; omega,
              prov := ⟨[], [], by simp [hcb]⟩,
              eofSrc := by
                intro he; have := hi.eofSrc he; rw [hsrc] at this; simp at this,
              srcOk := fun x hx => hi.srcOk x (by rw [hsrc]; exact List.mem_cons_of_mem _ hx), laterOk := hi.laterOk }
    · rw [hrem]; simp at hn' ⊢; omega
  case case6 s request total b bs rest hsrc n hn ih =>
    have hc := hi.clientEq
    have hd : s.cblk.drop s.cnext = [] := List.drop_of_length_le (by omega)
    have hrem : remaining s = (b :: bs) ++ (rest.flatten ++ s.later.flatten.flatten) := by
      rw [remaining_eq s hc, hcb]; simp [hd, tailBytes, hsrc]
    have hn' : (b :: bs).length < request := by simpa [n] using hn
    have hin : Inv { s with position := s.position + n, src := rest } :=
      { cbIn := hi.cbIn, bufLt := hi.bufLt, clientEq := hi.clientEq, prov := hi.prov,
        eofSrc := by intro he; have := hi.eofSrc he; rw [hsrc] at this; simp at this,
        srcOk := fun x hx => hi.srcOk x (by rw [hsrc]; exact List.mem_cons_of_mem _ hx), laterOk := hi.laterOk }
    have hrem' : remaining { s with position := s.position + n, src := rest } = rest.flatten ++ s.later.flatten.flatten := by
      rw [remaining_eq _ hin.clientEq]; simp [hcb, hd, tailBytes]
    generalize rest.flatten ++ s.later.flatten.flatten = T at hrem hrem'
    obtain ⟨i1, i2, ⟨k, ik⟩, i3⟩ := ih hin hf hcb hca (by omega)
    refine ⟨i1, i2, ⟨(b :: bs).length + k, ?_⟩, ?_⟩
    · rw [ik, hrem', hrem, List.drop_append]
      have : (b :: bs).drop ((b :: bs).length + k) = [] := List.drop_of_length_le (by omega)
      rw [this]; simp
    rw [hrem'] at i3
    rw [hrem]
    have hnl : n = bs.length + 1 := by simp [n]
    have hl : (b :: bs ++ T).length = bs.length + 1 + T.length := by
      simp; omega
    have hn2 : bs.length + 1 < request := by simpa using hn'
    rcases i3 with ⟨a1, a2, a3, a4, a5⟩ | ⟨a1, a2, a3, a4, a5⟩ | ⟨a1, a2, a3, a4⟩
    · left
      have a4' : _ = s.position + n + (request - n) := a4
      refine ⟨by rw [a1]; congr 1; omega, by rw [hl]; omega, ?_, by rw [a4']; omega, a5⟩
      rw [a3, List.drop_append]
      have : (b :: bs).drop request = [] := List.drop_of_length_le (by simp; omega)
      rw [this]; simp [hnl]
    · right; left
      refine ⟨by rw [a1]; congr 1; rw [hl]; omega, by rw [hl]; omega, a3, a4, a5⟩
    · right; right
      exact ⟨a1, a2, by rw [hl]; omega, a4⟩

theorem drop_drop_eq (l : List Nat) (a b : Nat) : (l.drop a).drop b = l.drop (a + b) := by
  rw [List.drop_drop]

theorem useBuffers_spec (s : State) (request : Nat) (hi : Inv s) :
    let r := useBuffers s request
    Inv r.1 ∧ r.2 ≤ request ∧ r.2 ≤ (remaining s).length ∧ remaining r.1 = (remaining s).drop r.2 ∧
    r.1.position = s.position + r.2 ∧ r.1.term = s.term ∧ r.1.fatal = s.fatal ∧ r.1.src = s.src ∧
    r.1.skips = s.skips ∧ r.1.canSkip = s.canSkip ∧ r.1.later = s.later ∧
    (r.2 < request → r.1.cb = [] ∧ r.1.cavail = 0) := by
  intro r
  have hc := hi.clientEq
  obtain ⟨old, cur, p1, p2, p3, p4⟩ := hi.prov
  have hm1 : Nat.min request s.cb.length ≤ request := Nat.min_le_left _ _
  have hm1' : Nat.min request s.cb.length ≤ s.cb.length := Nat.min_le_right _ _
  generalize hm1e : Nat.min request s.cb.length = m1 at hm1 hm1'
  have hm2 : Nat.min (request - m1) s.cavail ≤ request - m1 := Nat.min_le_left _ _
  have hm2' : Nat.min (request - m1) s.cavail ≤ s.cavail := Nat.min_le_right _ _
  generalize hm2e : Nat.min (request - m1) s.cavail = m2 at hm2 hm2'
  have hm1c : m1 = request ∨ m1 = s.cb.length := by
    have : min request s.cb.length = m1 := hm1e
    rw [Nat.min_def] at this; split at this <;> omega
  have hm2c : m2 = request - m1 ∨ m2 = s.cavail := by
    have : min (request - m1) s.cavail = m2 := hm2e
    rw [Nat.min_def] at this; split at this <;> omega
  have hr : r = ({ s with next := s.next + m1, cb := s.cb.drop m1, position := s.position + m1 + m2,
                          cnext := s.cnext + m2, cavail := s.cavail - m2 }, m1 + m2) := by
    simp only [r, useBuffers, hm1e, hm2e]
  -- either nothing is taken from the client block, or the copy buffer is empty afterwards
  have hsplit : m2 = 0 ∨ s.cb.drop m1 = [] := by
    by_cases h : m1 = s.cb.length
    · right; rw [h]; simp
    · left; omega
  rw [hr]
  refine ⟨?_, by simp; omega, ?_, ?_, by simp; omega, rfl, rfl, rfl, rfl, rfl, rfl, ?_⟩
  · refine { cbIn := by have := hi.cbIn; simp; omega, bufLt := hi.bufLt, clientEq := by simp; omega,
             prov := ?_, eofSrc := hi.eofSrc, srcOk := hi.srcOk, laterOk := hi.laterOk }
    rcases hsplit with h0 | h0
    · -- client untouched
      simp only [h0, Nat.add_zero]
      by_cases hle : m1 ≤ old.length
      · refine ⟨old.drop m1, cur, ?_, p2, p3, ?_⟩
        · rw [p1, List.drop_append]
          have : m1 - old.length = 0 := by omega
          simp [this]
        · intro ho; apply p4; intro hn; rw [hn] at ho; simp at ho
      · refine ⟨[], cur.drop (m1 - old.length), ?_, by simp; omega, ?_, by simp⟩
        · rw [p1, List.drop_append]
          have : old.drop m1 = [] := List.drop_of_length_le (by omega)
          simp [this]
        · have hcl : cur.length + old.length = s.cb.length := by rw [p1]; simp; omega
          simp only [List.length_drop]
          conv => lhs; rw [p3]
          rw [List.drop_drop]
          congr 1
          omega
    · exact ⟨[], [], by simp [h0], by simp, by simp, by simp⟩
  · rw [remaining_eq s hc]
    simp only [List.length_append]
    have : (s.cblk.drop s.cnext).length = s.cavail := by simp; omega
    omega
  · have hc' : (s.cnext + m2) + (s.cavail - m2) = s.cblk.length := by omega
    rw [remaining_eq s hc, remaining_eq _ hc']
    simp only [List.append_assoc, tailBytes]
    rw [List.drop_append]
    rcases hsplit with h0 | h0
    · have : m1 + m2 - s.cb.length = 0 := by omega
      have h3 : m1 - s.cb.length = 0 := by omega
      simp [h0, this, h3]
    · have hm : m1 = s.cb.length := by
        have : (s.cb.drop m1).length = 0 := by rw [h0]; rfl
        simp at this; omega
      have h1 : s.cb.drop (m1 + m2) = [] := List.drop_of_length_le (by omega)
      rw [h0, h1]
      simp only [List.nil_append]
      have : m1 + m2 - s.cb.length = m2 := by omega
      rw [this, List.drop_append]
      have : (s.cblk.drop s.cnext).length = s.cavail := by simp; omega
      have h2 : m2 - (s.cblk.drop s.cnext).length = 0 := by omega
      rw [h2]
      simp [List.drop_drop]
  · intro hlt
    simp only [] at hlt
    constructor
    · show s.cb.drop m1 = []
      apply List.drop_of_length_le
      omega
    · show s.cavail - m2 = 0
      omega

theorem useBuffers_frame (s : State) (n : Nat) :
    (useBuffers s n).1.noSkipper = s.noSkipper ∧ (useBuffers s n).1.hasSeeker = s.hasSeeker := by
  simp [useBuffers]

theorem advance_spec (s : State) (n : Nat) (hi : Inv s) (hf : s.fatal = false) (hn : 0 < n)
    (hns : NoSeekSkip s) :
    GoodAdv s n (SkipsOk s.skips) (advance s n) := by
  unfold advance
  simp only [hf, Bool.false_eq_true, if_false]
  obtain ⟨u1, u2, u3, u4, u5, u6, u7, u8, u9, u10, u12, u11⟩ := useBuffers_spec s n hi
  obtain ⟨w1, w2⟩ := useBuffers_frame s n
  generalize useBuffers s n = ub at *
  obtain ⟨s2, total⟩ := ub
  simp only [] at u1 u2 u3 u4 u5 u6 u7 u8 u9 u10 u11 u12 w1 w2 ⊢
  by_cases h0 : n - total = 0
  · simp only [h0, if_true]
    have : total = n := by omega
    subst this
    exact ⟨u1, u6, ⟨total, u4⟩, Or.inl ⟨rfl, u3, u4, u5, by rw [u7, hf]⟩⟩
  · simp only [h0, if_false]
    have hlt : total < n := by omega
    obtain ⟨hcb, hca⟩ := u11 hlt
    have hc2 := u1.clientEq
    have hd2 : s2.cblk.drop s2.cnext = [] := List.drop_of_length_le (by omega)
    have hrem2 : remaining s2 = s2.src.flatten ++ s2.later.flatten.flatten := by
      rw [remaining_eq s2 hc2, hcb, hd2]; simp [tailBytes]
    have hlen : (remaining s).length = total + (s2.src.flatten ++ s2.later.flatten.flatten).length := by
      have : (remaining s2).length = (remaining s).length - total := by rw [u4]; simp
      rw [hrem2] at this; omega
    have hlen2 : (s2.src.flatten ++ s2.later.flatten.flatten).length =
        s2.src.flatten.length + s2.later.flatten.flatten.length := List.length_append
    -- the skip step
    have hskip : ∃ r s3, (if s2.canSkip then (if s2.noSkipper then seekSkip s2 (n - total) else skipLoop s2 (n - total) 0 s2.skips) else ((0 : Int), s2)) = (r, s3) ∧
        SrcOk s3.src ∧ s3 = { s2 with src := s3.src, skips := s3.skips } ∧
        ∃ j, j ≤ n - total ∧ j ≤ s2.src.flatten.length ∧ s3.src.flatten = s2.src.flatten.drop j ∧
          (r = (j : Int) ∨ (r < 0 ∧ ¬ SkipsOk s.skips)) := by
      by_cases hcs : s2.canSkip = true
      · rw [if_pos hcs]
        by_cases hno : s2.noSkipper = true
        · -- no skip callback: by `NoSeekSkip` there is no seek callback either, nothing is skipped
          rw [if_pos hno]
          have hsk : s2.hasSeeker = false := by
            rcases hns with h | h
            · rw [w1, h] at hno; cases hno
            · rw [w2]; exact h
          have : seekSkip s2 (n - total) = (0, s2) := by simp [seekSkip, hsk]
          rw [this]
          exact ⟨0, s2, rfl, u1.srcOk, rfl, 0, by omega, by omega, by simp, Or.inl rfl⟩
        rw [if_neg hno]
        obtain ⟨⟨j, j1, j2, j3, j4⟩, k1, k2⟩ := skipLoop_spec s2 (n - total) 0 s2.skips u1.srcOk
        refine ⟨_, _, rfl, k1, k2, j, j1, j2, j3, ?_⟩
        rcases j4 with j4 | ⟨j4, j5⟩
        · left; simpa using j4
        · right; exact ⟨j4, by rw [← u9]; exact j5⟩
      · rw [if_neg hcs]
        exact ⟨0, s2, rfl, u1.srcOk, rfl, 0, by omega, by omega, by simp, Or.inl rfl⟩
    obtain ⟨r, s3, e1, k1, k2, j, j1, j2, j3, j4⟩ := hskip
    rw [e1]
    simp only []
    have hi3 : Inv s3 := by
      rw [k2]
      exact { cbIn := u1.cbIn, bufLt := u1.bufLt, clientEq := u1.clientEq, prov := u1.prov,
              eofSrc := by
                intro he; have := u1.eofSrc he
                refine ⟨?_, this.2⟩
                have h := this.1
                rw [h] at j3; simp at j3
                cases hs : s3.src with
                | nil => rfl
                | cons b t =>
                  exfalso
                  have hb := k1 b (by rw [hs]; simp)
                  rw [hs] at j3; simp at j3; exact hb j3.1,
              srcOk := k1, laterOk := u1.laterOk }
    have hrem3 : remaining s3 = (remaining s).drop (total + j) := by
      have : remaining s3 = s3.src.flatten ++ s2.later.flatten.flatten := by
        rw [remaining_eq s3 hi3.clientEq]
        have h1 : s3.cb = [] := by rw [k2]; exact hcb
        have h2 : s3.cblk.drop s3.cnext = [] := by rw [k2]; exact hd2
        have h3 : s3.later = s2.later := by rw [k2]
        rw [h1, h2]; simp [tailBytes, h3]
      have hdj : (s2.src.flatten ++ s2.later.flatten.flatten).drop j =
          s2.src.flatten.drop j ++ s2.later.flatten.flatten := by
        rw [List.drop_append]
        have hz : j - s2.src.flatten.length = 0 := by omega
        rw [hz]; rfl
      rw [this, j3, ← hdj, ← hrem2, u4, List.drop_drop]
    rcases j4 with j4 | ⟨j4, j5⟩
    · -- well-behaved answer
      have hr : ¬ r < 0 := by rw [j4]; omega
      simp only [hr, if_false]
      have hk : r.toNat = j := by rw [j4]; simp
      rw [hk]
      by_cases h1 : n - total - j = 0
      · simp only [h1, if_true]
        have hj : total + j = n := by omega
        refine ⟨?_, ?_, ⟨total + j, ?_⟩, Or.inl ⟨by simp; omega, by omega, ?_, ?_, ?_⟩⟩
        · exact { hi3 with }
        · show s3.term = s.term; rw [k2]; exact u6
        · show remaining { s3 with position := s3.position + j } = _
          have : remaining { s3 with position := s3.position + j } = remaining s3 := rfl
          rw [this, hrem3]
        · have : remaining { s3 with position := s3.position + j } = remaining s3 := rfl
          rw [this, hrem3, hj]
        · show s3.position + j = s.position + n
          have : s3.position = s2.position := by rw [k2]
          rw [this, u5]; omega
        · show s3.fatal = false
          have : s3.fatal = s2.fatal := by rw [k2]
          rw [this, u7, hf]
      · simp only [h1, if_false]
        have hi4 : Inv { s3 with position := s3.position + j } := { hi3 with }
        have hrem4 : remaining { s3 with position := s3.position + j } = remaining s3 := rfl
        have hf4 : ({ s3 with position := s3.position + j } : State).fatal = false := by
          show s3.fatal = false
          have : s3.fatal = s2.fatal := by rw [k2]
          rw [this, u7, hf]
        have hcb4 : ({ s3 with position := s3.position + j } : State).cb = [] := by
          show s3.cb = []; rw [k2]; exact hcb
        have hca4 : ({ s3 with position := s3.position + j } : State).cavail = 0 := by
          show s3.cavail = 0; rw [k2]; exact hca
        obtain ⟨i1, i2, ⟨k, ik⟩, i3⟩ := readSkipLoop_spec { s3 with position := s3.position + j }
          (n - total - j) (total + j) hi4 hf4 hcb4 hca4 (by omega)
        have hterm : ({ s3 with position := s3.position + j } : State).term = s.term := by
          show s3.term = s.term; rw [k2]; exact u6
        have hpos : ({ s3 with position := s3.position + j } : State).position = s.position + total + j := by
          show s3.position + j = _
          have : s3.position = s2.position := by rw [k2]
          rw [this, u5]
        rw [hrem4, hrem3, hpos] at i3
        have i2 := i2.trans hterm
        have hl3 : ((remaining s).drop (total + j)).length = (remaining s).length - (total + j) := by simp
        refine ⟨i1, i2, ⟨total + j + k, ?_⟩, ?_⟩
        · rw [ik, hrem4, hrem3, List.drop_drop]
        · rcases i3 with ⟨a1, a2, a3, a4, a5⟩ | ⟨a1, a2, a3, a4, a5⟩ | ⟨a1, a2, a3, a4⟩
          · left
            rw [hl3] at a2
            refine ⟨by rw [a1]; congr 1; omega, by omega, ?_, by rw [a4]; omega, a5⟩
            rw [a3, List.drop_drop]; congr 1; omega
          · right; left
            rw [hl3] at a1 a2
            exact ⟨by rw [a1]; congr 1; omega, by omega, hterm.symm.trans a3, a4, a5⟩
          · right; right
            rw [hl3] at a3
            exact ⟨a1, a2, Or.inr ⟨by omega, hterm.symm.trans a4⟩⟩
    · -- the skip callback failed or misbehaved
      simp only [j4, if_true]
      refine ⟨?_, ?_, ⟨total + j, ?_⟩, Or.inr (Or.inr ⟨j4, rfl, Or.inl j5⟩)⟩
      · exact { hi3 with }
      · show s3.term = s.term; rw [k2]; exact u6
      · have : remaining { s3 with fatal := true } = remaining s3 := rfl
        rw [this, hrem3]

end LA.RA
