/- Helper lemmas for `LA.Unicode` (property C18). -/
import LA.Model.Unicode
set_option linter.unusedSimpArgs false
set_option linter.unusedVariables false
namespace LA.Unicode
open LA.Gen.Utf8Table

/-! ### the extracted table `utf8_count` -/

/-- What the table is expected to say about a lead byte. -/
def leadClass (ch : Nat) : Nat :=
  if ch < 0x80 then 1 else if ch < 0xc2 then 0 else if ch < 0xe0 then 2
  else if ch < 0xf0 then 3 else if ch < 0xf5 then 4 else 0

def tableAgrees : List Nat → Nat → Bool
  | [], _ => true
  | v :: r, i => v == leadClass i && tableAgrees r (i + 1)

theorem tableAgrees_getD (l : List Nat) (i : Nat) (h : tableAgrees l i = true) (j : Nat) :
    l.getD j 0 = if j < l.length then leadClass (i + j) else 0 := by
  induction l generalizing i j with
  | nil => simp
  | cons v r ih =>
    simp only [tableAgrees, Bool.and_eq_true, beq_iff_eq] at h
    cases j with
    | zero => simp [h.1]
    | succ j =>
      have := ih (i + 1) h.2 j
      simp only [List.getD_cons_succ, List.length_cons, Nat.add_lt_add_iff_right]
      rw [this]; congr 2; omega

/-- Table lemma (checked against the regenerated `Gen/Utf8Table` on every build). -/
theorem utf8Count_agrees : tableAgrees utf8Count 0 = true := by decide +kernel

theorem utf8Count_length : utf8Count.length = 256 := by decide +kernel

theorem count_spec (ch : Nat) : utf8Count.getD ch 0 = leadClass ch := by
  rw [tableAgrees_getD utf8Count 0 utf8Count_agrees ch, utf8Count_length]
  split
  · simp
  · simp only [leadClass]; repeat' split
    all_goals omega

/-! ### `_utf8_to_unicode` by cases -/

theorem contScan_bounds (xs : List Nat) (i k c : Nat) (h : contScan xs i k = some c) : i ≤ c ∧ c ≤ i + k := by
  induction k generalizing i with
  | zero => simp [contScan] at h; omega
  | succ k ih =>
    simp only [contScan] at h
    split at h
    · simp at h
    · split at h
      · have := ih (i + 1) h; omega
      · simp at h; omega

theorem contScan_none (xs : List Nat) (i k : Nat) (h : contScan xs i k = none) : xs.length < i + k := by
  induction k generalizing i with
  | zero => simp [contScan] at h
  | succ k ih =>
    simp only [contScan] at h
    split at h
    · rename_i hn; simp at hn; omega
    · split at h
      · have := ih (i + 1) h; omega
      · simp at h

/-- Everything `_utf8_to_unicode` can answer, by cases. -/
inductive Utf8RawSpec (xs : List Nat) (n : Nat) : Dec → Prop
  | endN : n = 0 → Utf8RawSpec xs n (.ret 0 none)
  | endNul : 0 < n → xs[0]? = some 0 → Utf8RawSpec xs n (.ret 0 none)
  | oob : xs.length < n → Utf8RawSpec xs n .oob
  | bad (c : Nat) : 1 ≤ c → c ≤ n → Utf8RawSpec xs n (.ret (-(c : Int)) (some unicodeRChar))
  | ok1 (ch : Nat) : xs[0]? = some ch → 0 < ch → ch < 0x80 → 1 ≤ n → Utf8RawSpec xs n (.ret 1 (some ch))
  | ok2 (ch b1 : Nat) : xs[0]? = some ch → xs[1]? = some b1 → 0xc2 ≤ ch → ch < 0xe0 → b1 / 64 = 2 → 2 ≤ n →
      Utf8RawSpec xs n (.ret 2 (some (ch % 32 * 64 + b1 % 64)))
  | ok3 (ch b1 b2 : Nat) : xs[0]? = some ch → xs[1]? = some b1 → xs[2]? = some b2 → 0xe0 ≤ ch → ch < 0xf0 →
      b1 / 64 = 2 → b2 / 64 = 2 → 3 ≤ n → 0x800 ≤ ch % 16 * 4096 + b1 % 64 * 64 + b2 % 64 →
      Utf8RawSpec xs n (.ret 3 (some (ch % 16 * 4096 + b1 % 64 * 64 + b2 % 64)))
  | ok4 (ch b1 b2 b3 : Nat) : xs[0]? = some ch → xs[1]? = some b1 → xs[2]? = some b2 → xs[3]? = some b3 →
      0xf0 ≤ ch → ch < 0xf5 → b1 / 64 = 2 → b2 / 64 = 2 → b3 / 64 = 2 → 4 ≤ n →
      0x10000 ≤ ch % 8 * 262144 + b1 % 64 * 4096 + b2 % 64 * 64 + b3 % 64 →
      ch % 8 * 262144 + b1 % 64 * 4096 + b2 % 64 * 64 + b3 % 64 ≤ unicodeMax →
      Utf8RawSpec xs n (.ret 4 (some (ch % 8 * 262144 + b1 % 64 * 4096 + b2 % 64 * 64 + b3 % 64)))

theorem getElem?_none_lt {xs : List Nat} {i n : Nat} (h : xs[i]? = none) (hi : i < n) : xs.length < n := by
  simp at h; omega

theorem isCont_iff (b : Nat) : isCont b = true ↔ b / 64 = 2 := by simp [isCont]

theorem leadClass_1 (ch : Nat) : leadClass ch = 1 ↔ ch < 0x80 := by
  simp only [leadClass]; repeat' split
  all_goals omega
theorem leadClass_2 (ch : Nat) : leadClass ch = 2 ↔ 0xc2 ≤ ch ∧ ch < 0xe0 := by
  simp only [leadClass]; repeat' split
  all_goals omega
theorem leadClass_3 (ch : Nat) : leadClass ch = 3 ↔ 0xe0 ≤ ch ∧ ch < 0xf0 := by
  simp only [leadClass]; repeat' split
  all_goals omega
theorem leadClass_4 (ch : Nat) : leadClass ch = 4 ↔ 0xf0 ≤ ch ∧ ch < 0xf5 := by
  simp only [leadClass]; repeat' split
  all_goals omega

theorem utf8Raw_spec (xs : List Nat) (n : Nat) : Utf8RawSpec xs n (utf8Raw xs n) := by
  unfold utf8Raw
  by_cases hn : n = 0
  · simp only [hn, if_true]; exact .endN rfl
  simp only [hn, if_false]
  cases h0 : xs[0]? with
  | none => exact .oob (getElem?_none_lt h0 (by omega))
  | some ch =>
  simp only []
  by_cases hch : ch = 0
  · simp only [hch, if_true]; exact .endNul (by omega) (by simp [h0, hch])
  simp only [hch, if_false, count_spec]
  by_cases hlt : n < leadClass ch
  · simp only [hlt, if_true]
    cases hc : contScan xs 1 (n - 1) with
    | none => exact .oob (by have := contScan_none _ _ _ hc; omega)
    | some c => have := contScan_bounds _ _ _ _ hc; exact .bad c (by omega) (by omega)
  simp only [hlt, if_false]
  by_cases h1 : leadClass ch = 1
  · simp only [h1, if_true]
    have := (leadClass_1 ch).1 h1
    rw [Nat.mod_eq_of_lt (by omega)]
    exact .ok1 ch h0 (by omega) this (by omega)
  simp only [h1, if_false]
  by_cases h2 : leadClass ch = 2
  · simp only [h2, if_true]
    have hc2 := (leadClass_2 ch).1 h2
    cases hb1 : xs[1]? with
    | none => exact .oob (getElem?_none_lt hb1 (by omega))
    | some b1 =>
    simp only []
    rcases Bool.eq_false_or_eq_true (isCont b1) with c1 | c1
    · simp only [c1, Bool.not_true, Bool.false_eq_true, ↓reduceIte]
      exact .ok2 ch b1 h0 hb1 hc2.1 hc2.2 ((isCont_iff b1).1 c1) (by omega)
    · simp only [c1, Bool.not_false, ↓reduceIte]; exact .bad 1 (by omega) (by omega)
  simp only [h2, if_false]
  by_cases h3 : leadClass ch = 3
  · simp only [h3, if_true]
    have hc3 := (leadClass_3 ch).1 h3
    cases hb1 : xs[1]? with
    | none => exact .oob (getElem?_none_lt hb1 (by omega))
    | some b1 =>
    simp only []
    rcases Bool.eq_false_or_eq_true (isCont b1) with c1 | c1
    case inr => simp only [c1, Bool.not_false, ↓reduceIte]; exact .bad 1 (by omega) (by omega)
    simp only [c1, Bool.not_true, Bool.false_eq_true, ↓reduceIte]
    cases hb2 : xs[2]? with
    | none => exact .oob (getElem?_none_lt hb2 (by omega))
    | some b2 =>
    simp only []
    rcases Bool.eq_false_or_eq_true (isCont b2) with c2 | c2
    case inr => simp only [c2, Bool.not_false, ↓reduceIte]; exact .bad 2 (by omega) (by omega)
    simp only [c2, Bool.not_true, Bool.false_eq_true, ↓reduceIte]
    by_cases hov : ch % 16 * 4096 + b1 % 64 * 64 + b2 % 64 < 0x800
    · simp only [hov, if_true]; exact .bad 3 (by omega) (by omega)
    simp only [hov, if_false, utf8Final]
    by_cases hmx : ch % 16 * 4096 + b1 % 64 * 64 + b2 % 64 > unicodeMax
    · simp only [hmx, if_true]; exact .bad 3 (by omega) (by omega)
    simp only [hmx, if_false]
    exact .ok3 ch b1 b2 h0 hb1 hb2 hc3.1 hc3.2 ((isCont_iff b1).1 c1) ((isCont_iff b2).1 c2) (by omega) (by omega)
  simp only [h3, if_false]
  by_cases h4 : leadClass ch = 4
  · simp only [h4, if_true]
    have hc4 := (leadClass_4 ch).1 h4
    cases hb1 : xs[1]? with
    | none => exact .oob (getElem?_none_lt hb1 (by omega))
    | some b1 =>
    simp only []
    rcases Bool.eq_false_or_eq_true (isCont b1) with c1 | c1
    case inr => simp only [c1, Bool.not_false, ↓reduceIte]; exact .bad 1 (by omega) (by omega)
    simp only [c1, Bool.not_true, Bool.false_eq_true, ↓reduceIte]
    cases hb2 : xs[2]? with
    | none => exact .oob (getElem?_none_lt hb2 (by omega))
    | some b2 =>
    simp only []
    rcases Bool.eq_false_or_eq_true (isCont b2) with c2 | c2
    case inr => simp only [c2, Bool.not_false, ↓reduceIte]; exact .bad 2 (by omega) (by omega)
    simp only [c2, Bool.not_true, Bool.false_eq_true, ↓reduceIte]
    cases hb3 : xs[3]? with
    | none => exact .oob (getElem?_none_lt hb3 (by omega))
    | some b3 =>
    simp only []
    rcases Bool.eq_false_or_eq_true (isCont b3) with c3 | c3
    case inr => simp only [c3, Bool.not_false, ↓reduceIte]; exact .bad 3 (by omega) (by omega)
    simp only [c3, Bool.not_true, Bool.false_eq_true, ↓reduceIte]
    by_cases hov : ch % 8 * 262144 + b1 % 64 * 4096 + b2 % 64 * 64 + b3 % 64 < 0x10000
    · simp only [hov, if_true]; exact .bad 4 (by omega) (by omega)
    simp only [hov, if_false, utf8Final]
    by_cases hmx : ch % 8 * 262144 + b1 % 64 * 4096 + b2 % 64 * 64 + b3 % 64 > unicodeMax
    · simp only [hmx, if_true]; exact .bad 4 (by omega) (by omega)
    simp only [hmx, if_false]
    exact .ok4 ch b1 b2 b3 h0 hb1 hb2 hb3 hc4.1 hc4.2 ((isCont_iff b1).1 c1) ((isCont_iff b2).1 c2)
      ((isCont_iff b3).1 c3) (by omega) (by omega) (by omega)
  simp only [h4, if_false]
  generalize hc0 : (if ch = 0xc0 ∨ ch = 0xc1 then 2 else if 0xf5 ≤ ch ∧ ch ≤ 0xf7 then 4
      else if 0xf8 ≤ ch ∧ ch ≤ 0xfb then 5 else if ch = 0xfc ∨ ch = 0xfd then 6 else 1) = c0
  have hc0' : 1 ≤ c0 := by
    rw [← hc0]; repeat' split
    all_goals omega
  cases hc : contScan xs 1 ((if n < c0 then n else c0) - 1) with
  | none =>
    refine .oob ?_
    have := contScan_none _ _ _ hc
    split at this <;> omega
  | some c =>
    have := contScan_bounds _ _ _ _ hc
    refine .bad c (by omega) ?_
    split at this <;> omega

/-! ### `_utf8_to_unicode` on well-formed input -/

theorem utf8Raw_ok1 (ch : Nat) (rest : List Nat) (n : Nat) (h0 : 0 < ch) (h : ch < 0x80) (hn : 1 ≤ n) :
    utf8Raw (ch :: rest) n = .ret 1 (some ch) := by
  have hl := (leadClass_1 ch).2 h
  have : ch % 128 = ch := Nat.mod_eq_of_lt h
  have hn0 : n ≠ 0 := by omega
  have hc0 : ch ≠ 0 := by omega
  have hlt : ¬ n < 1 := by omega
  unfold utf8Raw
  simp only [List.getElem?_cons_zero, List.getElem?_cons_succ, count_spec, hl, hn0, hc0, hlt, ↓reduceIte, this]

theorem utf8Raw_ok2 (ch b1 : Nat) (rest : List Nat) (n : Nat) (h : 0xc2 ≤ ch) (h' : ch < 0xe0)
    (hb1 : b1 / 64 = 2) (hn : 2 ≤ n) :
    utf8Raw (ch :: b1 :: rest) n = .ret 2 (some (ch % 32 * 64 + b1 % 64)) := by
  have hl := (leadClass_2 ch).2 ⟨h, h'⟩
  have hn0 : n ≠ 0 := by omega
  have hc0 : ch ≠ 0 := by omega
  have hlt : ¬ n < 2 := by omega
  unfold utf8Raw
  simp only [List.getElem?_cons_zero, List.getElem?_cons_succ, count_spec, hl, hn0, hc0, hlt, ↓reduceIte]
  simp [isCont, hb1]

theorem utf8Raw_ok3 (ch b1 b2 : Nat) (rest : List Nat) (n : Nat) (h : 0xe0 ≤ ch) (h' : ch < 0xf0)
    (hb1 : b1 / 64 = 2) (hb2 : b2 / 64 = 2) (hn : 3 ≤ n)
    (hov : 0x800 ≤ ch % 16 * 4096 + b1 % 64 * 64 + b2 % 64) :
    utf8Raw (ch :: b1 :: b2 :: rest) n = .ret 3 (some (ch % 16 * 4096 + b1 % 64 * 64 + b2 % 64)) := by
  have hl := (leadClass_3 ch).2 ⟨h, h'⟩
  have hn0 : n ≠ 0 := by omega
  have hc0 : ch ≠ 0 := by omega
  have hlt : ¬ n < 3 := by omega
  have hov' : ¬ ch % 16 * 4096 + b1 % 64 * 64 + b2 % 64 < 2048 := by omega
  have hmx : ¬ (ch % 16 * 4096 + b1 % 64 * 64 + b2 % 64 > unicodeMax) := by simp [unicodeMax]; omega
  unfold utf8Raw
  simp only [List.getElem?_cons_zero, List.getElem?_cons_succ, count_spec, hl, hn0, hc0, hlt, ↓reduceIte]
  simp [isCont, hb1, hb2, utf8Final, hmx, hov']

theorem utf8Raw_ok4 (ch b1 b2 b3 : Nat) (rest : List Nat) (n : Nat) (h : 0xf0 ≤ ch) (h' : ch < 0xf5)
    (hb1 : b1 / 64 = 2) (hb2 : b2 / 64 = 2) (hb3 : b3 / 64 = 2) (hn : 4 ≤ n)
    (hov : 0x10000 ≤ ch % 8 * 262144 + b1 % 64 * 4096 + b2 % 64 * 64 + b3 % 64)
    (hmx : ch % 8 * 262144 + b1 % 64 * 4096 + b2 % 64 * 64 + b3 % 64 ≤ unicodeMax) :
    utf8Raw (ch :: b1 :: b2 :: b3 :: rest) n =
      .ret 4 (some (ch % 8 * 262144 + b1 % 64 * 4096 + b2 % 64 * 64 + b3 % 64)) := by
  have hl := (leadClass_4 ch).2 ⟨h, h'⟩
  have hn0 : n ≠ 0 := by omega
  have hc0 : ch ≠ 0 := by omega
  have hlt : ¬ n < 4 := by omega
  have hov' : ¬ ch % 8 * 262144 + b1 % 64 * 4096 + b2 % 64 * 64 + b3 % 64 < 65536 := by omega
  have hmx' : ¬ (ch % 8 * 262144 + b1 % 64 * 4096 + b2 % 64 * 64 + b3 % 64 > unicodeMax) := by omega
  unfold utf8Raw
  simp only [List.getElem?_cons_zero, List.getElem?_cons_succ, count_spec, hl, hn0, hc0, hlt, ↓reduceIte]
  simp [isCont, hb1, hb2, hb3, utf8Final, hmx', hov']

/-! ### `unicode_to_utf8` by ranges, and decode ∘ encode -/

theorem enc8_1 (c r : Nat) (h : c ≤ 0x7f) (hr : 0 < r) : unicodeToUtf8 r c = [c] := by
  have h1 : ¬ c > unicodeMax := by simp [unicodeMax]; omega
  have h2 : r ≠ 0 := by omega
  simp [unicodeToUtf8, h1, h, h2]

theorem enc8_2 (c r : Nat) (h1 : 0x7f < c) (h2 : c ≤ 0x7ff) (hr : 2 ≤ r) :
    unicodeToUtf8 r c = [0xc0 + c / 64 % 32, 0x80 + c % 64] := by
  have h0 : ¬ c > unicodeMax := by simp [unicodeMax]; omega
  have h3 : ¬ c ≤ 0x7f := by omega
  have h4 : ¬ r < 2 := by omega
  simp [unicodeToUtf8, h0, h3, h2, h4]

theorem enc8_3 (c r : Nat) (h1 : 0x7ff < c) (h2 : c ≤ 0xffff) (hr : 3 ≤ r) :
    unicodeToUtf8 r c = [0xe0 + c / 4096 % 16, 0x80 + c / 64 % 64, 0x80 + c % 64] := by
  have h0 : ¬ c > unicodeMax := by simp [unicodeMax]; omega
  have h3 : ¬ c ≤ 0x7f := by omega
  have h3' : ¬ c ≤ 0x7ff := by omega
  have h4 : ¬ r < 3 := by omega
  simp [unicodeToUtf8, h0, h3, h3', h2, h4]

theorem enc8_4 (c r : Nat) (h1 : 0xffff < c) (h2 : c ≤ unicodeMax) (hr : 4 ≤ r) :
    unicodeToUtf8 r c = [0xf0 + c / 262144 % 8, 0x80 + c / 4096 % 64, 0x80 + c / 64 % 64, 0x80 + c % 64] := by
  have h0 : ¬ c > unicodeMax := by omega
  have h3 : ¬ c ≤ 0x7f := by omega
  have h3' : ¬ c ≤ 0x7ff := by omega
  have h3'' : ¬ c ≤ 0xffff := by omega
  have h4 : ¬ r < 4 := by omega
  simp [unicodeToUtf8, h0, h3, h3', h3'', h4]

/-- `_utf8_to_unicode` inverts `unicode_to_utf8` on every code point 1..U+10FFFF (surrogates included). -/
theorem utf8Raw_encode (c : Nat) (hc : 0 < c) (hmax : c ≤ unicodeMax) (rest : List Nat) (n : Nat)
    (hn : (unicodeToUtf8 4 c).length ≤ n) :
    utf8Raw (unicodeToUtf8 4 c ++ rest) n = .ret (unicodeToUtf8 4 c).length (some c) := by
  have hm : unicodeMax = 0x10FFFF := rfl
  by_cases h1 : c ≤ 0x7f
  · rw [enc8_1 c 4 h1 (by omega)] at hn ⊢
    simp only [List.cons_append, List.nil_append, List.length_cons, List.length_nil] at hn ⊢
    rw [utf8Raw_ok1 c rest n hc (by omega) (by omega)]; rfl
  by_cases h2 : c ≤ 0x7ff
  · rw [enc8_2 c 4 (by omega) h2 (by omega)] at hn ⊢
    simp only [List.cons_append, List.nil_append, List.length_cons, List.length_nil] at hn ⊢
    rw [utf8Raw_ok2 _ _ rest n (by omega) (by omega) (by omega) (by omega)]
    congr 2; omega
  by_cases h3 : c ≤ 0xffff
  · rw [enc8_3 c 4 (by omega) h3 (by omega)] at hn ⊢
    simp only [List.cons_append, List.nil_append, List.length_cons, List.length_nil] at hn ⊢
    rw [utf8Raw_ok3 _ _ _ rest n (by omega) (by omega) (by omega) (by omega) (by omega) (by omega)]
    congr 2; omega
  · rw [enc8_4 c 4 (by omega) hmax (by omega)] at hn ⊢
    simp only [List.cons_append, List.nil_append, List.length_cons, List.length_nil] at hn ⊢
    rw [utf8Raw_ok4 _ _ _ _ rest n (by omega) (by omega) (by omega) (by omega) (by omega) (by omega) (by omega) (by omega)]
    congr 2; omega

/-! ### consequences of the case analysis of `_utf8_to_unicode` -/

theorem take1 {xs : List Nat} {a : Nat} (h0 : xs[0]? = some a) : xs.take 1 = [a] := by
  match xs, h0 with
  | x :: _, h0 => simp at h0; simp [h0]

theorem take2 {xs : List Nat} {a b : Nat} (h0 : xs[0]? = some a) (h1 : xs[1]? = some b) : xs.take 2 = [a, b] := by
  match xs, h0, h1 with
  | x :: y :: _, h0, h1 => simp at h0 h1; simp [h0, h1]

theorem take3 {xs : List Nat} {a b c : Nat} (h0 : xs[0]? = some a) (h1 : xs[1]? = some b) (h2 : xs[2]? = some c) :
    xs.take 3 = [a, b, c] := by
  match xs, h0, h1, h2 with
  | x :: y :: z :: _, h0, h1, h2 => simp at h0 h1 h2; simp [h0, h1, h2]

theorem take4 {xs : List Nat} {a b c d : Nat} (h0 : xs[0]? = some a) (h1 : xs[1]? = some b) (h2 : xs[2]? = some c)
    (h3 : xs[3]? = some d) : xs.take 4 = [a, b, c, d] := by
  match xs, h0, h1, h2, h3 with
  | x :: y :: z :: w :: _, h0, h1, h2, h3 => simp at h0 h1 h2 h3; simp [h0, h1, h2, h3]

/-- A positive return of `_utf8_to_unicode` means: the bytes consumed are exactly what
`unicode_to_utf8` writes for the code point stored (shortest form), 1 ≤ it ≤ U+10FFFF. -/
theorem utf8Raw_canonical (xs : List Nat) (n : Nat) (r : Int) (uc : Option Nat)
    (h : utf8Raw xs n = .ret r uc) (hr : 0 < r) :
    ∃ c, uc = some c ∧ 0 < c ∧ c ≤ unicodeMax ∧ xs.take r.toNat = unicodeToUtf8 4 c ∧
      r.toNat = (unicodeToUtf8 4 c).length ∧ r.toNat ≤ n := by
  have hm : unicodeMax = 0x10FFFF := rfl
  have hs := utf8Raw_spec xs n
  rw [h] at hs
  cases hs with
  | endN => omega
  | endNul => omega
  | bad c => omega
  | ok1 ch h0 hp hlt hn =>
    refine ⟨ch, rfl, hp, by omega, ?_, ?_, by simpa using hn⟩
    · rw [enc8_1 ch 4 (by omega) (by omega)]; exact take1 h0
    · rw [enc8_1 ch 4 (by omega) (by omega)]; rfl
  | ok2 ch b1 h0 h1 hlo hhi c1 hn =>
    refine ⟨_, rfl, by omega, by omega, ?_, ?_, by simpa using hn⟩
    · rw [enc8_2 _ 4 (by omega) (by omega) (by omega)]
      have := take2 h0 h1
      rw [show (2 : Int).toNat = 2 from rfl, this]; congr 1
      · omega
      · congr 1; omega
    · rw [enc8_2 _ 4 (by omega) (by omega) (by omega)]; rfl
  | ok3 ch b1 b2 h0 h1 h2 hlo hhi c1 c2 hn hov =>
    refine ⟨_, rfl, by omega, by omega, ?_, ?_, by simpa using hn⟩
    · rw [enc8_3 _ 4 (by omega) (by omega) (by omega)]
      rw [show (3 : Int).toNat = 3 from rfl, take3 h0 h1 h2]; congr 1
      · omega
      · congr 1
        · omega
        · congr 1; omega
    · rw [enc8_3 _ 4 (by omega) (by omega) (by omega)]; rfl
  | ok4 ch b1 b2 b3 h0 h1 h2 h3 hlo hhi c1 c2 c3 hn hov hmx =>
    refine ⟨_, rfl, by omega, hmx, ?_, ?_, by simpa using hn⟩
    · rw [enc8_4 _ 4 (by omega) hmx (by omega)]
      rw [show (4 : Int).toNat = 4 from rfl, take4 h0 h1 h2 h3]; congr 1
      · omega
      · congr 1
        · omega
        · congr 1
          · omega
          · congr 1; omega
    · rw [enc8_4 _ 4 (by omega) hmx (by omega)]; rfl

/-- Every return value other than 0 consumes between 1 and `n` bytes. -/
theorem utf8Raw_progress (xs : List Nat) (n : Nat) (r : Int) (uc : Option Nat)
    (h : utf8Raw xs n = .ret r uc) (hr : r ≠ 0) : 1 ≤ r.natAbs ∧ r.natAbs ≤ n := by
  have hs := utf8Raw_spec xs n
  rw [h] at hs
  cases hs <;> omega

/-- A negative return stores U+FFFD. -/
theorem utf8Raw_neg (xs : List Nat) (n : Nat) (r : Int) (uc : Option Nat)
    (h : utf8Raw xs n = .ret r uc) (hr : r < 0) : uc = some unicodeRChar := by
  have hs := utf8Raw_spec xs n
  rw [h] at hs
  cases hs <;> first | rfl | omega

/-- Return value 0 exactly at the end of the string: no bytes left or a NUL byte. -/
theorem utf8Raw_zero (xs : List Nat) (n : Nat) (r : Int) (uc : Option Nat)
    (h : utf8Raw xs n = .ret r uc) : r = 0 ↔ (n = 0 ∨ xs[0]? = some 0) := by
  constructor
  · intro hr
    have hs := utf8Raw_spec xs n
    rw [h] at hs
    cases hs with
    | endN hn => exact .inl hn
    | endNul _ h0 => exact .inr h0
    | _ => omega
  · intro hz
    unfold utf8Raw at h
    rcases hz with hz | hz
    · simp [hz] at h; omega
    · by_cases hn : n = 0
      · simp [hn] at h; omega
      · simp [hn, hz] at h; omega

/-- No read outside the block when the block holds at least `n` bytes. -/
theorem utf8Raw_no_oob (xs : List Nat) (n : Nat) (hn : n ≤ xs.length) : utf8Raw xs n ≠ .oob := by
  intro h
  have hs := utf8Raw_spec xs n
  rw [h] at hs
  cases hs; omega

/-! ### surrogate predicates as arithmetic -/

theorem isHigh_iff (uc : Nat) : isHigh uc = true ↔ 0xD800 ≤ uc ∧ uc ≤ 0xDBFF := by
  unfold isHigh highSurrogateLo highSurrogateHi
  rw [Bool.and_eq_true, decide_eq_true_iff, decide_eq_true_iff]
theorem isLow_iff (uc : Nat) : isLow uc = true ↔ 0xDC00 ≤ uc ∧ uc ≤ 0xDFFF := by
  unfold isLow lowSurrogateLo lowSurrogateHi
  rw [Bool.and_eq_true, decide_eq_true_iff, decide_eq_true_iff]
theorem isSurrogate_iff (uc : Nat) : isSurrogate uc = true ↔ 0xD800 ≤ uc ∧ uc ≤ 0xDFFF := by
  unfold isSurrogate surrogateLo surrogateHi
  rw [Bool.and_eq_true, decide_eq_true_iff, decide_eq_true_iff]

/-- Unicode scalar value: at most U+10FFFF and not a surrogate. -/
def IsScalar (c : Nat) : Prop := c ≤ unicodeMax ∧ ¬ (surrogateLo ≤ c ∧ c ≤ surrogateHi)

theorem isScalar_iff (c : Nat) : IsScalar c ↔ c ≤ 0x10FFFF ∧ ¬ (0xD800 ≤ c ∧ c ≤ 0xDFFF) := by
  simp [IsScalar, unicodeMax, surrogateLo, surrogateHi]

theorem isSurrogate_false_of_scalar {c : Nat} (h : IsScalar c) : isSurrogate c = false := by
  have := (isScalar_iff c).1 h
  cases hs : isSurrogate c
  · rfl
  · have := (isSurrogate_iff c).1 hs; omega

/-! ### `utf8_to_unicode` -/

theorem utf8ToUnicode_encode (c : Nat) (hc : 0 < c) (hs : IsScalar c) (rest : List Nat) (n : Nat)
    (hn : (unicodeToUtf8 4 c).length ≤ n) :
    utf8ToUnicode (unicodeToUtf8 4 c ++ rest) n = .ret (unicodeToUtf8 4 c).length (some c) := by
  unfold utf8ToUnicode
  rw [utf8Raw_encode c hc hs.1 rest n hn]
  simp [isSurrogate_false_of_scalar hs]

theorem utf8ToUnicode_canonical (xs : List Nat) (n : Nat) (r : Int) (uc : Option Nat)
    (h : utf8ToUnicode xs n = .ret r uc) (hr : 0 < r) :
    ∃ c, uc = some c ∧ 0 < c ∧ IsScalar c ∧ xs.take r.toNat = unicodeToUtf8 4 c ∧
      r.toNat = (unicodeToUtf8 4 c).length ∧ r.toNat ≤ n := by
  unfold utf8ToUnicode at h
  cases hraw : utf8Raw xs n with
  | oob => simp [hraw] at h
  | ret r1 uc1 =>
    simp only [hraw] at h
    split at h
    · simp at h; omega
    · rename_i hns
      simp only [Dec.ret.injEq] at h
      obtain ⟨rfl, rfl⟩ := h
      obtain ⟨c, hc, hp, hmx, ht, hl, hn⟩ := utf8Raw_canonical xs n r1 uc1 hraw hr
      refine ⟨c, hc, hp, ⟨hmx, ?_⟩, ht, hl, hn⟩
      intro hsur
      apply hns
      subst hc
      -- a surrogate is encoded in 3 bytes
      have h3 : (unicodeToUtf8 4 c).length = 3 := by
        simp only [surrogateLo, surrogateHi] at hsur
        rw [enc8_3 c 4 (by omega) (by omega) (by omega)]; rfl
      refine ⟨by omega, ?_⟩
      simp [isSurrogate, hsur]

theorem utf8ToUnicode_progress (xs : List Nat) (n : Nat) (r : Int) (uc : Option Nat)
    (h : utf8ToUnicode xs n = .ret r uc) (hr : r ≠ 0) : 1 ≤ r.natAbs ∧ r.natAbs ≤ n := by
  unfold utf8ToUnicode at h
  cases hraw : utf8Raw xs n with
  | oob => simp [hraw] at h
  | ret r1 uc1 =>
    simp only [hraw] at h
    split at h
    · rename_i hs
      simp only [Dec.ret.injEq] at h
      have := utf8Raw_progress xs n r1 uc1 hraw (by omega)
      omega
    · simp only [Dec.ret.injEq] at h
      have := utf8Raw_progress xs n r1 uc1 hraw (by omega)
      omega

theorem utf8ToUnicode_no_oob (xs : List Nat) (n : Nat) (hn : n ≤ xs.length) : utf8ToUnicode xs n ≠ .oob := by
  unfold utf8ToUnicode
  cases hraw : utf8Raw xs n with
  | oob => exact absurd hraw (utf8Raw_no_oob xs n hn)
  | ret r1 uc1 => simp only []; split <;> simp

theorem utf8ToUnicode_zero (xs : List Nat) (n : Nat) (r : Int) (uc : Option Nat)
    (h : utf8ToUnicode xs n = .ret r uc) : r = 0 ↔ (n = 0 ∨ xs[0]? = some 0) := by
  unfold utf8ToUnicode at h
  cases hraw : utf8Raw xs n with
  | oob => simp [hraw] at h
  | ret r1 uc1 =>
    simp only [hraw] at h
    have hz := utf8Raw_zero xs n r1 uc1 hraw
    split at h
    · rename_i hs
      simp only [Dec.ret.injEq] at h
      rw [← hz]; omega
    · simp only [Dec.ret.injEq] at h
      rw [← hz]; omega

/-! ### `cesu8_to_unicode` -/

theorem isHigh_false_of_scalar {c : Nat} (h : IsScalar c) : isHigh c = false := by
  have := (isScalar_iff c).1 h
  cases hs : isHigh c
  · rfl
  · have := (isHigh_iff c).1 hs; omega

theorem isLow_false_of_scalar {c : Nat} (h : IsScalar c) : isLow c = false := by
  have := (isScalar_iff c).1 h
  cases hs : isLow c
  · rfl
  · have := (isLow_iff c).1 hs; omega

theorem cesu8_encode (c : Nat) (hc : 0 < c) (hs : IsScalar c) (rest : List Nat) (n : Nat)
    (hn : (unicodeToUtf8 4 c).length ≤ n) :
    cesu8ToUnicode (unicodeToUtf8 4 c ++ rest) n = .ret (unicodeToUtf8 4 c).length (some c) := by
  unfold cesu8ToUnicode
  rw [utf8Raw_encode c hc hs.1 rest n hn]
  simp [isHigh_false_of_scalar hs, isLow_false_of_scalar hs]

/-- high and low surrogate of a supplementary code point (what `unicode_to_utf16` writes) -/
def hiSur (c : Nat) : Nat := (c - 0x10000) / 1024 % 1024 + 0xD800
def loSur (c : Nat) : Nat := (c - 0x10000) % 1024 + 0xDC00

theorem enc8_len3 (c : Nat) (h1 : 0x7ff < c) (h2 : c ≤ 0xffff) : (unicodeToUtf8 4 c).length = 3 := by
  rw [enc8_3 c 4 h1 h2 (by omega)]; rfl

/-- CESU-8: two 3-byte surrogates decode to the supplementary code point. -/
theorem cesu8_pair (c : Nat) (h1 : 0x10000 ≤ c) (h2 : c ≤ 0x10FFFF) (rest : List Nat) (n : Nat) (hn : 6 ≤ n) :
    cesu8ToUnicode (unicodeToUtf8 4 (hiSur c) ++ unicodeToUtf8 4 (loSur c) ++ rest) n = .ret 6 (some c) := by
  have hm : unicodeMax = 0x10FFFF := rfl
  have hh : 0xD800 ≤ hiSur c ∧ hiSur c ≤ 0xDBFF := by unfold hiSur; omega
  have hl : 0xDC00 ≤ loSur c ∧ loSur c ≤ 0xDFFF := by unfold loSur; omega
  have l1 := enc8_len3 (hiSur c) (by omega) (by omega)
  have l2 := enc8_len3 (loSur c) (by omega) (by omega)
  unfold cesu8ToUnicode
  rw [List.append_assoc, utf8Raw_encode (hiSur c) (by omega) (by omega) _ n (by omega)]
  have e1 : isHigh (hiSur c) = true := (isHigh_iff _).2 hh
  have e2 : isLow (loSur c) = true := (isLow_iff _).2 hl
  have hd : (unicodeToUtf8 4 (hiSur c) ++ (unicodeToUtf8 4 (loSur c) ++ rest)).drop 3
      = unicodeToUtf8 4 (loSur c) ++ rest := by
    rw [← l1]; simp
  have hn3 : ¬ n - 3 < 3 := by omega
  simp only [l1, Option.getD_some, e1, and_true, hn3, if_false, hd]
  rw [utf8Raw_encode (loSur c) (by omega) (by omega) rest (n - 3) (by omega)]
  simp only [l2, Option.getD_some, e2]
  simp [combineSurrogatePair, hiSur, loSur]
  omega

theorem cesu8_progress (xs : List Nat) (n : Nat) (r : Int) (uc : Option Nat)
    (h : cesu8ToUnicode xs n = .ret r uc) (hr : r ≠ 0) : 1 ≤ r.natAbs ∧ r.natAbs ≤ n := by
  unfold cesu8ToUnicode at h
  cases hraw : utf8Raw xs n with
  | oob => simp [hraw] at h
  | ret r1 uc1 =>
    simp only [hraw] at h
    have hp := fun h0 => utf8Raw_progress xs n r1 uc1 hraw h0
    split at h
    · rename_i h3
      have := hp (by omega)
      split at h
      · simp [invalid] at h; omega
      · split at h
        · simp at h
        · split at h
          · simp [invalid] at h; omega
          · simp at h; omega
    · split at h
      · rename_i h3
        have := hp (by omega)
        simp [invalid] at h; omega
      · simp only [Dec.ret.injEq] at h
        have := hp (by omega)
        omega

theorem cesu8_no_oob (xs : List Nat) (n : Nat) (hn : n ≤ xs.length) : cesu8ToUnicode xs n ≠ .oob := by
  unfold cesu8ToUnicode
  cases hraw : utf8Raw xs n with
  | oob => exact absurd hraw (utf8Raw_no_oob xs n hn)
  | ret r1 uc1 =>
    simp only []
    split
    · split
      · simp [invalid]
      · rename_i hn3
        cases hraw2 : utf8Raw (xs.drop 3) (n - 3) with
        | oob => exact absurd hraw2 (utf8Raw_no_oob _ _ (by simp; omega))
        | ret r2 uc2 => simp only []; split <;> simp [invalid]
    · split <;> simp [invalid]

theorem cesu8_neg (xs : List Nat) (n : Nat) (r : Int) (uc : Option Nat)
    (h : cesu8ToUnicode xs n = .ret r uc) (hr : r < 0) : uc = some unicodeRChar := by
  unfold cesu8ToUnicode at h
  cases hraw : utf8Raw xs n with
  | oob => simp [hraw] at h
  | ret r1 uc1 =>
    simp only [hraw] at h
    split at h
    · split at h
      · simp [invalid] at h; exact h.2.symm
      · split at h
        · simp at h
        · split at h
          · simp [invalid] at h; exact h.2.symm
          · simp at h; omega
    · split at h
      · simp [invalid] at h; exact h.2.symm
      · simp only [Dec.ret.injEq] at h
        have := utf8Raw_neg xs n r1 uc1 hraw (by omega)
        rw [← h.2, this]; rfl

theorem cesu8_zero (xs : List Nat) (n : Nat) (r : Int) (uc : Option Nat)
    (h : cesu8ToUnicode xs n = .ret r uc) : r = 0 ↔ (n = 0 ∨ xs[0]? = some 0) := by
  unfold cesu8ToUnicode at h
  cases hraw : utf8Raw xs n with
  | oob => simp [hraw] at h
  | ret r1 uc1 =>
    simp only [hraw] at h
    have hz := utf8Raw_zero xs n r1 uc1 hraw
    rw [← hz]
    split at h
    · split at h
      · simp [invalid] at h; omega
      · split at h
        · simp at h
        · split at h
          · simp [invalid] at h; omega
          · simp at h; omega
    · split at h
      · simp [invalid] at h; omega
      · simp only [Dec.ret.injEq] at h; omega

/-- A positive return of `cesu8_to_unicode`: either the canonical UTF-8 form of a scalar value,
or (return value 6) the two 3-byte surrogates of a supplementary code point. -/
theorem cesu8_canonical (xs : List Nat) (n : Nat) (r : Int) (uc : Option Nat)
    (h : cesu8ToUnicode xs n = .ret r uc) (hr : 0 < r) :
    ∃ c, uc = some c ∧ 0 < c ∧ IsScalar c ∧ r.toNat ≤ n ∧
      ((xs.take r.toNat = unicodeToUtf8 4 c ∧ r.toNat = (unicodeToUtf8 4 c).length) ∨
       (r = 6 ∧ 0x10000 ≤ c ∧ xs.take 6 = unicodeToUtf8 4 (hiSur c) ++ unicodeToUtf8 4 (loSur c))) := by
  have hm : unicodeMax = 0x10FFFF := rfl
  unfold cesu8ToUnicode at h
  cases hraw : utf8Raw xs n with
  | oob => simp [hraw] at h
  | ret r1 uc1 =>
    simp only [hraw] at h
    split at h
    · rename_i h3
      obtain ⟨c1, hc1, hp1, hmx1, ht1, hl1, hn1⟩ := utf8Raw_canonical xs n r1 uc1 hraw (by omega)
      subst hc1
      simp only [Option.getD_some] at h h3
      have hh := (isHigh_iff c1).1 h3.2
      split at h
      · simp [invalid] at h; omega
      · rename_i hn3
        cases hraw2 : utf8Raw (xs.drop 3) (n - 3) with
        | oob => simp [hraw2] at h
        | ret r2 uc2 =>
          simp only [hraw2] at h
          split at h
          · simp [invalid] at h; omega
          · rename_i hc
            simp only [not_or, Decidable.not_not, Bool.not_eq_true', Bool.not_eq_false'] at hc
            obtain ⟨c2, hc2, hp2, hmx2, ht2, hl2, hn2⟩ := utf8Raw_canonical _ _ r2 uc2 hraw2 (by omega)
            subst hc2
            simp only [Option.getD_some] at h hc
            have hlw := (isLow_iff c2).1 (by simpa using hc.2)
            simp only [Dec.ret.injEq] at h
            obtain ⟨rfl, rfl⟩ := h
            have hr13 : r1.toNat = 3 := by omega
            have hr23 : r2.toNat = 3 := by omega
            rw [hr13] at ht1; rw [hr23] at ht2
            refine ⟨_, rfl, ?_, ?_, ?_, .inr ⟨rfl, ?_, ?_⟩⟩
            · simp only [combineSurrogatePair]; omega
            · rw [isScalar_iff]; simp only [combineSurrogatePair]; omega
            · show (6 : Int).toNat ≤ n
              simp; omega
            · simp only [combineSurrogatePair]; omega
            · have e1 : hiSur (combineSurrogatePair c1 c2) = c1 := by
                simp only [hiSur, combineSurrogatePair]; omega
              have e2 : loSur (combineSurrogatePair c1 c2) = c2 := by
                simp only [loSur, combineSurrogatePair]; omega
              rw [e1, e2, ← ht1, ← ht2, show (6 : Nat) = 3 + 3 from rfl, List.take_add]
    · rename_i h3
      split at h
      · simp [invalid] at h; omega
      · rename_i hl3
        simp only [Dec.ret.injEq] at h
        obtain ⟨rfl, rfl⟩ := h
        obtain ⟨c1, hc1, hp1, hmx1, ht1, hl1, hn1⟩ := utf8Raw_canonical xs n r1 uc1 hraw hr
        subst hc1
        simp only [Option.getD_some] at h3 hl3 ⊢
        refine ⟨c1, rfl, hp1, ⟨hmx1, ?_⟩, hn1, .inl ⟨ht1, hl1⟩⟩
        intro hsur
        simp only [surrogateLo, surrogateHi] at hsur
        have h3' : r1 = 3 := by
          have := enc8_len3 c1 (by omega) (by omega); omega
        by_cases hhi : c1 ≤ 0xDBFF
        · exact h3 ⟨h3', (isHigh_iff c1).2 ⟨hsur.1, hhi⟩⟩
        · exact hl3 ⟨h3', (isLow_iff c1).2 ⟨by omega, hsur.2⟩⟩

/-! ### UTF-16 -/

theorem enc16_len (be : Bool) (v : Nat) : (enc16 be v).length = 2 := by
  cases be <;> rfl

theorem enc16_1 (be : Bool) (c r : Nat) (h : c ≤ 0xffff) (hr : 2 ≤ r) : unicodeToUtf16 be r c = enc16 be c := by
  have h1 : ¬ c > 0xffff := by omega
  have h2 : ¬ r < 2 := by omega
  have : c % 65536 = c := Nat.mod_eq_of_lt (by omega)
  simp [unicodeToUtf16, h1, h2, this]

theorem enc16_2 (be : Bool) (c r : Nat) (h : 0xffff < c) (hr : 4 ≤ r) :
    unicodeToUtf16 be r c = enc16 be (hiSur c) ++ enc16 be (loSur c) := by
  have h2 : ¬ r < 4 := by omega
  simp [unicodeToUtf16, h, h2, hiSur, loSur]

theorem dec16_enc16 (be : Bool) (v : Nat) (hv : v < 65536) (rest : List Nat) :
    ∃ a b, enc16 be v ++ rest = a :: b :: rest ∧ dec16 be a b = v := by
  cases be
  · exact ⟨v % 256, v / 256 % 256, rfl, by simp [dec16]; omega⟩
  · exact ⟨v / 256 % 256, v % 256, rfl, by simp [dec16]; omega⟩

theorem utf16_encode (be : Bool) (c : Nat) (hs : IsScalar c) (rest : List Nat) (n : Nat)
    (hn : (unicodeToUtf16 be 4 c).length ≤ n) :
    utf16ToUnicode be (unicodeToUtf16 be 4 c ++ rest) n = .ret (unicodeToUtf16 be 4 c).length (some c) := by
  have hm : unicodeMax = 0x10FFFF := rfl
  have hsc := (isScalar_iff c).1 hs
  by_cases h1 : c ≤ 0xffff
  · rw [enc16_1 be c 4 h1 (by omega)] at hn ⊢
    rw [enc16_len] at hn ⊢
    obtain ⟨a, b, e, hd⟩ := dec16_enc16 be c (by omega) rest
    rw [e]
    have hn0 : n ≠ 0 := by omega
    have hn1 : n ≠ 1 := by omega
    have hh : isHigh c = false := isHigh_false_of_scalar hs
    have hsu : isSurrogate c = false := isSurrogate_false_of_scalar hs
    have hmx : ¬ c > unicodeMax := by omega
    unfold utf16ToUnicode
    simp only [hn0, hn1, if_false, List.getElem?_cons_zero, List.getElem?_cons_succ, hd, hh, utf16Final, hsu, hmx,
      Bool.false_eq_true, or_self, ↓reduceIte]
  · rw [enc16_2 be c 4 (by omega) (by omega)] at hn ⊢
    simp only [List.length_append, enc16_len] at hn ⊢
    have hh : 0xD800 ≤ hiSur c ∧ hiSur c ≤ 0xDBFF := by unfold hiSur; omega
    have hl : 0xDC00 ≤ loSur c ∧ loSur c ≤ 0xDFFF := by unfold loSur; omega
    rw [List.append_assoc]
    obtain ⟨a, b, e, hd⟩ := dec16_enc16 be (hiSur c) (by omega) (enc16 be (loSur c) ++ rest)
    obtain ⟨a2, b2, e2, hd2⟩ := dec16_enc16 be (loSur c) (by omega) rest
    rw [e, e2]
    have hn0 : n ≠ 0 := by omega
    have hn1 : n ≠ 1 := by omega
    have hn4 : n ≥ 4 := by omega
    have e1 : isHigh (hiSur c) = true := (isHigh_iff _).2 hh
    have e2' : isLow (loSur c) = true := (isLow_iff _).2 hl
    have hcomb : combineSurrogatePair (hiSur c) (loSur c) = c := by
      simp only [combineSurrogatePair, hiSur, loSur]; omega
    have hsu : isSurrogate c = false := isSurrogate_false_of_scalar hs
    have hmx : ¬ c > unicodeMax := by omega
    unfold utf16ToUnicode
    simp only [hn0, hn1, hn4, if_false, if_true, List.getElem?_cons_zero, List.getElem?_cons_succ, hd, hd2, e1, e2',
      hcomb, utf16Final, hsu, hmx, Bool.false_eq_true, or_self, ↓reduceIte]

theorem utf16_progress (be : Bool) (xs : List Nat) (n : Nat) (r : Int) (uc : Option Nat)
    (h : utf16ToUnicode be xs n = .ret r uc) (hr : r ≠ 0) : 1 ≤ r.natAbs ∧ r.natAbs ≤ n := by
  unfold utf16ToUnicode at h
  by_cases hn0 : n = 0
  · simp [hn0] at h; omega
  by_cases hn1 : n = 1
  · simp [hn1, invalid] at h; omega
  simp only [hn0, hn1, if_false] at h
  split at h
  · split at h
    · split at h
      · rename_i hn4
        split at h
        · split at h
          · simp only [utf16Final] at h; split at h <;> simp [invalid] at h <;> omega
          · simp [invalid] at h; omega
        · simp at h
      · simp [invalid] at h; omega
    · simp only [utf16Final] at h; split at h <;> simp [invalid] at h <;> omega
  · simp at h

theorem utf16_zero (be : Bool) (xs : List Nat) (n : Nat) (r : Int) (uc : Option Nat)
    (h : utf16ToUnicode be xs n = .ret r uc) : r = 0 ↔ n = 0 := by
  constructor
  · intro hr
    by_cases hn0 : n = 0
    · exact hn0
    · unfold utf16ToUnicode at h
      by_cases hn1 : n = 1
      · simp [hn1, invalid] at h; omega
      simp only [hn0, hn1, if_false] at h
      split at h
      · split at h
        · split at h
          · split at h
            · split at h
              · simp only [utf16Final] at h; split at h <;> simp [invalid] at h <;> omega
              · simp [invalid] at h; omega
            · simp at h
          · simp [invalid] at h; omega
        · simp only [utf16Final] at h; split at h <;> simp [invalid] at h <;> omega
      · simp at h
  · intro hn0
    simp [utf16ToUnicode, hn0] at h; omega

theorem utf16_neg (be : Bool) (xs : List Nat) (n : Nat) (r : Int) (uc : Option Nat)
    (h : utf16ToUnicode be xs n = .ret r uc) (hr : r < 0) : uc = some unicodeRChar := by
  unfold utf16ToUnicode at h
  by_cases hn0 : n = 0
  · simp [hn0] at h; omega
  by_cases hn1 : n = 1
  · simp [hn1, invalid] at h; exact h.2.symm
  simp only [hn0, hn1, if_false] at h
  split at h
  · split at h
    · split at h
      · split at h
        · split at h
          · simp only [utf16Final] at h; split at h <;> simp [invalid] at h
            · exact h.2.symm
            · omega
          · simp [invalid] at h; exact h.2.symm
        · simp at h
      · simp [invalid] at h; exact h.2.symm
    · simp only [utf16Final] at h; split at h <;> simp [invalid] at h
      · exact h.2.symm
      · omega
  · simp at h

theorem utf16_no_oob (be : Bool) (xs : List Nat) (n : Nat) (hn : n ≤ xs.length) : utf16ToUnicode be xs n ≠ .oob := by
  unfold utf16ToUnicode
  by_cases hn0 : n = 0
  · simp [hn0]
  by_cases hn1 : n = 1
  · simp [hn1, invalid]
  simp only [hn0, hn1, if_false]
  have h0 : xs[0]? = some (xs[0]'(by omega)) := List.getElem?_eq_getElem _
  have h1 : xs[1]? = some (xs[1]'(by omega)) := List.getElem?_eq_getElem _
  rw [h0, h1]
  simp only []
  split
  · split
    · rename_i hn4
      have h2 : xs[2]? = some (xs[2]'(by omega)) := List.getElem?_eq_getElem _
      have h3 : xs[3]? = some (xs[3]'(by omega)) := List.getElem?_eq_getElem _
      rw [h2, h3]
      simp only []
      split
      · simp only [utf16Final]; split <;> simp [invalid]
      · simp [invalid]
    · simp [invalid]
  · simp only [utf16Final]; split <;> simp [invalid]

theorem enc16_dec16 (be : Bool) (a b : Nat) (ha : a < 256) (hb : b < 256) : enc16 be (dec16 be a b) = [a, b] := by
  cases be <;> simp [enc16, dec16] <;> omega

theorem dec16_lt (be : Bool) (a b : Nat) (ha : a < 256) (hb : b < 256) : dec16 be a b < 65536 := by
  cases be <;> simp [dec16] <;> omega

theorem mem_of_getElem? {xs : List Nat} {i a : Nat} (h : xs[i]? = some a) : a ∈ xs :=
  List.mem_of_getElem? h

/-- A positive return of `utf16_to_unicode` on a byte string: the bytes consumed are exactly what
`unicode_to_utf16` writes for the scalar value stored. -/
theorem utf16_canonical (be : Bool) (xs : List Nat) (n : Nat) (r : Int) (uc : Option Nat)
    (hbytes : ∀ b ∈ xs, b < 256)
    (h : utf16ToUnicode be xs n = .ret r uc) (hr : 0 < r) :
    ∃ c, uc = some c ∧ IsScalar c ∧ xs.take r.toNat = unicodeToUtf16 be 4 c ∧
      r.toNat = (unicodeToUtf16 be 4 c).length ∧ r.toNat ≤ n := by
  have hm : unicodeMax = 0x10FFFF := rfl
  unfold utf16ToUnicode at h
  by_cases hn0 : n = 0
  · simp [hn0] at h; omega
  by_cases hn1 : n = 1
  · simp [hn1, invalid] at h; omega
  simp only [hn0, hn1, if_false] at h
  split at h
  · rename_i a b h0 h1
    have ha := hbytes a (mem_of_getElem? h0)
    have hb := hbytes b (mem_of_getElem? h1)
    have hlt := dec16_lt be a b ha hb
    split at h
    · rename_i hhigh
      have hh := (isHigh_iff _).1 hhigh
      split at h
      · rename_i hn4
        split at h
        · rename_i c d h2 h3
          have hc := hbytes c (mem_of_getElem? h2)
          have hd := hbytes d (mem_of_getElem? h3)
          split at h
          · rename_i hlow
            have hl := (isLow_iff _).1 hlow
            have hcomb : 0x10000 ≤ combineSurrogatePair (dec16 be a b) (dec16 be c d) ∧
                combineSurrogatePair (dec16 be a b) (dec16 be c d) ≤ 0x10FFFF := by
              simp only [combineSurrogatePair]; omega
            have hns : isSurrogate (combineSurrogatePair (dec16 be a b) (dec16 be c d)) = false := by
              cases hs : isSurrogate (combineSurrogatePair (dec16 be a b) (dec16 be c d))
              · rfl
              · have := (isSurrogate_iff _).1 hs; omega
            have hmx : ¬ combineSurrogatePair (dec16 be a b) (dec16 be c d) > unicodeMax := by omega
            simp only [utf16Final, hns, hmx, Bool.false_eq_true, or_self, ↓reduceIte, Dec.ret.injEq] at h
            obtain ⟨rfl, rfl⟩ := h
            refine ⟨_, rfl, ?_, ?_, ?_, ?_⟩
            · rw [isScalar_iff]; omega
            · rw [enc16_2 be _ 4 (by omega) (by omega)]
              have e1 : hiSur (combineSurrogatePair (dec16 be a b) (dec16 be c d)) = dec16 be a b := by
                simp only [hiSur, combineSurrogatePair]; omega
              have e2 : loSur (combineSurrogatePair (dec16 be a b) (dec16 be c d)) = dec16 be c d := by
                simp only [loSur, combineSurrogatePair]; omega
              rw [e1, e2, enc16_dec16 be a b ha hb, enc16_dec16 be c d hc hd]
              exact take4 h0 h1 h2 h3
            · rw [enc16_2 be _ 4 (by omega) (by omega)]; simp [enc16_len]
            · show (4 : Int).toNat ≤ n
              simp; omega
          · simp [invalid] at h; omega
        · simp at h
      · simp [invalid] at h; omega
    · rename_i hnh
      simp only [utf16Final] at h
      split at h
      · simp [invalid] at h; omega
      · rename_i hok
        simp only [not_or, Bool.not_eq_true] at hok
        simp only [Dec.ret.injEq] at h
        obtain ⟨rfl, rfl⟩ := h
        refine ⟨_, rfl, ?_, ?_, ?_, ?_⟩
        · rw [isScalar_iff]
          refine ⟨by omega, ?_⟩
          intro hs
          have := (isSurrogate_iff (dec16 be a b)).2 hs
          rw [this] at hok; exact absurd hok.1 (by simp)
        · rw [enc16_1 be _ 4 (by omega) (by omega), enc16_dec16 be a b ha hb]
          exact take2 h0 h1
        · rw [enc16_1 be _ 4 (by omega) (by omega)]; simp [enc16_len]
        · show (2 : Int).toNat ≤ n
          simp; omega
  · simp at h

/-! ### `parse` / `unparse` function pointers -/

theorem parse_progress (fe : Enc) (xs : List Nat) (n : Nat) (r : Int) (uc : Option Nat)
    (h : parse fe xs n = .ret r uc) (hr : r ≠ 0) : 1 ≤ r.natAbs ∧ r.natAbs ≤ n := by
  cases fe
  · exact cesu8_progress xs n r uc h hr
  · exact utf16_progress true xs n r uc h hr
  · exact utf16_progress false xs n r uc h hr

theorem parse_no_oob (fe : Enc) (xs : List Nat) (n : Nat) (hn : n ≤ xs.length) : parse fe xs n ≠ .oob := by
  cases fe
  · exact cesu8_no_oob xs n hn
  · exact utf16_no_oob true xs n hn
  · exact utf16_no_oob false xs n hn

theorem parse_neg (fe : Enc) (xs : List Nat) (n : Nat) (r : Int) (uc : Option Nat)
    (h : parse fe xs n = .ret r uc) (hr : r < 0) : uc = some unicodeRChar := by
  cases fe
  · exact cesu8_neg xs n r uc h hr
  · exact utf16_neg true xs n r uc h hr
  · exact utf16_neg false xs n r uc h hr

/-- When `unparse` stores anything, it stores what it would store with room for 4 bytes, and
not more than the room it was given. -/
theorem unparse_room (e : Enc) (r uc : Nat) (h : unparse e r uc ≠ []) :
    unparse e r uc = unparse e 4 uc ∧ (unparse e r uc).length ≤ r := by
  cases e
  · simp only [unparse, unicodeToUtf8] at h ⊢
    (repeat' split at h) <;> simp at h <;> (repeat' split) <;> simp_all <;> omega
  · simp only [unparse, unicodeToUtf16] at h ⊢
    (repeat' split at h) <;> simp at h <;> (repeat' split) <;> simp_all [enc16_len] <;> omega
  · simp only [unparse, unicodeToUtf16] at h ⊢
    (repeat' split at h) <;> simp at h <;> (repeat' split) <;> simp_all [enc16_len] <;> omega

theorem unparse_len_le (e : Enc) (r uc : Nat) : (unparse e r uc).length ≤ 4 := by
  cases e
  · simp only [unparse, unicodeToUtf8]; (repeat' split) <;> simp
  · simp only [unparse, unicodeToUtf16]; (repeat' split) <;> simp [enc16_len]
  · simp only [unparse, unicodeToUtf16]; (repeat' split) <;> simp [enc16_len]

theorem unparse4_ne_nil (e : Enc) (uc : Nat) : unparse e 4 uc ≠ [] := by
  intro h; have := unparse_nil_lt e 4 uc h; omega

/-- The buffer invariant of `archive_string_append_unicode`: `p ≤ endp`. -/
def BufInv (ts : Nat) (as : AStr) : Prop := as.alloc = true ∧ as.data.length + ts ≤ as.cap

theorem ensure_alloc (as : AStr) (s : Nat) : (ensure as s).alloc = true := by
  unfold ensure; split
  · rename_i h; exact h.1
  · rfl

theorem ensure_inv (ts : Nat) (as : AStr) (s : Nat) (h : as.data.length + ts ≤ s) : BufInv ts (ensure as s) := by
  refine ⟨ensure_alloc as s, ?_⟩
  rw [ensure_data]; have := ensure_cap_ge as s; omega

/-- The grow-and-store loop: under the invariant it stores exactly `unparse e 4 uc` behind the
existing content, every byte below `buffer_length`, and re-establishes the invariant. -/
theorem unparseGrow_spec (e : Enc) (lenTm uc : Nat) (as : AStr) (hinv : BufInv e.ts as) :
    ∃ cap', unparseGrow e lenTm uc as = .ok 0 { alloc := true, cap := cap', data := as.data ++ unparse e 4 uc } ∧
      as.data.length + (unparse e 4 uc).length + e.ts ≤ cap' := by
  fun_induction unparseGrow e lenTm uc as with
  | case1 as bs hb hw ih =>
    have h2 := ensure_cap_ge as (as.cap + lenTm + e.ts)
    have := ih (ensure_inv e.ts as _ (by have := hinv.2; omega))
    rw [ensure_data] at this
    exact this
  | case2 as bs hb hw => exact absurd hinv.2 hw
  | case3 as bs hb hfit =>
    have hr := unparse_room e _ uc hb
    have hroom : roomFor as e.ts = as.cap - e.ts - as.data.length := by simp [roomFor, hinv.2]
    have hbs : bs = unparse e (roomFor as e.ts) uc := rfl
    refine ⟨as.cap, ?_, ?_⟩
    · rw [hbs, hr.1]
      have := hinv.1
      cases as; simp_all
    · have hl := hr.2
      rw [← hr.1]; have := hinv.2; omega
  | case4 as bs hb hfit =>
    exfalso
    have hl := (unparse_room e _ uc hb).2
    have hroom : roomFor as e.ts = as.cap - e.ts - as.data.length := by simp [roomFor, hinv.2]
    have hbs : bs = unparse e (roomFor as e.ts) uc := rfl
    apply hfit; rw [hbs]; have := hinv.2; omega

/-! ### `archive_string_append_unicode` -/

/-- `archive_string_append_unicode`'s loop computes `transcode` and keeps every store inside
the buffer: from any state satisfying the invariant it ends in `.ok` with the transcoded bytes
appended, room for the terminator left. -/
theorem appendLoop_spec (fe te : Enc) (tm : Nat) :
    ∀ (len : Nat) (xs : List Nat) (as : AStr) (ret : Int) (acc : List Nat),
      len ≤ xs.length → BufInv te.ts as →
      ∃ r out cap', transcode fe te xs len acc ret = .ok r (acc ++ out) ∧
        appendLoop fe te tm xs len as ret = .ok r { alloc := true, cap := cap', data := as.data ++ out } ∧
        as.data.length + out.length + te.ts ≤ cap' := by
  intro len
  induction len using Nat.strongRecOn with
  | ind len ih =>
    intro xs as ret acc hlen hinv
    rw [transcode, appendLoop]
    cases hp : parse fe xs len with
    | oob => exact absurd hp (parse_no_oob fe xs len hlen)
    | ret n uc =>
      simp only []
      by_cases hn : n = 0
      · simp only [hn, if_true]
        have h1 : ¬ as.cap ≤ as.data.length := by have := hinv.2; have := te.ts_pos; omega
        have h2 : ¬ (te.ts = 2 ∧ as.cap ≤ as.data.length + 1) := by have := hinv.2; omega
        simp only [h1, h2, if_false]
        refine ⟨ret, [], as.cap, by simp, ?_, by simpa using hinv.2⟩
        have := hinv.1
        cases as; simp_all
      · have hk := parse_progress fe xs len n uc hp hn
        have hk' : n.natAbs ≤ len ∧ 0 < n.natAbs := ⟨hk.2, by omega⟩
        simp only [hn, if_false, hk', and_self, dite_true]
        obtain ⟨cap1, hg, hfit⟩ := unparseGrow_spec te ((len - n.natAbs) * tm) (uc.getD 0) as hinv
        rw [hg]
        simp only []
        have hinv' : BufInv te.ts { alloc := true, cap := cap1, data := as.data ++ unparse te 4 (uc.getD 0) } := by
          refine ⟨rfl, ?_⟩; simp only [List.length_append]; omega
        obtain ⟨r, out, cap', ht, ha, hc⟩ := ih (len - n.natAbs) (by omega) (xs.drop n.natAbs) _
          (if n < 0 then -1 else ret) (acc ++ unparse te 4 (uc.getD 0)) (by simp; omega) hinv'
        refine ⟨r, unparse te 4 (uc.getD 0) ++ out, cap', ?_, ?_, ?_⟩
        · rw [ht]; simp
        · rw [ha]; simp
        · simp only [List.length_append] at hc ⊢; omega

theorem appendUnicode_spec (flag : Nat) (as : AStr) (xs : List Nat) (len : Nat) (hlen : len ≤ xs.length) :
    ∃ r out cap', transcode (fromEnc flag) (toEnc flag) xs len [] 0 = .ok r out ∧
      appendUnicode flag as xs len = .ok r { alloc := true, cap := cap', data := as.data ++ out } ∧
      as.data.length + out.length + (toEnc flag).ts ≤ cap' := by
  unfold appendUnicode
  have hinv : BufInv (toEnc flag).ts (ensure as (as.data.length + len * tmOf flag + (toEnc flag).ts)) :=
    ensure_inv _ as _ (by omega)
  obtain ⟨r, out, cap', ht, ha, hc⟩ := appendLoop_spec (fromEnc flag) (toEnc flag) (tmOf flag) len xs _ 0 [] hlen hinv
  rw [ensure_data] at ha hc
  exact ⟨r, out, cap', by simpa using ht, ha, hc⟩

/-! ### sequences of scalar values -/

/-- The byte string `unparse e` produces for a sequence of code points. -/
def encSeq (e : Enc) (cs : List Nat) : List Nat := cs.flatMap (unparse e 4)

/-- What a source encoding can carry: any scalar value, except that U+0000 ends a UTF-8 string. -/
def Carries (e : Enc) (c : Nat) : Prop := IsScalar c ∧ (e = .utf8 → 0 < c)

theorem parse_encode (fe : Enc) (c : Nat) (hc : Carries fe c) (rest : List Nat) (n : Nat)
    (hn : (unparse fe 4 c).length ≤ n) :
    parse fe (unparse fe 4 c ++ rest) n = .ret (unparse fe 4 c).length (some c) := by
  cases fe
  · exact cesu8_encode c (hc.2 rfl) hc.1 rest n hn
  · exact utf16_encode true c hc.1 rest n hn
  · exact utf16_encode false c hc.1 rest n hn

theorem parse_end (fe : Enc) (xs : List Nat) : parse fe xs 0 = .ret 0 (if fe = .utf8 then some 0 else none) := by
  cases fe <;> simp [parse, cesu8ToUnicode, utf8Raw, utf16ToUnicode]

/-- Transcoding the encoding of a sequence of scalar values yields the encoding of the same
sequence in the target encoding, and reports no failure. -/
theorem transcode_encSeq (fe te : Enc) (cs : List Nat) (hcs : ∀ c ∈ cs, Carries fe c)
    (acc : List Nat) (ret : Int) :
    transcode fe te (encSeq fe cs) (encSeq fe cs).length acc ret = .ok ret (acc ++ encSeq te cs) := by
  induction cs generalizing acc with
  | nil =>
    rw [transcode]
    simp [encSeq, parse_end]
  | cons c cs ih =>
    have hc := hcs c (by simp)
    have hlen : (encSeq fe (c :: cs)).length = (unparse fe 4 c).length + (encSeq fe cs).length := by
      simp [encSeq]
    have hpos : 0 < (unparse fe 4 c).length := by
      have := unparse4_ne_nil fe c
      cases h : unparse fe 4 c with
      | nil => exact absurd h this
      | cons _ _ => simp
    rw [transcode]
    have hp := parse_encode fe c hc (encSeq fe cs) (encSeq fe (c :: cs)).length (by omega)
    have hx : encSeq fe (c :: cs) = unparse fe 4 c ++ encSeq fe cs := by simp [encSeq]
    rw [hx] at hp ⊢
    rw [hp]
    have hne : ((unparse fe 4 c).length : Int) ≠ 0 := by omega
    have hk : (((unparse fe 4 c).length : Int).natAbs ≤ (unparse fe 4 c ++ encSeq fe cs).length ∧
        0 < ((unparse fe 4 c).length : Int).natAbs) := by
      simp only [Int.natAbs_natCast, List.length_append]; omega
    have hnn : ¬ ((unparse fe 4 c).length : Int) < 0 := by omega
    simp only []
    rw [if_neg hne, dif_pos hk]
    simp only [hnn, if_false, Int.natAbs_natCast, Option.getD_some]
    have hd : (unparse fe 4 c ++ encSeq fe cs).drop (unparse fe 4 c).length = encSeq fe cs := by simp
    have hl : (unparse fe 4 c ++ encSeq fe cs).length - (unparse fe 4 c).length = (encSeq fe cs).length := by simp
    rw [hd, hl, ih (fun c' h' => hcs c' (by simp [h']))]
    simp [encSeq]

/-! ### `strncat_from_utf8_to_utf8` -/

/-- Well-formed UTF-8 without NUL: the encoding of a sequence of non-zero scalar values. -/
def WellFormed8 (bs : List Nat) : Prop := ∃ cs, (∀ c ∈ cs, Carries .utf8 c) ∧ bs = encSeq .utf8 cs

theorem wellFormed8_nil : WellFormed8 [] := ⟨[], by simp, rfl⟩

theorem wellFormed8_snoc {bs : List Nat} {c : Nat} (h : WellFormed8 bs) (hc : Carries .utf8 c) :
    WellFormed8 (bs ++ unicodeToUtf8 4 c) := by
  obtain ⟨cs, hcs, rfl⟩ := h
  refine ⟨cs ++ [c], ?_, by simp [encSeq, unparse]⟩
  intro c' hc'
  simp at hc'
  rcases hc' with h | h
  · exact hcs c' h
  · exact h ▸ hc

theorem carries_rchar : Carries .utf8 unicodeRChar :=
  ⟨by rw [isScalar_iff]; simp [unicodeRChar], fun _ => by simp [unicodeRChar]⟩

theorem utf8ToUnicode_neg (xs : List Nat) (n : Nat) (r : Int) (uc : Option Nat)
    (h : utf8ToUnicode xs n = .ret r uc) (hr : r < 0) :
    uc = some unicodeRChar ∨ (r = -3 ∧ isSurrogate (uc.getD 0) = true) := by
  unfold utf8ToUnicode at h
  cases hraw : utf8Raw xs n with
  | oob => simp [hraw] at h
  | ret r1 uc1 =>
    simp only [hraw] at h
    split at h
    · rename_i hs
      simp only [Dec.ret.injEq] at h
      exact .inr ⟨h.1.symm, h.2 ▸ hs.2⟩
    · simp only [Dec.ret.injEq] at h
      exact .inl (h.2 ▸ utf8Raw_neg xs n r1 uc1 hraw (by omega))

/-- The UTF-8 → UTF-8 copy always terminates with a result, reads only inside the block, and
what it appends is well-formed UTF-8; its return value is the incoming one or -1. -/
theorem utf8ToUtf8Loop_spec :
    ∀ (len : Nat) (xs out : List Nat) (ret : Int), len ≤ xs.length →
      ∃ r app, utf8ToUtf8Loop xs len out ret = .ok r (out ++ app) ∧ WellFormed8 app ∧ (r = ret ∨ r = -1) := by
  intro len
  induction len using Nat.strongRecOn with
  | ind len ih =>
    intro xs out ret hlen
    rw [utf8ToUtf8Loop]
    cases hp : utf8ToUnicode xs len with
    | oob => exact absurd hp (utf8ToUnicode_no_oob xs len hlen)
    | ret r uc =>
      simp only []
      by_cases hr0 : r = 0
      · simp only [hr0, if_true]
        exact ⟨ret, [], by simp, wellFormed8_nil, .inl rfl⟩
      rw [if_neg hr0]
      have hprog := utf8ToUnicode_progress xs len r uc hp hr0
      by_cases hpos : 0 < r
      · rw [if_pos hpos]
        have hk : r.toNat ≤ len ∧ 0 < r.toNat := by omega
        simp only [hk, and_self, dite_true]
        obtain ⟨c, hc, hcp, hsc, htake, hl, hn⟩ := utf8ToUnicode_canonical xs len r uc hp hpos
        obtain ⟨r', app, he, hw, hr'⟩ := ih (len - r.toNat) (by omega) (xs.drop r.toNat) (out ++ xs.take r.toNat) ret
          (by simp; omega)
        refine ⟨r', xs.take r.toNat ++ app, by rw [he]; simp, ?_, hr'⟩
        obtain ⟨cs, hcs, rfl⟩ := hw
        refine ⟨c :: cs, ?_, by simp [encSeq, unparse, htake]⟩
        intro c' hc'
        simp at hc'
        rcases hc' with h | h
        · exact h ▸ ⟨hsc, fun _ => hcp⟩
        · exact hcs c' h
      · rw [if_neg hpos]
        have hneg : r < 0 := by omega
        -- the code point that is appended, and how many bytes are consumed
        have key : ∃ n uc', (if r = -3 ∧ isSurrogate (uc.getD 0) = true then cesu8ToUnicode xs len else Dec.ret r uc)
              = .ret n uc' ∧ n ≠ 0 ∧ n.natAbs ≤ len ∧ Carries .utf8 (uc'.getD 0) := by
          by_cases hsur : r = -3 ∧ isSurrogate (uc.getD 0) = true
          · rw [if_pos hsur]
            cases hc : cesu8ToUnicode xs len with
            | oob => exact absurd hc (cesu8_no_oob xs len hlen)
            | ret n uc' =>
              have hz := cesu8_zero xs len n uc' hc
              have hz0 := utf8ToUnicode_zero xs len r uc hp
              have hn0 : n ≠ 0 := by
                intro h0; exact hr0 (hz0.2 (hz.1 h0))
              have hpr := cesu8_progress xs len n uc' hc hn0
              refine ⟨n, uc', rfl, hn0, hpr.2, ?_⟩
              by_cases hnp : 0 < n
              · obtain ⟨c, hc', hcp, hsc, _⟩ := cesu8_canonical xs len n uc' hc hnp
                subst hc'; exact ⟨hsc, fun _ => hcp⟩
              · have := cesu8_neg xs len n uc' hc (by omega)
                subst this; exact carries_rchar
          · rw [if_neg hsur]
            refine ⟨r, uc, rfl, hr0, hprog.2, ?_⟩
            rcases utf8ToUnicode_neg xs len r uc hp hneg with h | h
            · subst h; exact carries_rchar
            · exact absurd h hsur
        obtain ⟨n, uc', hkey, hn0, hnl, hcar⟩ := key
        rw [hkey]
        simp only []
        have hk0 : ¬ n.natAbs = 0 := by omega
        rw [if_neg hk0, dif_pos hnl]
        obtain ⟨r', app, he, hw, hr'⟩ := ih (len - n.natAbs) (by omega) (xs.drop n.natAbs)
          (out ++ unicodeToUtf8 4 (uc'.getD 0)) (if n < 0 then -1 else ret) (by simp; omega)
        refine ⟨r', unicodeToUtf8 4 (uc'.getD 0) ++ app, by rw [he]; simp, ?_, ?_⟩
        · obtain ⟨cs, hcs, rfl⟩ := hw
          refine ⟨uc'.getD 0 :: cs, ?_, by simp [encSeq, unparse]⟩
          intro c' hc'
          simp at hc'
          rcases hc' with h | h
          · exact h ▸ hcar
          · exact hcs c' h
        · rcases hr' with h | h
          · split at h
            · exact .inr h
            · exact .inl h
          · exact .inr h

/-- Well-formed UTF-8 is copied verbatim and no failure is reported. -/
theorem utf8ToUtf8Loop_encSeq (cs : List Nat) (hcs : ∀ c ∈ cs, Carries .utf8 c) (rest out : List Nat) (ret : Int) :
    utf8ToUtf8Loop (encSeq .utf8 cs ++ rest) (encSeq .utf8 cs).length out ret = .ok ret (out ++ encSeq .utf8 cs) := by
  induction cs generalizing out with
  | nil =>
    rw [utf8ToUtf8Loop]
    simp [encSeq, utf8ToUnicode, utf8Raw]
  | cons c cs ih =>
    have hc := hcs c (by simp)
    have hx : encSeq .utf8 (c :: cs) = unicodeToUtf8 4 c ++ encSeq .utf8 cs := by simp [encSeq, unparse]
    have hpos : 0 < (unicodeToUtf8 4 c).length := by
      have := unparse4_ne_nil .utf8 c
      simp only [unparse] at this
      cases h : unicodeToUtf8 4 c with
      | nil => exact absurd h this
      | cons _ _ => simp
    rw [utf8ToUtf8Loop, hx, List.append_assoc]
    have hp := utf8ToUnicode_encode c (hc.2 rfl) hc.1 (encSeq .utf8 cs ++ rest)
      (unicodeToUtf8 4 c ++ encSeq .utf8 cs).length (by simp)
    rw [hp]
    simp only []
    have hne : ((unicodeToUtf8 4 c).length : Int) ≠ 0 := by omega
    have hp0 : (0 : Int) < ((unicodeToUtf8 4 c).length : Int) := by omega
    have hk : ((unicodeToUtf8 4 c).length : Int).toNat ≤ (unicodeToUtf8 4 c ++ encSeq .utf8 cs).length ∧
        0 < ((unicodeToUtf8 4 c).length : Int).toNat := by
      simp only [Int.toNat_natCast, List.length_append]; omega
    rw [if_neg hne, if_pos hp0, dif_pos hk]
    simp only [Int.toNat_natCast]
    have hd : (unicodeToUtf8 4 c ++ (encSeq .utf8 cs ++ rest)).drop (unicodeToUtf8 4 c).length
        = encSeq .utf8 cs ++ rest := by simp
    have ht : (unicodeToUtf8 4 c ++ (encSeq .utf8 cs ++ rest)).take (unicodeToUtf8 4 c).length
        = unicodeToUtf8 4 c := by simp
    have hl : (unicodeToUtf8 4 c ++ encSeq .utf8 cs).length - (unicodeToUtf8 4 c).length
        = (encSeq .utf8 cs).length := by simp
    rw [hd, ht, hl, ih (fun c' h' => hcs c' (by simp [h']))]
    simp

/-! ### a conversion that reports no failure preserves the name -/

/-- How one scalar value may be written in the source: its regular encoding or, in UTF-8 only,
as a CESU-8 pair of 3-byte surrogates (`pair = true`). -/
def srcItem (fe : Enc) (c : Nat) (pair : Bool) : List Nat :=
  if fe = .utf8 ∧ pair = true then unicodeToUtf8 4 (hiSur c) ++ unicodeToUtf8 4 (loSur c) else unparse fe 4 c

theorem parse_canonical (fe : Enc) (xs : List Nat) (n : Nat) (r : Int) (uc : Option Nat)
    (hb : fe ≠ .utf8 → ∀ b ∈ xs, b < 256)
    (h : parse fe xs n = .ret r uc) (hr : 0 < r) :
    ∃ c pair, uc = some c ∧ Carries fe c ∧ (pair = true → fe = .utf8 ∧ 0x10000 ≤ c) ∧
      xs.take r.toNat = srcItem fe c pair ∧ r.toNat = (srcItem fe c pair).length ∧ r.toNat ≤ n := by
  cases fe with
  | utf8 =>
    obtain ⟨c, hc, hp, hs, hn, hcase⟩ := cesu8_canonical xs n r uc h hr
    rcases hcase with ⟨ht, hl⟩ | ⟨h6, hsup, ht⟩
    · exact ⟨c, false, hc, ⟨hs, fun _ => hp⟩, by simp, by simpa [srcItem, unparse] using ht,
        by simpa [srcItem, unparse] using hl, hn⟩
    · have hsc := (isScalar_iff c).1 hs
      have hh : 0xD800 ≤ hiSur c ∧ hiSur c ≤ 0xDBFF := by unfold hiSur; omega
      have hl : 0xDC00 ≤ loSur c ∧ loSur c ≤ 0xDFFF := by unfold loSur; omega
      have l1 := enc8_len3 (hiSur c) (by omega) (by omega)
      have l2 := enc8_len3 (loSur c) (by omega) (by omega)
      subst h6
      refine ⟨c, true, hc, ⟨hs, fun _ => hp⟩, fun _ => ⟨rfl, hsup⟩, ?_, ?_, hn⟩
      · simpa [srcItem] using ht
      · simp [srcItem, l1, l2]
  | utf16be =>
    obtain ⟨c, hc, hs, ht, hl, hn⟩ := utf16_canonical true xs n r uc (hb (by simp)) h hr
    exact ⟨c, false, hc, ⟨hs, fun h => by simp at h⟩, by simp, by simpa [srcItem, unparse] using ht,
      by simpa [srcItem, unparse] using hl, hn⟩
  | utf16le =>
    obtain ⟨c, hc, hs, ht, hl, hn⟩ := utf16_canonical false xs n r uc (hb (by simp)) h hr
    exact ⟨c, false, hc, ⟨hs, fun h => by simp at h⟩, by simp, by simpa [srcItem, unparse] using ht,
      by simpa [srcItem, unparse] using hl, hn⟩

theorem parse_zero (fe : Enc) (xs : List Nat) (n : Nat) (r : Int) (uc : Option Nat)
    (h : parse fe xs n = .ret r uc) (hr : r = 0) : n = 0 ∨ (fe = .utf8 ∧ xs[0]? = some 0) := by
  cases fe
  · rcases (cesu8_zero xs n r uc h).1 hr with h | h
    · exact .inl h
    · exact .inr ⟨rfl, h⟩
  · exact .inl ((utf16_zero true xs n r uc h).1 hr)
  · exact .inl ((utf16_zero false xs n r uc h).1 hr)

/-- Once a replacement happened the result stays -1. -/
theorem transcode_ret_neg (fe te : Enc) :
    ∀ (len : Nat) (xs acc : List Nat) (r : Int) (out : List Nat),
      transcode fe te xs len acc (-1) = .ok r out → r = -1 := by
  intro len
  induction len using Nat.strongRecOn with
  | ind len ih =>
    intro xs acc r out h
    rw [transcode] at h
    cases hp : parse fe xs len with
    | oob => simp [hp] at h
    | ret n uc =>
      simp only [hp] at h
      by_cases hn : n = 0
      · simp only [hn, if_true, Conv.ok.injEq] at h; exact h.1.symm
      · rw [if_neg hn] at h
        split at h
        · rename_i hk
          have : (if n < 0 then (-1 : Int) else -1) = -1 := by split <;> rfl
          rw [this] at h
          exact ih (len - n.natAbs) (by omega) _ _ _ _ h
        · simp at h

/-- If `transcode` reports no failure (return value 0), the bytes it consumed are a sequence of
scalar values in the source encoding (CESU-8 pairs allowed in UTF-8), it consumed the source up
to its end, and what it produced is the encoding of the same sequence in the target encoding. -/
theorem transcode_sound (fe te : Enc) :
    ∀ (len : Nat) (xs acc out : List Nat), (fe ≠ .utf8 → ∀ b ∈ xs, b < 256) → len ≤ xs.length →
      transcode fe te xs len acc 0 = .ok 0 out →
      ∃ items : List (Nat × Bool),
        (∀ it ∈ items, Carries fe it.1 ∧ (it.2 = true → fe = .utf8 ∧ 0x10000 ≤ it.1)) ∧
        (items.flatMap (fun it => srcItem fe it.1 it.2)).length ≤ len ∧
        xs.take (items.flatMap (fun it => srcItem fe it.1 it.2)).length = items.flatMap (fun it => srcItem fe it.1 it.2) ∧
        ((items.flatMap (fun it => srcItem fe it.1 it.2)).length = len ∨
          (fe = .utf8 ∧ xs[(items.flatMap (fun it => srcItem fe it.1 it.2)).length]? = some 0)) ∧
        out = acc ++ encSeq te (items.map (·.1)) := by
  intro len
  induction len using Nat.strongRecOn with
  | ind len ih =>
    intro xs acc out hb hlen h
    rw [transcode] at h
    cases hp : parse fe xs len with
    | oob => simp [hp] at h
    | ret n uc =>
      simp only [hp] at h
      by_cases hn : n = 0
      · simp only [hn, if_true, Conv.ok.injEq, true_and] at h
        refine ⟨[], by simp, by simp, by simp, ?_, by simp [encSeq, h]⟩
        rcases parse_zero fe xs len n uc hp hn with h0 | h0
        · exact .inl (by simp [h0])
        · exact .inr (by simpa using h0)
      · rw [if_neg hn] at h
        split at h
        case isFalse => simp at h
        rename_i hk
        by_cases hneg : n < 0
        · simp only [hneg, if_true] at h
          have := transcode_ret_neg fe te _ _ _ _ _ h
          omega
        simp only [hneg, if_false] at h
        have hpos : 0 < n := by omega
        obtain ⟨c, pair, hc, hcar, hpr, htake, hl, hnle⟩ := parse_canonical fe xs len n uc hb hp hpos
        subst hc
        have hkn : n.natAbs = n.toNat := by omega
        rw [hkn] at h hk
        simp only [Option.getD_some] at h
        obtain ⟨items, hit, hlen', htk, hend, hout⟩ := ih (len - n.toNat) (by omega) (xs.drop n.toNat) _ out
          (fun hne b hb' => hb hne b (List.mem_of_mem_drop hb')) (by simp; omega) h
        refine ⟨(c, pair) :: items, ?_, ?_, ?_, ?_, ?_⟩
        · intro it hmem
          simp at hmem
          rcases hmem with h1 | h1
          · subst h1; exact ⟨hcar, hpr⟩
          · exact hit it h1
        · simp only [List.flatMap_cons, List.length_append]; omega
        · simp only [List.flatMap_cons, List.length_append]
          rw [← hl, List.take_add, htake, htk]
        · simp only [List.flatMap_cons, List.length_append]
          rcases hend with he | he
          · left; omega
          · right
            refine ⟨he.1, ?_⟩
            have := he.2
            rw [List.getElem?_drop] at this
            rw [← hl]; exact this
        · rw [hout]; simp [encSeq]

/-! ### `best_effort_strncat_to_utf16` / `_from_utf16`: stores stay inside the buffer -/

theorem bestEffortToUtf16_go_spec (be : Bool) :
    ∀ (remaining : Nat) (xs : List Nat) (as : AStr) (ret : Int),
      remaining ≤ xs.length → as.data.length + 2 * (remaining + 1) ≤ as.cap →
      ∃ r as', bestEffortToUtf16.go be xs remaining as ret = .ok r as' ∧
        as'.data.length = as.data.length + 2 * remaining ∧ as'.cap = as.cap := by
  intro remaining
  induction remaining with
  | zero =>
    intro xs as ret _ hc
    refine ⟨ret, as, ?_, by simp, rfl⟩
    have : ¬ as.cap ≤ as.data.length + 1 := by omega
    simp [bestEffortToUtf16.go, this]
  | succ r ih =>
    intro xs as ret hl hc
    have h0 : xs[0]? = some (xs[0]'(by omega)) := List.getElem?_eq_getElem _
    have hnc : ¬ as.cap < as.data.length + 2 := by omega
    rw [bestEffortToUtf16.go, h0]
    simp only [hnc, if_false]
    obtain ⟨r', as', he, hd, hcap⟩ := ih (xs.drop 1)
      { as with data := as.data ++ enc16 be ((if xs[0]'(by omega) > 127 then (unicodeRChar, (-1 : Int)) else (xs[0]'(by omega), ret)).1 % 65536) }
      (if xs[0]'(by omega) > 127 then (unicodeRChar, (-1 : Int)) else (xs[0]'(by omega), ret)).2
      (by simp; omega) (by simp [enc16_len]; omega)
    refine ⟨r', as', ?_, ?_, hcap⟩
    · rw [← he]
    · rw [hd]; simp [enc16_len]; omega

/-- `best_effort_strncat_to_utf16`: every store (two per source byte and the two NULs) is below
`buffer_length`. -/
theorem bestEffortToUtf16_in_bounds (be : Bool) (as : AStr) (xs : List Nat) (length : Nat) (hl : length ≤ xs.length) :
    ∃ r as', bestEffortToUtf16 be as xs length = .ok r as' ∧
      as'.data.length = as.data.length + 2 * length ∧ as'.data.length + 2 ≤ as'.cap := by
  unfold bestEffortToUtf16
  have hc := ensure_cap_ge as (as.data.length + (length + 1) * 2)
  obtain ⟨r, as', he, hd, hcap⟩ := bestEffortToUtf16_go_spec be length xs
    (ensure as (as.data.length + (length + 1) * 2)) 0 hl (by rw [ensure_data]; omega)
  rw [ensure_data] at hd
  exact ⟨r, as', he, hd, by rw [hcap, hd]; omega⟩

theorem bestEffortFromUtf16Loop_spec (be : Bool) :
    ∀ (bytes : Nat) (xs : List Nat) (as : AStr) (ret : Int),
      bytes ≤ xs.length → as.data.length + bytes + 1 ≤ as.cap →
      ∃ r as', bestEffortFromUtf16Loop be xs bytes as ret = .ok r as' ∧ as'.data.length + 1 ≤ as'.cap := by
  intro bytes
  induction bytes using Nat.strongRecOn with
  | ind bytes ih =>
    intro xs as ret hl hc
    rw [bestEffortFromUtf16Loop]
    cases hp : utf16ToUnicode be xs bytes with
    | oob => exact absurd hp (utf16_no_oob be xs bytes hl)
    | ret n uc =>
      simp only []
      by_cases hn : n = 0
      · have : ¬ as.cap ≤ as.data.length := by omega
        simp only [hn, if_true, this, if_false]
        exact ⟨ret, as, rfl, by omega⟩
      · have hk := utf16_progress be xs bytes n uc hp hn
        have hk' : n.natAbs ≤ bytes ∧ 0 < n.natAbs := ⟨hk.2, by omega⟩
        have hnc : ¬ as.cap ≤ as.data.length := by omega
        rw [if_neg hn, dif_pos hk']
        simp only [hnc, if_false]
        obtain ⟨r', as', he, hd⟩ := ih (bytes - n.natAbs) (by omega) (xs.drop n.natAbs)
          { as with data := as.data ++ [(if uc.getD 0 > 127 then (63, (-1 : Int)) else (uc.getD 0, if n < 0 then -1 else ret)).1] }
          (if uc.getD 0 > 127 then (63, (-1 : Int)) else (uc.getD 0, if n < 0 then -1 else ret)).2
          (by simp; omega) (by simp; omega)
        refine ⟨r', as', ?_, hd⟩
        rw [← he]

/-- `best_effort_strncat_from_utf16`: every store (one per code unit consumed and the NUL) is
below `buffer_length`. -/
theorem bestEffortFromUtf16_in_bounds (be : Bool) (as : AStr) (xs : List Nat) (bytes : Nat) (hl : bytes ≤ xs.length) :
    ∃ r as', bestEffortFromUtf16 be as xs bytes = .ok r as' ∧ as'.data.length + 1 ≤ as'.cap := by
  unfold bestEffortFromUtf16
  have hc := ensure_cap_ge as (as.data.length + bytes + 1)
  exact bestEffortFromUtf16Loop_spec be bytes xs _ 0 hl (by rw [ensure_data]; omega)

theorem utf8ToUtf8Loop_ret_neg :
    ∀ (len : Nat) (xs out : List Nat) (r : Int) (res : List Nat),
      utf8ToUtf8Loop xs len out (-1) = .ok r res → r = -1 := by
  intro len
  induction len using Nat.strongRecOn with
  | ind len ih =>
    intro xs out r res h
    rw [utf8ToUtf8Loop] at h
    cases hp : utf8ToUnicode xs len with
    | oob => simp [hp] at h
    | ret r0 uc =>
      simp only [hp] at h
      by_cases hr0 : r0 = 0
      · simp only [hr0, if_true, Conv.ok.injEq] at h; exact h.1.symm
      rw [if_neg hr0] at h
      by_cases hpos : 0 < r0
      · rw [if_pos hpos] at h
        split at h
        · exact ih _ (by omega) _ _ _ _ h
        · simp at h
      · rw [if_neg hpos] at h
        split at h
        · simp at h
        · rename_i n uc' _
          split at h
          · simp at h
          · split at h
            · have : (if n < 0 then (-1 : Int) else -1) = -1 := by split <;> rfl
              rw [this] at h
              exact ih _ (by omega) _ _ _ _ h
            · simp at h

/-- UTF-8 → UTF-8 that reports no failure: the source was a sequence of non-zero scalar values in
UTF-8 (CESU-8 pairs allowed), read to its end, and the output is the regular UTF-8 of that sequence. -/
theorem utf8ToUtf8Loop_sound :
    ∀ (len : Nat) (xs acc out : List Nat), len ≤ xs.length →
      utf8ToUtf8Loop xs len acc 0 = .ok 0 out →
      ∃ items : List (Nat × Bool),
        (∀ it ∈ items, Carries .utf8 it.1 ∧ (it.2 = true → 0x10000 ≤ it.1)) ∧
        (items.flatMap (fun it => srcItem .utf8 it.1 it.2)).length ≤ len ∧
        xs.take (items.flatMap (fun it => srcItem .utf8 it.1 it.2)).length = items.flatMap (fun it => srcItem .utf8 it.1 it.2) ∧
        ((items.flatMap (fun it => srcItem .utf8 it.1 it.2)).length = len ∨
          xs[(items.flatMap (fun it => srcItem .utf8 it.1 it.2)).length]? = some 0) ∧
        out = acc ++ encSeq .utf8 (items.map (·.1)) := by
  intro len
  induction len using Nat.strongRecOn with
  | ind len ih =>
    intro xs acc out hlen h
    rw [utf8ToUtf8Loop] at h
    cases hp : utf8ToUnicode xs len with
    | oob => simp [hp] at h
    | ret r uc =>
      simp only [hp] at h
      by_cases hr0 : r = 0
      · simp only [hr0, if_true, Conv.ok.injEq, true_and] at h
        refine ⟨[], by simp, by simp, by simp, ?_, by simp [encSeq, h]⟩
        rcases (utf8ToUnicode_zero xs len r uc hp).1 hr0 with h0 | h0
        · exact .inl (by simp [h0])
        · exact .inr (by simpa using h0)
      rw [if_neg hr0] at h
      -- one step: `k` bytes consumed, code point `c` appended, written as `(c, pair)` in the source
      have step : ∀ (k : Nat) (c : Nat) (pair : Bool) (app : List Nat), 0 < k → k ≤ len →
          Carries .utf8 c → (pair = true → 0x10000 ≤ c) →
          xs.take k = srcItem .utf8 c pair → k = (srcItem .utf8 c pair).length → app = unicodeToUtf8 4 c →
          utf8ToUtf8Loop (xs.drop k) (len - k) (acc ++ app) 0 = .ok 0 out →
          ∃ items : List (Nat × Bool),
            (∀ it ∈ items, Carries .utf8 it.1 ∧ (it.2 = true → 0x10000 ≤ it.1)) ∧
            (items.flatMap (fun it => srcItem .utf8 it.1 it.2)).length ≤ len ∧
            xs.take (items.flatMap (fun it => srcItem .utf8 it.1 it.2)).length = items.flatMap (fun it => srcItem .utf8 it.1 it.2) ∧
            ((items.flatMap (fun it => srcItem .utf8 it.1 it.2)).length = len ∨
              xs[(items.flatMap (fun it => srcItem .utf8 it.1 it.2)).length]? = some 0) ∧
            out = acc ++ encSeq .utf8 (items.map (·.1)) := by
        intro k c pair app hk0 hkl hcar hpr htake hl happ hrec
        obtain ⟨items, hit, hlen', htk, hend, hout⟩ := ih (len - k) (by omega) (xs.drop k) _ out (by simp; omega) hrec
        refine ⟨(c, pair) :: items, ?_, ?_, ?_, ?_, ?_⟩
        · intro it hmem
          simp at hmem
          rcases hmem with h1 | h1
          · subst h1; exact ⟨hcar, hpr⟩
          · exact hit it h1
        · simp only [List.flatMap_cons, List.length_append]; omega
        · simp only [List.flatMap_cons, List.length_append]
          rw [← hl, List.take_add, htake, htk]
        · simp only [List.flatMap_cons, List.length_append]
          rcases hend with he | he
          · left; omega
          · right
            rw [List.getElem?_drop] at he
            rw [← hl]; exact he
        · rw [hout, happ]; simp [encSeq, unparse]
      by_cases hpos : 0 < r
      · rw [if_pos hpos] at h
        split at h
        case isFalse => simp at h
        rename_i hk
        obtain ⟨c, hc, hcp, hsc, htake, hl, hn⟩ := utf8ToUnicode_canonical xs len r uc hp hpos
        exact step r.toNat c false (xs.take r.toNat) hk.2 hk.1 ⟨hsc, fun _ => hcp⟩ (by simp)
          (by simpa [srcItem, unparse] using htake) (by simpa [srcItem, unparse] using hl) htake h
      · rw [if_neg hpos] at h
        split at h
        · simp at h
        · rename_i n uc' hdec
          split at h
          · simp at h
          split at h
          case isFalse => simp at h
          rename_i hk0 hkl
          by_cases hneg : n < 0
          · simp only [hneg, if_true] at h
            have := utf8ToUtf8Loop_ret_neg _ _ _ _ _ h
            omega
          simp only [hneg, if_false] at h
          -- a positive count here can only come from the CESU-8 decoder
          by_cases hsur : r = -3 ∧ isSurrogate (uc.getD 0) = true
          · rw [if_pos hsur] at hdec
            have hnpos : 0 < n := by omega
            obtain ⟨c, pair, hc, hcar, hpr, htake, hl, hnle⟩ :=
              parse_canonical .utf8 xs len n uc' (fun h => absurd rfl h) hdec hnpos
            subst hc
            have hkn : n.natAbs = n.toNat := by omega
            rw [hkn] at h hk0 hkl
            exact step n.toNat c pair _ (by omega) hkl hcar (fun hp' => (hpr hp').2) htake hl rfl h
          · rw [if_neg hsur] at hdec
            simp only [Dec.ret.injEq] at hdec
            omega

/-- `mbsnbytes`: at most `n`, inside the block, stops at the first NUL and not before. -/
theorem mbsnbytes_spec (xs : List Nat) (n : Nat) :
    mbsnbytes xs n ≤ n ∧ mbsnbytes xs n ≤ xs.length ∧
      (∀ i, i < mbsnbytes xs n → xs[i]? ≠ some 0) ∧
      (mbsnbytes xs n < n → mbsnbytes xs n < xs.length → xs[mbsnbytes xs n]? = some 0) := by
  induction xs generalizing n with
  | nil => cases n <;> simp [mbsnbytes]
  | cons b xs ih =>
    cases n with
    | zero => simp [mbsnbytes]
    | succ n =>
      simp only [mbsnbytes]
      by_cases hb : b = 0
      · simp [hb]
      · simp only [hb, if_false]
        obtain ⟨h1, h2, h3, h4⟩ := ih n
        refine ⟨by omega, by simp; omega, ?_, ?_⟩
        · intro i hi
          cases i with
          | zero => simp [hb]
          | succ i => simpa using h3 i (by omega)
        · intro ha hb'
          simpa using h4 (by omega) (by simpa using hb')

end LA.Unicode
