/- Helper lemmas for `LA.Unicode` (property C18). -/
import LA.Model.Unicode
namespace LA.Unicode
open LA.Gen.Utf8Table

end LA.Unicode
