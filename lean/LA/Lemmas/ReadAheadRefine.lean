import LA.Lemmas.ReadAheadConsume
set_option linter.unusedSimpArgs false
namespace LA.RA

/-- Abstraction used for refinement: once failed, the rest of the stream is irrelevant. -/
def absN (s : State) : Spec :=
  if s.fatal then ⟨[], s.term, true⟩ else ⟨remaining s, s.term, false⟩

def specConsume (sp : Spec) (n : Int) : Int × Spec :=
  if n < 0 then (-30, sp)
  else if n = 0 then (0, sp)
  else if sp.fatal then (-30, sp)
  else if n.toNat ≤ sp.rem.length then (n, { sp with rem := sp.rem.drop n.toNat })
  else match sp.term with
    | .eof => (-30, { sp with rem := [] })
    | .err => (-30, ⟨[], sp.term, true⟩)

@[simp] theorem moveFwd_skips (s : State) (m : Nat) : (moveFwd s m).skips = s.skips := by
  unfold moveFwd; split <;> rfl
@[simp] theorem moveFwd_canSkip (s : State) (m : Nat) : (moveFwd s m).canSkip = s.canSkip := by
  unfold moveFwd; split <;> rfl
@[simp] theorem enlarge_skips (s : State) (m b : Nat) : (enlarge s m b).skips = s.skips := by
  unfold enlarge; split <;> rfl
@[simp] theorem enlarge_canSkip (s : State) (m b : Nat) : (enlarge s m b).canSkip = s.canSkip := by
  unfold enlarge; split <;> rfl

theorem aheadLoop_skips (s : State) (min : Nat) :
    (aheadLoop s min).2.skips = s.skips ∧ (aheadLoop s min).2.canSkip = s.canSkip := by
  fun_induction aheadLoop s min <;> simp_all +zetaDelta

theorem skipLoop_suffix (s : State) (request total : Nat) (sk : List Int) (h : SkipsOk sk) :
    SkipsOk (skipLoop s request total sk).2.skips := by
  induction sk generalizing s request total with
  | nil => simp [skipLoop, SkipsOk]
  | cons g rest ih =>
    have hr : SkipsOk rest := fun x hx => h x (List.mem_cons_of_mem _ hx)
    simp only [skipLoop]
    split
    · exact hr
    · split
      · exact hr
      · split
        · exact hr
        · exact ih _ _ _ hr

theorem readSkipLoop_skips (s : State) (request total : Nat) :
    (readSkipLoop s request total).2.skips = s.skips ∧ (readSkipLoop s request total).2.canSkip = s.canSkip := by
  fun_induction readSkipLoop s request total <;> simp_all +zetaDelta

theorem useBuffers_skips (s : State) (n : Nat) :
    (useBuffers s n).1.skips = s.skips ∧ (useBuffers s n).1.canSkip = s.canSkip := by
  simp [useBuffers]

theorem clientSeek_skips (s : State) (w : Whence) (off : Int) : (clientSeek s w off).2.skips = s.skips := by
  unfold clientSeek
  generalize seekTarget s w off = np
  split
  · rfl
  · simp only []
    split
    · rfl
    · split <;> rfl

theorem seekSkip_skips (s : State) (n : Nat) : (seekSkip s n).2.skips = s.skips := by
  unfold seekSkip
  split
  · simp only []
    split <;> exact clientSeek_skips _ _ _
  · rfl

theorem advance_skips (s : State) (n : Nat) (h : SkipsOk s.skips) : SkipsOk (advance s n).2.skips := by
  unfold advance
  split
  · exact h
  · have hu := useBuffers_skips s n
    generalize useBuffers s n = ub at *
    obtain ⟨s2, total⟩ := ub
    simp only [] at hu ⊢
    split
    · rw [hu.1]; exact h
    · have h2 : SkipsOk s2.skips := by rw [hu.1]; exact h
      have h3 : SkipsOk (if s2.canSkip then (if s2.noSkipper then seekSkip s2 (n - total) else skipLoop s2 (n - total) 0 s2.skips) else ((0 : Int), s2)).2.skips := by
        split
        · split
          · rw [seekSkip_skips]; exact h2
          · exact skipLoop_suffix _ _ _ _ h2
        · exact h2
      generalize (if s2.canSkip then (if s2.noSkipper then seekSkip s2 (n - total) else skipLoop s2 (n - total) 0 s2.skips) else ((0 : Int), s2)) = sk at *
      obtain ⟨r, s3⟩ := sk
      simp only [] at h3 ⊢
      split
      · exact h3
      · split
        · exact h3
        · rw [(readSkipLoop_skips _ _ _).1]; exact h3

theorem consume_skips (s : State) (n : Int) (h : SkipsOk s.skips) : SkipsOk (consume s n).2.skips := by
  unfold consume
  split
  · exact h
  · split
    · exact h
    · have := advance_skips s n.toNat h
      generalize advance s n.toNat = r at *
      obtain ⟨a, b⟩ := r
      simp only [] at this ⊢
      split <;> exact this

/-- **Refinement of `__archive_read_filter_ahead`.** -/
theorem ahead_refines (s : State) (min : Nat) (hi : Inv s) (hmin : min ≤ 2 ^ 62) :
    Inv (ahead s min).2 ∧ (ahead s min).2.skips = s.skips ∧
    obsOf min (ahead s min).1 = (specAhead (absN s) min).1 ∧
    absN (ahead s min).2 = (specAhead (absN s) min).2 ∧ (ahead s min).1 ≠ .stuck := by
  unfold ahead
  by_cases hf : s.fatal = true
  · simp [hf, hi, obsOf, specAhead, absN]
  · have hf' : s.fatal = false := by simpa using hf
    simp only [hf', Bool.false_eq_true, if_false]
    obtain ⟨g1, g2, g3, g4⟩ := aheadLoop_spec s min hi hf' hmin
    refine ⟨g1, (aheadLoop_skips s min).1, ?_⟩
    generalize aheadLoop s min = r at *
    obtain ⟨r1, s'⟩ := r
    simp only [] at g1 g2 g3 g4 ⊢
    cases r1 with
    | window w fc =>
      obtain ⟨a1, a2, a3, a4⟩ := g4
      have hle : min ≤ (remaining s).length := Nat.le_trans a3 a2.length_le
      obtain ⟨t, ht⟩ := a2
      refine ⟨?_, ?_, by simp⟩
      · simp [obsOf, specAhead, absN, hf', hle]
        rw [← ht, List.take_append_of_le_length a3]
      · simp [specAhead, absN, hf', hle, a4, a1, g2]
    | short k =>
      obtain ⟨a1, a2, a3⟩ := g4
      rcases a3 with ⟨b1, b2⟩ | ⟨b1, b2, b3⟩
      · subst b1
        refine ⟨by simp [obsOf, specAhead, absN, hf'], by simp [specAhead, absN, hf', a2, a1, g2], by simp⟩
      · have hne : min ≠ 0 := by omega
        have hnle : ¬ min ≤ (remaining s).length := by omega
        refine ⟨?_, ?_, by simp⟩
        · simp [obsOf, specAhead, absN, hf', hne, hnle, b3, b2]
        · simp [specAhead, absN, hf', hnle, b3, a2, a1, g2]
    | fatal =>
      obtain ⟨_, a1, a2, a3⟩ := g4
      have hnle : ¬ min ≤ (remaining s).length := by omega
      refine ⟨by simp [obsOf, specAhead, absN, hf', hnle, a3], ?_, by simp⟩
      simp [specAhead, absN, hf', hnle, a3, a1, g2]
    | stuck => exact absurd g4 id

/-- **Refinement of `__archive_read_filter_consume`** for a well-behaved skip callback. -/
theorem consume_refines (s : State) (n : Int) (hi : Inv s) (hsk : SkipsOk s.skips) (hns : NoSeekSkip s) :
    Inv (consume s n).2 ∧ (consume s n).1 = (specConsume (absN s) n).1 ∧
    absN (consume s n).2 = (specConsume (absN s) n).2 := by
  unfold consume specConsume
  by_cases h1 : n < 0
  · simp [h1, hi]
  · simp only [h1, if_false]
    by_cases h2 : n = 0
    · simp [h2, hi]
    · simp only [h2, if_false]
      by_cases hf : s.fatal = true
      · have : (absN s).fatal = true := by simp [absN, hf]
        simp only [this, if_true]
        simp only [advance, hf, if_true]
        have hn : ¬ ((-1 : Int) = n) := by omega
        simp [hn, hi]
      · have hf' : s.fatal = false := by simpa using hf
        have hpos : 0 < n.toNat := by omega
        obtain ⟨g1, g2, _, g4⟩ := advance_spec s n.toNat hi hf' hpos hns
        have hrem : (absN s).rem = remaining s := by simp [absN, hf']
        have hfat : (absN s).fatal = false := by simp [absN, hf']
        have hterm : (absN s).term = s.term := by simp [absN, hf']
        simp only [hfat, Bool.false_eq_true, if_false, hrem, hterm]
        generalize advance s n.toNat = r at *
        obtain ⟨sk, s'⟩ := r
        simp only [] at g1 g2 g4 ⊢
        have hnn : ((n.toNat : Nat) : Int) = n := by omega
        rcases g4 with ⟨a1, a2, a3, a4, a5⟩ | ⟨a1, a2, a3, a4, a5⟩ | ⟨a1, a2, a3⟩
        · have : sk = n := by rw [a1, hnn]
          simp only [this, if_true, a2]
          refine ⟨g1, by first | rfl | trivial, ?_⟩
          simp [absN, a5, a3, g2, hf']
        · have hne : ¬ sk = n := by rw [a1]; omega
          have hnle : ¬ n.toNat ≤ (remaining s).length := by omega
          simp only [hne, if_false, hnle, a3]
          refine ⟨g1, by first | rfl | trivial, ?_⟩
          simp [absN, a5, a4, g2, hf', a3]
        · have hne : ¬ sk = n := by omega
          rcases a3 with a3 | ⟨b1, b2⟩
          · exact absurd hsk a3
          · have hnle : ¬ n.toNat ≤ (remaining s).length := by omega
            simp only [hne, if_false, hnle, b2]
            refine ⟨g1, by first | rfl | trivial, ?_⟩
            simp [absN, a2, g2, b2]

end LA.RA
