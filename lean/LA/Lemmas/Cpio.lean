/- The cpio header writers against the cpio reader's field parsers (C10, C02). Core Lean only. -/
import LA.Lemmas.Bytes
import LA.Lemmas.NumFmt
namespace LA.Codec
open LA.NumFmt LA.Gen.CpioLayout

def cpioFieldW (fmt : Int → Nat → Bool × List Nat) (f : CpioNum) : FieldW := ⟨f.off, f.size, (fmt f.v f.size).2⟩

theorem cpioHeaderBytes_eq (fmt : Int → Nat → Bool × List Nat) (total : Nat) (fs : List CpioNum) :
    cpioHeaderBytes fmt total fs = applyWrites (List.replicate total 0) (fieldWrites (fs.map (cpioFieldW fmt))) := by
  unfold cpioHeaderBytes fieldWrites cpioFieldW
  simp only [List.map_map]
  rfl

/-- Reading one field of a cpio header back: exactly the formatter's output for that field,
provided the formatter fills the field (`hlen`) and the fields do not overlap. -/
theorem cpioHeader_slice (fmt : Int → Nat → Bool × List Nat) (total : Nat) (fs : List CpioNum)
    (hlen : ∀ v s, (fmt v s).2.length = s)
    (hin : ∀ f ∈ fs, f.off + f.size ≤ total)
    (hdis : (fs.map (cpioFieldW fmt)).Pairwise FieldW.disjoint)
    (f : CpioNum) (hf : f ∈ fs) :
    slice (cpioHeaderBytes fmt total fs) f.off f.size = (fmt f.v f.size).2 := by
  rw [cpioHeaderBytes_eq]
  have hfit : ∀ g ∈ fs.map (cpioFieldW fmt), g.bytes.length ≤ g.width ∧ g.off + g.width ≤ (List.replicate total 0).length := by
    intro g hg
    simp only [List.mem_map] at hg
    obtain ⟨f', hf', rfl⟩ := hg
    simp only [cpioFieldW, hlen, List.length_replicate]
    exact ⟨Nat.le_refl _, hin f' hf'⟩
  have := field_read (List.replicate total 0) (fs.map (cpioFieldW fmt)) hfit hdis (cpioFieldW fmt f)
    (List.mem_map.2 ⟨f, hf, rfl⟩)
  simp only [cpioFieldW, hlen, Nat.sub_self] at this
  rw [this]
  simp [slice]

theorem cpioHeaderBytes_length (fmt : Int → Nat → Bool × List Nat) (total : Nat) (fs : List CpioNum)
    (hlen : ∀ v s, (fmt v s).2.length = s) (hin : ∀ f ∈ fs, f.off + f.size ≤ total) :
    (cpioHeaderBytes fmt total fs).length = total := by
  rw [cpioHeaderBytes_eq, fieldWrites_length, List.length_replicate]
  intro g hg
  simp only [List.mem_map] at hg
  obtain ⟨f', hf', rfl⟩ := hg
  simp only [cpioFieldW, hlen, List.length_replicate]
  exact ⟨Nat.le_refl _, hin f' hf'⟩

/-! ### odc -/

theorem odcFormatOctal_length (v : Int) (d : Nat) : (odcFormatOctal v d).2.length = d := by
  rw [odcFormatOctal_eq]; split <;> simp [octHead_length]

theorem odcFields_in (e : Entry) (ino pl fsz : Int) : ∀ f ∈ odcFields e ino pl fsz, f.off + f.size ≤ odcr_header_size := by
  simp only [odcFields, List.mem_cons, List.mem_nil_iff, or_false, forall_eq_or_imp, forall_eq]
  decide

theorem odcFields_disjoint (e : Entry) (ino pl fsz : Int) :
    ((odcFields e ino pl fsz).map (cpioFieldW odcFormatOctal)).Pairwise FieldW.disjoint := by
  simp only [odcFields, List.map, cpioFieldW, List.pairwise_cons, List.mem_cons, List.mem_nil_iff, or_false,
    forall_eq_or_imp, forall_eq, FieldW.disjoint, List.Pairwise.nil, List.not_mem_nil, false_imp_iff,
    implies_true, and_true,
    odcw_magic_offset, odcw_magic_size, odcw_dev_offset, odcw_dev_size, odcw_ino_offset, odcw_ino_size,
    odcw_mode_offset, odcw_mode_size, odcw_uid_offset, odcw_uid_size, odcw_gid_offset, odcw_gid_size,
    odcw_nlink_offset, odcw_nlink_size, odcw_rdev_offset, odcw_rdev_size, odcw_mtime_offset, odcw_mtime_size,
    odcw_namesize_offset, odcw_namesize_size, odcw_filesize_offset, odcw_filesize_size]
  omega

/-- A field `format_octal` stored without complaint is parsed back exactly by the reader's `atol8`. -/
theorem odc_field_roundtrip (e : Entry) (ino pl fsz : Int) (f : CpioNum) (hf : f ∈ odcFields e ino pl fsz)
    (hok : (odcFormatOctal f.v f.size).1 = false) (hsz : f.size ≤ 21) :
    ((cpioAtol8 (slice (cpioHeaderBytes odcFormatOctal odcr_header_size (odcFields e ino pl fsz)) f.off f.size) 0 : Nat) : Int)
      = f.v := by
  rw [cpioHeader_slice odcFormatOctal _ _ odcFormatOctal_length (odcFields_in e ino pl fsz)
    (odcFields_disjoint e ino pl fsz) f hf]
  -- `atol8` on exactly the field
  have hfit : 0 ≤ f.v ∧ f.v.toNat < 8 ^ f.size := by
    rw [odcFormatOctal_eq] at hok
    by_cases h : 0 ≤ f.v ∧ f.v.toNat < 8 ^ f.size
    · exact h
    · rw [if_neg h] at hok; cases hok
  rw [odcFormatOctal_eq, if_pos hfit]
  have h1 : 8 ^ f.size ≤ 8 ^ 21 := Nat.pow_le_pow_right (by decide) hsz
  have h2 : (8 : Nat) ^ 21 = 9223372036854775808 := by decide
  have := cpioAtol8_octHead f.v.toNat f.size 0 [] (by rw [Nat.mod_eq_of_lt hfit.2]; omega)
  rw [List.append_nil] at this
  rw [this, cpioAtol8_stop _ _ (Or.inl rfl), Nat.mod_eq_of_lt hfit.2]
  omega

/-! ### newc -/

theorem newcFormatHex_length (v : Int) (d : Nat) : (newcFormatHex v d).2.length = d := by
  rw [newcFormatHex_eq]; split <;> simp [hexHead_length]

theorem newcFields_in (e : Entry) (dM dm pl fsz : Int) :
    ∀ f ∈ newcFields e dM dm pl fsz, f.off + f.size ≤ newcr_header_size := by
  simp only [newcFields, List.mem_cons, List.mem_nil_iff, or_false, forall_eq_or_imp, forall_eq]
  decide

theorem newcFields_disjoint (e : Entry) (dM dm pl fsz : Int) :
    ((newcFields e dM dm pl fsz).map (cpioFieldW newcFormatHex)).Pairwise FieldW.disjoint := by
  simp only [newcFields, List.map, cpioFieldW, List.pairwise_cons, List.mem_cons, List.mem_nil_iff, or_false,
    forall_eq_or_imp, forall_eq, FieldW.disjoint, List.Pairwise.nil, List.not_mem_nil, false_imp_iff,
    implies_true, and_true,
    newcw_magic_offset, newcw_magic_size, newcw_devmajor_offset, newcw_devmajor_size, newcw_devminor_offset,
    newcw_devminor_size, newcw_ino_offset, newcw_ino_size, newcw_mode_offset, newcw_mode_size, newcw_uid_offset,
    newcw_uid_size, newcw_gid_offset, newcw_gid_size, newcw_nlink_offset, newcw_nlink_size,
    newcw_rdevmajor_offset, newcw_rdevmajor_size, newcw_rdevminor_offset, newcw_rdevminor_size,
    newcw_mtime_offset, newcw_mtime_size, newcw_namesize_offset, newcw_namesize_size,
    newcw_checksum_offset, newcw_checksum_size, newcw_filesize_offset, newcw_filesize_size]
  omega

/-- A field `format_hex` stored without complaint is parsed back exactly by the reader's `atol16`. -/
theorem newc_field_roundtrip (e : Entry) (dM dm pl fsz : Int) (f : CpioNum) (hf : f ∈ newcFields e dM dm pl fsz)
    (hok : (newcFormatHex f.v f.size).1 = false) (hsz : f.size ≤ 15) :
    ((cpioAtol16 (slice (cpioHeaderBytes newcFormatHex newcr_header_size (newcFields e dM dm pl fsz)) f.off f.size) 0 : Nat) : Int)
      = f.v := by
  rw [cpioHeader_slice newcFormatHex _ _ newcFormatHex_length (newcFields_in e dM dm pl fsz)
    (newcFields_disjoint e dM dm pl fsz) f hf]
  have hfit : 0 ≤ f.v ∧ f.v.toNat < 16 ^ f.size := by
    rw [newcFormatHex_eq] at hok
    by_cases h : 0 ≤ f.v ∧ f.v.toNat < 16 ^ f.size
    · exact h
    · rw [if_neg h] at hok; cases hok
  rw [newcFormatHex_eq, if_pos hfit]
  have h1 : 16 ^ f.size ≤ 16 ^ 15 := Nat.pow_le_pow_right (by decide) hsz
  have h2 : (16 : Nat) ^ 15 = 1152921504606846976 := by decide
  have := cpioAtol16_hexHead f.v.toNat f.size 0 [] (by rw [Nat.mod_eq_of_lt hfit.2]; omega)
  rw [List.append_nil] at this
  rw [this, Nat.mod_eq_of_lt hfit.2]
  simp only [cpioAtol16]
  omega

end LA.Codec
