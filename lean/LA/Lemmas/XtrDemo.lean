/-
A concrete starting state used by the non-vacuity examples of `LA/Props/C04.lean`.
-/
import LA.Lemmas.XtrEnv
set_option linter.unusedSimpArgs false
namespace LA.Xtr
open LA.FS LA.PathClean

/-- A process in an empty target directory `/t` next to an outside file `/o` (inode 1). -/
def demoProc : Proc :=
  { fs := { root := .dir 493 5 [([116], .dir 493 5 []), ([111], .file 1)],
            files := fun i => if i = 1 then some (.reg [120] 420 5) else none, next := 2 },
    cwd := [[116]], umask := 18 }

theorem demo_tdir : ∃ t, get demoProc.fs.root demoProc.cwd = some t ∧ t.isDir = true := ⟨_, rfl, rfl⟩

theorem demo_inside (S : Nat → Prop) : ∀ t, get demoProc.fs.root demoProc.cwd = some t → RefsIn S t := by
  intro t ht
  have : t = .dir 493 5 [] := by
    have h : get demoProc.fs.root demoProc.cwd = some (.dir 493 5 []) := rfl
    rw [h] at ht; exact (Option.some.inj ht).symm
  subst this
  intro p ino hp
  cases p with
  | nil => simp at hp
  | cons c r => simp [get_cons, Tree.child, alGet] at hp

theorem demo_wf : WF demoProc.fs := by
  intro p i hp
  cases p with
  | nil => simp [demoProc] at hp
  | cons c r =>
    simp only [demoProc, get_cons, Tree.child, alGet] at hp
    by_cases h1 : [116] = c
    · simp only [h1, if_true, Option.bind_some] at hp
      cases r with
      | nil => simp at hp
      | cons c2 r2 => simp [get_cons, Tree.child, alGet] at hp
    · simp only [h1, if_false] at hp
      by_cases h2 : [111] = c
      · simp only [h2, if_true, Option.bind_some] at hp
        cases r with
        | nil => simp at hp; subst hp; decide
        | cons c2 r2 => simp [get_cons, Tree.child] at hp
      · simp [h2] at hp

theorem demo_check : ((checkSymlinks {} false [97]).run demoProc).1 = .ok := by
  have hg : GoodName [97] := by refine ⟨by decide, by decide, by decide, by decide⟩
  have hlk := lookup_single demoProc.fs [[116]] hg (tD := .dir 493 5 []) rfl rfl
  have hl : ¬ ([97] : List Nat).length > nameMax := by decide
  simp only [hl, if_false, Tree.child, alGet] at hlk
  unfold checkSymlinks
  simp only [show ([97] : List Nat) ≠ [] by decide, if_false, show isAbs [97] = false by decide,
    Bool.false_eq_true, show compsOf [97] = [[97]] by decide, run_bind', run_sys, exec, run_pure]
  rw [checkLoop]
  simp only [run_bind', run_sys, exec, List.nil_append, joinSlash]
  have : lookupNoFollow demoProc.fs demoProc.cwd [97] = .error .ENOENT := hlk
  simp only [show ({ demoProc with dfd := some demoProc.cwd } : Proc).fs = demoProc.fs from rfl, this, statR, run_pure]


end LA.Xtr
