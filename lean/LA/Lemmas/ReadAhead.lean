import LA.Model.ReadAhead
namespace LA.RA

/-- Abstract view: the stream suffix not yet consumed, how the source ends, and
the sticky failure flag. -/
structure Spec where
  rem : List Nat
  term : Term
  fatal : Bool
  deriving DecidableEq, Repr

def absS (s : State) : Spec := ⟨remaining s, s.term, s.fatal⟩

/-- What a caller of the interface can legitimately use of an `ahead` result:
the first `min` bytes of the window (its total length depends on the
partition), or the failure kind. -/
inductive Obs
  | ok (bytes : List Nat)
  | short (k : Nat)
  | fatal
  deriving DecidableEq, Repr

def obsOf (min : Nat) : AheadR → Obs
  | .window w _ => .ok (w.take min)
  | .short k => if min = 0 then .ok [] else .short k
  | .fatal => .fatal
  | .stuck => .fatal

def specAhead (sp : Spec) (min : Nat) : Obs × Spec :=
  if sp.fatal then (.fatal, sp)
  else if min ≤ sp.rem.length then (.ok (sp.rem.take min), sp)
  else match sp.term with
    | .eof => (.short sp.rem.length, sp)
    | .err => (.fatal, ⟨[], sp.term, true⟩)

/-- Well-formed source script: no zero-length blocks (a zero-length read is
end-of-file by the callback contract and is modelled by `term`). -/
def SrcOk (src : List (List Nat)) : Prop := ∀ b ∈ src, b ≠ []

/-- Representation invariant of `struct archive_read_filter`. -/
structure Inv (s : State) : Prop where
  cbIn : s.next + s.cb.length ≤ s.bufSize
  bufLt : s.bufSize < 2 ^ 63
  clientEq : s.cnext + s.cavail = s.cblk.length
  prov : ∃ old cur, s.cb = old ++ cur ∧ cur.length ≤ s.cnext ∧
          cur = (s.cblk.take s.cnext).drop (s.cnext - cur.length) ∧ (old ≠ [] → s.cnext = cur.length)
  eofSrc : s.eof = true → s.src = [] ∧ s.later = [] ∧ s.term = .eof
  srcOk : SrcOk s.src
  laterOk : ∀ n ∈ s.later, SrcOk n

/-- The seeker branch of `client_skip_proxy` is not in play: a skip callback is registered, or
there is no seek callback (see `seekSkip`; known finding "skip-by-seek"). -/
def NoSeekSkip (s : State) : Prop := s.noSkipper = false ∨ s.hasSeeker = false

theorem inv_init_nodes (src : List (List Nat)) (later : List (List (List Nat))) (t : Term) (sk : List Int)
    (cs : Bool) (h : SrcOk src) (hl : ∀ n ∈ later, SrcOk n) :
    Inv { src := src, later := later, term := t, skips := sk, canSkip := cs } :=
  { cbIn := by simp, bufLt := by simp, clientEq := by simp,
    prov := ⟨[], [], by simp⟩, eofSrc := by simp, srcOk := h, laterOk := hl }

theorem inv_init (src : List (List Nat)) (t : Term) (sk : List Int) (cs : Bool) (h : SrcOk src) :
    Inv { src := src, term := t, skips := sk, canSkip := cs } :=
  inv_init_nodes src [] t sk cs h (by simp)

theorem growLoop_ok (fuel s min : Nat) (hs : 0 < s) (hs2 : s < 2 ^ 63) (hmin : min ≤ 2 ^ 62)
    (hf : min ≤ s * 2 ^ fuel) :
    ∃ r, growLoop (fuel + 1) s s min = some r ∧ min ≤ r ∧ s ≤ r ∧ r < 2 ^ 63 := by
  induction fuel generalizing s with
  | zero =>
    have : ¬ s < min := by simp at hf; omega
    exact ⟨s, by simp [growLoop, this], by omega, by omega, hs2⟩
  | succ f ih =>
    by_cases hlt : s < min
    · have h2 : s * 2 % sizeMax = s * 2 := by unfold sizeMax; omega
      have hgt : ¬ s * 2 ≤ s := by omega
      have hf' : min ≤ s * 2 * 2 ^ f := by
        have : s * 2 ^ (f + 1) = s * 2 * 2 ^ f := by rw [Nat.pow_succ]; ac_rfl
        omega
      obtain ⟨r, h1, h3, h4, h5⟩ := ih (s * 2) (by omega) (by omega) hf'
      refine ⟨r, ?_, h3, by omega, h5⟩
      rw [growLoop]
      simp only [hlt, if_true, h2, hgt, if_false]
      exact h1
    · exact ⟨s, by rw [growLoop]; simp [hlt], by omega, by omega, hs2⟩

theorem grow_ok (bs min : Nat) (hb : bs < 2 ^ 63) (hmin : min ≤ 2 ^ 62) (hlt : bs < min) :
    ∃ r, grow bs min = some r ∧ min ≤ r ∧ r < 2 ^ 63 := by
  unfold grow
  by_cases h0 : bs = 0
  · exact ⟨min, by simp [h0], by omega, by omega⟩
  · simp only [h0, if_false]
    have hf : min ≤ bs * 2 ^ 64 := by
      have : 1 ≤ bs := by omega
      calc min ≤ 2 ^ 62 := hmin
        _ ≤ 1 * 2 ^ 64 := by omega
        _ ≤ bs * 2 ^ 64 := Nat.mul_le_mul_right _ this
    obtain ⟨r, h1, h2, _, h4⟩ := growLoop_ok 64 bs min (by omega) hb hmin hf
    exact ⟨r, h1, h2, h4⟩

theorem client_take (s : State) (h : s.cnext + s.cavail = s.cblk.length) :
    (s.cblk.drop s.cnext).take s.cavail = s.cblk.drop s.cnext := by
  apply List.take_of_length_le
  simp; omega

/-- Bytes the source has not delivered yet: rest of the current data node, then the later nodes. -/
def tailBytes (s : State) : List Nat := s.src.flatten ++ s.later.flatten.flatten

theorem remaining_eq (s : State) (h : s.cnext + s.cavail = s.cblk.length) :
    remaining s = s.cb ++ s.cblk.drop s.cnext ++ tailBytes s := by
  unfold remaining tailBytes; rw [client_take s h]

theorem inv_moveFwd (s : State) (m : Nat) (hi : Inv s) : Inv (moveFwd s m) := by
  unfold moveFwd
  split
  · exact { cbIn := by have := hi.cbIn; simp; omega, bufLt := hi.bufLt, clientEq := hi.clientEq,
            prov := hi.prov, eofSrc := hi.eofSrc, srcOk := hi.srcOk, laterOk := hi.laterOk }
  · exact hi

theorem remaining_moveFwd (s : State) (m : Nat) : remaining (moveFwd s m) = remaining s := by
  unfold moveFwd; split <;> rfl

@[simp] theorem moveFwd_cb (s : State) (m : Nat) : (moveFwd s m).cb = s.cb := by
  unfold moveFwd; split <;> rfl
@[simp] theorem moveFwd_cblk (s : State) (m : Nat) : (moveFwd s m).cblk = s.cblk := by
  unfold moveFwd; split <;> rfl
@[simp] theorem moveFwd_cnext (s : State) (m : Nat) : (moveFwd s m).cnext = s.cnext := by
  unfold moveFwd; split <;> rfl
@[simp] theorem moveFwd_term (s : State) (m : Nat) : (moveFwd s m).term = s.term := by
  unfold moveFwd; split <;> rfl
@[simp] theorem moveFwd_fatal (s : State) (m : Nat) : (moveFwd s m).fatal = s.fatal := by
  unfold moveFwd; split <;> rfl
@[simp] theorem moveFwd_eof (s : State) (m : Nat) : (moveFwd s m).eof = s.eof := by
  unfold moveFwd; split <;> rfl
@[simp] theorem moveFwd_position (s : State) (m : Nat) : (moveFwd s m).position = s.position := by
  unfold moveFwd; split <;> rfl
@[simp] theorem moveFwd_bufSize (s : State) (m : Nat) : (moveFwd s m).bufSize = s.bufSize := by
  unfold moveFwd; split <;> rfl

/-- After `moveFwd`, a request of `m` bytes fits behind `next` or `next = 0`. -/
theorem moveFwd_room (s : State) (m : Nat) :
    (moveFwd s m).next = 0 ∨ (moveFwd s m).next + m ≤ s.bufSize := by
  unfold moveFwd
  split
  · left; rfl
  · rename_i h; simp at h
    by_cases h0 : s.next = 0
    · left; exact h0
    · right; have := h (by omega); omega

end LA.RA
