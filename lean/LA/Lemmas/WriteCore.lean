/-
Fault propagation through the write core (`LA.WC`): whenever the client write
callback returns a non-positive value during a call, that call's status is
`≤ ARCHIVE_FATAL` — at every level from `archive_write_client_write` up to the
API functions, for the raw and ustar formats, with or without a b64encode /
uuencode filter.  (`-99`, below `ARCHIVE_FATAL`, is the model's marker for an
out-of-bounds store; `LA.C09.fault_reported` excludes it for the client layer.)
-/
import LA.Lemmas.ClientWrite
import LA.Model.WriteCore
namespace LA.WC
open LA.CW LA.Ustar

def HasBad (evs : List Event) : Prop := ∃ e ∈ evs, e.bad

theorem hasBad_append {a b : List Event} : HasBad (a ++ b) ↔ HasBad a ∨ HasBad b := by
  simp only [HasBad, List.mem_append]
  constructor
  · rintro ⟨e, he | he, hb⟩
    · exact Or.inl ⟨e, he, hb⟩
    · exact Or.inr ⟨e, he, hb⟩
  · rintro (⟨e, he, hb⟩ | ⟨e, he, hb⟩)
    · exact ⟨e, Or.inl he, hb⟩
    · exact ⟨e, Or.inr he, hb⟩

theorem not_hasBad_nil : ¬ HasBad [] := by simp [HasBad]

theorem ite_prop {α : Type} {c : Prop} [Decidable c] {A B : α} (P : α → Prop)
    (h1 : c → P A) (h2 : ¬ c → P B) : P (if c then A else B) := by
  split
  · exact h1 ‹_›
  · exact h2 ‹_›

section
variable {σ : Type} (W : Writer σ)

/-- "A failing callback invocation is reported": filter level (status `St`). -/
def RepSt (r : St × CState × List Event × σ) : Prop := HasBad r.2.2.1 → r.1 = .fatal
/-- Same, for the integer-status functions of the write core. -/
def Rep (r : Int × Handle × List Event × σ) : Prop := HasBad r.2.2.1 → r.1 ≤ fatal

theorem rep_nil (st : Int) (h : Handle) (w : σ) : Rep (st, h, [], w) :=
  fun hb => absurd hb not_hasBad_nil

theorem writeTail_bad (w : σ) (s : CState) (d : List Cell) : RepSt (writeTail W w s d) := by
  have h := directLoop_status W w s.bufSize d
  unfold writeTail
  simp only []
  apply ite_prop RepSt
  · intro _ _; rfl
  · intro hok
    have hno : ¬ HasBad (directLoop W w s.bufSize d).2.2.1 := fun hb => hok (h.mpr hb)
    apply ite_prop RepSt
    · intro _
      cases poke s.buf s.fill (directLoop W w s.bufSize d).2.1 with
      | none => exact fun hb => absurd hb hno
      | some b => exact fun hb => absurd hb hno
    · intro _; exact fun hb => absurd hb hno

theorem clientWrite_bad (w : σ) (s : CState) (d : List Cell) : RepSt (clientWrite W w s d) := by
  unfold clientWrite
  apply ite_prop RepSt
  · intro _ hb
    have := (flushLoop_status W w d).mpr hb
    simp [this]
  · intro _
    apply ite_prop RepSt
    · intro _
      simp only []
      generalize (if d.length > s.bufSize - s.fill then s.bufSize - s.fill else d.length) = toCopy
      cases poke s.buf s.fill (d.take toCopy) with
      | none => exact fun hb => absurd hb not_hasBad_nil
      | some b =>
        simp only []
        apply ite_prop RepSt
        · intro _
          apply ite_prop RepSt
          · intro _ _; rfl
          · intro hok hb
            rcases hasBad_append.mp hb with hb | hb
            · exact absurd ((flushLoop_status W w _).mpr hb) hok
            · exact writeTail_bad W _ _ _ hb
        · intro _; exact writeTail_bad W w _ _
    · intro _; exact writeTail_bad W w s d

theorem clientClose_bad (w : σ) (s : CState) (bpb : Nat) (bil : Int) :
    HasBad (clientClose W w s bpb bil).2.1 → (clientClose W w s bpb bil).1 = .fatal := by
  unfold clientClose
  apply ite_prop (fun r : St × List Event × σ => HasBad r.2.1 → r.1 = .fatal)
  · intro _
    simp only []
    generalize (if s.bufSize - (s.bufSize - s.fill) < lastBlockTarget bpb bil (s.bufSize - (s.bufSize - s.fill)) then
      poke s.buf s.fill (List.replicate (lastBlockTarget bpb bil (s.bufSize - (s.bufSize - s.fill)) -
        (s.bufSize - (s.bufSize - s.fill))) (some 0)) else some s.buf) = padded
    cases padded with
    | none => exact fun hb => absurd hb not_hasBad_nil
    | some b =>
      simp only []
      apply ite_prop (fun r : St × List Event × σ => HasBad r.2.1 → r.1 = .fatal)
      · intro _ hb
        have := (flushLoop_status W w _).mpr hb
        simp [this]
      · intro _; exact fun hb => absurd hb not_hasBad_nil
  · intro _; exact fun hb => absurd hb not_hasBad_nil

theorem clientFilterWrite_bad (w : σ) (h : Handle) (d : List Cell) :
    HasBad (clientFilterWrite W w h d).2.2.1 → (clientFilterWrite W w h d).1 = fatal := by
  unfold clientFilterWrite
  apply ite_prop (fun r : Int × Handle × List Event × σ => HasBad r.2.2.1 → r.1 = fatal)
  · intro _; exact fun hb => absurd hb not_hasBad_nil
  · intro _
    apply ite_prop (fun r : Int × Handle × List Event × σ => HasBad r.2.2.1 → r.1 = fatal)
    · intro _; exact fun hb => absurd hb not_hasBad_nil
    · intro _
      cases h.cs with
      | none => exact fun hb => absurd hb not_hasBad_nil
      | some cs =>
        intro hb
        show stCode (clientWrite W w cs d).1 = fatal
        rw [clientWrite_bad W w cs d hb]; rfl

theorem clientFilterWrite_rep (w : σ) (h : Handle) (d : List Cell) : Rep (clientFilterWrite W w h d) :=
  fun hb => by rw [clientFilterWrite_bad W w h d hb]; exact Int.le_refl _

theorem encOutLoop_bad (w : σ) (h : Handle) (bs : Nat) (enc : List Nat) :
    HasBad (encOutLoop W w h bs enc).2.2.2.1 → (encOutLoop W w h bs enc).1 ≤ fatal := by
  fun_induction encOutLoop W w h bs enc with
  | case1 w h enc hc r hne =>
    intro hb
    have := clientFilterWrite_bad W w h _ hb
    show r.1 ≤ fatal
    rw [show r.1 = fatal from this]; exact Int.le_refl _
  | case2 w h enc hc r hne t ih =>
    intro hb
    rcases hasBad_append.mp hb with hb | hb
    · have := clientFilterWrite_bad W w h _ hb
      have hne' : r.1 = ok := by simpa using hne
      rw [show r.1 = fatal from this] at hne'
      simp [fatal, ok] at hne'
    · exact ih hb
  | case3 w h enc hc => intro hb; exact absurd hb not_hasBad_nil

theorem encWrite_bad (w : σ) (h : Handle) (e : EncState) (p : List Nat) : Rep (encWrite W w h e p) := by
  unfold encWrite
  simp only []
  apply ite_prop Rep
  · intro _; exact rep_nil _ _ _
  · intro _; exact encOutLoop_bad W w h _ _

theorem output_bad (w : σ) (h : Handle) (d : List Cell) : Rep (output W w h d) := by
  unfold output
  cases h.enc with
  | none => exact clientFilterWrite_rep W w h d
  | some e =>
    simp only []
    apply ite_prop Rep
    · intro _; exact rep_nil _ _ _
    · intro _
      apply ite_prop Rep
      · intro _; exact rep_nil _ _ _
      · intro _
        cases readAll d with
        | none => exact rep_nil _ _ _
        | some p => exact encWrite_bad W w h e p

theorem writeNulls_bad (w : σ) (h : Handle) (n : Nat) : Rep (writeNulls W w h n) := by
  fun_induction writeNulls W w h n with
  | case1 w h => exact rep_nil _ _ _
  | case2 w h n hl toWrite r hlt => exact output_bad W w h _
  | case3 w h n hl toWrite r hlt hz => exact output_bad W w h _
  | case4 w h n hl toWrite r hlt hz t ih =>
    intro hb
    rcases hasBad_append.mp hb with hb | hb
    · have h1 : r.1 ≤ fatal := output_bad W w h _ hb
      exfalso
      simp only [fatal, ok] at h1 hlt
      omega
    · exact ih hb

theorem formatHeaderOp_bad (w : σ) (h : Handle) (e : Entry) : Rep (formatHeaderOp W w h e) := by
  unfold formatHeaderOp
  cases h.fmt with
  | none => exact rep_nil _ _ _
  | raw =>
    simp only []
    apply ite_prop Rep
    · intro _; exact rep_nil _ _ _
    · intro _
      apply ite_prop Rep
      · intro _; exact rep_nil _ _ _
      · intro _; exact rep_nil _ _ _
  | ustar =>
    simp only []
    cases formatHeader (prepareEntry e) with
    | none => exact rep_nil _ _ _
    | some rh =>
      obtain ⟨ret, hdr⟩ := rh
      simp only []
      apply ite_prop Rep
      · intro _; exact rep_nil _ _ _
      · intro _
        apply ite_prop Rep
        · intro _; exact output_bad W w h _
        · intro hnlt hb
          have h1 : (output W w h hdr).1 ≤ fatal := output_bad W w h _ hb
          exfalso
          simp only [fatal, warn] at h1 hnlt
          omega

theorem formatDataOp_bad (w : σ) (h : Handle) (d : List Cell) : Rep (formatDataOp W w h d) := by
  unfold formatDataOp
  cases h.fmt with
  | none => exact rep_nil _ _ _
  | raw =>
    intro hb
    have h1 : (output W w h d).1 ≤ fatal := output_bad W w h _ hb
    show (if (output W w h d).1 ≥ 0 then (d.length : Int) else (output W w h d).1) ≤ fatal
    have hneg : ¬ (output W w h d).1 ≥ 0 := by simp only [fatal] at h1; omega
    rw [if_neg hneg]; exact h1
  | ustar =>
    intro hb
    simp only [] at hb ⊢
    have h1 := output_bad W w h _ hb
    have hne : (output W w h (List.take (if d.length > h.remaining then h.remaining else d.length) d)).1 ≠ ok := by
      simp only [fatal, ok] at h1 ⊢; omega
    rw [if_pos hne]; exact h1

theorem formatFinishEntry_bad (w : σ) (h : Handle) : Rep (formatFinishEntry W w h) := by
  unfold formatFinishEntry
  cases h.fmt with
  | ustar => exact writeNulls_bad W w h _
  | none => exact rep_nil _ _ _
  | raw => exact rep_nil _ _ _

theorem formatClose_bad (w : σ) (h : Handle) : Rep (formatClose W w h) := by
  unfold formatClose
  cases h.fmt with
  | ustar => exact writeNulls_bad W w h _
  | none => exact rep_nil _ _ _
  | raw => exact rep_nil _ _ _

theorem imin_le_left (a b : Int) : imin a b ≤ a := by unfold imin; split <;> omega
theorem imin_le_right (a b : Int) : imin a b ≤ b := by unfold imin; split <;> omega

theorem encClose_bad (w : σ) (h : Handle) (e : EncState) : Rep (encClose W w h e) := by
  unfold encClose
  exact clientFilterWrite_rep W w _ _

theorem encCloseStep_bad (w : σ) (h : Handle) : Rep (encCloseStep W w h) := by
  unfold encCloseStep
  cases h.enc with
  | none => exact rep_nil _ _ _
  | some e =>
    simp only []
    apply ite_prop Rep
    · intro _; exact encClose_bad W w h e
    · intro _; exact rep_nil _ _ _

theorem clientCloseStep_bad (w : σ) (h : Handle) (ret : Int) :
    Rep (clientCloseStep W w h ret) ∧ (clientCloseStep W w h ret).1 ≤ ret := by
  unfold clientCloseStep
  apply ite_prop (fun r : Int × Handle × List Event × σ => Rep r ∧ r.1 ≤ ret)
  · intro _
    cases h.cs with
    | none => exact ⟨rep_nil _ _ _, imin_le_right _ _⟩
    | some cs =>
      refine ⟨?_, imin_le_right _ _⟩
      intro hb
      have := clientClose_bad W w cs h.bpb h.bil hb
      show imin (stCode (clientClose W w cs h.bpb h.bil).1) ret ≤ fatal
      rw [this]
      exact imin_le_left _ _
  · intro _; exact ⟨rep_nil _ _ _, Int.le_refl _⟩

theorem filtersClose_bad (w : σ) (h : Handle) : Rep (filtersClose W w h) := by
  unfold filtersClose
  intro hb
  simp only [] at hb ⊢
  have h2 := clientCloseStep_bad W (encCloseStep W w h).2.2.2 (encCloseStep W w h).2.1 (imin (encCloseStep W w h).1 ok)
  rcases hasBad_append.mp hb with hb | hb
  · have h1 : (encCloseStep W w h).1 ≤ fatal := encCloseStep_bad W w h hb
    exact Int.le_trans h2.2 (Int.le_trans (imin_le_left _ _) h1)
  · exact h2.1 hb

theorem apiFinishEntry_bad (w : σ) (h : Handle) : Rep (apiFinishEntry W w h) := by
  unfold apiFinishEntry
  apply ite_prop Rep
  · intro _; exact rep_nil _ _ _
  · intro _
    apply ite_prop Rep
    · intro _; exact formatFinishEntry_bad W w h
    · intro _; exact rep_nil _ _ _

theorem apiData_bad (w : σ) (h : Handle) (d : List Cell) : Rep (apiData W w h d) := by
  unfold apiData
  apply ite_prop Rep
  · intro _; exact rep_nil _ _ _
  · intro _; exact formatDataOp_bad W w h d

theorem apiHeader_bad (w : σ) (h : Handle) (e : Entry) : Rep (apiHeader W w h e) := by
  unfold apiHeader
  apply ite_prop Rep
  · intro _; exact rep_nil _ _ _
  · intro _
    apply ite_prop Rep
    · intro _; exact rep_nil _ _ _
    · intro _
      simp only []
      have hf := apiFinishEntry_bad W w h
      generalize apiFinishEntry W w h = r at *
      apply ite_prop Rep
      · intro _ _; exact Int.le_refl _
      · intro hnf
        apply ite_prop Rep
        · intro _; exact hf
        · intro hcont
          have hnob : ¬ HasBad r.2.2.1 := by
            intro hb
            have h1 : r.1 ≤ fatal := hf hb
            apply hcont
            simp only [fatal, ok, warn] at h1 hnf ⊢
            omega
          have hh := formatHeaderOp_bad W r.2.2.2 r.2.1 e
          generalize formatHeaderOp W r.2.2.2 r.2.1 e = r2 at *
          have hr2 : HasBad (r.2.2.1 ++ r2.2.2.1) → r2.1 ≤ fatal := by
            intro hb
            rcases hasBad_append.mp hb with hb | hb
            · exact absurd hb hnob
            · exact hh hb
          apply ite_prop Rep
          · intro hfail hb
            have := hr2 hb
            simp only [hfail, failed, fatal] at this
            omega
          · intro _
            apply ite_prop Rep
            · intro _ _; exact Int.le_refl _
            · intro _ hb
              exact Int.le_trans (imin_le_left _ _) (hr2 hb)

theorem apiClose_bad (w : σ) (h : Handle) : Rep (apiClose W w h) := by
  unfold apiClose
  apply ite_prop Rep
  · intro _; exact rep_nil _ _ _
  · intro _
    simp only []
    have hr : Rep (if h.state = .data ∧ hasFinishEntry h = true then formatFinishEntry W w h else (ok, h, [], w)) := by
      apply ite_prop Rep
      · intro _; exact formatFinishEntry_bad W w h
      · intro _; exact rep_nil _ _ _
    generalize (if h.state = .data ∧ hasFinishEntry h = true then formatFinishEntry W w h else (ok, h, [], w)) = r at *
    have hr1 := formatClose_bad W r.2.2.2 r.2.1
    generalize formatClose W r.2.2.2 r.2.1 = r1 at *
    have hr2 := filtersClose_bad W r1.2.2.2 r1.2.1
    generalize filtersClose W r1.2.2.2 r1.2.1 = r2 at *
    intro hb
    show imin r2.1 (imin r1.1 r.1) ≤ fatal
    rcases hasBad_append.mp hb with hb | hb
    · rcases hasBad_append.mp hb with hb | hb
      · exact Int.le_trans (imin_le_right _ _) (Int.le_trans (imin_le_right _ _) (hr hb))
      · exact Int.le_trans (imin_le_right _ _) (Int.le_trans (imin_le_left _ _) (hr1 hb))
    · exact Int.le_trans (imin_le_left _ _) (hr2 hb)

/-- `archive_write_free` on a handle that has not failed before is `archive_write_close` and
reports a callback failure like it.  On a handle that is already FATAL the filters are closed
too, but the status of that is deliberately dropped (`(void)__archive_write_filters_close(a)`):
the failure was reported by the call that made the handle fail. -/
theorem apiFree_bad (w : σ) (h : Handle) (hne : h.state ≠ .fatal) : Rep (apiFree W w h) := by
  unfold apiFree
  rw [if_pos hne]
  exact apiClose_bad W w h

end
end LA.WC
