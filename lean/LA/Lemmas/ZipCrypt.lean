/- Helper lemmas for `LA.ZipCrypt` (traditional PKWARE encryption). -/
import LA.Model.ZipCrypt
set_option linter.unusedSimpArgs false
namespace LA.ZipCrypt

theorem xor_cancel (a b : UInt8) : a ^^^ b ^^^ b = a := by
  rw [UInt8.xor_assoc, UInt8.xor_self, UInt8.xor_zero]

theorem encLoop_length (zcrc : UInt32 → UInt8 → UInt32) (k : Keys) (m : List UInt8) :
    (encLoop zcrc k m).2.length = m.length := by
  induction m generalizing k with
  | nil => rfl
  | cons t r ih => simp [encLoop, ih]

theorem decLoop_length (zcrc : UInt32 → UInt8 → UInt32) (k : Keys) (m : List UInt8) :
    (decLoop zcrc k m).2.length = m.length := by
  induction m generalizing k with
  | nil => rfl
  | cons t r ih => simp [decLoop, ih]

/-- Decrypting what was encrypted from the same key state gives the plain text
back and leaves both sides in the same key state. -/
theorem decLoop_encLoop (zcrc : UInt32 → UInt8 → UInt32) (k : Keys) (m : List UInt8) :
    decLoop zcrc k (encLoop zcrc k m).2 = ((encLoop zcrc k m).1, m) := by
  induction m generalizing k with
  | nil => rfl
  | cons t r ih =>
    simp only [encLoop, decLoop, xor_cancel, ih]

theorem encLoop_append (zcrc : UInt32 → UInt8 → UInt32) (k : Keys) (a b : List UInt8) :
    encLoop zcrc k (a ++ b) =
      ((encLoop zcrc (encLoop zcrc k a).1 b).1, (encLoop zcrc k a).2 ++ (encLoop zcrc (encLoop zcrc k a).1 b).2) := by
  induction a generalizing k with
  | nil => simp [encLoop]
  | cons t r ih => simp only [List.cons_append, encLoop, ih]

theorem decLoop_append (zcrc : UInt32 → UInt8 → UInt32) (k : Keys) (a b : List UInt8) :
    decLoop zcrc k (a ++ b) =
      ((decLoop zcrc (decLoop zcrc k a).1 b).1, (decLoop zcrc k a).2 ++ (decLoop zcrc (decLoop zcrc k a).1 b).2) := by
  induction a generalizing k with
  | nil => simp [decLoop]
  | cons t r ih => simp only [List.cons_append, decLoop, ih]

theorem runEnc_flatten (zcrc : UInt32 → UInt8 → UInt32) (k : Keys) (cs : List (List UInt8)) :
    ((runEnc zcrc k cs).1, (runEnc zcrc k cs).2.flatten) = encLoop zcrc k cs.flatten := by
  induction cs generalizing k with
  | nil => rfl
  | cons ch r ih =>
    have := ih (encLoop zcrc k ch).1
    have h1 := congrArg Prod.fst this
    have h2 := congrArg Prod.snd this
    simp only at h1 h2
    simp only [runEnc, encryptUpdate, Nat.min_self, List.take_length, List.flatten_cons, encLoop_append,
      h1, h2]

theorem runDec_flatten (zcrc : UInt32 → UInt8 → UInt32) (k : Keys) (cs : List (List UInt8)) :
    ((runDec zcrc k cs).1, (runDec zcrc k cs).2.flatten) = decLoop zcrc k cs.flatten := by
  induction cs generalizing k with
  | nil => rfl
  | cons ch r ih =>
    have := ih (decLoop zcrc k ch).1
    have h1 := congrArg Prod.fst this
    have h2 := congrArg Prod.snd this
    simp only at h1 h2
    simp only [runDec, decryptUpdate, Nat.min_self, List.take_length, List.flatten_cons, decLoop_append,
      h1, h2]

end LA.ZipCrypt
