/- The ar writers against the ar reader on a whole archive (C02). Core Lean only. -/
import LA.Lemmas.Ar
import LA.Lemmas.CpioStream
namespace LA.Codec
open LA.NumFmt LA.Gen.ArLayout LA.Gen.CodecConsts

/-! ### the header writer, unfolded -/

theorem arWriteHeader_ok (v : ArVariant) (st : ArState) (e : Entry) (hok : (arWriteHeader v st e).1 = .ok) :
    ∃ p name nf after fs, e.path = some p ∧ p ≠ [] ∧ arBasename p = some name ∧
      arNameField v name = some (nf, after) ∧
      arStatFields e (e.sizeV + (after.length : Nat)) = some fs ∧
      arWriteHeader v st e
        = (.ok, (if st.wroteGlobal then [] else arMagic) ++ arHdr e (e.sizeV + (after.length : Nat)) nf ++ after,
           { wroteGlobal := true, remaining := (e.sizeV + (after.length : Nat)).toNat - after.length,
             padding := (e.sizeV + (after.length : Nat)).toNat % 2 }) := by
  unfold arWriteHeader at hok ⊢
  cases hp : e.path with
  | none => rw [hp] at hok; cases hok
  | some p =>
    rw [hp] at hok
    cases p with
    | nil => cases hok
    | cons c r =>
      simp only [] at hok ⊢
      by_cases hsp : arSpecial (c :: r) = true
      · rw [if_pos hsp] at hok; cases hok
      · rw [if_neg hsp] at hok ⊢
        cases hb : arBasename (c :: r) with
        | none => rw [hb] at hok; cases hok
        | some name =>
          rw [hb] at hok
          simp only [] at hok ⊢
          cases hn : arNameField v name with
          | none => rw [hn] at hok; cases hok
          | some na =>
            obtain ⟨nf, after⟩ := na
            rw [hn] at hok
            simp only [] at hok ⊢
            cases hs : arStatFields e (e.sizeV + (after.length : Nat)) with
            | none => rw [hs] at hok; cases hok
            | some fs =>
              obtain ⟨_, _, _, _, _, _, hfs⟩ := arStatFields_some e _ fs hs
              refine ⟨c :: r, name, nf, after, fs, rfl, by simp, hb, hn, hs, ?_⟩
              simp only []
              rw [hfs]
              rfl

/-- Any other answer (ARCHIVE_WARN): at most the global header was written. -/
theorem arWriteHeader_warn (v : ArVariant) (st : ArState) (e : Entry) (hw : (arWriteHeader v st e).1 = .warn)
    (hg : st.wroteGlobal = true) :
    arWriteHeader v st e = (.warn, [], { wroteGlobal := true, remaining := 0, padding := 0 }) := by
  unfold arWriteHeader at hw ⊢
  cases hp : e.path with
  | none => simp only [hg]
  | some p =>
    rw [hp] at hw
    cases p with
    | nil => simp only [hg]
    | cons c r =>
      simp only [hg, if_true] at hw ⊢
      by_cases hsp : arSpecial (c :: r) = true
      · rw [if_pos hsp] at hw; cases hw
      · rw [if_neg hsp] at hw ⊢
        cases hb : arBasename (c :: r) with
        | none => rfl
        | some name =>
          rw [hb] at hw
          simp only [] at hw ⊢
          cases hn : arNameField v name with
          | none => rfl
          | some na =>
            obtain ⟨nf, after⟩ := na
            rw [hn] at hw
            simp only [] at hw ⊢
            cases hs : arStatFields e (e.sizeV + (after.length : Nat)) with
            | none => rfl
            | some fs => rw [hs] at hw; cases hw

theorem arWriteHeader_status_indep (v : ArVariant) (st st' : ArState) (e : Entry) :
    (arWriteHeader v st e).1 = (arWriteHeader v st' e).1 := by
  unfold arWriteHeader
  cases e.path with
  | none => rfl
  | some p =>
    cases p with
    | nil => rfl
    | cons c r =>
      simp only []
      split
      · rfl
      · cases arBasename (c :: r) with
        | none => rfl
        | some name =>
          simp only []
          cases arNameField v name with
          | none => rfl
          | some na =>
            simp only []
            cases arStatFields e (e.sizeV + (na.2.length : Nat)) with
            | none => rfl
            | some fs => rfl

/-! ### the body -/

theorem arDataStep_eq (n : Nat) (out : List Nat) (st : ArState) (c : List Nat) :
    arDataStep (n, out, st) c
      = (n + (c.take st.remaining).length, out ++ c.take st.remaining,
         { st with remaining := st.remaining - (c.take st.remaining).length }) := rfl

theorem foldArData_spec (chunks : List (List Nat)) (n : Nat) (out : List Nat) (st : ArState) :
    (chunks.foldl arDataStep (n, out, st)).2.1 = out ++ (chunks.flatten).take st.remaining ∧
    (chunks.foldl arDataStep (n, out, st)).2.2
      = { st with remaining := st.remaining - ((chunks.flatten).take st.remaining).length } := by
  induction chunks generalizing n out st with
  | nil => simp
  | cons c cs ih =>
    rw [List.foldl_cons, arDataStep_eq]
    obtain ⟨h1, h2⟩ := ih (n + (c.take st.remaining).length) (out ++ c.take st.remaining)
      { st with remaining := st.remaining - (c.take st.remaining).length }
    rw [h1, h2]
    simp only [List.flatten_cons, List.length_take]
    refine ⟨?_, ?_⟩
    · rw [List.append_assoc, List.take_append]
      have : st.remaining - min st.remaining c.length = st.remaining - c.length := by omega
      simp only [List.length_take, this]
    · congr 1
      simp only [List.length_take, List.length_append]
      omega

/-- One accepted member on the wire (body bytes at least as many as declared). -/
theorem arWriteEntry_ok (v : ArVariant) (st : ArState) (e : Entry) (chunks : List (List Nat))
    (hd : List Nat) (R P : Nat) (hP : P < 2)
    (hw : arWriteHeader v st e = (.ok, hd, { wroteGlobal := true, remaining := R, padding := P }))
    (hbody : R ≤ (chunks.flatten).length) :
    (arWriteEntry v st e chunks).2.2.2
      = (hd ++ (chunks.flatten).take R ++ List.replicate P 10, { wroteGlobal := true, remaining := 0, padding := P }) := by
  unfold arWriteEntry
  simp only [hw]
  obtain ⟨h1, h2⟩ := foldArData_spec chunks 0 [] { wroteGlobal := true, remaining := R, padding := P }
  simp only [List.nil_append] at h1
  have hl : ((chunks.flatten).take R).length = R := by rw [List.length_take]; omega
  simp only [h1, h2, hl, Nat.sub_self, arFinishEntry, ne_eq, not_true_eq_false, if_false]
  have : (if P = 0 then (Status.ok, ([] : List Nat)) else (Status.ok, [10])).2 = List.replicate P 10 := by
    rcases Nat.lt_or_ge P 1 with h | h
    · have : P = 0 := by omega
      subst this; rfl
    · have : P = 1 := by omega
      subst this; rfl
  rw [this]

theorem arWriteEntry_warn (v : ArVariant) (st : ArState) (e : Entry) (chunks : List (List Nat))
    (hw : arWriteHeader v st e = (.warn, [], { wroteGlobal := true, remaining := 0, padding := 0 })) :
    (arWriteEntry v st e chunks).2.2.2 = ([], { wroteGlobal := true, remaining := 0, padding := 0 }) := by
  unfold arWriteEntry
  simp only [hw]
  obtain ⟨h1, h2⟩ := foldArData_spec chunks 0 [] { wroteGlobal := true, remaining := 0, padding := 0 }
  simp only [List.nil_append, List.take_zero] at h1
  simp only [h1, h2, List.take_zero, List.length_nil, Nat.sub_self, arFinishEntry, ne_eq, not_true_eq_false, if_false,
    if_true, List.append_nil]

theorem basename_subset (p : List Nat) : ∀ c ∈ basename p, c ∈ p := by
  induction p with
  | nil => unfold basename splitSlash; simp
  | cons c p ih =>
    have hne := splitSlash_ne_nil p
    unfold basename at ih ⊢
    rw [splitSlash_cons]
    obtain ⟨x, xs, hS⟩ : ∃ x xs, splitSlash p = x :: xs := by
      cases h : splitSlash p with
      | nil => exact absurd h hne
      | cons x xs => exact ⟨x, xs, rfl⟩
    rw [hS] at ih ⊢
    by_cases hc : c = slash
    · rw [if_pos hc]
      simp only [List.getLast?_cons_cons]
      intro a ha; exact List.mem_cons_of_mem _ (ih a ha)
    · rw [if_neg hc]
      simp only [List.headD_cons, List.tail_cons]
      cases xs with
      | nil =>
        simp only [List.getLast?_singleton, Option.getD_some] at ih ⊢
        intro a ha
        simp only [List.mem_cons] at ha ⊢
        rcases ha with rfl | ha
        · left; rfl
        · right; exact ih a ha
      | cons y ys =>
        simp only [List.getLast?_cons_cons] at ih ⊢
        intro a ha; exact List.mem_cons_of_mem _ (ih a ha)

/-! ### agreement with the format description -/

theorem mode_lt' (e : Entry) : e.mode < 65536 := by
  unfold Entry.mode
  have hp : e.perm % 4096 < 4096 := Nat.mod_lt _ (by decide)
  cases e.ftype <;>
    simp only [FType.bits, AE_IFREG, AE_IFDIR, AE_IFLNK, AE_IFCHR, AE_IFBLK, AE_IFIFO, AE_IFSOCK] <;> omega

def arFmtOf : ArVariant → WFmt
  | .bsd => .arbsd | .svr4 => .arsvr4

theorem ar_agrees (v : ArVariant) (e : Entry) (p : List Nat) (hp : e.path = some p) (hreg : e.ftype = .reg)
    (hsym : e.sym = []) (total : Int) (t b : List Nat) :
    (norm (arFmtOf v) e).mismatch
      { ({ arRB e total t with path := basename p, size := some e.sizeV } : RB) with body := b } 0 = none := by
  have hm2 := mode_perm e
  have hlt : e.mode < 4294967296 := by have := mode_lt' e; omega
  rw [Nat.mod_eq_of_lt hlt] at hm2
  have hperm : e.perm % 4096 % 4096 = e.perm % 4096 := Nat.mod_mod _ _
  have hbits : e.mode % 65536 / 4096 * 4096 = AE_IFREG := by
    have := mode_ftype e
    rw [Nat.mod_eq_of_lt hlt, hreg] at this
    exact this
  cases v <;>
    simp [arFmtOf, Exp.mismatch, norm, chkField, hp, normPath, carriesHard, isTar, carriesIds, carriesNames, carriesRdev,
      permMask, isCpio, arRB, rbSetMode, hreg, hsym, hperm, FType.bits, hlt, Nat.mod_eq_of_lt hlt, hbits] <;>
    omega

/-! ### one accepted member, written and read -/

def symdefName : List Nat := [95, 95, 46, 83, 89, 77, 68, 69, 70]

/-- What C02 promises about one member read back. -/
def ArReadsBack (v : ArVariant) (ec : Entry × List (List Nat)) (rb : RB) : Prop :=
  (norm (arFmtOf v) ec.1).mismatch rb 0 = none ∧ rb.body = (ec.2.flatten).take ec.1.sizeV.toNat ∧ rb.bodySt = .eof

/-- Members the ar theorems speak about: a C-string pathname, no link target, a non-negative size, at
least as many body bytes as declared (the ar writer does not zero-fill: it only reports a short body),
a header the writer accepts (ARCHIVE_OK) or refuses (ARCHIVE_WARN), and for accepted ones a member
name other than `__.SYMDEF` of at most 1 MiB (the reader's limit for BSD long names). -/
def ArEntryOK (v : ArVariant) (ec : Entry × List (List Nat)) : Prop :=
  (∀ p, ec.1.path = some p → noNul p) ∧ ec.1.sym = [] ∧ 0 ≤ ec.1.sizeV ∧
  ((arWriteHeader v {} ec.1).1 = .ok ∨ (arWriteHeader v {} ec.1).1 = .warn) ∧
  ((arWriteHeader v {} ec.1).1 = .ok →
    (∀ p, ec.1.path = some p → basename p ≠ symdefName ∧ (basename p).length ≤ 1048576) ∧
    ec.1.sizeV.toNat ≤ (ec.2.flatten).length)

theorem arMember_roundtrip (v : ArVariant) (st : ArState) (hg : st.wroteGlobal = true) (e : Entry) (chunks : List (List Nat))
    (hE : ArEntryOK v (e, chunks)) (hok : (arWriteHeader v st e).1 = .ok)
    (more : List Nat) (fmt : Nat) (acc : List RB) :
    ∃ rb fmt', (arWriteEntry v st e chunks).2.2.2.2.wroteGlobal = true ∧
      arRead false ((arWriteEntry v st e chunks).2.2.2.1 ++ more) fmt acc = arRead false more fmt' (rb :: acc) ∧
      ArReadsBack v (e, chunks) rb := by
  obtain ⟨hpn, hsym, hsz0, _, hacc⟩ := hE
  simp only [] at hpn hsym hsz0 hacc
  have hok0 : (arWriteHeader v {} e).1 = .ok := by rw [arWriteHeader_status_indep v {} st, hok]
  obtain ⟨hnm, hbody⟩ := hacc hok0
  obtain ⟨p, name, nf, after, fs, hp, hpne, hb, hnf, hst, hw⟩ := arWriteHeader_ok v st e hok
  rw [hg] at hw
  simp only [if_true, List.nil_append] at hw
  obtain ⟨hnsym, hnlen⟩ := hnm p hp
  -- the member name
  have hbn : name = basename p ∧ p.getLast? ≠ some slash := by
    unfold arBasename at hb
    by_cases hl : p.getLast? = some slash
    · rw [if_pos hl] at hb; cases hb
    · rw [if_neg hl] at hb; exact ⟨(Option.some.inj hb).symm, hl⟩
  obtain ⟨hname, hlast⟩ := hbn
  have hspec := basename_spec p
  have hns : ∀ c ∈ name, c ≠ slash := by rw [hname]; exact hspec.1
  have hne : name ≠ [] := by rw [hname]; exact hspec.2 hpne hlast
  have hnn : noNul name := by
    rw [hname]; intro c hc; exact hpn p hp c (basename_subset p c hc)
  have hplain : ArPlainName name := ⟨hne, hns, by rw [hname]; exact hnsym⟩
  obtain ⟨_, _, _, _, hreg, hsfit, _⟩ := arStatFields_some e _ fs hst
  have htot := arFormat_fits 10 (by omega) _ _ (by decide) hsfit
  have hP : (e.sizeV + (after.length : Nat)).toNat % 2 < 2 := Nat.mod_lt _ (by decide)
  have hR : (e.sizeV + (after.length : Nat)).toNat - after.length = e.sizeV.toNat := by omega
  rw [hR] at hw
  have hwe := arWriteEntry_ok v st e chunks _ _ _ hP hw hbody
  have hbl : ((chunks.flatten).take e.sizeV.toNat).length = e.sizeV.toNat := by rw [List.length_take]; omega
  rw [hwe]
  simp only []
  cases v with
  | svr4 =>
    -- name ++ "/"
    unfold arNameField at hnf
    simp only [] at hnf
    by_cases h15 : name.length ≤ 15
    · rw [if_pos h15] at hnf
      obtain ⟨rfl, rfl⟩ := Prod.mk.inj (Option.some.inj hnf)
      simp only [List.length_nil, Int.natCast_zero, Int.add_zero, List.append_nil] at hst htot ⊢
      have hH := arBuff_fields _ _ _ _ _ _ (arHdr_ok e e.sizeV (name ++ [slash]) (by simp; omega))
      have hcommon := arCommon_hdr e e.sizeV (name ++ [slash]) name (by simp; omega) fs hst
      have htrim := arTrimmed_svr4 e e.sizeV name h15 hnn hne hns
      obtain ⟨fmt', hstep⟩ := arRead_short (arHdr e e.sizeV (name ++ [slash])) name ((chunks.flatten).take e.sizeV.toNat) more fmt acc
        hH.1 hH.2.1 htrim hplain (by rw [hcommon, hbl])
      rw [hbl] at hstep
      refine ⟨?rb1, fmt', (by first | trivial | rfl), ?hb1, ?hc1⟩
      case hb1 => rw [List.append_assoc, List.append_assoc]; exact hstep
      case hc1 =>
        rw [hcommon]
        refine ⟨?_, rfl, rfl⟩
        have := ar_agrees .svr4 e p hp hreg hsym e.sizeV name ((chunks.flatten).take e.sizeV.toNat)
        rw [← hname] at this
        exact this
    · rw [if_neg h15] at hnf; cases hnf
  | bsd =>
    unfold arNameField at hnf
    simp only [] at hnf
    by_cases hshort : name.length ≤ 16 ∧ ¬ name.contains sp
    · rw [if_pos hshort] at hnf
      obtain ⟨rfl, rfl⟩ := Prod.mk.inj (Option.some.inj hnf)
      simp only [List.length_nil, Int.natCast_zero, Int.add_zero, List.append_nil] at hst htot ⊢
      have heq : arHdr e e.sizeV (name ++ [sp]) = arHdr e e.sizeV name := by
        unfold arHdr; exact arBuff_snoc_sp name _ _ _ _ _ hshort.1
      rw [heq]
      clear heq hw hwe
      have hH := arBuff_fields _ _ _ _ _ _ (arHdr_ok e e.sizeV name hshort.1)
      have hcommon := arCommon_hdr e e.sizeV name name hshort.1 fs hst
      have htrim := arTrimmed_bsd_short e e.sizeV name hshort.1 hnn hns hshort.2
      obtain ⟨fmt', hstep⟩ := arRead_short (arHdr e e.sizeV name) name ((chunks.flatten).take e.sizeV.toNat) more fmt acc
        hH.1 hH.2.1 htrim hplain (by rw [hcommon, hbl])
      rw [hbl] at hstep
      refine ⟨?rb2, fmt', (by first | trivial | rfl), ?hb2, ?hc2⟩
      case hb2 => rw [List.append_assoc, List.append_assoc]; exact hstep
      case hc2 =>
        rw [hcommon]
        refine ⟨?_, rfl, rfl⟩
        have := ar_agrees .bsd e p hp hreg hsym e.sizeV name ((chunks.flatten).take e.sizeV.toNat)
        rw [← hname] at this
        exact this
    · rw [if_neg hshort] at hnf
      by_cases hov : (arFormat 10 (name.length : Nat) (ar_name_size - 3)).1 = true
      · rw [if_pos hov] at hnf; cases hnf
      · rw [if_neg hov] at hnf
        obtain ⟨rfl, rfl⟩ := Prod.mk.inj (Option.some.inj hnf)
        have hov' : (arFormat 10 (name.length : Nat) (ar_name_size - 3)).1 = false := by simpa using hov
        have hnfl : ([35, 49, 47] ++ (arFormat 10 (name.length : Nat) (ar_name_size - 3)).2).length ≤ 16 := by
          have := arFormat_length 10 (by omega) (name.length : Nat) (ar_name_size - 3) (by decide)
          simp only [List.length_append, this, List.length_cons, List.length_nil]; decide
        have hH := arBuff_fields _ _ _ _ _ _ (arHdr_ok e (e.sizeV + (name.length : Nat)) _ hnfl)
        obtain ⟨htrim, hnum⟩ := arTrimmed_bsd_long e (e.sizeV + (name.length : Nat)) name.length hov'
        have hcommon := arCommon_hdr e (e.sizeV + (name.length : Nat)) _ (35 :: 49 :: 47 :: (arLoop 10 name.length 13).1) hnfl fs hst
        have hsz : (e.sizeV + (name.length : Nat)).toNat = name.length + ((chunks.flatten).take e.sizeV.toNat).length := by
          rw [hbl]; omega
        rw [← hname] at hnlen
        obtain ⟨fmt', hstep⟩ := arRead_long (arHdr e (e.sizeV + (name.length : Nat)) _) (arLoop 10 name.length 13).1 name
          ((chunks.flatten).take e.sizeV.toNat) more fmt acc hH.1 hH.2.1 htrim hnum hnlen hnn (by rw [hcommon, hsz])
        refine ⟨?rb3, fmt', (by first | trivial | rfl), ?hb3, ?hc3⟩
        case hb3 => rw [hsz, List.append_assoc, List.append_assoc, List.append_assoc]; exact hstep
        case hc3 =>
          rw [hcommon]
          refine ⟨?_, rfl, rfl⟩
          have := ar_agrees .bsd e p hp hreg hsym (e.sizeV + (name.length : Nat)) (35 :: 49 :: 47 :: (arLoop 10 name.length 13).1)
            ((chunks.flatten).take e.sizeV.toNat)
          rw [← hname] at this
          have hc : (((chunks.flatten).take e.sizeV.toNat).length : Int) = e.sizeV := by rw [hbl]; omega
          rw [hc]
          exact this

/-! ### a whole archive -/

def arAccepted (v : ArVariant) (e : Entry) : Bool := (arWriteHeader v {} e).1 == .ok

theorem arRead_entries (v : ArVariant) (es : List (Entry × List (List Nat))) (hes : ∀ ec ∈ es, ArEntryOK v ec)
    (st : ArState) (hg : st.wroteGlobal = true) (tail : List Nat) (htail : tail.length < 60) (fmt : Nat) (acc : List RB) :
    ∃ rbs fmt', arRead false ((arWriteEntries v st es).1 ++ tail) fmt acc = ⟨fmt', acc.reverse ++ rbs, .eof, 0⟩ ∧
      AllPairs (ArReadsBack v) (es.filter fun ec => arAccepted v ec.1) rbs := by
  induction es generalizing st fmt acc with
  | nil =>
    refine ⟨[], fmt, ?_, AllPairs.nil⟩
    simp only [arWriteEntries, List.nil_append, List.append_nil]
    rw [arRead, if_pos htail]
  | cons ec r ih =>
    obtain ⟨e, chunks⟩ := ec
    have hE := hes (e, chunks) (List.mem_cons_self ..)
    have hr : ∀ ec ∈ r, ArEntryOK v ec := fun ec h => hes ec (List.mem_cons_of_mem _ h)
    simp only [arWriteEntries]
    have hst := hE.2.2.2.1
    simp only [] at hst
    rw [arWriteHeader_status_indep v {} st] at hst
    rcases hst with hok | hwarn
    · have hacc : arAccepted v e = true := by
        unfold arAccepted; rw [arWriteHeader_status_indep v {} st, hok]; rfl
      obtain ⟨rb, fmt1, hg', hstep, hrb⟩ := arMember_roundtrip v st hg e chunks hE hok
        ((arWriteEntries v (arWriteEntry v st e chunks).2.2.2.2 r).1 ++ tail) fmt acc
      obtain ⟨rbs, fmt', hread, hall⟩ := ih hr (arWriteEntry v st e chunks).2.2.2.2 hg' fmt1 (rb :: acc)
      refine ⟨rb :: rbs, fmt', ?_, ?_⟩
      · rw [List.append_assoc, hstep, hread]
        simp only [List.reverse_cons, List.append_assoc, List.singleton_append]
      · rw [List.filter_cons, if_pos (by simpa using hacc)]
        exact AllPairs.cons hrb hall
    · have hacc : arAccepted v e = false := by
        unfold arAccepted; rw [arWriteHeader_status_indep v {} st, hwarn]; rfl
      have hwe := arWriteEntry_warn v st e chunks (arWriteHeader_warn v st e hwarn hg)
      obtain ⟨rbs, fmt', hread, hall⟩ := ih hr { wroteGlobal := true, remaining := 0, padding := 0 } rfl fmt acc
      refine ⟨rbs, fmt', ?_, ?_⟩
      · rw [hwe]; simp only [List.nil_append]; exact hread
      · rw [List.filter_cons, if_neg (by simp [hacc])]; exact hall

/-! ### the global header is written with the first member that has a name, or at close -/

theorem arWriteHeader_nopath (v : ArVariant) (st : ArState) (e : Entry) (h : e.path = none ∨ e.path = some []) :
    arWriteHeader v st e = (.warn, [], { wroteGlobal := st.wroteGlobal, remaining := 0, padding := 0 }) := by
  unfold arWriteHeader
  rcases h with h | h <;> rw [h]

theorem arWriteHeader_flag (v : ArVariant) (st : ArState) (e : Entry) (hg : st.wroteGlobal = false) :
    (e.path = none ∨ e.path = some []) ∨
    arWriteHeader v st e = ((arWriteHeader v { st with wroteGlobal := true } e).1,
        arMagic ++ (arWriteHeader v { st with wroteGlobal := true } e).2.1,
        (arWriteHeader v { st with wroteGlobal := true } e).2.2) := by
  cases hp : e.path with
  | none => left; left; rfl
  | some p =>
    cases p with
    | nil => left; right; rfl
    | cons c r =>
      right
      unfold arWriteHeader
      rw [hp]
      simp only [hg, Bool.false_eq_true, if_false, if_true]
      split
      · simp
      · cases arBasename (c :: r) with
        | none => simp
        | some name =>
          simp only []
          cases arNameField v name with
          | none => simp
          | some na =>
            simp only []
            cases arStatFields e (e.sizeV + (na.2.length : Nat)) with
            | none => simp
            | some fs => simp

theorem arWriteEntry_nop (v : ArVariant) (st : ArState) (e : Entry) (chunks : List (List Nat)) (b : Bool)
    (hw : arWriteHeader v st e = (.warn, [], { wroteGlobal := b, remaining := 0, padding := 0 })) :
    (arWriteEntry v st e chunks).2.2.2 = ([], { wroteGlobal := b, remaining := 0, padding := 0 }) := by
  unfold arWriteEntry
  simp only [hw]
  obtain ⟨h1, h2⟩ := foldArData_spec chunks 0 [] { wroteGlobal := b, remaining := 0, padding := 0 }
  simp only [List.nil_append, List.take_zero] at h1
  simp only [h1, h2, List.take_zero, List.length_nil, Nat.sub_self, arFinishEntry, ne_eq, not_true_eq_false, if_false,
    if_true, List.append_nil]

theorem arFold_flag (chunks : List (List Nat)) (n : Nat) (out : List Nat) (st : ArState) (b : Bool) :
    (chunks.foldl arDataStep (n, out, { st with wroteGlobal := b })).2.1 = (chunks.foldl arDataStep (n, out, st)).2.1 ∧
    (chunks.foldl arDataStep (n, out, { st with wroteGlobal := b })).2.2
      = { (chunks.foldl arDataStep (n, out, st)).2.2 with wroteGlobal := b } := by
  obtain ⟨h1, h2⟩ := foldArData_spec chunks n out { st with wroteGlobal := b }
  obtain ⟨h3, h4⟩ := foldArData_spec chunks n out st
  rw [h1, h2, h3, h4]
  exact ⟨rfl, rfl⟩

/-- The bytes of an archive: the global header once, then what the members write when the global
header is already there. -/
theorem arWriteEntries_magic (v : ArVariant) (es : List (Entry × List (List Nat))) (st : ArState)
    (hg : st.wroteGlobal = false) :
    (arWriteEntries v st es).1 ++ arCloseBytes (arWriteEntries v st es).2
      = arMagic ++ (arWriteEntries v { st with wroteGlobal := true } es).1 := by
  induction es generalizing st with
  | nil => simp [arWriteEntries, arCloseBytes, hg]
  | cons ec r ih =>
    obtain ⟨e, chunks⟩ := ec
    simp only [arWriteEntries]
    rcases arWriteHeader_flag v st e hg with hnp | hw
    · -- no name: nothing at all is written, the flag stays down
      have a1 := arWriteEntry_nop v st e chunks _ (arWriteHeader_nopath v st e hnp)
      have a2 := arWriteEntry_nop v { st with wroteGlobal := true } e chunks _
        (arWriteHeader_nopath v { st with wroteGlobal := true } e hnp)
      rw [hg] at a1
      rw [a1, a2]
      simp only [List.nil_append]
      exact ih { wroteGlobal := false, remaining := 0, padding := 0 } rfl
    · -- the global header goes out in front of this member
      have e1 : (arWriteEntry v st e chunks).2.2.2.1 = arMagic ++ (arWriteEntry v { st with wroteGlobal := true } e chunks).2.2.2.1 ∧
          (arWriteEntry v st e chunks).2.2.2.2 = (arWriteEntry v { st with wroteGlobal := true } e chunks).2.2.2.2 := by
        unfold arWriteEntry
        simp only [hw, List.append_assoc]
        trivial
      obtain ⟨a1, a2⟩ := e1
      rw [a1, a2]
      have hflag : (arWriteEntry v { st with wroteGlobal := true } e chunks).2.2.2.2.wroteGlobal = true := by
        unfold arWriteEntry
        simp only []
        obtain ⟨g1, g2⟩ := foldArData_spec chunks 0 [] (arWriteHeader v { st with wroteGlobal := true } e).2.2
        rw [g2]
        simp only []
        unfold arWriteHeader
        cases e.path with
        | none => rfl
        | some p =>
          cases p with
          | nil => rfl
          | cons c r =>
            simp only []
            split
            · rfl
            · cases arBasename (c :: r) with
              | none => rfl
              | some name =>
                simp only []
                cases arNameField v name with
                | none => rfl
                | some na =>
                  simp only []
                  cases arStatFields e (e.sizeV + (na.2.length : Nat)) with
                  | none => rfl
                  | some fs => rfl
      have hcl : arCloseBytes (arWriteEntries v (arWriteEntry v { st with wroteGlobal := true } e chunks).2.2.2.2 r).2 = [] := by
        have : ∀ (es : List (Entry × List (List Nat))) (s : ArState), s.wroteGlobal = true →
            (arWriteEntries v s es).2.wroteGlobal = true := by
          intro es
          induction es with
          | nil => intro s hs; exact hs
          | cons ec' r' ih' =>
            intro s hs
            simp only [arWriteEntries]
            apply ih'
            unfold arWriteEntry
            simp only []
            obtain ⟨g1, g2⟩ := foldArData_spec ec'.2 0 [] (arWriteHeader v s ec'.1).2.2
            rw [g2]
            simp only []
            unfold arWriteHeader
            cases ec'.1.path with
            | none => exact hs
            | some p =>
              cases p with
              | nil => exact hs
              | cons c r =>
                simp only []
                split
                · rfl
                · cases arBasename (c :: r) with
                  | none => rfl
                  | some name =>
                    simp only []
                    cases arNameField v name with
                    | none => rfl
                    | some na =>
                      simp only []
                      cases arStatFields ec'.1 (ec'.1.sizeV + (na.2.length : Nat)) with
                      | none => rfl
                      | some fs => rfl
        unfold arCloseBytes
        rw [this r _ hflag]; rfl
      rw [hcl, List.append_nil, List.append_assoc]

end LA.Codec
