/-
C12 helper: basic facts about the abstract file system `LA.Tree.FS`.
-/
import LA.Lemmas.TreeDefs
namespace LA.Tree

theorem lookup_nil (p : Path) : FS.lookup [] p = none := by simp [FS.lookup]

theorem lookup_cons (x : Path × FNode) (fs : FS) (p : Path) :
    FS.lookup (x :: fs) p = if x.1 = p then some x.2 else FS.lookup fs p := by
  unfold FS.lookup
  by_cases h : x.1 = p
  · simp [List.find?, h]
  · have : (x.1 == p) = false := by simpa using h
    simp [List.find?, this, h]

theorem lookup_append (a b : FS) (p : Path) :
    FS.lookup (a ++ b) p = match FS.lookup a p with
      | some n => some n
      | none => FS.lookup b p := by
  induction a with
  | nil => simp [lookup_nil]
  | cons x a ih =>
    simp only [List.cons_append, lookup_cons]
    by_cases h : x.1 = p <;> simp [h, ih]

theorem lookup_some_mem {fs : FS} {p : Path} {n : FNode} (h : fs.lookup p = some n) : (p, n) ∈ fs := by
  induction fs with
  | nil => simp [lookup_nil] at h
  | cons x fs ih =>
    rw [lookup_cons] at h
    by_cases hx : x.1 = p
    · simp [hx] at h
      have : x = (p, n) := by cases x; simp_all
      simp [this]
    · simp [hx] at h
      exact List.mem_cons_of_mem _ (ih h)

theorem lookup_none_iff {fs : FS} {p : Path} : fs.lookup p = none ↔ p ∉ fs.map (·.1) := by
  induction fs with
  | nil => simp [lookup_nil]
  | cons x fs ih =>
    rw [lookup_cons]
    by_cases hx : x.1 = p
    · simp [hx]
    · simp only [hx, if_false, ih, List.map_cons, List.mem_cons]
      constructor
      · intro h1 h2
        rcases h2 with h2 | h2
        · exact hx h2.symm
        · exact h1 h2
      · intro h1 h2
        exact h1 (Or.inr h2)

theorem lookup_mem_nodup {fs : FS} (hn : (fs.map (·.1)).Nodup) {p : Path} {n : FNode} (h : (p, n) ∈ fs) :
    fs.lookup p = some n := by
  induction fs with
  | nil => simp at h
  | cons x fs ih =>
    rw [lookup_cons]
    simp only [List.map_cons, List.nodup_cons] at hn
    rcases List.mem_cons.mp h with h | h
    · subst h; simp
    · have : x.1 ≠ p := by
        intro hx
        apply hn.1
        rw [hx]
        exact List.mem_map.mpr ⟨(p, n), h, rfl⟩
      simp [this, ih hn.2 h]

theorem touch_map_fst (fs : FS) (d : Path) : (fs.touch d).map (·.1) = fs.map (·.1) := by
  unfold FS.touch
  rw [List.map_map]
  apply List.map_congr_left
  intro x _
  simp only [Function.comp]
  split <;> rfl

/-- `touch` changes nothing when the directory's mtime is already a clock value. -/
theorem touch_id (fs : FS) (d : Path) (h : ∀ x ∈ fs, x.1 = d → x.2.mtime = none) : fs.touch d = fs := by
  unfold FS.touch
  conv => rhs; rw [← List.map_id fs]
  apply List.map_congr_left
  intro x hx
  by_cases hd : x.1 = d
  · have := h x hx hd
    have hb : (x.1 == d) = true := by simpa using hd
    simp only [hb, if_true, id]
    cases x with
    | mk p n =>
      cases n
      simp_all
  · have hb : (x.1 == d) = false := by simpa using hd
    simp [hb]

theorem update_map_fst (fs : FS) (i : Nat) (f : FNode → FNode) : (fs.update i f).map (·.1) = fs.map (·.1) := by
  unfold FS.update
  rw [List.map_map]
  apply List.map_congr_left
  intro x _
  simp only [Function.comp]
  split <;> rfl

/-- Every proper prefix of a path present in a prefix-closed file system is a directory in it. -/
theorem fs_prefix_dirs (fs : FS)
    (hpc : ∀ p n, (p, n) ∈ fs → p ≠ [] → ∃ d, fs.lookup p.dropLast = some d ∧ d.kind = .dir)
    (p : Path) (n : FNode) (hp : fs.lookup p = some n) (k : Nat) (hk : k < p.length) :
    ∃ d, fs.lookup (p.take k) = some d ∧ d.kind = .dir := by
  -- induction on the number of components to strip
  generalize hm : p.length - k = m
  induction m generalizing p n with
  | zero => omega
  | succ m ih =>
    have hne : p ≠ [] := by intro h; simp [h] at hk
    obtain ⟨d, hd, hdk⟩ := hpc p n (lookup_some_mem hp) hne
    by_cases hlast : k = p.length - 1
    · refine ⟨d, ?_, hdk⟩
      rw [hlast, ← List.dropLast_eq_take]
      exact hd
    · have hlen : (p.dropLast).length = p.length - 1 := by simp
      have h1 : k < p.dropLast.length := by omega
      have := ih p.dropLast d hd h1 (by omega)
      obtain ⟨d', hd', hk'⟩ := this
      refine ⟨d', ?_, hk'⟩
      rw [List.dropLast_eq_take, List.take_take] at hd'
      have : min k (p.length - 1) = k := by omega
      rw [this] at hd'
      exact hd'

/-- Path resolution succeeds for a name whose parent is a directory of a prefix-closed file
system in which every directory is searchable by the caller. -/
theorem reach_of_parent (root : Bool) (fs : FS)
    (hpc : ∀ p n, (p, n) ∈ fs → p ≠ [] → ∃ d, fs.lookup p.dropLast = some d ∧ d.kind = .dir)
    (hs : ∀ p n, (p, n) ∈ fs → n.kind = .dir → root = true ∨ n.mode &&& 0o100 ≠ 0)
    (p : Path) (hp : p = [] ∨ ∃ d, fs.lookup p.dropLast = some d ∧ d.kind = .dir) :
    fs.reach root p = true := by
  unfold FS.reach
  rw [List.all_eq_true]
  intro k hk
  have hk : k < p.length := by simpa using hk
  rcases hp with hp | ⟨d, hd, hdk⟩
  · simp [hp] at hk
  · have hdir : ∃ d', fs.lookup (p.take k) = some d' ∧ d'.kind = .dir := by
      by_cases hlast : k = p.length - 1
      · refine ⟨d, ?_, hdk⟩
        rw [hlast, ← List.dropLast_eq_take]; exact hd
      · have h1 : k < p.dropLast.length := by simp; omega
        obtain ⟨d', hd', hk'⟩ := fs_prefix_dirs fs hpc p.dropLast d hd k h1
        refine ⟨d', ?_, hk'⟩
        rw [List.dropLast_eq_take, List.take_take] at hd'
        have : min k (p.length - 1) = k := by omega
        rw [this] at hd'
        exact hd'
    obtain ⟨d', hd', hk'⟩ := hdir
    simp only [hd']
    unfold FNode.searchableDir
    have := hs _ _ (lookup_some_mem hd') hk'
    rcases this with h | h
    · simp [hk', h]
    · simp [hk', h]

end LA.Tree
