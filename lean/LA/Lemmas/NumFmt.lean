/- Helper lemmas about the numeric formatters / parsers of `LA.Model.NumFmt` (core Lean only). -/
import LA.Model.NumFmt
namespace LA.NumFmt

theorem pow_pos8 (s : Nat) : 0 < 8 ^ s := Nat.pow_pos (by decide)
theorem pow_pos16 (s : Nat) : 0 < 16 ^ s := Nat.pow_pos (by decide)

/-! ### the octal digit loop -/

theorem octLoop_snd (v s : Nat) : (octLoop v s).2 = v / 8 ^ s := by
  induction s generalizing v with
  | zero => simp [octLoop]
  | succ s ih =>
    simp only [octLoop, ih]
    rw [Nat.div_div_eq_div_mul, Nat.pow_succ, Nat.mul_comm]

theorem octLoop_fst_length (v s : Nat) : (octLoop v s).1.length = s := by
  induction s generalizing v with
  | zero => simp [octLoop]
  | succ s ih => simp [octLoop, ih]

/-- The low `s` octal digits of `v`, most significant first. -/
def octHead : Nat → Nat → List Nat
  | _, 0 => []
  | v, s + 1 => (c0 + v / 8 ^ s % 8) :: octHead v s

theorem octHead_snoc (v s : Nat) : octHead v (s + 1) = octHead (v / 8) s ++ [c0 + v % 8] := by
  induction s with
  | zero => simp [octHead]
  | succ s ih =>
    rw [octHead, ih]
    simp only [octHead, List.cons_append]
    congr 2
    rw [Nat.div_div_eq_div_mul, Nat.pow_succ, Nat.mul_comm]

theorem octLoop_fst (v s : Nat) : (octLoop v s).1 = octHead v s := by
  induction s generalizing v with
  | zero => simp [octLoop, octHead]
  | succ s ih => rw [octHead_snoc]; simp [octLoop, ih]

theorem octHead_length (v s : Nat) : (octHead v s).length = s := by
  induction s with
  | zero => rfl
  | succ s ih => simp [octHead, ih]

theorem octHead_digit (v s : Nat) : ∀ c ∈ octHead v s, c0 ≤ c ∧ c ≤ c7 := by
  induction s with
  | zero => simp [octHead]
  | succ s ih =>
    intro c hc
    simp only [octHead, List.mem_cons] at hc
    rcases hc with h | h
    · subst h; have := Nat.mod_lt (v / 8 ^ s) (by decide : 0 < 8); simp only [c0, c7]; omega
    · exact ih c h

theorem octHead_mod (v s : Nat) : octHead (v % 8 ^ s) s = octHead v s := by
  induction s generalizing v with
  | zero => rfl
  | succ s ih =>
    rw [octHead_snoc, octHead_snoc]
    have h1 : v % 8 ^ (s + 1) / 8 = (v / 8) % 8 ^ s := by
      rw [Nat.pow_succ, Nat.mul_comm, Nat.mod_mul_right_div_self]
    have h2 : v % 8 ^ (s + 1) % 8 = v % 8 := by
      rw [Nat.pow_succ, Nat.mul_comm]; exact Nat.mod_mul_right_mod v 8 (8 ^ s)
    rw [h1, h2, ih]

/-- All digits '7' is the field maximum. -/
theorem octHead_max (s : Nat) : octHead (8 ^ s - 1) s = List.replicate s c7 := by
  induction s with
  | zero => rfl
  | succ s ih =>
    rw [octHead_snoc]
    have hp := pow_pos8 s
    have h1 : (8 ^ (s + 1) - 1) / 8 = 8 ^ s - 1 := by
      rw [Nat.pow_succ]; omega
    have h2 : (8 ^ (s + 1) - 1) % 8 = 7 := by
      rw [Nat.pow_succ]; omega
    rw [h1, h2, ih]
    simp [c0, c7, List.replicate_succ']


/-! ### parsing the octal field back -/

theorem mod_pow_succ8 (v s : Nat) : v % 8 ^ (s + 1) = (v / 8 ^ s % 8) * 8 ^ s + v % 8 ^ s := by
  rw [Nat.mod_pow_succ]; rw [Nat.mul_comm, Nat.add_comm]

/-- `tar_atol_base_n`'s digit loop over an octal field followed by `tail`: as long as the
result stays ≤ `lim` (= INT64_MAX / 8) the overflow cut-off never fires. -/
theorem atolLoop_octHead (v s l : Nat) (tail : List Nat)
    (h : l * 8 ^ s + v % 8 ^ s ≤ 1152921504606846975) :
    atolLoop 8 1152921504606846975 7 (octHead v s ++ tail) l
      = atolLoop 8 1152921504606846975 7 tail (l * 8 ^ s + v % 8 ^ s) := by
  induction s generalizing l with
  | zero => simp [octHead, Nat.mod_one]
  | succ s ih =>
    have hp := pow_pos8 s
    have hd := Nat.mod_lt (v / 8 ^ s) (by decide : 0 < 8)
    rw [mod_pow_succ8] at h
    have hpow : 8 ^ (s + 1) = 8 * 8 ^ s := by rw [Nat.pow_succ, Nat.mul_comm]
    rw [hpow] at h
    -- l*8 ≤ l*(8*8^s)
    have h8 : l * 8 + v / 8 ^ s % 8 ≤ 1152921504606846975 := by
      have a1 : (l * 8 + v / 8 ^ s % 8) * 1 ≤ (l * 8 + v / 8 ^ s % 8) * 8 ^ s := Nat.mul_le_mul_left _ hp
      have a2 : (l * 8 + v / 8 ^ s % 8) * 8 ^ s = l * (8 * 8 ^ s) + v / 8 ^ s % 8 * 8 ^ s := by
        rw [Nat.add_mul, Nat.mul_assoc]
      omega
    simp only [octHead, List.cons_append, atolLoop]
    have hc : c0 ≤ c0 + v / 8 ^ s % 8 ∧ c0 + v / 8 ^ s % 8 < c0 + 8 := by omega
    rw [if_pos hc]
    have hno : ¬(l > 1152921504606846975 ∨ l = 1152921504606846975 ∧ c0 + v / 8 ^ s % 8 - c0 ≥ 7) := by omega
    rw [if_neg hno]
    have hdig : c0 + v / 8 ^ s % 8 - c0 = v / 8 ^ s % 8 := by omega
    rw [hdig, ih]
    · congr 1
      rw [mod_pow_succ8, hpow, Nat.add_mul, Nat.mul_assoc]; omega
    · have : (l * 8 + v / 8 ^ s % 8) * 8 ^ s = l * (8 * 8 ^ s) + v / 8 ^ s % 8 * 8 ^ s := by
        rw [Nat.add_mul, Nat.mul_assoc]
      omega

/-- A byte that ends the digit loop. -/
def nonOctal (c : Nat) : Prop := ¬(c0 ≤ c ∧ c < c0 + 8)

theorem atolLoop_stop (lim ldl l : Nat) (tail : List Nat)
    (h : tail = [] ∨ ∃ c r, tail = c :: r ∧ nonOctal c) :
    atolLoop 8 lim ldl tail l = some l := by
  rcases h with h | ⟨c, r, h, hc⟩
  · subst h; rfl
  · subst h; simp only [atolLoop]; rw [if_neg hc]

theorem dropBlanks_digit (c : Nat) (r : List Nat) (h : c0 ≤ c ∧ c ≤ c7) : dropBlanks (c :: r) = c :: r := by
  simp only [dropBlanks]
  have : ¬(c = sp ∨ c = 9) := by simp only [c0, c7, sp] at *; omega
  rw [if_neg this]

/-- `tar_atol_base_n` on a field whose first byte is neither blank nor '-'. -/
theorem tarAtolBaseN_start (c : Nat) (r : List Nat) (hc : c ≠ 45) (hb : ¬(c = sp ∨ c = 9)) :
    tarAtolBaseN (c :: r) 8 =
      match atolLoop 8 1152921504606846975 7 (c :: r) 0 with
      | some l => (l : Int)
      | none => I64_MAX := by
  unfold tarAtolBaseN
  simp only [dropBlanks, if_neg hb]
  split
  · next rest heq => simp at heq; exact absurd heq.1 hc
  · rfl

/-- Octal field of a non-negative value that fits, followed by a terminator (or the end of the
field): `tar_atol` returns the value.  (`s ≥ 1`: the first byte decides octal vs base-256.) -/
theorem tarAtol_octHead (v s : Nat) (tail : List Nat) (hs : 0 < s) (hv : v < 8 ^ s)
    (hfit : v ≤ 1152921504606846975)
    (ht : tail = [] ∨ ∃ c r, tail = c :: r ∧ nonOctal c) :
    tarAtol (octHead v s ++ tail) = (v : Int) := by
  obtain ⟨s', rfl⟩ : ∃ s', s = s' + 1 := ⟨s - 1, by omega⟩
  have hd := Nat.mod_lt (v / 8 ^ s') (by decide : 0 < 8)
  have hlist : octHead v (s' + 1) ++ tail = (c0 + v / 8 ^ s' % 8) :: (octHead v s' ++ tail) := by
    simp [octHead]
  have hno128 : ¬(c0 + v / 8 ^ s' % 8 ≥ 128) := by simp only [c0]; omega
  have hne : c0 + v / 8 ^ s' % 8 ≠ 45 := by simp only [c0]; omega
  have hb : ¬(c0 + v / 8 ^ s' % 8 = sp ∨ c0 + v / 8 ^ s' % 8 = 9) := by simp only [c0, sp]; omega
  unfold tarAtol
  rw [hlist]
  simp only [if_neg hno128]
  unfold tarAtol8
  rw [tarAtolBaseN_start _ _ hne hb, ← hlist]
  rw [atolLoop_octHead v (s' + 1) 0 tail (by rw [Nat.mod_eq_of_lt hv]; omega)]
  rw [atolLoop_stop _ _ _ _ ht]
  simp [Nat.mod_eq_of_lt hv]

/-! ### cpio: `atol8` / `atol16` on what `format_octal` / `format_hex` wrote -/

theorem cpioAtol8_octHead (v s l : Nat) (tail : List Nat)
    (h : l * 8 ^ s + v % 8 ^ s < 18446744073709551616) :
    cpioAtol8 (octHead v s ++ tail) l = cpioAtol8 tail (l * 8 ^ s + v % 8 ^ s) := by
  induction s generalizing l with
  | zero => simp [octHead, Nat.mod_one]
  | succ s ih =>
    have hp := pow_pos8 s
    have hd := Nat.mod_lt (v / 8 ^ s) (by decide : 0 < 8)
    have hpow : 8 ^ (s + 1) = 8 * 8 ^ s := by rw [Nat.pow_succ, Nat.mul_comm]
    rw [mod_pow_succ8, hpow] at h
    have a2 : (l * 8 + v / 8 ^ s % 8) * 8 ^ s = l * (8 * 8 ^ s) + v / 8 ^ s % 8 * 8 ^ s := by
      rw [Nat.add_mul, Nat.mul_assoc]
    have h8 : l * 8 + v / 8 ^ s % 8 < 18446744073709551616 := by
      have a1 : (l * 8 + v / 8 ^ s % 8) * 1 ≤ (l * 8 + v / 8 ^ s % 8) * 8 ^ s := Nat.mul_le_mul_left _ hp
      omega
    simp only [octHead, List.cons_append, cpioAtol8]
    have hc : c0 ≤ c0 + v / 8 ^ s % 8 ∧ c0 + v / 8 ^ s % 8 ≤ c7 := by simp only [c0, c7]; omega
    rw [if_pos hc]
    have hdig : c0 + v / 8 ^ s % 8 - c0 = v / 8 ^ s % 8 := by omega
    rw [hdig, Nat.mod_eq_of_lt h8, ih]
    · congr 1
      rw [mod_pow_succ8, hpow]; omega
    · omega

theorem cpioAtol8_stop (l : Nat) (tail : List Nat)
    (h : tail = [] ∨ ∃ c r, tail = c :: r ∧ ¬(c0 ≤ c ∧ c ≤ c7)) : cpioAtol8 tail l = l := by
  rcases h with h | ⟨c, r, h, hc⟩
  · subst h; rfl
  · subst h; simp only [cpioAtol8]; rw [if_neg hc]

/-- The low `s` hex digits of `v`, most significant first. -/
def hexHead : Nat → Nat → List Nat
  | _, 0 => []
  | v, s + 1 => hexChar (v / 16 ^ s % 16) :: hexHead v s

theorem hexHead_snoc (v s : Nat) : hexHead v (s + 1) = hexHead (v / 16) s ++ [hexChar (v % 16)] := by
  induction s with
  | zero => simp [hexHead]
  | succ s ih =>
    rw [hexHead, ih]
    simp only [hexHead, List.cons_append]
    congr 2
    rw [Nat.div_div_eq_div_mul, Nat.pow_succ, Nat.mul_comm]

theorem hexDigits_eq (v s : Nat) : hexDigits v s = hexHead v s := by
  induction s generalizing v with
  | zero => rfl
  | succ s ih => rw [hexHead_snoc]; simp [hexDigits, ih]

theorem hexHead_length (v s : Nat) : (hexHead v s).length = s := by
  induction s with
  | zero => rfl
  | succ s ih => simp [hexHead, ih]

theorem hexVal_hexChar (d : Nat) (h : d < 16) : hexVal (hexChar d) = some d := by
  unfold hexChar hexVal
  by_cases h10 : d < 10
  · simp only [if_pos h10, c0, c9]
    have h1 : ¬(97 ≤ 48 + d ∧ 48 + d ≤ 102) := by omega
    have h2 : ¬(65 ≤ 48 + d ∧ 48 + d ≤ 70) := by omega
    have h3 : 48 ≤ 48 + d ∧ 48 + d ≤ 57 := by omega
    rw [if_neg h1, if_neg h2, if_pos h3]; congr 1; omega
  · simp only [if_neg h10]
    have h1 : 97 ≤ 97 + (d - 10) ∧ 97 + (d - 10) ≤ 102 := by omega
    rw [if_pos h1]; congr 1; omega

theorem mod_pow_succ16 (v s : Nat) : v % 16 ^ (s + 1) = (v / 16 ^ s % 16) * 16 ^ s + v % 16 ^ s := by
  rw [Nat.mod_pow_succ]; rw [Nat.mul_comm, Nat.add_comm]

theorem cpioAtol16_hexHead (v s l : Nat) (tail : List Nat)
    (h : l * 16 ^ s + v % 16 ^ s < 18446744073709551616) :
    cpioAtol16 (hexHead v s ++ tail) l = cpioAtol16 tail (l * 16 ^ s + v % 16 ^ s) := by
  induction s generalizing l with
  | zero => simp [hexHead, Nat.mod_one]
  | succ s ih =>
    have hp := pow_pos16 s
    have hd := Nat.mod_lt (v / 16 ^ s) (by decide : 0 < 16)
    have hpow : 16 ^ (s + 1) = 16 * 16 ^ s := by rw [Nat.pow_succ, Nat.mul_comm]
    rw [mod_pow_succ16, hpow] at h
    have a2 : (l * 16 + v / 16 ^ s % 16) * 16 ^ s = l * (16 * 16 ^ s) + v / 16 ^ s % 16 * 16 ^ s := by
      rw [Nat.add_mul, Nat.mul_assoc]
    have h8 : l * 16 + v / 16 ^ s % 16 < 18446744073709551616 := by
      have a1 : (l * 16 + v / 16 ^ s % 16) * 1 ≤ (l * 16 + v / 16 ^ s % 16) * 16 ^ s := Nat.mul_le_mul_left _ hp
      omega
    simp only [hexHead, List.cons_append, cpioAtol16, hexVal_hexChar _ hd]
    rw [Nat.mod_eq_of_lt h8, ih]
    · congr 1
      rw [mod_pow_succ16, hpow]; omega
    · omega

theorem hexHead_max (s : Nat) : hexHead (16 ^ s - 1) s = List.replicate s 102 := by
  induction s with
  | zero => rfl
  | succ s ih =>
    rw [hexHead_snoc]
    have hp := pow_pos16 s
    have h1 : (16 ^ (s + 1) - 1) / 16 = 16 ^ s - 1 := by rw [Nat.pow_succ]; omega
    have h2 : (16 ^ (s + 1) - 1) % 16 = 15 := by rw [Nat.pow_succ]; omega
    rw [h1, h2, ih]
    simp [hexChar, List.replicate_succ']

/-! ### closed forms of the formatters -/

theorem div_pow_eq_zero_iff (n s : Nat) : n / 8 ^ s = 0 ↔ n < 8 ^ s := by
  have hp := pow_pos8 s
  constructor
  · intro h
    rcases (Nat.div_eq_zero_iff).1 h with h | h
    · omega
    · exact h
  · exact Nat.div_eq_of_lt

theorem ustarFormatOctal_eq (v : Int) (s : Nat) :
    ustarFormatOctal v s =
      if v < 0 then (true, List.replicate s c0)
      else if v.toNat < 8 ^ s then (false, octHead v.toNat s)
      else (true, List.replicate s c7) := by
  unfold ustarFormatOctal
  simp only [octLoop_snd, octLoop_fst, div_pow_eq_zero_iff]

theorem gnutarFormatOctal_eq (v : Int) (s : Nat) :
    gnutarFormatOctal v s =
      if (if v < 0 then 0 else v).toNat < 8 ^ s then (false, octHead (if v < 0 then 0 else v).toNat s)
      else (true, List.replicate s c7) := by
  unfold gnutarFormatOctal
  simp only [octLoop_snd, octLoop_fst, div_pow_eq_zero_iff]

theorem octHead_zero (s : Nat) : octHead 0 s = List.replicate s c0 := by
  induction s with
  | zero => rfl
  | succ s ih => simp [octHead, ih, List.replicate_succ]

theorem int_pow8 (d : Nat) : (8 : Int) ^ d = ((8 ^ d : Nat) : Int) := by simp
theorem int_pow16 (d : Nat) : (16 : Int) ^ d = ((16 ^ d : Nat) : Int) := by simp

theorem odcFormatOctal_eq (v : Int) (d : Nat) :
    odcFormatOctal v d =
      if 0 ≤ v ∧ v.toNat < 8 ^ d then (false, octHead v.toNat d) else (true, List.replicate d c7) := by
  unfold odcFormatOctal octDigits
  have hp := pow_pos8 d
  simp only [octLoop_fst, int_pow8]
  have hmax : (((8 ^ d : Nat) : Int) - 1).toNat = 8 ^ d - 1 := by omega
  rw [hmax, octHead_max]
  by_cases h : 0 ≤ v ∧ v ≤ ((8 ^ d : Nat) : Int) - 1
  · rw [if_pos h, if_pos ⟨h.1, by omega⟩]
  · rw [if_neg h, if_neg (fun h' => h ⟨h'.1, by omega⟩)]

theorem newcFormatHex_eq (v : Int) (d : Nat) :
    newcFormatHex v d =
      if 0 ≤ v ∧ v.toNat < 16 ^ d then (false, hexHead v.toNat d) else (true, List.replicate d 102) := by
  unfold newcFormatHex
  have hp := pow_pos16 d
  simp only [hexDigits_eq, int_pow16]
  have hmax : (((16 ^ d : Nat) : Int) - 1).toNat = 16 ^ d - 1 := by omega
  rw [hmax, hexHead_max]
  by_cases h : 0 ≤ v ∧ v ≤ ((16 ^ d : Nat) : Int) - 1
  · rw [if_pos h, if_pos ⟨h.1, by omega⟩]
  · rw [if_neg h, if_neg (fun h' => h ⟨h'.1, by omega⟩)]

/-! ### the ar digit loop -/

theorem div_eq_zero_iff_lt (v b : Nat) (hb : 0 < b) : v / b = 0 ↔ v < b := by
  constructor
  · intro h; rcases (Nat.div_eq_zero_iff).1 h with h | h <;> omega
  · exact Nat.div_eq_of_lt

theorem arLoop_spec (b : Nat) (hb : 2 ≤ b) (s v : Nat) :
    (arLoop b v (s + 1)).1.length + (arLoop b v (s + 1)).2.2 = s + 1 ∧
    ((arLoop b v (s + 1)).2.1 = 0 ↔ v < b ^ (s + 1)) := by
  have hb0 : 0 < b := by omega
  induction s generalizing v with
  | zero =>
    simp only [arLoop]
    have : ¬(0 > 0 ∧ v / b > 0) := by omega
    rw [if_neg this]
    refine ⟨rfl, ?_⟩
    show v / b = 0 ↔ v < b ^ 1
    rw [Nat.pow_one]; exact div_eq_zero_iff_lt v b hb0
  | succ s ih =>
    have hpow : b ^ (s + 1 + 1) = b ^ (s + 1) * b := Nat.pow_succ ..
    rw [arLoop]
    by_cases hc : s + 1 > 0 ∧ v / b > 0
    · simp only [if_pos hc]
      obtain ⟨ih1, ih2⟩ := ih (v / b)
      refine ⟨by simp only [List.length_append, List.length_singleton]; omega, ?_⟩
      rw [ih2, hpow]
      exact Nat.div_lt_iff_lt_mul hb0
    · simp only [if_neg hc]
      have hv0 : v / b = 0 := by
        rcases Nat.eq_zero_or_pos (v / b) with h | h
        · exact h
        · exact absurd ⟨by omega, h⟩ hc
      refine ⟨by simp only [List.length_singleton]; omega, ?_⟩
      have hvb : v < b := (div_eq_zero_iff_lt v b hb0).1 hv0
      have h1 : b ^ 1 ≤ b ^ (s + 1 + 1) := Nat.pow_le_pow_right hb0 (by omega)
      rw [Nat.pow_one] at h1
      constructor
      · intro _; omega
      · intro _; exact hv0

/-- `format_octal` reported no overflow ⇒ the value fits. -/
theorem ustarFormatOctal_ok (v : Int) (s : Nat) (h : (ustarFormatOctal v s).1 = false) :
    0 ≤ v ∧ v.toNat < 8 ^ s ∧ (ustarFormatOctal v s).2 = octHead v.toNat s := by
  rw [ustarFormatOctal_eq] at h ⊢
  by_cases hneg : v < 0
  · rw [if_pos hneg] at h; cases h
  · rw [if_neg hneg] at h ⊢
    by_cases hfit : v.toNat < 8 ^ s
    · rw [if_pos hfit]; exact ⟨by omega, hfit, rfl⟩
    · rw [if_neg hfit] at h; cases h

/-- What `format_octal` wrote without complaint is read back exactly by `tar_atol`. -/
theorem tarAtol_ustarFormatOctal (v : Int) (s : Nat) (tail : List Nat)
    (hs : 0 < s) (hs20 : s ≤ 20) (hok : (ustarFormatOctal v s).1 = false)
    (ht : tail = [] ∨ ∃ c r, tail = c :: r ∧ nonOctal c) :
    tarAtol ((ustarFormatOctal v s).2 ++ tail) = v := by
  obtain ⟨h0, hvn, hbytes⟩ := ustarFormatOctal_ok v s hok
  have hbound : v.toNat ≤ 1152921504606846975 := by
    have h1 : 8 ^ s ≤ 8 ^ 20 := Nat.pow_le_pow_right (by decide) hs20
    have h2 : (8 : Nat) ^ 20 = 1152921504606846976 := by decide
    omega
  rw [hbytes, tarAtol_octHead _ _ _ hs hvn hbound ht]
  omega

end LA.NumFmt
