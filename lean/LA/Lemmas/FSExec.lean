/-
Helper lemmas for C04, part 6: each system call of `LA.FS.exec`, issued on a path
of the family of a checked entry path, keeps the confinement invariant and the
"no symlink along the prefix" fact.
-/
import LA.Lemmas.FSFrame
set_option linter.unusedSimpArgs false
set_option linter.unusedVariables false
namespace LA.FS
open LA.PathClean (SLASH DOT splitSlash)

/-- Leading components of a path (all but the last). -/
def initOf (p : List Nat) : List Name := (compsOf p).dropLast

/-- A relative path without ".", ".." or a trailing '/'. -/
structure Rel (p : List Nat) : Prop where
  ne : compsOf p ≠ []
  notAbs : isAbs p = false
  noTrail : trailingSlash p = false
  noDots : NoDots (compsOf p)

/-- Paths the writer derives from a cleaned entry path `q`: "." itself, or a
relative path whose leading components are leading components of `q`
(`q`, its ancestors, its temporary name). -/
def Fam (q p : List Nat) : Prop := p = [DOT] ∨ (Rel p ∧ initOf p <+: initOf q)

/-- No reference in the tree points at an unallocated inode. -/
def WF (fs : FS) : Prop := RefsIn (fun i => i < fs.next) fs.root

/-- The state assertion while an entry whose cleaned path is `q` is restored. -/
structure Sem (c : Ctx) (q : List Nat) (pr : Proc) : Prop where
  inv : Inv c pr
  wf : WF pr.fs
  nl : NoLinkAt pr.fs c.T (initOf q)

theorem locate_ok {fs : FS} {cwd : List Name} {p : List Nat} {loc : Loc} (h : locate fs cwd p = .ok loc) :
    locate0 fs cwd p = .ok loc ∧ p.length < pathMax := by
  unfold locate at h
  split at h
  · simp at h
  · rename_i hl; exact ⟨h, by omega⟩

theorem locate_of_lt {fs : FS} {cwd : List Name} {p : List Nat} (h : p.length < pathMax) :
    locate fs cwd p = locate0 fs cwd p := by
  unfold locate; rw [if_neg (by omega)]

theorem lookupFollow_ok {fs : FS} {cwd : List Name} {p : List Nat} {r : List Name × Tree}
    (h : lookupFollow fs cwd p = .ok r) : lookupFollow0 fs cwd p = .ok r ∧ p.length < pathMax := by
  unfold lookupFollow at h
  split at h
  · simp at h
  · rename_i hl; exact ⟨h, by omega⟩

theorem lookupFollow_of_lt {fs : FS} {cwd : List Name} {p : List Nat} (h : p.length < pathMax) :
    lookupFollow fs cwd p = lookupFollow0 fs cwd p := by
  unfold lookupFollow; rw [if_neg (by omega)]

theorem dropLast_getLast? {α} (l : List α) (a : α) (h : l.getLast? = some a) : l = l.dropLast ++ [a] := by
  have hne : l ≠ [] := by intro e; subst e; simp at h
  have := List.dropLast_concat_getLast hne
  rw [List.getLast?_eq_some_getLast hne] at h
  simp only [Option.some.injEq] at h
  rw [h] at this; exact this.symm

theorem Rel.ne_nil {p : List Nat} (h : Rel p) : p ≠ [] := by
  intro hp; subst hp; exact h.ne (by decide)

theorem treeInv_of_inv {c : Ctx} {pr : Proc} (h : Inv c pr) : TreeInv c pr.fs.root :=
  ⟨h.tree, h.refs, h.tdir⟩

/-- Rebuild `Inv` after a change of the file system only. -/
theorem inv_setFs {c : Ctx} {pr : Proc} (h : Inv c pr) (fs' : FS) (ht : TreeInv c fs'.root)
    (hf : ∀ i, i < c.n0 → ¬ c.S i → fs'.files i = c.files0 i) (hn : c.n0 ≤ fs'.next) :
    Inv c { pr with fs := fs' } :=
  ⟨ht.tree, hf, ht.refs, hn, ht.tdir, h.cwd, h.fd, h.dfd, h.xfd⟩

theorem locate_fam {c : Ctx} {q p : List Nat} {pr : Proc} (hS : Sem c q pr) (hF : Fam q p) {loc : Loc}
    (h : locate pr.fs pr.cwd p = .ok loc) :
    (p = [DOT] ∧ loc = .obj c.T) ∨ ∃ r n, loc = .entry (c.T ++ r) n ∧ r <+: initOf q ∧ compsOf p = r ++ [n] := by
  obtain ⟨tT, hT, hTd⟩ := hS.inv.tdir
  rw [hS.inv.cwd] at h
  rcases hF with rfl | ⟨hr, hp⟩
  · left
    have e : compsOf [DOT] = [DOTN] := by decide
    replace h := (locate_ok h).1
    unfold locate0 at h
    simp only [e, show ([DOT] : List Nat) ≠ [] by decide, if_false, show isAbs [DOT] = false by decide] at h
    simp only [List.getLast?_singleton, true_or, if_true] at h
    simp only [Bool.false_eq_true, ↓reduceIte] at h
    rw [walk] at h
    simp only [hT] at h
    cases tT with
    | file i => simp [Tree.isDir] at hTd
    | dir m mt es =>
      simp only [↓reduceIte] at h
      rw [walk] at h
      simp only [hT] at h
      simp at h; exact ⟨rfl, h.symm⟩
  · right
    replace h := (locate_ok h).1
    unfold locate0 at h
    simp only [hr.ne_nil, if_false, hr.notAbs] at h
    cases hl : (compsOf p).getLast? with
    | none => exact absurd (List.getLast?_eq_none_iff.mp hl) hr.ne
    | some last =>
      have hmem : last ∈ compsOf p := List.mem_of_getLast? hl
      have hnd := hr.noDots last hmem
      have hcond : ¬ (last = DOTN ∨ last = DOTDOTN ∨ trailingSlash p = true) := by
        simp [hnd.1, hnd.2, hr.noTrail]
      simp only [hl, if_neg hcond] at h
      have hsplit : compsOf p = initOf p ++ [last] := dropLast_getLast? _ _ hl
      have hndi : NoDots (initOf p) := fun x hx => hr.noDots x (by rw [hsplit]; simp [hx])
      split at h
      · simp at h
      · rename_i d hw
        have hd := walk_noLink pr.fs maxLinks (initOf p) c.T tT hndi hT
          (noLinkT_prefix pr.fs _ _ tT hp (hS.nl tT hT)) d hw
        subst hd
        split at h
        · split at h
          · simp at h
          · simp at h; exact ⟨initOf p, last, h.symm, hp, hsplit⟩
        · simp at h
        · simp at h


/-! ### primitive updates keep `Sem` -/

theorem isLnk_setRoot (fs : FS) (r : Tree) (t : Tree) : isLnk { fs with root := r } t = isLnk fs t := by
  cases t <;> rfl

theorem noLinkT_setRoot (fs : FS) (r : Tree) (t : Tree) (cs : List Name) (h : NoLinkT fs t cs) :
    NoLinkT { fs with root := r } t cs :=
  noLinkT_files fs _ cs t (fun _ i _ hl => by rw [isLnk_setRoot] at hl; exact hl) h

theorem okx_setRoot {fs : FS} {x : Tree} (r : Tree) (h : OKx fs x) : OKx { fs with root := r } x :=
  ⟨fun hd cs => noLinkT_setRoot fs r x cs (h.1 hd cs), fun hd => by rw [isLnk_setRoot]; exact h.2 hd⟩

theorem sem_putAt {c : Ctx} {q : List Nat} {pr : Proc} (hS : Sem c q pr) (r : List Name) (n : Name) (x : Tree)
    (hx : RefsIn c.inS x) (hx2 : RefsIn (fun i => i < pr.fs.next) x)
    (hc : OKx pr.fs x ∨ ¬ (r ++ [n]) <+: initOf q) :
    Sem c q { pr with fs := putAt pr.fs (c.T ++ r) n x } := by
  refine ⟨inv_setFs hS.inv _ (treeInv_putAt (treeInv_of_inv hS.inv) r n x hx) hS.inv.files hS.inv.next, ?_, ?_⟩
  · exact refsIn_modify _ (fun _ ht => refsIn_touch (refsIn_put ht hx2)) _ _ hS.wf
  · intro t' ht'
    obtain ⟨tT, hT, _⟩ := hS.inv.tdir
    simp only [putAt] at ht'
    rw [get_modify_prefix, hT] at ht'
    simp only [Option.map_some, Option.some.injEq] at ht'
    subst ht'
    apply noLinkT_setRoot
    exact noLinkT_put pr.fs n x r (initOf q) tT (hS.nl tT hT) hc

theorem sem_delAt {c : Ctx} {q : List Nat} {pr : Proc} (hS : Sem c q pr) (r : List Name) (n : Name) :
    Sem c q { pr with fs := delAt pr.fs (c.T ++ r) n } := by
  refine ⟨inv_setFs hS.inv _ (treeInv_delAt (treeInv_of_inv hS.inv) r n) hS.inv.files hS.inv.next, ?_, ?_⟩
  · exact refsIn_modify _ (fun _ ht => refsIn_touch (refsIn_del ht)) _ _ hS.wf
  · intro t' ht'
    obtain ⟨tT, hT, _⟩ := hS.inv.tdir
    simp only [delAt] at ht'
    rw [get_modify_prefix, hT] at ht'
    simp only [Option.map_some, Option.some.injEq] at ht'
    subst ht'
    apply noLinkT_setRoot
    exact noLinkT_del pr.fs n r (initOf q) tT (hS.nl tT hT)

theorem sem_setDirMeta {c : Ctx} {q : List Nat} {pr : Proc} (hS : Sem c q pr) (r : List Name)
    (g : Nat → Int → Nat × Int) : Sem c q { pr with fs := setDirMeta pr.fs (c.T ++ r) g } := by
  have hs : ShapeKeeping (fun t => match t with
      | Tree.dir m mt es => Tree.dir (g m mt).1 (g m mt).2 es
      | Tree.file i => Tree.file i) := by intro t; cases t <;> simp [Tree.isDir]
  refine ⟨inv_setFs hS.inv _ (treeInv_setDirMeta (treeInv_of_inv hS.inv) r g) hS.inv.files hS.inv.next, ?_, ?_⟩
  · apply refsIn_modify _ _ _ _ hS.wf
    intro t ht p ino hp
    cases t with
    | file i => exact ht p ino hp
    | dir m mt es =>
      cases p with
      | nil => simp at hp
      | cons c' p => apply ht (c' :: p) ino; rw [get_cons] at hp ⊢; exact hp
  · intro t' ht'
    obtain ⟨tT, hT, _⟩ := hS.inv.tdir
    simp only [setDirMeta] at ht'
    rw [get_modify_prefix, hT] at ht'
    simp only [Option.map_some, Option.some.injEq] at ht'
    subst ht'
    apply noLinkT_setRoot
    apply noLinkT_keepChildren pr.fs _ hs _ r (initOf q) tT (hS.nl tT hT)
    intro t cc; cases t <;> rfl

/-- Changing the inode table only: for inodes the extraction may touch, without
making a referenced inode a symlink. -/
theorem sem_setFiles {c : Ctx} {q : List Nat} {pr : Proc} (hS : Sem c q pr) (files' : Nat → Option FNode)
    (next' : Nat) (hn : pr.fs.next ≤ next')
    (hout : ∀ i, ¬ c.inS i → files' i = pr.fs.files i)
    (hl : ∀ i, i < pr.fs.next → isLnk { pr.fs with files := files', next := next' } (.file i) = true →
      isLnk pr.fs (.file i) = true) :
    Sem c q { pr with fs := { pr.fs with files := files', next := next' } } := by
  refine ⟨inv_setFs hS.inv _ (treeInv_of_inv hS.inv) ?_ (Nat.le_trans hS.inv.next hn), ?_, ?_⟩
  · intro i hi hs
    have : ¬ c.inS i := by
      intro h; rcases h with h | h
      · exact hs h
      · omega
    show files' i = c.files0 i
    rw [hout i this]; exact hS.inv.files i hi hs
  · intro p i hp; exact Nat.lt_of_lt_of_le (hS.wf p i hp) hn
  · intro t' ht'
    apply noLinkT_files pr.fs _ _ t' _ (hS.nl t' ht')
    intro p i hp
    obtain ⟨tT, hT, _⟩ := hS.inv.tdir
    have : get pr.fs.root (c.T ++ p) = some (.file i) := by rw [get_append]; simp only [] at ht'; rw [ht']; exact hp
    exact hl i (hS.wf _ i this)

end LA.FS
