/- The cpio odc writer against the cpio reader on a whole stream of entries (C02). Core Lean only. -/
import LA.Lemmas.CpioStream
namespace LA.Codec
open LA.NumFmt LA.Gen.CpioLayout LA.Gen.CodecConsts

/-! ### the odc header -/

/-- The 76 bytes `write_header` builds for `e` stored under `path` with the synthesised inode `ino`. -/
def odcHdr (e : Entry) (path : List Nat) (ino : Int) : List Nat :=
  cpioHeaderBytes odcFormatOctal odcr_header_size (odcFields e ino ((path.length : Int) + 1) (cpioFilesize e))

theorem odcHdr_length (e : Entry) (path : List Nat) (ino : Int) : (odcHdr e path ino).length = 76 :=
  cpioHeaderBytes_length _ _ _ odcFormatOctal_length (odcFields_in e ino _ _)

theorem odcHdr_slice (e : Entry) (path : List Nat) (ino : Int) (f : CpioNum)
    (hf : f ∈ odcFields e ino ((path.length : Int) + 1) (cpioFilesize e)) :
    slice (odcHdr e path ino) f.off f.size = (odcFormatOctal f.v f.size).2 :=
  cpioHeader_slice odcFormatOctal _ _ odcFormatOctal_length (odcFields_in e ino _ _) (odcFields_disjoint e ino _ _) f hf

def odcCuts : List (Nat × Nat) :=
  [(0, 6), (6, 6), (12, 6), (18, 6), (24, 6), (30, 6), (36, 6), (42, 6), (48, 11), (59, 6), (65, 11)]

theorem odcCuts_fields (e : Entry) (ino pl fsz : Int) :
    ∀ c ∈ odcCuts, ∃ f ∈ odcFields e ino pl fsz, (f.off, f.size) = c := by
  intro c hc
  simp only [odcCuts, List.mem_cons, List.mem_nil_iff, or_false] at hc
  have hmem : ∀ i (hi : i < (odcFields e ino pl fsz).length), (odcFields e ino pl fsz)[i] ∈ odcFields e ino pl fsz :=
    fun i hi => List.getElem_mem hi
  have hl : (odcFields e ino pl fsz).length = 11 := rfl
  rcases hc with rfl | rfl | rfl | rfl | rfl | rfl | rfl | rfl | rfl | rfl | rfl
  · exact ⟨_, hmem 0 (by omega), rfl⟩
  · exact ⟨_, hmem 1 (by omega), rfl⟩
  · exact ⟨_, hmem 2 (by omega), rfl⟩
  · exact ⟨_, hmem 3 (by omega), rfl⟩
  · exact ⟨_, hmem 4 (by omega), rfl⟩
  · exact ⟨_, hmem 5 (by omega), rfl⟩
  · exact ⟨_, hmem 6 (by omega), rfl⟩
  · exact ⟨_, hmem 7 (by omega), rfl⟩
  · exact ⟨_, hmem 8 (by omega), rfl⟩
  · exact ⟨_, hmem 9 (by omega), rfl⟩
  · exact ⟨_, hmem 10 (by omega), rfl⟩

theorem odcHdr_magicOk (e : Entry) (path : List Nat) (ino : Int) : cpioMagicOk false (odcHdr e path ino) = true := by
  unfold cpioMagicOk
  simp only [Bool.false_eq_true, if_false, Bool.and_eq_true, beq_iff_eq]
  refine ⟨?_, ?_⟩
  · have h := odcHdr_slice e path ino ⟨29127, odcw_magic_offset, odcw_magic_size, false⟩ (List.mem_cons_self ..)
    have : slice (odcHdr e path ino) 0 6 = (odcHdr e path ino).take 6 := by simp [slice]
    rw [← this]
    exact h.trans (by decide)
  · have := all_of_tiles (fun c => decide (48 ≤ c ∧ c ≤ 55)) (odcHdr e path ino) odcCuts 0
      (by rw [odcHdr_length]; exact ⟨rfl, rfl, rfl, rfl, rfl, rfl, rfl, rfl, rfl, rfl, rfl, rfl⟩)
      (by
        intro c hc
        obtain ⟨f, hf, rfl⟩ := odcCuts_fields e ino _ _ c hc
        rw [odcHdr_slice e path ino f hf]
        exact odcFormatOctal_all _ _)
    simpa using this

/-- `write_header` answered plain ARCHIVE_OK: what it wrote and why. -/
theorem odcCore_ok (st : WState) (e : Entry) (path : List Nat)
    (hok : (odcWriteHeaderCore st e path).st = .ok) :
    ¬ (synthIno st e).1 > 262143 ∧
    (odcFormatOctal ((path.length : Int) + 1) odcw_namesize_size).1 = false ∧
    (odcFormatOctal (cpioFilesize e) odcw_filesize_size).1 = false ∧
    cpioOverflow odcFormatOctal (odcFields e (synthIno st e).1 ((path.length : Int) + 1) (cpioFilesize e)) = false ∧
    (odcWriteHeaderCore st e path).bytes = odcHdr e path (synthIno st e).1 ++ path ++ [0] ++ e.sym ∧
    (odcWriteHeaderCore st e path).state
      = { (synthIno st e).2 with remaining := (cpioSize e).toNat, padding := 0 } := by
  unfold odcWriteHeaderCore at hok ⊢
  simp only [] at hok ⊢
  by_cases h1 : (synthIno st e).1 > 262143
  · rw [if_pos h1] at hok; cases hok
  · rw [if_neg h1] at hok ⊢
    by_cases h2 : (odcFormatOctal ((path.length : Int) + 1) odcw_namesize_size).1 = true
    · rw [if_pos h2] at hok; cases hok
    · rw [if_neg h2] at hok ⊢
      by_cases h3 : (odcFormatOctal (cpioFilesize e) odcw_filesize_size).1 = true
      · rw [if_pos h3] at hok; cases hok
      · rw [if_neg h3] at hok ⊢
        simp only [] at hok ⊢
        cases hc : cpioOverflow odcFormatOctal (odcFields e (synthIno st e).1 ((path.length : Int) + 1) (cpioFilesize e)) with
        | true => rw [hc] at hok; cases hok
        | false =>
          refine ⟨h1, by simpa using h2, by simpa using h3, rfl, ?_, ?_⟩ <;> first | rfl | trivial

/-- Every field of an accepted header parses back to the value that was formatted. -/
theorem odc_fields_exact (e : Entry) (path : List Nat) (ino : Int)
    (h2 : (odcFormatOctal ((path.length : Int) + 1) odcw_namesize_size).1 = false)
    (h3 : (odcFormatOctal (cpioFilesize e) odcw_filesize_size).1 = false)
    (hov : cpioOverflow odcFormatOctal (odcFields e ino ((path.length : Int) + 1) (cpioFilesize e)) = false) :
    ∀ f ∈ odcFields e ino ((path.length : Int) + 1) (cpioFilesize e),
      ((cpioNum false (odcHdr e path ino) f.off f.size : Nat) : Int) = f.v := by
  intro f hf
  unfold cpioNum odcHdr
  simp only [Bool.false_eq_true, if_false]
  apply odc_field_roundtrip e ino _ _ f hf
  · unfold cpioOverflow at hov
    rw [List.any_eq_false] at hov
    have hcounted := hov f hf
    simp only [odcFields, List.mem_cons, List.mem_nil_iff, or_false] at hf
    rcases hf with rfl | rfl | rfl | rfl | rfl | rfl | rfl | rfl | rfl | rfl | rfl
    · decide
    all_goals try (simpa using hcounted)
    · rw [odcFormatOctal_eq]
      have hm : 0 ≤ ino % 262144 ∧ (ino % 262144).toNat < 8 ^ odcw_ino_size := by
        have : (8 : Nat) ^ odcw_ino_size = 262144 := by decide
        rw [this]; omega
      rw [if_pos hm]
    · exact h2
    · exact h3
  · simp only [odcFields, List.mem_cons, List.mem_nil_iff, or_false] at hf
    rcases hf with rfl | rfl | rfl | rfl | rfl | rfl | rfl | rfl | rfl | rfl | rfl <;> (simp only []; decide)

/-- The device number the odc header stores. -/
def odcRdev (e : Entry) : Int := if e.ftype = .blk ∨ e.ftype = .chr then makedev e.rdevmajor e.rdevminor else 0

/-- The entry `header_odc` builds from an accepted header. -/
def odcRB (e : Entry) (ino : Int) : RB :=
  rbSetMode (rdevSplit { ({} : RB) with
    dev := e.dev, ino := ino % 262144, uid := e.uid, gid := e.gid, nlink := e.nlink.toNat
    mtime := some e.mtime } (odcRdev e).toNat) e.mode

theorem odcParse_hdr (e : Entry) (path : List Nat) (ino : Int)
    (h2 : (odcFormatOctal ((path.length : Int) + 1) odcw_namesize_size).1 = false)
    (h3 : (odcFormatOctal (cpioFilesize e) odcw_filesize_size).1 = false)
    (hov : cpioOverflow odcFormatOctal (odcFields e ino ((path.length : Int) + 1) (cpioFilesize e)) = false) :
    odcParse (odcHdr e path ino) = (odcRB e ino, path.length + 1, (cpioFilesize e).toNat) := by
  have hx := odc_fields_exact e path ino h2 h3 hov
  have h_dev : ((cpioNum false (odcHdr e path ino) odcr_dev_offset odcr_dev_size : Nat) : Int) = e.dev :=
    hx ⟨e.dev, odcr_dev_offset, odcr_dev_size, true⟩ (.tail _ (.head _))
  have h_ino : ((cpioNum false (odcHdr e path ino) odcr_ino_offset odcr_ino_size : Nat) : Int) = ino % 262144 :=
    hx ⟨ino % 262144, odcr_ino_offset, odcr_ino_size, false⟩ (.tail _ (.tail _ (.head _)))
  have h_mode : ((cpioNum false (odcHdr e path ino) odcr_mode_offset odcr_mode_size : Nat) : Int) = (e.mode : Nat) :=
    hx ⟨e.mode, odcr_mode_offset, odcr_mode_size, true⟩ (.tail _ (.tail _ (.tail _ (.head _))))
  have h_uid : ((cpioNum false (odcHdr e path ino) odcr_uid_offset odcr_uid_size : Nat) : Int) = e.uid :=
    hx ⟨e.uid, odcr_uid_offset, odcr_uid_size, true⟩ (.tail _ (.tail _ (.tail _ (.tail _ (.head _)))))
  have h_gid : ((cpioNum false (odcHdr e path ino) odcr_gid_offset odcr_gid_size : Nat) : Int) = e.gid :=
    hx ⟨e.gid, odcr_gid_offset, odcr_gid_size, true⟩ (.tail _ (.tail _ (.tail _ (.tail _ (.tail _ (.head _))))))
  have h_nlink : ((cpioNum false (odcHdr e path ino) odcr_nlink_offset odcr_nlink_size : Nat) : Int) = e.nlink :=
    hx ⟨e.nlink, odcr_nlink_offset, odcr_nlink_size, true⟩ (.tail _ (.tail _ (.tail _ (.tail _ (.tail _ (.tail _ (.head _)))))))
  have h_rdev : ((cpioNum false (odcHdr e path ino) odcr_rdev_offset odcr_rdev_size : Nat) : Int) = odcRdev e :=
    hx ⟨odcRdev e, odcr_rdev_offset, odcr_rdev_size, true⟩
      (.tail _ (.tail _ (.tail _ (.tail _ (.tail _ (.tail _ (.tail _ (.head _))))))))
  have h_mt : ((cpioNum false (odcHdr e path ino) odcr_mtime_offset odcr_mtime_size : Nat) : Int) = e.mtime :=
    hx ⟨e.mtime, odcr_mtime_offset, odcr_mtime_size, true⟩
      (.tail _ (.tail _ (.tail _ (.tail _ (.tail _ (.tail _ (.tail _ (.tail _ (.head _)))))))))
  have h_ns : ((cpioNum false (odcHdr e path ino) odcr_namesize_offset odcr_namesize_size : Nat) : Int) = (path.length : Int) + 1 :=
    hx ⟨(path.length : Int) + 1, odcr_namesize_offset, odcr_namesize_size, false⟩
      (.tail _ (.tail _ (.tail _ (.tail _ (.tail _ (.tail _ (.tail _ (.tail _ (.tail _ (.head _))))))))))
  have h_fs : ((cpioNum false (odcHdr e path ino) odcr_filesize_offset odcr_filesize_size : Nat) : Int) = cpioFilesize e :=
    hx ⟨cpioFilesize e, odcr_filesize_offset, odcr_filesize_size, false⟩
      (.tail _ (.tail _ (.tail _ (.tail _ (.tail _ (.tail _ (.tail _ (.tail _ (.tail _ (.tail _ (.head _)))))))))))
  unfold odcParse odcRB
  simp only [h_dev, h_ino, h_uid, h_gid, h_mt]
  have e1 : cpioNum false (odcHdr e path ino) odcr_mode_offset odcr_mode_size = e.mode := by omega
  have e2 : cpioNum false (odcHdr e path ino) odcr_nlink_offset odcr_nlink_size = e.nlink.toNat := by omega
  have e3 : cpioNum false (odcHdr e path ino) odcr_namesize_offset odcr_namesize_size = path.length + 1 := by omega
  have e4 : cpioNum false (odcHdr e path ino) odcr_filesize_offset odcr_filesize_size = (cpioFilesize e).toNat := by omega
  have e5 : cpioNum false (odcHdr e path ino) odcr_rdev_offset odcr_rdev_size = (odcRdev e).toNat := by omega
  rw [e1, e2, e3, e4, e5]

theorem odcRB_ftype (e : Entry) (ino : Int) : (odcRB e ino).ftype = e.ftype.bits := by
  unfold odcRB rbSetMode; exact mode_ftype e

/-! ### one odc entry under the reader -/

def odcEntryRB (e : Entry) (path : List Nat) (ino : Int) : RB :=
  { odcRB e ino with path := path, size := some (((cpioFilesize e).toNat : Nat) : Int), sym := e.sym }

theorem cpioRead_odc_header (e : Entry) (path : List Nat) (ino : Int) (rest : List Nat)
    (h2 : (odcFormatOctal ((path.length : Int) + 1) odcw_namesize_size).1 = false)
    (h3 : (odcFormatOctal (cpioFilesize e) odcw_filesize_size).1 = false)
    (hov : cpioOverflow odcFormatOctal (odcFields e ino ((path.length : Int) + 1) (cpioFilesize e)) = false) :
    let bs := odcHdr e path ino ++ rest
    ¬ bs.length < cpioHsz false ∧ bs.take (cpioHsz false) = odcHdr e path ino ∧
    bs.drop (cpioHsz false) = rest ∧
    cpioParse false (odcHdr e path ino) = (odcRB e ino, path.length + 1, (cpioFilesize e).toNat) := by
  have hl := odcHdr_length e path ino
  have hh : cpioHsz false = 76 := rfl
  refine ⟨?_, ?_, ?_, ?_⟩
  · simp only [List.length_append, hl, hh]; omega
  · rw [hh, ← hl, List.take_left]
  · rw [hh, ← hl, List.drop_left]
  · unfold cpioParse; simp only [Bool.false_eq_true, if_false]; exact odcParse_hdr e path ino h2 h3 hov

/-- A stored entry that is not a symbolic link: header, name, NUL, body. -/
theorem cpioRead_odc_file (e : Entry) (path : List Nat) (ino : Int) (body more : List Nat) (fmt : Nat) (tab : LinkTab) (acc : List RB)
    (hp : noNul path)
    (h2 : (odcFormatOctal ((path.length : Int) + 1) odcw_namesize_size).1 = false)
    (h3 : (odcFormatOctal (cpioFilesize e) odcw_filesize_size).1 = false)
    (hov : cpioOverflow odcFormatOctal (odcFields e ino ((path.length : Int) + 1) (cpioFilesize e)) = false)
    (hnl : e.ftype ≠ .lnk) (hsym : e.sym = []) (hnt : path ≠ trailerName)
    (hbody : body.length = (cpioFilesize e).toNat) :
    cpioRead false false (odcHdr e path ino ++ ((path ++ [0]) ++ (body ++ more))) fmt tab acc
      = cpioRead false false more ARCHIVE_FORMAT_CPIO_POSIX (recordHardlink tab (odcEntryRB e path ino)).1
          ({ (recordHardlink tab (odcEntryRB e path ino)).2 with body := body } :: acc) := by
  obtain ⟨hlen, htake, hdrop, hparse⟩ := cpioRead_odc_header e path ino ((path ++ [0]) ++ (body ++ more)) h2 h3 hov
  rw [cpioRead]
  rw [if_neg hlen]
  simp only [htake, hdrop, odcHdr_magicOk, Bool.not_true, Bool.false_eq_true, if_false, hparse, cpioNamePad, Nat.add_zero]
  have hlen2 : ¬ ((path ++ [0]) ++ (body ++ more)).length < path.length + 1 := by
    simp only [List.length_append, List.length_cons, List.length_nil]; omega
  rw [if_neg hlen2]
  have hname : cstr (((path ++ [0]) ++ (body ++ more)).take (path.length + 1)) = path := cstr_path_nul path _ hp
  have hdrop2 : ((path ++ [0]) ++ (body ++ more)).drop (path.length + 1) = body ++ more := by
    have : (path ++ [0]).length = path.length + 1 := by simp
    rw [← this, List.drop_left]
  simp only [hname, hdrop2]
  have hft : ¬ (odcRB e ino).ftype = AE_IFLNK := by
    rw [odcRB_ftype, ftype_bits_lnk]; exact hnl
  rw [if_neg hft]
  have htr : ¬ (path.length + 1 = 11 ∧ path = trailerName) := fun h => hnt h.2
  rw [if_neg htr]
  simp only [false_and, if_false, cpioBodyPad, Bool.false_eq_true, Nat.add_zero]
  have hlen3 : ¬ (body ++ more).length < (cpioFilesize e).toNat := by
    simp only [List.length_append, hbody]; omega
  rw [if_neg hlen3]
  have hd3 : (body ++ more).drop (cpioFilesize e).toNat = more := by rw [← hbody, List.drop_left]
  have ht3 : (body ++ more).take (cpioFilesize e).toNat = body := by rw [← hbody, List.take_left]
  rw [hd3, ht3]
  have hrb : ({ odcRB e ino with path := path, size := some (((cpioFilesize e).toNat : Nat) : Int) } : RB)
      = odcEntryRB e path ino := by
    unfold odcEntryRB
    have : (odcRB e ino).sym = e.sym := by rw [hsym]; rfl
    rw [← this]
  rw [hrb]

/-- A stored symbolic link: header, name, NUL, the target as the body. -/
theorem cpioRead_odc_symlink (e : Entry) (path : List Nat) (ino : Int) (more : List Nat) (fmt : Nat) (tab : LinkTab) (acc : List RB)
    (hp : noNul path)
    (h2 : (odcFormatOctal ((path.length : Int) + 1) odcw_namesize_size).1 = false)
    (h3 : (odcFormatOctal (cpioFilesize e) odcw_filesize_size).1 = false)
    (hov : cpioOverflow odcFormatOctal (odcFields e ino ((path.length : Int) + 1) (cpioFilesize e)) = false)
    (hl : e.ftype = .lnk) (hsym : e.sym ≠ []) (hsn : noNul e.sym) (hsl : e.sym.length ≤ 1048576) :
    cpioRead false false (odcHdr e path ino ++ ((path ++ [0]) ++ (e.sym ++ more))) fmt tab acc
      = cpioRead false false more ARCHIVE_FORMAT_CPIO_POSIX (recordHardlink tab (odcEntryRB e path ino)).1
          ((recordHardlink tab (odcEntryRB e path ino)).2 :: acc) := by
  have hfs : (cpioFilesize e).toNat = e.sym.length := by
    unfold cpioFilesize; rw [if_pos hsym]; simp
  obtain ⟨hlen, htake, hdrop, hparse⟩ := cpioRead_odc_header e path ino ((path ++ [0]) ++ (e.sym ++ more)) h2 h3 hov
  rw [cpioRead]
  rw [if_neg hlen]
  simp only [htake, hdrop, odcHdr_magicOk, Bool.not_true, Bool.false_eq_true, if_false, hparse, cpioNamePad, Nat.add_zero]
  have hlen2 : ¬ ((path ++ [0]) ++ (e.sym ++ more)).length < path.length + 1 := by
    simp only [List.length_append, List.length_cons, List.length_nil]; omega
  rw [if_neg hlen2]
  have hname : cstr (((path ++ [0]) ++ (e.sym ++ more)).take (path.length + 1)) = path := cstr_path_nul path _ hp
  have hdrop2 : ((path ++ [0]) ++ (e.sym ++ more)).drop (path.length + 1) = e.sym ++ more := by
    have : (path ++ [0]).length = path.length + 1 := by simp
    rw [← this, List.drop_left]
  simp only [hname, hdrop2]
  have hft : (odcRB e ino).ftype = AE_IFLNK := by
    rw [odcRB_ftype, ftype_bits_lnk]; exact hl
  rw [if_pos hft, hfs]
  have hc1 : ¬ (e.sym.length > 1048576 ∨ (e.sym ++ more).length < e.sym.length) := by
    simp only [List.length_append]; omega
  rw [if_neg hc1]
  have ht : (e.sym ++ more).take e.sym.length = e.sym := List.take_left
  have hd : (e.sym ++ more).drop e.sym.length = more := List.drop_left
  simp only [ht, hd, cstr_full e.sym hsn, cpioBodyPad, Bool.false_eq_true, if_false, List.drop_zero]
  have hc2 : ¬ more.length < 0 := by omega
  rw [if_neg hc2]
  have hrb : ({ ({ odcRB e ino with path := path, size := some ((e.sym.length : Nat) : Int) } : RB)
      with sym := e.sym } : RB) = odcEntryRB e path ino := by
    unfold odcEntryRB; rw [hfs]
  rw [hrb]

/-! ### device numbers -/

/-- A device number that fits the 18-bit `c_rdev` field splits back into the major and minor it was
made of (for majors and minors that are `unsigned` values, as `makedev` takes them). -/
theorem makedev_split (M m : Int) (hM : 0 ≤ M ∧ M < 4294967296) (hm : 0 ≤ m ∧ m < 4294967296)
    (hfit : makedev M m < 262144) :
    ((devMajorN (makedev M m).toNat : Nat) : Int) = M ∧ ((devMinorN (makedev M m).toNat : Nat) : Int) = m := by
  obtain ⟨ma, rfl⟩ := Int.eq_ofNat_of_zero_le hM.1
  obtain ⟨mi, rfl⟩ := Int.eq_ofNat_of_zero_le hm.1
  have e1 : ((ma : Int) % 4294967296).toNat = ma := by omega
  have e2 : ((mi : Int) % 4294967296).toNat = mi := by omega
  have hN : makedev (ma : Int) (mi : Int)
      = ((ma % 4096 * 256 + ma / 4096 * 17592186044416 + mi % 256 + mi / 256 * 1048576 : Nat) : Int) := by
    unfold makedev; simp only [e1, e2]
  rw [hN] at hfit ⊢
  simp only [Int.toNat_natCast]
  have hfit' : ma % 4096 * 256 + ma / 4096 * 17592186044416 + mi % 256 + mi / 256 * 1048576 < 262144 := by omega
  have hma : ma / 4096 = 0 := by omega
  have hmi : mi / 256 = 0 := by omega
  unfold devMajorN devMinorN
  omega

/-! ### the synthesised inode numbers -/

/-- The inode numbers handed out so far are bounded by the number of entries seen. -/
def InoInv (st : WState) (n : Nat) : Prop := st.inoNext ≤ n ∧ ∀ p ∈ st.inoList, p.2 ≤ n

theorem synthIno_inv (st : WState) (e : Entry) (n : Nat) (h : InoInv st n) :
    (synthIno st e).1 ≤ ((n + 1 : Nat) : Int) ∧ InoInv (synthIno st e).2 (n + 1) := by
  obtain ⟨h1, h2⟩ := h
  have key : ∀ (i : Int) (s : WState), i ≤ ((n + 1 : Nat) : Int) → s.inoNext ≤ n + 1 → (∀ p ∈ s.inoList, p.2 ≤ n + 1) →
      (i, s).1 ≤ ((n + 1 : Nat) : Int) ∧ InoInv (i, s).2 (n + 1) := fun i s a b c => ⟨a, b, c⟩
  have h2' : ∀ p ∈ st.inoList, p.2 ≤ n + 1 := fun p hp => Nat.le_succ_of_le (h2 p hp)
  unfold synthIno
  split
  · exact key _ _ (by omega) (by omega) h2'
  · split
    · exact key _ _ (by omega) (by simp only []; omega) h2'
    · split
      · rename_i p hfind
        have hp := h2 p (List.mem_of_find?_eq_some hfind)
        exact key _ _ (by omega) (by omega) h2'
      · refine key _ _ (by omega) (by simp only []; omega) ?_
        intro p hp
        simp only [List.mem_append, List.mem_singleton] at hp
        rcases hp with hp | rfl
        · exact h2' p hp
        · simp only []; omega

theorem inoInv_empty : InoInv {} 0 := ⟨Nat.le_refl _, fun p hp => by cases hp⟩

/-! ### status of `write_header` -/

theorem cpioOverflow_odc_ino (e : Entry) (ino ino' pl fs : Int) :
    cpioOverflow odcFormatOctal (odcFields e ino pl fs) = cpioOverflow odcFormatOctal (odcFields e ino' pl fs) := by
  simp [cpioOverflow, odcFields]

/-- The status `write_header` gives when the inode numbers have not run out. -/
def odcStatusNF (e : Entry) (path : List Nat) : Status :=
  if (odcFormatOctal ((path.length : Int) + 1) odcw_namesize_size).1 then .failed
  else if (odcFormatOctal (cpioFilesize e) odcw_filesize_size).1 then .failed
  else if cpioOverflow odcFormatOctal (odcFields e 0 ((path.length : Int) + 1) (cpioFilesize e)) then .warn else .ok

theorem odcCore_st (st : WState) (e : Entry) (path : List Nat) (h : ¬ (synthIno st e).1 > 262143) :
    (odcWriteHeaderCore st e path).st = odcStatusNF e path := by
  unfold odcWriteHeaderCore odcStatusNF
  simp only []
  rw [if_neg h]
  split
  · rfl
  · split
    · rfl
    · simp only []
      rw [cpioOverflow_odc_ino e _ 0]

/-- `archive_write_odc_header` as a function of the state only through "inodes ran out". -/
theorem odcWriteHeader_st (st : WState) (e : Entry) (h : ¬ (synthIno st e).1 > 262143) :
    (odcWriteHeader st e).1 = match cpioPrecheck e false with
      | some s => s
      | none => odcStatusNF e (e.path.getD []) := by
  unfold odcWriteHeader
  cases cpioPrecheck e false with
  | some s => rfl
  | none => exact odcCore_st st e _ h

theorem synthIno_empty (e : Entry) : ¬ (synthIno {} e).1 > 262143 := by
  have := (synthIno_inv {} e 0 inoInv_empty).1
  omega

/-! ### the trailer -/

theorem synthIno_trailer (st : WState) : synthIno st trailerEntry = (0, st) := by
  unfold synthIno; rfl

theorem cpioRead_odc_trailer (st : WState) (more : List Nat) (fmt : Nat) (tab : LinkTab) (acc : List RB) :
    cpioRead false false ((closeBytes .odc st).2 ++ more) fmt tab acc
      = ⟨ARCHIVE_FORMAT_CPIO_POSIX, acc.reverse, .eof, 0⟩ := by
  have hi : ¬ (synthIno st trailerEntry).1 > 262143 := by rw [synthIno_trailer]; simp only []; omega
  have hok : (odcWriteHeaderCore st trailerEntry trailerName).st = .ok := by
    rw [odcCore_st st _ _ hi]; decide
  obtain ⟨_, h2, h3, hov, hbytes, _⟩ := odcCore_ok st trailerEntry trailerName hok
  rw [synthIno_trailer] at hov hbytes
  have hb : (closeBytes .odc st).2 = odcHdr trailerEntry trailerName 0 ++ (trailerName ++ [0]) := by
    show (odcWriteHeaderCore st trailerEntry trailerName).bytes = _
    rw [hbytes]
    have : trailerEntry.sym = [] := rfl
    simp only [this, List.append_nil, List.append_assoc]
  rw [hb, List.append_assoc]
  obtain ⟨hlen, htake, hdrop, hparse⟩ := cpioRead_odc_header trailerEntry trailerName 0 ((trailerName ++ [0]) ++ more) h2 h3 hov
  rw [cpioRead, if_neg hlen]
  simp only [htake, hdrop, odcHdr_magicOk, Bool.not_true, Bool.false_eq_true, if_false, hparse, cpioNamePad, Nat.add_zero]
  have hlen2 : ¬ ((trailerName ++ [0]) ++ more).length < trailerName.length + 1 := by
    simp only [List.length_append, List.length_cons, List.length_nil]; omega
  rw [if_neg hlen2]
  have hname : cstr (((trailerName ++ [0]) ++ more).take (trailerName.length + 1)) = trailerName :=
    cstr_path_nul trailerName _ noNul_trailerName
  simp only [hname]
  have hft : ¬ (odcRB trailerEntry 0).ftype = AE_IFLNK := by
    rw [odcRB_ftype]; decide
  rw [if_neg hft]
  have htr : trailerName.length + 1 = 11 ∧ True := ⟨by decide, trivial⟩
  rw [if_pos htr]

/-! ### one entry through the writer -/

/-- What the odc writer puts on the wire for an accepted entry. -/
def odcWire (e : Entry) (p : List Nat) (ino : Int) (chunks : List (List Nat)) : List Nat :=
  odcHdr e p ino ++ ((p ++ [0]) ++ (e.sym ++ entryBody (cpioSize e).toNat chunks))

theorem odcWriteHeader_ok (st : WState) (e : Entry) (hok : (odcWriteHeader st e).1 = .ok) :
    ∃ p, e.path = some p ∧ p ≠ [] ∧
      (odcWriteHeaderCore st e p).st = .ok ∧
      odcWriteHeader st e = (.ok, (odcWriteHeaderCore st e p).bytes, (odcWriteHeaderCore st e p).state) := by
  unfold odcWriteHeader at hok ⊢
  cases hpre : cpioPrecheck e false with
  | some s =>
    rw [hpre] at hok
    simp only [] at hok
    unfold cpioPrecheck at hpre
    by_cases h1 : e.ftype = .none ∧ e.hard = []
    · rw [if_pos h1] at hpre; cases hpre; cases hok
    · rw [if_neg h1] at hpre
      cases hp : e.path with
      | none => rw [hp] at hpre; cases hpre; cases hok
      | some p =>
        rw [hp] at hpre
        cases p with
        | nil => cases hpre; cases hok
        | cons c r =>
          simp only [] at hpre
          split at hpre
          · cases hpre
          · split at hpre
            · cases hpre; cases hok
            · split at hpre <;> cases hpre; cases hok
  | none =>
    rw [hpre] at hok
    simp only [] at hok ⊢
    unfold cpioPrecheck at hpre
    by_cases h1 : e.ftype = .none ∧ e.hard = []
    · rw [if_pos h1] at hpre; cases hpre
    · rw [if_neg h1] at hpre
      cases hp : e.path with
      | none => rw [hp] at hpre; cases hpre
      | some p =>
        rw [hp] at hpre hok
        cases p with
        | nil => cases hpre
        | cons c r =>
          refine ⟨c :: r, rfl, by simp, hok, ?_⟩
          simp only [Option.getD_some] at hok ⊢
          rw [← hok]

theorem writeEntry_odc_ok (st : WState) (e : Entry) (chunks : List (List Nat)) (p : List Nat)
    (hcore : (odcWriteHeaderCore st e p).st = .ok)
    (hw : odcWriteHeader st e = (.ok, (odcWriteHeaderCore st e p).bytes, (odcWriteHeaderCore st e p).state)) :
    (writeEntry .odc st e chunks).2.2
      = (odcWire e p (synthIno st e).1 chunks, { (synthIno st e).2 with remaining := 0, padding := 0 }) := by
  obtain ⟨_, _, _, _, hbytes, hstate⟩ := odcCore_ok st e p hcore
  unfold writeEntry
  simp only [writeHeader, hw]
  have hne : ¬(Status.ok = Status.failed ∨ Status.ok = Status.fatal) := by decide
  rw [if_neg hne]
  rw [hstate]
  obtain ⟨h1, h2⟩ := foldData_spec chunks 0 []
    { (synthIno st e).2 with remaining := (cpioSize e).toNat, padding := 0 }
  simp only [List.nil_append] at h1
  simp only [finishEntry, h1, h2, hbytes]
  unfold odcWire entryBody
  simp only [List.append_assoc, List.length_take, Nat.add_zero]

/-- A header refused with ARCHIVE_FAILED wrote nothing; the inode counter may have advanced. -/
theorem odcWriteHeader_failed (st : WState) (e : Entry) (h : (odcWriteHeader st e).1 = .failed) :
    odcWriteHeader st e = (.failed, [], st) ∨ odcWriteHeader st e = (.failed, [], (synthIno st e).2) := by
  unfold odcWriteHeader at h ⊢
  cases hpre : cpioPrecheck e false with
  | some s => rw [hpre] at h; simp only [] at h ⊢; left; rw [h]
  | none =>
    rw [hpre] at h
    simp only [] at h ⊢
    right
    unfold odcWriteHeaderCore at h ⊢
    simp only [] at h ⊢
    split
    · rename_i hf; rw [if_pos hf] at h; cases h
    · rename_i hf
      rw [if_neg hf] at h
      split
      · rfl
      · rename_i h2
        rw [if_neg h2] at h
        split
        · rfl
        · rename_i h3
          rw [if_neg h3] at h
          simp only [] at h
          split at h <;> cases h

/-! ### agreement with the format description -/

theorem odcFormatOctal_fits (v : Int) (d : Nat) (h : (odcFormatOctal v d).1 = false) : 0 ≤ v ∧ v.toNat < 8 ^ d := by
  rw [odcFormatOctal_eq] at h
  by_cases hh : 0 ≤ v ∧ v.toNat < 8 ^ d
  · exact hh
  · rw [if_neg hh] at h; cases h

theorem odc_rdev_fits (e : Entry) (ino pl fs : Int)
    (hov : cpioOverflow odcFormatOctal (odcFields e ino pl fs) = false) : odcRdev e < 262144 := by
  unfold cpioOverflow at hov
  rw [List.any_eq_false] at hov
  have := hov ⟨odcRdev e, odcw_rdev_offset, odcw_rdev_size, true⟩
    (.tail _ (.tail _ (.tail _ (.tail _ (.tail _ (.tail _ (.tail _ (.head _))))))))
  simp only [Bool.true_and, Bool.not_eq_true] at this
  have hf := odcFormatOctal_fits _ _ this
  have : (8 : Nat) ^ odcw_rdev_size = 262144 := by decide
  omega

/-- The entry read back from an accepted odc header is the written one on every field odc carries. -/
theorem odc_agrees (e : Entry) (p : List Nat) (ino : Int) (hpath : e.path = some p)
    (h3 : (odcFormatOctal (cpioFilesize e) odcw_filesize_size).1 = false)
    (hov : cpioOverflow odcFormatOctal (odcFields e ino ((p.length : Int) + 1) (cpioFilesize e)) = false)
    (hsymiff : e.sym ≠ [] ↔ e.ftype = .lnk)
    (hM : 0 ≤ e.rdevmajor ∧ e.rdevmajor < 4294967296) (hm : 0 ≤ e.rdevminor ∧ e.rdevminor < 4294967296)
    (hd body : List Nat) :
    (norm .odc e).mismatch { ({ odcEntryRB e p ino with hard := hd } : RB) with body := body } 0 = none := by
  have hfs := (odcFormatOctal_fits _ _ h3).1
  have hm1 := mode_ftype e
  have hm2 := mode_perm e
  have hcast : (((cpioFilesize e).toNat : Nat) : Int) = cpioFilesize e := Int.toNat_of_nonneg hfs
  have hperm : e.perm % 4096 % 4096 = e.perm % 4096 := Nat.mod_mod _ _
  have hrfit := odc_rdev_fits e ino _ _ hov
  have hmodes : e.ftype.bits = e.mode % 65536 / 4096 * 4096 ∧ e.perm % 4096 = e.mode % 4294967296 - e.mode % 65536 / 4096 * 4096 := by
    have hlt : e.mode < 4294967296 := by
      unfold Entry.mode
      have hp : e.perm % 4096 < 4096 := Nat.mod_lt _ (by decide)
      cases e.ftype <;>
        simp only [FType.bits, AE_IFREG, AE_IFDIR, AE_IFLNK, AE_IFCHR, AE_IFBLK, AE_IFIFO, AE_IFSOCK] <;> omega
    rw [Nat.mod_eq_of_lt hlt] at hm1 hm2
    rw [Nat.mod_eq_of_lt hlt]
    exact ⟨hm1.symm, hm2.symm⟩
  have hrdev : (e.ftype = .chr ∨ e.ftype = .blk) →
      ((devMajorN (odcRdev e).toNat : Nat) : Int) = e.rdevmajor ∧ ((devMinorN (odcRdev e).toNat : Nat) : Int) = e.rdevminor := by
    intro hdev
    have hr : odcRdev e = makedev e.rdevmajor e.rdevminor := by
      unfold odcRdev; rw [if_pos (by rcases hdev with h | h <;> simp [h])]
    rw [hr] at hrfit ⊢
    exact makedev_split _ _ hM hm hrfit
  by_cases hsym : e.sym = []
  · have hnl : e.ftype ≠ .lnk := fun h => (hsymiff.2 h) hsym
    have hsz : cpioFilesize e = if e.ftype = .reg then e.sizeV else 0 := by
      unfold cpioFilesize cpioSize; simp only [hsym, ne_eq, not_true_eq_false, if_false]
      by_cases hr : e.ftype = .reg <;> simp [hr]
    by_cases hdev : e.ftype = .chr ∨ e.ftype = .blk
    · obtain ⟨r1, r2⟩ := hrdev hdev
      have hnr : e.ftype ≠ .reg := by rcases hdev with h | h <;> simp [h]
      simp [Exp.mismatch, norm, chkField, hpath, normPath, carriesHard, isTar, carriesIds, carriesNames, carriesRdev,
        permMask, isCpio, odcEntryRB, odcRB, rbSetMode, rdevSplit, hsym, hnl, hcast, hsz, hperm, hdev, r1, r2, hnr, hmodes]
      rw [← hmodes.2]; exact Nat.mod_lt _ (by decide)
    · have h1 : e.ftype ≠ .chr := fun h => hdev (Or.inl h)
      have h2 : e.ftype ≠ .blk := fun h => hdev (Or.inr h)
      simp [Exp.mismatch, norm, chkField, hpath, normPath, carriesHard, isTar, carriesIds, carriesNames, carriesRdev,
        permMask, isCpio, odcEntryRB, odcRB, rbSetMode, rdevSplit, hsym, hnl, hcast, hsz, hperm, h1, h2, hmodes]
      cases hf : e.ftype <;> simp_all
  · have hl : e.ftype = .lnk := hsymiff.1 hsym
    have hsz : cpioFilesize e = (e.sym.length : Int) := by unfold cpioFilesize; rw [if_pos hsym]
    simp [Exp.mismatch, norm, chkField, hpath, normPath, carriesHard, isTar, carriesIds, carriesNames, carriesRdev,
      permMask, isCpio, odcEntryRB, odcRB, rbSetMode, rdevSplit, hsym, hl, hcast, hsz, hperm]
    rw [hl] at hmodes
    exact hmodes

/-! ### a whole odc stream -/

/-- Entries the odc theorems speak about (as for newc; device majors and minors are `unsigned`
values, which is what `makedev` takes). -/
def OdcEntryOK (e : Entry) : Prop :=
  wfEntry e ∧ (e.sym ≠ [] ↔ e.ftype = .lnk) ∧ e.sym.length ≤ 1048576 ∧ e.path ≠ some trailerName ∧
  (0 ≤ e.rdevmajor ∧ e.rdevmajor < 4294967296) ∧ (0 ≤ e.rdevminor ∧ e.rdevminor < 4294967296) ∧
  ((odcWriteHeader {} e).1 = .ok ∨ (odcWriteHeader {} e).1 = .failed)

def odcAccepted (e : Entry) : Bool := (odcWriteHeader {} e).1 == .ok

theorem inoInv_mono (st : WState) (n : Nat) (h : InoInv st n) : InoInv st (n + 1) :=
  ⟨Nat.le_succ_of_le h.1, fun p hp => Nat.le_succ_of_le (h.2 p hp)⟩

theorem cpioRead_odc_entries (es : List (Entry × List (List Nat))) (hes : ∀ ec ∈ es, OdcEntryOK ec.1)
    (st : WState) (n : Nat) (hinv : InoInv st n) (hn : n + es.length ≤ 262143)
    (stT : WState) (pad : List Nat) (fmt : Nat) (tab : LinkTab) (acc : List RB) :
    ∃ rbs, cpioRead false false ((writeEntries .odc st es).1 ++ ((closeBytes .odc stT).2 ++ pad)) fmt tab acc
        = ⟨ARCHIVE_FORMAT_CPIO_POSIX, acc.reverse ++ rbs, .eof, 0⟩ ∧
      AllPairs (CpioReadsBack .odc) (es.filter fun ec => odcAccepted ec.1) rbs := by
  induction es generalizing st n fmt tab acc with
  | nil =>
    refine ⟨[], ?_, AllPairs.nil⟩
    simp only [writeEntries, List.nil_append, List.append_nil]
    exact cpioRead_odc_trailer stT pad fmt tab acc
  | cons ec r ih =>
    obtain ⟨e, chunks⟩ := ec
    obtain ⟨hwf, hsymiff, hsl, hnt, hM, hm, hst⟩ := hes (e, chunks) (List.mem_cons_self ..)
    have hr : ∀ ec ∈ r, OdcEntryOK ec.1 := fun ec h => hes ec (List.mem_cons_of_mem _ h)
    simp only [List.length_cons] at hn
    obtain ⟨hile, hinv'⟩ := synthIno_inv st e n hinv
    have hino : ¬ (synthIno st e).1 > 262143 := by omega
    have hsteq : (odcWriteHeader st e).1 = (odcWriteHeader {} e).1 := by
      rw [odcWriteHeader_st st e hino, odcWriteHeader_st {} e (synthIno_empty e)]
    simp only [writeEntries]
    rw [← hsteq] at hst
    rcases hst with hok | hfail
    · -- accepted
      have hacc : odcAccepted e = true := by
        unfold odcAccepted; rw [← hsteq, hok]; rfl
      obtain ⟨p, hp, hpne, hcore, hw⟩ := odcWriteHeader_ok st e hok
      obtain ⟨_, h2, h3, hov, _, _⟩ := odcCore_ok st e p hcore
      have hwe := writeEntry_odc_ok st e chunks p hcore hw
      have hpn : noNul p := wfStr_noNul (hwf.1 p hp)
      have hptr : p ≠ trailerName := fun h => hnt (by rw [hp, h])
      have hinv'' : InoInv { (synthIno st e).2 with remaining := 0, padding := 0 } (n + 1) := ⟨hinv'.1, hinv'.2⟩
      rw [hwe]
      simp only []
      by_cases hl : e.ftype = .lnk
      · have hsym : e.sym ≠ [] := hsymiff.2 hl
        have hcs : cpioSize e = 0 := by unfold cpioSize; rw [hl]; simp
        obtain ⟨rbs, hread, hall⟩ := ih hr { (synthIno st e).2 with remaining := 0, padding := 0 } (n + 1) hinv'' (by omega)
          ARCHIVE_FORMAT_CPIO_POSIX
          (recordHardlink tab (odcEntryRB e p (synthIno st e).1)).1 ((recordHardlink tab (odcEntryRB e p (synthIno st e).1)).2 :: acc)
        obtain ⟨hd, hhd⟩ := recordHardlink_snd tab (odcEntryRB e p (synthIno st e).1)
        refine ⟨(recordHardlink tab (odcEntryRB e p (synthIno st e).1)).2 :: rbs, ?_, ?_⟩
        · have hshape : odcWire e p (synthIno st e).1 chunks
              ++ (writeEntries .odc { (synthIno st e).2 with remaining := 0, padding := 0 } r).1
              ++ ((closeBytes .odc stT).2 ++ pad)
              = odcHdr e p (synthIno st e).1 ++ ((p ++ [0]) ++ (e.sym ++
                  ((writeEntries .odc { (synthIno st e).2 with remaining := 0, padding := 0 } r).1 ++ ((closeBytes .odc stT).2 ++ pad)))) := by
            unfold odcWire
            rw [hcs]
            simp only [Int.toNat_zero, entryBody_zero, List.append_nil, List.append_assoc]
          rw [hshape, cpioRead_odc_symlink e p _ _ fmt tab acc hpn h2 h3 hov hl hsym (wfStr_noNul hwf.2.2.2.1) hsl, hread]
          simp only [List.reverse_cons, List.append_assoc, List.singleton_append]
        · rw [List.filter_cons, if_pos (by simpa using hacc)]
          refine AllPairs.cons ⟨?_, ?_, ?_⟩ hall
          · rw [hhd]
            exact odc_agrees e p _ hp h3 hov hsymiff hM hm hd (odcEntryRB e p (synthIno st e).1).body
          · rw [hhd, hcs]; simp only [Int.toNat_zero, entryBody_zero]; rfl
          · rw [hhd]; rfl
      · have hsym : e.sym = [] := by
          by_cases h : e.sym = []
          · exact h
          · exact absurd (hsymiff.1 h) hl
        have hfs : cpioFilesize e = cpioSize e := by unfold cpioFilesize; rw [hsym]; simp
        obtain ⟨rbs, hread, hall⟩ := ih hr { (synthIno st e).2 with remaining := 0, padding := 0 } (n + 1) hinv'' (by omega)
          ARCHIVE_FORMAT_CPIO_POSIX
          (recordHardlink tab (odcEntryRB e p (synthIno st e).1)).1
          ({ (recordHardlink tab (odcEntryRB e p (synthIno st e).1)).2 with body := entryBody (cpioSize e).toNat chunks } :: acc)
        obtain ⟨hd, hhd⟩ := recordHardlink_snd tab (odcEntryRB e p (synthIno st e).1)
        refine ⟨{ (recordHardlink tab (odcEntryRB e p (synthIno st e).1)).2 with body := entryBody (cpioSize e).toNat chunks } :: rbs, ?_, ?_⟩
        · have hshape : odcWire e p (synthIno st e).1 chunks
              ++ (writeEntries .odc { (synthIno st e).2 with remaining := 0, padding := 0 } r).1
              ++ ((closeBytes .odc stT).2 ++ pad)
              = odcHdr e p (synthIno st e).1 ++ ((p ++ [0]) ++ (entryBody (cpioSize e).toNat chunks ++
                  ((writeEntries .odc { (synthIno st e).2 with remaining := 0, padding := 0 } r).1 ++ ((closeBytes .odc stT).2 ++ pad)))) := by
            unfold odcWire
            rw [hsym]
            simp only [List.nil_append, List.append_assoc]
          rw [hshape, cpioRead_odc_file e p _ _ _ fmt tab acc hpn h2 h3 hov hl hsym hptr
            (by rw [entryBody_length, hfs]), hread]
          simp only [List.reverse_cons, List.append_assoc, List.singleton_append]
        · rw [List.filter_cons, if_pos (by simpa using hacc)]
          refine AllPairs.cons ⟨?_, rfl, ?_⟩ hall
          · rw [hhd]
            exact odc_agrees e p _ hp h3 hov hsymiff hM hm hd _
          · rw [hhd]; rfl
    · -- refused: nothing was written (the inode counter may have moved)
      have hacc : odcAccepted e = false := by
        unfold odcAccepted; rw [← hsteq, hfail]; rfl
      rcases odcWriteHeader_failed st e hfail with hw | hw
      · have hwe := writeEntry_refused .odc st e chunks hw
        obtain ⟨rbs, hread, hall⟩ := ih hr st (n + 1) (inoInv_mono st n hinv) (by omega) fmt tab acc
        refine ⟨rbs, ?_, ?_⟩
        · rw [hwe]; simp only [List.nil_append]; exact hread
        · rw [List.filter_cons, if_neg (by simp [hacc])]; exact hall
      · have hwe : (writeEntry .odc st e chunks).2.2 = ([], (synthIno st e).2) := by
          unfold writeEntry; simp [writeHeader, hw]
        obtain ⟨rbs, hread, hall⟩ := ih hr (synthIno st e).2 (n + 1) hinv' (by omega) fmt tab acc
        refine ⟨rbs, ?_, ?_⟩
        · rw [hwe]; simp only [List.nil_append]; exact hread
        · rw [List.filter_cons, if_neg (by simp [hacc])]; exact hall

end LA.Codec
