/-
Helper lemmas for C04, part 10: `check_symlinks_fsobj` (the component loop
`LA.Xtr.checkLoop`) on a tree.
-/
import LA.Lemmas.XtrHoare
import LA.Lemmas.PathFam
set_option linter.unusedSimpArgs false
set_option linter.unusedVariables false
namespace LA.Xtr
open LA.FS LA.PathClean

/-- A real name: not empty, no '/', not "." or "..". -/
def GoodName (c : Name) : Prop := c ≠ [] ∧ (∀ x ∈ c, x ≠ SLASH) ∧ c ≠ DOTN ∧ c ≠ DOTDOTN

theorem good_single {c : Name} (h : GoodName c) : Good c := by
  intro x hx
  rw [splitSlash_clean h.2.1] at hx
  simp at hx; subst hx
  exact ⟨h.1, h.2.2.1, h.2.2.2⟩

theorem compsOf_single {c : Name} (h : GoodName c) : compsOf c = [c] := by
  rw [compsOf_good (good_single h), splitSlash_clean h.2.1]

theorem locate_single (fs : FS) (D : List Name) {c : Name} (h : GoodName c) :
    locate0 fs D c = match get fs.root D with
      | some (.dir ..) => if c.length > nameMax then .error .ENAMETOOLONG else .ok (.entry D c)
      | some (.file _) => .error .ENOTDIR
      | none => .error .ENOENT := by
  have hg := good_single h
  unfold locate0
  simp only [hg.ne_nil, if_false, isAbs_good hg, compsOf_single h, List.getLast?_singleton,
    h.2.2.1, h.2.2.2, trailingSlash_good hg, Bool.false_eq_true, or_self, List.dropLast_singleton]
  rw [walk]
  simp only []
  cases get fs.root D with
  | none => rfl
  | some t => cases t <;> rfl

/-- `fstatat(dfd, c, AT_SYMLINK_NOFOLLOW)` on a single name, in a directory. -/
theorem lookup_single (fs : FS) (D : List Name) {c : Name} (h : GoodName c) {tD : Tree}
    (hD : get fs.root D = some tD) (hdir : tD.isDir = true) :
    lookupNoFollow fs D c =
      if c.length > nameMax then .error .ENAMETOOLONG
      else match tD.child c with
        | some t => .ok (D ++ [c], t)
        | none => .error .ENOENT := by
  unfold lookupNoFollow
  by_cases hbig : c.length ≥ pathMax
  · have : c.length > nameMax := by unfold pathMax at hbig; unfold nameMax; omega
    simp only [locate, hbig, if_true, this]
  rw [locate_of_lt (by omega), locate_single fs D h, hD]
  cases tD with
  | file i => simp [Tree.isDir] at hdir
  | dir m mt es =>
    simp only []
    by_cases hl : c.length > nameMax
    · simp [hl]
    · simp only [hl, if_false, hD, Option.bind_some]
      cases (Tree.dir m mt es).child c <;> rfl

/-- The components between `head` and the current one: the first of them is
absent from the directory the descriptor is on, or a non-directory that is not a symlink. -/
def HdInv (pr : Proc) (D : List Name) (hd : List Name) : Prop :=
  hd = [] ∨ ∃ h hd', hd = h :: hd' ∧ ∀ tD, get pr.fs.root D = some tD →
    (tD.child h = none ∨ ∃ t, tD.child h = some t ∧ t.isDir = false ∧ isLnk pr.fs t = false)

theorem good_join {L : List Name} (hL : L ≠ []) (h : ∀ x ∈ L, GoodName x) : Good (joinSlash L) := by
  intro x hx
  rw [split_join L hL (fun c hc => (h c hc).2.1)] at hx
  exact ⟨(h x hx).1, (h x hx).2.2.1, (h x hx).2.2.2⟩

theorem compsOf_join {L : List Name} (hL : L ≠ []) (h : ∀ x ∈ L, GoodName x) : compsOf (joinSlash L) = L := by
  rw [compsOf_good (good_join hL h), split_join L hL (fun c hc => (h c hc).2.1)]

/-- `fstatat(dfd, c, …)` when the descriptor is not on a directory (any more). -/
theorem lookup_single_nodir (fs : FS) (D : List Name) {c : Name} (h : GoodName c)
    (hD : ∀ t, get fs.root D = some t → t.isDir = false) : ∃ e, lookupNoFollow fs D c = .error e := by
  unfold lookupNoFollow
  by_cases hbig : c.length ≥ pathMax
  · exact ⟨.ENAMETOOLONG, by simp only [locate, hbig, if_true]⟩
  rw [locate_of_lt (by omega), locate_single fs D h]
  cases hg : get fs.root D with
  | none => exact ⟨_, rfl⟩
  | some t =>
    cases t with
    | file i => exact ⟨_, rfl⟩
    | dir m mt es => have := hD _ hg; simp [Tree.isDir] at this

theorem noLinkT_file (fs : FS) (i : Nat) (cs : List Name) : NoLinkT fs (.file i) cs := by
  cases cs with
  | nil => trivial
  | cons c r => simp [NoLinkT, Tree.child]

/-- With a non-empty `hd` the `fstatat` cannot succeed. -/
theorem lookup_hd_err (pr : Proc) (D : List Name) (h : Name) (hd' : List Name) (cc : Name)
    (hg : ∀ x ∈ (h :: hd') ++ [cc], GoodName x)
    (hinv : ∀ tD, get pr.fs.root D = some tD →
      (tD.child h = none ∨ ∃ t, tD.child h = some t ∧ t.isDir = false ∧ isLnk pr.fs t = false)) :
    ∃ e, lookupNoFollow pr.fs D (joinSlash ((h :: hd') ++ [cc])) = .error e := by
  have hne : (h :: hd') ++ [cc] ≠ [] := by simp
  have hG := good_join hne hg
  have hcomps := compsOf_join hne hg
  have hR := rel_good hG
  have hgh : GoodName h := hg h (by simp)
  unfold lookupNoFollow
  by_cases hbig : (joinSlash ((h :: hd') ++ [cc])).length ≥ pathMax
  · exact ⟨.ENAMETOOLONG, by simp only [locate, hbig, if_true]⟩
  rw [locate_of_lt (by omega)]
  unfold locate0
  simp only [hG.ne_nil, if_false, hR.notAbs, hcomps]
  have hlast : ((h :: hd') ++ [cc]).getLast? = some cc := by
    rw [List.getLast?_append]; simp
  have hgc : GoodName cc := hg cc (by simp)
  simp only [hlast, hgc.2.2.1, hgc.2.2.2, hR.noTrail, Bool.false_eq_true, or_self, if_false]
  have hdl : ((h :: hd') ++ [cc]).dropLast = h :: hd' := by
    rw [List.dropLast_append_of_ne_nil (by simp)]; simp
  rw [hdl, walk]
  cases hD : get pr.fs.root D with
  | none => exact ⟨_, rfl⟩
  | some tD =>
    cases tD with
    | file i => exact ⟨_, rfl⟩
    | dir m mt es =>
      simp only [hgh.2.2.1, hgh.2.2.2, if_false]
      by_cases hl : h.length > nameMax
      · simp only [hl, if_true]; exact ⟨_, rfl⟩
      · simp only [hl, if_false]
        rcases hinv _ hD with hn | ⟨t, ht, htd, htl⟩
        · simp only [hn]; exact ⟨_, rfl⟩
        · simp only [ht]
          cases t with
          | dir => simp [Tree.isDir] at htd
          | file i =>
            simp only []
            cases hf : pr.fs.files i with
            | none => exact ⟨_, rfl⟩
            | some nd =>
              cases nd with
              | lnk tg => simp [isLnk, hf] at htl
              | reg d m' mt' =>
                simp only []
                by_cases hr : hd' = []
                · subst hr
                  simp only [if_true]
                  have : get pr.fs.root (D ++ [h]) = some (.file i) := by rw [get_snoc, hD]; exact ht
                  simp only [this]; exact ⟨_, rfl⟩
                · simp only [hr, if_false]; exact ⟨_, rfl⟩
              | fifo m' mt' =>
                simp only []
                by_cases hr : hd' = []
                · subst hr
                  simp only [if_true]
                  have : get pr.fs.root (D ++ [h]) = some (.file i) := by rw [get_snoc, hD]; exact ht
                  simp only [this]; exact ⟨_, rfl⟩
                · simp only [hr, if_false]; exact ⟨_, rfl⟩


/-- What one run of the loop guarantees. -/
structure LoopPost (c : Ctx) (D : List Name) (target : List Name) (pr : Proc) (r : St) (pr' : Proc) : Prop where
  keep : ∀ q', Sem c q' pr → Sem c q' pr'
  dfd : ∃ D', pr'.dfd = some D'
  dirs : ∀ P t, P <+: D → get pr.fs.root P = some t → t.isDir = true →
    ∃ t', get pr'.fs.root P = some t' ∧ t'.isDir = true
  sound : r = .ok → NoLinkAt pr'.fs D target

theorem loopPost_refl (c : Ctx) (D target : List Name) (pr : Proc) (r : St) (hd : ∃ D', pr.dfd = some D')
    (hs : r = .ok → NoLinkAt pr.fs D target) : LoopPost c D target pr r pr :=
  ⟨fun _ h => h, hd, fun _ t _ h1 h2 => ⟨t, h1, h2⟩, hs⟩

/-- `unlinkat(dfd, c, 0)` of a non-directory entry of the directory the descriptor is on. -/
theorem doUnlink_single (pr : Proc) (D : List Name) {cc : Name} (hc : GoodName cc) (hl : ¬ cc.length > nameMax)
    {tD : Tree} (hD : get pr.fs.root D = some tD) (hdir : tD.isDir = true) {i : Nat}
    (hch : tD.child cc = some (.file i)) :
    doUnlink pr D cc = (.ok, { pr with fs := delAt pr.fs D cc }) := by
  unfold doUnlink
  rw [locate_of_lt (by unfold pathMax; unfold nameMax at hl; omega), locate_single pr.fs D hc, hD]
  cases tD with
  | file j => simp [Tree.isDir] at hdir
  | dir m mt es =>
    simp only [hl, if_false, hD, Option.bind_some, hch]

theorem dirs_delAt (fs : FS) (D : List Name) (n : Name) (P : List Name) (t : Tree) (hP : P <+: D)
    (h1 : get fs.root P = some t) (h2 : t.isDir = true) :
    ∃ t', get (delAt fs D n).root P = some t' ∧ t'.isDir = true := by
  obtain ⟨r, rfl⟩ := hP
  simp only [delAt]
  rw [get_modify_prefix, h1]
  exact ⟨_, rfl, by rw [isDir_modify _ (shapeKeeping_del_touch n)]; exact h2⟩


def loopTarget (ln : Bool) (l : List Name) : List Name := if ln then l.dropLast else l

theorem target_cases (ln : Bool) (cc : Name) (rest : List Name) :
    loopTarget ln (cc :: rest) = [] ∨ ∃ tl, loopTarget ln (cc :: rest) = cc :: tl := by
  unfold loopTarget
  cases ln with
  | false => exact Or.inr ⟨rest, rfl⟩
  | true =>
    cases rest with
    | nil => exact Or.inl rfl
    | cons c2 r => exact Or.inr ⟨(c2 :: r).dropLast, rfl⟩

theorem target_cons (ln : Bool) (cc c2 : Name) (rest : List Name) :
    loopTarget ln (cc :: c2 :: rest) = cc :: loopTarget ln (c2 :: rest) := by
  unfold loopTarget; cases ln <;> rfl

/-- NoLinkAt for a target whose first component is absent / a non-symlink non-directory / anything when the target is empty. -/
theorem noLinkAt_first (fs : FS) (D : List Name) (ln : Bool) (cc : Name) (rest : List Name) {tD : Tree}
    (hD : get fs.root D = some tD)
    (h : tD.child cc = none ∨ ∃ t, tD.child cc = some t ∧ t.isDir = false ∧ isLnk fs t = false) :
    NoLinkAt fs D (loopTarget ln (cc :: rest)) := by
  intro t ht
  rw [hD] at ht; simp only [Option.some.injEq] at ht; subst ht
  rcases target_cases ln cc rest with h0 | ⟨tl, h1⟩
  · rw [h0]; trivial
  · rw [h1]
    simp only [NoLinkT]
    rcases h with hn | ⟨t, ht, htd, htl⟩
    · simp [hn]
    · simp [ht, htd, htl]

theorem noLinkAt_hd (pr : Proc) (D : List Name) (ln : Bool) (h : Name) (l : List Name)
    (hinv : ∀ tD, get pr.fs.root D = some tD →
      (tD.child h = none ∨ ∃ t, tD.child h = some t ∧ t.isDir = false ∧ isLnk pr.fs t = false)) :
    NoLinkAt pr.fs D (loopTarget ln (h :: l)) := by
  intro t ht
  exact noLinkAt_first pr.fs D ln h l ht (hinv t ht) t ht


theorem loopPost_trans {c : Ctx} {D D2 : List Name} {tg tg2 : List Name} {pr pr1 pr2 : Proc} {r r2 : St}
    (h1k : ∀ q', Sem c q' pr → Sem c q' pr1)
    (h1d : ∀ P t, P <+: D → get pr.fs.root P = some t → t.isDir = true →
      ∃ t', get pr1.fs.root P = some t' ∧ t'.isDir = true)
    (hDD : D <+: D2)
    (h2 : LoopPost c D2 tg2 pr1 r2 pr2)
    (hs : r = .ok → NoLinkAt pr2.fs D tg) : LoopPost c D tg pr r pr2 :=
  ⟨fun q' h => h2.keep q' (h1k q' h), h2.dfd,
   fun P t hP ht hd => by
     obtain ⟨t1, ht1, hd1⟩ := h1d P t hP ht hd
     exact h2.dirs P t1 (List.IsPrefix.trans hP hDD) ht1 hd1,
   hs⟩

theorem lookupFollow_single_dir (fs : FS) (D : List Name) {cc : Name} (hgc : GoodName cc)
    (hlen : ¬ cc.length > nameMax) {m : Nat} {mt : Int} {es : List (Name × Tree)}
    (hD : get fs.root D = some (.dir m mt es)) {m' : Nat} {mt' : Int} {es' : List (Name × Tree)}
    (hch : (Tree.dir m mt es).child cc = some (.dir m' mt' es')) :
    lookupFollow fs D cc = .ok (D ++ [cc], .dir m' mt' es') := by
  have hg := good_single hgc
  have hget : get fs.root (D ++ [cc]) = some (.dir m' mt' es') := by rw [get_snoc, hD]; exact hch
  rw [lookupFollow_of_lt (by unfold pathMax; unfold nameMax at hlen; omega)]
  unfold lookupFollow0
  simp only [hg.ne_nil, if_false, isAbs_good hg, compsOf_single hgc, Bool.false_eq_true]
  rw [walk]
  simp only [hD, hgc.2.2.1, hgc.2.2.2, if_false, hlen, hch]
  rw [walk]
  simp only [hget, trailingSlash_good hg, Bool.false_and, Bool.false_eq_true, if_false]

theorem checkLoop_spec (c : Ctx) (fl : XFlags) (hsec : fl.secureSymlinks = true) (ln : Bool) :
    ∀ (l hd : List Name) (D : List Name) (pr : Proc), l ≠ [] →
      (∀ x ∈ hd ++ l, GoodName x) → pr.dfd = some D → HdInv pr D hd →
      LoopPost c D (loopTarget ln (hd ++ l)) pr
        ((checkLoop fl ln hd l).run pr).1 ((checkLoop fl ln hd l).run pr).2 := by
  intro l
  induction l with
  | nil => intro _ _ _ h; exact absurd rfl h
  | cons cc rest ih =>
    intro hd D pr _ hg hdfd hinv
    rw [checkLoop]
    simp only [run_bind', run_sys]
    simp only [exec, hdfd]
    have hgc : GoodName cc := hg cc (by simp)
    rcases hinv with rfl | ⟨h, hd', rfl, hinv⟩
    · -- head = current component: the descriptor is on the directory that holds `cc`
      simp only [List.nil_append, joinSlash]
      cases hD : get pr.fs.root D with
      | none =>
        obtain ⟨e, he⟩ := lookup_single_nodir pr.fs D hgc (fun t ht => by rw [hD] at ht; simp at ht)
        simp only [he, statR]
        cases e <;> exact loopPost_refl c D _ pr _ ⟨D, hdfd⟩ (fun _ t ht => by rw [hD] at ht; simp at ht)
      | some tD =>
        cases tD with
        | file i =>
          obtain ⟨e, he⟩ := lookup_single_nodir pr.fs D hgc
            (fun t ht => by rw [hD] at ht; simp only [Option.some.injEq] at ht; subst ht; rfl)
          simp only [he, statR]
          cases e <;> exact loopPost_refl c D _ pr _ ⟨D, hdfd⟩
            (fun _ t ht => by rw [hD] at ht; simp only [Option.some.injEq] at ht; subst ht; exact noLinkT_file _ _ _)
        | dir m mt es =>
          have hlk := lookup_single pr.fs D hgc hD rfl
          by_cases hlen : cc.length > nameMax
          · simp only [hlk, hlen, if_true, statR]
            exact loopPost_refl c D _ pr _ ⟨D, hdfd⟩ (fun h => by simp [Prog.run] at h)
          · simp only [hlen, if_false] at hlk
            cases hch : (Tree.dir m mt es).child cc with
            | none =>
              simp only [hlk, hch, statR]
              exact loopPost_refl c D _ pr _ ⟨D, hdfd⟩
                (fun _ => noLinkAt_first pr.fs D ln cc rest hD (Or.inl hch))
            | some t =>
              simp only [hlk, hch, statR]
              cases t with
              | dir m' mt' es' =>
                simp only [statOfTree]
                cases rest with
                | nil =>
                  simp only [List.isEmpty_nil, Bool.not_true, Bool.false_eq_true, if_false, run_pure]
                  refine loopPost_refl c D _ pr _ ⟨D, hdfd⟩ (fun _ t ht => ?_)
                  rw [hD] at ht; simp only [Option.some.injEq] at ht; subst ht
                  rcases target_cases ln cc [] with h0 | ⟨tl, h1⟩
                  · rw [h0]; trivial
                  · rw [h1]; simp only [NoLinkT, hch, Tree.isDir, if_true]
                    have : tl = [] := by
                      cases ln <;> simp [loopTarget] at h1 <;> first | exact h1 | exact h1.symm
                    subst this; trivial
                | cons c2 rest' =>
                  simp only [List.isEmpty_cons, Bool.not_false, if_true, run_bind', run_sys]
                  have hlf := lookupFollow_single_dir pr.fs D hgc hlen hD hch
                  simp only [exec, hdfd, hlf]
                  have hpost := ih [] (D ++ [cc]) { pr with dfd := some (D ++ [cc]) } (by simp)
                    (fun x hx => hg x (by simp at hx ⊢; right; exact hx)) rfl (Or.inl rfl)
                  refine loopPost_trans (pr1 := { pr with dfd := some (D ++ [cc]) }) ?_ ?_
                    (List.prefix_append D [cc]) hpost ?_
                  · intro q' hS
                    exact sem_setDfd hS _ (fun d hd => by
                      simp at hd; subst hd
                      exact List.IsPrefix.trans (hS.inv.dfd D hdfd) (List.prefix_append _ _))
                  · intro P t _ h1 h2; exact ⟨t, h1, h2⟩
                  · intro hr tD2 htD2
                    rw [target_cons]
                    obtain ⟨t', ht', hd'⟩ := hpost.dirs (D ++ [cc]) (.dir m' mt' es') (List.prefix_refl _)
                      (by rw [get_snoc, hD]; exact hch) rfl
                    have hc2 : tD2.child cc = some t' := by
                      rw [get_snoc, htD2] at ht'; exact ht'
                    simp only [NoLinkT, hc2, hd', if_true]
                    exact hpost.sound hr t' ht'
              | file i =>
                simp only [statOfTree]
                cases hf : pr.fs.files i with
                | none =>
                  simp only []
                  exact loopPost_refl c D _ pr _ ⟨D, hdfd⟩ (fun h => by simp [Prog.run] at h)
                | some nd =>
                  have hun := doUnlink_single pr D hgc hlen hD rfl hch
                  have hdelNL : ∀ tl, NoLinkAt { pr with fs := delAt pr.fs D cc }.fs D (cc :: tl) := by
                    intro tl t ht
                    simp only [delAt] at ht
                    rw [get_modify_same, hD] at ht
                    simp only [Option.map_some, Option.some.injEq] at ht
                    subst ht
                    simp [NoLinkT, child_del]
                  have hkeepDel : ∀ q', Sem c q' pr → Sem c q' { pr with fs := delAt pr.fs D cc } := by
                    intro q' hS
                    obtain ⟨r, hr⟩ := hS.inv.dfd D hdfd
                    subst hr
                    exact sem_delAt hS r cc
                  cases nd with
                  | lnk tg =>
                    simp only []
                    cases rest with
                    | nil =>
                      cases ln with
                      | true =>
                        simp only [List.isEmpty_nil, Bool.and_self, if_true, run_pure]
                        exact loopPost_refl c D _ pr _ ⟨D, hdfd⟩ (fun _ => by
                          unfold loopTarget; simp only [if_true, List.dropLast_singleton]
                          exact fun _ _ => trivial)
                      | false =>
                        simp only [List.isEmpty_nil, Bool.and_false, Bool.false_eq_true, if_false, if_true,
                          run_bind', run_sys]
                        simp only [exec, hdfd, hun, run_pure]
                        simp only [← hdfd]
                        refine ⟨hkeepDel, ⟨D, hdfd⟩, fun P t hP h1 h2 => dirs_delAt pr.fs D cc P t hP h1 h2, ?_⟩
                        intro _
                        unfold loopTarget
                        simp only [Bool.false_eq_true, if_false]
                        exact hdelNL []
                    | cons c2 rest' =>
                      simp only [List.isEmpty_cons, Bool.false_and, Bool.false_eq_true, if_false]
                      cases hu : fl.unlink with
                      | false =>
                        simp only [hsec, Bool.not_true, Bool.false_eq_true, if_false, run_pure]
                        exact loopPost_refl c D _ pr _ ⟨D, hdfd⟩ (fun h => by simp at h)
                      | true =>
                        simp only [if_true, run_bind', run_sys]
                        simp only [exec, hdfd, hun]
                        simp only [← hdfd]
                        have hpost := ih [cc] D { pr with fs := delAt pr.fs D cc } (by simp)
                          (fun x hx => hg x (by simpa using hx)) hdfd
                          (Or.inr ⟨cc, [], rfl, fun tD' htD' => by
                            left
                            simp only [delAt] at htD'
                            rw [get_modify_same, hD] at htD'
                            simp only [Option.map_some, Option.some.injEq] at htD'
                            subst htD'
                            simp [child_del]⟩)
                        exact loopPost_trans hkeepDel
                          (fun P t hP h1 h2 => dirs_delAt pr.fs D cc P t hP h1 h2)
                          (List.prefix_refl D) hpost hpost.sound
                  | reg d m' mt' =>
                    simp only []
                    have hnl : ∃ t, (Tree.dir m mt es).child cc = some t ∧ t.isDir = false ∧ isLnk pr.fs t = false :=
                      ⟨_, hch, rfl, by simp [isLnk, hf]⟩
                    cases rest with
                    | nil =>
                      simp only [List.isEmpty_nil, if_true, run_pure]
                      exact loopPost_refl c D _ pr _ ⟨D, hdfd⟩
                        (fun _ => noLinkAt_first pr.fs D ln cc [] hD (Or.inr hnl))
                    | cons c2 rest' =>
                      simp only [List.isEmpty_cons, Bool.false_eq_true, if_false]
                      exact ih [cc] D pr (by simp) (fun x hx => hg x (by simpa using hx)) hdfd
                        (Or.inr ⟨cc, [], rfl, fun tD' htD' => by
                          rw [hD] at htD'; simp only [Option.some.injEq] at htD'; subst htD'
                          exact Or.inr hnl⟩)
                  | fifo m' mt' =>
                    simp only []
                    have hnl : ∃ t, (Tree.dir m mt es).child cc = some t ∧ t.isDir = false ∧ isLnk pr.fs t = false :=
                      ⟨_, hch, rfl, by simp [isLnk, hf]⟩
                    cases rest with
                    | nil =>
                      simp only [List.isEmpty_nil, if_true, run_pure]
                      exact loopPost_refl c D _ pr _ ⟨D, hdfd⟩
                        (fun _ => noLinkAt_first pr.fs D ln cc [] hD (Or.inr hnl))
                    | cons c2 rest' =>
                      simp only [List.isEmpty_cons, Bool.false_eq_true, if_false]
                      exact ih [cc] D pr (by simp) (fun x hx => hg x (by simpa using hx)) hdfd
                        (Or.inr ⟨cc, [], rfl, fun tD' htD' => by
                          rw [hD] at htD'; simp only [Option.some.injEq] at htD'; subst htD'
                          exact Or.inr hnl⟩)
    · -- head is behind: the `fstatat` fails, nothing is touched
      obtain ⟨e, he⟩ := lookup_hd_err pr D h hd' cc (fun x hx => hg x (by simp at hx ⊢; rcases hx with hx | hx | hx <;> simp [hx])) hinv
      simp only [he, statR]
      have hs : NoLinkAt pr.fs D (loopTarget ln (h :: hd' ++ cc :: rest)) :=
        noLinkAt_hd pr D ln h (hd' ++ cc :: rest) hinv
      cases e <;> exact loopPost_refl c D _ pr _ ⟨D, hdfd⟩ (fun _ => hs)

theorem goodNames_of_good {q : List Nat} (h : Good q) : ∀ x ∈ compsOf q, GoodName x := by
  intro x hx
  rw [compsOf_good h] at hx
  refine ⟨(h x hx).1, ?_, (h x hx).2.1, (h x hx).2.2⟩
  -- pieces between slashes hold no slash
  have : ∀ (p : List Nat), ∀ c ∈ splitSlash p, ∀ y ∈ c, y ≠ SLASH := by
    intro p
    induction p with
    | nil => intro c hc; simp [splitSlash] at hc; subst hc; intro y hy; simp at hy
    | cons a r ih =>
      by_cases ha : a = SLASH
      · subst ha
        rw [splitSlash_cons_slash]
        intro c hc; simp at hc
        rcases hc with rfl | hc
        · intro y hy; simp at hy
        · exact ih c hc
      · obtain ⟨h0, t0, h1, h2⟩ := splitSlash_cons_other r a ha
        rw [h2]
        intro c hc; simp at hc
        rcases hc with rfl | hc
        · intro y hy; simp at hy
          rcases hy with rfl | hy
          · exact ha
          · exact ih h0 (by simp [h1]) y hy
        · exact ih c (by simp [h1, hc])
  exact this q x hx

/-- `check_symlinks_fsobj` on a cleaned path other than ".". -/
theorem checkSymlinks_spec (c : Ctx) (fl : XFlags) (hsec : fl.secureSymlinks = true) (ln : Bool)
    (q : List Nat) (hq : Good q) (pr : Proc) :
    (∀ q', Sem c q' pr → Sem c q' ((checkSymlinks fl ln q).run pr).2) ∧
    (((checkSymlinks fl ln q).run pr).1 = .ok →
      NoLinkAt ((checkSymlinks fl ln q).run pr).2.fs pr.cwd (loopTarget ln (compsOf q))) := by
  unfold checkSymlinks
  simp only [hq.ne_nil, if_false, isAbs_good hq, Bool.false_eq_true, run_bind', run_sys, exec, run_pure]
  have hne : compsOf q ≠ [] := (rel_good hq).ne
  have hpost := checkLoop_spec c fl hsec ln (compsOf q) [] pr.cwd { pr with dfd := some pr.cwd } hne
    (by simpa using goodNames_of_good hq) rfl (Or.inl rfl)
  simp only [List.nil_append] at hpost
  refine ⟨?_, ?_⟩
  · intro q' hS
    have h1 : Sem c q' { pr with dfd := some pr.cwd } :=
      sem_setDfd hS _ (fun d hd => by simp at hd; subst hd; rw [hS.inv.cwd]; exact List.prefix_refl _)
    exact sem_setDfd (hpost.keep q' h1) none (fun _ h => by simp at h)
  · intro hr
    exact hpost.sound hr


theorem lookup_dot_isDir (fs : FS) (D : List Name) {pos : List Name} {t : Tree}
    (h : lookupNoFollow fs D [DOT] = .ok (pos, t)) : t.isDir = true := by
  unfold lookupNoFollow at h
  rw [locate_of_lt (by decide)] at h
  unfold locate0 at h
  have e : compsOf [DOT] = [DOTN] := by decide
  simp only [show ([DOT] : List Nat) ≠ [] by decide, if_false, e, List.getLast?_singleton, true_or, if_true] at h
  split at h
  · simp at h
  · rename_i pos' hl
    split at hl
    · simp at hl
    · rename_i p2 hw
      split at hl
      · rename_i m mt es hg
        simp only [Except.ok.injEq, Loc.obj.injEq] at hl
        subst hl
        simp only [hg, Except.ok.injEq, Prod.mk.injEq] at h
        rw [← h.2]; rfl
      · simp at hl
      · simp at hl
  · rename_i d n hl
    split at hl
    · simp at hl
    · split at hl <;> simp at hl

/-- `check_symlinks_fsobj(".")` only looks. -/
theorem checkSymlinks_dot (c : Ctx) (fl : XFlags) (ln : Bool) (pr : Proc) :
    ∀ q', Sem c q' pr → Sem c q' ((checkSymlinks fl ln [DOT]).run pr).2 := by
  intro q' hS
  have e : compsOf [DOT] = [DOTN] := by decide
  unfold checkSymlinks
  simp only [show ([DOT] : List Nat) ≠ [] by decide, if_false, show isAbs [DOT] = false by decide,
    Bool.false_eq_true, run_bind', run_sys, exec, run_pure, e]
  rw [checkLoop]
  simp only [run_bind', run_sys, exec, List.nil_append, joinSlash]
  have hfin : ∀ (r : St) (p2 : Proc), p2 = { pr with dfd := some pr.cwd } →
      Sem c q' { ((pure r : Prog St).run p2).2 with dfd := none } := by
    intro r p2 hp
    subst hp
    exact sem_setDfd hS none (fun _ h => by simp at h)
  cases hl : lookupNoFollow pr.fs pr.cwd DOTN with
  | error e =>
    simp only [statR]
    cases e <;> exact hfin _ _ rfl
  | ok pt =>
    obtain ⟨pos, t⟩ := pt
    have hd := lookup_dot_isDir pr.fs pr.cwd hl
    cases t with
    | file i => simp [Tree.isDir] at hd
    | dir m mt es =>
      simp only [statR, statOfTree, List.isEmpty_nil, Bool.not_true, Bool.false_eq_true, if_false]
      exact hfin _ _ rfl


end LA.Xtr
