/-
C14 helper lemmas, part 4: from single setters to `step` and to whole histories.
-/
import LA.Lemmas.EntryCongr
import LA.Lemmas.EntryFrame
namespace LA.Entry
open LA.Gen.EntryBits
set_option maxRecDepth 4000

/-! ### a getter only reads its group -/

theorem sparseCount_congr (e1 e2 : Entry) (h1 : e1.aest_size = e2.aest_size) (h2 : e1.sparse = e2.sparse) :
    (sparseCount e1).2 = (sparseCount e2).2 ∧ (sparseCount e1).1.sparse = (sparseCount e2).1.sparse := by
  rw [sparseCount_snd, sparseCount_snd, sparseCount_fst, sparseCount_fst]
  unfold size sparseClear
  rw [h1, h2]
  cases sparseWhole (u64ToI64 e2.aest_size) e2.sparse <;> simp [h2]

theorem stat_snd (e : Entry) : (stat e).2 = bif e.stat_valid then e.stat_cache else statOf e := rfl

theorem obs_of_view (g : Getter) (e1 e2 : Entry) (h : view g.group e1 = view g.group e2) : obs g e1 = obs g e2 := by
  cases g <;>
    simp only [Getter.group, view, View.mk.injEq, List.cons.injEq, and_true, true_and] at h
  case sparseCount => simp only [obs, (sparseCount_congr e1 e2 h.1 h.2.1).1]
  case sparseBlocks => simp only [obs, (sparseCount_congr e1 e2 h.1 h.2.1).2]
  case stat =>
    simp only [obs, stat_snd, statOf, timeSec, timeNsec, dev, gid, uid, ino, nlink, rdev, rdevIsSet, size, mode, h]
    rfl
  all_goals
    simp only [obs, timeIsSet, dev, devmajor, devminor, devIsSet, rdev, rdevmajor, rdevminor, rdevIsSet,
      ino, inoIsSet, nlink, uid, uidIsSet, gid, gidIsSet, size, sizeIsSet, mode, filetype, filetypeIsSet, perm, permIsSet,
      strmode, getStr, hardlink, hardlinkIsSet, symlink, fflags, fflagsTextV, symlinkType, isDataEncrypted, isMetadataEncrypted, isEncrypted,
      xattrCount, macMetadata, digest, h]
  all_goals rfl

/-! ### copy_stat is a composition of setters -/

theorem copyStatCore_view (G : Group) (e1 e2 : Entry) (h : view G e1 = view G e2) (st : StatRec) (a c m : Int × Int) :
    view G (copyStatCore e1 st a c m) = view G (copyStatCore e2 st a c m) := by
  unfold copyStatCore
  exact setMode_view G _ _ (setSize_view G _ _ (setRdev_view G _ _ (setNlink_view G _ _ (setIno_view G _ _
    (setUid_view G _ _ (setGid_view G _ _ (setDev_view G _ _ (unsetTimeCore_view G _ _ (setTimeCore_view G _ _
    (setTimeCore_view G _ _ (setTimeCore_view G _ _ h _ _ _) _ _ _) _ _ _) _) _) _) _) _) _) _) _) _

theorem touches_copyStat (G : Group) (st : StatRec) (ht : touches (.copyStat st) G = false) :
    (∀ f t ns, f ≠ .birthtime → touches (.setTime f t ns) G = false) ∧ touches (.unsetTime .birthtime) G = false ∧
    (∀ d, touches (.setDev d) G = false) ∧ (∀ d, touches (.setGid d) G = false) ∧ (∀ d, touches (.setUid d) G = false) ∧
    (∀ d, touches (.setIno d) G = false) ∧ (∀ d, touches (.setNlink d) G = false) ∧ (∀ d, touches (.setRdev d) G = false) ∧
    (∀ d, touches (.setSize d) G = false) ∧ (∀ d, touches (.setMode d) G = false) := by
  cases G <;> (try (rename_i f'; cases f')) <;> simp [touches, statGroups] at ht ⊢
  all_goals (intro f; cases f <;> simp)

theorem copyStatCore_frame (G : Group) (e : Entry) (st : StatRec) (a c m : Int × Int)
    (ht : touches (.copyStat st) G = false) : view G (copyStatCore e st a c m) = view G e := by
  obtain ⟨h1, h2, h3, h4, h5, h6, h7, h8, h9, h10⟩ := touches_copyStat G st ht
  unfold copyStatCore
  rw [setMode_frame G _ _ (h10 _), setSize_frame G _ _ (h9 _), setRdev_frame G _ _ (h8 _), setNlink_frame G _ _ (h7 _),
    setIno_frame G _ _ (h6 _), setUid_frame G _ _ (h5 _), setGid_frame G _ _ (h4 _), setDev_frame G _ _ (h3 _),
    unsetTimeCore_frame G _ _ h2, setTimeCore_frame G _ _ _ _ 0 0 (h1 .mtime 0 0 (by decide)),
    setTimeCore_frame G _ _ _ _ 0 0 (h1 .ctime 0 0 (by decide)), setTimeCore_frame G _ _ _ _ 0 0 (h1 .atime 0 0 (by decide))]

/-! ### one step -/

theorem unsetTime_eq (f : TimeField) (e : Entry) : unsetTime f e = some (unsetTimeCore f e) := by
  simp [unsetTime, setTime, fixNs_zero, unsetTimeCore]

/-- What a defined step is, operation by operation. -/
inductive StepShape (e : Entry) : Op → Entry → Prop
  | setTime (f t ns p) : fixNs t ns = some p → StepShape e (.setTime f t ns) (setTimeCore f e p.1 p.2.toNat)
  | copyStat (st a c m) : fixNs st.atime st.atime_nsec = some a → fixNs st.ctime st.ctime_nsec = some c →
      fixNs st.mtime st.mtime_nsec = some m → StepShape e (.copyStat st) (copyStatCore e st a c m)
  | total (op e') : (∀ f t ns, op ≠ .setTime f t ns) → (∀ st, op ≠ .copyStat st) → step e op = some e' → StepShape e op e'

theorem step_shape (e e' : Entry) (op : Op) (h : step e op = some e') : StepShape e op e' := by
  cases op
  case setTime f t ns =>
    simp only [step, setTime] at h
    cases hp : fixNs t ns with
    | none => simp [hp] at h
    | some p => simp [hp] at h; subst h; exact .setTime f t ns p hp
  case copyStat st =>
    simp only [step, copyStat] at h
    cases ha : fixNs st.atime st.atime_nsec <;> cases hc : fixNs st.ctime st.ctime_nsec <;>
      cases hm : fixNs st.mtime st.mtime_nsec <;> simp [ha, hc, hm] at h
    subst h; exact .copyStat st _ _ _ ha hc hm
  all_goals exact .total _ _ (by intros; simp) (by intros; simp) h

/-- Whether a call is defined depends on its arguments only, never on the entry. -/
theorem step_defined_indep (op : Op) (e1 e2 : Entry) : (step e1 op).isSome = (step e2 op).isSome := by
  cases op <;> simp [step, setTime, unsetTime_eq, copyStat]
  case copyStat st =>
    cases fixNs st.atime st.atime_nsec <;> cases fixNs st.ctime st.ctime_nsec <;>
      cases fixNs st.mtime st.mtime_nsec <;> simp

theorem step_view_congr (G : Group) (op : Op) (e1 e2 e1' e2' : Entry) (h : view G e1 = view G e2)
    (h1 : step e1 op = some e1') (h2 : step e2 op = some e2') : view G e1' = view G e2' := by
  cases op
  case setTime f t ns =>
    simp only [step, setTime] at h1 h2
    cases hp : fixNs t ns with
    | none => simp [hp] at h1
    | some p => simp [hp] at h1 h2; subst h1 h2; exact setTimeCore_view G e1 e2 h f _ _
  case copyStat st =>
    simp only [step, copyStat] at h1 h2
    cases ha : fixNs st.atime st.atime_nsec <;> cases hc : fixNs st.ctime st.ctime_nsec <;>
      cases hm : fixNs st.mtime st.mtime_nsec <;> simp [ha, hc, hm] at h1 h2
    subst h1 h2; exact copyStatCore_view G e1 e2 h st _ _ _
  case unsetTime f =>
    simp only [step, unsetTime_eq, Option.some.injEq] at h1 h2; subst h1 h2; exact unsetTimeCore_view G e1 e2 h f
  case clear => simp only [step, clear, Option.some.injEq] at h1 h2; subst h1 h2; rfl
  all_goals (simp only [step, Option.some.injEq] at h1 h2; subst h1 h2)
  case setSize s => exact setSize_view G e1 e2 h s
  case unsetSize => exact unsetSize_view G e1 e2 h
  case setDev d => exact setDev_view G e1 e2 h d
  case setDevmajor d => exact setDevmajor_view G e1 e2 h d
  case setDevminor d => exact setDevminor_view G e1 e2 h d
  case setRdev d => exact setRdev_view G e1 e2 h d
  case setRdevmajor d => exact setRdevmajor_view G e1 e2 h d
  case setRdevminor d => exact setRdevminor_view G e1 e2 h d
  case setIno d => exact setIno_view G e1 e2 h d
  case setNlink d => exact setNlink_view G e1 e2 h d
  case setUid d => exact setUid_view G e1 e2 h d
  case setGid d => exact setGid_view G e1 e2 h d
  case setMode d => exact setMode_view G e1 e2 h d
  case setPerm d => exact setPerm_view G e1 e2 h d
  case setFiletype d => exact setFiletype_view G e1 e2 h d
  case setStr f v => exact setStr_view G e1 e2 h f v
  case setHardlink v => exact setHardlink_view G e1 e2 h v
  case copyHardlink v => exact copyHardlink_view G e1 e2 h v
  case setSymlink v => exact setSymlink_view G e1 e2 h v
  case setLink v => exact setLink_view G e1 e2 h v
  case setLinkToHardlink => exact setLinkToHardlink_view G e1 e2 h
  case setLinkToSymlink => exact setLinkToSymlink_view G e1 e2 h
  case setFflags s c => exact setFflags_view G e1 e2 h s c
  case copyFflagsText s => exact copyFflagsText_view G e1 e2 h s
  case fflagsText => exact fflagsText_view G e1 e2 h
  case setSymlinkType t => exact setSymlinkType_view G e1 e2 h t
  case setIsDataEncrypted b => exact setIsDataEncrypted_view G e1 e2 h b
  case setIsMetadataEncrypted b => exact setIsMetadataEncrypted_view G e1 e2 h b
  case sparseAdd o l => exact sparseAdd_view G e1 e2 h o l
  case sparseClear => exact sparseClear_view G e1 e2 h
  case sparseCount => exact sparseCount_view G e1 e2 h
  case sparseReset => exact sparseReset_view G e1 e2 h
  case sparseNext => exact sparseNext_view G e1 e2 h
  case xattrAdd n v => exact xattrAdd_view G e1 e2 h n v
  case xattrClear => exact xattrClear_view G e1 e2 h
  case xattrReset => exact xattrReset_view G e1 e2 h
  case xattrNext => exact xattrNext_view G e1 e2 h
  case copyMacMetadata v => exact copyMacMetadata_view G e1 e2 h v
  case setDigest t d => exact setDigest_view G e1 e2 h t d
  case stat => exact stat_view G e1 e2 h

theorem step_untouched (G : Group) (op : Op) (e e' : Entry) (ht : touches op G = false)
    (hs : step e op = some e') : view G e' = view G e := by
  cases op
  case setTime f t ns =>
    simp only [step, setTime] at hs
    cases hp : fixNs t ns with
    | none => simp [hp] at hs
    | some p => simp [hp] at hs; subst hs; exact setTimeCore_frame G e f _ _ t ns ht
  case copyStat st =>
    simp only [step, copyStat] at hs
    cases ha : fixNs st.atime st.atime_nsec <;> cases hc : fixNs st.ctime st.ctime_nsec <;>
      cases hm : fixNs st.mtime st.mtime_nsec <;> simp [ha, hc, hm] at hs
    subst hs; exact copyStatCore_frame G e st _ _ _ ht
  case unsetTime f =>
    simp only [step, unsetTime_eq, Option.some.injEq] at hs; subst hs; exact unsetTimeCore_frame G e f ht
  case clear => simp [touches] at ht
  all_goals (simp only [step, Option.some.injEq] at hs; subst hs)
  case setSize s => exact setSize_frame G e s ht
  case unsetSize => exact unsetSize_frame G e ht
  case setDev d => exact setDev_frame G e d ht
  case setDevmajor d => exact setDevmajor_frame G e d ht
  case setDevminor d => exact setDevminor_frame G e d ht
  case setRdev d => exact setRdev_frame G e d ht
  case setRdevmajor d => exact setRdevmajor_frame G e d ht
  case setRdevminor d => exact setRdevminor_frame G e d ht
  case setIno d => exact setIno_frame G e d ht
  case setNlink d => exact setNlink_frame G e d ht
  case setUid d => exact setUid_frame G e d ht
  case setGid d => exact setGid_frame G e d ht
  case setMode d => exact setMode_frame G e d ht
  case setPerm d => exact setPerm_frame G e d ht
  case setFiletype d => exact setFiletype_frame G e d ht
  case setStr f v => exact setStr_frame G e f v ht
  case setHardlink v => exact setHardlink_frame G e v ht
  case copyHardlink v => exact copyHardlink_frame G e v ht
  case setSymlink v => exact setSymlink_frame G e v ht
  case setLink v => exact setLink_frame G e v ht
  case setLinkToHardlink => exact setLinkToHardlink_frame G e ht
  case setLinkToSymlink => exact setLinkToSymlink_frame G e ht
  case setFflags s c => exact setFflags_frame G e s c ht
  case copyFflagsText s => exact copyFflagsText_frame G e s ht
  case fflagsText => exact fflagsText_frame G e ht
  case setSymlinkType t => exact setSymlinkType_frame G e t ht
  case setIsDataEncrypted b => exact setIsDataEncrypted_frame G e b ht
  case setIsMetadataEncrypted b => exact setIsMetadataEncrypted_frame G e b ht
  case sparseAdd o l => exact sparseAdd_frame G e o l ht
  case sparseClear => exact sparseClear_frame G e ht
  case sparseCount => exact sparseCount_frame G e ht
  case sparseReset => exact sparseReset_frame G e ht
  case sparseNext => exact sparseNext_frame G e ht
  case xattrAdd n v => exact xattrAdd_frame G e n v ht
  case xattrClear => exact xattrClear_frame G e ht
  case xattrReset => exact xattrReset_frame G e ht
  case xattrNext => exact xattrNext_frame G e ht
  case copyMacMetadata v => exact copyMacMetadata_frame G e v ht
  case setDigest t d => exact setDigest_frame G e t d ht
  case stat => exact stat_frame G e ht

/-! ### histories -/

theorem run_cons (e : Entry) (op : Op) (ops : List Op) :
    run e (op :: ops) = (step e op).bind fun e' => run e' ops := by
  simp only [run]; cases step e op <;> rfl

/-- Running a history and running only its operations that touch `G`, from two
entries with the same `G`-view, ends in the same `G`-view. -/
theorem run_view_relevant (G : Group) : ∀ (ops : List Op) (e1 e2 e1' : Entry), view G e1 = view G e2 →
    run e1 ops = some e1' → ∃ e2', run e2 (ops.filter (touches · G)) = some e2' ∧ view G e1' = view G e2' := by
  intro ops
  induction ops with
  | nil => intro e1 e2 e1' h hr; simp only [run, Option.some.injEq] at hr; subst hr; exact ⟨e2, rfl, h⟩
  | cons op ops ih =>
    intro e1 e2 e1' h hr
    rw [run_cons] at hr
    cases hs : step e1 op with
    | none => simp [hs] at hr
    | some m1 =>
      simp only [hs, Option.bind_some] at hr
      by_cases ht : touches op G = true
      · have hd := step_defined_indep op e1 e2
        rw [hs] at hd
        cases hs2 : step e2 op with
        | none => simp [hs2] at hd
        | some m2 =>
          obtain ⟨e2', hr2, hv⟩ := ih m1 m2 e1' (step_view_congr G op e1 e2 m1 m2 h hs hs2) hr
          refine ⟨e2', ?_, hv⟩
          simp only [List.filter_cons, ht, if_true, run_cons, hs2, Option.bind_some, hr2]
      · have ht' : touches op G = false := by simpa using ht
        have hv1 := step_untouched G op e1 m1 ht' hs
        obtain ⟨e2', hr2, hv⟩ := ih m1 e2 e1' (hv1.trans h) hr
        refine ⟨e2', ?_, hv⟩
        have hf : List.filter (touches · G) (op :: ops) = List.filter (touches · G) ops := by
          simp [List.filter_cons, ht']
        rw [hf]; exact hr2

theorem run_append (e : Entry) (a b : List Op) : run e (a ++ b) = (run e a).bind fun m => run m b := by
  induction a generalizing e with
  | nil => rfl
  | cons op a ih =>
    simp only [List.cons_append, run_cons]
    cases step e op with
    | none => rfl
    | some m => simp only [Option.bind_some]; exact ih m

theorem run_untouched (G : Group) (ops : List Op) (e e' : Entry) (h : ∀ o ∈ ops, touches o G = false)
    (hr : run e ops = some e') : view G e' = view G e := by
  induction ops generalizing e with
  | nil => simp only [run, Option.some.injEq] at hr; subst hr; rfl
  | cons op ops ih =>
    rw [run_cons] at hr
    cases hs : step e op with
    | none => simp [hs] at hr
    | some m =>
      simp only [hs, Option.bind_some] at hr
      rw [ih m (fun o ho => h o (List.mem_cons_of_mem _ ho)) hr]
      exact step_untouched G op e m (h op List.mem_cons_self) hs

theorem run_invariant (P : Entry → Prop) (hstep : ∀ e e' op, step e op = some e' → P e → P e')
    (ops : List Op) (e e' : Entry) (hr : run e ops = some e') (h : P e) : P e' := by
  induction ops generalizing e with
  | nil => simp only [run, Option.some.injEq] at hr; subst hr; exact h
  | cons op ops ih =>
    rw [run_cons] at hr
    cases hs : step e op with
    | none => simp [hs] at hr
    | some m => simp only [hs, Option.bind_some] at hr; exact ih m hr (hstep e m op hs h)


end LA.Entry
