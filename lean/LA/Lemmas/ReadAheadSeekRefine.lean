/-
Refinement of the whole interface (ahead / consume / seek) to a stream with a position.
-/
import LA.Lemmas.ReadAheadSeekMain
set_option linter.unusedSimpArgs false
set_option linter.unusedVariables false
namespace LA.RA

/-! ### `position` under the sequential operations -/

theorem readSkipLoop_position (s : State) (request total : Nat) :
    0 ≤ (readSkipLoop s request total).1 →
    ((readSkipLoop s request total).2.position : Int) = s.position + ((readSkipLoop s request total).1 - total) := by
  fun_induction readSkipLoop s request total
  case case1 s request total hsrc nxt more hlat ih => exact ih
  case case2 s request total hsrc hlat hterm => intro h; simp at h
  case case3 s request total hsrc hlat hterm => intro _; simp
  case case4 s request total rest hsrc => intro _; simp
  case case5 s request total b bs rest hsrc n hn => intro _; simp; omega
  case case6 s request total b bs rest hsrc n hn ih =>
    intro h
    have := ih h
    simp only [] at this
    rw [this]; push_cast; omega

theorem skipLoop_position (s : State) (request total : Nat) (sk : List Int) :
    (skipLoop s request total sk).2.position = s.position := by
  induction sk generalizing s request total with
  | nil => simp [skipLoop]
  | cons g rest ih =>
    simp only [skipLoop]
    split
    · rfl
    · split
      · rfl
      · split
        · rfl
        · rw [ih]

theorem seekSkip_position (s : State) (n : Nat) : (seekSkip s n).2.position = s.position := by
  unfold seekSkip
  split
  · simp only []
    split <;> exact (clientSeek_filt s .cur n).position
  · rfl

/-- `advance_file_pointer` moves `position` by exactly what it reports. -/
theorem advance_position (s : State) (n : Nat) (h : 0 ≤ (advance s n).1) (hf : s.fatal = false) :
    ((advance s n).2.position : Int) = s.position + (advance s n).1 := by
  unfold advance at h ⊢
  simp only [hf, Bool.false_eq_true, if_false] at h ⊢
  have hu : (useBuffers s n).1.position = s.position + (useBuffers s n).2 := by
    simp [useBuffers]; omega
  generalize useBuffers s n = ub at *
  obtain ⟨s2, total⟩ := ub
  simp only [] at hu h ⊢
  by_cases h0 : n - total = 0
  · simp only [h0, if_true] at h ⊢
    rw [hu]; push_cast; rfl
  · simp only [h0, if_false] at h ⊢
    have hp : (if s2.canSkip then (if s2.noSkipper then seekSkip s2 (n - total) else skipLoop s2 (n - total) 0 s2.skips)
        else ((0 : Int), s2)).2.position = s2.position := by
      split
      · split
        · exact seekSkip_position _ _
        · exact skipLoop_position _ _ _ _
      · rfl
    generalize (if s2.canSkip then (if s2.noSkipper then seekSkip s2 (n - total) else skipLoop s2 (n - total) 0 s2.skips)
        else ((0 : Int), s2)) = sk at *
    obtain ⟨r, s3⟩ := sk
    simp only [] at hp h ⊢
    by_cases hr : r < 0
    · simp only [hr, if_true] at h; omega
    · simp only [hr, if_false] at h ⊢
      by_cases h1 : n - total - r.toNat = 0
      · simp only [h1, if_true] at h ⊢
        rw [hp, hu]; push_cast; omega
      · simp only [h1, if_false] at h ⊢
        have := readSkipLoop_position { s3 with position := s3.position + r.toNat } (n - total - r.toNat) (total + r.toNat) h
        rw [this]
        simp only []
        rw [hp, hu]; push_cast; omega

theorem aheadLoop_position (s : State) (min : Nat) (hi : Inv s) (hf : s.fatal = false) (hmin : min ≤ 2 ^ 62) :
    (aheadLoop s min).2.position = s.position := (aheadLoop_spec s min hi hf hmin).2.2.1

theorem ahead_position (s : State) (min : Nat) (hi : Inv s) (hmin : min ≤ 2 ^ 62) :
    (ahead s min).2.position = s.position := by
  unfold ahead
  by_cases hf : s.fatal = true
  · simp [hf]
  · have hf' : s.fatal = false := by simpa using hf
    simp only [hf', Bool.false_eq_true, if_false]
    exact aheadLoop_position s min hi hf' hmin

/-! ### The abstract stream with a position -/

/-- Abstract view of a (possibly seekable) source: the whole byte string, the position, how
it ends, the sticky failure flag, whether seeking is possible, and `lost`: a seek was refused
after the client may have been moved — the position is still `pos`, but what the next
`ahead`/`consume` returns is not specified until a seek succeeds. -/
structure SSpec where
  all : List Nat
  pos : Nat
  term : Term
  fatal : Bool
  canSeek : Bool
  lost : Bool
  deriving DecidableEq, Repr

/-- The sequential view: the bytes from the position on. -/
def SSpec.toSpec (sp : SSpec) : Spec :=
  if sp.fatal then ⟨[], sp.term, true⟩ else ⟨sp.all.drop sp.pos, sp.term, false⟩

def sspecAhead (sp : SSpec) (min : Nat) : Obs × SSpec :=
  ((specAhead sp.toSpec min).1, { sp with fatal := (specAhead sp.toSpec min).2.fatal })

def sspecConsume (sp : SSpec) (n : Int) : Int × SSpec :=
  ((specConsume sp.toSpec n).1,
   { sp with fatal := (specConsume sp.toSpec n).2.fatal,
             pos := sp.pos + (sp.toSpec.rem.length - (specConsume sp.toSpec n).2.rem.length) })

/-- The target of a seek request. -/
def specTarget (sp : SSpec) (off : Int) (w : Whence) : Option Int :=
  match w with
  | .set => some off
  | .cur => some (off + sp.pos)
  | .end_ => some (off + (sp.all.length : Int))
  | .other => none

/-- **The specification of seek**: position := target if the target lies inside the stream
(its end included), an error otherwise. -/
def specSeek (sp : SSpec) (off : Int) (w : Whence) : Int × SSpec :=
  if sp.fatal then (-30, sp)
  else if !sp.canSeek then (-25, sp)
  else match specTarget sp off w with
    | none => (-30, sp)
    | some t =>
      if 0 ≤ t ∧ t ≤ (sp.all.length : Int) then (t, { sp with pos := t.toNat, lost := false })
      else (-30, { sp with lost := true })

/-- Coupling between the C-shaped state and the abstract stream. -/
structure Rel (s : State) (sp : SSpec) : Prop where
  fatal : sp.fatal = s.fatal
  term : sp.term = s.term
  canSeek : sp.canSeek = s.canSeek
  bufLt : s.bufSize < 2 ^ 63
  seekable : s.canSeek = true → CacheOk s ∧ s.hasSeeker = true ∧ sp.all = allBytes s
  pos : s.fatal = false → sp.pos = s.position
  sync : sp.lost = false → Inv s ∧ (s.fatal = false → remaining s = sp.all.drop sp.pos)

theorem rel_absN {s : State} {sp : SSpec} (h : Rel s sp) (hl : sp.lost = false) : absN s = sp.toSpec := by
  unfold absN SSpec.toSpec
  rw [h.fatal, h.term]
  by_cases hf : s.fatal = true
  · simp [hf]
  · have hf' : s.fatal = false := by simpa using hf
    simp only [hf', Bool.false_eq_true, if_false]
    rw [(h.sync hl).2 hf']

theorem absN_fatal (s : State) : (absN s).fatal = s.fatal := by
  unfold absN; split <;> simp_all

theorem absN_rem (s : State) (hf : s.fatal = false) : (absN s).rem = remaining s := by
  unfold absN; simp [hf]

theorem cacheOk_of_static {s s' : State} (h : Static s s') (hc : CacheOk s) : CacheOk s' :=
  cacheOk_congr h.nodes h.begins h.sizes hc

/-- `ahead` refines the stream view. -/
theorem ahead_rel (s : State) (sp : SSpec) (min : Nat) (h : Rel s sp) (hl : sp.lost = false) (hmin : min ≤ 2 ^ 62) :
    Rel (ahead s min).2 (sspecAhead sp min).2 ∧ obsOf min (ahead s min).1 = (sspecAhead sp min).1 := by
  obtain ⟨hi, hsy⟩ := h.sync hl
  obtain ⟨i1, i2, i3, i4, _⟩ := ahead_refines s min hi hmin
  have hst := ahead_static s min
  have hab := rel_absN h hl
  rw [hab] at i3 i4
  refine ⟨?_, i3⟩
  have hfat : (ahead s min).2.fatal = (specAhead sp.toSpec min).2.fatal := by rw [← i4, absN_fatal]
  refine { fatal := hfat.symm, term := by show sp.term = _; rw [hst.term]; exact h.term,
           canSeek := by show sp.canSeek = _; rw [hst.canSeek]; exact h.canSeek, bufLt := i1.bufLt,
           seekable := ?_, pos := ?_, sync := ?_ }
  · intro hcs
    rw [hst.canSeek] at hcs
    obtain ⟨a, b, c⟩ := h.seekable hcs
    exact ⟨cacheOk_of_static hst a, by rw [hst.hasSeeker]; exact b, by show sp.all = _; unfold allBytes; rw [hst.nodes]; exact c⟩
  · intro hf
    have hf0 : s.fatal = false := by
      by_cases hq : s.fatal = true
      · have : (ahead s min).2 = s := by simp [ahead, hq]
        rw [this] at hf; rw [hf] at hq; cases hq
      · simpa using hq
    show sp.pos = _
    rw [ahead_position s min hi hmin]; exact h.pos hf0
  · intro _
    refine ⟨i1, fun hf => ?_⟩
    show remaining _ = sp.all.drop sp.pos
    have h1 : (absN (ahead s min).2).rem = remaining (ahead s min).2 := absN_rem _ hf
    rw [← h1, i4]
    -- the abstract `ahead` leaves the stream alone unless it fails
    have hnf : (specAhead sp.toSpec min).2.fatal = false := by rw [← hfat]; exact hf
    unfold specAhead at hnf ⊢
    unfold SSpec.toSpec at hnf ⊢
    by_cases hq : sp.fatal = true
    · simp [hq] at hnf
    · have hq' : sp.fatal = false := by simpa using hq
      simp only [hq', Bool.false_eq_true, if_false] at hnf ⊢
      by_cases hm : min ≤ (sp.all.drop sp.pos).length
      · simp only [hm, if_true]
      · simp only [hm, if_false] at hnf ⊢
        cases ht : sp.term <;> simp [ht] at hnf ⊢

/-- `consume` refines the stream view. -/
theorem consume_rel (s : State) (sp : SSpec) (n : Int) (h : Rel s sp) (hl : sp.lost = false)
    (hsk : SkipsOk s.skips) (hns : NoSeekSkip s) :
    Rel (consume s n).2 (sspecConsume sp n).2 ∧ (consume s n).1 = (sspecConsume sp n).1 := by
  obtain ⟨hi, hsy⟩ := h.sync hl
  obtain ⟨i1, i2, i3⟩ := consume_refines s n hi hsk hns
  obtain ⟨hst, _⟩ := consume_static s n
  have hab := rel_absN h hl
  rw [hab] at i2 i3
  refine ⟨?_, i2⟩
  have hfat : (consume s n).2.fatal = (specConsume sp.toSpec n).2.fatal := by rw [← i3, absN_fatal]
  refine { fatal := hfat.symm, term := by show sp.term = _; rw [hst.term]; exact h.term,
           canSeek := by show sp.canSeek = _; rw [hst.canSeek]; exact h.canSeek, bufLt := i1.bufLt,
           seekable := ?_, pos := ?_, sync := ?_ }
  · intro hcs
    rw [hst.canSeek] at hcs
    obtain ⟨a, b, c⟩ := h.seekable hcs
    exact ⟨cacheOk_of_static hst a, by rw [hst.hasSeeker]; exact b, by show sp.all = _; unfold allBytes; rw [hst.nodes]; exact c⟩
  · -- position
    intro hf
    have hrem' : (specConsume sp.toSpec n).2.rem = remaining (consume s n).2 := by rw [← i3, absN_rem _ hf]
    show sp.pos + (sp.toSpec.rem.length - (specConsume sp.toSpec n).2.rem.length) = _
    rw [hrem']
    by_cases hq : s.fatal = true
    · -- nothing moves in a failed filter
      exfalso
      have : (consume s n).2.fatal = true := by
        unfold consume
        by_cases h1 : n < 0
        · simp [h1, hq]
        · by_cases h2 : n = 0
          · simp [h2, hq]
          · simp only [h1, h2, if_false, advance, hq, if_true]
            split <;> exact hq
      rw [this] at hf; cases hf
    · have hf0 : s.fatal = false := by simpa using hq
      have hrem0 : sp.toSpec.rem = remaining s := by rw [← hab, absN_rem _ hf0]
      rw [hrem0, h.pos hf0]
      unfold consume at hf ⊢
      by_cases h1 : n < 0
      · simp [h1]
      · by_cases h2 : n = 0
        · simp [h2]
        · simp only [h1, h2, if_false] at hf ⊢
          obtain ⟨g1, g2, g3, g4⟩ := advance_spec s n.toNat hi hf0 (by omega) hns
          have hp := advance_position s n.toNat
          generalize advance s n.toNat = r at *
          obtain ⟨sk, s'⟩ := r
          simp only [] at g1 g2 g3 g4 hp
          have hs' : (if sk = n then (sk, s') else (-30, s')).2 = s' := by split <;> rfl
          rw [hs'] at hf ⊢
          rcases g4 with ⟨a1, a2, a3, a4, a5⟩ | ⟨a1, a2, a3, a4, a5⟩ | ⟨a1, a2, a3⟩
          · rw [a3, a4]; simp; omega
          · have := hp (by rw [a1]; omega) hf0
            rw [a1] at this
            rw [a4]; simp; omega
          · rw [a2] at hf; cases hf
  · intro _
    refine ⟨i1, fun hf => ?_⟩
    have hrem' : (specConsume sp.toSpec n).2.rem = remaining (consume s n).2 := by rw [← i3, absN_rem _ hf]
    show remaining _ = sp.all.drop (sp.pos + (sp.toSpec.rem.length - (specConsume sp.toSpec n).2.rem.length))
    rw [← hrem']
    have hnf : (specConsume sp.toSpec n).2.fatal = false := by rw [← hfat]; exact hf
    -- the abstract `consume` only drops a prefix
    unfold specConsume at hnf ⊢
    unfold SSpec.toSpec at hnf ⊢
    by_cases hq : sp.fatal = true
    · simp only [hq, if_true] at hnf ⊢
      by_cases h1 : n < 0
      · simp [h1] at hnf
      · by_cases h2 : n = 0
        · simp [h1, h2] at hnf
        · simp [h1, h2] at hnf
    · have hq' : sp.fatal = false := by simpa using hq
      simp only [hq', Bool.false_eq_true, if_false] at hnf ⊢
      by_cases h1 : n < 0
      · simp [h1]
      · by_cases h2 : n = 0
        · simp [h1, h2]
        · simp only [h1, h2, if_false] at hnf ⊢
          by_cases h3 : n.toNat ≤ (sp.all.drop sp.pos).length
          · simp only [h3, if_true]
            rw [List.drop_drop]
            congr 1
            simp at h3 ⊢; omega
          · simp only [h3, if_false] at hnf ⊢
            cases ht : sp.term
            · simp only [ht] at hnf ⊢
              simp
              omega
            · simp [ht] at hnf

theorem SeekFrame.refl (s : State) : SeekFrame s s := by constructor <;> rfl

/-- Whatever a seek does, it leaves the description of the source alone. -/
theorem seek_frame (s : State) (sp : SSpec) (off : Int) (w : Whence) (h : Rel s sp) :
    SeekFrame s (seek s off w).2 := by
  by_cases hf : s.fatal = true
  · simp [seek, hf]; exact SeekFrame.refl _
  · have hf' : s.fatal = false := by simpa using hf
    by_cases hcs : s.canSeek = true
    · obtain ⟨a, b, c⟩ := h.seekable hcs
      have := seek_spec s off w a b hcs hf' h.bufLt
      cases ht : targetOf s off w with
      | none => rw [ht] at this; simp only [] at this; rw [this]; exact SeekFrame.refl _
      | some t =>
        rw [ht] at this; simp only [] at this
        rcases this with ⟨p | p, _⟩ | ⟨p, _⟩
        · exact p.2.2.2.2.2.2
        · exact SeekFrame.of_filt p.2.1
        · exact SeekFrame.of_filt p.2.1
    · have : s.canSeek = false := by simpa using hcs
      simp [seek, hf', this]; exact SeekFrame.refl _

theorem seek_keeps (s : State) (sp : SSpec) (off : Int) (w : Whence) (h : Rel s sp) (hns : NoSeekSkip s) :
    (seek s off w).2.skips = s.skips ∧ NoSeekSkip (seek s off w).2 := by
  have hfr := seek_frame s sp off w h
  refine ⟨hfr.skips, ?_⟩
  unfold NoSeekSkip at *
  rw [hfr.noSkipper, hfr.hasSeeker]; exact hns

theorem seek_seeksOk (s : State) (off : Int) (w : Whence) (h : Rel s sp) (hq : SeeksOk s.seeks) :
    SeeksOk (seek s off w).2.seeks := by
  by_cases hf : s.fatal = true
  · simp [seek, hf]; exact hq
  · have hf' : s.fatal = false := by simpa using hf
    by_cases hcs : s.canSeek = true
    · obtain ⟨a, b, c⟩ := h.seekable hcs
      have := seek_spec s off w a b hcs hf' h.bufLt
      cases ht : targetOf s off w with
      | none => rw [ht] at this; simp only [] at this; rw [this]; exact hq
      | some t =>
        rw [ht] at this; simp only [] at this
        rcases this with p | ⟨_, p⟩
        · exact (p.2.2 hq).1
        · exact absurd hq p
    · have : s.canSeek = false := by simpa using hcs
      simp [seek, hf', this]; exact hq

/-- **`seek` refines its specification** (for a seek callback that behaves): from any state
coupled to the stream — also one left behind by a refused seek. -/
theorem seek_rel (s : State) (sp : SSpec) (off : Int) (w : Whence) (h : Rel s sp) (hq : SeeksOk s.seeks) :
    Rel (seek s off w).2 (specSeek sp off w).2 ∧ (seek s off w).1 = (specSeek sp off w).1 := by
  unfold specSeek
  by_cases hf : s.fatal = true
  · have e : seek s off w = (-30, s) := by simp [seek, hf]
    have : sp.fatal = true := by rw [h.fatal]; exact hf
    rw [e]; simp only [this, if_true]
    exact ⟨h, by first | rfl | trivial⟩
  · have hf' : s.fatal = false := by simpa using hf
    have hspf : sp.fatal = false := by rw [h.fatal]; exact hf'
    simp only [hspf, Bool.false_eq_true, if_false]
    by_cases hcs : s.canSeek = true
    · have hspc : sp.canSeek = true := by rw [h.canSeek]; exact hcs
      simp only [hspc, Bool.not_true, Bool.false_eq_true, if_false]
      obtain ⟨a, b, c⟩ := h.seekable hcs
      have hsp := seek_spec s off w a b hcs hf' h.bufLt
      have htg : specTarget sp off w = targetOf s off w := by
        unfold specTarget targetOf
        cases w <;> simp [h.pos hf', c]
      rw [htg]
      cases ht : targetOf s off w with
      | none =>
        rw [ht] at hsp; simp only [] at hsp
        rw [hsp]; exact ⟨h, by first | rfl | trivial⟩
      | some t =>
        rw [ht] at hsp; simp only [] at hsp
        rcases hsp with p | ⟨_, p⟩
        · obtain ⟨p1, p2, p3⟩ := p
          obtain ⟨_, p4⟩ := p3 hq
          rw [← c] at p4
          by_cases hin : 0 ≤ t ∧ t ≤ (sp.all.length : Int)
          · rw [if_pos hin] at p4
            dsimp only
            rw [if_pos hin]
            refine ⟨?_, p4⟩
            rcases p1 with ok | bad
            · obtain ⟨o1, o2, o3, o4, o5, o6, o7⟩ := ok
              rw [p4] at o4 o5
              exact { fatal := by show false = _; rw [o7.fatal, hf'],
                      term := by show sp.term = _; rw [o7.term]; exact h.term,
                      canSeek := by show true = _; rw [o7.canSeek, hcs],
                      bufLt := o2.bufLt,
                      seekable := fun _ => ⟨o3, by rw [o7.hasSeeker]; exact b,
                        by show sp.all = _; unfold allBytes; rw [o7.nodes]; exact c⟩,
                      pos := fun _ => o4.symm,
                      sync := fun _ => ⟨o2, fun _ => by show remaining _ = sp.all.drop t.toNat; rw [o5, c]⟩ }
            · exfalso; have := bad.1; omega
          · rw [if_neg hin] at p4
            dsimp only
            rw [if_neg hin]
            refine ⟨?_, p4⟩
            rcases p1 with ok | bad
            · exfalso; have := ok.1; omega
            · obtain ⟨_, bf, bc⟩ := bad
              exact { fatal := by show false = _; rw [bf.fatal, hf'],
                      term := by show sp.term = _; rw [bf.term]; exact h.term,
                      canSeek := by show true = _; rw [bf.canSeek, hcs],
                      bufLt := by rw [bf.bufSize]; exact h.bufLt,
                      seekable := fun _ => ⟨bc, by rw [bf.hasSeeker]; exact b,
                        by show sp.all = _; unfold allBytes; rw [bf.nodes]; exact c⟩,
                      pos := fun hfz => by
                        show sp.pos = _
                        rw [bf.position]; exact h.pos hf',
                      sync := fun hl => by cases hl }
        · exact absurd hq p
    · have hcs' : s.canSeek = false := by simpa using hcs
      have hspc : sp.canSeek = false := by rw [h.canSeek]; exact hcs'
      have e : seek s off w = (-25, s) := by simp [seek, hf', hcs']
      rw [e]; simp only [hspc, Bool.not_false, if_true]
      exact ⟨h, by first | rfl | trivial⟩

end LA.RA
