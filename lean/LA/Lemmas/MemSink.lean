/- Lemmas for the memory sink model (`LA.MemSink`). -/
import LA.Lemmas.ClientWrite
import LA.Model.MemSink
namespace LA.MemSink
open LA.CW

/-- Representation invariant of the memory sink. -/
def MemOk (m : Mem) : Prop :=
  m.used ≤ m.size ∧ m.size ≤ m.buf.length ∧ m.oob = false ∧ m.clientUsed = m.used

theorem memoryWrite_ok (m : Mem) (d : List Cell) (h : MemOk m) : MemOk (memoryWrite m d).2 := by
  obtain ⟨h1, h2, h3, h4⟩ := h
  unfold memoryWrite
  split
  · exact ⟨h1, h2, h3, h4⟩
  · rename_i hfit
    have hle : m.used + d.length ≤ m.buf.length := by omega
    rw [poke_eq_some hle]
    refine ⟨by simp only []; omega, ?_, h3, rfl⟩
    simp only [List.length_append, List.length_take, List.length_drop]; omega

end LA.MemSink
