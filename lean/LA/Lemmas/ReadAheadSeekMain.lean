/-
Helper lemmas for `__archive_read_filter_seek`, part 4: the walk back of SEEK_END, the final
`client_seek_proxy(SEEK_SET)` with the reset of the filter, and the whole operation.
-/
import LA.Lemmas.ReadAheadSeekWalk
set_option linter.unusedSimpArgs false
set_option linter.unusedVariables false
namespace LA.RA

/-- Positions and sizes of all nodes up to `c` are recorded. -/
def Full (s : State) (c : Nat) : Prop :=
  (∀ j, j ≤ c → s.begins[j]? = some (prefixLen s.nodes j : Int)) ∧
  (∀ j, j ≤ c → s.sizes[j]? = some (nlen s.nodes j : Int))

theorem full_of_known {s : State} {c : Nat} (hk : Known s c) (hz : s.sizes[c]? = some (nlen s.nodes c : Int)) :
    Full s c := by
  refine ⟨hk.1, fun j hj => ?_⟩
  by_cases h : j = c
  · subst h; exact hz
  · exact hk.2 j (by omega)

/-- Third walk of SEEK_END. `r + offset` (the target) is kept; the walk stops at the node
that holds the target, or at the first node. -/
theorem walkBack_spec (s : State) (c0 c : Nat) (r offset : Int) (hf : Full s c0) (hc : c ≤ c0)
    (hcl : c < s.nodes.length) (hr : r = (prefixLen s.nodes (c + 1) : Int)) :
    ∃ c' r' off', walkBack s c r offset = some (c', r', off') ∧ c' ≤ c ∧ r' + off' = r + offset ∧
      ((prefixLen s.nodes c' : Int) ≤ r + offset ∨ c' = 0) ∧
      (c' < c → r + offset < (prefixLen s.nodes (c' + 1) : Int)) := by
  induction c generalizing r offset with
  | zero => exact ⟨0, r, offset, rfl, Nat.le_refl _, rfl, Or.inr rfl, fun h => by omega⟩
  | succ n ih =>
    unfold walkBack
    rw [hf.1 (n + 1) hc, hf.2 (n + 1) hc, hf.1 n (by omega), hf.2 n (by omega)]
    simp only []
    by_cases hge : r + offset ≥ (prefixLen s.nodes (n + 1) : Int)
    · rw [if_pos hge]
      exact ⟨n + 1, r, offset, rfl, Nat.le_refl _, rfl, Or.inl hge, fun h => by omega⟩
    · rw [if_neg hge]
      have h1 : ((prefixLen s.nodes n : Nat) : Int) + (nlen s.nodes n : Int) = (prefixLen s.nodes (n + 1) : Int) := by
        rw [prefixLen_succ' s.nodes n (by omega)]; push_cast; rfl
      have h2 : r = (prefixLen s.nodes (n + 1) : Int) + (nlen s.nodes (n + 1) : Int) := by
        rw [hr, prefixLen_succ' s.nodes (n + 1) hcl]; push_cast; rfl
      obtain ⟨c', r', off', e1, e2, e3, e4, e5⟩ := ih ((prefixLen s.nodes n : Int) + (nlen s.nodes n : Int))
        (offset + (nlen s.nodes (n + 1) : Int)) (by omega) (by omega) h1
      have hT : (prefixLen s.nodes n : Int) + (nlen s.nodes n : Int) + (offset + (nlen s.nodes (n + 1) : Int)) = r + offset := by
        rw [h1, h2]; omega
      rw [hT] at e3 e4 e5
      refine ⟨c', r', off', e1, by omega, e3, e4, ?_⟩
      intro hlt
      by_cases hcn : c' = n
      · subst hcn; omega
      · exact e5 (by omega)

/-- What a successful seek leaves alone. -/
structure SeekFrame (s s' : State) : Prop where
  bufSize : s'.bufSize = s.bufSize
  fatal : s'.fatal = s.fatal
  skips : s'.skips = s.skips
  noSkipper : s'.noSkipper = s.noSkipper
  hasSeeker : s'.hasSeeker = s.hasSeeker
  canSeek : s'.canSeek = s.canSeek
  canSkip : s'.canSkip = s.canSkip
  nodes : s'.nodes = s.nodes
  blk : s'.blk = s.blk
  term : s'.term = s.term

theorem SeekFrame.of_filt {s s' : State} (h : Filt s s') : SeekFrame s s' :=
  ⟨h.bufSize, h.fatal, h.skips, h.noSkipper, h.hasSeeker, h.canSeek, h.canSkip, h.nodes, h.blk, h.term⟩

theorem SeekFrame.trans {a b c : State} (h1 : SeekFrame a b) (h2 : SeekFrame b c) : SeekFrame a c :=
  ⟨h2.bufSize.trans h1.bufSize, h2.fatal.trans h1.fatal, h2.skips.trans h1.skips, h2.noSkipper.trans h1.noSkipper,
   h2.hasSeeker.trans h1.hasSeeker, h2.canSeek.trans h1.canSeek, h2.canSkip.trans h1.canSkip,
   h2.nodes.trans h1.nodes, h2.blk.trans h1.blk, h2.term.trans h1.term⟩

/-- A seek that succeeded: the filter is consistent again and stands exactly at the position it
reports, whatever state it was in before. -/
def SeekOk (s : State) (r : Int × State) : Prop :=
  0 ≤ r.1 ∧ Inv r.2 ∧ CacheOk r.2 ∧ r.2.position = r.1.toNat ∧
  remaining r.2 = (allBytes s).drop r.1.toNat ∧ r.2.eof = false ∧ SeekFrame s r.2

/-- A seek that failed: reported, the filter proper untouched (position, buffers, flags) — but the
client may have been moved. -/
def SeekFail (s : State) (r : Int × State) : Prop := r.1 < 0 ∧ Filt s r.2 ∧ CacheOk r.2

theorem seekOk_of_filt {s0 s : State} {r : Int × State} (hf : Filt s0 s) (h : SeekOk s r) : SeekOk s0 r := by
  obtain ⟨a1, a2, a3, a4, a5, a6, a7⟩ := h
  refine ⟨a1, a2, a3, a4, ?_, a6, (SeekFrame.of_filt hf).trans a7⟩
  rw [a5]; unfold allBytes; rw [hf.nodes]

theorem seekFail_of_filt {s0 s : State} {r : Int × State} (hf : Filt s0 s) (h : SeekFail s r) : SeekFail s0 r :=
  ⟨h.1, hf.trans h.2.1, h.2.2⟩

theorem take_drop_self (l : List Nat) (n : Nat) : (l.take n).drop n = [] :=
  List.drop_of_length_le (by simp; omega)

/-- The last step: range check, `client_switch_proxy`, `client_seek_proxy(SEEK_SET)`, reset. -/
theorem seekIn_spec (s : State) (c : Nat) (off : Int) (hc : CacheOk s) (hcl : c < s.nodes.length)
    (hb : s.begins[c]? = some (prefixLen s.nodes c : Int)) (hz : s.sizes[c]? = some (nlen s.nodes c : Int))
    (hs : s.hasSeeker = true) (hbl : s.bufSize < 2 ^ 63) :
    (off < 0 ∨ off > (nlen s.nodes c : Int) → seekIn s c off = (-30, s)) ∧
    (0 ≤ off → off ≤ (nlen s.nodes c : Int) →
      (SeekFail s (seekIn s c off) ∧ ¬ SeeksOk s.seeks) ∨
      (SeekOk s (seekIn s c off) ∧ (seekIn s c off).1 ≤ (prefixLen s.nodes c : Int) + off ∧
        (SeeksOk s.seeks → (seekIn s c off).1 = (prefixLen s.nodes c : Int) + off ∧ SeeksOk (seekIn s c off).2.seeks))) := by
  unfold seekIn
  rw [hb, hz]
  simp only []
  constructor
  · intro h; rw [if_pos h]
  · intro h0 h1
    rw [if_neg (by omega)]
    have hf1 := switchTo_filt s c
    obtain ⟨hb1, hz1, hq1⟩ := switchTo_cache s c
    have hcur := switchTo_cursor s c hcl
    have hs1 : (switchTo s c).hasSeeker = true := by rw [hf1.hasSeeker]; exact hs
    have hf2 := clientSeek_filt (switchTo s c) .set off
    obtain ⟨hb2, hz2⟩ := clientSeek_cache (switchTo s c) .set off
    have hck2 : CacheOk (clientSeek (switchTo s c) .set off).2 :=
      cacheOk_congr (hf1.trans hf2).nodes (hb2.trans hb1) (hz2.trans hz1) hc
    have htgt : seekTarget (switchTo s c) .set off = off := rfl
    rcases clientSeek_spec (switchTo s c) .set off hs1 with ⟨a1, a2, a3⟩ | ⟨a1, a2, a3, a4, a5⟩
    · left
      rw [if_pos a1]
      refine ⟨⟨a1, hf1.trans hf2, hck2⟩, ?_⟩
      intro hok
      have := a3 (by rw [hq1]; exact hok)
      rw [htgt] at this; omega
    · right
      rw [if_neg (by omega)]
      rw [htgt] at a3 a5
      generalize hr : clientSeek (switchTo s c) .set off = r at *
      obtain ⟨r1, s2⟩ := r
      simp only [] at a1 a3 a4 a5 hf2 hb2 hz2 hck2 ⊢
      have hge : r1 + (prefixLen s.nodes c : Int) ≥ 0 := by omega
      unfold finishSeek
      rw [if_pos hge]
      simp only []
      have hpos : (r1 + (prefixLen s.nodes c : Int)).toNat = prefixLen s.nodes c + r1.toNat := by omega
      -- where the client stands now
      have hlt : cursor (switchTo s c) < ({ (switchTo s c) with seeks := (switchTo s c).seeks.tail } : State).nodes.length := by
        show cursor (switchTo s c) < (switchTo s c).nodes.length
        rw [hcur, hf1.nodes]; exact hcl
      have htail : tailBytes s2 = (allBytes s).drop (prefixLen s.nodes c + r1.toNat) := by
        rw [a4, place_tail, hcur]
        show (nodeAt (switchTo s c) c).drop r1.toNat ++ ((switchTo s c).nodes.drop (c + 1)).flatten = _
        have hn : nodeAt (switchTo s c) c = (s.nodes[c]?).getD [] := by unfold nodeAt; rw [hf1.nodes]
        rw [hn, hf1.nodes]
        unfold allBytes
        rw [flatten_drop_node s.nodes c r1.toNat hcl (by show r1.toNat ≤ nlen s.nodes c; omega)]
      have hok2 := place_srcOk { (switchTo s c) with seeks := (switchTo s c).seeks.tail } ((switchTo s c).epoch + 1)
        (cursor (switchTo s c)) r1.toNat
      rw [← a4] at hok2
      refine ⟨⟨by omega, ?_, ?_, rfl, ?_, rfl, ?_⟩, by omega, ?_⟩
      · exact { cbIn := by simp, bufLt := by show s2.bufSize < _; rw [(hf1.trans hf2).bufSize]; exact hbl,
                clientEq := by simp, prov := ⟨[], [], by simp, by simp, by simp [take_drop_self], by simp⟩,
                eofSrc := (by intro h; cases h), srcOk := hok2.1, laterOk := hok2.2 }
      · exact cacheOk_congr (s := s2) rfl rfl rfl hck2
      · rw [hpos, ← htail]
        simp [remaining, tailBytes]
      · have := SeekFrame.of_filt (hf1.trans hf2)
        exact ⟨this.bufSize, this.fatal, this.skips, this.noSkipper, this.hasSeeker, this.canSeek, this.canSkip,
               this.nodes, this.blk, this.term⟩
      · intro hok
        have := a5 (Or.inl (by rw [hq1]; exact hok))
        refine ⟨by omega, ?_⟩
        show SeeksOk s2.seeks
        rw [a4]; simp [hq1]; exact hok.tail

theorem prefixLen_total (ns : List (List Nat)) : prefixLen ns ns.length = ns.flatten.length :=
  prefixLen_all ns ns.length (Nat.le_refl _)

/-- What both branches establish: the seek either fails (reported) leaving the filter proper
untouched, or succeeds leaving the filter consistent at the reported position; with a
well-behaved seek callback it succeeds exactly on the targets inside the stream, and lands
on the target. -/
def SeekPost (s : State) (t : Int) (r : Int × State) : Prop :=
  (SeekOk s r ∨ SeekFail s r) ∧ (0 ≤ r.1 → 0 ≤ t ∧ t ≤ ((allBytes s).length : Int) ∧ r.1 ≤ t) ∧
  (SeeksOk s.seeks →
    SeeksOk r.2.seeks ∧ (if 0 ≤ t ∧ t ≤ ((allBytes s).length : Int) then r.1 = t else r.1 = -30))

/-- Common tail of SEEK_SET and SEEK_END: the walks have chosen node `c` of the state `s2`
reached from `s`; `t` is the target. -/
theorem seekIn_post (s s2 : State) (c : Nat) (t : Int) (hf : Filt s s2) (hok : SeeksOk s.seeks → SeeksOk s2.seeks)
    (hc : CacheOk s2) (hcl : c < s.nodes.length)
    (hb : s2.begins[c]? = some (prefixLen s.nodes c : Int)) (hz : s2.sizes[c]? = some (nlen s.nodes c : Int))
    (hs : s.hasSeeker = true) (hbl : s.bufSize < 2 ^ 63)
    (hlo : 0 ≤ t → (prefixLen s.nodes c : Int) ≤ t)
    (hhi : t ≤ ((allBytes s).length : Int) → t ≤ (prefixLen s.nodes c : Int) + (nlen s.nodes c : Int))
    (hhi' : ((allBytes s).length : Int) < t → (prefixLen s.nodes c : Int) + (nlen s.nodes c : Int) < t) :
    SeekPost s t (seekIn s2 c (t - (prefixLen s.nodes c : Int))) := by
  have hn : s2.nodes = s.nodes := hf.nodes
  obtain ⟨g1, g2⟩ := seekIn_spec s2 c (t - (prefixLen s.nodes c : Int)) hc (by rw [hn]; exact hcl)
    (by rw [hn]; exact hb) (by rw [hn]; exact hz) (by rw [hf.hasSeeker]; exact hs) (by rw [hf.bufSize]; exact hbl)
  rw [hn] at g1 g2
  have hple : (prefixLen s.nodes c : Int) ≥ 0 := by omega
  by_cases hin : 0 ≤ t ∧ t ≤ ((allBytes s).length : Int)
  · have h0 : 0 ≤ t - (prefixLen s.nodes c : Int) := by have := hlo hin.1; omega
    have h1 : t - (prefixLen s.nodes c : Int) ≤ (nlen s.nodes c : Int) := by have := hhi hin.2; omega
    rcases g2 h0 h1 with ⟨b1, b2⟩ | ⟨b1, b2, b3⟩
    · refine ⟨Or.inr (seekFail_of_filt hf b1), fun h => ?_, fun h => absurd (hok h) b2⟩
      have := b1.1; omega
    · refine ⟨Or.inl (seekOk_of_filt hf b1), fun _ => ⟨hin.1, hin.2, by omega⟩, fun h => ?_⟩
      obtain ⟨c1, c2⟩ := b3 (hok h)
      rw [if_pos hin]
      exact ⟨c2, by omega⟩
  · have hout : t - (prefixLen s.nodes c : Int) < 0 ∨ t - (prefixLen s.nodes c : Int) > (nlen s.nodes c : Int) := by
      by_cases hneg : t < 0
      · left; omega
      · right
        have : ((allBytes s).length : Int) < t := by omega
        have := hhi' this; omega
    rw [g1 hout]
    refine ⟨Or.inr ⟨by omega, hf, hc⟩, fun h => by simp at h, fun h => ?_⟩
    rw [if_neg hin]
    exact ⟨hok h, rfl⟩

theorem seekSet_spec (s : State) (t : Int) (hc : CacheOk s) (hs : s.hasSeeker = true) (hbl : s.bufSize < 2 ^ 63) :
    SeekPost s t (seekSet s t) ∨ (SeekFail s (seekSet s t) ∧ ¬ SeeksOk s.seeks) := by
  unfold seekSet
  have hne := hc.ne
  obtain ⟨c1, s1, e1, e2, e3, e4, e5, e6, e7, e8⟩ :=
    walkKnown_spec (some t) (s.nodes.length - 1) 0 s hc (known_zero s hc) (passed_zero _ _) (by omega)
  rw [e1]
  simp only []
  have hn1 : s1.nodes = s.nodes := e7.nodes
  obtain ⟨w1, w2⟩ := walkProbe_spec (some t) (s.nodes.length - 1 - c1) c1 s1 e4 e5 (by rw [hn1]; exact e6)
    (by rw [hn1]; omega) (by rw [e7.hasSeeker]; exact hs)
  have hq1 : s1.seeks = s.seeks := e8.2.2.1
  cases hw : walkProbe (some t) (s.nodes.length - 1 - c1) c1 s1 with
  | fail r s2 =>
    obtain ⟨f1, f2, f3, f4⟩ := w1 r s2 hw
    right
    exact ⟨⟨f1, e7.trans f4, f3⟩, by rw [← hq1]; exact f2⟩
  | at_ c2 s2 =>
    obtain ⟨d0, d1, d2, d3, d4, d5, d6, d7, d8⟩ := w2 c2 s2 hw
    rw [hn1] at d1 d4 d5 d6
    simp only []
    have hb2 : s2.begins[c2]? = some (prefixLen s.nodes c2 : Int) := by
      have := d3.1 c2 (Nat.le_refl _)
      rw [d7.nodes, hn1] at this; exact this
    rw [hb2]
    simp only []
    left
    have hcl : c2 < s.nodes.length := by omega
    have hsucc := prefixLen_succ' s.nodes c2 hcl
    have htot : prefixLen s.nodes (c2 + 1) ≤ (allBytes s).length := prefixLen_le s.nodes (c2 + 1)
    apply seekIn_post s s2 c2 t (e7.trans d7) (fun h => d8 (by rw [hq1]; exact h)) d2 hcl hb2 d4 hs hbl
    · intro h0
      by_cases hz : c2 = 0
      · subst hz; rw [prefixLen_zero]; exact h0
      · have := d5 t rfl (c2 - 1) (by omega)
        have hc : c2 - 1 + 1 = c2 := by omega
        rw [hc] at this; exact this
    · intro hle
      rcases d6 with h | h
      · simp [holds] at h; omega
      · have : c2 + 1 = s.nodes.length := by omega
        rw [this, prefixLen_total] at hsucc
        unfold allBytes at hle; omega
    · intro hgt
      unfold allBytes at hgt htot; omega

theorem seekEnd_spec (s : State) (offset : Int) (hc : CacheOk s) (hs : s.hasSeeker = true) (hbl : s.bufSize < 2 ^ 63) :
    SeekPost s (offset + ((allBytes s).length : Int)) (seekEnd s offset) ∨ (SeekFail s (seekEnd s offset) ∧ ¬ SeeksOk s.seeks) := by
  unfold seekEnd
  have hne := hc.ne
  obtain ⟨c1, s1, e1, e2, e3, e4, e5, e6, e7, e8⟩ :=
    walkKnown_spec none (s.nodes.length - 1) 0 s hc (known_zero s hc) (passed_zero _ _) (by omega)
  rw [e1]
  simp only []
  have hn1 : s1.nodes = s.nodes := e7.nodes
  obtain ⟨w1, w2⟩ := walkProbe_spec none (s.nodes.length - 1 - c1) c1 s1 e4 e5 (by rw [hn1]; exact e6)
    (by rw [hn1]; omega) (by rw [e7.hasSeeker]; exact hs)
  have hq1 : s1.seeks = s.seeks := e8.2.2.1
  cases hw : walkProbe none (s.nodes.length - 1 - c1) c1 s1 with
  | fail r s2 =>
    obtain ⟨f1, f2, f3, f4⟩ := w1 r s2 hw
    right
    exact ⟨⟨f1, e7.trans f4, f3⟩, by rw [← hq1]; exact f2⟩
  | at_ c2 s2 =>
    obtain ⟨d0, d1, d2, d3, d4, d5, d6, d7, d8⟩ := w2 c2 s2 hw
    rw [hn1] at d1 d4 d5 d6
    simp only []
    have hn2 : s2.nodes = s.nodes := (e7.trans d7).nodes
    have hfull : Full s2 c2 := full_of_known d3 (by rw [hn2]; exact d4)
    have hlast : c2 = s.nodes.length - 1 := by
      rcases d6 with h | h
      · simp [holds] at h
      · exact h
    have hcl : c2 < s.nodes.length := by omega
    rw [hfull.1 c2 (Nat.le_refl _), hfull.2 c2 (Nat.le_refl _)]
    simp only []
    have hr : ((prefixLen s2.nodes c2 : Nat) : Int) + (nlen s2.nodes c2 : Int) = (prefixLen s2.nodes (c2 + 1) : Int) := by
      rw [prefixLen_succ' s2.nodes c2 (by rw [hn2]; exact hcl)]; push_cast; rfl
    obtain ⟨c3, r3, off3, b1, b2, b3, b4, b5⟩ := walkBack_spec s2 c2 c2
      (((prefixLen s2.nodes c2 : Nat) : Int) + (nlen s2.nodes c2 : Int)) offset hfull (Nat.le_refl _)
      (by rw [hn2]; exact hcl) hr
    rw [b1]
    simp only []
    rw [hfull.1 c3 b2]
    simp only []
    rw [hn2] at b3 b4 b5 hr ⊢
    have hT : ((prefixLen s.nodes c2 : Nat) : Int) + (nlen s.nodes c2 : Int) + offset = offset + ((allBytes s).length : Int) := by
      have : c2 + 1 = s.nodes.length := by omega
      rw [hr, this, prefixLen_total]; unfold allBytes; omega
    rw [hT] at b3 b4 b5
    rw [b3]
    left
    have hcl3 : c3 < s.nodes.length := by omega
    have hsucc := prefixLen_succ' s.nodes c3 hcl3
    have htot : prefixLen s.nodes (c3 + 1) ≤ (allBytes s).length := prefixLen_le s.nodes (c3 + 1)
    have hb3 : s2.begins[c3]? = some (prefixLen s.nodes c3 : Int) := by
      have := hfull.1 c3 b2; rw [hn2] at this; exact this
    have hz3 : s2.sizes[c3]? = some (nlen s.nodes c3 : Int) := by
      have := hfull.2 c3 b2; rw [hn2] at this; exact this
    apply seekIn_post s s2 c3 (offset + ((allBytes s).length : Int)) (e7.trans d7) (fun h => d8 (by rw [hq1]; exact h))
      d2 hcl3 hb3 hz3 hs hbl
    · intro h0
      rcases b4 with h | h
      · exact h
      · subst h; rw [prefixLen_zero]; exact h0
    · intro hle
      by_cases hlt : c3 < c2
      · have := b5 hlt; omega
      · have : c3 + 1 = s.nodes.length := by omega
        rw [this, prefixLen_total] at hsucc
        simp only [allBytes] at hle ⊢; omega
    · intro hgt
      simp only [allBytes] at hgt htot ⊢; omega

/-- The target of a seek request in stream offsets. -/
def targetOf (s : State) (off : Int) (w : Whence) : Option Int :=
  match w with
  | .set => some off
  | .cur => some (off + s.position)
  | .end_ => some (off + ((allBytes s).length : Int))
  | .other => none

/-- **`__archive_read_filter_seek`.** -/
theorem seek_spec (s : State) (off : Int) (w : Whence) (hc : CacheOk s) (hs : s.hasSeeker = true)
    (hcs : s.canSeek = true) (hf : s.fatal = false) (hbl : s.bufSize < 2 ^ 63) :
    match targetOf s off w with
    | none => seek s off w = (-30, s)
    | some t => SeekPost s t (seek s off w) ∨ (SeekFail s (seek s off w) ∧ ¬ SeeksOk s.seeks) := by
  unfold seek
  simp only [hf, hcs, Bool.false_eq_true, if_false, Bool.not_true]
  cases w with
  | set => exact seekSet_spec s off hc hs hbl
  | cur => exact seekSet_spec s (off + s.position) hc hs hbl
  | end_ => exact seekEnd_spec s off hc hs hbl
  | other => rfl

end LA.RA
