/-
C12 helper: the entry phase of `archive_write_disk` over the tar-linkified capture of a
tree.  `P1` is the invariant that holds after each `restoreEntry`; `restoreAll_tar`
carries it through the whole entry list.
-/
import LA.Lemmas.TreeFS
set_option linter.unusedSimpArgs false
set_option linter.unusedVariables false
namespace LA.Tree

/-- What the proofs need to know about the captured entry list (`capture t` of a `TreeOk`
tree satisfies it). -/
structure EntriesOk (es : List Entry) : Prop where
  nodup : (es.map (·.path)).Nodup
  fresh : ∀ e ∈ es, e.hardlink = none
  leaves : ∀ e ∈ es, e.ftype ≠ .dir →
    (e.ftype = .reg ∨ e.ftype = .lnk ∨ e.ftype = .fifo) ∧
      (e.ftype = .lnk → e.mode = 0o777 ∧ kindOf e ≠ .lnk [])
  modes : ∀ e ∈ es, e.mode < 4096
  links : ∀ a ∈ es, ∀ b ∈ es, a.ftype ≠ .dir → b.ftype ≠ .dir → a.ino = b.ino →
    a.ftype = b.ftype ∧ a.mode = b.mode ∧ a.mtime = b.mtime ∧ a.payload = b.payload ∧ a.nlink = b.nlink
  counts : ∀ a ∈ es, a.ftype ≠ .dir →
    (es.filter fun b => b.ftype != .dir && b.ino == a.ino).length ≤ a.nlink ∧ a.nlink < 4294967296

theorem pt_false_not_dir {e : Entry} (h : e.pt = false) : e.ftype ≠ .dir := by
  intro hd; simp [Entry.pt, hd] at h

theorem EntriesOk.linkOk {es : List Entry} (h : EntriesOk es) : LinkOk es := by
  intro e he hp
  have hnd := pt_false_not_dir hp
  have hc := h.counts e he hnd
  refine ⟨hc.2, ?_, ?_⟩
  · refine Nat.le_trans ?_ hc.1
    rw [← List.countP_eq_length_filter, ← List.countP_eq_length_filter]
    apply List.countP_mono_left
    intro x _ hx
    simp only [Bool.and_eq_true, Bool.not_eq_true', beq_iff_eq, bne_iff_ne, ne_eq] at hx ⊢
    exact ⟨pt_false_not_dir hx.1, hx.2⟩
  · intro x hx hxp hi
    exact (h.links x hx e he (pt_false_not_dir hxp) hnd hi).2.2.2.2

/-- Members of one inode agree on being passed through by the resolver. -/
theorem EntriesOk.pt_agree {es : List Entry} (h : EntriesOk es) {a b : Entry} (ha : a ∈ es) (hb : b ∈ es)
    (han : a.ftype ≠ .dir) (hbn : b.ftype ≠ .dir) (hi : a.ino = b.ino) : a.pt = b.pt := by
  have := h.links a ha b hb han hbn hi
  simp [Entry.pt, this.1, this.2.2.2.2]

/-- An entry with `nlink = 1` is the only name of its inode. -/
theorem EntriesOk.single {es : List Entry} (h : EntriesOk es) {a b : Entry} (ha : a ∈ es) (hb : b ∈ es)
    (han : a.ftype ≠ .dir) (hbn : b.ftype ≠ .dir) (hi : a.ino = b.ino) (h1 : a.nlink = 1) : a = b := by
  have hc := (h.counts a ha han).1
  rw [h1] at hc
  -- both a and b pass the filter
  by_cases hab : a = b
  · exact hab
  · exfalso
    have hpa : (a.ftype != .dir && a.ino == a.ino) = true := by simp [han]
    have hpb : (b.ftype != .dir && b.ino == a.ino) = true := by simp [hbn, hi]
    rw [← List.countP_eq_length_filter] at hc
    obtain ⟨l1, l2, rfl⟩ := List.append_of_mem ha
    have hb' : b ∈ l1 ∨ b ∈ l2 := by
      rcases List.mem_append.mp hb with h1 | h1
      · exact Or.inl h1
      · rcases List.mem_cons.mp h1 with h2 | h2
        · exact absurd h2.symm hab
        · exact Or.inr h2
    rw [List.countP_append, List.countP_cons] at hc
    simp only [hpa, if_true] at hc
    rcases hb' with h1 | h1
    · have : 0 < List.countP (fun x => x.ftype != .dir && x.ino == a.ino) l1 :=
        List.countP_pos_iff.mpr ⟨b, h1, hpb⟩
      omega
    · have : 0 < List.countP (fun x => x.ftype != .dir && x.ino == a.ino) l2 :=
        List.countP_pos_iff.mpr ⟨b, h1, hpb⟩
      omega

theorem kindOf_ne_dir {e : Entry} (h : e.ftype ≠ .dir) : kindOf e ≠ .dir := by
  unfold kindOf
  cases hf : e.ftype <;> cases hp : e.payload <;> simp_all

theorem kindOf_dir {e : Entry} (h : e.ftype = .dir) : kindOf e = .dir := by
  unfold kindOf; simp [h]

theorem kindOf_lnk {e : Entry} (h : e.ftype = .lnk) : ∃ t, kindOf e = .lnk t := by
  unfold kindOf
  cases hp : e.payload <;> simp [h, hp]

theorem kindOf_not_lnk {e : Entry} (h : e.ftype ≠ .lnk) : ∀ t, kindOf e ≠ .lnk t := by
  unfold kindOf
  intro t
  cases hf : e.ftype <;> cases hp : e.payload <;> simp_all

/-! ### bit facts about the temporary directory mode -/

theorem and_or_self_right (a b : Nat) : (a &&& b) ||| b = b := by
  apply Nat.eq_of_testBit_eq
  intro i
  simp only [Nat.testBit_or, Nat.testBit_and]
  cases a.testBit i <;> cases b.testBit i <;> rfl

theorem tmpDirMode_w (m : Nat) : ((m ||| minimumDirMode) &&& maximumDirMode) &&& 0o200 ≠ 0 := by
  have h1 : ((m ||| minimumDirMode) &&& maximumDirMode) &&& 0o200 = 0o200 := by
    rw [Nat.and_assoc]
    have : maximumDirMode &&& 0o200 = 0o200 := by decide
    rw [this, Nat.and_or_distrib_right]
    have : minimumDirMode &&& 0o200 = 0o200 := by decide
    rw [this]
    exact and_or_self_right m 0o200
  rw [h1]; decide

theorem tmpDirMode_x (m : Nat) : ((m ||| minimumDirMode) &&& maximumDirMode) &&& 0o100 ≠ 0 := by
  have h1 : ((m ||| minimumDirMode) &&& maximumDirMode) &&& 0o100 = 0o100 := by
    rw [Nat.and_assoc]
    have : maximumDirMode &&& 0o100 = 0o100 := by decide
    rw [this, Nat.and_or_distrib_right]
    have : minimumDirMode &&& 0o100 = 0o100 := by decide
    rw [this]
    exact and_or_self_right m 0o100
  rw [h1]; decide

theorem mode_mask (m : Nat) (h : m < 4096) : m &&& 0o7777 = m := by
  have : (0o7777 : Nat) = 2 ^ 12 - 1 := by decide
  rw [this, Nat.and_two_pow_sub_one_eq_mod]
  exact Nat.mod_eq_of_lt (by simpa using h)

/-! ### the invariant of the entry phase -/

def fixupOf (o : Opts) (rootMode : Nat) (e : Entry) : Fixup :=
  { path := e.path, mode := e.mode, mtime := e.mtime,
    doMode := if e.path = [] then (e.mode != rootMode && o.perm) else true, doTimes := true }

structure P1 (o : Opts) (dstMode : Nat) (seen : List Entry) (w : WD) : Prop where
  names : w.fs.map (·.1) = [] :: (seen.drop 1).map (·.path)
  nd : (w.fs.map (·.1)).Nodup
  root : w.fs.lookup [] = some { ino := 0, kind := .dir, mode := dstMode, mtime := none }
  dirs : ∀ x ∈ w.fs, x.2.kind = .dir →
    x.2.mtime = none ∧ (o.root = true ∨ (x.2.mode &&& 0o200 ≠ 0 ∧ x.2.mode &&& 0o100 ≠ 0))
  closed : ∀ p n, (p, n) ∈ w.fs → p ≠ [] → ∃ d, w.fs.lookup p.dropLast = some d ∧ d.kind = .dir
  inoLt : ∀ x ∈ w.fs, x.2.ino < w.next
  dirIno : ∀ p n q m, (p, n) ∈ w.fs → (q, m) ∈ w.fs → n.kind = .dir → n.ino = m.ino → p = q
  seenDir : ∀ e ∈ seen, e.ftype = .dir → ∃ n, w.fs.lookup e.path = some n ∧ n.kind = .dir
  seenLeaf : ∀ e ∈ seen, e.ftype ≠ .dir →
    ∃ n, w.fs.lookup e.path = some n ∧ n.kind = kindOf e ∧ n.mode = e.mode ∧ n.mtime = some e.mtime
  inos : ∀ a ∈ seen, ∀ b ∈ seen, a.ftype ≠ .dir → b.ftype ≠ .dir → ∀ n m,
    w.fs.lookup a.path = some n → w.fs.lookup b.path = some m → (n.ino = m.ino ↔ a.ino = b.ino)
  fxNodup : (w.fixups.map (·.path)).Nodup
  fxFrom : ∀ f ∈ w.fixups, ∃ e ∈ seen, e.ftype = .dir ∧ f = fixupOf o dstMode e
  fxAll : ∀ e ∈ seen, e.ftype = .dir → fixupOf o dstMode e ∈ w.fixups

theorem P1.nodupNames {o : Opts} {dm : Nat} {seen : List Entry} {w : WD} (h : P1 o dm seen w)
    (es : List Entry) (rest : List Entry) (hes : es = seen ++ rest) (hn : (es.map (·.path)).Nodup)
    (hroot : ∀ r s, seen = r :: s → r.path = []) (hfirst : seen = [] → ∀ e ∈ rest.drop 1, e.path ≠ []) :
    (w.fs.map (·.1)).Nodup := by
  rw [h.names]
  cases seen with
  | nil =>
    simp
  | cons r s =>
    have hr := hroot r s rfl
    simp only [List.drop_succ_cons, List.drop_zero]
    subst hes
    simp only [List.cons_append, List.map_cons, List.map_append, hr] at hn
    have := hn
    rw [List.nodup_cons] at this ⊢
    refine ⟨?_, ?_⟩
    · intro hm; exact this.1 (List.mem_append_left _ hm)
    · exact (List.nodup_append.mp this.2).1

theorem lookup_snoc_old {fs : FS} {x : Path × FNode} {p : Path} {n : FNode} (h : fs.lookup p = some n) :
    FS.lookup (fs ++ [x]) p = some n := by
  rw [lookup_append, h]

theorem lookup_snoc_new {fs : FS} {p : Path} {n : FNode} (h : p ∉ fs.map (·.1)) :
    FS.lookup (fs ++ [(p, n)]) p = some n := by
  rw [lookup_append, lookup_none_iff.mpr h]
  simp [lookup_cons]

theorem lookup_snoc_inv {fs : FS} {x : Path × FNode} {p : Path} {n : FNode}
    (h : FS.lookup (fs ++ [x]) p = some n) : fs.lookup p = some n ∨ (fs.lookup p = none ∧ x = (p, n)) := by
  rw [lookup_append] at h
  cases hl : fs.lookup p with
  | some m => rw [hl] at h; left; simpa using h
  | none =>
    rw [hl] at h
    right
    refine ⟨rfl, ?_⟩
    simp only [lookup_cons, lookup_nil] at h
    by_cases hx : x.1 = p
    · simp [hx] at h
      cases x; simp_all
    · simp [hx] at h

/-- Appending one freshly created object keeps the invariant. -/
theorem P1_add {o : Opts} {dm : Nat} {seen : List Entry} {w : WD} (h : P1 o dm seen w) (hs : seen ≠ [])
    (e : Entry) (node : FNode) (nx : Nat) (fx : List Fixup)
    (hnew : e.path ∉ w.fs.map (·.1))
    (hpar : ∃ d, w.fs.lookup e.path.dropLast = some d ∧ d.kind = .dir)
    (hnx : w.next ≤ nx) (hino : node.ino < nx)
    (hdir : e.ftype = .dir → node.kind = .dir ∧ node.mtime = none ∧
      (o.root = true ∨ (node.mode &&& 0o200 ≠ 0 ∧ node.mode &&& 0o100 ≠ 0)) ∧ w.next ≤ node.ino ∧
      fx = fixupOf o dm e :: w.fixups)
    (hleaf : e.ftype ≠ .dir → node.kind = kindOf e ∧ node.mode = e.mode ∧ node.mtime = some e.mtime ∧
      fx = w.fixups ∧
      (w.next ≤ node.ino ∨ ∃ q m0, (q, m0) ∈ w.fs ∧ m0.kind ≠ .dir ∧ m0.ino = node.ino) ∧
      ∀ b ∈ seen, b.ftype ≠ .dir → ∀ m, w.fs.lookup b.path = some m → (node.ino = m.ino ↔ e.ino = b.ino))
    (hdiff : ∀ b ∈ seen, b.path ≠ e.path) :
    P1 o dm (seen ++ [e]) { fs := w.fs ++ [(e.path, node)], fixups := fx, next := nx } := by
  have hkind : node.kind = .dir ↔ e.ftype = .dir := by
    constructor
    · intro hk
      by_cases hd : e.ftype = .dir
      · exact hd
      · exact absurd ((hleaf hd).1 ▸ hk) (kindOf_ne_dir hd)
    · intro hd; exact (hdir hd).1
  have holdlk : ∀ b ∈ seen, ∀ n, FS.lookup (w.fs ++ [(e.path, node)]) b.path = some n →
      w.fs.lookup b.path = some n := by
    intro b hb n hn
    rcases lookup_snoc_inv hn with h1 | ⟨_, h2⟩
    · exact h1
    · exact absurd (by simpa using congrArg Prod.fst h2 : e.path = b.path).symm (hdiff b hb)
  have holdnew : ∀ b ∈ seen, ∀ n, w.fs.lookup b.path = some n →
      FS.lookup (w.fs ++ [(e.path, node)]) b.path = some n := fun b _ n hn => lookup_snoc_old hn
  have hnewlk : FS.lookup (w.fs ++ [(e.path, node)]) e.path = some node := lookup_snoc_new hnew
  refine
    { names := ?_, nd := ?_, root := ?_, dirs := ?_, closed := ?_, inoLt := ?_, dirIno := ?_, seenDir := ?_,
      seenLeaf := ?_, inos := ?_, fxNodup := ?_, fxFrom := ?_, fxAll := ?_ }
  · -- names
    simp only [List.map_append, List.map_cons, List.map_nil, h.names]
    cases seen with
    | nil => exact absurd rfl hs
    | cons r s => simp
  · simp only [List.map_append, List.map_cons, List.map_nil]
    rw [List.nodup_append]
    refine ⟨h.nd, by simp, ?_⟩
    intro a ha b hb
    simp only [List.mem_singleton] at hb
    subst hb
    intro hab; subst hab; exact hnew ha
  · exact lookup_snoc_old h.root
  · intro x hx hk
    rcases List.mem_append.mp hx with hx | hx
    · exact h.dirs x hx hk
    · simp only [List.mem_singleton] at hx
      subst hx
      have hd := hdir (hkind.mp hk)
      exact ⟨hd.2.1, hd.2.2.1⟩
  · intro p n hpn hp
    rcases List.mem_append.mp hpn with hx | hx
    · obtain ⟨d, hd, hk⟩ := h.closed p n hx hp
      exact ⟨d, lookup_snoc_old hd, hk⟩
    · simp only [List.mem_singleton, Prod.mk.injEq] at hx
      obtain ⟨d, hd, hk⟩ := hpar
      exact ⟨d, by rw [hx.1]; exact lookup_snoc_old hd, hk⟩
  · intro x hx
    rcases List.mem_append.mp hx with hx | hx
    · exact Nat.lt_of_lt_of_le (h.inoLt x hx) hnx
    · simp only [List.mem_singleton] at hx
      subst hx; exact hino
  · -- directory inode numbers stay unique
    have hnewino : ∀ p n, (p, n) ∈ w.fs → n.kind = .dir → n.ino ≠ node.ino := by
      intro p n h1 hk hi
      have hlt := h.inoLt _ h1
      by_cases hd : e.ftype = .dir
      · have := (hdir hd).2.2.2.1
        simp only at hlt; omega
      · rcases (hleaf hd).2.2.2.2.1 with hfresh | ⟨q', m0, hm0, hk0, hi0⟩
        · simp only at hlt; omega
        · have := h.dirIno p n q' m0 h1 hm0 hk (by rw [hi, hi0])
          subst this
          have hnd := lookup_mem_nodup h.nd h1
          have hnd2 := lookup_mem_nodup h.nd hm0
          rw [hnd] at hnd2
          have : n = m0 := by simpa using hnd2
          subst this
          exact hk0 hk
    intro p n q m hpn hqm hk hi
    rcases List.mem_append.mp hpn with h1 | h1 <;> rcases List.mem_append.mp hqm with h2 | h2
    · exact h.dirIno p n q m h1 h2 hk hi
    · simp only [List.mem_singleton, Prod.mk.injEq] at h2
      obtain ⟨rfl, rfl⟩ := h2
      exact absurd hi (hnewino p n h1 hk)
    · simp only [List.mem_singleton, Prod.mk.injEq] at h1
      obtain ⟨rfl, rfl⟩ := h1
      -- the new node is a directory: its number is fresh
      exfalso
      have hd := hdir (hkind.mp hk)
      have hlt := h.inoLt _ h2
      simp only at hlt
      omega
    · simp only [List.mem_singleton, Prod.mk.injEq] at h1 h2
      rw [h1.1, h2.1]
  · intro b hb hbd
    rcases List.mem_append.mp hb with hb | hb
    · obtain ⟨n, hn, hk⟩ := h.seenDir b hb hbd
      exact ⟨n, lookup_snoc_old hn, hk⟩
    · simp only [List.mem_singleton] at hb
      subst hb
      exact ⟨node, hnewlk, (hdir hbd).1⟩
  · intro b hb hbd
    rcases List.mem_append.mp hb with hb | hb
    · obtain ⟨n, hn, hk⟩ := h.seenLeaf b hb hbd
      exact ⟨n, lookup_snoc_old hn, hk⟩
    · simp only [List.mem_singleton] at hb
      subst hb
      have := hleaf hbd
      exact ⟨node, hnewlk, this.1, this.2.1, this.2.2.1⟩
  · intro a ha b hb had hbd n m hn hm
    rcases List.mem_append.mp ha with ha1 | ha1 <;> rcases List.mem_append.mp hb with hb1 | hb1
    · exact h.inos a ha1 b hb1 had hbd n m (holdlk a ha1 n hn) (holdlk b hb1 m hm)
    · have hbe : b = e := by simpa using hb1
      rw [hbe] at hm hbd ⊢
      rw [hnewlk] at hm
      have hmn : m = node := by simpa using hm.symm
      rw [hmn]
      have := (hleaf hbd).2.2.2.2.2 a ha1 had n (holdlk a ha1 n hn)
      constructor
      · intro hh; exact (this.mp hh.symm).symm
      · intro hh; exact (this.mpr hh.symm).symm
    · have hae : a = e := by simpa using ha1
      rw [hae] at hn had ⊢
      rw [hnewlk] at hn
      have hnn : n = node := by simpa using hn.symm
      rw [hnn]
      exact (hleaf had).2.2.2.2.2 b hb1 hbd m (holdlk b hb1 m hm)
    · have hae : a = e := by simpa using ha1
      have hbe : b = e := by simpa using hb1
      rw [hae] at hn; rw [hbe] at hm
      rw [hnewlk] at hn hm
      have h1 : n = node := by simpa using hn.symm
      have h2 : m = node := by simpa using hm.symm
      rw [h1, h2, hae, hbe]
      simp
  · by_cases hd : e.ftype = .dir
    · rw [(hdir hd).2.2.2.2]
      simp only [List.map_cons, List.nodup_cons]
      refine ⟨?_, h.fxNodup⟩
      intro hm
      obtain ⟨f, hf, hfp⟩ := List.mem_map.mp hm
      obtain ⟨b, hb, _, hfb⟩ := h.fxFrom f hf
      apply hdiff b hb
      rw [hfb] at hfp
      simpa [fixupOf] using hfp
    · rw [(hleaf hd).2.2.2.1]; exact h.fxNodup
  · intro f hf
    by_cases hd : e.ftype = .dir
    · rw [(hdir hd).2.2.2.2] at hf
      rcases List.mem_cons.mp hf with hf | hf
      · exact ⟨e, by simp, hd, hf⟩
      · obtain ⟨b, hb, hbd, hfb⟩ := h.fxFrom f hf
        exact ⟨b, List.mem_append_left _ hb, hbd, hfb⟩
    · rw [(hleaf hd).2.2.2.1] at hf
      obtain ⟨b, hb, hbd, hfb⟩ := h.fxFrom f hf
      exact ⟨b, List.mem_append_left _ hb, hbd, hfb⟩
  · intro b hb hbd
    rcases List.mem_append.mp hb with hb | hb
    · have := h.fxAll b hb hbd
      by_cases hd : e.ftype = .dir
      · rw [(hdir hd).2.2.2.2]; exact List.mem_cons_of_mem _ this
      · rw [(hleaf hd).2.2.2.1]; exact this
    · simp only [List.mem_singleton] at hb
      subst hb
      rw [(hdir hbd).2.2.2.2]
      simp

/-- "Matching options": permissions and times are restored, by the owner of the files. -/
structure OptsOk (o : Opts) : Prop where
  perm : o.perm = true
  time : o.time = true
  same : o.sameOwner = true

theorem canCreate_of {root : Bool} {fs : FS} {p : Path} (hp : p ≠ []) (hnone : fs.lookup p = none)
    (hreach : fs.reach root p = true) {d : FNode} (hd : fs.lookup p.dropLast = some d) (hk : d.kind = .dir)
    (hw : root = true ∨ d.mode &&& 0o200 ≠ 0) : fs.canCreate root p = true := by
  unfold FS.canCreate
  simp only [hd, hnone, hreach, hk]
  rcases hw with hw | hw
  · simp [hp, hw]
  · simp [hp, hw]

/-- The entry for the extraction root itself ("." — a directory in the way of a directory). -/
theorem restoreEntry_root (o : Opts) (ho : OptsOk o) (w : WD) (e : Entry) (dm : Nat)
    (hh : e.hardlink = none) (hd : e.ftype = .dir) (hp : e.path = [])
    (hroot : w.fs.lookup [] = some { ino := 0, kind := .dir, mode := dm, mtime := none }) :
    restoreEntry o w e = ({ w with fixups := fixupOf o dm e :: w.fixups }, .ok) := by
  unfold restoreEntry
  simp only [hh, hd, hp, hroot]
  have hreach : w.fs.reach o.root [] = true := by simp [FS.reach]
  simp [hreach, ho.time, ho.perm, Opts.entryMode, fixupOf, hp]

theorem restoreEntry_mkdir (o : Opts) (ho : OptsOk o) (w : WD) (e : Entry) (dm : Nat)
    (hh : e.hardlink = none) (hd : e.ftype = .dir) (hp : e.path ≠ [])
    (hnone : w.fs.lookup e.path = none) (hcan : w.fs.canCreate o.root e.path = true) :
    restoreEntry o w e =
      (WD.mk (w.fs.add e.path (FNode.mk w.next .dir
            ((andNot (e.mode &&& 0o777) o.umask ||| minimumDirMode) &&& maximumDirMode) none))
         (fixupOf o dm e :: w.fixups) (w.next + 1), .ok) := by
  unfold restoreEntry
  simp only [hh, hd, hnone, hcan]
  simp [ho.time, ho.perm, Opts.entryMode, fixupOf, hp]

theorem restoreEntry_create (o : Opts) (ho : OptsOk o) (w : WD) (e : Entry)
    (hh : e.hardlink = none) (hl : (e.ftype = .reg ∨ e.ftype = .lnk ∨ e.ftype = .fifo))
    (hlm : e.ftype = .lnk → e.mode = 0o777 ∧ kindOf e ≠ .lnk [])
    (hnone : w.fs.lookup e.path = none) (hcan : w.fs.canCreate o.root e.path = true) :
    restoreEntry o w e =
      (WD.mk (w.fs.add e.path (FNode.mk w.next (kindOf e) e.mode (some e.mtime))) w.fixups (w.next + 1), .ok) := by
  unfold restoreEntry
  have hm : o.finalFileMode (o.entryMode e.mode) = e.mode := by
    simp [Opts.finalFileMode, Opts.entryMode, ho.perm, ho.same]
  rcases hl with hl | hl | hl
  · have hk : ∀ t, kindOf e ≠ .lnk t := kindOf_not_lnk (by simp [hl])
    simp only [hh, hl, hnone, hcan, hm, ho.time]
    cases hkk : kindOf e <;> simp_all
  · obtain ⟨t, ht⟩ := kindOf_lnk hl
    have hne : t ≠ [] := by
      intro h; exact (hlm hl).2 (by rw [ht, h])
    simp only [hh, hl, hnone, hcan, hm, ho.time]
    simp [ht, (hlm hl).1, hne]
  · have hk : ∀ t, kindOf e ≠ .lnk t := kindOf_not_lnk (by simp [hl])
    simp only [hh, hl, hnone, hcan, hm, ho.time]
    cases hkk : kindOf e <;> simp_all

theorem restoreEntry_link (o : Opts) (w : WD) (e : Entry) (q : Path) (n : FNode)
    (hh : e.hardlink = some q) (hs : e.sizeSet = false)
    (hq : w.fs.lookup q = some n) (hk : n.kind ≠ .dir)
    (hcan : w.fs.canCreate o.root e.path = true) (hreach : w.fs.reach o.root q = true) :
    restoreEntry o w e = ({ w with fs := w.fs.add e.path n }, .ok) := by
  unfold restoreEntry
  simp only [hh, hq]
  have : (n.kind == .dir) = false := by simpa using hk
  simp [this, hcan, hreach, hs]

theorem kindOf_congr {a b : Entry} (h1 : a.ftype = b.ftype) (h2 : a.payload = b.payload) : kindOf a = kindOf b := by
  unfold kindOf; rw [h1, h2]

theorem add_eq_snoc {o : Opts} {dm : Nat} {seen : List Entry} {w : WD} (h : P1 o dm seen w) (p : Path) (node : FNode)
    {d : FNode} (hd : w.fs.lookup p.dropLast = some d) (hk : d.kind = .dir) :
    w.fs.add p node = w.fs ++ [(p, node)] := by
  unfold FS.add
  rw [touch_id]
  intro x hx hxp
  have hl := lookup_mem_nodup h.nd (p := x.1) (n := x.2) (by simpa using hx)
  rw [hxp, hd] at hl
  have : d = x.2 := by simpa using hl
  rw [← this]
  exact (h.dirs (p.dropLast, d) (lookup_some_mem hd) hk).1

/-- One entry (not the first) of the tar-linkified list keeps the invariant and succeeds. -/
theorem step_tar (o : Opts) (ho : OptsOk o) (dm : Nat) (es : List Entry) (hes : EntriesOk es)
    (seen : List Entry) (e : Entry) (rest : List Entry) (hsplit : es = seen ++ e :: rest) (hs : seen ≠ [])
    (w : WD) (h : P1 o dm seen w) (hp : e.path ≠ [])
    (hpar : ∃ d, w.fs.lookup e.path.dropLast = some d ∧ d.kind = .dir) :
    ∃ w' node, restoreEntry o w (tarHead seen e) = (w', .ok) ∧ w'.fs = w.fs ++ [(e.path, node)] ∧
      P1 o dm (seen ++ [e]) w' := by
  have he : e ∈ es := by rw [hsplit]; simp
  have hseen : ∀ b ∈ seen, b ∈ es := by intro b hb; rw [hsplit]; exact List.mem_append_left _ hb
  have hnd := hes.nodup
  rw [hsplit, List.map_append, List.map_cons] at hnd
  have hdiff : ∀ b ∈ seen, b.path ≠ e.path := by
    intro b hb hbe
    have := (List.nodup_append.mp hnd).2.2 b.path (List.mem_map.mpr ⟨b, hb, rfl⟩) e.path (by simp)
    exact this hbe
  have hnew : e.path ∉ w.fs.map (·.1) := by
    rw [h.names]
    intro hm
    rcases List.mem_cons.mp hm with hm | hm
    · exact hp hm
    · obtain ⟨b, hb, hbe⟩ := List.mem_map.mp hm
      exact hdiff b (List.mem_of_mem_drop hb) hbe
  have hnone := lookup_none_iff.mpr hnew
  obtain ⟨d, hd, hdk⟩ := hpar
  have hsearch : ∀ p n, (p, n) ∈ w.fs → n.kind = .dir → o.root = true ∨ n.mode &&& 0o100 ≠ 0 := by
    intro p n hpn hk
    rcases (h.dirs (p, n) hpn hk).2 with h1 | h1
    · exact Or.inl h1
    · exact Or.inr h1.2
  have hreach := reach_of_parent o.root w.fs h.closed hsearch e.path (Or.inr ⟨d, hd, hdk⟩)
  have hw : o.root = true ∨ d.mode &&& 0o200 ≠ 0 := by
    rcases (h.dirs (_, d) (lookup_some_mem hd) hdk).2 with h1 | h1
    · exact Or.inl h1
    · exact Or.inr h1.1
  have hcan := canCreate_of hp hnone hreach hd hdk hw
  have hfresh := hes.fresh e he
  by_cases hdir : e.ftype = .dir
  · -- a new directory
    have hth : tarHead seen e = e := by simp [tarHead, Entry.pt, hdir]
    rw [hth, restoreEntry_mkdir o ho w e dm hfresh hdir hp hnone hcan, add_eq_snoc h _ _ hd hdk]
    refine ⟨_, _, rfl, rfl, ?_⟩
    apply P1_add h hs e _ _ _ hnew ⟨d, hd, hdk⟩ (Nat.le_succ _) (Nat.lt_succ_self _)
    · intro _
      exact ⟨rfl, rfl, Or.inr ⟨tmpDirMode_w _, tmpDirMode_x _⟩, Nat.le_refl _, rfl⟩
    · intro hc; exact absurd hdir hc
    · exact hdiff
  · have hl := hes.leaves e he hdir
    -- no earlier name of the same inode ⇒ a new inode
    have hcreate : tarHead seen e = e → (∀ b ∈ seen, b.ftype ≠ .dir → e.ino ≠ b.ino) →
        ∃ w' node, restoreEntry o w (tarHead seen e) = (w', .ok) ∧ w'.fs = w.fs ++ [(e.path, node)] ∧
          P1 o dm (seen ++ [e]) w' := by
      intro hth hno
      rw [hth, restoreEntry_create o ho w e hfresh hl.1 hl.2 hnone hcan, add_eq_snoc h _ _ hd hdk]
      refine ⟨_, _, rfl, rfl, ?_⟩
      apply P1_add h hs e _ _ _ hnew ⟨d, hd, hdk⟩ (Nat.le_succ _) (Nat.lt_succ_self _)
      · intro hc; exact absurd hc hdir
      · intro _
        refine ⟨rfl, rfl, rfl, rfl, Or.inl (Nat.le_refl _), ?_⟩
        intro b hb hbd m hm
        have hlt := h.inoLt _ (lookup_some_mem hm)
        constructor
        · intro hh; simp only at hh hlt; omega
        · intro hh; exact absurd hh (hno b hb hbd)
      · exact hdiff
    by_cases hpt : e.pt = true
    · apply hcreate (by simp [tarHead, hpt])
      intro b hb hbd hi
      -- e is passed through although it is no directory: nlink = 1, so it is the only name
      have hn1 : e.nlink = 1 := by
        rcases hl.1 with h1 | h1 | h1 <;> simpa [Entry.pt, h1] using hpt
      have := hes.single he (hseen b hb) hdir hbd hi hn1
      exact hdiff b hb (by rw [this])
    · have hpt : e.pt = false := by simpa using hpt
      cases hfw : firstWith seen e.ino with
      | none =>
        apply hcreate (by simp [tarHead, hpt, hfw])
        intro b hb hbd hi
        have hbp : b.pt = false := by rw [← hes.pt_agree he (hseen b hb) hdir hbd hi]; exact hpt
        have hcnt := firstWith_none_cnt seen e.ino hfw
        have : 0 < cnt seen e.ino := by
          simp only [cnt]
          apply List.length_pos_of_mem (a := b)
          simp [hb, hbp, hi]
        omega
      | some c =>
        -- a later name: link to the first one
        obtain ⟨hc, hcp, hci, _⟩ := firstWith_some seen e.ino c hfw
        have hcd := pt_false_not_dir hcp
        obtain ⟨n, hn, hnk, hnm, hnt⟩ := h.seenLeaf c hc hcd
        have hagree := hes.links c (hseen c hc) e he hcd hdir hci
        have hnkd : n.kind ≠ .dir := by rw [hnk]; exact kindOf_ne_dir hcd
        have hreachq : w.fs.reach o.root c.path = true := by
          apply reach_of_parent o.root w.fs h.closed hsearch
          by_cases hcp' : c.path = []
          · exact Or.inl hcp'
          · exact Or.inr (h.closed _ _ (lookup_some_mem hn) hcp')
        have hth : tarHead seen e = { e with hardlink := some c.path, sizeSet := false } := by
          simp [tarHead, hpt, hfw]
        rw [hth, restoreEntry_link o w { e with hardlink := some c.path, sizeSet := false } c.path n rfl rfl hn hnkd hcan hreachq]
        simp only []
        rw [add_eq_snoc h _ _ hd hdk]
        refine ⟨_, _, rfl, rfl, ?_⟩
        apply P1_add h hs e n w.next w.fixups hnew ⟨d, hd, hdk⟩ (Nat.le_refl _) (h.inoLt _ (lookup_some_mem hn))
        · intro hc'; exact absurd hc' hdir
        · intro _
          refine ⟨?_, ?_, ?_, rfl, Or.inr ⟨c.path, n, lookup_some_mem hn, hnkd, rfl⟩, ?_⟩
          · rw [hnk]; exact kindOf_congr hagree.1 hagree.2.2.2.1
          · rw [hnm]; exact hagree.2.1
          · rw [hnt, hagree.2.2.1]
          · intro b hb hbd m hm
            rw [← hci]
            exact h.inos c hc b hb hcd hbd n m hn hm
        · exact hdiff

theorem restoreAll_cons (o : Opts) (w : WD) (e : Entry) (es : List Entry) :
    restoreAll o w (e :: es) =
      ((restoreAll o (restoreEntry o w e).1 es).1, (restoreEntry o w e).2 :: (restoreAll o (restoreEntry o w e).1 es).2) := by
  simp [restoreAll]

/-- All entries after the first. -/
theorem run_tar_rest (o : Opts) (ho : OptsOk o) (dm : Nat) (es : List Entry) (hes : EntriesOk es) :
    ∀ (todo seen : List Entry) (w : WD) (ds : List Path), es = seen ++ todo → seen ≠ [] → P1 o dm seen w →
      ParentsOk ds todo → (∀ d ∈ ds, ∃ n, w.fs.lookup d = some n ∧ n.kind = .dir) →
      P1 o dm es (restoreAll o w (tarGo seen todo)).1 ∧ ∀ s ∈ (restoreAll o w (tarGo seen todo)).2, s = .ok := by
  intro todo
  induction todo with
  | nil =>
    intro seen w ds hsplit _ h _ _
    simp only [List.append_nil] at hsplit
    subst hsplit
    simp [tarGo, restoreAll, h]
  | cons e rest ih =>
    intro seen w ds hsplit hs h hpo hds
    simp only [ParentsOk] at hpo
    obtain ⟨hp, hin, hrest⟩ := hpo
    obtain ⟨w', node, hstep, hfs, h'⟩ :=
      step_tar o ho dm es hes seen e rest hsplit hs w h hp (hds _ hin)
    rw [tarGo_cons, restoreAll_cons, hstep]
    simp only []
    have hds' : ∀ d ∈ (if e.ftype = .dir then e.path :: ds else ds),
        ∃ n, w'.fs.lookup d = some n ∧ n.kind = .dir := by
      intro d hd
      have hold : ∀ d ∈ ds, ∃ n, w'.fs.lookup d = some n ∧ n.kind = .dir := by
        intro d hd
        obtain ⟨n, hn, hk⟩ := hds d hd
        exact ⟨n, by rw [hfs]; exact lookup_snoc_old hn, hk⟩
      by_cases hdir : e.ftype = .dir
      · simp only [hdir, if_true] at hd
        rcases List.mem_cons.mp hd with hd | hd
        · rw [hd]; exact h'.seenDir e (by simp) hdir
        · exact hold d hd
      · simp only [hdir, if_false] at hd
        exact hold d hd
    have := ih (seen ++ [e]) w' _ (by rw [hsplit]; simp) (by simp) h' hrest hds'
    refine ⟨this.1, ?_⟩
    intro s hsm
    rcases List.mem_cons.mp hsm with hsm | hsm
    · exact hsm
    · exact this.2 s hsm

theorem P1_init (o : Opts) (dm : Nat) (hdst : o.root = true ∨ (dm &&& 0o200 ≠ 0 ∧ dm &&& 0o100 ≠ 0)) :
    P1 o dm [] (emptyDst dm) := by
  refine
    { names := by simp [emptyDst], nd := by simp [emptyDst], root := by simp [emptyDst, lookup_cons],
      dirs := ?_, closed := ?_, inoLt := ?_, dirIno := ?_, seenDir := by simp, seenLeaf := by simp,
      inos := by simp, fxNodup := by simp [emptyDst], fxFrom := by simp [emptyDst], fxAll := by simp }
  · intro x hx _
    simp only [emptyDst, List.mem_singleton] at hx
    subst hx
    exact ⟨rfl, hdst⟩
  · intro p n hpn hp
    simp only [emptyDst, List.mem_singleton, Prod.mk.injEq] at hpn
    exact absurd hpn.1 hp
  · intro x hx
    simp only [emptyDst, List.mem_singleton] at hx
    subst hx; simp [emptyDst]
  · intro p n q m h1 h2 _ _
    simp only [emptyDst, List.mem_singleton, Prod.mk.injEq] at h1 h2
    rw [h1.1, h2.1]

/-- The first entry is the extraction root itself. -/
theorem P1_root {o : Opts} {dm : Nat} {w : WD} (h : P1 o dm [] w) (r : Entry) (hp : r.path = []) (hd : r.ftype = .dir) :
    P1 o dm [r] { w with fixups := fixupOf o dm r :: w.fixups } := by
  have hfx : w.fixups = [] := by
    cases hw : w.fixups with
    | nil => rfl
    | cons f fs =>
      obtain ⟨e, he, _⟩ := h.fxFrom f (by rw [hw]; simp)
      simp at he
  refine
    { names := by simpa using h.names, nd := h.nd, root := h.root, dirs := h.dirs, closed := h.closed,
      inoLt := h.inoLt, dirIno := h.dirIno, seenDir := ?_, seenLeaf := ?_, inos := ?_, fxNodup := ?_,
      fxFrom := ?_, fxAll := ?_ }
  · intro e he _
    simp only [List.mem_singleton] at he
    subst he
    rw [hp]; exact ⟨_, h.root, rfl⟩
  · intro e he hnd
    simp only [List.mem_singleton] at he
    subst he
    exact absurd hd hnd
  · intro a ha _ _ had
    simp only [List.mem_singleton] at ha
    subst ha
    exact absurd hd had
  · simp [hfx]
  · intro f hf
    simp only [hfx, List.mem_singleton] at hf
    exact ⟨r, by simp, hd, hf⟩
  · intro e he _
    simp only [List.mem_singleton] at he
    subst he
    simp

/-- The entry phase over the whole tar-linkified list: every entry succeeds and the invariant
holds at the end. -/
theorem restoreAll_tar (o : Opts) (ho : OptsOk o) (dm : Nat)
    (hdst : o.root = true ∨ (dm &&& 0o200 ≠ 0 ∧ dm &&& 0o100 ≠ 0))
    (r : Entry) (rest : List Entry) (hes : EntriesOk (r :: rest)) (hp : r.path = []) (hd : r.ftype = .dir)
    (hpo : ParentsOk [[]] rest) :
    P1 o dm (r :: rest) (restoreAll o (emptyDst dm) (tarSpec (r :: rest))).1 ∧
      ∀ s ∈ (restoreAll o (emptyDst dm) (tarSpec (r :: rest))).2, s = .ok := by
  have h0 := P1_init o dm hdst
  have hth : tarHead [] r = r := by simp [tarHead, Entry.pt, hd]
  have hstep := restoreEntry_root o ho (emptyDst dm) r dm (hes.fresh r (by simp)) hd hp h0.root
  have h1 := P1_root h0 r hp hd
  unfold tarSpec
  rw [tarGo_cons, restoreAll_cons, hth, hstep]
  simp only [List.nil_append]
  have := run_tar_rest o ho dm (r :: rest) hes rest [r] _ [[]] rfl (by simp) h1 hpo
    (by intro d hd'; simp only [List.mem_singleton] at hd'; rw [hd']; exact ⟨_, h1.root, rfl⟩)
  refine ⟨this.1, ?_⟩
  intro s hs
  rcases List.mem_cons.mp hs with hs | hs
  · exact hs
  · exact this.2 s hs

/-- After the entry phase the fix-up loop may run. -/
theorem P1.closeReady {o : Opts} {dm : Nat} {es : List Entry} {w : WD} (h : P1 o dm es w) :
    CloseReady o w.fs w.fixups :=
  { nodupPaths := h.nd
    prefixClosed := h.closed
    dirInoUnique := h.dirIno
    dirsOpen := by
      intro p n hpn hk
      rcases (h.dirs (p, n) hpn hk).2 with h1 | h1
      · exact Or.inl h1
      · exact Or.inr h1.2
    fxNodup := h.fxNodup
    fxDirs := by
      intro f hf
      obtain ⟨e, he, hd, hfe⟩ := h.fxFrom f hf
      rw [hfe]
      exact h.seenDir e he hd }

end LA.Tree
