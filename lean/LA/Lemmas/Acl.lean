/-
Helper definitions and lemmas for property C15 (model `LA.Acl`).
-/
import LA.Model.Acl
set_option linter.unusedSimpArgs false
set_option linter.unusedVariables false
namespace LA.Acl
open LA.Gen.AclMaps

/-! ### Well-formed ACLs (what `archive_acl_add_entry` can build) -/

def IsPosix (ty : Nat) : Prop := ty = typeAccess ∨ ty = typeDefault
def IsNfs4 (ty : Nat) : Prop := ty = typeAllow ∨ ty = typeDeny ∨ ty = typeAudit ∨ ty = typeAlarm
def IsUG (tag : Nat) : Prop := tag = tagUser ∨ tag = tagGroup

instance (ty : Nat) : Decidable (IsPosix ty) := by unfold IsPosix; infer_instance
instance (ty : Nat) : Decidable (IsNfs4 ty) := by unfold IsNfs4; infer_instance
instance (tag : Nat) : Decidable (IsUG tag) := by unfold IsUG; infer_instance

/-- One stored entry as `acl_new_entry` admits it, with a type that is one of
the six ACL types (not an OR of several) and a C `int` id. -/
structure EntryWF (e : Entry) : Prop where
  type_ok : IsPosix e.type ∨ IsNfs4 e.type
  tag_ok : IsUG e.tag ∨ e.tag = tagUserObj ∨ e.tag = tagGroupObj ∨
    (IsPosix e.type ∧ (e.tag = tagMask ∨ e.tag = tagOther)) ∨ (IsNfs4 e.type ∧ e.tag = tagEveryone)
  perm_ok : if IsPosix e.type then e.permset < 8
            else e.permset &&& (permsNfs4 ||| inheritanceNfs4) = e.permset
  id_range : -2147483648 ≤ e.id ∧ e.id ≤ 2147483647
  /-- ACCESS entries for user_obj / group_obj / other live in `mode`, never in the list -/
  not_mode : ¬ (e.type = typeAccess ∧ (e.tag = tagUserObj ∨ e.tag = tagGroupObj ∨ e.tag = tagOther))

/-! ### Lengths -/

theorem str_length (s : String) : (str s).length = s.length := by simp [str, String.length_toList]

theorem mapChars_cons (a : Nat × Nat) (t : List (Nat × Nat)) (p : Nat) (c : Bool) :
    mapChars (a :: t) p c =
      (if p &&& a.1 ≠ 0 then [a.2] else if c then [] else [45]) ++ mapChars t p c := by
  simp [mapChars]

theorem mapChars_length_le (m : List (Nat × Nat)) (p : Nat) (c : Bool) :
    (mapChars m p c).length ≤ m.length := by
  induction m with
  | nil => simp [mapChars]
  | cons a t ih =>
    rw [mapChars_cons, List.length_append, List.length_cons]
    split
    · simp only [List.length_cons, List.length_nil]; omega
    · split <;> simp only [List.length_cons, List.length_nil] <;> omega

theorem digits_length (n : Nat) : (digits n).length = idLenLoop n := by
  induction n using Nat.strongRecOn with
  | _ n ih =>
    rw [digits, idLenLoop]
    split
    · rename_i h
      simp [ih (n / 10) (by omega)]
    · simp

theorem idLenLoop_lt_pow (k n : Nat) (h : n < 10 ^ (k + 1)) : idLenLoop n ≤ k + 1 := by
  induction k generalizing n with
  | zero => rw [idLenLoop]; split <;> omega
  | succ k ih =>
    rw [idLenLoop]; split
    · have : n / 10 < 10 ^ (k + 1) := by
        rw [Nat.div_lt_iff_lt_mul (by decide)]; rw [Nat.pow_succ] at h; exact h
      have := ih (n / 10) this; omega
    · omega

theorem idLenLoop_le (n : Nat) (h : n ≤ 2147483647) : idLenLoop n ≤ 10 :=
  idLenLoop_lt_pow 9 n (by omega)

theorem appendId_length (id : Int) : (appendId id).length = idLen id := by
  simp [appendId, idLen, digits_length]

theorem idLen_le (id : Int) (h : id ≤ 2147483647) : idLen id ≤ 10 := by
  unfold idLen; apply idLenLoop_le; omega

theorem idLen_pos (id : Int) : 1 ≤ idLen id := by
  unfold idLen; rw [idLenLoop]; split <;> omega

theorem idLen_neg (id : Int) (h : id ≤ 9) : idLen id = 1 := by
  unfold idLen; rw [idLenLoop]; split <;> omega

/-! ### `archive_acl_text_len` is sufficient -/

/-- The tag constants, for `simp` to tell them apart. -/
theorem tagc : tagUser = 10001 ∧ tagUserObj = 10002 ∧ tagGroup = 10003 ∧ tagGroupObj = 10004 ∧
    tagMask = 10005 ∧ tagOther = 10006 ∧ tagEveryone = 10107 := by decide

theorem strl : (str "user").length = 4 ∧ (str "group").length = 5 ∧ (str "mask").length = 4 ∧
    (str "other").length = 5 ∧ (str "owner@").length = 6 ∧ (str "group@").length = 6 ∧
    (str "everyone@").length = 9 ∧ (str "default:").length = 8 ∧ (str "allow").length = 5 ∧
    (str "deny").length = 4 ∧ (str "audit").length = 5 ∧ (str "alarm").length = 5 := by decide

theorem posix_bits {ty : Nat} (h : IsPosix ty) : ty &&& typePosix1e ≠ 0 ∧ ty &&& typeNfs4 = 0 := by
  rcases h with h | h <;> subst h <;> decide

theorem nfs4_bits {ty : Nat} (h : IsNfs4 ty) : ty &&& typePosix1e = 0 ∧ ty &&& typeNfs4 ≠ 0 := by
  rcases h with h | h | h | h <;> subst h <;> decide

theorem tagWord_length (nfs4 : Bool) (tag : Nat) :
    (tagWord nfs4 tag).length =
      (if tag = tagUserObj then (if nfs4 then 6 else 4)
       else if tag = tagUser ∨ tag = tagMask then 4
       else if tag = tagGroupObj then (if nfs4 then 6 else 5)
       else if tag = tagGroup ∨ tag = tagOther then 5
       else if tag = tagEveryone then 9 else 0) := by
  unfold tagWord
  by_cases h1 : tag = tagUserObj
  · subst h1; cases nfs4 <;> simp [strl, tagc]
  by_cases h2 : tag = tagUser
  · subst h2; simp [strl, tagc]
  by_cases h3 : tag = tagGroupObj
  · subst h3; cases nfs4 <;> simp [strl, tagc]
  by_cases h4 : tag = tagGroup
  · subst h4; simp [strl, tagc]
  by_cases h5 : tag = tagMask
  · subst h5; simp [strl, tagc]
  by_cases h6 : tag = tagOther
  · subst h6; simp [strl, tagc]
  by_cases h7 : tag = tagEveryone
  · subst h7; simp [strl, tagc]
  simp [h1, h2, h3, h4, h5, h6, h7]


theorem typec : typeAccess = 256 ∧ typeDefault = 512 ∧ typeAllow = 1024 ∧ typeDeny = 2048 ∧
    typeAudit = 4096 ∧ typeAlarm = 8192 ∧ typePosix1e = 768 ∧ typeNfs4 = 15360 := by decide

theorem maps_length : permMap.length = 14 ∧ permMapW.length = 14 ∧ flagMap.length = 7 ∧
    flagMapW.length = 7 := by decide

theorem permPart_length_posix (wide : Bool) (ty flags perm : Nat) (h : IsPosix ty) :
    (permPart wide ty flags perm).length = 3 := by
  simp [permPart, (posix_bits h).1]

theorem permPart_length_nfs4 (wide : Bool) (ty flags perm : Nat) (h : IsNfs4 ty) :
    (permPart wide ty flags perm).length ≤ 27 + (if ty &&& typeDeny = 0 then 1 else 0) := by
  have h1 := mapChars_length_le (if wide then permMapW else permMap) perm (hasFlag flags styleCompact)
  have h2 := mapChars_length_le (if wide then flagMapW else flagMap) perm (hasFlag flags styleCompact)
  have l1 : (if wide then permMapW else permMap).length = 14 := by cases wide <;> simp [maps_length]
  have l2 : (if wide then flagMapW else flagMap).length = 7 := by cases wide <;> simp [maps_length]
  simp only [permPart, (nfs4_bits h).1, ne_eq, not_true_eq_false, if_false, List.length_append,
    List.length_cons, List.length_nil]
  rcases h with h | h | h | h <;> subst h <;> simp [typec, strl] <;> omega


theorem stylec : styleExtraId = 1 ∧ styleMarkDefault = 2 ∧ styleSolaris = 4 ∧
    styleSeparatorComma = 8 ∧ styleCompact = 16 := by decide

/-- Length of what `append_entry` writes for a user/group entry. -/
theorem qualPart_ug (ty tag flags : Nat) (name : List Ch) (id : Int) (hug : IsUG tag) :
    qualPart ty tag flags name id =
      if name ≠ [] then (name ++ [58], id)
      else (appendId id ++ [58], if ty &&& typeNfs4 = 0 then -1 else id) := by
  rcases hug with h | h <;> subst h <;> simp [qualPart, dropsQual, tagc]

theorem qualPart_other_posix (ty tag flags : Nat) (name : List Ch) (id : Int) (hp : IsPosix ty)
    (ht : tag = tagUserObj ∨ tag = tagGroupObj ∨ tag = tagMask ∨ tag = tagOther) :
    qualPart ty tag flags name id =
      (if ¬ hasFlag flags styleSolaris ∨ (tag ≠ tagOther ∧ tag ≠ tagMask) then [58] else [], -1) := by
  have := (posix_bits hp).1
  rcases ht with h | h | h | h <;> subst h <;> simp [qualPart, dropsQual, tagc, this]

theorem qualPart_other_nfs4 (ty tag flags : Nat) (name : List Ch) (id : Int) (hp : IsNfs4 ty)
    (ht : tag = tagUserObj ∨ tag = tagGroupObj ∨ tag = tagEveryone) :
    qualPart ty tag flags name id = ([], -1) := by
  have := (nfs4_bits hp).1
  rcases ht with h | h | h <;> subst h <;> simp [qualPart, dropsQual, tagc, this]

theorem appendEntry_length_eq (wide pfx : Bool) (ty tag flags : Nat) (name : List Ch) (perm : Nat)
    (id : Int) :
    (appendEntry wide pfx ty tag flags name perm id).length =
      (if pfx then 8 else 0) + (tagWord (ty &&& typeNfs4 ≠ 0) tag).length + 1 +
      (qualPart ty tag flags name id).1.length + (permPart wide ty flags perm).length +
      (if (qualPart ty tag flags name id).2 ≠ -1 then 1 + idLen (qualPart ty tag flags name id).2 else 0) := by
  simp only [appendEntry, List.length_append, List.length_cons, List.length_nil]
  by_cases hq : (qualPart ty tag flags name id).2 = -1 <;> cases pfx <;>
    simp [hq, strl, appendId_length] <;> omega

theorem appendEntry_length (wide pfx : Bool) (e : Entry) (wantType flags : Nat) (id : Int)
    (he : EntryWF e)
    (hfam : (wantType = typeNfs4 ∧ IsNfs4 e.type) ∨
            ((wantType = typeAccess ∨ wantType = typeDefault ∨ wantType = typePosix1e) ∧ IsPosix e.type))
    (hl : e.type &&& wantType ≠ 0)
    (hid : id = e.id ∨ id = -1)
    (hpfx : pfx = true → e.type = typeDefault) :
    (appendEntry wide pfx e.type e.tag flags e.name e.permset id).length + 1 ≤
      entryTextLen e wantType flags := by
  have hidle : idLen id ≤ idLen e.id := by
    rcases hid with h | h
    · rw [h]; exact Nat.le_refl _
    · rw [h, idLen_neg (-1) (by omega)]; exact idLen_pos _
  have hid10 : idLen id ≤ 10 := by
    apply idLen_le; have := he.id_range.2; rcases hid with h | h <;> omega
  have hm1 : idLen (-1) = 1 := idLen_neg (-1) (by omega)
  have hexcl : ∀ ty, IsPosix ty → IsNfs4 ty → False := by
    intro ty h1 h2
    rcases h1 with h | h <;> rcases h2 with h' | h' | h' | h' <;> rw [h] at h' <;> revert h' <;> decide
  rw [appendEntry_length_eq, tagWord_length]
  unfold entryTextLen uidTextLen
  rcases hfam with ⟨hw, hn⟩ | ⟨hw, hp⟩
  · -- NFSv4
    have hb := nfs4_bits hn
    have hpf : pfx = false := by
      cases pfx with
      | false => rfl
      | true => exact (hexcl _ (Or.inr (hpfx rfl)) hn).elim
    have hperm := permPart_length_nfs4 wide e.type flags e.permset hn
    have hd : ¬ (wantType &&& typeDefault ≠ 0 ∧ e.type &&& typeDefault ≠ 0) := by
      subst hw; intro h; exact h.1 (by decide)
    have hnp : typeNfs4 &&& typePosix1e = 0 := by decide
    subst hw hpf
    simp only [hd, if_false, hb.2, ne_eq, not_false_eq_true, decide_true, if_true, not_true_eq_false,
      Bool.false_eq_true, hnp]
    rcases he.tag_ok with hug | ht | ht | ⟨hp', _⟩ | ⟨_, ht⟩
    · rw [qualPart_ug _ _ _ _ _ hug]
      have hugd : e.tag = tagUser ∨ e.tag = tagGroup := hug
      simp only [hugd, if_true, hb.2, if_false]
      by_cases hne : e.name = []
      · simp only [hne, ne_eq, not_true_eq_false, if_false, List.length_append, appendId_length,
          List.length_cons, List.length_nil]
        by_cases hi : id = -1
        · rcases hug with h | h <;> simp [h, tagc, hi] <;> omega
        · rcases hug with h | h <;> simp [h, tagc, hi] <;> omega
      · simp only [hne, ne_eq, not_false_eq_true, if_true, List.length_append,
          List.length_cons, List.length_nil]
        by_cases hi : id = -1
        · rcases hug with h | h <;> simp [h, tagc, hi] <;> omega
        · rcases hug with h | h <;> simp [h, tagc, hi] <;> omega
    · rw [qualPart_other_nfs4 _ _ _ _ _ hn (Or.inl ht)]
      simp [ht, tagc]; omega
    · rw [qualPart_other_nfs4 _ _ _ _ _ hn (Or.inr (Or.inl ht))]
      simp [ht, tagc]; omega
    · exact (hexcl _ hp' hn).elim
    · rw [qualPart_other_nfs4 _ _ _ _ _ hn (Or.inr (Or.inr ht))]
      simp [ht, tagc]; omega
  · -- POSIX.1e
    have hb := posix_bits hp
    have hperm := permPart_length_posix wide e.type flags e.permset hp
    have hwn : wantType ≠ typeNfs4 := by
      rcases hw with h | h | h <;> rw [h] <;> decide
    have hwp : wantType &&& typePosix1e ≠ 0 := by
      rcases hw with h | h | h <;> rw [h] <;> decide
    have hpfx8 : (if pfx = true then 8 else 0) ≤
        (if wantType &&& typeDefault ≠ 0 ∧ e.type &&& typeDefault ≠ 0 then 8 else 0) := by
      cases pfx with
      | false => simp
      | true =>
        have ht := hpfx rfl
        rw [ht] at hl ⊢
        have : wantType &&& typeDefault ≠ 0 := by
          rcases hw with h | h | h <;> rw [h] at hl ⊢ <;> revert hl <;> decide
        simp [this]; decide
    simp only [hwn, if_false, hb.2, ne_eq, not_true_eq_false, decide_false, hperm, hwp,
      not_false_eq_true, true_and, if_true, decide_true] at hpfx8 ⊢
    rcases he.tag_ok with hug | ht | ht | ⟨_, ht⟩ | ⟨hn', _⟩
    · rw [qualPart_ug _ _ _ _ _ hug]
      have hugd : e.tag = tagUser ∨ e.tag = tagGroup := hug
      simp only [hugd, if_true, hb.2, if_false]
      by_cases hne : e.name = []
      · simp only [hne, ne_eq, not_true_eq_false, if_false, List.length_append, appendId_length,
          List.length_cons, List.length_nil]
        rcases hug with h | h <;> simp [h, tagc] <;> omega
      · simp only [hne, ne_eq, not_false_eq_true, if_true, List.length_append,
          List.length_cons, List.length_nil]
        by_cases hi : id = -1
        · rcases hug with h | h <;> simp [h, tagc, hi] <;> omega
        · rcases hug with h | h <;> simp [h, tagc, hi] <;> omega
    · rw [qualPart_other_posix _ _ _ _ _ hp (Or.inl ht)]
      simp [ht, tagc]; omega
    · rw [qualPart_other_posix _ _ _ _ _ hp (Or.inr (Or.inl ht))]
      simp [ht, tagc]; omega
    · rcases ht with ht | ht
      · rw [qualPart_other_posix _ _ _ _ _ hp (Or.inr (Or.inr (Or.inl ht)))]
        by_cases hs : hasFlag flags styleSolaris = true <;> simp [ht, tagc, hs] <;> omega
      · rw [qualPart_other_posix _ _ _ _ _ hp (Or.inr (Or.inr (Or.inr ht)))]
        by_cases hs : hasFlag flags styleSolaris = true <;> simp [ht, tagc, hs] <;> omega
    · exact (hexcl _ hp hn').elim


theorem intercalate_length (s : Ch) (l : List (List Ch)) (h : l ≠ []) :
    ([s].intercalate l).length + 1 = (l.map (·.length + 1)).sum := by
  induction l with
  | nil => exact (h rfl).elim
  | cons a t ih =>
    cases t with
    | nil => simp [List.intercalate]
    | cons b t' =>
      have := ih (by simp)
      simp only [List.intercalate, List.intersperse_cons_cons, List.flatten_cons, List.length_append,
        List.length_cons, List.length_nil, List.map_cons, List.sum_cons] at this ⊢
      omega

/-- The family of a listed entry follows from the wanted type. -/
theorem listed_family (e : Entry) (wantType : Nat) (he : EntryWF e)
    (hw : wantType = typeNfs4 ∨ wantType = typeAccess ∨ wantType = typeDefault ∨ wantType = typePosix1e)
    (hl : e.type &&& wantType ≠ 0) :
    (wantType = typeNfs4 ∧ IsNfs4 e.type) ∨
    ((wantType = typeAccess ∨ wantType = typeDefault ∨ wantType = typePosix1e) ∧ IsPosix e.type) := by
  rcases hw with hw | hw | hw | hw <;> subst hw <;>
    rcases he.type_ok with (h | h) | (h | h | h | h) <;> rw [h] at hl ⊢ <;>
    first
      | (exfalso; revert hl; decide)
      | (left; refine ⟨rfl, ?_⟩; unfold IsNfs4; decide)
      | (right; refine ⟨?_, ?_⟩ <;> first | decide | (unfold IsPosix; decide))


theorem textWantType_cases (acl : Acl) (flags : Nat) :
    textWantType acl flags = 0 ∨ textWantType acl flags = typeNfs4 ∨
    textWantType acl flags = typeAccess ∨ textWantType acl flags = typeDefault ∨
    textWantType acl flags = typePosix1e := by
  unfold textWantType
  split
  · split <;> simp
  · cases hasFlag flags typeAccess <;> cases hasFlag flags typeDefault <;> simp <;> decide

theorem head_lengths (wide : Bool) (flags p : Nat) :
    (appendEntry wide false typeAccess tagUserObj flags [] p (-1)).length = 9 ∧
    (appendEntry wide false typeAccess tagGroupObj flags [] p (-1)).length = 10 ∧
    (appendEntry wide false typeAccess tagOther flags [] p (-1)).length =
      if hasFlag flags styleSolaris then 9 else 10 := by
  have hp : IsPosix typeAccess := Or.inl rfl
  have hb : decide (typeAccess &&& typeNfs4 ≠ 0) = false := by decide
  refine ⟨?_, ?_, ?_⟩
  · rw [appendEntry_length_eq, tagWord_length, qualPart_other_posix _ _ _ _ _ hp (Or.inl rfl),
      permPart_length_posix _ _ _ _ hp]
    simp [hb, tagc]
  · rw [appendEntry_length_eq, tagWord_length,
      qualPart_other_posix _ _ _ _ _ hp (Or.inr (Or.inl rfl)), permPart_length_posix _ _ _ _ hp]
    simp [hb, tagc]
  · rw [appendEntry_length_eq, tagWord_length,
      qualPart_other_posix _ _ _ _ _ hp (Or.inr (Or.inr (Or.inr rfl))), permPart_length_posix _ _ _ _ hp]
    by_cases hs : hasFlag flags styleSolaris = true <;> simp [hb, tagc, hs]

theorem sum_map_le {α : Type} (l : List α) (f g : α → Nat) (h : ∀ a ∈ l, f a ≤ g a) :
    (l.map f).sum ≤ (l.map g).sum := by
  induction l with
  | nil => simp
  | cons a t ih =>
    have := h a (by simp)
    have := ih (fun x hx => h x (by simp [hx]))
    simp only [List.map_cons, List.sum_cons]; omega

theorem entryText_length (wide : Bool) (e : Entry) (wantType flags : Nat)
    (hw : wantType = typeNfs4 ∨ wantType = typeAccess ∨ wantType = typeDefault ∨ wantType = typePosix1e)
    (he : EntryWF e) (hl : e.type &&& wantType ≠ 0) :
    (entryText wide flags e).length + 1 ≤ entryTextLen e wantType flags := by
  unfold entryText
  apply appendEntry_length wide _ e wantType flags _ he (listed_family e wantType he hw hl) hl
  · cases wide
    · by_cases hc : (e.name = [] ∨ hasFlag flags styleExtraId = true) <;> simp [hc]
    · by_cases hc : hasFlag flags styleExtraId = true <;> simp [hc]
  · intro h; simp at h; exact h.1

theorem textBody_length (wide : Bool) (acl : Acl) (wantType flags : Nat)
    (hw : wantType = typeNfs4 ∨ wantType = typeAccess ∨ wantType = typeDefault ∨ wantType = typePosix1e)
    (hwf : ∀ e ∈ acl.entries, EntryWF e) (hne : textLen acl wantType flags ≠ 0) :
    (textBody wide acl wantType flags).length + 1 ≤ textLen acl wantType flags := by
  have hbody : ∀ e ∈ listed acl wantType,
      (entryText wide flags e).length + 1 ≤ entryTextLen e wantType flags := by
    intro e he
    have hmem := (List.mem_filter.mp he).1
    have hns := (List.mem_filter.mp he).2
    have hl : e.type &&& wantType ≠ 0 := by
      intro h0; simp [skipped, h0] at hns
    exact entryText_length wide e wantType flags hw (hwf e hmem) hl
  have hsum := sum_map_le _ _ _ hbody
  have hh := head_lengths wide flags
  unfold textBody textLen at *
  by_cases hacc : wantType &&& typeAccess ≠ 0
  · rw [if_pos hacc] at hne ⊢
    rw [if_pos hacc]
    have := intercalate_length (sepChar flags)
      (headTexts wide acl.mode flags ++ (listed acl wantType).map (entryText wide flags))
      (by simp [headTexts])
    rw [this]
    simp only [headTexts, List.map_append, List.map_cons, List.map_nil, List.sum_append, List.sum_cons,
      List.sum_nil, List.map_map, (hh _).1, (hh _).2.1, (hh _).2.2]
    simp only [Function.comp_def] at hsum ⊢
    split <;> omega
  · rw [if_neg hacc] at hne ⊢
    rw [if_neg hacc, List.nil_append]
    by_cases hz : (listed acl wantType).length = 0
    · simp [hz] at hne
    · rw [if_neg hz] at hne ⊢
      have := intercalate_length (sepChar flags) ((listed acl wantType).map (entryText wide flags))
        (by intro h; apply hz; simpa using congrArg List.length h)
      rw [this]
      simp only [List.map_map, Function.comp_def] at hsum ⊢
      exact hsum

/-- The "Buffer overrun" abort of `archive_acl_to_text_l` / `_w`, and the write
past the allocation that would precede it, cannot happen. -/
theorem toText_no_overrun (wide : Bool) (acl : Acl) (flags : Nat)
    (hwf : ∀ e ∈ acl.entries, EntryWF e) (t : List Ch) : toText wide acl flags ≠ .overrun t := by
  unfold toText
  rcases textWantType_cases acl flags with h | h
  · simp [h]
  · have h0 : textWantType acl flags ≠ 0 := by
      rcases h with h | h | h | h <;> rw [h] <;> decide
    simp only [h0, if_false]
    split
    · simp
    · rename_i hne
      have := textBody_length wide acl (textWantType acl flags)
        (textFlags (textWantType acl flags) flags) h hwf hne
      split
      · omega
      · simp

/-! ### Characteristic equations of the parser loops -/

theorem splitEntry_eq (wide : Bool) (r : List Ch) :
    splitEntry wide r =
      match nextField wide r with
      | .error e => .error e
      | .ok nf =>
        if nf.sep = 58 then
          match splitEntry wide nf.rest with
          | .error e => .error e
          | .ok (fs, rest) => .ok (nf.field :: fs, rest)
        else .ok ([nf.field], nf.rest) := by
  rw [splitEntry]
  split <;> rename_i h <;> simp only [h]
  split <;> rfl

/-- One iteration of the parser's `while` loop. -/
def loopStep (wide : Bool) (wantType : Nat) (fs : List Field) (rest : List Ch) (o : ParseOut)
    (k : List Ch → ParseOut → Except Fault ParseOut) : Except Fault ParseOut :=
  match parseFields wide fs wantType with
  | .error e => .error e
  | .ok .comment => k rest o
  | .ok .skip => k rest { o with status := .warn, skipped := o.skipped + 1 }
  | .ok (.entry type p tag id name) =>
    match nameOf wide name with
    | .error e => .error e
    | .ok nm =>
      match addEntry o.acl type p tag id nm with
      | (acl', st) =>
        if st = .failed ∨ st = .fatal then .ok { o with acl := acl', status := st, added := o.added + 1 }
        else k rest { o with acl := acl', status := if st ≠ .ok then .warn else o.status, added := o.added + 1 }

theorem parseLoop_nil (wide : Bool) (wantType : Nat) (o : ParseOut) :
    parseLoop wide wantType [] o = if wide then .error .oob else .ok o := by
  rw [parseLoop]

theorem parseLoop_cons (wide : Bool) (wantType : Nat) (c : Ch) (t : List Ch) (o : ParseOut) :
    parseLoop wide wantType (c :: t) o =
      if c = 0 then .ok o else
      match splitEntry wide (c :: t) with
      | .error e => .error e
      | .ok (fs, rest) => loopStep wide wantType fs rest o (parseLoop wide wantType) := by
  rw [parseLoop]
  split
  · rfl
  · split <;> rename_i h <;> simp only [h, loopStep]
    split <;> (rename_i heq; rw [heq]) <;> try rfl

/-! ### Fields: from pointers to bodies -/

/-- The characters of a field. -/
def bodyOf (f : Field) : List Ch := f.s.take f.len

def obody : Option Field → List Ch
  | none => []
  | some f => bodyOf f

/-- A field lies inside the text; a wide field pointer never points beyond the terminator. -/
def FieldOK (wide : Bool) (f : Field) : Prop := f.len ≤ f.s.length ∧ (wide = true → f.s ≠ [])

def OFieldOK (wide : Bool) : Option Field → Prop
  | none => True
  | some f => FieldOK wide f

@[simp] theorem obody_none : obody none = [] := rfl
@[simp] theorem OFieldOK_none (wide : Bool) : OFieldOK wide none = True := rfl

theorem field_split {wide : Bool} {f : Field} (h : FieldOK wide f) :
    f.s = bodyOf f ++ f.s.drop f.len ∧ (bodyOf f).length = f.len := by
  unfold bodyOf
  refine ⟨(List.take_append_drop _ _).symm, ?_⟩
  rw [List.length_take]; exact Nat.min_eq_left h.1

theorem body_ok {wide : Bool} {f : Field} (h : FieldOK wide f) : f.body = .ok (bodyOf f) := by
  simp [Field.body, bodyOf, h.1]

theorem fbody_ok {wide : Bool} {o : Option Field} (h : OFieldOK wide o) : fbody o = .ok (obody o) := by
  cases o with
  | none => rfl
  | some f => exact body_ok h

theorem flen_eq {wide : Bool} {o : Option Field} (h : OFieldOK wide o) : flen o = (obody o).length := by
  cases o with
  | none => rfl
  | some f => exact (field_split h).2.symm

theorem rd_ok {wide : Bool} {f : Field} (h : FieldOK wide f) (hl : wide = true ∨ f.len > 0) :
    ∃ c, rd f.s 0 = .ok c ∧ f.s.head? = some c ∧ (f.len > 0 → (bodyOf f).head? = some c) := by
  have hne : f.s ≠ [] := by
    rcases hl with hl | hl
    · exact h.2 hl
    · intro he; have := h.1; rw [he] at this; simp at this; omega
  match hs : f.s, hne with
  | c :: t, _ =>
    refine ⟨c, by simp [rd], by simp, ?_⟩
    intro hp
    unfold bodyOf; rw [hs]
    match hlen : f.len, hp with
    | n + 1, _ => simp

theorem matchAt_ok {wide : Bool} {f : Field} (h : FieldOK wide f) (off : Nat) (lit : String)
    (hl : off + lit.length ≤ f.len) :
    matchAt f off lit = .ok (decide (((bodyOf f).drop off).take lit.length = str lit)) := by
  have h1 := h.1
  have : off + lit.length ≤ f.s.length := by omega
  simp only [matchAt, this, if_true]
  congr 1
  unfold bodyOf
  rw [List.drop_take, List.take_take]
  rw [Nat.min_eq_left (by omega)]


/-! ### The parser body on field bodies -/

def isDefaultSpec (b : List Ch) : Bool :=
  match b with
  | [] => false
  | c :: _ => c = 100 ∧ (b.length = 1 ∨ (b.length ≥ 7 ∧ (b.drop 1).take 6 = str "efault"))

def wordTag (b : List Ch) (n : Nat) (rest : String) (tag : Nat) : Nat :=
  if b.length = 1 then tag
  else if b.length = n then (if (b.drop 1).take (n - 1) = str rest then tag else 0)
  else 0

def posixTagSpec (b : List Ch) : Nat :=
  match b with
  | [] => 0
  | c :: _ =>
    if c = 117 then wordTag b 4 "ser" tagUserObj
    else if c = 103 then wordTag b 5 "roup" tagGroupObj
    else if c = 111 then wordTag b 5 "ther" tagOther
    else if c = 109 then wordTag b 4 "ask" tagMask
    else 0

theorem isDefault_ok {wide : Bool} {f : Field} (h : FieldOK wide f) :
    isDefault wide f = .ok (isDefaultSpec (bodyOf f)) := by
  have hs := field_split h
  unfold isDefault
  by_cases h0 : f.len = 0
  · have hb : bodyOf f = [] := by
      have := hs.2; rw [h0] at this; exact List.length_eq_zero_iff.mp this
    cases wide with
    | false => simp [h0, hb, isDefaultSpec, pure, Except.pure]
    | true =>
      obtain ⟨c, hrd, _, _⟩ := rd_ok h (Or.inl rfl)
      simp only [Bool.true_eq_false, not_false_eq_true, h0, and_true, if_false, bind, Except.bind, hrd,
        not_true_eq_false, false_and]
      simp only [hb, isDefaultSpec]
      by_cases hc : c = 100 <;> simp [hc, pure, Except.pure]
  · obtain ⟨c, hrd, _, hhead⟩ := rd_ok h (Or.inr (by omega))
    have hhead := hhead (by omega)
    match hb : bodyOf f, hhead with
    | c' :: t, hh =>
      simp only [List.head?_cons, Option.some.injEq] at hh
      subst hh
      have hlen : f.len = t.length + 1 := by rw [← hs.2, hb]; rfl
      simp only [h0, and_false, if_false, bind, Except.bind, hrd, isDefaultSpec]
      by_cases hc : c' = 100
      · simp only [hc, ne_eq, not_true_eq_false, if_false, true_and]
        by_cases h1 : f.len = 1
        · have ht : t = [] := List.length_eq_zero_iff.mp (by omega)
          simp [h1, ht, pure, Except.pure]
        · have ht : t ≠ [] := by intro ht; rw [ht] at hlen; simp at hlen; omega
          by_cases h7 : f.len ≥ 7
          · have h6 : 6 ≤ t.length := by omega
            rw [matchAt_ok h 1 "efault" (by simp [String.length]; omega)]
            simp [h1, h7, hb, ht, h6, pure, Except.pure, String.length]
          · have h6 : ¬ 6 ≤ t.length := by omega
            have h6' : ¬ 7 ≤ t.length + 1 := by omega
            simp [h1, h7, ht, h6, h6', pure, Except.pure]
      · simp [hc, pure, Except.pure]


theorem word_ok {wide : Bool} {f : Field} (h : FieldOK wide f) (n : Nat) (rest : String) (tag : Nat)
    (hn : 1 + rest.length = n) :
    (if f.len = 1 then pure tag
     else if f.len = n then (do if (← matchAt f 1 rest) then pure tag else pure 0)
     else pure 0 : Except Fault Nat) = .ok (wordTag (bodyOf f) n rest tag) := by
  have hs := (field_split h).2
  unfold wordTag
  rw [hs]
  by_cases h1 : f.len = 1
  · simp [h1, pure, Except.pure]
  · by_cases h2 : f.len = n
    · rw [if_neg h1, if_pos h2, if_neg h1, if_pos h2, matchAt_ok h 1 rest (by omega)]
      have : n - 1 = rest.length := by omega
      rw [this]
      simp only [bind, Except.bind, pure, Except.pure, decide_eq_true_eq]
      split <;> rfl
    · simp [h1, h2, pure, Except.pure]

theorem posixTag_ok {wide : Bool} {f : Field} (h : FieldOK wide f) (hl : f.len > 0) :
    posixTag f = .ok (posixTagSpec (bodyOf f)) := by
  obtain ⟨c, hrd, _, hhead⟩ := rd_ok h (Or.inr hl)
  have hhead := hhead hl
  unfold posixTag
  match hb : bodyOf f, hhead with
  | c' :: t, hh =>
    simp only [List.head?_cons, Option.some.injEq] at hh
    subst hh
    simp only [bind, Except.bind, hrd, posixTagSpec]
    rw [← hb]
    have w1 := word_ok h 4 "ser" tagUserObj (by decide)
    have w2 := word_ok h 5 "roup" tagGroupObj (by decide)
    have w3 := word_ok h 5 "ther" tagOther (by decide)
    have w4 := word_ok h 4 "ask" tagMask (by decide)
    simp only [bind, Except.bind] at w1 w2 w3 w4
    by_cases h1 : c' = 117
    · simp only [h1, if_true]; exact w1
    by_cases h2 : c' = 103
    · simp only [h1, h2, if_true, if_false]; exact w2
    by_cases h3 : c' = 111
    · simp only [h1, h2, h3, if_true, if_false]; exact w3
    by_cases h4 : c' = 109
    · simp only [h1, h2, h3, h4, if_true, if_false]; exact w4
    simp [h1, h2, h3, h4, pure, Except.pure]


/-- What one text entry turns into, with the name as its characters. -/
inductive PSpec
  | comment
  | skip
  | entry (type permset tag : Nat) (id : Int) (name : List Ch)
  deriving DecidableEq, Repr

def Parsed.toSpec : Parsed → PSpec
  | .comment => .comment
  | .skip => .skip
  | .entry t p g i nm => .entry t p g i (obody nm)

def Parsed.NameOK (wide : Bool) : Parsed → Prop
  | .entry _ _ _ _ nm => OFieldOK wide nm
  | _ => True

def posixIdCore (fields : Nat) (b : Nat → List Ch) (n : Nat) : Int :=
  let id := isintOr (b (n + 1)) (-1)
  if id = -1 ∧ fields > n + 3 then isintOr (b (n + 3)) id else id

def posixOtherMaskCore (wide : Bool) (fields : Nat) (b : Nat → List Ch) (n type tag : Nat) (id : Int) :
    PSpec :=
  let f1 := b (n + 1)
  let called := fields = n + 2 ∧ f1.length > 0
  let r1 := if called then ismode wide f1 0 else (0, false)
  let sol := called ∧ r1.2
  if ¬ sol ∧ fields = n + 3 ∧ f1.length > 0 then .skip else
  let r2 := if r1.1 = 0 then ismode wide (b (if sol then n + 1 else n + 2)) r1.1 else (r1.1, true)
  if r2.2 then .entry type r2.1 tag id [] else .skip

def posixUserGroupCore (wide : Bool) (b : Nat → List Ch) (n type tag : Nat) (id : Int) : PSpec :=
  let f1 := b (n + 1)
  let named := id ≠ -1 ∨ f1.length > 0
  let tag' := if named then (if tag = tagUserObj then tagUser else tagGroup) else tag
  let name := if named then f1 else []
  let r2 := ismode wide (b (n + 2)) 0
  if r2.2 then .entry type r2.1 tag' id name else .skip

/-- `parsePosixRest` on field bodies (`b i` is the body of `field[i]`, empty for a
blank field; `fields` is the number of fields seen). -/
def posixRestCore (wide : Bool) (fields : Nat) (b : Nat → List Ch) (n type : Nat) : PSpec :=
  let id := posixIdCore fields b n
  if (b n).length = 0 then .skip else
  let tag := posixTagSpec (b n)
  if tag = tagOther ∨ tag = tagMask then posixOtherMaskCore wide fields b n type tag id
  else if tag = tagUserObj ∨ tag = tagGroupObj then posixUserGroupCore wide b n type tag id
  else .skip

/-- `parsePosix` on field bodies. -/
def posixCore (wide : Bool) (fields : Nat) (b : Nat → List Ch) (wantType : Nat) : PSpec :=
  if isDefaultSpec (b 0) then
    if (b 0).length > 7 then
      posixRestCore wide fields (fun i => if i = 0 then (b 0).drop 7 else b i) 0 typeDefault
    else posixRestCore wide fields b 1 typeDefault
  else posixRestCore wide fields b 0 wantType

theorem drop7_ok {wide : Bool} {f : Field} (h : FieldOK wide f) (h7 : f.len > 7) :
    FieldOK wide ⟨f.s.drop 7, f.len - 7⟩ ∧ bodyOf ⟨f.s.drop 7, f.len - 7⟩ = (bodyOf f).drop 7 := by
  have h1 := h.1
  refine ⟨⟨by simp; omega, fun _ => ?_⟩, ?_⟩
  · intro he
    have := congrArg List.length he
    simp at this; omega
  · simp only [bodyOf]
    rw [List.drop_take]

theorem posixId_spec (wide : Bool) (fields : Nat) (fld : Nat → Option Field) (n : Nat)
    (hf : ∀ i, OFieldOK wide (fld i)) :
    posixId fields fld n = .ok (posixIdCore fields (fun i => obody (fld i)) n) := by
  unfold posixId posixIdCore
  simp only [bind, Except.bind, pure, Except.pure, fbody_ok (hf _)]
  split <;> rfl

theorem posixOtherMask_spec (wide : Bool) (fields : Nat) (fld : Nat → Option Field) (n type tag : Nat)
    (id : Int) (hf : ∀ i, OFieldOK wide (fld i)) :
    ∃ p, posixOtherMask wide fields fld n type tag id = .ok p ∧
      p.toSpec = posixOtherMaskCore wide fields (fun i => obody (fld i)) n type tag id ∧
      p.NameOK wide := by
  unfold posixOtherMask posixOtherMaskCore
  simp only [bind, Except.bind, pure, Except.pure, fbody_ok (hf _), flen_eq (hf _)]
  by_cases hc : fields = n + 2 ∧ (obody (fld (n + 1))).length > 0
  · have hn3 : ¬ fields = n + 3 := by omega
    generalize hr : ismode wide (obody (fld (n + 1))) 0 = r1
    obtain ⟨p1, ok1⟩ := r1
    cases ok1 with
    | true =>
      by_cases hp : p1 = 0
      · subst hp
        simp [hc, hn3, hr, Parsed.toSpec, Parsed.NameOK, obody_none, OFieldOK_none]
      · simp [hc, hn3, hr, hp, Parsed.toSpec, Parsed.NameOK, obody_none, OFieldOK_none]
    | false =>
      by_cases hp : p1 = 0
      · subst hp
        generalize hr2 : ismode wide (obody (fld (n + 2))) 0 = r2
        obtain ⟨p2, ok2⟩ := r2
        cases ok2 <;> simp [hc, hn3, hr, hr2, Parsed.toSpec, Parsed.NameOK, obody_none, OFieldOK_none]
      · simp [hc, hn3, hr, hp, Parsed.toSpec, Parsed.NameOK, obody_none, OFieldOK_none]
  · by_cases h3 : fields = n + 3 ∧ (obody (fld (n + 1))).length > 0
    · simp [hc, h3, Parsed.toSpec, Parsed.NameOK, obody_none, OFieldOK_none]
    · generalize hr2 : ismode wide (obody (fld (n + 2))) 0 = r2
      obtain ⟨p2, ok2⟩ := r2
      cases ok2 <;> simp [hc, h3, hr2, Parsed.toSpec, Parsed.NameOK, obody_none, OFieldOK_none]

theorem posixUserGroup_spec (wide : Bool) (fld : Nat → Option Field) (n type tag : Nat)
    (id : Int) (hf : ∀ i, OFieldOK wide (fld i)) :
    ∃ p, posixUserGroup wide fld n type tag id = .ok p ∧
      p.toSpec = posixUserGroupCore wide (fun i => obody (fld i)) n type tag id ∧
      p.NameOK wide := by
  unfold posixUserGroup posixUserGroupCore
  simp only [bind, Except.bind, pure, Except.pure, fbody_ok (hf _), flen_eq (hf _)]
  generalize hr2 : ismode wide (obody (fld (n + 2))) 0 = r2
  obtain ⟨p2, ok2⟩ := r2
  have h1 := hf (n + 1)
  by_cases hn : id ≠ -1 ∨ (obody (fld (n + 1))).length > 0 <;>
    cases ok2 <;> simp [hn, Parsed.toSpec, Parsed.NameOK, obody_none, OFieldOK_none, h1]

theorem parsePosixRest_spec (wide : Bool) (fields : Nat) (fld : Nat → Option Field) (n type : Nat)
    (hf : ∀ i, OFieldOK wide (fld i)) :
    ∃ p, parsePosixRest wide fields fld n type = .ok p ∧
      p.toSpec = posixRestCore wide fields (fun i => obody (fld i)) n type ∧ p.NameOK wide := by
  unfold parsePosixRest posixRestCore
  simp only [bind, Except.bind, pure, Except.pure, posixId_spec wide fields fld n hf, flen_eq (hf _)]
  by_cases h0 : (obody (fld n)).length = 0
  · simp [h0, Parsed.toSpec, Parsed.NameOK]
  · simp only [h0, if_false]
    obtain ⟨fn, hfn⟩ : ∃ fn, fld n = some fn := by
      cases h : fld n with
      | none => simp [h] at h0
      | some fn => exact ⟨fn, rfl⟩
    have hok : FieldOK wide fn := by have := hf n; rw [hfn] at this; exact this
    have hlen : fn.len > 0 := by
      have := (field_split hok).2; simp only [hfn, obody] at h0; omega
    have hb : obody (some fn) = bodyOf fn := rfl
    simp only [hfn, posixTag_ok hok hlen, hb]
    generalize posixTagSpec (bodyOf fn) = tag
    (
      by_cases ht1 : tag = tagOther ∨ tag = tagMask
      · simp only [ht1, if_true]
        exact posixOtherMask_spec wide fields fld n type tag _ hf
      · simp only [ht1, if_false]
        by_cases ht2 : tag = tagUserObj ∨ tag = tagGroupObj
        · simp only [ht2, if_true]
          exact posixUserGroup_spec wide fld n type tag _ hf
        · simp [ht2, Parsed.toSpec, Parsed.NameOK]
    )

theorem fieldAt_ok {wide : Bool} {fs : List Field} (h : ∀ f ∈ fs, FieldOK wide f) (k i : Nat) :
    OFieldOK wide (fieldAt fs k i) := by
  unfold fieldAt
  split
  · match hg : fs[i]? with
    | none => trivial
    | some f => exact h f (List.mem_of_getElem? hg)
  · trivial

theorem parsePosix_spec (wide : Bool) (fs : List Field) (wantType : Nat)
    (hf : ∀ f ∈ fs, FieldOK wide f) (h0 : fs ≠ []) :
    ∃ p, parsePosix wide fs wantType = .ok p ∧
      p.toSpec = posixCore wide fs.length (fun i => obody (fieldAt fs 5 i)) wantType ∧
      p.NameOK wide := by
  obtain ⟨f0, hf0⟩ : ∃ f0, fieldAt fs 5 0 = some f0 := by
    cases fs with
    | nil => exact (h0 rfl).elim
    | cons a t => exact ⟨a, by simp [fieldAt]⟩
  have hall := fun i => fieldAt_ok hf 5 i
  have hok0 : FieldOK wide f0 := by have := hall 0; rw [hf0] at this; exact this
  have hb0 : obody (some f0) = bodyOf f0 := rfl
  have hl0 : (bodyOf f0).length = f0.len := (field_split hok0).2
  unfold parsePosix posixCore
  simp only [hf0, bind, Except.bind, pure, Except.pure, isDefault_ok hok0, hb0, hl0]
  cases hd : isDefaultSpec (bodyOf f0) with
  | false =>
    simp only [Bool.false_eq_true, if_false]
    exact parsePosixRest_spec wide fs.length _ 0 wantType hall
  | true =>
    simp only [if_true]
    by_cases h7 : f0.len > 7
    · simp only [h7, if_true]
      have hd7 := drop7_ok hok0 h7
      have hf' : ∀ i, OFieldOK wide
          ((fun i => if i = 0 then some ⟨f0.s.drop 7, f0.len - 7⟩ else fieldAt fs 5 i) i) := by
        intro i; by_cases hi : i = 0
        · simp only [hi, if_true]; exact hd7.1
        · simp only [hi, if_false]; exact hall i
      have := parsePosixRest_spec wide fs.length _ 0 typeDefault hf'
      have he : (fun i => obody ((fun i => if i = 0 then some (⟨f0.s.drop 7, f0.len - 7⟩ : Field) else fieldAt fs 5 i) i))
          = (fun i => if i = 0 then (bodyOf f0).drop 7 else obody (fieldAt fs 5 i)) := by
        funext i; by_cases hi : i = 0 <;> simp [hi, obody, hd7.2]
      rw [he] at this
      exact this
    · simp only [h7, if_false]
      exact parsePosixRest_spec wide fs.length _ 1 typeDefault hall


/-! NFSv4 branch -/

def nfs4TagSpec (b : List Ch) : Nat :=
  if b = str "user" then tagUser else if b = str "group" then tagGroup
  else if b = str "owner@" then tagUserObj else if b = str "group@" then tagGroupObj
  else if b = str "everyone@" then tagEveryone else 0

def nfs4TypeSpec (b : List Ch) : Nat :=
  if b = str "deny" then typeDeny else if b = str "allow" then typeAllow
  else if b = str "audit" then typeAudit else if b = str "alarm" then typeAlarm else 0

/-- A whole-field comparison: `len == strlen(lit) && memcmp(s, lit, len) == 0`. -/
theorem matchWhole {wide : Bool} {f : Field} (h : FieldOK wide f) (lit : String)
    (hl : f.len = lit.length) : matchAt f 0 lit = .ok (decide (bodyOf f = str lit)) := by
  rw [matchAt_ok h 0 lit (by omega)]
  have := (field_split h).2
  simp only [List.drop_zero]
  rw [List.take_of_length_le (by omega)]

theorem ne_of_length {b : List Ch} {lit : String} (h : b.length ≠ lit.length) : b ≠ str lit := by
  intro he; apply h; rw [he, str_length]

theorem lit_ne : str "user" ≠ str "group" ∧ str "user" ≠ str "owner@" ∧ str "user" ≠ str "group@" ∧
    str "user" ≠ str "everyone@" ∧ str "group" ≠ str "owner@" ∧ str "group" ≠ str "group@" ∧
    str "group" ≠ str "everyone@" ∧ str "owner@" ≠ str "group@" ∧ str "owner@" ≠ str "everyone@" ∧
    str "group@" ≠ str "everyone@" ∧ str "deny" ≠ str "allow" ∧ str "deny" ≠ str "audit" ∧
    str "deny" ≠ str "alarm" ∧ str "allow" ≠ str "audit" ∧ str "allow" ≠ str "alarm" ∧
    str "audit" ≠ str "alarm" := by decide

theorem lit_ne' : str "group" ≠ str "user" ∧ str "owner@" ≠ str "user" ∧ str "group@" ≠ str "user" ∧
    str "everyone@" ≠ str "user" ∧ str "owner@" ≠ str "group" ∧ str "group@" ≠ str "group" ∧
    str "everyone@" ≠ str "group" ∧ str "group@" ≠ str "owner@" ∧ str "everyone@" ≠ str "owner@" ∧
    str "everyone@" ≠ str "group@" ∧ str "allow" ≠ str "deny" ∧ str "audit" ≠ str "deny" ∧
    str "alarm" ≠ str "deny" ∧ str "audit" ≠ str "allow" ∧ str "alarm" ≠ str "allow" ∧
    str "alarm" ≠ str "audit" := by decide

theorem nfs4Tag_ok {wide : Bool} {f : Field} (h : FieldOK wide f) :
    nfs4Tag f = .ok (nfs4TagSpec (bodyOf f)) := by
  have hs := (field_split h).2
  unfold nfs4Tag nfs4TagSpec
  have l1 : "user".length = 4 := by decide
  have l2 : "group".length = 5 := by decide
  have l3 : "owner@".length = 6 := by decide
  have l4 : "group@".length = 6 := by decide
  have l5 : "everyone@".length = 9 := by decide
  have e1 : f.len = 4 → matchAt f 0 "user" = .ok (decide (bodyOf f = str "user")) :=
    fun hh => matchWhole h "user" (by omega)
  have e2 : f.len = 5 → matchAt f 0 "group" = .ok (decide (bodyOf f = str "group")) :=
    fun hh => matchWhole h "group" (by omega)
  have e3 : f.len = 6 → matchAt f 0 "owner@" = .ok (decide (bodyOf f = str "owner@")) :=
    fun hh => matchWhole h "owner@" (by omega)
  have e4 : f.len = 6 → matchAt f 0 "group@" = .ok (decide (bodyOf f = str "group@")) :=
    fun hh => matchWhole h "group@" (by omega)
  have e5 : f.len = 9 → matchAt f 0 "everyone@" = .ok (decide (bodyOf f = str "everyone@")) :=
    fun hh => matchWhole h "everyone@" (by omega)
  have n1 : f.len ≠ 4 → bodyOf f ≠ str "user" := fun hh => ne_of_length (by omega)
  have n2 : f.len ≠ 5 → bodyOf f ≠ str "group" := fun hh => ne_of_length (by omega)
  have n3 : f.len ≠ 6 → bodyOf f ≠ str "owner@" := fun hh => ne_of_length (by omega)
  have n4 : f.len ≠ 6 → bodyOf f ≠ str "group@" := fun hh => ne_of_length (by omega)
  have n5 : f.len ≠ 9 → bodyOf f ≠ str "everyone@" := fun hh => ne_of_length (by omega)
  generalize bodyOf f = b at *
  by_cases h4 : f.len = 4
  · rw [if_pos h4, e1 h4]
    have := n2 (by omega); have := n3 (by omega); have := n4 (by omega); have := n5 (by omega)
    by_cases hm : b = str "user" <;> simp [*, bind, Except.bind, pure, Except.pure] <;> decide
  by_cases h5 : f.len = 5
  · rw [if_neg h4, if_pos h5, e2 h5]
    have := n1 (by omega); have := n3 (by omega); have := n4 (by omega); have := n5 (by omega)
    by_cases hm : b = str "group" <;> simp [*, bind, Except.bind, pure, Except.pure] <;> decide
  by_cases h6 : f.len = 6
  · rw [if_neg h4, if_neg h5, if_pos h6, e3 h6, e4 h6]
    have := n1 (by omega); have := n2 (by omega); have := n5 (by omega)
    by_cases hm : b = str "owner@"
    · subst hm; simp [bind, Except.bind, pure, Except.pure] <;> decide
    · by_cases hm2 : b = str "group@"
      · subst hm2; simp [lit_ne, lit_ne', bind, Except.bind, pure, Except.pure]
      · simp [*, bind, Except.bind, pure, Except.pure]
  by_cases h9 : f.len = 9
  · rw [if_neg h4, if_neg h5, if_neg h6, if_pos h9, e5 h9]
    have := n1 (by omega); have := n2 (by omega); have := n3 (by omega); have := n4 (by omega)
    by_cases hm : b = str "everyone@" <;> simp [*, bind, Except.bind, pure, Except.pure] <;> decide
  · have := n1 (by omega); have := n2 (by omega); have := n3 (by omega); have := n4 (by omega)
    have := n5 (by omega)
    simp [*, pure, Except.pure]

theorem nfs4Type_ok {wide : Bool} {o : Option Field} (h : OFieldOK wide o) :
    nfs4Type o = .ok (nfs4TypeSpec (obody o)) := by
  cases o with
  | none => simp [nfs4Type, nfs4TypeSpec, pure, Except.pure]; decide
  | some f =>
    have h : FieldOK wide f := h
    have hs := (field_split h).2
    show nfs4Type (some f) = .ok (nfs4TypeSpec (bodyOf f))
    simp only [nfs4Type, nfs4TypeSpec]
    have l1 : "deny".length = 4 := by decide
    have l2 : "allow".length = 5 := by decide
    have l3 : "audit".length = 5 := by decide
    have l4 : "alarm".length = 5 := by decide
    have e1 : f.len = 4 → matchAt f 0 "deny" = .ok (decide (bodyOf f = str "deny")) :=
      fun hh => matchWhole h "deny" (by omega)
    have e2 : f.len = 5 → matchAt f 0 "allow" = .ok (decide (bodyOf f = str "allow")) :=
      fun hh => matchWhole h "allow" (by omega)
    have e3 : f.len = 5 → matchAt f 0 "audit" = .ok (decide (bodyOf f = str "audit")) :=
      fun hh => matchWhole h "audit" (by omega)
    have e4 : f.len = 5 → matchAt f 0 "alarm" = .ok (decide (bodyOf f = str "alarm")) :=
      fun hh => matchWhole h "alarm" (by omega)
    have n1 : f.len ≠ 4 → bodyOf f ≠ str "deny" := fun hh => ne_of_length (by omega)
    have n2 : f.len ≠ 5 → bodyOf f ≠ str "allow" := fun hh => ne_of_length (by omega)
    have n3 : f.len ≠ 5 → bodyOf f ≠ str "audit" := fun hh => ne_of_length (by omega)
    have n4 : f.len ≠ 5 → bodyOf f ≠ str "alarm" := fun hh => ne_of_length (by omega)
    by_cases h4 : f.len = 4
    · rw [if_pos h4, e1 h4]
      have := n2 (by omega); have := n3 (by omega); have := n4 (by omega)
      by_cases hm : bodyOf f = str "deny"
      · rw [hm]; simp [lit_ne, lit_ne', bind, Except.bind, pure, Except.pure]
      · simp [*, bind, Except.bind, pure, Except.pure]
    by_cases h5 : f.len = 5
    · rw [if_neg h4, if_pos h5, e2 h5, e3 h5, e4 h5]
      have := n1 (by omega)
      by_cases hm : bodyOf f = str "allow"
      · rw [hm]; simp [lit_ne, lit_ne', bind, Except.bind, pure, Except.pure]
      by_cases hm2 : bodyOf f = str "audit"
      · rw [hm2]; simp [lit_ne, lit_ne', bind, Except.bind, pure, Except.pure]
      by_cases hm3 : bodyOf f = str "alarm"
      · rw [hm3]; simp [lit_ne, lit_ne', bind, Except.bind, pure, Except.pure]
      · simp [*, bind, Except.bind, pure, Except.pure]
    · have := n1 (by omega); have := n2 (by omega); have := n3 (by omega); have := n4 (by omega)
      simp [*, pure, Except.pure]

/-- `parseNfs4` on field bodies. -/
def nfs4Core (wide : Bool) (b : Nat → List Ch) : PSpec :=
  let tag := nfs4TagSpec (b 0)
  if tag = 0 then .skip else
  let ug := tag = tagUser ∨ tag = tagGroup
  let n := if ug then 1 else 0
  let name := if ug then b 1 else []
  let id : Int := if ug then isintOr name (-1) else -1
  let r1 := isNfs4Perms wide (b (1 + n)) 0
  if ¬ r1.2 then .skip else
  let r2 := isNfs4Flags wide (b (2 + n)) r1.1
  if ¬ r2.2 then .skip else
  let type := nfs4TypeSpec (b (3 + n))
  if type = 0 then .skip else
  .entry type r2.1 tag (isintOr (b (4 + n)) id) name

theorem parseNfs4_spec (wide : Bool) (fs : List Field)
    (hf : ∀ f ∈ fs, FieldOK wide f) (h0 : fs ≠ []) :
    ∃ p, parseNfs4 wide fs = .ok p ∧
      p.toSpec = nfs4Core wide (fun i => obody (fieldAt fs 6 i)) ∧ p.NameOK wide := by
  obtain ⟨f0, hf0⟩ : ∃ f0, fieldAt fs 6 0 = some f0 := by
    cases fs with
    | nil => exact (h0 rfl).elim
    | cons a t => exact ⟨a, by simp [fieldAt]⟩
  have hall := fun i => fieldAt_ok hf 6 i
  have hok0 : FieldOK wide f0 := by have := hall 0; rw [hf0] at this; exact this
  have hb0 : obody (some f0) = bodyOf f0 := rfl
  unfold parseNfs4 nfs4Core
  simp only [hf0, bind, Except.bind, pure, Except.pure, nfs4Tag_ok hok0, hb0]
  generalize nfs4TagSpec (bodyOf f0) = tag
  by_cases ht0 : tag = 0
  · simp [ht0, Parsed.toSpec, Parsed.NameOK]
  simp only [ht0, if_false]
  by_cases hug : tag = tagUser ∨ tag = tagGroup
  · simp only [hug, if_true, fbody_ok (hall _), nfs4Type_ok (hall _)]
    generalize hr1 : isNfs4Perms wide (obody (fieldAt fs 6 (1 + 1))) 0 = r1
    obtain ⟨p1, ok1⟩ := r1
    cases ok1 with
    | false => simp [Parsed.toSpec, Parsed.NameOK]
    | true =>
      simp only [not_true_eq_false, if_false]
      generalize hr2 : isNfs4Flags wide (obody (fieldAt fs 6 (2 + 1))) p1 = r2
      obtain ⟨p2, ok2⟩ := r2
      cases ok2 with
      | false => simp [Parsed.toSpec, Parsed.NameOK]
      | true =>
        simp only [not_true_eq_false, if_false]
        by_cases hty : nfs4TypeSpec (obody (fieldAt fs 6 (3 + 1))) = 0
        · simp [hty, Parsed.toSpec, Parsed.NameOK]
        · have := hall 1
          simp [hty, Parsed.toSpec, Parsed.NameOK, this]
  · simp only [hug, if_false, fbody_ok (hall _), nfs4Type_ok (hall _)]
    generalize hr1 : isNfs4Perms wide (obody (fieldAt fs 6 (1 + 0))) 0 = r1
    obtain ⟨p1, ok1⟩ := r1
    cases ok1 with
    | false => simp [Parsed.toSpec, Parsed.NameOK]
    | true =>
      simp only [not_true_eq_false, if_false]
      generalize hr2 : isNfs4Flags wide (obody (fieldAt fs 6 (2 + 0))) p1 = r2
      obtain ⟨p2, ok2⟩ := r2
      cases ok2 with
      | false => simp [Parsed.toSpec, Parsed.NameOK]
      | true =>
        simp only [not_true_eq_false, if_false]
        by_cases hty : nfs4TypeSpec (obody (fieldAt fs 6 (3 + 0))) = 0
        · simp [hty, Parsed.toSpec, Parsed.NameOK]
        · simp [hty, Parsed.toSpec, Parsed.NameOK]


/-- The body of the parser's `while` loop on field bodies; the comment test looks at the
character `field[0].start` points to. -/
def fieldsCore (wide : Bool) (fs : List Field) (wantType : Nat) : PSpec :=
  if sepAt (fs.headD ⟨[], 0⟩).s = 35 then .comment
  else if wantType ≠ typeNfs4 then
    posixCore wide fs.length (fun i => obody (fieldAt fs 5 i)) wantType
  else nfs4Core wide (fun i => obody (fieldAt fs 6 i))

theorem parseFields_spec (wide : Bool) (fs : List Field) (wantType : Nat)
    (hf : ∀ f ∈ fs, FieldOK wide f) (h0 : fs ≠ []) :
    ∃ p, parseFields wide fs wantType = .ok p ∧ p.toSpec = fieldsCore wide fs wantType ∧
      p.NameOK wide := by
  match fs, h0 with
  | f0 :: t, _ =>
    have hok0 : FieldOK wide f0 := hf f0 (by simp)
    unfold parseFields fieldsCore
    have hrd : wide = true → rd f0.s 0 = .ok (sepAt f0.s) := by
      intro hw
      have := hok0.2 hw
      match hs : f0.s, this with
      | c :: r, _ => simp [rd, sepAt]
    have key : ∀ c, c = sepAt f0.s →
        ∃ p, (if c = 35 then pure .comment
              else if wantType ≠ typeNfs4 then parsePosix wide (f0 :: t) wantType
              else parseNfs4 wide (f0 :: t) : Except Fault Parsed) = .ok p ∧
          p.toSpec = (if sepAt f0.s = 35 then .comment
            else if wantType ≠ typeNfs4 then
              posixCore wide (f0 :: t).length (fun i => obody (fieldAt (f0 :: t) 5 i)) wantType
            else nfs4Core wide (fun i => obody (fieldAt (f0 :: t) 6 i))) ∧ p.NameOK wide := by
      intro c hc; subst hc
      by_cases h35 : sepAt f0.s = 35
      · simp [h35, Parsed.toSpec, Parsed.NameOK, pure, Except.pure]
      · simp only [h35, if_false]
        by_cases hw : wantType ≠ typeNfs4
        · simp only [hw, ne_eq, not_false_eq_true, if_true]
          exact parsePosix_spec wide (f0 :: t) wantType hf (by simp)
        · simp only [hw, if_false]
          exact parseNfs4_spec wide (f0 :: t) hf (by simp)
    cases wide with
    | false =>
      have := key _ rfl
      simp only [List.getElem?_cons_zero, bind, Except.bind, pure, Except.pure, List.headD_cons,
        Bool.false_eq_true, if_false] at this ⊢
      exact this
    | true =>
      have := key _ rfl
      simp only [List.getElem?_cons_zero, bind, Except.bind, pure, Except.pure, List.headD_cons,
        if_true, hrd rfl] at this ⊢
      exact this

theorem nameOf_ok {wide : Bool} {o : Option Field} (h : OFieldOK wide o) :
    nameOf wide o = .ok ((obody o).takeWhile (· ≠ 0)) := by
  cases o with
  | none => rfl
  | some f =>
    have h : FieldOK wide f := h
    cases wide with
    | false => simp [nameOf, bind, Except.bind, pure, Except.pure, body_ok h, obody]
    | true =>
      have := h.2 rfl
      match hs : f.s, this with
      | c :: r, _ => simp [nameOf, bind, Except.bind, pure, Except.pure, body_ok h, obody, hs, rd]

/-! ### The parser never reads outside the text -/

/-- A wide text pointer still has the terminating NUL ahead of it. -/
def Term (wide : Bool) (r : List Ch) : Prop := wide = true → 0 ∈ r

theorem scanFieldN_fst (r : List Ch) : (scanFieldN r).1 + (scanFieldN r).2.length = r.length := by
  induction r with
  | nil => simp [scanFieldN]
  | cons c t ih => simp only [scanFieldN]; split <;> simp <;> omega

theorem nextFieldN_fieldOK (r : List Ch) : FieldOK false (nextFieldN r).field := by
  have := scanFieldN_fst (skipWsN r)
  refine ⟨?_, fun h => by cases h⟩
  simp only [nextFieldN]; omega

theorem isWs_zero : isWs 0 = false := by decide

theorem skipWsW_ok (r : List Ch) (h : 0 ∈ r) :
    ∃ c t, skipWsW r = .ok (c :: t) ∧ isWs c = false ∧ 0 ∈ c :: t := by
  induction r with
  | nil => simp at h
  | cons c t ih =>
    simp only [skipWsW]
    by_cases hw : isWs c = true
    · have hc : c ≠ 0 := by intro h0; rw [h0, isWs_zero] at hw; cases hw
      have : 0 ∈ t := by
        rcases List.mem_cons.mp h with h | h
        · exact (hc h.symm).elim
        · exact h
      simp only [hw, if_true]; exact ih this
    · simp only [hw]
      exact ⟨c, t, rfl, by simpa using hw, h⟩

theorem scanW_ok (r : List Ch) (h : 0 ∈ r) :
    ∃ b r2, scanW r = .ok (b, r2) ∧ 0 ∈ r2 ∧ r = b ++ r2 ∧ r2 ≠ [] := by
  induction r with
  | nil => simp at h
  | cons c t ih =>
    simp only [scanW]
    by_cases hs : (c = 0 ∨ c = 44 ∨ c = 58 ∨ c = 10 ∨ c = 35)
    · simp only [hs, if_true]
      exact ⟨[], c :: t, rfl, h, rfl, by simp⟩
    · have hc : c ≠ 0 := fun h0 => hs (Or.inl h0)
      have : 0 ∈ t := by
        rcases List.mem_cons.mp h with h | h
        · exact (hc h.symm).elim
        · exact h
      obtain ⟨b, r2, he, h0, hcat, hne⟩ := ih this
      simp only [hs, if_false, he]
      exact ⟨c :: b, r2, rfl, h0, by simp [hcat], hne⟩

theorem skipCommentW_ok (r : List Ch) (h : 0 ∈ r) :
    ∃ r3, skipCommentW r = .ok r3 ∧ 0 ∈ r3 := by
  induction r with
  | nil => simp at h
  | cons c t ih =>
    simp only [skipCommentW]
    by_cases hs : (c = 0 ∨ c = 44 ∨ c = 10)
    · simp only [hs, if_true]; exact ⟨_, rfl, h⟩
    · have hc : c ≠ 0 := fun h0 => hs (Or.inl h0)
      have : 0 ∈ t := by
        rcases List.mem_cons.mp h with h | h
        · exact (hc h.symm).elim
        · exact h
      simp only [hs, if_false]; exact ih this

theorem dropWhile_nil_all {α : Type} (p : α → Bool) (l : List α) (h : l.dropWhile p = []) :
    ∀ x ∈ l, p x = true := by
  induction l with
  | nil => simp
  | cons a t ih =>
    simp only [List.dropWhile_cons] at h
    split at h
    · rename_i hp
      intro x hx
      rcases List.mem_cons.mp hx with hx | hx
      · rw [hx]; exact hp
      · exact ih h x hx
    · cases h

theorem trimEndW_ok (c : Ch) (b : List Ch) (hc : isWs c = false) :
    ∃ n, trimEndW (c :: b) = .ok n ∧ n ≤ (c :: b).length := by
  unfold trimEndW
  have hne : (c :: b).reverse.dropWhile isWs ≠ [] := by
    intro he
    have := dropWhile_nil_all _ _ he c (by simp)
    rw [hc] at this; cases this
  have hle : ((c :: b).reverse.dropWhile isWs).length ≤ (c :: b).length := by
    have := (List.dropWhile_sublist (l := (c :: b).reverse) isWs).length_le
    simpa using this
  match hd : (c :: b).reverse.dropWhile isWs, hne with
  | x :: l, _ => exact ⟨_, rfl, by rw [hd] at hle; exact hle⟩

theorem rd_cons (c : Ch) (t : List Ch) : rd (c :: t) 0 = .ok c := by simp [rd]

theorem nextFieldW_ok (r : List Ch) (h : 0 ∈ r) :
    ∃ nf, nextFieldW r = .ok nf ∧ 0 ∈ nf.rest ∧ FieldOK true nf.field := by
  obtain ⟨c, t, h1, hc, h01⟩ := skipWsW_ok r h
  obtain ⟨b, r2, h2, h02, hcat, hne2⟩ := scanW_ok (c :: t) h01
  obtain ⟨x, r2', hr2⟩ : ∃ x r2', r2 = x :: r2' := by
    cases r2 with
    | nil => exact (hne2 rfl).elim
    | cons x r2' => exact ⟨x, r2', rfl⟩
  have htrim : ∃ n, (if b = [] then .ok 0 else trimEndW b : Except Fault Nat) = .ok n ∧ n ≤ b.length := by
    cases b with
    | nil => exact ⟨0, by simp, by simp⟩
    | cons y b' =>
      have : y = c := by simp at hcat; exact hcat.1.symm
      subst this
      obtain ⟨n, hn, hle⟩ := trimEndW_ok y b' hc
      exact ⟨n, by simp [hn], hle⟩
  obtain ⟨n, hn, hnle⟩ := htrim
  have hcom : ∃ r3, (if x = 35 then skipCommentW r2 else .ok r2 : Except Fault (List Ch)) = .ok r3 ∧ 0 ∈ r3 := by
    by_cases h35 : x = 35
    · simp only [h35, if_true]; exact skipCommentW_ok r2 h02
    · simp only [h35, if_false]; exact ⟨r2, rfl, h02⟩
  obtain ⟨r3, h3, h03⟩ := hcom
  obtain ⟨y, r3', hr3⟩ : ∃ y r3', r3 = y :: r3' := by
    cases r3 with
    | nil => simp at h03
    | cons y r3' => exact ⟨y, r3', rfl⟩
  refine ⟨{ field := ⟨c :: t, n⟩, sep := y, rest := if y ≠ 0 then r3.drop 1 else r3 }, ?_, ?_, ?_⟩
  · unfold nextFieldW
    simp only [h1, h2]
    rw [hr2] at h3 ⊢
    simp only [rd_cons, hn, h3, hr3]
  · simp only
    by_cases hy : y = 0
    · simp only [hy, ne_eq, not_true_eq_false, if_false]; exact h03
    · simp only [hy, ne_eq, not_false_eq_true, if_true, hr3, List.drop_one, List.tail_cons]
      rw [hr3] at h03
      rcases List.mem_cons.mp h03 with h | h
      · exact (hy h.symm).elim
      · exact h
  · refine ⟨?_, fun _ => by simp⟩
    have : (c :: t).length = b.length + r2.length := by rw [hcat]; simp
    simp only; omega

theorem nextField_ok (wide : Bool) (r : List Ch) (h : Term wide r) :
    ∃ nf, nextField wide r = .ok nf ∧ Term wide nf.rest ∧ FieldOK wide nf.field := by
  cases wide with
  | false => exact ⟨nextFieldN r, rfl, (fun hw => by cases hw), nextFieldN_fieldOK r⟩
  | true =>
    obtain ⟨nf, h1, h2, h3⟩ := nextFieldW_ok r (h rfl)
    exact ⟨nf, by simp [nextField, h1], fun _ => h2, h3⟩

theorem splitEntry_ok (wide : Bool) (r : List Ch) (h : Term wide r) :
    ∃ fs rest, splitEntry wide r = .ok (fs, rest) ∧ Term wide rest ∧
      (∀ f ∈ fs, FieldOK wide f) ∧ fs ≠ [] := by
  induction r using (measure List.length).wf.induction with
  | _ r ih =>
    obtain ⟨nf, hnf, hterm, hfok⟩ := nextField_ok wide r h
    rw [splitEntry_eq, hnf]
    by_cases hs : nf.sep = 58
    · have hlt := nextField_sep wide r nf hnf (by simp [hs])
      obtain ⟨fs, rest, he, ht, hall, hne⟩ := ih nf.rest hlt hterm
      simp only [hs, if_true, he]
      refine ⟨nf.field :: fs, rest, rfl, ht, ?_, by simp⟩
      intro f hf
      rcases List.mem_cons.mp hf with hf | hf
      · rw [hf]; exact hfok
      · exact hall f hf
    · simp only [hs, if_false]
      refine ⟨[nf.field], nf.rest, rfl, hterm, ?_, by simp⟩
      intro f hf; simp at hf; rw [hf]; exact hfok

/-- The parser loop finishes without reading outside the text, whatever the text is. -/
theorem parseLoop_ok (wide : Bool) (wantType : Nat) (r : List Ch) (o : ParseOut) (h : Term wide r) :
    ∃ o', parseLoop wide wantType r o = .ok o' := by
  induction r using (measure List.length).wf.induction generalizing o with
  | _ r ih =>
    cases r with
    | nil =>
      rw [parseLoop_nil]
      cases wide with
      | false => exact ⟨o, rfl⟩
      | true => have := h rfl; simp at this
    | cons c t =>
      rw [parseLoop_cons]
      by_cases hc : c = 0
      · simp only [hc, if_true]; exact ⟨o, rfl⟩
      · simp only [hc, if_false]
        obtain ⟨fs, rest, he, ht, hall, hne⟩ := splitEntry_ok wide (c :: t) h
        have hlt := (splitEntry_rest wide (c :: t) fs rest he).2 c t rfl hc
        simp only [he, loopStep]
        obtain ⟨p, hp, _, hname⟩ := parseFields_spec wide fs wantType hall hne
        rw [hp]
        cases p with
        | comment => exact ih rest hlt _ ht
        | skip => exact ih rest hlt _ ht
        | entry ty pm tg id nm =>
          simp only [nameOf_ok (show OFieldOK wide nm from hname)]
          split
          · exact ⟨_, rfl⟩
          · exact ih rest hlt _ ht

theorem fromText_ok (wide : Bool) (acl : Acl) (text : List Ch) (wantType : Nat) :
    ∃ o, fromText wide acl text wantType = .ok o := by
  unfold fromText
  simp only []
  generalize (if wantType = typePosix1e then typeAccess else wantType) = wt
  split
  · apply parseLoop_ok
    intro hw; simp [hw]
  · exact ⟨_, rfl⟩


/-! ### Skipped entries and the warning status -/

theorem addEntry_status (acl : Acl) (ty pm tg : Nat) (id : Int) (nm : List Ch) :
    (addEntry acl ty pm tg id nm).2 = .ok ∨ (addEntry acl ty pm tg id nm).2 = .failed := by
  unfold addEntry
  split
  · exact Or.inl rfl
  · split
    · split <;> exact Or.inl rfl
    · exact Or.inr rfl

/-- Skipped entries and the returned status go together. -/
def SkipInv (o : ParseOut) : Prop :=
  (o.skipped > 0 → o.status ≠ .ok) ∧ (o.status = .warn → o.skipped > 0)

theorem parseLoop_skipInv (wide : Bool) (wantType : Nat) (r : List Ch) (o o' : ParseOut)
    (h : parseLoop wide wantType r o = .ok o') (hi : SkipInv o) (hst : o.status = .ok ∨ o.status = .warn) :
    SkipInv o' := by
  induction r using (measure List.length).wf.induction generalizing o with
  | _ r ih =>
    cases r with
    | nil =>
      rw [parseLoop_nil] at h
      split at h
      · cases h
      · cases h; exact hi
    | cons c t =>
      rw [parseLoop_cons] at h
      split at h
      · cases h; exact hi
      · rename_i hc
        split at h
        · cases h
        · rename_i fs rest he
          have hlt := (splitEntry_rest wide (c :: t) fs rest he).2 c t rfl hc
          unfold loopStep at h
          split at h
          · cases h
          · exact ih rest hlt o h hi hst
          · refine ih rest hlt _ h ⟨fun _ => by simp, fun _ => by simp⟩ (Or.inr rfl)
          · rename_i ty pm tg id nm _
            split at h
            · cases h
            · rename_i nmv _
              rcases addEntry_status o.acl ty pm tg id nmv with hs | hs
              · simp only [hs, reduceCtorEq, or_self, if_false, ne_eq, not_true_eq_false] at h
                exact ih rest hlt _ h hi hst
              · simp only [hs, true_or, if_true] at h
                cases h
                refine ⟨fun _ => by simp, fun hh => by simp at hh⟩

/-! ### Splitting a generated entry into its fields -/

/-- Characters that may appear inside a field of generated text. -/
def CleanCh (c : Ch) : Prop := c ≠ 0 ∧ c ≠ 32 ∧ c ≠ 9 ∧ c ≠ 10 ∧ c ≠ 44 ∧ c ≠ 58 ∧ c ≠ 35

def Clean (b : List Ch) : Prop := ∀ c ∈ b, CleanCh c

theorem CleanCh.notWs {c : Ch} (h : CleanCh c) : isWs c = false := by
  obtain ⟨_, h1, h2, h3, _⟩ := h
  simp [isWs, h1, h2, h3]

theorem skipWsN_clean (b tl : List Ch) (hb : Clean b) (htl : b = [] → ∀ c t, tl = c :: t → isWs c = false) :
    skipWsN (b ++ tl) = b ++ tl := by
  cases b with
  | nil =>
    cases tl with
    | nil => rfl
    | cons c t => simp [skipWsN, htl rfl c t rfl]
  | cons c t => simp [skipWsN, (hb c (by simp)).notWs]

theorem scanFieldN_clean (b : List Ch) (x : Ch) (rest : List Ch) (hb : Clean b)
    (hx : isWs x = true ∨ x = 44 ∨ x = 58 ∨ x = 35) :
    scanFieldN (b ++ x :: rest) = (b.length, x :: rest) := by
  induction b with
  | nil => simp [scanFieldN, hx]
  | cons c t ih =>
    have hc := hb c (by simp)
    obtain ⟨_, h1, h2, h3, h4, h5, h6⟩ := hc
    have := ih (fun d hd => hb d (by simp [hd]))
    simp [scanFieldN, isWs, h1, h2, h3, h4, h5, h6, this]

theorem scanFieldN_clean_end (b : List Ch) (hb : Clean b) : scanFieldN b = (b.length, []) := by
  induction b with
  | nil => simp [scanFieldN]
  | cons c t ih =>
    obtain ⟨_, h1, h2, h3, h4, h5, h6⟩ := hb c (by simp)
    have := ih (fun d hd => hb d (by simp [hd]))
    simp [scanFieldN, isWs, h1, h2, h3, h4, h5, h6, this]

/-- `next_field` on a clean field followed by a separator. -/
theorem nextFieldN_clean (b : List Ch) (x : Ch) (rest : List Ch) (hb : Clean b)
    (hx : x = 58 ∨ x = 44 ∨ (x = 10 ∧ b ≠ [])) :
    nextFieldN (b ++ x :: rest) = { field := ⟨b ++ x :: rest, b.length⟩, sep := x, rest := rest } := by
  have hws : skipWsN (b ++ x :: rest) = b ++ x :: rest := by
    apply skipWsN_clean b _ hb
    intro he c t hct
    simp only [List.cons.injEq] at hct
    rcases hx with h | h | h
    · rw [← hct.1, h]; decide
    · rw [← hct.1, h]; decide
    · exact (h.2 he).elim
  have hsf : scanFieldN (b ++ x :: rest) = (b.length, x :: rest) := by
    apply scanFieldN_clean b x rest hb
    rcases hx with h | h | h
    · exact Or.inr (Or.inr (Or.inl h))
    · exact Or.inr (Or.inl h)
    · left; rw [h.1]; decide
  have hss : scanSepN (x :: rest) = x :: rest := by
    rcases hx with h | h | h <;> simp [scanSepN, h]
  have h35 : x ≠ 35 := by rcases hx with h | h | h <;> simp [h]
  simp [nextFieldN, hws, hsf, hss, sepAt, h35]

theorem nextFieldN_clean_end (b : List Ch) (hb : Clean b) :
    nextFieldN b = { field := ⟨b, b.length⟩, sep := 0, rest := [] } := by
  have hws : skipWsN b = b := by simpa using skipWsN_clean b [] hb (by simp)
  simp [nextFieldN, hws, scanFieldN_clean_end b hb, scanSepN, sepAt]

theorem skipWsW_clean (b tl : List Ch) (hb : Clean b) (hne : b ++ tl ≠ [])
    (htl : b = [] → ∀ c t, tl = c :: t → isWs c = false) :
    skipWsW (b ++ tl) = .ok (b ++ tl) := by
  cases b with
  | nil =>
    cases tl with
    | nil => exact (hne rfl).elim
    | cons c t => simp [skipWsW, htl rfl c t rfl]
  | cons c t => simp [skipWsW, (hb c (by simp)).notWs]

theorem scanW_clean (b : List Ch) (x : Ch) (rest : List Ch) (hb : Clean b)
    (hx : x = 0 ∨ x = 44 ∨ x = 58 ∨ x = 10 ∨ x = 35) :
    scanW (b ++ x :: rest) = .ok (b, x :: rest) := by
  induction b with
  | nil => simp [scanW, hx]
  | cons c t ih =>
    obtain ⟨h0, h1, h2, h3, h4, h5, h6⟩ := hb c (by simp)
    have := ih (fun d hd => hb d (by simp [hd]))
    simp [scanW, h0, h3, h4, h5, h6, this]

theorem trimEndW_clean (b : List Ch) (hb : Clean b) (hne : b ≠ []) : trimEndW b = .ok b.length := by
  unfold trimEndW
  have hlast := (hb _ (List.getLast_mem hne)).notWs
  have hb' := List.dropLast_concat_getLast hne
  have hrev : b.reverse = b.getLast hne :: b.dropLast.reverse := by
    conv => lhs; rw [← hb']
    simp
  have hlen : (b.getLast hne :: b.dropLast.reverse).length = b.length := by
    rw [← hrev]; simp
  rw [hrev]
  simp only [List.dropWhile_cons, hlast, Bool.false_eq_true, if_false]
  rw [hlen]

/-- `next_field_w` on a clean field followed by a separator or the terminator. -/
theorem nextFieldW_clean (b : List Ch) (x : Ch) (rest : List Ch) (hb : Clean b)
    (hx : x = 58 ∨ x = 44 ∨ (x = 10 ∧ b ≠ []) ∨ x = 0) :
    nextFieldW (b ++ x :: rest) =
      .ok { field := ⟨b ++ x :: rest, b.length⟩, sep := x, rest := if x ≠ 0 then rest else x :: rest } := by
  have hws : skipWsW (b ++ x :: rest) = .ok (b ++ x :: rest) := by
    apply skipWsW_clean b _ hb (by simp)
    intro he c t hct
    simp only [List.cons.injEq] at hct
    rcases hx with h | h | h | h
    · rw [← hct.1, h]; decide
    · rw [← hct.1, h]; decide
    · exact (h.2 he).elim
    · rw [← hct.1, h]; decide
  have hsc : scanW (b ++ x :: rest) = .ok (b, x :: rest) := by
    apply scanW_clean b x rest hb
    rcases hx with h | h | h | h
    · exact Or.inr (Or.inr (Or.inl h))
    · exact Or.inr (Or.inl h)
    · exact Or.inr (Or.inr (Or.inr (Or.inl h.1)))
    · exact Or.inl h
  have h35 : x ≠ 35 := by rcases hx with h | h | h | h <;> simp [h]
  have htrim : (if b = [] then .ok 0 else trimEndW b : Except Fault Nat) = .ok b.length := by
    by_cases hbe : b = []
    · simp [hbe]
    · simp [hbe, trimEndW_clean b hb hbe]
  unfold nextFieldW
  simp only [hws, hsc, rd_cons, htrim, h35, if_false]
  by_cases h0 : x = 0 <;> simp [h0]

theorem nextField_clean (wide : Bool) (b : List Ch) (x : Ch) (rest : List Ch) (hb : Clean b)
    (hx : x = 58 ∨ x = 44 ∨ (x = 10 ∧ b ≠ [])) :
    nextField wide (b ++ x :: rest) =
      .ok { field := ⟨b ++ x :: rest, b.length⟩, sep := x, rest := rest } := by
  cases wide with
  | false => simp [nextField, nextFieldN_clean b x rest hb hx]
  | true =>
    have hx0 : x ≠ 0 := by rcases hx with h | h | h <;> simp [h]
    have := nextFieldW_clean b x rest hb (by
      rcases hx with h | h | h
      · exact Or.inl h
      · exact Or.inr (Or.inl h)
      · exact Or.inr (Or.inr (Or.inl h)))
    simp [nextField, this, hx0]

/-- The fields of an entry, joined by colons. -/
def joinColon : List (List Ch) → List Ch
  | [] => []
  | [b] => b
  | b :: b' :: t => b ++ 58 :: joinColon (b' :: t)

/-- What follows an entry in generated text (`tl`) and where the parser stands after it
(`rest`): an entry separator and more text, or the end of the text. -/
inductive EntryEnd (wide : Bool) : List Ch → List Ch → Prop
  | sep (x : Ch) (rest : List Ch) (hx : x = 44 ∨ x = 10) : EntryEnd wide (x :: rest) rest
  | endN (h : wide = false) : EntryEnd wide [] []
  | endW (h : wide = true) : EntryEnd wide [0] [0]

theorem splitEntry_clean (wide : Bool) (bs : List (List Ch)) (tl rest : List Ch)
    (hne : bs ≠ []) (hc : ∀ b ∈ bs, Clean b) (hlast : bs.getLast hne ≠ [])
    (hend : EntryEnd wide tl rest) :
    ∃ fs, splitEntry wide (joinColon bs ++ tl) = .ok (fs, rest) ∧ fs.map bodyOf = bs ∧
      (∀ f ∈ fs, FieldOK wide f) ∧ (fs.headD ⟨[], 0⟩).s = joinColon bs ++ tl := by
  induction bs with
  | nil => exact (hne rfl).elim
  | cons b t ih =>
    cases t with
    | nil =>
      have hb : Clean b := hc b (by simp)
      have hbne : b ≠ [] := by simpa using hlast
      simp only [joinColon]
      rw [splitEntry_eq]
      cases hend with
      | sep x rest hx =>
        have hx' : x = 58 ∨ x = 44 ∨ (x = 10 ∧ b ≠ []) := by
          rcases hx with h | h
          · exact Or.inr (Or.inl h)
          · exact Or.inr (Or.inr ⟨h, hbne⟩)
        have hx58 : x ≠ 58 := by rcases hx with h | h <;> simp [h]
        rw [nextField_clean wide b x rest hb hx']
        simp only [hx58, if_false]
        refine ⟨_, rfl, ?_, ?_, rfl⟩
        · simp [bodyOf]
        · intro f hf; simp at hf; subst hf
          exact ⟨by simp, fun _ => by simp⟩
      | endN hw =>
        subst hw
        simp only [List.append_nil, nextField, Bool.false_eq_true, if_false, nextFieldN_clean_end b hb]
        refine ⟨_, rfl, ?_, ?_, rfl⟩
        · simp [bodyOf]
        · intro f hf; simp at hf; subst hf
          exact ⟨by simp, fun h => by cases h⟩
      | endW hw =>
        subst hw
        have := nextFieldW_clean b 0 [] hb (Or.inr (Or.inr (Or.inr rfl)))
        simp only [nextField, if_true, this]
        refine ⟨_, rfl, ?_, ?_, rfl⟩
        · simp [bodyOf]
        · intro f hf; simp at hf; subst hf
          exact ⟨by simp, fun _ => by simp⟩
    | cons b' t' =>
      have hb : Clean b := hc b (by simp)
      obtain ⟨fs, he, hmap, hok, hhead⟩ := ih (by simp) (fun x hx => hc x (by simp [hx]))
        (by simpa [List.getLast_cons] using hlast)
      simp only [joinColon, List.append_assoc, List.cons_append]
      rw [splitEntry_eq, nextField_clean wide b 58 _ hb (Or.inl rfl)]
      simp only [if_true, he]
      refine ⟨_, rfl, ?_, ?_, rfl⟩
      · simp [bodyOf, hmap]
      · intro f hf
        rcases List.mem_cons.mp hf with hf | hf
        · subst hf; exact ⟨by simp, fun _ => by simp⟩
        · exact hok f hf


/-- `fieldsCore` in terms of the field bodies alone. -/
def bodiesCore (wide : Bool) (bs : List (List Ch)) (first : Ch) (wantType : Nat) : PSpec :=
  if first = 35 then .comment
  else if wantType ≠ typeNfs4 then
    posixCore wide bs.length (fun i => if i < 5 then bs.getD i [] else []) wantType
  else nfs4Core wide (fun i => if i < 6 then bs.getD i [] else [])

theorem fieldAt_body (fs : List Field) (k i : Nat) :
    obody (fieldAt fs k i) = if i < k then (fs.map bodyOf).getD i [] else [] := by
  unfold fieldAt
  split
  · simp only [List.getD_eq_getElem?_getD, List.getElem?_map]
    cases fs[i]? <;> simp [obody]
  · rfl

theorem fieldsCore_bodies (wide : Bool) (fs : List Field) (wantType : Nat) :
    fieldsCore wide fs wantType =
      bodiesCore wide (fs.map bodyOf) (sepAt (fs.headD ⟨[], 0⟩).s) wantType := by
  unfold fieldsCore bodiesCore
  simp only [fieldAt_body, List.length_map]

/-- One round of the parser loop over one generated entry. -/
theorem entry_step (wide : Bool) (wantType : Nat) (bs : List (List Ch)) (tl rest : List Ch)
    (o : ParseOut) (c0 : Ch) (t0 : List Ch)
    (hne : bs ≠ []) (hc : ∀ b ∈ bs, Clean b) (hlast : bs.getLast hne ≠ [])
    (hend : EntryEnd wide tl rest) (hhead : joinColon bs ++ tl = c0 :: t0) (hc0 : c0 ≠ 0)
    (ty pm tg : Nat) (id : Int) (nm : List Ch)
    (hcore : bodiesCore wide bs c0 wantType = .entry ty pm tg id nm) :
    parseLoop wide wantType (joinColon bs ++ tl) o =
      if (addEntry o.acl ty pm tg id (nm.takeWhile (· ≠ 0))).2 = .failed ∨
         (addEntry o.acl ty pm tg id (nm.takeWhile (· ≠ 0))).2 = .fatal then
        .ok { o with acl := (addEntry o.acl ty pm tg id (nm.takeWhile (· ≠ 0))).1,
                     status := (addEntry o.acl ty pm tg id (nm.takeWhile (· ≠ 0))).2,
                     added := o.added + 1 }
      else parseLoop wide wantType rest
        { o with acl := (addEntry o.acl ty pm tg id (nm.takeWhile (· ≠ 0))).1,
                 status := if (addEntry o.acl ty pm tg id (nm.takeWhile (· ≠ 0))).2 ≠ .ok then .warn
                           else o.status,
                 added := o.added + 1 } := by
  obtain ⟨fs, he, hmap, hok, hhd⟩ := splitEntry_clean wide bs tl rest hne hc hlast hend
  have hfs : fs ≠ [] := by intro h; rw [h] at hmap; exact hne hmap.symm
  obtain ⟨p, hp, hspec, hname⟩ := parseFields_spec wide fs wantType hok hfs
  rw [fieldsCore_bodies, hmap, hhd, hhead] at hspec
  simp only [sepAt] at hspec
  rw [hcore] at hspec
  conv => lhs; rw [hhead, parseLoop_cons]
  rw [← hhead, he]
  simp only [hc0, if_false, loopStep, hp]
  cases p with
  | comment => simp [Parsed.toSpec] at hspec
  | skip => simp [Parsed.toSpec] at hspec
  | entry ty' pm' tg' id' nmf =>
    simp only [Parsed.toSpec, PSpec.entry.injEq] at hspec
    obtain ⟨h1, h2, h3, h4, h5⟩ := hspec
    subst h1 h2 h3 h4
    simp only [nameOf_ok (show OFieldOK wide nmf from hname), h5]

/-! ### Numbers and permission strings read back -/

def isDigit (c : Ch) : Prop := 48 ≤ c ∧ c ≤ 57

/-- The accumulation step of `isint`. -/
def isintStep (n : Nat) (c : Ch) : Nat :=
  if n > 2147483647 / 10 ∨ (n = 2147483647 / 10 ∧ c - 48 > 2147483647 % 10) then 2147483647
  else n * 10 + (c - 48)

theorem digits_all_digit (n : Nat) : ∀ c ∈ digits n, isDigit c := by
  induction n using Nat.strongRecOn with
  | _ n ih =>
    rw [digits]
    split
    · intro c hc
      rcases List.mem_append.mp hc with h | h
      · exact ih (n / 10) (by omega) c h
      · simp at h; subst h; unfold isDigit; omega
    · intro c hc; simp at hc; subst hc; unfold isDigit; omega

theorem digits_ne_nil (n : Nat) : digits n ≠ [] := by
  rw [digits]; split <;> simp

theorem digits_foldl (n : Nat) (h : n ≤ 2147483647) : (digits n).foldl isintStep 0 = n := by
  induction n using Nat.strongRecOn with
  | _ n ih =>
    rw [digits]
    split
    · rename_i h9
      rw [List.foldl_append, ih (n / 10) (by omega) (by omega)]
      simp only [List.foldl_cons, List.foldl_nil, isintStep]
      have : ¬ (n / 10 > 2147483647 / 10 ∨ (n / 10 = 2147483647 / 10 ∧ 48 + n % 10 - 48 > 2147483647 % 10)) := by
        omega
      rw [if_neg this]; omega
    · simp only [List.foldl_cons, List.foldl_nil, isintStep]
      have : ¬ (0 > 2147483647 / 10 ∨ (0 = 2147483647 / 10 ∧ 48 + n - 48 > 2147483647 % 10)) := by omega
      rw [if_neg this]; omega

theorem isint_digits (n : Nat) (h : n ≤ 2147483647) : isint (digits n) = some (n : Int) := by
  have hd := digits_all_digit n
  have hany : (digits n).any (fun c => decide (c < 48 ∨ c > 57)) = false := by
    rw [List.any_eq_false]
    intro c hc
    have := hd c hc; unfold isDigit at this
    simp; omega
  unfold isint
  simp only [digits_ne_nil n, false_or, hany, Bool.false_eq_true, if_false]
  have := digits_foldl n h
  unfold isintStep at this
  rw [this]

theorem isint_nil : isint [] = none := by simp [isint]

theorem isint_nondigit (b : List Ch) (h : ∃ c ∈ b, ¬ isDigit c) : isint b = none := by
  obtain ⟨c, hc, hd⟩ := h
  have : b.any (fun c => decide (c < 48 ∨ c > 57)) = true := by
    rw [List.any_eq_true]
    refine ⟨c, hc, ?_⟩
    unfold isDigit at hd; simp; omega
  unfold isint
  rw [if_pos (Or.inr this)]


/-- The three characters `append_entry` writes for a POSIX.1e permset. -/
def rwxChars (perm : Nat) : List Ch :=
  [if perm &&& 0o444 ≠ 0 then 114 else 45, if perm &&& 0o222 ≠ 0 then 119 else 45,
   if perm &&& 0o111 ≠ 0 then 120 else 45]

/-- ... and the permset `ismode` reads from them. -/
def rwxVal (perm : Nat) : Nat :=
  (if perm &&& 0o444 ≠ 0 then 4 else 0) ||| (if perm &&& 0o222 ≠ 0 then 2 else 0) |||
  (if perm &&& 0o111 ≠ 0 then 1 else 0)

theorem ismode_rwx (wide : Bool) (perm acc : Nat) : ismode wide (rwxChars perm) acc = (rwxVal perm, true) := by
  unfold rwxChars rwxVal
  by_cases h1 : perm &&& 0o444 ≠ 0 <;> by_cases h2 : perm &&& 0o222 ≠ 0 <;>
    by_cases h3 : perm &&& 0o111 ≠ 0 <;> cases wide <;>
    (first | rw [if_pos h1] | rw [if_neg h1]) <;> (first | rw [if_pos h1] | rw [if_neg h1]) <;>
    (first | rw [if_pos h2] | rw [if_neg h2]) <;> (first | rw [if_pos h2] | rw [if_neg h2]) <;>
    (first | rw [if_pos h3] | rw [if_neg h3]) <;> (first | rw [if_pos h3] | rw [if_neg h3]) <;> rfl

theorem rwxVal_small : ∀ p : Fin 8, rwxVal p.val = p.val := by decide

theorem rwxChars_clean (perm : Nat) : Clean (rwxChars perm) := by
  intro c hc
  unfold rwxChars at hc
  simp only [List.mem_cons, List.not_mem_nil, or_false] at hc
  rcases hc with h | h | h <;> subst h <;> split <;> (unfold CleanCh; decide)

theorem rwxChars_nondigit (perm : Nat) : ∃ c ∈ rwxChars perm, ¬ isDigit c := by
  refine ⟨_, List.mem_cons_self, ?_⟩
  split <;> (unfold isDigit; decide)

/-! NFSv4 permission and flag strings -/

/-- A print map and the parser switch agree: every map entry is a single bit whose
character the switch maps back to that bit, and `-` is accepted without effect. -/
def MapOK (m tbl : List (Nat × Nat)) : Prop :=
  (∀ x ∈ m, lookup tbl x.2 = some x.1 ∧ ∃ k, x.1 = 2 ^ k) ∧ lookup tbl 45 = some 0

def maskOf (m : List (Nat × Nat)) : Nat := m.foldr (fun x acc => x.1 ||| acc) 0

theorem and_two_pow_of_ne_zero (p k : Nat) (h : p &&& 2 ^ k ≠ 0) : p &&& 2 ^ k = 2 ^ k := by
  apply Nat.eq_of_testBit_eq
  intro i
  rw [Nat.testBit_and, Nat.testBit_two_pow]
  by_cases hik : k = i
  · subst hik
    have : p.testBit k = true := by
      cases hb : p.testBit k with
      | true => rfl
      | false =>
        exfalso; apply h
        apply Nat.eq_of_testBit_eq
        intro j
        rw [Nat.testBit_and, Nat.testBit_two_pow]
        by_cases hj : k = j
        · subst hj; simp [hb]
        · simp [hj]
    simp [this]
  · simp [hik]

theorem orChars_mapChars (m tbl : List (Nat × Nat)) (h : MapOK m tbl) (p acc : Nat) (compact : Bool)
    (rest : List Ch) :
    orChars tbl (mapChars m p compact ++ rest) acc = orChars tbl rest (acc ||| (p &&& maskOf m)) := by
  induction m generalizing acc with
  | nil => simp [mapChars, maskOf]
  | cons a t ih =>
    have ht : MapOK t tbl := ⟨fun x hx => h.1 x (by simp [hx]), h.2⟩
    obtain ⟨hlk, k, hk⟩ := h.1 a (by simp)
    rw [mapChars_cons]
    have hmask : maskOf (a :: t) = a.1 ||| maskOf t := rfl
    by_cases hbit : p &&& a.1 ≠ 0
    · rw [if_pos hbit]
      simp only [List.cons_append, List.nil_append, orChars, hlk]
      rw [ih ht]
      congr 1
      have : p &&& a.1 = a.1 := by rw [hk] at hbit ⊢; exact and_two_pow_of_ne_zero p k hbit
      rw [hmask, Nat.and_or_distrib_left, this, Nat.or_assoc]
    · have hz : p &&& a.1 = 0 := by simpa using hbit
      have hacc : acc ||| (p &&& maskOf (a :: t)) = acc ||| (p &&& maskOf t) := by
        rw [hmask, Nat.and_or_distrib_left, hz, Nat.zero_or]
      cases compact with
      | true =>
        rw [if_neg hbit]
        simp only [if_true, List.nil_append]
        rw [ih ht, hacc]
      | false =>
        rw [if_neg hbit]
        simp only [Bool.false_eq_true, if_false, List.cons_append, List.nil_append, orChars, h.2,
          Nat.or_zero]
        rw [ih ht, hacc]

theorem maps_ok : MapOK permMap permParse ∧ MapOK permMapW permParseW ∧
    MapOK flagMap flagParse ∧ MapOK flagMapW flagParseW := by
  have pow : ∀ x : Nat, x ∈ [1, 8, 16, 32, 64, 128, 256, 512, 1024, 2048, 4096, 8192, 16384, 32768,
      16777216, 33554432, 67108864, 134217728, 268435456, 536870912, 1073741824] → ∃ k, x = 2 ^ k := by
    intro x hx
    simp only [List.mem_cons, List.not_mem_nil, or_false] at hx
    rcases hx with h | h | h | h | h | h | h | h | h | h | h | h | h | h | h | h | h | h | h | h | h
    · exact ⟨0, h⟩
    · exact ⟨3, h⟩
    · exact ⟨4, h⟩
    · exact ⟨5, h⟩
    · exact ⟨6, h⟩
    · exact ⟨7, h⟩
    · exact ⟨8, h⟩
    · exact ⟨9, h⟩
    · exact ⟨10, h⟩
    · exact ⟨11, h⟩
    · exact ⟨12, h⟩
    · exact ⟨13, h⟩
    · exact ⟨14, h⟩
    · exact ⟨15, h⟩
    · exact ⟨24, h⟩
    · exact ⟨25, h⟩
    · exact ⟨26, h⟩
    · exact ⟨27, h⟩
    · exact ⟨28, h⟩
    · exact ⟨29, h⟩
    · exact ⟨30, h⟩
  have key : ∀ m tbl : List (Nat × Nat),
      (∀ x ∈ m, lookup tbl x.2 = some x.1 ∧ x.1 ∈ [1, 8, 16, 32, 64, 128, 256, 512, 1024, 2048, 4096, 8192,
        16384, 32768, 16777216, 33554432, 67108864, 134217728, 268435456, 536870912, 1073741824]) →
      lookup tbl 45 = some 0 → MapOK m tbl :=
    fun m tbl h1 h2 => ⟨fun x hx => ⟨(h1 x hx).1, pow _ (h1 x hx).2⟩, h2⟩
  refine ⟨key _ _ (by decide) (by decide), key _ _ (by decide) (by decide),
    key _ _ (by decide) (by decide), key _ _ (by decide) (by decide)⟩

theorem masks : maskOf permMap = permsNfs4 ∧ maskOf permMapW = permsNfs4 ∧
    maskOf flagMap = inheritanceNfs4 ∧ maskOf flagMapW = inheritanceNfs4 := by decide


/-! ### The parser body on the field shapes the generators produce -/

theorem isintOr_nil (d : Int) : isintOr [] d = d := by simp [isintOr, isint_nil]

theorem isintOr_nondigit (b : List Ch) (d : Int) (h : ∃ c ∈ b, ¬ isDigit c) : isintOr b d = d := by
  simp [isintOr, isint_nondigit b h]

theorem isintOr_digits (n : Nat) (d : Int) (h : n ≤ 2147483647) : isintOr (digits n) d = (n : Int) := by
  simp [isintOr, isint_digits n h]

theorem isintOr_rwx (perm : Nat) (d : Int) : isintOr (rwxChars perm) d = d :=
  isintOr_nondigit _ _ (rwxChars_nondigit perm)

theorem rwxChars_length (perm : Nat) : (rwxChars perm).length = 3 := rfl

/-- user / group word with a qualifier and a trailing id field. -/
theorem posixRest_named_id (wide : Bool) (fields : Nat) (b : Nat → List Ch) (n type : Nat)
    (word name : List Ch) (perm i : Nat) (tagObj : Nat)
    (hf : fields = n + 4) (h0 : b n = word) (hw : word ≠ []) (ht : posixTagSpec word = tagObj)
    (hobj : tagObj = tagUserObj ∨ tagObj = tagGroupObj)
    (h1 : b (n + 1) = name) (hn : name ≠ []) (hnd : ∃ c ∈ name, ¬ isDigit c)
    (h2 : b (n + 2) = rwxChars perm) (h3 : b (n + 3) = digits i) (hi : i ≤ 2147483647) :
    posixRestCore wide fields b n type =
      .entry type (rwxVal perm) (if tagObj = tagUserObj then tagUser else tagGroup) (i : Int) name := by
  have hwl : word.length ≠ 0 := by simpa using hw
  have hnl : name.length > 0 := List.length_pos_iff.mpr hn
  have hno : ¬ (tagObj = tagOther ∨ tagObj = tagMask) := by
    rcases hobj with h | h <;> rw [h] <;> decide
  have : n + 4 > n + 3 := by omega
  unfold posixRestCore posixIdCore
  simp only [h1, h3, isintOr_nondigit name _ hnd, hf, hwl, h0, ht, hno, hobj, if_false, if_true,
    isintOr_digits i _ hi, true_and, this, posixUserGroupCore, h2, ismode_rwx, hnl, or_true]

/-- user / group word with a qualifier and no id field (the id was -1). -/
theorem posixRest_named_noid (wide : Bool) (fields : Nat) (b : Nat → List Ch) (n type : Nat)
    (word name : List Ch) (perm : Nat) (tagObj : Nat)
    (hf : fields = n + 3) (h0 : b n = word) (hw : word ≠ []) (ht : posixTagSpec word = tagObj)
    (hobj : tagObj = tagUserObj ∨ tagObj = tagGroupObj)
    (h1 : b (n + 1) = name) (hn : name ≠ []) (hnd : ∃ c ∈ name, ¬ isDigit c)
    (h2 : b (n + 2) = rwxChars perm) :
    posixRestCore wide fields b n type =
      .entry type (rwxVal perm) (if tagObj = tagUserObj then tagUser else tagGroup) (-1) name := by
  have hwl : word.length ≠ 0 := by simpa using hw
  have hnl : name.length > 0 := List.length_pos_iff.mpr hn
  have hno : ¬ (tagObj = tagOther ∨ tagObj = tagMask) := by
    rcases hobj with h | h <;> rw [h] <;> decide
  have : ¬ n + 3 > n + 3 := by omega
  unfold posixRestCore posixIdCore
  simp only [h1, isintOr_nondigit name _ hnd, hf, hwl, h0, ht, hno, hobj, if_false, if_true,
    and_false, this, posixUserGroupCore, h2, ismode_rwx, hnl, or_true]

/-- user / group word with the id printed in place of the name. -/
theorem posixRest_unnamed (wide : Bool) (fields : Nat) (b : Nat → List Ch) (n type : Nat)
    (word : List Ch) (perm i : Nat) (tagObj : Nat)
    (hf : fields = n + 3) (h0 : b n = word) (hw : word ≠ []) (ht : posixTagSpec word = tagObj)
    (hobj : tagObj = tagUserObj ∨ tagObj = tagGroupObj)
    (h1 : b (n + 1) = digits i) (hi : i ≤ 2147483647)
    (h2 : b (n + 2) = rwxChars perm) :
    posixRestCore wide fields b n type =
      .entry type (rwxVal perm) (if tagObj = tagUserObj then tagUser else tagGroup) (i : Int) (digits i) := by
  have hwl : word.length ≠ 0 := by simpa using hw
  have hnl : (digits i).length > 0 := List.length_pos_iff.mpr (digits_ne_nil i)
  have hno : ¬ (tagObj = tagOther ∨ tagObj = tagMask) := by
    rcases hobj with h | h <;> rw [h] <;> decide
  have hne1 : ¬ ((i : Int) = -1) := by omega
  unfold posixRestCore posixIdCore
  simp only [h1, isintOr_digits i _ hi, hf, hwl, h0, ht, hno, hobj, if_false, if_true, hne1,
    false_and, posixUserGroupCore, h2, ismode_rwx, hnl, or_true]

/-- user_obj / group_obj: empty qualifier field. -/
theorem posixRest_obj (wide : Bool) (fields : Nat) (b : Nat → List Ch) (n type : Nat)
    (word : List Ch) (perm : Nat) (tagObj : Nat)
    (hf : fields = n + 3) (h0 : b n = word) (hw : word ≠ []) (ht : posixTagSpec word = tagObj)
    (hobj : tagObj = tagUserObj ∨ tagObj = tagGroupObj)
    (h1 : b (n + 1) = []) (h2 : b (n + 2) = rwxChars perm) :
    posixRestCore wide fields b n type = .entry type (rwxVal perm) tagObj (-1) [] := by
  have hwl : word.length ≠ 0 := by simpa using hw
  have hno : ¬ (tagObj = tagOther ∨ tagObj = tagMask) := by
    rcases hobj with h | h <;> rw [h] <;> decide
  have : ¬ n + 3 > n + 3 := by omega
  unfold posixRestCore posixIdCore
  simp only [h1, isintOr_nil, hf, hwl, h0, ht, hno, hobj, if_false, if_true, and_false, this,
    posixUserGroupCore, h2, ismode_rwx, List.length_nil, ne_eq, not_true_eq_false, gt_iff_lt,
    Nat.lt_irrefl, or_self]

/-- other / mask with the empty second field. -/
theorem posixRest_om (wide : Bool) (fields : Nat) (b : Nat → List Ch) (n type : Nat)
    (word : List Ch) (perm : Nat) (tag : Nat)
    (hf : fields = n + 3) (h0 : b n = word) (hw : word ≠ []) (ht : posixTagSpec word = tag)
    (hom : tag = tagOther ∨ tag = tagMask)
    (h1 : b (n + 1) = []) (h2 : b (n + 2) = rwxChars perm) :
    posixRestCore wide fields b n type = .entry type (rwxVal perm) tag (-1) [] := by
  have hwl : word.length ≠ 0 := by simpa using hw
  have h32 : ¬ n + 3 = n + 2 := by omega
  have : ¬ n + 3 > n + 3 := by omega
  unfold posixRestCore posixIdCore
  simp only [h1, isintOr_nil, hf, hwl, h0, ht, hom, if_false, if_true, and_false, this,
    posixOtherMaskCore, h2, ismode_rwx, List.length_nil, gt_iff_lt, Nat.lt_irrefl, h32, false_and,
    not_false_eq_true, true_and, and_self]

/-- Solaris style other / mask: the mode directly after the word. -/
theorem posixRest_om_solaris (wide : Bool) (fields : Nat) (b : Nat → List Ch) (n type : Nat)
    (word : List Ch) (perm : Nat) (tag : Nat)
    (hf : fields = n + 2) (h0 : b n = word) (hw : word ≠ []) (ht : posixTagSpec word = tag)
    (hom : tag = tagOther ∨ tag = tagMask)
    (h1 : b (n + 1) = rwxChars perm) :
    posixRestCore wide fields b n type = .entry type (rwxVal perm) tag (-1) [] := by
  have hwl : word.length ≠ 0 := by simpa using hw
  have h23 : ¬ n + 2 = n + 3 := by omega
  have : ¬ n + 2 > n + 3 := by omega
  unfold posixRestCore posixIdCore
  simp only [h1, isintOr_rwx, hf, hwl, h0, ht, hom, if_false, if_true, and_false, this,
    posixOtherMaskCore, ismode_rwx, rwxChars_length, gt_iff_lt, Nat.zero_lt_succ, and_self, h23,
    false_and, not_true_eq_false, ite_self]

/-! NFSv4 shapes -/

def permChars (wide : Bool) (p : Nat) (compact : Bool) : List Ch :=
  mapChars (if wide then permMapW else permMap) p compact

def flagChars (wide : Bool) (p : Nat) (compact : Bool) : List Ch :=
  mapChars (if wide then flagMapW else flagMap) p compact

theorem isNfs4Perms_permChars (wide : Bool) (p acc : Nat) (compact : Bool) :
    isNfs4Perms wide (permChars wide p compact) acc = (acc ||| (p &&& permsNfs4), true) := by
  unfold isNfs4Perms permChars
  have := orChars_mapChars
  cases wide with
  | false =>
    have := orChars_mapChars permMap permParse maps_ok.1 p acc compact []
    simp only [List.append_nil, orChars, masks.1] at this
    simpa using this
  | true =>
    have := orChars_mapChars permMapW permParseW maps_ok.2.1 p acc compact []
    simp only [List.append_nil, orChars, masks.2.1] at this
    simpa using this

theorem isNfs4Flags_flagChars (wide : Bool) (p acc : Nat) (compact : Bool) :
    isNfs4Flags wide (flagChars wide p compact) acc = (acc ||| (p &&& inheritanceNfs4), true) := by
  unfold isNfs4Flags flagChars
  cases wide with
  | false =>
    have := orChars_mapChars flagMap flagParse maps_ok.2.2.1 p acc compact []
    simp only [List.append_nil, orChars, masks.2.2.1] at this
    simpa using this
  | true =>
    have := orChars_mapChars flagMapW flagParseW maps_ok.2.2.2 p acc compact []
    simp only [List.append_nil, orChars, masks.2.2.2] at this
    simpa using this

theorem nfs4_perm_back (p : Nat) (h : p &&& (permsNfs4 ||| inheritanceNfs4) = p) :
    0 ||| (p &&& permsNfs4) ||| (p &&& inheritanceNfs4) = p := by
  rw [Nat.zero_or, ← Nat.and_or_distrib_left, h]

/-- user / group word: qualifier in field 1, optional id in field 5. -/
theorem nfs4Core_ug (wide : Bool) (b : Nat → List Ch) (word q tyw last : List Ch) (tag ty p : Nat)
    (compact : Bool)
    (h0 : b 0 = word) (ht : nfs4TagSpec word = tag) (hug : tag = tagUser ∨ tag = tagGroup)
    (h1 : b 1 = q) (h2 : b 2 = permChars wide p compact) (h3 : b 3 = flagChars wide p compact)
    (h4 : b 4 = tyw) (hty : nfs4TypeSpec tyw = ty) (hty0 : ty ≠ 0) (h5 : b 5 = last)
    (hp : p &&& (permsNfs4 ||| inheritanceNfs4) = p) :
    nfs4Core wide b = .entry ty p tag (isintOr last (isintOr q (-1))) q := by
  have ht0 : tag ≠ 0 := by rcases hug with h | h <;> rw [h] <;> decide
  unfold nfs4Core
  simp only [h0, ht, ht0, hug, if_true, if_false, h1, h2, h3, h4, h5, hty, hty0,
    isNfs4Perms_permChars, isNfs4Flags_flagChars, not_true_eq_false, nfs4_perm_back p hp]

/-- owner@ / group@ / everyone@. -/
theorem nfs4Core_obj (wide : Bool) (b : Nat → List Ch) (word tyw : List Ch) (tag ty p : Nat)
    (compact : Bool)
    (h0 : b 0 = word) (ht : nfs4TagSpec word = tag)
    (hobj : tag = tagUserObj ∨ tag = tagGroupObj ∨ tag = tagEveryone)
    (h1 : b 1 = permChars wide p compact) (h2 : b 2 = flagChars wide p compact)
    (h3 : b 3 = tyw) (hty : nfs4TypeSpec tyw = ty) (hty0 : ty ≠ 0) (h4 : b 4 = [])
    (hp : p &&& (permsNfs4 ||| inheritanceNfs4) = p) :
    nfs4Core wide b = .entry ty p tag (-1) [] := by
  have ht0 : tag ≠ 0 := by rcases hobj with h | h | h <;> rw [h] <;> decide
  have hnug : ¬ (tag = tagUser ∨ tag = tagGroup) := by
    rcases hobj with h | h | h <;> rw [h] <;> decide
  unfold nfs4Core
  simp only [h0, ht, ht0, hnug, if_true, if_false, h1, h2, h3, h4, hty, hty0,
    isNfs4Perms_permChars, isNfs4Flags_flagChars, not_true_eq_false, nfs4_perm_back p hp,
    isintOr_nil, Nat.add_zero]

/-! ### One generated entry parses back to itself -/

/-- A qualifier name the text form can carry: none of the characters the parser
gives a meaning to (NUL, blank, tab, newline, `,` `:` `#`), and not a number. -/
def NameOK (name : List Ch) : Prop := Clean name ∧ (name ≠ [] → ∃ c ∈ name, ¬ isDigit c)

/-- Qualifiers as the property quantifies them: a user/group entry has a
non-negative id (or, when it has a name, possibly no id) and a name the text
form can carry; the other tags have no qualifier. -/
structure QualOK (e : Entry) : Prop where
  ug : IsUG e.tag → NameOK e.name ∧ (if e.name = [] then 0 ≤ e.id else -1 ≤ e.id)
  other : ¬ IsUG e.tag → e.id = -1 ∧ e.name = []

/-- The name an entry has after the round trip: an entry without a name comes
back named by its id. -/
def rtName (e : Entry) : List Ch :=
  if IsUG e.tag ∧ e.name = [] then digits e.id.toNat else e.name

/-- What the parser loop does once an entry has been recognised. -/
def afterAdd (wide : Bool) (wantType : Nat) (rest : List Ch) (o : ParseOut) (ty pm tg : Nat)
    (id : Int) (nm : List Ch) : Except Fault ParseOut :=
  if (addEntry o.acl ty pm tg id nm).2 = .failed ∨ (addEntry o.acl ty pm tg id nm).2 = .fatal then
    .ok { o with acl := (addEntry o.acl ty pm tg id nm).1, status := (addEntry o.acl ty pm tg id nm).2,
                 added := o.added + 1 }
  else parseLoop wide wantType rest
    { o with acl := (addEntry o.acl ty pm tg id nm).1,
             status := if (addEntry o.acl ty pm tg id nm).2 ≠ .ok then .warn else o.status,
             added := o.added + 1 }

theorem takeWhile_clean (b : List Ch) (h : Clean b) : b.takeWhile (· ≠ 0) = b := by
  induction b with
  | nil => rfl
  | cons c t ih =>
    have := (h c (by simp)).1
    have ih' := ih (fun d hd => h d (by simp [hd]))
    simp only [List.takeWhile_cons, this, ne_eq, not_false_eq_true, decide_true, if_true] at ih' ⊢
    rw [ih']

theorem digits_clean (n : Nat) : Clean (digits n) := by
  intro c hc
  have := digits_all_digit n c hc
  unfold isDigit at this; unfold CleanCh
  omega

def cleanB (b : List Ch) : Bool :=
  b.all fun c => c != 0 && c != 32 && c != 9 && c != 10 && c != 44 && c != 58 && c != 35

theorem clean_of_cleanB (b : List Ch) (h : cleanB b = true) : Clean b := by
  intro c hc
  have := List.all_eq_true.mp h c hc
  unfold CleanCh
  simp only [Bool.and_eq_true, bne_iff_ne, ne_eq] at this
  obtain ⟨⟨⟨⟨⟨⟨h1, h2⟩, h3⟩, h4⟩, h5⟩, h6⟩, h7⟩ := this
  exact ⟨h1, h2, h3, h4, h5, h6, h7⟩

theorem str_clean : Clean (str "user") ∧ Clean (str "group") ∧ Clean (str "mask") ∧ Clean (str "other") ∧
    Clean (str "owner@") ∧ Clean (str "group@") ∧ Clean (str "everyone@") ∧ Clean (str "default") ∧
    Clean (str "allow") ∧ Clean (str "deny") ∧ Clean (str "audit") ∧ Clean (str "alarm") := by
  refine ⟨?_, ?_, ?_, ?_, ?_, ?_, ?_, ?_, ?_, ?_, ?_, ?_⟩ <;> exact clean_of_cleanB _ (by decide)

theorem mapChars_clean (m : List (Nat × Nat)) (p : Nat) (c : Bool) (h : ∀ x ∈ m, CleanCh x.2) :
    Clean (mapChars m p c) := by
  induction m with
  | nil => intro x hx; simp [mapChars] at hx
  | cons a t ih =>
    rw [mapChars_cons]
    intro x hx
    rcases List.mem_append.mp hx with hx | hx
    · split at hx
      · simp at hx; rw [hx]; exact h a (by simp)
      · split at hx
        · simp at hx
        · simp at hx; rw [hx]; unfold CleanCh; decide
    · exact ih (fun y hy => h y (by simp [hy])) x hx

theorem maps_clean : (∀ x ∈ permMap, CleanCh x.2) ∧ (∀ x ∈ permMapW, CleanCh x.2) ∧
    (∀ x ∈ flagMap, CleanCh x.2) ∧ (∀ x ∈ flagMapW, CleanCh x.2) := by
  have key : ∀ m : List (Nat × Nat), cleanB (m.map (·.2)) = true → ∀ x ∈ m, CleanCh x.2 :=
    fun m h x hx => clean_of_cleanB _ h x.2 (List.mem_map_of_mem hx)
  exact ⟨key _ (by decide), key _ (by decide), key _ (by decide), key _ (by decide)⟩

theorem permChars_clean (wide : Bool) (p : Nat) (c : Bool) : Clean (permChars wide p c) := by
  unfold permChars; cases wide
  · exact mapChars_clean _ _ _ maps_clean.1
  · exact mapChars_clean _ _ _ maps_clean.2.1

theorem flagChars_clean (wide : Bool) (p : Nat) (c : Bool) : Clean (flagChars wide p c) := by
  unfold flagChars; cases wide
  · exact mapChars_clean _ _ _ maps_clean.2.2.1
  · exact mapChars_clean _ _ _ maps_clean.2.2.2


theorem default_facts : isDefaultSpec (str "default") = true ∧ (str "default").length = 7 ∧
    isDefaultSpec (str "user") = false ∧ isDefaultSpec (str "group") = false ∧
    isDefaultSpec (str "mask") = false ∧ isDefaultSpec (str "other") = false ∧
    str "default:" = str "default" ++ [58] := by decide

theorem posixTag_words : posixTagSpec (str "user") = tagUserObj ∧ posixTagSpec (str "group") = tagGroupObj ∧
    posixTagSpec (str "mask") = tagMask ∧ posixTagSpec (str "other") = tagOther := by decide

/-- The body function the parser sees for a list of field bodies. -/
def bfun (k : Nat) (bs : List (List Ch)) : Nat → List Ch := fun i => if i < k then bs.getD i [] else []

/-- Reduction of an entry with or without the "default:" prefix to `posixRestCore`. -/
theorem posix_step (wide : Bool) (wantType : Nat) (pfx : Bool) (word : List Ch) (more : List (List Ch))
    (tl rest : List Ch) (o : ParseOut)
    (hword : word = str "user" ∨ word = str "group" ∨ word = str "mask" ∨ word = str "other")
    (hw : wantType ≠ typeNfs4)
    (hc : ∀ b ∈ word :: more, Clean b) (hlast : (word :: more).getLast (by simp) ≠ [])
    (hend : EntryEnd wide tl rest)
    (ty pm tg : Nat) (id : Int) (nm : List Ch) (hnm : Clean nm)
    (hcore : posixRestCore wide ((word :: more).length + (if pfx then 1 else 0))
        (bfun 5 ((if pfx then [str "default"] else []) ++ word :: more)) (if pfx then 1 else 0)
        (if pfx then typeDefault else wantType) = .entry ty pm tg id nm) :
    parseLoop wide wantType
        ((if pfx then str "default:" else []) ++ joinColon (word :: more) ++ tl) o =
      afterAdd wide wantType rest o ty pm tg id nm := by
  have hwc : Clean word := hc word (by simp)
  have hwne : word ≠ [] := by rcases hword with h | h | h | h <;> rw [h] <;> decide
  obtain ⟨w0, wt, hw0⟩ : ∃ w0 wt, word = w0 :: wt := by
    cases word with
    | nil => exact (hwne rfl).elim
    | cons a b => exact ⟨a, b, rfl⟩
  have hw0ne : w0 ≠ 0 ∧ w0 ≠ 35 := by
    have := hwc w0 (by rw [hw0]; simp)
    exact ⟨this.1, this.2.2.2.2.2.2⟩
  have hnd : isDefaultSpec word = false := by
    rcases hword with h | h | h | h <;> rw [h] <;> simp [default_facts]
  cases pfx with
  | false =>
    simp only [Bool.false_eq_true, if_false, List.nil_append, Nat.add_zero] at hcore ⊢
    have hjc : ∃ t0, joinColon (word :: more) ++ tl = w0 :: t0 := by
      cases more with
      | nil => exact ⟨wt ++ tl, by simp [joinColon, hw0]⟩
      | cons m1 mt => exact ⟨_, by simp [joinColon, hw0]; rfl⟩
    obtain ⟨t0, ht0⟩ := hjc
    have hcore' : bodiesCore wide (word :: more) w0 wantType = .entry ty pm tg id nm := by
      unfold bodiesCore posixCore
      simp only [hw0ne.2, if_false, hw, ne_eq, not_false_eq_true, if_true]
      have hb0 : (if 0 < 5 then (word :: more).getD 0 [] else []) = word := by simp
      simp only [hb0, hnd, Bool.false_eq_true, if_false]
      exact hcore
    have := entry_step wide wantType (word :: more) tl rest o w0 t0 (by simp) hc hlast hend ht0
      hw0ne.1 ty pm tg id nm hcore'
    rw [this, takeWhile_clean nm hnm]; rfl
  | true =>
    simp only [if_true, List.singleton_append] at hcore ⊢
    have hjoin : str "default:" ++ joinColon (word :: more) = joinColon (str "default" :: word :: more) := by
      simp [joinColon, default_facts]
    rw [hjoin]
    have hjc : ∃ t0, joinColon (str "default" :: word :: more) ++ tl = 100 :: t0 := by
      exact ⟨_, by simp [joinColon]; rfl⟩
    obtain ⟨t0, ht0⟩ := hjc
    have hcore' : bodiesCore wide (str "default" :: word :: more) 100 wantType = .entry ty pm tg id nm := by
      unfold bodiesCore posixCore
      simp only [hw, ne_eq, not_false_eq_true, if_true]
      have hb0 : (if 0 < 5 then (str "default" :: word :: more).getD 0 [] else []) = str "default" := by simp
      have h35 : ¬ (100 : Nat) = 35 := by decide
      simp only [hb0, default_facts, h35, if_false, if_true, Nat.lt_irrefl, gt_iff_lt]
      exact hcore
    have hc' : ∀ b ∈ str "default" :: word :: more, Clean b := by
      intro b hb
      rcases List.mem_cons.mp hb with h | h
      · rw [h]; exact str_clean.2.2.2.2.2.2.2.1
      · exact hc b h
    have := entry_step wide wantType (str "default" :: word :: more) tl rest o 100 t0 (by simp) hc'
      (by simpa [List.getLast_cons] using hlast) hend ht0 (by decide) ty pm tg id nm hcore'
    rw [this, takeWhile_clean nm hnm]; rfl


theorem entryText_extra (wide : Bool) (flags : Nat) (e : Entry) (hx : hasFlag flags styleExtraId = true) :
    entryText wide flags e =
      appendEntry wide (decide (e.type = typeDefault ∧ hasFlag flags styleMarkDefault = true))
        e.type e.tag flags e.name e.permset e.id := by
  unfold entryText
  cases wide <;> simp [hx]

theorem appendEntry_posix (wide pfx : Bool) (ty tag flags : Nat) (name : List Ch) (perm : Nat) (id : Int)
    (hp : IsPosix ty) :
    appendEntry wide pfx ty tag flags name perm id =
      (if pfx then str "default:" else []) ++ tagWord false tag ++ [58] ++
        (qualPart ty tag flags name id).1 ++ rwxChars perm ++
        (if (qualPart ty tag flags name id).2 ≠ -1 then 58 :: appendId (qualPart ty tag flags name id).2
         else []) := by
  have hb := posix_bits hp
  simp [appendEntry, permPart, hb.1, hb.2, rwxChars]

theorem tagWord_posix : tagWord false tagUser = str "user" ∧ tagWord false tagUserObj = str "user" ∧
    tagWord false tagGroup = str "group" ∧ tagWord false tagGroupObj = str "group" ∧
    tagWord false tagMask = str "mask" ∧ tagWord false tagOther = str "other" := by decide

theorem getLast_three (a b c : List Ch) : [a, b, c].getLast (by simp) = c := rfl
theorem getLast_four (a b c d : List Ch) : [a, b, c, d].getLast (by simp) = d := rfl
theorem getLast_two (a b : List Ch) : [a, b].getLast (by simp) = b := rfl

theorem rwxChars_ne_nil (p : Nat) : rwxChars p ≠ [] := by simp [rwxChars]

/-- A POSIX.1e entry as `archive_acl_to_text_*` prints it with ids is read back by the
parser loop as exactly that entry. -/
theorem posix_entry_parse' (wide : Bool) (flags wantType : Nat) (e : Entry) (tl rest : List Ch)
    (o : ParseOut) (pv : Nat)
    (htag_ok : IsUG e.tag ∨ e.tag = tagUserObj ∨ e.tag = tagGroupObj ∨
      (IsPosix e.type ∧ (e.tag = tagMask ∨ e.tag = tagOther)) ∨ (IsNfs4 e.type ∧ e.tag = tagEveryone))
    (hidmax : e.id ≤ 2147483647) (hperm : rwxVal e.permset = pv)
    (hq : QualOK e) (hp : IsPosix e.type)
    (hx : hasFlag flags styleExtraId = true)
    (hwant : wantType = typeAccess ∨ wantType = typeDefault)
    (hty : e.type = wantType ∨ (e.type = typeDefault ∧ hasFlag flags styleMarkDefault = true))
    (hend : EntryEnd wide tl rest) :
    parseLoop wide wantType (entryText wide flags e ++ tl) o =
      afterAdd wide wantType rest o e.type pv e.tag e.id (rtName e) := by
  have hw : wantType ≠ typeNfs4 := by rcases hwant with h | h <;> rw [h] <;> decide
  have hb := posix_bits hp
  rw [entryText_extra wide flags e hx, appendEntry_posix _ _ _ _ _ _ _ _ hp]
  generalize hpfx : decide (e.type = typeDefault ∧ hasFlag flags styleMarkDefault = true) = pfx
  have htype : (if pfx = true then typeDefault else wantType) = e.type := by
    cases pfx with
    | true => simp at hpfx; simp [hpfx.1]
    | false =>
      simp at hpfx
      rcases hty with h | h
      · simp [h]
      · have := hpfx h.1; rw [h.2] at this; cases this
  rcases htag_ok with hug | ht | ht | ⟨_, ht⟩ | ⟨hn4, _⟩
  · -- user / group
    obtain ⟨⟨hclean, hnum⟩, hidr⟩ := hq.ug hug
    rw [qualPart_ug _ _ _ _ _ hug]
    obtain ⟨word, tagObj, hwd, hwordc, htg, hobj, hnt, hwclean, hwne⟩ :
        ∃ word tagObj, tagWord false e.tag = word ∧
          (word = str "user" ∨ word = str "group" ∨ word = str "mask" ∨ word = str "other") ∧
          posixTagSpec word = tagObj ∧ (tagObj = tagUserObj ∨ tagObj = tagGroupObj) ∧
          (if tagObj = tagUserObj then tagUser else tagGroup) = e.tag ∧ Clean word ∧ word ≠ [] := by
      rcases hug with h | h <;> rw [h]
      · exact ⟨str "user", tagUserObj, by decide, Or.inl rfl, by decide, Or.inl rfl, by decide,
          str_clean.1, by decide⟩
      · exact ⟨str "group", tagGroupObj, by decide, Or.inr (Or.inl rfl), by decide, Or.inr rfl, by decide,
          str_clean.2.1, by decide⟩
    rw [hwd]
    by_cases hne : e.name = []
    · -- id printed in place of the name
      have hid0 : 0 ≤ e.id := by simpa [hne] using hidr
      have hidn : ((e.id.toNat : Nat) : Int) = e.id := by omega
      have hrt : rtName e = digits e.id.toNat := by simp [rtName, hug, hne]
      simp only [hne, ne_eq, not_true_eq_false, if_false, hb.2, if_true]
      rw [hrt]
      have key := posix_step wide wantType pfx word [digits e.id.toNat, rwxChars e.permset] tl rest o
        hwordc hw
        (by
          intro b hb'
          simp only [List.mem_cons, List.not_mem_nil, or_false] at hb'
          rcases hb' with h | h | h <;> rw [h]
          · exact hwclean
          · exact digits_clean _
          · exact rwxChars_clean _)
        (by rw [getLast_three]; exact rwxChars_ne_nil _) hend
        e.type pv e.tag e.id (digits e.id.toNat) (digits_clean _)
        (by
          rw [htype]
          have := posixRest_unnamed wide (3 + (if pfx = true then 1 else 0))
            (bfun 5 ((if pfx = true then [str "default"] else []) ++
              [word, digits e.id.toNat, rwxChars e.permset])) (if pfx = true then 1 else 0) e.type
            word e.permset e.id.toNat tagObj (by cases pfx <;> rfl) (by cases pfx <;> rfl)
            hwne htg hobj (by cases pfx <;> rfl) (by omega) (by cases pfx <;> rfl)
          rw [hperm, hnt, hidn] at this
          exact this)
      simpa [joinColon, appendId, List.append_assoc] using key
    · -- a name, and the id as a trailing field unless it is -1
      have hnd := hnum hne
      have hid1 : -1 ≤ e.id := by simpa [hne] using hidr
      have hrt : rtName e = e.name := by simp [rtName, hne]
      simp only [hne, ne_eq, not_false_eq_true, if_true]
      rw [hrt]
      by_cases hidm : e.id = -1
      · simp only [hidm, not_true_eq_false, if_false, List.append_nil]
        have key := posix_step wide wantType pfx word [e.name, rwxChars e.permset] tl rest o
          hwordc hw
          (by
            intro b hb'
            simp only [List.mem_cons, List.not_mem_nil, or_false] at hb'
            rcases hb' with h | h | h <;> rw [h]
            · exact hwclean
            · exact hclean
            · exact rwxChars_clean _)
          (by rw [getLast_three]; exact rwxChars_ne_nil _) hend
          e.type pv e.tag (-1) e.name hclean
          (by
            rw [htype]
            have := posixRest_named_noid wide (3 + (if pfx = true then 1 else 0))
              (bfun 5 ((if pfx = true then [str "default"] else []) ++
                [word, e.name, rwxChars e.permset])) (if pfx = true then 1 else 0) e.type
              word e.name e.permset tagObj (by cases pfx <;> rfl) (by cases pfx <;> rfl)
              hwne htg hobj (by cases pfx <;> rfl) hne hnd (by cases pfx <;> rfl)
            rw [hperm, hnt] at this
            exact this)
        simpa [joinColon, List.append_assoc] using key
      · have hid0 : 0 ≤ e.id := by omega
        have hidn : ((e.id.toNat : Nat) : Int) = e.id := by omega
        simp only [hidm, not_false_eq_true, if_true]
        have key := posix_step wide wantType pfx word
          [e.name, rwxChars e.permset, digits e.id.toNat] tl rest o hwordc hw
          (by
            intro b hb'
            simp only [List.mem_cons, List.not_mem_nil, or_false] at hb'
            rcases hb' with h | h | h | h <;> rw [h]
            · exact hwclean
            · exact hclean
            · exact rwxChars_clean _
            · exact digits_clean _)
          (by rw [getLast_four]; exact digits_ne_nil _) hend
          e.type pv e.tag e.id e.name hclean
          (by
            rw [htype]
            have := posixRest_named_id wide (4 + (if pfx = true then 1 else 0))
              (bfun 5 ((if pfx = true then [str "default"] else []) ++
                [word, e.name, rwxChars e.permset, digits e.id.toNat])) (if pfx = true then 1 else 0) e.type
              word e.name e.permset e.id.toNat tagObj (by cases pfx <;> rfl) (by cases pfx <;> rfl)
              hwne htg hobj (by cases pfx <;> rfl) hne hnd (by cases pfx <;> rfl)
              (by cases pfx <;> rfl) (by omega)
            rw [hperm, hnt, hidn] at this
            exact this)
        simpa [joinColon, appendId, List.append_assoc] using key
  · -- user_obj
    have hnug : ¬ IsUG e.tag := by unfold IsUG; rw [ht]; decide
    obtain ⟨hidm, hnm⟩ := hq.other hnug
    have hrt : rtName e = [] := by simp [rtName, hnm, hnug]
    rw [qualPart_other_posix _ _ _ _ _ hp (Or.inl ht), hrt, ht]
    have hcol : (¬ hasFlag flags styleSolaris = true ∨ (tagUserObj ≠ tagOther ∧ tagUserObj ≠ tagMask)) :=
      Or.inr (by decide)
    simp only [hcol, if_true, not_true_eq_false, if_false, List.append_nil, tagWord_posix.2.1]
    have key := posix_step wide wantType pfx (str "user") [[], rwxChars e.permset] tl rest o
      (Or.inl rfl) hw
      (by
        intro b hb'
        simp only [List.mem_cons, List.not_mem_nil, or_false] at hb'
        rcases hb' with h | h | h <;> rw [h]
        · exact str_clean.1
        · intro c hc; simp at hc
        · exact rwxChars_clean _)
      (by rw [getLast_three]; exact rwxChars_ne_nil _) hend
      e.type pv tagUserObj (-1) [] (by intro c hc; simp at hc)
      (by
        rw [htype]
        have := posixRest_obj wide (3 + (if pfx = true then 1 else 0))
          (bfun 5 ((if pfx = true then [str "default"] else []) ++
            [str "user", [], rwxChars e.permset])) (if pfx = true then 1 else 0) e.type
          (str "user") e.permset tagUserObj (by cases pfx <;> rfl) (by cases pfx <;> rfl)
          (by decide) (by decide) (Or.inl rfl) (by cases pfx <;> rfl) (by cases pfx <;> rfl)
        rw [hperm] at this
        exact this)
    rw [hidm]
    simpa [joinColon, List.append_assoc] using key
  · -- group_obj
    have hnug : ¬ IsUG e.tag := by unfold IsUG; rw [ht]; decide
    obtain ⟨hidm, hnm⟩ := hq.other hnug
    have hrt : rtName e = [] := by simp [rtName, hnm, hnug]
    rw [qualPart_other_posix _ _ _ _ _ hp (Or.inr (Or.inl ht)), hrt, ht]
    have hcol : (¬ hasFlag flags styleSolaris = true ∨ (tagGroupObj ≠ tagOther ∧ tagGroupObj ≠ tagMask)) :=
      Or.inr (by decide)
    simp only [hcol, if_true, not_true_eq_false, if_false, List.append_nil, tagWord_posix.2.2.2.1]
    have key := posix_step wide wantType pfx (str "group") [[], rwxChars e.permset] tl rest o
      (Or.inr (Or.inl rfl)) hw
      (by
        intro b hb'
        simp only [List.mem_cons, List.not_mem_nil, or_false] at hb'
        rcases hb' with h | h | h <;> rw [h]
        · exact str_clean.2.1
        · intro c hc; simp at hc
        · exact rwxChars_clean _)
      (by rw [getLast_three]; exact rwxChars_ne_nil _) hend
      e.type pv tagGroupObj (-1) [] (by intro c hc; simp at hc)
      (by
        rw [htype]
        have := posixRest_obj wide (3 + (if pfx = true then 1 else 0))
          (bfun 5 ((if pfx = true then [str "default"] else []) ++
            [str "group", [], rwxChars e.permset])) (if pfx = true then 1 else 0) e.type
          (str "group") e.permset tagGroupObj (by cases pfx <;> rfl) (by cases pfx <;> rfl)
          (by decide) (by decide) (Or.inr rfl) (by cases pfx <;> rfl) (by cases pfx <;> rfl)
        rw [hperm] at this
        exact this)
    rw [hidm]
    simpa [joinColon, List.append_assoc] using key
  · -- mask / other
    have hnug : ¬ IsUG e.tag := by unfold IsUG; rcases ht with h | h <;> rw [h] <;> decide
    obtain ⟨hidm, hnm⟩ := hq.other hnug
    have hrt : rtName e = [] := by simp [rtName, hnm, hnug]
    obtain ⟨word, hwd, hwordc, htg, hwclean⟩ :
        ∃ word, tagWord false e.tag = word ∧
          (word = str "user" ∨ word = str "group" ∨ word = str "mask" ∨ word = str "other") ∧
          posixTagSpec word = e.tag ∧ Clean word := by
      rcases ht with h | h <;> rw [h]
      · exact ⟨str "mask", by decide, Or.inr (Or.inr (Or.inl rfl)), by decide, str_clean.2.2.1⟩
      · exact ⟨str "other", by decide, Or.inr (Or.inr (Or.inr rfl)), by decide, str_clean.2.2.2.1⟩
    have hwne : word ≠ [] := by rcases hwordc with h | h | h | h <;> rw [h] <;> decide
    have hom : e.tag = tagOther ∨ e.tag = tagMask := by rcases ht with h | h <;> simp [h]
    rw [qualPart_other_posix _ _ _ _ _ hp (by
      rcases ht with h | h
      · exact Or.inr (Or.inr (Or.inl h))
      · exact Or.inr (Or.inr (Or.inr h))), hrt, hwd]
    by_cases hsol : hasFlag flags styleSolaris = true
    · have hcol : ¬ (¬ hasFlag flags styleSolaris = true ∨ (e.tag ≠ tagOther ∧ e.tag ≠ tagMask)) := by
        intro h; rcases h with h | h
        · exact h hsol
        · rcases hom with h' | h'
          · exact h.1 h'
          · exact h.2 h'
      simp only [hcol, if_false, not_true_eq_false, List.append_nil]
      have key := posix_step wide wantType pfx word [rwxChars e.permset] tl rest o hwordc hw
        (by
          intro b hb'
          simp only [List.mem_cons, List.not_mem_nil, or_false] at hb'
          rcases hb' with h | h <;> rw [h]
          · exact hwclean
          · exact rwxChars_clean _)
        (by rw [getLast_two]; exact rwxChars_ne_nil _) hend
        e.type pv e.tag (-1) [] (by intro c hc; simp at hc)
        (by
          rw [htype]
          have := posixRest_om_solaris wide (2 + (if pfx = true then 1 else 0))
            (bfun 5 ((if pfx = true then [str "default"] else []) ++
              [word, rwxChars e.permset])) (if pfx = true then 1 else 0) e.type
            word e.permset e.tag (by cases pfx <;> rfl) (by cases pfx <;> rfl)
            hwne htg hom (by cases pfx <;> rfl)
          rw [hperm] at this
          exact this)
      rw [hidm]
      simpa [joinColon, List.append_assoc] using key
    · have hcol : (¬ hasFlag flags styleSolaris = true ∨ (e.tag ≠ tagOther ∧ e.tag ≠ tagMask)) :=
        Or.inl hsol
      simp only [hcol, if_true, not_true_eq_false, if_false, List.append_nil]
      have key := posix_step wide wantType pfx word [[], rwxChars e.permset] tl rest o hwordc hw
        (by
          intro b hb'
          simp only [List.mem_cons, List.not_mem_nil, or_false] at hb'
          rcases hb' with h | h | h <;> rw [h]
          · exact hwclean
          · intro c hc; simp at hc
          · exact rwxChars_clean _)
        (by rw [getLast_three]; exact rwxChars_ne_nil _) hend
        e.type pv e.tag (-1) [] (by intro c hc; simp at hc)
        (by
          rw [htype]
          have := posixRest_om wide (3 + (if pfx = true then 1 else 0))
            (bfun 5 ((if pfx = true then [str "default"] else []) ++
              [word, [], rwxChars e.permset])) (if pfx = true then 1 else 0) e.type
            word e.permset e.tag (by cases pfx <;> rfl) (by cases pfx <;> rfl)
            hwne htg hom (by cases pfx <;> rfl) (by cases pfx <;> rfl)
          rw [hperm] at this
          exact this)
      rw [hidm]
      simpa [joinColon, List.append_assoc] using key
  · -- everyone@ is NFSv4 only
    exfalso
    rcases hp with h | h <;> rcases hn4 with h' | h' | h' | h' <;> rw [h] at h' <;> revert h' <;> decide


theorem posix_entry_parse (wide : Bool) (flags wantType : Nat) (e : Entry) (tl rest : List Ch)
    (o : ParseOut) (hwf : EntryWF e) (hq : QualOK e) (hp : IsPosix e.type)
    (hx : hasFlag flags styleExtraId = true)
    (hwant : wantType = typeAccess ∨ wantType = typeDefault)
    (hty : e.type = wantType ∨ (e.type = typeDefault ∧ hasFlag flags styleMarkDefault = true))
    (hend : EntryEnd wide tl rest) :
    parseLoop wide wantType (entryText wide flags e ++ tl) o =
      afterAdd wide wantType rest o e.type e.permset e.tag e.id (rtName e) := by
  have hperm : rwxVal e.permset = e.permset := by
    have := hwf.perm_ok; rw [if_pos hp] at this
    exact rwxVal_small ⟨e.permset, this⟩
  exact posix_entry_parse' wide flags wantType e tl rest o e.permset hwf.tag_ok hwf.id_range.2 hperm hq hp
    hx hwant hty hend

/-! NFSv4 entries -/

/-- The entry type word `append_entry` writes. -/
def typeWord (ty : Nat) : List Ch :=
  if ty = typeAllow then str "allow" else if ty = typeDeny then str "deny"
  else if ty = typeAudit then str "audit" else if ty = typeAlarm then str "alarm" else []

theorem typeWord_ok {ty : Nat} (h : IsNfs4 ty) :
    nfs4TypeSpec (typeWord ty) = ty ∧ Clean (typeWord ty) ∧ typeWord ty ≠ [] ∧ ty ≠ 0 := by
  rcases h with h | h | h | h <;> subst h
  · exact ⟨by decide, str_clean.2.2.2.2.2.2.2.2.1, by decide, by decide⟩
  · exact ⟨by decide, str_clean.2.2.2.2.2.2.2.2.2.1, by decide, by decide⟩
  · exact ⟨by decide, str_clean.2.2.2.2.2.2.2.2.2.2.1, by decide, by decide⟩
  · exact ⟨by decide, str_clean.2.2.2.2.2.2.2.2.2.2.2, by decide, by decide⟩

theorem appendEntry_nfs4 (wide pfx : Bool) (ty tag flags : Nat) (name : List Ch) (perm : Nat) (id : Int)
    (hn : IsNfs4 ty) :
    appendEntry wide pfx ty tag flags name perm id =
      (if pfx then str "default:" else []) ++ tagWord true tag ++ [58] ++
        (qualPart ty tag flags name id).1 ++
        (permChars wide perm (hasFlag flags styleCompact) ++ [58] ++
         flagChars wide perm (hasFlag flags styleCompact) ++ [58] ++ typeWord ty) ++
        (if (qualPart ty tag flags name id).2 ≠ -1 then 58 :: appendId (qualPart ty tag flags name id).2
         else []) := by
  have hb := nfs4_bits hn
  simp [appendEntry, permPart, hb.1, hb.2, permChars, flagChars, typeWord]

theorem nfs4Tag_words : nfs4TagSpec (str "user") = tagUser ∧ nfs4TagSpec (str "group") = tagGroup ∧
    nfs4TagSpec (str "owner@") = tagUserObj ∧ nfs4TagSpec (str "group@") = tagGroupObj ∧
    nfs4TagSpec (str "everyone@") = tagEveryone := by decide

theorem tagWord_nfs4 : tagWord true tagUser = str "user" ∧ tagWord true tagUserObj = str "owner@" ∧
    tagWord true tagGroup = str "group" ∧ tagWord true tagGroupObj = str "group@" ∧
    tagWord true tagEveryone = str "everyone@" := by decide

theorem nfs4_step (wide : Bool) (word : List Ch) (more : List (List Ch))
    (tl rest : List Ch) (o : ParseOut)
    (hwne : word ≠ [])
    (hc : ∀ b ∈ word :: more, Clean b) (hlast : (word :: more).getLast (by simp) ≠ [])
    (hend : EntryEnd wide tl rest)
    (ty pm tg : Nat) (id : Int) (nm : List Ch) (hnm : Clean nm)
    (hcore : nfs4Core wide (bfun 6 (word :: more)) = .entry ty pm tg id nm) :
    parseLoop wide typeNfs4 (joinColon (word :: more) ++ tl) o =
      afterAdd wide typeNfs4 rest o ty pm tg id nm := by
  have hwc : Clean word := hc word (by simp)
  obtain ⟨w0, wt, hw0⟩ : ∃ w0 wt, word = w0 :: wt := by
    cases word with
    | nil => exact (hwne rfl).elim
    | cons a b => exact ⟨a, b, rfl⟩
  have hw0ne : w0 ≠ 0 ∧ w0 ≠ 35 := by
    have := hwc w0 (by rw [hw0]; simp)
    exact ⟨this.1, this.2.2.2.2.2.2⟩
  have hjc : ∃ t0, joinColon (word :: more) ++ tl = w0 :: t0 := by
    cases more with
    | nil => exact ⟨wt ++ tl, by simp [joinColon, hw0]⟩
    | cons m1 mt => exact ⟨_, by simp [joinColon, hw0]; rfl⟩
  obtain ⟨t0, ht0⟩ := hjc
  have hcore' : bodiesCore wide (word :: more) w0 typeNfs4 = .entry ty pm tg id nm := by
    unfold bodiesCore
    simp only [hw0ne.2, if_false, ne_eq, not_true_eq_false]
    exact hcore
  have := entry_step wide typeNfs4 (word :: more) tl rest o w0 t0 (by simp) hc hlast hend ht0
    hw0ne.1 ty pm tg id nm hcore'
  rw [this, takeWhile_clean nm hnm]; rfl


theorem getLast_five (a b c d e : List Ch) : [a, b, c, d, e].getLast (by simp) = e := rfl
theorem getLast_six (a b c d e f : List Ch) : [a, b, c, d, e, f].getLast (by simp) = f := rfl

/-- An NFSv4 entry as `archive_acl_to_text_*` prints it with ids is read back by the parser
loop as exactly that entry. -/
theorem nfs4_entry_parse (wide : Bool) (flags : Nat) (e : Entry) (tl rest : List Ch)
    (o : ParseOut) (hwf : EntryWF e) (hq : QualOK e) (hn : IsNfs4 e.type)
    (hx : hasFlag flags styleExtraId = true) (hend : EntryEnd wide tl rest) :
    parseLoop wide typeNfs4 (entryText wide flags e ++ tl) o =
      afterAdd wide typeNfs4 rest o e.type e.permset e.tag e.id (rtName e) := by
  have hb := nfs4_bits hn
  have hnp : ¬ IsPosix e.type := by
    intro hp
    rcases hp with h | h <;> rcases hn with h' | h' | h' | h' <;> rw [h] at h' <;> revert h' <;> decide
  have hperm : e.permset &&& (permsNfs4 ||| inheritanceNfs4) = e.permset := by
    have := hwf.perm_ok; rw [if_neg hnp] at this; exact this
  have hidmax := hwf.id_range.2
  obtain ⟨htw, htwc, htwne, hty0⟩ := typeWord_ok hn
  have hpfx : decide (e.type = typeDefault ∧ hasFlag flags styleMarkDefault = true) = false := by
    have : e.type ≠ typeDefault := fun h => hnp (Or.inr h)
    simp [this]
  rw [entryText_extra wide flags e hx, hpfx, appendEntry_nfs4 _ _ _ _ _ _ _ _ hn]
  simp only [Bool.false_eq_true, if_false, List.nil_append]
  generalize hcomp : hasFlag flags styleCompact = compact
  rcases hwf.tag_ok with hug | ht | ht | ⟨hp', _⟩ | ⟨_, ht⟩
  · -- user / group
    obtain ⟨⟨hclean, hnum⟩, hidr⟩ := hq.ug hug
    rw [qualPart_ug _ _ _ _ _ hug]
    obtain ⟨word, hwd, htg, hwclean, hwne⟩ :
        ∃ word, tagWord true e.tag = word ∧ nfs4TagSpec word = e.tag ∧ Clean word ∧ word ≠ [] := by
      rcases hug with h | h <;> rw [h]
      · exact ⟨str "user", by decide, by decide, str_clean.1, by decide⟩
      · exact ⟨str "group", by decide, by decide, str_clean.2.1, by decide⟩
    have hugd : e.tag = tagUser ∨ e.tag = tagGroup := hug
    rw [hwd]
    by_cases hne : e.name = []
    · have hid0 : 0 ≤ e.id := by simpa [hne] using hidr
      have hidn : ((e.id.toNat : Nat) : Int) = e.id := by omega
      have hidm : e.id ≠ -1 := by omega
      have hrt : rtName e = digits e.id.toNat := by simp [rtName, hug, hne]
      simp only [hne, ne_eq, not_true_eq_false, if_false, hb.2, hidm, not_false_eq_true, if_true]
      rw [hrt]
      have key := nfs4_step wide word
        [digits e.id.toNat, permChars wide e.permset compact, flagChars wide e.permset compact,
          typeWord e.type, digits e.id.toNat] tl rest o hwne
        (by
          intro b hb'
          simp only [List.mem_cons, List.not_mem_nil, or_false] at hb'
          rcases hb' with h | h | h | h | h | h <;> rw [h]
          · exact hwclean
          · exact digits_clean _
          · exact permChars_clean _ _ _
          · exact flagChars_clean _ _ _
          · exact htwc
          · exact digits_clean _)
        (by rw [getLast_six]; exact digits_ne_nil _) hend
        e.type e.permset e.tag e.id (digits e.id.toNat) (digits_clean _)
        (by
          have := nfs4Core_ug wide (bfun 6 [word, digits e.id.toNat, permChars wide e.permset compact,
              flagChars wide e.permset compact, typeWord e.type, digits e.id.toNat])
            word (digits e.id.toNat) (typeWord e.type) (digits e.id.toNat) e.tag e.type e.permset compact
            rfl htg hugd rfl rfl rfl rfl htw hty0 rfl hperm
          rw [isintOr_digits _ _ (by omega), hidn] at this
          exact this)
      simpa [joinColon, appendId, List.append_assoc] using key
    · have hnd := hnum hne
      have hid1 : -1 ≤ e.id := by simpa [hne] using hidr
      have hrt : rtName e = e.name := by simp [rtName, hne]
      simp only [hne, ne_eq, not_false_eq_true, if_true]
      rw [hrt]
      by_cases hidm : e.id = -1
      · simp only [hidm, not_true_eq_false, if_false, List.append_nil]
        have key := nfs4_step wide word
          [e.name, permChars wide e.permset compact, flagChars wide e.permset compact,
            typeWord e.type] tl rest o hwne
          (by
            intro b hb'
            simp only [List.mem_cons, List.not_mem_nil, or_false] at hb'
            rcases hb' with h | h | h | h | h <;> rw [h]
            · exact hwclean
            · exact hclean
            · exact permChars_clean _ _ _
            · exact flagChars_clean _ _ _
            · exact htwc)
          (by rw [getLast_five]; exact htwne) hend
          e.type e.permset e.tag (-1) e.name hclean
          (by
            have := nfs4Core_ug wide (bfun 6 [word, e.name, permChars wide e.permset compact,
                flagChars wide e.permset compact, typeWord e.type])
              word e.name (typeWord e.type) [] e.tag e.type e.permset compact
              rfl htg hugd rfl rfl rfl rfl htw hty0 rfl hperm
            rw [isintOr_nil, isintOr_nondigit _ _ hnd] at this
            exact this)
        simpa [joinColon, List.append_assoc] using key
      · have hid0 : 0 ≤ e.id := by omega
        have hidn : ((e.id.toNat : Nat) : Int) = e.id := by omega
        simp only [hidm, not_false_eq_true, if_true]
        have key := nfs4_step wide word
          [e.name, permChars wide e.permset compact, flagChars wide e.permset compact,
            typeWord e.type, digits e.id.toNat] tl rest o hwne
          (by
            intro b hb'
            simp only [List.mem_cons, List.not_mem_nil, or_false] at hb'
            rcases hb' with h | h | h | h | h | h <;> rw [h]
            · exact hwclean
            · exact hclean
            · exact permChars_clean _ _ _
            · exact flagChars_clean _ _ _
            · exact htwc
            · exact digits_clean _)
          (by rw [getLast_six]; exact digits_ne_nil _) hend
          e.type e.permset e.tag e.id e.name hclean
          (by
            have := nfs4Core_ug wide (bfun 6 [word, e.name, permChars wide e.permset compact,
                flagChars wide e.permset compact, typeWord e.type, digits e.id.toNat])
              word e.name (typeWord e.type) (digits e.id.toNat) e.tag e.type e.permset compact
              rfl htg hugd rfl rfl rfl rfl htw hty0 rfl hperm
            rw [isintOr_digits _ _ (by omega), hidn] at this
            exact this)
        simpa [joinColon, appendId, List.append_assoc] using key
  all_goals first
    | (exfalso; exact hnp hp')
    | skip
  all_goals
    have hobj : e.tag = tagUserObj ∨ e.tag = tagGroupObj ∨ e.tag = tagEveryone := by simp [ht]
    have hnug : ¬ IsUG e.tag := by unfold IsUG; rw [ht]; decide
    obtain ⟨hidm, hnm⟩ := hq.other hnug
    have hrt : rtName e = [] := by simp [rtName, hnm, hnug]
    obtain ⟨word, hwd, htg, hwclean, hwne⟩ :
        ∃ word, tagWord true e.tag = word ∧ nfs4TagSpec word = e.tag ∧ Clean word ∧ word ≠ [] := by
      rw [ht]
      first
        | exact ⟨str "owner@", by decide, by decide, str_clean.2.2.2.2.1, by decide⟩
        | exact ⟨str "group@", by decide, by decide, str_clean.2.2.2.2.2.1, by decide⟩
        | exact ⟨str "everyone@", by decide, by decide, str_clean.2.2.2.2.2.2.1, by decide⟩
    rw [qualPart_other_nfs4 _ _ _ _ _ hn hobj, hrt, hwd, hidm]
    simp only [List.append_nil, not_true_eq_false, if_false]
    have key := nfs4_step wide word
      [permChars wide e.permset compact, flagChars wide e.permset compact, typeWord e.type] tl rest o hwne
      (by
        intro b hb'
        simp only [List.mem_cons, List.not_mem_nil, or_false] at hb'
        rcases hb' with h | h | h | h <;> rw [h]
        · exact hwclean
        · exact permChars_clean _ _ _
        · exact flagChars_clean _ _ _
        · exact htwc)
      (by rw [getLast_four]; exact htwne) hend
      e.type e.permset e.tag (-1) [] (by intro c hc; simp at hc)
      (nfs4Core_obj wide (bfun 6 [word, permChars wide e.permset compact,
          flagChars wide e.permset compact, typeWord e.type])
        word (typeWord e.type) e.tag e.type e.permset compact
        rfl htg hobj rfl rfl rfl htw hty0 rfl hperm)
    simpa [joinColon, List.append_assoc] using key

/-! ### A whole generated text: the parser loop is a sequence of `add_entry` calls -/

/-- `text` is read by the parser loop as the entry `a`. -/
def Parses (wide : Bool) (wantType : Nat) (text : List Ch) (a : Entry) : Prop :=
  ∀ tl rest o, EntryEnd wide tl rest →
    parseLoop wide wantType (text ++ tl) o = afterAdd wide wantType rest o a.type a.permset a.tag a.id a.name

/-- The parser loop over a list of recognised entries: `archive_acl_add_entry` for each, stopping
at the first failure. -/
def addLoop : List Entry → ParseOut → ParseOut
  | [], o => o
  | a :: t, o =>
    if (addEntry o.acl a.type a.permset a.tag a.id a.name).2 = .failed ∨
       (addEntry o.acl a.type a.permset a.tag a.id a.name).2 = .fatal then
      { o with acl := (addEntry o.acl a.type a.permset a.tag a.id a.name).1,
               status := (addEntry o.acl a.type a.permset a.tag a.id a.name).2, added := o.added + 1 }
    else addLoop t
      { o with acl := (addEntry o.acl a.type a.permset a.tag a.id a.name).1,
               status := if (addEntry o.acl a.type a.permset a.tag a.id a.name).2 ≠ .ok then .warn
                         else o.status,
               added := o.added + 1 }

def endTail (wide : Bool) : List Ch := if wide then [0] else []

theorem parseLoop_endTail (wide : Bool) (wantType : Nat) (o : ParseOut) :
    parseLoop wide wantType (endTail wide) o = .ok o := by
  cases wide with
  | false => simp [endTail, parseLoop_nil]
  | true => simp [endTail, parseLoop_cons]

theorem entryEnd_endTail (wide : Bool) : EntryEnd wide (endTail wide) (endTail wide) := by
  cases wide with
  | false => exact EntryEnd.endN rfl
  | true => exact EntryEnd.endW rfl

theorem intercalate_cons_cons (s : Ch) (a b : List Ch) (t : List (List Ch)) :
    [s].intercalate (a :: b :: t) = a ++ s :: [s].intercalate (b :: t) := by
  simp [List.intercalate, List.intersperse_cons_cons]

theorem parse_texts (wide : Bool) (wantType : Nat) (s : Ch) (hs : s = 44 ∨ s = 10)
    (items : List (List Ch × Entry)) (h : ∀ x ∈ items, Parses wide wantType x.1 x.2) (o : ParseOut) :
    parseLoop wide wantType ([s].intercalate (items.map (·.1)) ++ endTail wide) o =
      .ok (addLoop (items.map (·.2)) o) := by
  induction items generalizing o with
  | nil => simp [List.intercalate, addLoop, parseLoop_endTail]
  | cons x t ih =>
    cases t with
    | nil =>
      have hx := h x (by simp) (endTail wide) (endTail wide) o (entryEnd_endTail wide)
      simp only [List.map_cons, List.map_nil, List.intercalate, List.intersperse_singleton,
        List.flatten_cons, List.flatten_nil, List.append_nil]
      rw [hx]
      unfold afterAdd addLoop
      split
      · rfl
      · rw [parseLoop_endTail]; rfl
    | cons y t' =>
      have hx := h x (by simp) (s :: ([s].intercalate ((y :: t').map (·.1)) ++ endTail wide))
        ([s].intercalate ((y :: t').map (·.1)) ++ endTail wide) o (EntryEnd.sep s _ hs)
      simp only [List.map_cons] at hx ⊢
      rw [intercalate_cons_cons, List.append_assoc, List.cons_append, hx]
      unfold afterAdd
      rw [addLoop]
      split
      · rfl
      · exact ih (fun z hz => h z (by simp [hz])) _


/-! ### The sequence of `add_entry` calls rebuilds the ACL -/

/-- The key test of the overwrite loop in `acl_new_entry`: the stored entry `x` is replaced
when `e` is added. -/
def DupKey (x e : Entry) : Prop :=
  e.type &&& typeNfs4 = 0 ∧ x.type = e.type ∧ x.tag = e.tag ∧ x.id = e.id ∧
    (e.id ≠ -1 ∨ (e.tag ≠ tagUser ∧ e.tag ≠ tagGroup))

theorem overwrite_none (ty pm tag : Nat) (id : Int) (nm : List Ch) (l : List Entry)
    (h : ∀ x ∈ l, ¬ (ty &&& typeNfs4 = 0 ∧ x.type = ty ∧ x.tag = tag ∧ x.id = id ∧
      (id ≠ -1 ∨ (tag ≠ tagUser ∧ tag ≠ tagGroup)))) :
    overwrite ty pm tag id nm l = none := by
  induction l with
  | nil => rfl
  | cons a t ih =>
    have ha := h a (by simp)
    have := ih (fun x hx => h x (by simp [hx]))
    simp only [overwrite, ha, if_false, this, Option.map_none]

/-- The entry after the round trip. -/
def img (e : Entry) : Entry := { e with name := rtName e }

def familyMask (e : Entry) : Nat := if IsPosix e.type then typePosix1e else typeNfs4

theorem small_and_seven : ∀ p : Fin 8, p.val &&& 7 = p.val := by decide

theorem within_or {a b m : Nat} (ha : a &&& m = a) (hb : b &&& m = b) : (a ||| b) &&& m = a ||| b := by
  rw [Nat.and_or_distrib_right, ha, hb]

/-- Adding a well-formed entry that matches no stored key appends it. -/
theorem addEntry_append (acl : Acl) (e : Entry) (nm : List Ch) (hwf : EntryWF e)
    (hty : acl.types &&& familyMask e = acl.types)
    (hk : ∀ x ∈ acl.entries, ¬ DupKey x e) :
    addEntry acl e.type e.permset e.tag e.id nm =
      ({ acl with entries := acl.entries ++ [⟨e.type, e.tag, e.permset, e.id, nm⟩],
                  types := acl.types ||| e.type }, .ok) := by
  have hspecial : aclSpecial acl e.type e.permset e.tag = none := by
    unfold aclSpecial
    by_cases ha : e.type = typeAccess
    · have hnm := hwf.not_mode
      have h1 : ¬ e.tag = tagUserObj := fun h => hnm ⟨ha, Or.inl h⟩
      have h2 : ¬ e.tag = tagGroupObj := fun h => hnm ⟨ha, Or.inr (Or.inl h)⟩
      have h3 : ¬ e.tag = tagOther := fun h => hnm ⟨ha, Or.inr (Or.inr h)⟩
      simp [h1, h2, h3]
    · simp [ha]
  have hvalid : newEntryValid acl e.type e.permset e.tag = true := by
    have hsix : (e.type = typeAccess ∨ e.type = typeDefault ∨ e.type = typeAllow ∨ e.type = typeDeny ∨
        e.type = typeAudit ∨ e.type = typeAlarm) = True := by
      rcases hwf.type_ok with (h | h) | (h | h | h | h) <;> simp [h]
    unfold newEntryValid within
    simp only [hsix, true_and]
    rcases hwf.type_ok with hp | hn
    · have hb := posix_bits hp
      have hpm : e.permset &&& permsPosix1e = e.permset := by
        have := hwf.perm_ok; rw [if_pos hp] at this
        exact small_and_seven ⟨e.permset, this⟩
      have hfam : acl.types &&& typePosix1e = acl.types := by simpa [familyMask, hp] using hty
      have htyw : e.type &&& typePosix1e = e.type := by rcases hp with h | h <;> rw [h] <;> decide
      have hnn : ¬ IsNfs4 e.type := by
        intro hn
        rcases hp with h | h <;> rcases hn with h' | h' | h' | h' <;> rw [h] at h' <;> revert h' <;> decide
      rcases hwf.tag_ok with hug | ht | ht | ⟨_, ht⟩ | ⟨hn', _⟩
      · rcases hug with h | h <;> simp [hb.1, hb.2, hfam, hpm, h]
      · simp [hb.1, hb.2, hfam, hpm, ht]
      · simp [hb.1, hb.2, hfam, hpm, ht]
      · have hne0 : e.type ≠ 0 := by rcases hp with h | h <;> rw [h] <;> decide
        rcases ht with h | h <;> simp [hb.1, hb.2, hfam, hpm, h, htyw, tagc, hne0]
      · exact (hnn hn').elim
    · have hb := nfs4_bits hn
      have hnp : ¬ IsPosix e.type := by
        intro hp
        rcases hp with h | h <;> rcases hn with h' | h' | h' | h' <;> rw [h] at h' <;> revert h' <;> decide
      have hpm : e.permset &&& (permsNfs4 ||| inheritanceNfs4) = e.permset := by
        have := hwf.perm_ok; rw [if_neg hnp] at this; exact this
      have hfam : acl.types &&& typeNfs4 = acl.types := by simpa [familyMask, hnp] using hty
      have htyw : e.type &&& typeNfs4 = e.type := by rcases hn with h | h | h | h <;> rw [h] <;> decide
      rcases hwf.tag_ok with hug | ht | ht | ⟨hp', _⟩ | ⟨_, ht⟩
      · rcases hug with h | h <;> simp [hb.2, hfam, hpm, h]
      · simp [hb.2, hfam, hpm, ht]
      · simp [hb.2, hfam, hpm, ht]
      · exact (hnp hp').elim
      · have hne0 : e.type ≠ 0 := by rcases hn with h | h | h | h <;> rw [h] <;> decide
        simp [hb.2, hfam, hpm, ht, htyw, tagc, hne0]
  have hov : overwrite e.type e.permset e.tag e.id nm acl.entries = none :=
    overwrite_none _ _ _ _ _ _ (fun x hx => hk x hx)
  simp only [addEntry, hspecial, hvalid, if_true, hov]


theorem img_eq (e : Entry) : (⟨e.type, e.tag, e.permset, e.id, rtName e⟩ : Entry) = img e := rfl

def orTypes (l : List Entry) (t0 : Nat) : Nat := l.foldl (fun t e => t ||| e.type) t0

/-- The loop over the images of a duplicate-free list of well-formed entries of one family
appends them all. -/
theorem addLoop_listed (l : List Entry) (o : ParseOut) (m : Nat)
    (hwf : ∀ e ∈ l, EntryWF e)
    (hfam : ∀ e ∈ l, familyMask e = m ∧ e.type &&& m = e.type)
    (hty : o.acl.types &&& m = o.acl.types)
    (hk : ∀ x ∈ o.acl.entries, ∀ e ∈ l, ¬ DupKey x e)
    (hpw : l.Pairwise (fun a b => ¬ DupKey a b)) :
    addLoop (l.map img) o =
      { o with acl := { o.acl with entries := o.acl.entries ++ l.map img,
                                   types := orTypes l o.acl.types },
               added := o.added + l.length } := by
  induction l generalizing o with
  | nil => simp [addLoop, orTypes]
  | cons e t ih =>
    have hwe := hwf e (by simp)
    have hfe := hfam e (by simp)
    have hadd := addEntry_append o.acl e (rtName e) hwe (by rw [hfe.1]; exact hty)
      (fun x hx => hk x hx e (by simp))
    have himg : (img e).type = e.type ∧ (img e).permset = e.permset ∧ (img e).tag = e.tag ∧
        (img e).id = e.id ∧ (img e).name = rtName e := ⟨rfl, rfl, rfl, rfl, rfl⟩
    simp only [List.map_cons, addLoop, himg.1, himg.2.1, himg.2.2.1, himg.2.2.2.1, himg.2.2.2.2, hadd,
      reduceCtorEq, or_self, if_false, ne_eq, not_true_eq_false, img_eq]
    rw [ih]
    · simp [orTypes, List.append_assoc, Nat.add_assoc, Nat.add_comm 1]
    · exact fun x hx => hwf x (by simp [hx])
    · exact fun x hx => hfam x (by simp [hx])
    · exact within_or hty hfe.2
    · intro x hx y hy
      simp only [List.mem_append, List.mem_cons, List.not_mem_nil, or_false] at hx
      rcases hx with hx | hx
      · exact hk x hx y (by simp [hy])
      · rw [hx]
        have := (List.pairwise_cons.mp hpw).1 y hy
        exact this
    · exact (List.pairwise_cons.mp hpw).2


/-! The three entries made up from `mode` -/

def headEntries (mode : Nat) : List Entry :=
  [⟨typeAccess, tagUserObj, rwxVal (mode &&& 0o700), -1, []⟩,
   ⟨typeAccess, tagGroupObj, rwxVal (mode &&& 0o070), -1, []⟩,
   ⟨typeAccess, tagOther, rwxVal (mode &&& 0o007), -1, []⟩]

/-- `acl_special` applied to the three entries, starting from mode 0. -/
def foldMode (m : Nat) : Nat :=
  let m1 := 0 - (0 &&& 0o700) ||| ((rwxVal (m &&& 0o700) &&& 7) <<< 6)
  let m2 := m1 - (m1 &&& 0o070) ||| ((rwxVal (m &&& 0o070) &&& 7) <<< 3)
  m2 - (m2 &&& 0o007) ||| (rwxVal (m &&& 0o007) &&& 7)

theorem and_mod512 (m k : Nat) (hk : 511 &&& k = k) : m &&& k = (m % 512) &&& k := by
  have : m % 512 = m &&& 511 := (Nat.and_two_pow_sub_one_eq_mod m 9).symm
  rw [this, Nat.and_assoc, hk]

set_option maxRecDepth 20000 in
theorem foldMode_small : ∀ r : Fin 512, foldMode r.val = r.val := by decide

theorem foldMode_eq (m : Nat) : foldMode m = m &&& 0o777 := by
  have h1 : foldMode m = foldMode (m % 512) := by
    unfold foldMode
    rw [and_mod512 m 0o700 (by decide), and_mod512 m 0o070 (by decide), and_mod512 m 0o007 (by decide)]
  rw [h1, foldMode_small ⟨m % 512, Nat.mod_lt _ (by decide)⟩]
  exact (Nat.and_two_pow_sub_one_eq_mod m 9).symm

theorem rwxVal_lt (p : Nat) : rwxVal p < 8 := by
  unfold rwxVal
  split <;> split <;> split <;> decide

theorem addLoop_heads (mode : Nat) (o : ParseOut) (h0 : o.acl.mode = 0) :
    addLoop (headEntries mode) o =
      { o with acl := { o.acl with mode := mode &&& 0o777 }, added := o.added + 3 } := by
  have hspec : ∀ (a : Acl) (p tag : Nat), p < 8 →
      addEntry a typeAccess p tag (-1) [] = ((aclSpecial a typeAccess p tag).getD a, .ok) ∨
      aclSpecial a typeAccess p tag = none := by
    intro a p tag hp
    cases h : aclSpecial a typeAccess p tag with
    | none => exact Or.inr rfl
    | some a' => left; simp [addEntry, h]
  have hw : ∀ p, p < 8 → within p 7 = true := by
    intro p hp; unfold within; simp [small_and_seven ⟨p, hp⟩]
  have hu := rwxVal_lt (mode &&& 0o700)
  have hg := rwxVal_lt (mode &&& 0o070)
  have ho := rwxVal_lt (mode &&& 0o007)
  have e1 : ∀ a : Acl, addEntry a typeAccess (rwxVal (mode &&& 0o700)) tagUserObj (-1) [] =
      ({ a with mode := a.mode - (a.mode &&& 0o700) ||| ((rwxVal (mode &&& 0o700) &&& 7) <<< 6) }, .ok) := by
    intro a; simp [addEntry, aclSpecial, hw _ hu]
  have e2 : ∀ a : Acl, addEntry a typeAccess (rwxVal (mode &&& 0o070)) tagGroupObj (-1) [] =
      ({ a with mode := a.mode - (a.mode &&& 0o070) ||| ((rwxVal (mode &&& 0o070) &&& 7) <<< 3) }, .ok) := by
    intro a; simp [addEntry, aclSpecial, hw _ hg, tagc]
  have e3 : ∀ a : Acl, addEntry a typeAccess (rwxVal (mode &&& 0o007)) tagOther (-1) [] =
      ({ a with mode := a.mode - (a.mode &&& 0o007) ||| (rwxVal (mode &&& 0o007) &&& 7) }, .ok) := by
    intro a; simp [addEntry, aclSpecial, hw _ ho, tagc]
  have hfold := foldMode_eq mode
  unfold foldMode at hfold
  simp only [headEntries, addLoop, e1, e2, e3, reduceCtorEq, or_self, if_false, ne_eq,
    not_true_eq_false, h0]
  simp only [] at hfold
  rw [hfold]


theorem addLoop_heads_append (mode : Nat) (rest : List Entry) (o : ParseOut) (h0 : o.acl.mode = 0) :
    addLoop (headEntries mode ++ rest) o =
      addLoop rest { o with acl := { o.acl with mode := mode &&& 0o777 }, added := o.added + 3 } := by
  have hw : ∀ p, p < 8 → within p 7 = true := by
    intro p hp; unfold within; simp [small_and_seven ⟨p, hp⟩]
  have hu := rwxVal_lt (mode &&& 0o700)
  have hg := rwxVal_lt (mode &&& 0o070)
  have ho := rwxVal_lt (mode &&& 0o007)
  have e1 : ∀ a : Acl, addEntry a typeAccess (rwxVal (mode &&& 0o700)) tagUserObj (-1) [] =
      ({ a with mode := a.mode - (a.mode &&& 0o700) ||| ((rwxVal (mode &&& 0o700) &&& 7) <<< 6) }, .ok) := by
    intro a; simp [addEntry, aclSpecial, hw _ hu]
  have e2 : ∀ a : Acl, addEntry a typeAccess (rwxVal (mode &&& 0o070)) tagGroupObj (-1) [] =
      ({ a with mode := a.mode - (a.mode &&& 0o070) ||| ((rwxVal (mode &&& 0o070) &&& 7) <<< 3) }, .ok) := by
    intro a; simp [addEntry, aclSpecial, hw _ hg, tagc]
  have e3 : ∀ a : Acl, addEntry a typeAccess (rwxVal (mode &&& 0o007)) tagOther (-1) [] =
      ({ a with mode := a.mode - (a.mode &&& 0o007) ||| (rwxVal (mode &&& 0o007) &&& 7) }, .ok) := by
    intro a; simp [addEntry, aclSpecial, hw _ ho, tagc]
  have hfold := foldMode_eq mode
  unfold foldMode at hfold
  simp only [headEntries, List.cons_append, List.nil_append, addLoop, e1, e2, e3, reduceCtorEq, or_self,
    if_false, ne_eq, not_true_eq_false, h0]
  simp only [] at hfold
  rw [hfold]

/-! ### Well-formed ACLs -/

/-- What `archive_acl_add_entry` builds from an empty ACL out of entries whose type is one of
the six ACL types: one family, no mode-mapped ACCESS entry in the list, no two POSIX.1e entries
with the same key, `acl_types` the OR of the entry types. -/
structure WF (acl : Acl) : Prop where
  entries : ∀ e ∈ acl.entries, EntryWF e
  family : (∀ e ∈ acl.entries, IsPosix e.type) ∨ (∀ e ∈ acl.entries, IsNfs4 e.type)
  types : acl.types = orTypes acl.entries 0
  nodup : acl.entries.Pairwise (fun a b => ¬ DupKey a b)

theorem orTypes_and (l : List Entry) (t m : Nat) :
    orTypes l t &&& m = (t &&& m) ||| orTypes l 0 &&& m := by
  induction l generalizing t with
  | nil => simp [orTypes]
  | cons e r ih =>
    simp only [orTypes, List.foldl_cons] at ih ⊢
    rw [ih (t ||| e.type), ih (0 ||| e.type), Nat.and_or_distrib_right, Nat.zero_or, Nat.or_assoc]

theorem orTypes_zero (l : List Entry) (m : Nat) (h : ∀ e ∈ l, e.type &&& m = 0) :
    orTypes l 0 &&& m = 0 := by
  induction l with
  | nil => simp [orTypes]
  | cons e r ih =>
    have := orTypes_and r (0 ||| e.type) m
    simp only [orTypes, List.foldl_cons] at this ⊢
    rw [this, Nat.zero_or, h e (by simp), Nat.zero_or]
    exact ih (fun x hx => h x (by simp [hx]))

theorem orTypes_ne_zero (l : List Entry) (m : Nat) (e : Entry) (he : e ∈ l) (h : e.type &&& m ≠ 0) :
    orTypes l 0 &&& m ≠ 0 := by
  induction l with
  | nil => simp at he
  | cons a r ih =>
    have := orTypes_and r (0 ||| a.type) m
    simp only [orTypes, List.foldl_cons] at this ⊢
    rw [this, Nat.zero_or]
    intro h0
    have hz := Nat.or_eq_zero_iff.mp h0
    rcases List.mem_cons.mp he with h1 | h1
    · rw [h1] at h; exact h hz.1
    · exact ih h1 hz.2


/-! ### The whole ACL -/

/-- The `want_type` argument that reads back text made with `flags`. -/
def parseWant (acl : Acl) (flags : Nat) : Nat :=
  if textWantType acl flags = typeNfs4 then typeNfs4
  else if textWantType acl flags = typeDefault then typeDefault else typeAccess

/-- The ACL the round trip yields: the entries the text lists (unnamed ones named by their
id), the permission bits of `mode` when the ACCESS entries were listed. -/
def rtAcl (acl : Acl) (flags : Nat) : Acl :=
  { mode := if textWantType acl flags &&& typeAccess ≠ 0 then acl.mode &&& 0o777 else 0,
    entries := (listed acl (textWantType acl flags)).map img,
    types := orTypes (listed acl (textWantType acl flags)) 0 }

theorem head_parses (wide : Bool) (fl mode mask tag : Nat)
    (htag : tag = tagUserObj ∨ tag = tagGroupObj ∨ tag = tagOther)
    (hx : hasFlag fl styleExtraId = true) :
    Parses wide typeAccess (appendEntry wide false typeAccess tag fl [] (mode &&& mask) (-1))
      ⟨typeAccess, tag, rwxVal (mode &&& mask), -1, []⟩ := by
  intro tl rest o hend
  have hnug : ¬ IsUG tag := by
    unfold IsUG; rcases htag with h | h | h <;> rw [h] <;> decide
  let e : Entry := ⟨typeAccess, tag, mode &&& mask, -1, []⟩
  have htext : entryText wide fl e = appendEntry wide false typeAccess tag fl [] (mode &&& mask) (-1) := by
    rw [entryText_extra wide fl e hx]
    have : decide (e.type = typeDefault ∧ hasFlag fl styleMarkDefault = true) = false := by
      have : e.type ≠ typeDefault := by show typeAccess ≠ typeDefault; decide
      simp [this]
    rw [this]
  have hq : QualOK e := ⟨fun h => (hnug h).elim, fun _ => ⟨rfl, rfl⟩⟩
  have hrt : rtName e = [] := by
    have : ¬ IsUG e.tag := hnug
    simp [rtName, this]; rfl
  have := posix_entry_parse' wide fl typeAccess e tl rest o (rwxVal (mode &&& mask))
    (by
      rcases htag with h | h | h
      · exact Or.inr (Or.inl h)
      · exact Or.inr (Or.inr (Or.inl h))
      · exact Or.inr (Or.inr (Or.inr (Or.inl ⟨Or.inl rfl, Or.inr h⟩))))
    (by show (-1 : Int) ≤ 2147483647; omega) rfl hq (Or.inl rfl) hx (Or.inl rfl) (Or.inl rfl) hend
  rw [htext, hrt] at this
  exact this

/-- Texts and recognised entries of the three lines made up from `mode`. -/
def headItems (wide : Bool) (mode fl : Nat) : List (List Ch × Entry) :=
  [(appendEntry wide false typeAccess tagUserObj fl [] (mode &&& 0o700) (-1),
      ⟨typeAccess, tagUserObj, rwxVal (mode &&& 0o700), -1, []⟩),
   (appendEntry wide false typeAccess tagGroupObj fl [] (mode &&& 0o070) (-1),
      ⟨typeAccess, tagGroupObj, rwxVal (mode &&& 0o070), -1, []⟩),
   (appendEntry wide false typeAccess tagOther fl [] (mode &&& 0o007) (-1),
      ⟨typeAccess, tagOther, rwxVal (mode &&& 0o007), -1, []⟩)]

theorem textBody_parse (wide : Bool) (acl : Acl) (wt fl want : Nat) (o : ParseOut)
    (hx : hasFlag fl styleExtraId = true)
    (hacc : wt &&& typeAccess ≠ 0 → want = typeAccess)
    (hitems : ∀ e ∈ listed acl wt, Parses wide want (entryText wide fl e) (img e)) :
    parseLoop wide want (textBody wide acl wt fl ++ endTail wide) o =
      .ok (addLoop ((if wt &&& typeAccess ≠ 0 then headEntries acl.mode else []) ++
        (listed acl wt).map img) o) := by
  have hs : sepChar fl = 44 ∨ sepChar fl = 10 := by unfold sepChar; split <;> simp
  let items : List (List Ch × Entry) :=
    (if wt &&& typeAccess ≠ 0 then headItems wide acl.mode fl else []) ++
      (listed acl wt).map (fun e => (entryText wide fl e, img e))
  have h1 : items.map (·.1) =
      (if wt &&& typeAccess ≠ 0 then headTexts wide acl.mode fl else []) ++
        (listed acl wt).map (entryText wide fl) := by
    simp only [items, List.map_append, List.map_map]
    congr 1
    · split <;> simp [headItems, headTexts]
  have h2 : items.map (·.2) =
      (if wt &&& typeAccess ≠ 0 then headEntries acl.mode else []) ++ (listed acl wt).map img := by
    simp only [items, List.map_append, List.map_map]
    congr 1
    · split <;> simp [headItems, headEntries]
  have hall : ∀ x ∈ items, Parses wide want x.1 x.2 := by
    intro x hx'
    simp only [items, List.mem_append, List.mem_map] at hx'
    rcases hx' with hx' | ⟨e, he, rfl⟩
    · split at hx'
      · rename_i ha
        rw [hacc ha]
        simp only [headItems, List.mem_cons, List.not_mem_nil, or_false] at hx'
        rcases hx' with h | h | h <;> rw [h]
        · exact head_parses wide fl acl.mode 0o700 tagUserObj (Or.inl rfl) hx
        · exact head_parses wide fl acl.mode 0o070 tagGroupObj (Or.inr (Or.inl rfl)) hx
        · exact head_parses wide fl acl.mode 0o007 tagOther (Or.inr (Or.inr rfl)) hx
      · simp at hx'
    · exact hitems e he
  have := parse_texts wide want (sepChar fl) hs items hall o
  rw [h1, h2] at this
  exact this


theorem hasFlag_or (a b bit : Nat) (h : hasFlag a bit = true) : hasFlag (a ||| b) bit = true := by
  unfold hasFlag at *
  simp only [ne_eq, decide_eq_true_eq] at *
  rw [Nat.and_or_distrib_right]
  intro h0
  exact h (Nat.or_eq_zero_iff.mp h0).1

theorem listed_mem {acl : Acl} {wt : Nat} {e : Entry} (h : e ∈ listed acl wt) :
    e ∈ acl.entries ∧ e.type &&& wt ≠ 0 := by
  have hm := (List.mem_filter.mp h)
  refine ⟨hm.1, ?_⟩
  intro h0
  have := hm.2
  simp [skipped, h0] at this

/-- The round trip of a whole ACL, on the model. -/
theorem roundtrip (wide : Bool) (acl : Acl) (flags : Nat) (hwf : WF acl)
    (hq : ∀ e ∈ acl.entries, QualOK e) (hx : hasFlag flags styleExtraId = true)
    (t : List Ch) (ht : toText wide acl flags = .text t) :
    ∃ n, fromText wide {} t (parseWant acl flags) =
      .ok { acl := rtAcl acl flags, status := .ok, skipped := 0, added := n } := by
  -- what `toText` did
  unfold toText at ht
  generalize hwt : textWantType acl flags = wt at ht
  have hwt0 : wt ≠ 0 := by intro h; simp [h] at ht
  simp only [hwt0, if_false] at ht
  generalize hfl : textFlags wt flags = fl at ht
  split at ht
  · cases ht
  split at ht
  · cases ht
  simp only [TextResult.text.injEq] at ht
  subst ht
  have hfx : hasFlag fl styleExtraId = true := by
    rw [← hfl]; unfold textFlags; split
    · exact hasFlag_or _ _ _ hx
    · exact hx
  -- the family decides the wanted type
  have hcases := textWantType_cases acl flags
  rw [hwt] at hcases
  have hfamily : (wt = typeNfs4 ∧ ∀ e ∈ acl.entries, IsNfs4 e.type) ∨
      ((wt = typeAccess ∨ wt = typeDefault ∨ wt = typePosix1e) ∧ ∀ e ∈ acl.entries, IsPosix e.type) := by
    by_cases hall : ∀ e ∈ acl.entries, IsPosix e.type
    · right
      have hz : acl.types &&& typeNfs4 = 0 := by
        rw [hwf.types]; exact orTypes_zero _ _ (fun e he => (posix_bits (hall e he)).2)
      refine ⟨?_, hall⟩
      have : textWantType acl flags ≠ typeNfs4 := by
        unfold textWantType
        simp only [hz, ne_eq, not_true_eq_false, if_false]
        cases hasFlag flags typeAccess <;> cases hasFlag flags typeDefault <;> simp <;> decide
      rw [hwt] at this
      rcases hcases with h | h | h | h | h
      · exact (hwt0 h).elim
      · exact (this h).elim
      · exact Or.inl h
      · exact Or.inr (Or.inl h)
      · exact Or.inr (Or.inr h)
    · left
      have hall4 : ∀ e ∈ acl.entries, IsNfs4 e.type := by
        rcases hwf.family with h | h
        · exact (hall h).elim
        · exact h
      obtain ⟨e0, he0, _⟩ : ∃ e0, e0 ∈ acl.entries ∧ ¬ IsPosix e0.type := by
        false_or_by_contra
        rename_i hcon
        apply hall
        intro e he
        exact Decidable.byContradiction (fun hne => hcon ⟨e, he, hne⟩)
      have hnz : acl.types &&& typeNfs4 ≠ 0 := by
        rw [hwf.types]; exact orTypes_ne_zero _ _ e0 he0 (nfs4_bits (hall4 e0 he0)).2
      have hpz : acl.types &&& typePosix1e = 0 := by
        rw [hwf.types]; exact orTypes_zero _ _ (fun e he => (nfs4_bits (hall4 e he)).1)
      refine ⟨?_, hall4⟩
      rw [← hwt]; unfold textWantType
      simp [hnz, hpz]
  -- the parser is entered with a type it accepts
  have hwant : parseWant acl flags = if wt = typeNfs4 then typeNfs4
      else if wt = typeDefault then typeDefault else typeAccess := by
    unfold parseWant; rw [hwt]
  generalize hw : parseWant acl flags = want at hwant
  have hwantok : want = typeAccess ∨ want = typeDefault ∨ want = typeNfs4 := by
    rw [hwant]; split
    · exact Or.inr (Or.inr rfl)
    · split
      · exact Or.inr (Or.inl rfl)
      · exact Or.inl rfl
  have hnp : want ≠ typePosix1e := by
    rcases hwantok with h | h | h <;> rw [h] <;> decide
  have hft : fromText wide {} (textBody wide acl wt fl) want =
      parseLoop wide want (textBody wide acl wt fl ++ endTail wide) { acl := {}, status := .ok } := by
    unfold fromText
    simp only [hnp, if_false, hwantok, if_true]
    cases wide <;> simp [endTail]
  rw [hft]
  -- every listed entry parses back
  have hitems : ∀ e ∈ listed acl wt, Parses wide want (entryText wide fl e) (img e) := by
    intro e he tl rest o hend
    obtain ⟨hmem, hl⟩ := listed_mem he
    have hwe := hwf.entries e hmem
    have hqe := hq e hmem
    rcases hfamily with ⟨hw4, hall4⟩ | ⟨hwp, hallp⟩
    · have : want = typeNfs4 := by rw [hwant, if_pos hw4]
      rw [this]
      exact nfs4_entry_parse wide fl e tl rest o hwe hqe (hall4 e hmem) hfx hend
    · have hp := hallp e hmem
      have hwn : wt ≠ typeNfs4 := by rcases hwp with h | h | h <;> rw [h] <;> decide
      have hwant' : want = if wt = typeDefault then typeDefault else typeAccess := by
        rw [hwant, if_neg hwn]
      refine posix_entry_parse wide fl want e tl rest o hwe hqe hp hfx ?_ ?_ hend
      · rw [hwant']; split
        · exact Or.inr rfl
        · exact Or.inl rfl
      · rcases hwp with h | h | h
        · -- ACCESS only: listed entries are ACCESS entries
          left
          have : want = typeAccess := by rw [hwant', h]; decide
          rw [this]
          rcases hp with hp | hp
          · exact hp
          · rw [hp, h] at hl; exfalso; revert hl; decide
        · left
          have : want = typeDefault := by rw [hwant', if_pos h]
          rw [this]
          rcases hp with hp | hp
          · rw [hp, h] at hl; exfalso; revert hl; decide
          · exact hp
        · have hwa : want = typeAccess := by rw [hwant', h]; decide
          rcases hp with hp | hp
          · left; rw [hwa]; exact hp
          · right
            refine ⟨hp, ?_⟩
            rw [← hfl]; unfold textFlags; rw [if_pos h]
            have : hasFlag styleMarkDefault styleMarkDefault = true := by decide
            rw [Nat.or_comm]; exact hasFlag_or _ _ _ this
  have hacc : wt &&& typeAccess ≠ 0 → want = typeAccess := by
    intro ha
    rcases hfamily with ⟨hw4, _⟩ | ⟨hwp, _⟩
    · rw [hw4] at ha; exfalso; revert ha; decide
    · rcases hwp with h | h | h
      · rw [hwant, h]; decide
      · rw [h] at ha; exfalso; revert ha; decide
      · rw [hwant, h]; decide
  rw [textBody_parse wide acl wt fl want _ hfx hacc hitems]
  -- the sequence of adds rebuilds the ACL
  have hlw : ∀ e ∈ listed acl wt, EntryWF e := fun e he => hwf.entries e (listed_mem he).1
  have hpw : (listed acl wt).Pairwise (fun a b => ¬ DupKey a b) := hwf.nodup.filter _
  obtain ⟨m, hm⟩ : ∃ m, ∀ e ∈ listed acl wt, familyMask e = m ∧ e.type &&& m = e.type := by
    rcases hfamily with ⟨_, hall4⟩ | ⟨_, hallp⟩
    · refine ⟨typeNfs4, fun e he => ?_⟩
      have h4 := hall4 e (listed_mem he).1
      have hnp' : ¬ IsPosix e.type := by
        intro hp
        rcases hp with h | h <;> rcases h4 with h' | h' | h' | h' <;> rw [h] at h' <;> revert h' <;> decide
      refine ⟨by simp [familyMask, hnp'], ?_⟩
      rcases h4 with h | h | h | h <;> rw [h] <;> decide
    · refine ⟨typePosix1e, fun e he => ?_⟩
      have hp := hallp e (listed_mem he).1
      refine ⟨by simp [familyMask, hp], ?_⟩
      rcases hp with h | h <;> rw [h] <;> decide
  refine ⟨(if wt &&& typeAccess ≠ 0 then 3 else 0) + (listed acl wt).length, ?_⟩
  congr 1
  by_cases ha : wt &&& typeAccess ≠ 0
  · rw [if_pos ha, addLoop_heads_append _ _ _ rfl]
    rw [addLoop_listed (listed acl wt) _ m hlw hm (by simp) (by simp) hpw]
    simp [rtAcl, hwt, ha]
  · rw [if_neg ha, List.nil_append]
    rw [addLoop_listed (listed acl wt) _ m hlw hm (by simp) (by simp) hpw]
    simp [rtAcl, hwt, ha]

/-! ### `archive_acl_add_entry` keeps an ACL well-formed -/

theorem overwrite_spec (ty pm tag : Nat) (id : Int) (nm : List Ch) (l : List Entry) :
    (overwrite ty pm tag id nm l = none ∧
      ∀ x ∈ l, ¬ (ty &&& typeNfs4 = 0 ∧ x.type = ty ∧ x.tag = tag ∧ x.id = id ∧
        (id ≠ -1 ∨ (tag ≠ tagUser ∧ tag ≠ tagGroup)))) ∨
    (∃ pre x post, l = pre ++ x :: post ∧
      (ty &&& typeNfs4 = 0 ∧ x.type = ty ∧ x.tag = tag ∧ x.id = id) ∧
      overwrite ty pm tag id nm l = some (pre ++ { x with permset := pm, name := nm } :: post)) := by
  induction l with
  | nil => left; exact ⟨rfl, by simp⟩
  | cons a t ih =>
    by_cases hc : ty &&& typeNfs4 = 0 ∧ a.type = ty ∧ a.tag = tag ∧ a.id = id ∧
        (id ≠ -1 ∨ (tag ≠ tagUser ∧ tag ≠ tagGroup))
    · right
      exact ⟨[], a, t, rfl, ⟨hc.1, hc.2.1, hc.2.2.1, hc.2.2.2.1⟩, by simp [overwrite, hc]⟩
    · rcases ih with ⟨hn, hall⟩ | ⟨pre, x, post, hl, hx, hs⟩
      · left
        refine ⟨by simp [overwrite, hc, hn], ?_⟩
        intro y hy
        rcases List.mem_cons.mp hy with h | h
        · rw [h]; exact hc
        · exact hall y h
      · right
        exact ⟨a :: pre, x, post, by simp [hl], hx, by simp [overwrite, hc, hs]⟩

theorem and_seven_lt (p : Nat) (h : p &&& 7 = p) : p < 8 := by
  have : p &&& 7 ≤ 7 := Nat.and_le_right
  omega

theorem orTypes_append (l : List Entry) (e : Entry) (t : Nat) :
    orTypes (l ++ [e]) t = orTypes l t ||| e.type := by
  simp [orTypes, List.foldl_append]


theorem aclSpecial_some (acl a' : Acl) (ty pm tg : Nat) (h : aclSpecial acl ty pm tg = some a') :
    a'.entries = acl.entries ∧ a'.types = acl.types ∧
    ty = typeAccess ∧ pm &&& 7 = pm ∧ (tg = tagUserObj ∨ tg = tagGroupObj ∨ tg = tagOther) := by
  unfold aclSpecial within at h
  split at h
  · rename_i hc
    have hc2 : pm &&& 7 = pm := by simpa using hc.2
    split at h
    · cases h; exact ⟨rfl, rfl, hc.1, hc2, Or.inl (by assumption)⟩
    · split at h
      · cases h; exact ⟨rfl, rfl, hc.1, hc2, Or.inr (Or.inl (by assumption))⟩
      · split at h
        · cases h; exact ⟨rfl, rfl, hc.1, hc2, Or.inr (Or.inr (by assumption))⟩
        · cases h
  · cases h

theorem aclSpecial_none (acl : Acl) (ty pm tg : Nat) (h : aclSpecial acl ty pm tg = none)
    (hpm : pm &&& 7 = pm) : ¬ (ty = typeAccess ∧ (tg = tagUserObj ∨ tg = tagGroupObj ∨ tg = tagOther)) := by
  intro ⟨hty, htg⟩
  unfold aclSpecial within at h
  simp only [hty, hpm, decide_true, and_self, if_true] at h
  rcases htg with h1 | h1 | h1 <;> simp [h1, tagc] at h

theorem WF_of_same (acl a' : Acl) (hwf : WF acl) (he : a'.entries = acl.entries)
    (ht : a'.types = acl.types) : WF a' :=
  ⟨by rw [he]; exact hwf.entries, by rw [he]; exact hwf.family, by rw [he, ht]; exact hwf.types,
   by rw [he]; exact hwf.nodup⟩


/-- What `acl_new_entry`'s checks establish about a new entry of one of the six types. -/
theorem newEntryValid_spec (acl : Acl) (ty pm tg : Nat)
    (hv : newEntryValid acl ty pm tg = true) :
    (IsPosix ty ∨ IsNfs4 ty) ∧
    (IsUG tg ∨ tg = tagUserObj ∨ tg = tagGroupObj ∨
      (IsPosix ty ∧ (tg = tagMask ∨ tg = tagOther)) ∨ (IsNfs4 ty ∧ tg = tagEveryone)) ∧
    (if IsPosix ty then pm < 8 else pm &&& (permsNfs4 ||| inheritanceNfs4) = pm) ∧
    acl.types &&& (if IsPosix ty then typePosix1e else typeNfs4) = acl.types := by
  have hexcl : IsPosix ty → IsNfs4 ty → False := by
    intro h1 h2
    rcases h1 with h | h <;> rcases h2 with h' | h' | h' | h' <;> rw [h] at h' <;> revert h' <;> decide
  unfold newEntryValid within at hv
  simp only [Bool.and_eq_true, decide_eq_true_eq] at hv
  obtain ⟨hsix, hfam, htag⟩ := hv
  have hty : IsPosix ty ∨ IsNfs4 ty := by
    rcases hsix with h | h | h | h | h | h
    · exact Or.inl (Or.inl h)
    · exact Or.inl (Or.inr h)
    · exact Or.inr (Or.inl h)
    · exact Or.inr (Or.inr (Or.inl h))
    · exact Or.inr (Or.inr (Or.inr (Or.inl h)))
    · exact Or.inr (Or.inr (Or.inr (Or.inr h)))
  refine ⟨hty, ?_⟩
  rcases hty with hp | hn
  · have hb := posix_bits hp
    simp only [hb.2, ne_eq, not_true_eq_false, if_false, hb.1, not_false_eq_true, if_true,
      decide_eq_true_eq] at hfam
    have htag' : IsUG tg ∨ tg = tagUserObj ∨ tg = tagGroupObj ∨
        (IsPosix ty ∧ (tg = tagMask ∨ tg = tagOther)) ∨ (IsNfs4 ty ∧ tg = tagEveryone) := by
      by_cases h1 : tg = tagUser ∨ tg = tagUserObj ∨ tg = tagGroup ∨ tg = tagGroupObj
      · rcases h1 with h | h | h | h
        · exact Or.inl (Or.inl h)
        · exact Or.inr (Or.inl h)
        · exact Or.inl (Or.inr h)
        · exact Or.inr (Or.inr (Or.inl h))
      · simp only [h1, if_false] at htag
        by_cases h2 : tg = tagMask ∨ tg = tagOther
        · exact Or.inr (Or.inr (Or.inr (Or.inl ⟨hp, h2⟩)))
        · simp only [h2, if_false] at htag
          by_cases h3 : tg = tagEveryone
          · simp only [h3, if_true, decide_eq_true_eq] at htag
            exfalso
            rcases hp with h | h <;> rw [h] at htag <;> revert htag <;> decide
          · simp [h3] at htag
    refine ⟨htag', ?_, ?_⟩
    · rw [if_pos hp]
      have h7 : permsPosix1e = 7 := by decide
      have h2 := hfam.2
      rw [h7] at h2
      exact and_seven_lt pm h2
    · rw [if_pos hp]; exact hfam.1
  · have hb := nfs4_bits hn
    have hnp : ¬ IsPosix ty := fun hp => hexcl hp hn
    simp only [hb.2, ne_eq, not_false_eq_true, if_true, decide_eq_true_eq] at hfam
    have htag' : IsUG tg ∨ tg = tagUserObj ∨ tg = tagGroupObj ∨
        (IsPosix ty ∧ (tg = tagMask ∨ tg = tagOther)) ∨ (IsNfs4 ty ∧ tg = tagEveryone) := by
      by_cases h1 : tg = tagUser ∨ tg = tagUserObj ∨ tg = tagGroup ∨ tg = tagGroupObj
      · rcases h1 with h | h | h | h
        · exact Or.inl (Or.inl h)
        · exact Or.inr (Or.inl h)
        · exact Or.inl (Or.inr h)
        · exact Or.inr (Or.inr (Or.inl h))
      · simp only [h1, if_false] at htag
        by_cases h2 : tg = tagMask ∨ tg = tagOther
        · simp only [h2, if_true, decide_eq_true_eq] at htag
          exfalso
          rcases hn with h | h | h | h <;> rw [h] at htag <;> revert htag <;> decide
        · simp only [h2, if_false] at htag
          by_cases h3 : tg = tagEveryone
          · exact Or.inr (Or.inr (Or.inr (Or.inr ⟨hn, h3⟩)))
          · simp [h3] at htag
    refine ⟨htag', ?_, ?_⟩
    · rw [if_neg hnp]; exact hfam.2
    · rw [if_neg hnp]; exact hfam.1


theorem family_of_types (acl : Acl) (hwf : WF acl) (m : Nat) (hm : acl.types &&& m = acl.types)
    (e : Entry) (he : e ∈ acl.entries) : e.type &&& m = e.type := by
  have ht := hwf.types
  -- every entry type is part of the OR
  have key : ∀ (l : List Entry) (t : Nat), e ∈ l → orTypes l t &&& e.type = e.type := by
    intro l
    induction l with
    | nil => intro t h; simp at h
    | cons a r ih =>
      intro t h
      simp only [orTypes, List.foldl_cons] at ih ⊢
      rcases List.mem_cons.mp h with h1 | h1
      · have := orTypes_and r (t ||| a.type) e.type
        simp only [orTypes] at this
        rw [this, h1, Nat.and_or_distrib_right, Nat.and_self]
        apply Nat.eq_of_testBit_eq; intro i
        simp only [Nat.testBit_or, Nat.testBit_and]
        cases a.type.testBit i <;> simp
      · exact ih _ h1
  have h1 := key acl.entries 0 he
  rw [← ht] at h1
  -- e.type ⊆ types ⊆ m
  calc e.type &&& m = (acl.types &&& e.type) &&& m := by rw [h1]
    _ = (acl.types &&& m) &&& e.type := by rw [Nat.and_assoc, Nat.and_comm e.type m, ← Nat.and_assoc]
    _ = e.type := by rw [hm, h1]

/-- `archive_acl_add_entry` with a C `int` id keeps an ACL well-formed, whatever its other
arguments are (`acl_new_entry` refuses what does not fit). -/
theorem addEntry_WF (acl : Acl) (hwf : WF acl) (ty pm tg : Nat) (id : Int) (nm : List Ch)
    (hid : -2147483648 ≤ id ∧ id ≤ 2147483647) :
    WF (addEntry acl ty pm tg id nm).1 := by
  have hexcl : ∀ t, IsPosix t → IsNfs4 t → False := by
    intro t h1 h2
    rcases h1 with h | h <;> rcases h2 with h' | h' | h' | h' <;> rw [h] at h' <;> revert h' <;> decide
  unfold addEntry
  cases hsp : aclSpecial acl ty pm tg with
  | some a' =>
    obtain ⟨he, ht, _⟩ := aclSpecial_some acl a' ty pm tg hsp
    exact WF_of_same acl a' hwf he ht
  | none =>
    simp only []
    by_cases hv : newEntryValid acl ty pm tg = true
    · simp only [hv, if_true]
      obtain ⟨hty, htag, hperm, hfam⟩ := newEntryValid_spec acl ty pm tg hv
      rcases overwrite_spec ty pm tg id nm acl.entries with ⟨hn, hall⟩ | ⟨pre, x, post, hl, hx, hs⟩
      · -- a new entry at the end of the list
        simp only [hn]
        have hnew : EntryWF ⟨ty, tg, pm, id, nm⟩ := by
          refine ⟨hty, htag, hperm, hid, ?_⟩
          intro ⟨hacc, htg3⟩
          have hp : IsPosix ty := Or.inl hacc
          rw [if_pos hp] at hperm
          exact aclSpecial_none acl ty pm tg hsp (small_and_seven ⟨pm, hperm⟩) ⟨hacc, htg3⟩
        refine ⟨?_, ?_, ?_, ?_⟩
        · intro e he
          simp only [List.mem_append, List.mem_cons, List.not_mem_nil, or_false] at he
          rcases he with he | he
          · exact hwf.entries e he
          · rw [he]; exact hnew
        · -- one family: the stored types lie inside the new entry's family mask
          rcases hty with hp | hn4
          · left
            rw [if_pos hp] at hfam
            intro e he
            simp only [List.mem_append, List.mem_cons, List.not_mem_nil, or_false] at he
            rcases he with he | he
            · have := family_of_types acl hwf _ hfam e he
              rcases (hwf.entries e he).type_ok with h | h
              · exact h
              · exfalso
                rcases h with h | h | h | h <;> rw [h] at this <;> revert this <;> decide
            · rw [he]; exact hp
          · right
            have hnp : ¬ IsPosix ty := fun hp => hexcl ty hp hn4
            rw [if_neg hnp] at hfam
            intro e he
            simp only [List.mem_append, List.mem_cons, List.not_mem_nil, or_false] at he
            rcases he with he | he
            · have := family_of_types acl hwf _ hfam e he
              rcases (hwf.entries e he).type_ok with h | h
              · exfalso
                rcases h with h | h <;> rw [h] at this <;> revert this <;> decide
              · exact h
            · rw [he]; exact hn4
        · show acl.types ||| ty = orTypes (acl.entries ++ [⟨ty, tg, pm, id, nm⟩]) 0
          rw [orTypes_append, hwf.types]
        · rw [List.pairwise_append]
          refine ⟨hwf.nodup, by simp, ?_⟩
          intro a ha b hb
          simp only [List.mem_cons, List.not_mem_nil, or_false] at hb
          rw [hb]
          exact hall a ha
      · -- an existing entry gets the new permset and name
        simp only [hs]
        have hp : IsPosix ty := by
          rcases hty with h | h
          · exact h
          · exact absurd hx.1 (nfs4_bits h).2
        rw [if_pos hp] at hperm
        have hxmem : x ∈ acl.entries := by rw [hl]; simp
        have hxwf := hwf.entries x hxmem
        have hx' : EntryWF { x with permset := pm, name := nm } := by
          refine ⟨hxwf.type_ok, hxwf.tag_ok, ?_, hxwf.id_range, hxwf.not_mode⟩
          show (if IsPosix x.type then pm < 8 else _)
          rw [hx.2.1, if_pos hp]; exact hperm
        refine ⟨?_, ?_, ?_, ?_⟩
        · intro e he
          simp only [List.mem_append, List.mem_cons] at he
          rcases he with he | he | he
          · exact hwf.entries e (by rw [hl]; simp [he])
          · rw [he]; exact hx'
          · exact hwf.entries e (by rw [hl]; simp [he])
        · have hmap : ∀ e ∈ pre ++ { x with permset := pm, name := nm } :: post,
              ∃ e' ∈ acl.entries, e'.type = e.type := by
            intro e he
            simp only [List.mem_append, List.mem_cons] at he
            rcases he with he | he | he
            · exact ⟨e, by rw [hl]; simp [he], rfl⟩
            · exact ⟨x, hxmem, by rw [he]⟩
            · exact ⟨e, by rw [hl]; simp [he], rfl⟩
          rcases hwf.family with h | h
          · left; intro e he; obtain ⟨e', he', ht'⟩ := hmap e he; rw [← ht']; exact h e' he'
          · right; intro e he; obtain ⟨e', he', ht'⟩ := hmap e he; rw [← ht']; exact h e' he'
        · show acl.types = orTypes (pre ++ { x with permset := pm, name := nm } :: post) 0
          rw [hwf.types, hl]
          simp [orTypes, List.foldl_append]
        · have hnd := hwf.nodup
          rw [hl] at hnd
          rw [List.pairwise_append] at hnd ⊢
          obtain ⟨h1, h2, h3⟩ := hnd
          rw [List.pairwise_cons] at h2 ⊢
          refine ⟨h1, ⟨fun b hb => h2.1 b hb, h2.2⟩, ?_⟩
          intro a ha b hb
          rcases List.mem_cons.mp hb with hb | hb
          · rw [hb]; exact h3 a ha x (by simp)
          · exact h3 a ha b (by simp [hb])
    · simp only [hv, if_false]
      exact hwf

theorem WF_empty : WF {} := ⟨by simp, Or.inl (by simp), rfl, by simp⟩

/-! ### A name with `#`: the witness against the full-strength round trip -/

theorem digits_small (n : Nat) (h : n ≤ 9) : digits n = [48 + n] := by
  rw [digits]; simp [Nat.not_lt.mpr h]

theorem idLenLoop_small (n : Nat) (h : n ≤ 9) : idLenLoop n = 1 := by
  rw [idLenLoop]; simp [Nat.not_lt.mpr h]

/-- The witness: one NFSv4 entry `user:a#b` with id 5 and no permission bits. -/
def hashAcl : Acl :=
  { mode := 0, entries := [⟨typeAllow, tagUser, 0, 5, str "a#b"⟩], types := typeAllow }

theorem hashAcl_text : toText false hashAcl 17 = .text (str "user:a#b:::allow:5") := by
  have h5 : digits 5 = [53] := digits_small 5 (by decide)
  have hl : idLenLoop 5 = 1 := idLenLoop_small 5 (by decide)
  have hw : textWantType hashAcl 17 = typeNfs4 := by decide
  have hlisted : listed hashAcl typeNfs4 = hashAcl.entries := by decide
  have hid : appendId 5 = [53] := by simp [appendId, h5]
  have hentry : entryText false 17 ⟨typeAllow, tagUser, 0, 5, str "a#b"⟩ = str "user:a#b:::allow:5" := by
    rw [entryText_extra _ _ _ (by decide), appendEntry_nfs4 _ _ _ _ _ _ _ _ (Or.inl rfl),
      qualPart_ug _ _ _ _ _ (Or.inl rfl)]
    have hne : (str "a#b" ≠ []) = True := by decide
    have h51 : ((5 : Int) ≠ -1) = True := by decide
    simp only [hne, if_true, h51, hid]
    decide
  have hbody : textBody false hashAcl typeNfs4 17 = str "user:a#b:::allow:5" := by
    unfold textBody
    rw [hlisted]
    have : (typeNfs4 &&& typeAccess ≠ 0) = False := by decide
    simp only [this, if_false, List.nil_append, hashAcl, List.map_cons, List.map_nil, hentry]
    decide
  have hlen : textLen hashAcl typeNfs4 17 = 40 := by
    unfold textLen
    rw [hlisted]
    simp only [hashAcl, List.map_cons, List.map_nil, entryTextLen, idLen]
    have : (5 : Int).toNat = 5 := rfl
    simp only [this, hl]
    decide
  unfold toText
  have hf : textFlags typeNfs4 17 = 17 := by decide
  simp only [hw, hf, hlen, hbody]
  decide


/-- The same ACL with a name the text form can carry. -/
def goodAcl : Acl :=
  { mode := 0, entries := [⟨typeAllow, tagUser, 0, 5, str "a-b"⟩], types := typeAllow }

theorem goodAcl_text : toText false goodAcl 17 = .text (str "user:a-b:::allow:5") := by
  have h5 : digits 5 = [53] := digits_small 5 (by decide)
  have hl : idLenLoop 5 = 1 := idLenLoop_small 5 (by decide)
  have hw : textWantType goodAcl 17 = typeNfs4 := by decide
  have hlisted : listed goodAcl typeNfs4 = goodAcl.entries := by decide
  have hid : appendId 5 = [53] := by simp [appendId, h5]
  have hentry : entryText false 17 ⟨typeAllow, tagUser, 0, 5, str "a-b"⟩ = str "user:a-b:::allow:5" := by
    rw [entryText_extra _ _ _ (by decide), appendEntry_nfs4 _ _ _ _ _ _ _ _ (Or.inl rfl),
      qualPart_ug _ _ _ _ _ (Or.inl rfl)]
    have hne : (str "a-b" ≠ []) = True := by decide
    have h51 : ((5 : Int) ≠ -1) = True := by decide
    simp only [hne, if_true, h51, hid]
    decide
  have hbody : textBody false goodAcl typeNfs4 17 = str "user:a-b:::allow:5" := by
    unfold textBody
    rw [hlisted]
    have : (typeNfs4 &&& typeAccess ≠ 0) = False := by decide
    simp only [this, if_false, List.nil_append, goodAcl, List.map_cons, List.map_nil, hentry]
    decide
  have hlen : textLen goodAcl typeNfs4 17 = 40 := by
    unfold textLen
    rw [hlisted]
    simp only [goodAcl, List.map_cons, List.map_nil, entryTextLen, idLen]
    have : (5 : Int).toNat = 5 := rfl
    simp only [this, hl]
    decide
  unfold toText
  have hf : textFlags typeNfs4 17 = 17 := by decide
  simp only [hw, hf, hlen, hbody]
  decide



theorem hashAcl_parse :
    fromText false {} (str "user:a#b:::allow:5") typeNfs4 =
      .ok { acl := {}, status := .warn, skipped := 1, added := 0 } := by
  have htext : str "user:a#b:::allow:5" = 117 :: str "ser:a#b:::allow:5" := by decide
  have hn1 : nextFieldN (str "user:a#b:::allow:5") =
      { field := ⟨str "user:a#b:::allow:5", 4⟩, sep := 58, rest := str "a#b:::allow:5" } := by rfl
  have hn2 : nextFieldN (str "a#b:::allow:5") =
      { field := ⟨str "a#b:::allow:5", 1⟩, sep := 0, rest := [] } := by rfl
  have hsplit : splitEntry false (str "user:a#b:::allow:5") =
      .ok ([⟨str "user:a#b:::allow:5", 4⟩, ⟨str "a#b:::allow:5", 1⟩], []) := by
    rw [splitEntry_eq]
    simp only [nextField, Bool.false_eq_true, if_false, hn1, if_true]
    rw [splitEntry_eq]
    simp only [nextField, Bool.false_eq_true, if_false, hn2]
    have : ¬ ((0 : Nat) = 58) := by decide
    simp only [this, if_false]
  have hpf : parseFields false [⟨str "user:a#b:::allow:5", 4⟩, ⟨str "a#b:::allow:5", 1⟩] typeNfs4 =
      .ok .skip := by rfl
  unfold fromText
  have hw : (if typeNfs4 = typePosix1e then typeAccess else typeNfs4) = typeNfs4 := by decide
  simp only [hw, or_true, if_true, Bool.false_eq_true, if_false]
  conv => lhs; rw [htext, parseLoop_cons]
  have h0 : ¬ ((117 : Nat) = 0) := by decide
  simp only [h0, if_false, ← htext, hsplit, loopStep, hpf, parseLoop_nil, Bool.false_eq_true]

end LA.Acl
