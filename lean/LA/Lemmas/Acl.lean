/-
Helper definitions and lemmas for property C15 (model `LA.Acl`).
-/
import LA.Model.Acl
set_option linter.unusedSimpArgs false
set_option linter.unusedVariables false
namespace LA.Acl
open LA.Gen.AclMaps

/-! ### Well-formed ACLs (what `archive_acl_add_entry` can build) -/

def IsPosix (ty : Nat) : Prop := ty = typeAccess ∨ ty = typeDefault
def IsNfs4 (ty : Nat) : Prop := ty = typeAllow ∨ ty = typeDeny ∨ ty = typeAudit ∨ ty = typeAlarm
def IsUG (tag : Nat) : Prop := tag = tagUser ∨ tag = tagGroup

instance (ty : Nat) : Decidable (IsPosix ty) := by unfold IsPosix; infer_instance
instance (ty : Nat) : Decidable (IsNfs4 ty) := by unfold IsNfs4; infer_instance
instance (tag : Nat) : Decidable (IsUG tag) := by unfold IsUG; infer_instance

/-- One stored entry as `acl_new_entry` admits it, with a type that is one of
the six ACL types (not an OR of several) and a C `int` id. -/
structure EntryWF (e : Entry) : Prop where
  type_ok : IsPosix e.type ∨ IsNfs4 e.type
  tag_ok : IsUG e.tag ∨ e.tag = tagUserObj ∨ e.tag = tagGroupObj ∨
    (IsPosix e.type ∧ (e.tag = tagMask ∨ e.tag = tagOther)) ∨ (IsNfs4 e.type ∧ e.tag = tagEveryone)
  perm_ok : if IsPosix e.type then e.permset < 8
            else e.permset &&& (permsNfs4 ||| inheritanceNfs4) = e.permset
  id_range : -2147483648 ≤ e.id ∧ e.id ≤ 2147483647
  /-- ACCESS entries for user_obj / group_obj / other live in `mode`, never in the list -/
  not_mode : ¬ (e.type = typeAccess ∧ (e.tag = tagUserObj ∨ e.tag = tagGroupObj ∨ e.tag = tagOther))

/-! ### Lengths -/

theorem str_length (s : String) : (str s).length = s.length := by simp [str, String.length_toList]

theorem mapChars_cons (a : Nat × Nat) (t : List (Nat × Nat)) (p : Nat) (c : Bool) :
    mapChars (a :: t) p c =
      (if p &&& a.1 ≠ 0 then [a.2] else if c then [] else [45]) ++ mapChars t p c := by
  simp [mapChars]

theorem mapChars_length_le (m : List (Nat × Nat)) (p : Nat) (c : Bool) :
    (mapChars m p c).length ≤ m.length := by
  induction m with
  | nil => simp [mapChars]
  | cons a t ih =>
    rw [mapChars_cons, List.length_append, List.length_cons]
    split
    · simp only [List.length_cons, List.length_nil]; omega
    · split <;> simp only [List.length_cons, List.length_nil] <;> omega

theorem digits_length (n : Nat) : (digits n).length = idLenLoop n := by
  induction n using Nat.strongRecOn with
  | _ n ih =>
    rw [digits, idLenLoop]
    split
    · rename_i h
      simp [ih (n / 10) (by omega)]
    · simp

theorem idLenLoop_lt_pow (k n : Nat) (h : n < 10 ^ (k + 1)) : idLenLoop n ≤ k + 1 := by
  induction k generalizing n with
  | zero => rw [idLenLoop]; split <;> omega
  | succ k ih =>
    rw [idLenLoop]; split
    · have : n / 10 < 10 ^ (k + 1) := by
        rw [Nat.div_lt_iff_lt_mul (by decide)]; rw [Nat.pow_succ] at h; exact h
      have := ih (n / 10) this; omega
    · omega

theorem idLenLoop_le (n : Nat) (h : n ≤ 2147483647) : idLenLoop n ≤ 10 :=
  idLenLoop_lt_pow 9 n (by omega)

theorem appendId_length (id : Int) : (appendId id).length = idLen id := by
  simp [appendId, idLen, digits_length]

theorem idLen_le (id : Int) (h : id ≤ 2147483647) : idLen id ≤ 10 := by
  unfold idLen; apply idLenLoop_le; omega

theorem idLen_pos (id : Int) : 1 ≤ idLen id := by
  unfold idLen; rw [idLenLoop]; split <;> omega

theorem idLen_neg (id : Int) (h : id ≤ 9) : idLen id = 1 := by
  unfold idLen; rw [idLenLoop]; split <;> omega

/-! ### `archive_acl_text_len` is sufficient -/

/-- The tag constants, for `simp` to tell them apart. -/
theorem tagc : tagUser = 10001 ∧ tagUserObj = 10002 ∧ tagGroup = 10003 ∧ tagGroupObj = 10004 ∧
    tagMask = 10005 ∧ tagOther = 10006 ∧ tagEveryone = 10107 := by decide

theorem strl : (str "user").length = 4 ∧ (str "group").length = 5 ∧ (str "mask").length = 4 ∧
    (str "other").length = 5 ∧ (str "owner@").length = 6 ∧ (str "group@").length = 6 ∧
    (str "everyone@").length = 9 ∧ (str "default:").length = 8 ∧ (str "allow").length = 5 ∧
    (str "deny").length = 4 ∧ (str "audit").length = 5 ∧ (str "alarm").length = 5 := by decide

theorem posix_bits {ty : Nat} (h : IsPosix ty) : ty &&& typePosix1e ≠ 0 ∧ ty &&& typeNfs4 = 0 := by
  rcases h with h | h <;> subst h <;> decide

theorem nfs4_bits {ty : Nat} (h : IsNfs4 ty) : ty &&& typePosix1e = 0 ∧ ty &&& typeNfs4 ≠ 0 := by
  rcases h with h | h | h | h <;> subst h <;> decide

theorem tagWord_length (nfs4 : Bool) (tag : Nat) :
    (tagWord nfs4 tag).length =
      (if tag = tagUserObj then (if nfs4 then 6 else 4)
       else if tag = tagUser ∨ tag = tagMask then 4
       else if tag = tagGroupObj then (if nfs4 then 6 else 5)
       else if tag = tagGroup ∨ tag = tagOther then 5
       else if tag = tagEveryone then 9 else 0) := by
  unfold tagWord
  by_cases h1 : tag = tagUserObj
  · subst h1; cases nfs4 <;> simp [strl, tagc]
  by_cases h2 : tag = tagUser
  · subst h2; simp [strl, tagc]
  by_cases h3 : tag = tagGroupObj
  · subst h3; cases nfs4 <;> simp [strl, tagc]
  by_cases h4 : tag = tagGroup
  · subst h4; simp [strl, tagc]
  by_cases h5 : tag = tagMask
  · subst h5; simp [strl, tagc]
  by_cases h6 : tag = tagOther
  · subst h6; simp [strl, tagc]
  by_cases h7 : tag = tagEveryone
  · subst h7; simp [strl, tagc]
  simp [h1, h2, h3, h4, h5, h6, h7]


theorem typec : typeAccess = 256 ∧ typeDefault = 512 ∧ typeAllow = 1024 ∧ typeDeny = 2048 ∧
    typeAudit = 4096 ∧ typeAlarm = 8192 ∧ typePosix1e = 768 ∧ typeNfs4 = 15360 := by decide

theorem maps_length : permMap.length = 14 ∧ permMapW.length = 14 ∧ flagMap.length = 7 ∧
    flagMapW.length = 7 := by decide

theorem permPart_length_posix (wide : Bool) (ty flags perm : Nat) (h : IsPosix ty) :
    (permPart wide ty flags perm).length = 3 := by
  simp [permPart, (posix_bits h).1]

theorem permPart_length_nfs4 (wide : Bool) (ty flags perm : Nat) (h : IsNfs4 ty) :
    (permPart wide ty flags perm).length ≤ 27 + (if ty &&& typeDeny = 0 then 1 else 0) := by
  have h1 := mapChars_length_le (if wide then permMapW else permMap) perm (hasFlag flags styleCompact)
  have h2 := mapChars_length_le (if wide then flagMapW else flagMap) perm (hasFlag flags styleCompact)
  have l1 : (if wide then permMapW else permMap).length = 14 := by cases wide <;> simp [maps_length]
  have l2 : (if wide then flagMapW else flagMap).length = 7 := by cases wide <;> simp [maps_length]
  simp only [permPart, (nfs4_bits h).1, ne_eq, not_true_eq_false, if_false, List.length_append,
    List.length_cons, List.length_nil]
  rcases h with h | h | h | h <;> subst h <;> simp [typec, strl] <;> omega


theorem stylec : styleExtraId = 1 ∧ styleMarkDefault = 2 ∧ styleSolaris = 4 ∧
    styleSeparatorComma = 8 ∧ styleCompact = 16 := by decide

/-- Length of what `append_entry` writes for a user/group entry. -/
theorem qualPart_ug (ty tag flags : Nat) (name : List Ch) (id : Int) (hug : IsUG tag) :
    qualPart ty tag flags name id =
      if name ≠ [] then (name ++ [58], id)
      else (appendId id ++ [58], if ty &&& typeNfs4 = 0 then -1 else id) := by
  rcases hug with h | h <;> subst h <;> simp [qualPart, dropsQual, tagc]

theorem qualPart_other_posix (ty tag flags : Nat) (name : List Ch) (id : Int) (hp : IsPosix ty)
    (ht : tag = tagUserObj ∨ tag = tagGroupObj ∨ tag = tagMask ∨ tag = tagOther) :
    qualPart ty tag flags name id =
      (if ¬ hasFlag flags styleSolaris ∨ (tag ≠ tagOther ∧ tag ≠ tagMask) then [58] else [], -1) := by
  have := (posix_bits hp).1
  rcases ht with h | h | h | h <;> subst h <;> simp [qualPart, dropsQual, tagc, this]

theorem qualPart_other_nfs4 (ty tag flags : Nat) (name : List Ch) (id : Int) (hp : IsNfs4 ty)
    (ht : tag = tagUserObj ∨ tag = tagGroupObj ∨ tag = tagEveryone) :
    qualPart ty tag flags name id = ([], -1) := by
  have := (nfs4_bits hp).1
  rcases ht with h | h | h <;> subst h <;> simp [qualPart, dropsQual, tagc, this]

theorem appendEntry_length_eq (wide pfx : Bool) (ty tag flags : Nat) (name : List Ch) (perm : Nat)
    (id : Int) :
    (appendEntry wide pfx ty tag flags name perm id).length =
      (if pfx then 8 else 0) + (tagWord (ty &&& typeNfs4 ≠ 0) tag).length + 1 +
      (qualPart ty tag flags name id).1.length + (permPart wide ty flags perm).length +
      (if (qualPart ty tag flags name id).2 ≠ -1 then 1 + idLen (qualPart ty tag flags name id).2 else 0) := by
  simp only [appendEntry, List.length_append, List.length_cons, List.length_nil]
  by_cases hq : (qualPart ty tag flags name id).2 = -1 <;> cases pfx <;>
    simp [hq, strl, appendId_length] <;> omega

theorem appendEntry_length (wide pfx : Bool) (e : Entry) (wantType flags : Nat) (id : Int)
    (he : EntryWF e)
    (hfam : (wantType = typeNfs4 ∧ IsNfs4 e.type) ∨
            ((wantType = typeAccess ∨ wantType = typeDefault ∨ wantType = typePosix1e) ∧ IsPosix e.type))
    (hl : e.type &&& wantType ≠ 0)
    (hid : id = e.id ∨ id = -1)
    (hpfx : pfx = true → e.type = typeDefault) :
    (appendEntry wide pfx e.type e.tag flags e.name e.permset id).length + 1 ≤
      entryTextLen e wantType flags := by
  have hidle : idLen id ≤ idLen e.id := by
    rcases hid with h | h
    · rw [h]; exact Nat.le_refl _
    · rw [h, idLen_neg (-1) (by omega)]; exact idLen_pos _
  have hid10 : idLen id ≤ 10 := by
    apply idLen_le; have := he.id_range.2; rcases hid with h | h <;> omega
  have hm1 : idLen (-1) = 1 := idLen_neg (-1) (by omega)
  have hexcl : ∀ ty, IsPosix ty → IsNfs4 ty → False := by
    intro ty h1 h2
    rcases h1 with h | h <;> rcases h2 with h' | h' | h' | h' <;> rw [h] at h' <;> revert h' <;> decide
  rw [appendEntry_length_eq, tagWord_length]
  unfold entryTextLen uidTextLen
  rcases hfam with ⟨hw, hn⟩ | ⟨hw, hp⟩
  · -- NFSv4
    have hb := nfs4_bits hn
    have hpf : pfx = false := by
      cases pfx with
      | false => rfl
      | true => exact (hexcl _ (Or.inr (hpfx rfl)) hn).elim
    have hperm := permPart_length_nfs4 wide e.type flags e.permset hn
    have hd : ¬ (wantType &&& typeDefault ≠ 0 ∧ e.type &&& typeDefault ≠ 0) := by
      subst hw; intro h; exact h.1 (by decide)
    have hnp : typeNfs4 &&& typePosix1e = 0 := by decide
    subst hw hpf
    simp only [hd, if_false, hb.2, ne_eq, not_false_eq_true, decide_true, if_true, not_true_eq_false,
      Bool.false_eq_true, hnp]
    rcases he.tag_ok with hug | ht | ht | ⟨hp', _⟩ | ⟨_, ht⟩
    · rw [qualPart_ug _ _ _ _ _ hug]
      have hugd : e.tag = tagUser ∨ e.tag = tagGroup := hug
      simp only [hugd, if_true, hb.2, if_false]
      by_cases hne : e.name = []
      · simp only [hne, ne_eq, not_true_eq_false, if_false, List.length_append, appendId_length,
          List.length_cons, List.length_nil]
        by_cases hi : id = -1
        · rcases hug with h | h <;> simp [h, tagc, hi] <;> omega
        · rcases hug with h | h <;> simp [h, tagc, hi] <;> omega
      · simp only [hne, ne_eq, not_false_eq_true, if_true, List.length_append,
          List.length_cons, List.length_nil]
        by_cases hi : id = -1
        · rcases hug with h | h <;> simp [h, tagc, hi] <;> omega
        · rcases hug with h | h <;> simp [h, tagc, hi] <;> omega
    · rw [qualPart_other_nfs4 _ _ _ _ _ hn (Or.inl ht)]
      simp [ht, tagc]; omega
    · rw [qualPart_other_nfs4 _ _ _ _ _ hn (Or.inr (Or.inl ht))]
      simp [ht, tagc]; omega
    · exact (hexcl _ hp' hn).elim
    · rw [qualPart_other_nfs4 _ _ _ _ _ hn (Or.inr (Or.inr ht))]
      simp [ht, tagc]; omega
  · -- POSIX.1e
    have hb := posix_bits hp
    have hperm := permPart_length_posix wide e.type flags e.permset hp
    have hwn : wantType ≠ typeNfs4 := by
      rcases hw with h | h | h <;> rw [h] <;> decide
    have hwp : wantType &&& typePosix1e ≠ 0 := by
      rcases hw with h | h | h <;> rw [h] <;> decide
    have hpfx8 : (if pfx = true then 8 else 0) ≤
        (if wantType &&& typeDefault ≠ 0 ∧ e.type &&& typeDefault ≠ 0 then 8 else 0) := by
      cases pfx with
      | false => simp
      | true =>
        have ht := hpfx rfl
        rw [ht] at hl ⊢
        have : wantType &&& typeDefault ≠ 0 := by
          rcases hw with h | h | h <;> rw [h] at hl ⊢ <;> revert hl <;> decide
        simp [this]; decide
    simp only [hwn, if_false, hb.2, ne_eq, not_true_eq_false, decide_false, hperm, hwp,
      not_false_eq_true, true_and, if_true, decide_true] at hpfx8 ⊢
    rcases he.tag_ok with hug | ht | ht | ⟨_, ht⟩ | ⟨hn', _⟩
    · rw [qualPart_ug _ _ _ _ _ hug]
      have hugd : e.tag = tagUser ∨ e.tag = tagGroup := hug
      simp only [hugd, if_true, hb.2, if_false]
      by_cases hne : e.name = []
      · simp only [hne, ne_eq, not_true_eq_false, if_false, List.length_append, appendId_length,
          List.length_cons, List.length_nil]
        rcases hug with h | h <;> simp [h, tagc] <;> omega
      · simp only [hne, ne_eq, not_false_eq_true, if_true, List.length_append,
          List.length_cons, List.length_nil]
        by_cases hi : id = -1
        · rcases hug with h | h <;> simp [h, tagc, hi] <;> omega
        · rcases hug with h | h <;> simp [h, tagc, hi] <;> omega
    · rw [qualPart_other_posix _ _ _ _ _ hp (Or.inl ht)]
      simp [ht, tagc]; omega
    · rw [qualPart_other_posix _ _ _ _ _ hp (Or.inr (Or.inl ht))]
      simp [ht, tagc]; omega
    · rcases ht with ht | ht
      · rw [qualPart_other_posix _ _ _ _ _ hp (Or.inr (Or.inr (Or.inl ht)))]
        by_cases hs : hasFlag flags styleSolaris = true <;> simp [ht, tagc, hs] <;> omega
      · rw [qualPart_other_posix _ _ _ _ _ hp (Or.inr (Or.inr (Or.inr ht)))]
        by_cases hs : hasFlag flags styleSolaris = true <;> simp [ht, tagc, hs] <;> omega
    · exact (hexcl _ hp hn').elim


theorem intercalate_length (s : Ch) (l : List (List Ch)) (h : l ≠ []) :
    ([s].intercalate l).length + 1 = (l.map (·.length + 1)).sum := by
  induction l with
  | nil => exact (h rfl).elim
  | cons a t ih =>
    cases t with
    | nil => simp [List.intercalate]
    | cons b t' =>
      have := ih (by simp)
      simp only [List.intercalate, List.intersperse_cons_cons, List.flatten_cons, List.length_append,
        List.length_cons, List.length_nil, List.map_cons, List.sum_cons] at this ⊢
      omega

/-- The family of a listed entry follows from the wanted type. -/
theorem listed_family (e : Entry) (wantType : Nat) (he : EntryWF e)
    (hw : wantType = typeNfs4 ∨ wantType = typeAccess ∨ wantType = typeDefault ∨ wantType = typePosix1e)
    (hl : e.type &&& wantType ≠ 0) :
    (wantType = typeNfs4 ∧ IsNfs4 e.type) ∨
    ((wantType = typeAccess ∨ wantType = typeDefault ∨ wantType = typePosix1e) ∧ IsPosix e.type) := by
  rcases hw with hw | hw | hw | hw <;> subst hw <;>
    rcases he.type_ok with (h | h) | (h | h | h | h) <;> rw [h] at hl ⊢ <;>
    first
      | (exfalso; revert hl; decide)
      | (left; refine ⟨rfl, ?_⟩; unfold IsNfs4; decide)
      | (right; refine ⟨?_, ?_⟩ <;> first | decide | (unfold IsPosix; decide))


theorem textWantType_cases (acl : Acl) (flags : Nat) :
    textWantType acl flags = 0 ∨ textWantType acl flags = typeNfs4 ∨
    textWantType acl flags = typeAccess ∨ textWantType acl flags = typeDefault ∨
    textWantType acl flags = typePosix1e := by
  unfold textWantType
  split
  · split <;> simp
  · cases hasFlag flags typeAccess <;> cases hasFlag flags typeDefault <;> simp <;> decide

theorem head_lengths (wide : Bool) (flags p : Nat) :
    (appendEntry wide false typeAccess tagUserObj flags [] p (-1)).length = 9 ∧
    (appendEntry wide false typeAccess tagGroupObj flags [] p (-1)).length = 10 ∧
    (appendEntry wide false typeAccess tagOther flags [] p (-1)).length =
      if hasFlag flags styleSolaris then 9 else 10 := by
  have hp : IsPosix typeAccess := Or.inl rfl
  have hb : decide (typeAccess &&& typeNfs4 ≠ 0) = false := by decide
  refine ⟨?_, ?_, ?_⟩
  · rw [appendEntry_length_eq, tagWord_length, qualPart_other_posix _ _ _ _ _ hp (Or.inl rfl),
      permPart_length_posix _ _ _ _ hp]
    simp [hb, tagc]
  · rw [appendEntry_length_eq, tagWord_length,
      qualPart_other_posix _ _ _ _ _ hp (Or.inr (Or.inl rfl)), permPart_length_posix _ _ _ _ hp]
    simp [hb, tagc]
  · rw [appendEntry_length_eq, tagWord_length,
      qualPart_other_posix _ _ _ _ _ hp (Or.inr (Or.inr (Or.inr rfl))), permPart_length_posix _ _ _ _ hp]
    by_cases hs : hasFlag flags styleSolaris = true <;> simp [hb, tagc, hs]

theorem sum_map_le {α : Type} (l : List α) (f g : α → Nat) (h : ∀ a ∈ l, f a ≤ g a) :
    (l.map f).sum ≤ (l.map g).sum := by
  induction l with
  | nil => simp
  | cons a t ih =>
    have := h a (by simp)
    have := ih (fun x hx => h x (by simp [hx]))
    simp only [List.map_cons, List.sum_cons]; omega

theorem entryText_length (wide : Bool) (e : Entry) (wantType flags : Nat)
    (hw : wantType = typeNfs4 ∨ wantType = typeAccess ∨ wantType = typeDefault ∨ wantType = typePosix1e)
    (he : EntryWF e) (hl : e.type &&& wantType ≠ 0) :
    (entryText wide flags e).length + 1 ≤ entryTextLen e wantType flags := by
  unfold entryText
  apply appendEntry_length wide _ e wantType flags _ he (listed_family e wantType he hw hl) hl
  · cases wide
    · by_cases hc : (e.name = [] ∨ hasFlag flags styleExtraId = true) <;> simp [hc]
    · by_cases hc : hasFlag flags styleExtraId = true <;> simp [hc]
  · intro h; simp at h; exact h.1

theorem textBody_length (wide : Bool) (acl : Acl) (wantType flags : Nat)
    (hw : wantType = typeNfs4 ∨ wantType = typeAccess ∨ wantType = typeDefault ∨ wantType = typePosix1e)
    (hwf : ∀ e ∈ acl.entries, EntryWF e) (hne : textLen acl wantType flags ≠ 0) :
    (textBody wide acl wantType flags).length + 1 ≤ textLen acl wantType flags := by
  have hbody : ∀ e ∈ listed acl wantType,
      (entryText wide flags e).length + 1 ≤ entryTextLen e wantType flags := by
    intro e he
    have hmem := (List.mem_filter.mp he).1
    have hns := (List.mem_filter.mp he).2
    have hl : e.type &&& wantType ≠ 0 := by
      intro h0; simp [skipped, h0] at hns
    exact entryText_length wide e wantType flags hw (hwf e hmem) hl
  have hsum := sum_map_le _ _ _ hbody
  have hh := head_lengths wide flags
  unfold textBody textLen at *
  by_cases hacc : wantType &&& typeAccess ≠ 0
  · rw [if_pos hacc] at hne ⊢
    rw [if_pos hacc]
    have := intercalate_length (sepChar flags)
      (headTexts wide acl.mode flags ++ (listed acl wantType).map (entryText wide flags))
      (by simp [headTexts])
    rw [this]
    simp only [headTexts, List.map_append, List.map_cons, List.map_nil, List.sum_append, List.sum_cons,
      List.sum_nil, List.map_map, (hh _).1, (hh _).2.1, (hh _).2.2]
    simp only [Function.comp_def] at hsum ⊢
    split <;> omega
  · rw [if_neg hacc] at hne ⊢
    rw [if_neg hacc, List.nil_append]
    by_cases hz : (listed acl wantType).length = 0
    · simp [hz] at hne
    · rw [if_neg hz] at hne ⊢
      have := intercalate_length (sepChar flags) ((listed acl wantType).map (entryText wide flags))
        (by intro h; apply hz; simpa using congrArg List.length h)
      rw [this]
      simp only [List.map_map, Function.comp_def] at hsum ⊢
      exact hsum

/-- The "Buffer overrun" abort of `archive_acl_to_text_l` / `_w`, and the write
past the allocation that would precede it, cannot happen. -/
theorem toText_no_overrun (wide : Bool) (acl : Acl) (flags : Nat)
    (hwf : ∀ e ∈ acl.entries, EntryWF e) (t : List Ch) : toText wide acl flags ≠ .overrun t := by
  unfold toText
  rcases textWantType_cases acl flags with h | h
  · simp [h]
  · have h0 : textWantType acl flags ≠ 0 := by
      rcases h with h | h | h | h <;> rw [h] <;> decide
    simp only [h0, if_false]
    split
    · simp
    · rename_i hne
      have := textBody_length wide acl (textWantType acl flags)
        (textFlags (textWantType acl flags) flags) h hwf hne
      split
      · omega
      · simp

end LA.Acl
