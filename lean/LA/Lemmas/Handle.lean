/-
Helper lemmas for the handle life-cycle model (property C07).
Table facts are proved by evaluating the generated table (`decide`): they are
re-checked whenever tools/lib/extract.py rewrites LA/Gen/ApiStates.lean.
-/
import LA.Model.Handle
set_option linter.unusedSimpArgs false
set_option linter.unusedVariables false
namespace LA.Handle
open LA.Gen.ApiStates

/-! ### `checked` -/

theorem checked_none {h : Handle} {f : String} {body : Handle → Handle × Rc}
    (hs : siteOf h.kind f = none) : checked h f body = (h, .nosite) := by
  simp [checked, hs]

theorem checked_pass {h : Handle} {f : String} {body : Handle → Handle × Rc} {s : Site}
    (hs : siteOf h.kind f = some s) (ha : allowed h.st s.mask = true) : checked h f body = body h := by
  simp [checked, hs, ha]

theorem checked_refused {h : Handle} {f : String} {body : Handle → Handle × Rc} {s : Site}
    (hs : siteOf h.kind f = some s) (ha : allowed h.st s.mask = false) :
    checked h f body = ({ h with st := .fatal }, .fatal) := by
  simp [checked, hs, ha]

theorem siteOf_mem {k : Kind} {f : String} {s : Site} (hs : siteOf k f = some s) :
    s ∈ sites ∧ s.func = f ∧ s.kind = k := by
  unfold siteOf at hs
  have h1 := List.mem_of_find?_eq_some hs
  have h2 := List.find?_some hs
  simp at h2
  exact ⟨h1, h2.2, h2.1⟩

/-- The functions whose mask contains the FATAL bit, computed from the table. -/
def acceptFatal : List String :=
  ((sites.filter fun s => allowed .fatal s.mask).map (·.func)).eraseDups

theorem site_accepts_fatal {k : Kind} {f : String} {s : Site} (hs : siteOf k f = some s)
    (ha : allowed .fatal s.mask = true) : f ∈ acceptFatal := by
  obtain ⟨hm, hf, _⟩ := siteOf_mem hs
  unfold acceptFatal
  rw [List.mem_eraseDups]
  simp only [List.mem_map, List.mem_filter]
  exact ⟨s, ⟨hm, ha⟩, hf⟩

theorem fatal_eta (h : Handle) (hst : h.st = .fatal) : { h with st := St.fatal } = h := by
  cases h; simp_all

/-- A call on a failed handle whose entry check is not one of the FATAL-accepting
functions is refused and changes nothing (or the function has no site at all). -/
theorem checked_fatal {h : Handle} {f : String} {body : Handle → Handle × Rc}
    (hst : h.st = .fatal) (hf : f ∉ acceptFatal) :
    checked h f body = (h, .fatal) ∨ checked h f body = (h, .nosite) := by
  cases hs : siteOf h.kind f with
  | none => right; exact checked_none hs
  | some s =>
    left
    have ha : allowed h.st s.mask = false := by
      cases hb : allowed h.st s.mask with
      | false => rfl
      | true => rw [hst] at hb; exact absurd (site_accepts_fatal hs hb) hf
    rw [checked_refused hs ha, fatal_eta h hst]

/-! ### filter lists -/

theorem openCount_map_closeF (l : List FSt) : openCount (l.map closeF) = 0 := by
  induction l with
  | nil => rfl
  | cons a t ih => cases a <;> simp [closeF, openCount, ih]

theorem getLast?_map_closeF (l : List FSt) : ((l.map closeF).getLast? == some FSt.opened) = false := by
  rw [List.getLast?_map]
  cases l.getLast? with
  | none => rfl
  | some a => cases a <;> simp [closeF]

theorem map_closeF_idem (l : List FSt) : (l.map closeF).map closeF = l.map closeF := by
  induction l with
  | nil => rfl
  | cons a t ih => cases a <;> simp_all [closeF]

theorem openCount_append (a b : List FSt) : openCount (a ++ b) = openCount a + openCount b := by
  induction a with
  | nil => simp [openCount]
  | cons x t ih => cases x <;> simp [openCount, ih] <;> omega

theorem getLast?_replicate_opened (n : Nat) :
    ((List.replicate (n + 1) FSt.opened).getLast? == some FSt.opened) = true := by
  simp [List.getLast?_replicate]

/-! ### frame lemmas: what the release helpers leave alone -/

macro "frame" ds:ident* : tactic => `(tactic| (simp only [$[$ds:ident],*] <;> ((repeat' split) <;> rfl)))

@[simp] theorem relFd_kind (h : Handle) : (relFd h).kind = h.kind := by frame relFd
@[simp] theorem relFd_st (h : Handle) : (relFd h).st = h.st := by frame relFd
@[simp] theorem relFd_alive (h : Handle) : (relFd h).alive = h.alive := by frame relFd
@[simp] theorem relFd_regs (h : Handle) : (relFd h).regs = h.regs := by frame relFd
@[simp] theorem relFd_hasReader (h : Handle) : (relFd h).hasReader = h.hasReader := by frame relFd
@[simp] theorem relFd_filters (h : Handle) : (relFd h).filters = h.filters := by frame relFd
@[simp] theorem relFd_client (h : Handle) : (relFd h).client = h.client := by frame relFd
@[simp] theorem relFd_ent (h : Handle) : (relFd h).ent = h.ent := by frame relFd
@[simp] theorem relFd_fixups (h : Handle) : (relFd h).fixups = h.fixups := by frame relFd
@[simp] theorem relFd_tree (h : Handle) : (relFd h).tree = h.tree := by frame relFd
@[simp] theorem relFd_topen (h : Handle) : (relFd h).topen = h.topen := by frame relFd
@[simp] theorem relFd_bad (h : Handle) : (relFd h).bad = h.bad := by frame relFd
@[simp] theorem relFd_lost (h : Handle) : (relFd h).lost = h.lost := by frame relFd
@[simp] theorem relEnt_kind (h : Handle) : (relEnt h).kind = h.kind := by frame relEnt
@[simp] theorem relEnt_st (h : Handle) : (relEnt h).st = h.st := by frame relEnt
@[simp] theorem relEnt_alive (h : Handle) : (relEnt h).alive = h.alive := by frame relEnt
@[simp] theorem relEnt_regs (h : Handle) : (relEnt h).regs = h.regs := by frame relEnt
@[simp] theorem relEnt_hasReader (h : Handle) : (relEnt h).hasReader = h.hasReader := by frame relEnt
@[simp] theorem relEnt_filters (h : Handle) : (relEnt h).filters = h.filters := by frame relEnt
@[simp] theorem relEnt_client (h : Handle) : (relEnt h).client = h.client := by frame relEnt
@[simp] theorem relEnt_fd (h : Handle) : (relEnt h).fd = h.fd := by frame relEnt
@[simp] theorem relEnt_fixups (h : Handle) : (relEnt h).fixups = h.fixups := by frame relEnt
@[simp] theorem relEnt_tree (h : Handle) : (relEnt h).tree = h.tree := by frame relEnt
@[simp] theorem relEnt_topen (h : Handle) : (relEnt h).topen = h.topen := by frame relEnt
@[simp] theorem relEnt_bad (h : Handle) : (relEnt h).bad = h.bad := by frame relEnt
@[simp] theorem relEnt_lost (h : Handle) : (relEnt h).lost = h.lost := by frame relEnt
@[simp] theorem relRegs_kind (h : Handle) : (relRegs h).kind = h.kind := by frame relRegs
@[simp] theorem relRegs_st (h : Handle) : (relRegs h).st = h.st := by frame relRegs
@[simp] theorem relRegs_alive (h : Handle) : (relRegs h).alive = h.alive := by frame relRegs
@[simp] theorem relRegs_hasReader (h : Handle) : (relRegs h).hasReader = h.hasReader := by frame relRegs
@[simp] theorem relRegs_filters (h : Handle) : (relRegs h).filters = h.filters := by frame relRegs
@[simp] theorem relRegs_client (h : Handle) : (relRegs h).client = h.client := by frame relRegs
@[simp] theorem relRegs_ent (h : Handle) : (relRegs h).ent = h.ent := by frame relRegs
@[simp] theorem relRegs_fd (h : Handle) : (relRegs h).fd = h.fd := by frame relRegs
@[simp] theorem relRegs_fixups (h : Handle) : (relRegs h).fixups = h.fixups := by frame relRegs
@[simp] theorem relRegs_tree (h : Handle) : (relRegs h).tree = h.tree := by frame relRegs
@[simp] theorem relRegs_topen (h : Handle) : (relRegs h).topen = h.topen := by frame relRegs
@[simp] theorem relRegs_bad (h : Handle) : (relRegs h).bad = h.bad := by frame relRegs
@[simp] theorem relRegs_lost (h : Handle) : (relRegs h).lost = h.lost := by frame relRegs
@[simp] theorem relFixups_kind (h : Handle) : (relFixups h).kind = h.kind := by frame relFixups
@[simp] theorem relFixups_st (h : Handle) : (relFixups h).st = h.st := by frame relFixups
@[simp] theorem relFixups_alive (h : Handle) : (relFixups h).alive = h.alive := by frame relFixups
@[simp] theorem relFixups_regs (h : Handle) : (relFixups h).regs = h.regs := by frame relFixups
@[simp] theorem relFixups_hasReader (h : Handle) : (relFixups h).hasReader = h.hasReader := by frame relFixups
@[simp] theorem relFixups_filters (h : Handle) : (relFixups h).filters = h.filters := by frame relFixups
@[simp] theorem relFixups_client (h : Handle) : (relFixups h).client = h.client := by frame relFixups
@[simp] theorem relFixups_ent (h : Handle) : (relFixups h).ent = h.ent := by frame relFixups
@[simp] theorem relFixups_fd (h : Handle) : (relFixups h).fd = h.fd := by frame relFixups
@[simp] theorem relFixups_tree (h : Handle) : (relFixups h).tree = h.tree := by frame relFixups
@[simp] theorem relFixups_topen (h : Handle) : (relFixups h).topen = h.topen := by frame relFixups
@[simp] theorem relFixups_bad (h : Handle) : (relFixups h).bad = h.bad := by frame relFixups
@[simp] theorem relFixups_lost (h : Handle) : (relFixups h).lost = h.lost := by frame relFixups
@[simp] theorem callCloser_kind (h : Handle) : (callCloser h).kind = h.kind := by frame callCloser
@[simp] theorem callCloser_st (h : Handle) : (callCloser h).st = h.st := by frame callCloser
@[simp] theorem callCloser_alive (h : Handle) : (callCloser h).alive = h.alive := by frame callCloser
@[simp] theorem callCloser_regs (h : Handle) : (callCloser h).regs = h.regs := by frame callCloser
@[simp] theorem callCloser_hasReader (h : Handle) : (callCloser h).hasReader = h.hasReader := by frame callCloser
@[simp] theorem callCloser_filters (h : Handle) : (callCloser h).filters = h.filters := by frame callCloser
@[simp] theorem callCloser_ent (h : Handle) : (callCloser h).ent = h.ent := by frame callCloser
@[simp] theorem callCloser_fd (h : Handle) : (callCloser h).fd = h.fd := by frame callCloser
@[simp] theorem callCloser_fixups (h : Handle) : (callCloser h).fixups = h.fixups := by frame callCloser
@[simp] theorem callCloser_tree (h : Handle) : (callCloser h).tree = h.tree := by frame callCloser
@[simp] theorem callCloser_topen (h : Handle) : (callCloser h).topen = h.topen := by frame callCloser
@[simp] theorem callCloser_lost (h : Handle) : (callCloser h).lost = h.lost := by frame callCloser
@[simp] theorem relHandle_kind (h : Handle) : (relHandle h).kind = h.kind := by frame relHandle
@[simp] theorem relHandle_st (h : Handle) : (relHandle h).st = h.st := by frame relHandle
@[simp] theorem relHandle_regs (h : Handle) : (relHandle h).regs = h.regs := by frame relHandle
@[simp] theorem relHandle_hasReader (h : Handle) : (relHandle h).hasReader = h.hasReader := by frame relHandle
@[simp] theorem relHandle_filters (h : Handle) : (relHandle h).filters = h.filters := by frame relHandle
@[simp] theorem relHandle_client (h : Handle) : (relHandle h).client = h.client := by frame relHandle
@[simp] theorem relHandle_ent (h : Handle) : (relHandle h).ent = h.ent := by frame relHandle
@[simp] theorem relHandle_fd (h : Handle) : (relHandle h).fd = h.fd := by frame relHandle
@[simp] theorem relHandle_fixups (h : Handle) : (relHandle h).fixups = h.fixups := by frame relHandle
@[simp] theorem relHandle_tree (h : Handle) : (relHandle h).tree = h.tree := by frame relHandle
@[simp] theorem relHandle_topen (h : Handle) : (relHandle h).topen = h.topen := by frame relHandle
@[simp] theorem relHandle_lost (h : Handle) : (relHandle h).lost = h.lost := by frame relHandle
@[simp] theorem rCloseFilters_kind (h : Handle) : (rCloseFilters h).kind = h.kind := by frame rCloseFilters callCloser
@[simp] theorem rCloseFilters_st (h : Handle) : (rCloseFilters h).st = h.st := by frame rCloseFilters callCloser
@[simp] theorem rCloseFilters_alive (h : Handle) : (rCloseFilters h).alive = h.alive := by frame rCloseFilters callCloser
@[simp] theorem rCloseFilters_regs (h : Handle) : (rCloseFilters h).regs = h.regs := by frame rCloseFilters callCloser
@[simp] theorem rCloseFilters_hasReader (h : Handle) : (rCloseFilters h).hasReader = h.hasReader := by frame rCloseFilters callCloser
@[simp] theorem rCloseFilters_ent (h : Handle) : (rCloseFilters h).ent = h.ent := by frame rCloseFilters callCloser
@[simp] theorem rCloseFilters_fd (h : Handle) : (rCloseFilters h).fd = h.fd := by frame rCloseFilters callCloser
@[simp] theorem rCloseFilters_fixups (h : Handle) : (rCloseFilters h).fixups = h.fixups := by frame rCloseFilters callCloser
@[simp] theorem rCloseFilters_tree (h : Handle) : (rCloseFilters h).tree = h.tree := by frame rCloseFilters callCloser
@[simp] theorem rCloseFilters_topen (h : Handle) : (rCloseFilters h).topen = h.topen := by frame rCloseFilters callCloser
@[simp] theorem rCloseFilters_lost (h : Handle) : (rCloseFilters h).lost = h.lost := by frame rCloseFilters callCloser
@[simp] theorem rFreeFilters_kind (h : Handle) : (rFreeFilters h).kind = h.kind := by frame rFreeFilters rCloseFilters callCloser
@[simp] theorem rFreeFilters_st (h : Handle) : (rFreeFilters h).st = h.st := by frame rFreeFilters rCloseFilters callCloser
@[simp] theorem rFreeFilters_alive (h : Handle) : (rFreeFilters h).alive = h.alive := by frame rFreeFilters rCloseFilters callCloser
@[simp] theorem rFreeFilters_regs (h : Handle) : (rFreeFilters h).regs = h.regs := by frame rFreeFilters rCloseFilters callCloser
@[simp] theorem rFreeFilters_hasReader (h : Handle) : (rFreeFilters h).hasReader = h.hasReader := by frame rFreeFilters rCloseFilters callCloser
@[simp] theorem rFreeFilters_ent (h : Handle) : (rFreeFilters h).ent = h.ent := by frame rFreeFilters rCloseFilters callCloser
@[simp] theorem rFreeFilters_fd (h : Handle) : (rFreeFilters h).fd = h.fd := by frame rFreeFilters rCloseFilters callCloser
@[simp] theorem rFreeFilters_fixups (h : Handle) : (rFreeFilters h).fixups = h.fixups := by frame rFreeFilters rCloseFilters callCloser
@[simp] theorem rFreeFilters_tree (h : Handle) : (rFreeFilters h).tree = h.tree := by frame rFreeFilters rCloseFilters callCloser
@[simp] theorem rFreeFilters_topen (h : Handle) : (rFreeFilters h).topen = h.topen := by frame rFreeFilters rCloseFilters callCloser
@[simp] theorem wCloseFilters_kind (h : Handle) : (wCloseFilters h).kind = h.kind := by frame wCloseFilters
@[simp] theorem wCloseFilters_st (h : Handle) : (wCloseFilters h).st = h.st := by frame wCloseFilters
@[simp] theorem wCloseFilters_alive (h : Handle) : (wCloseFilters h).alive = h.alive := by frame wCloseFilters
@[simp] theorem wCloseFilters_regs (h : Handle) : (wCloseFilters h).regs = h.regs := by frame wCloseFilters
@[simp] theorem wCloseFilters_hasReader (h : Handle) : (wCloseFilters h).hasReader = h.hasReader := by frame wCloseFilters
@[simp] theorem wCloseFilters_client (h : Handle) : (wCloseFilters h).client = h.client := by frame wCloseFilters
@[simp] theorem wCloseFilters_ent (h : Handle) : (wCloseFilters h).ent = h.ent := by frame wCloseFilters
@[simp] theorem wCloseFilters_fd (h : Handle) : (wCloseFilters h).fd = h.fd := by frame wCloseFilters
@[simp] theorem wCloseFilters_fixups (h : Handle) : (wCloseFilters h).fixups = h.fixups := by frame wCloseFilters
@[simp] theorem wCloseFilters_tree (h : Handle) : (wCloseFilters h).tree = h.tree := by frame wCloseFilters
@[simp] theorem wCloseFilters_topen (h : Handle) : (wCloseFilters h).topen = h.topen := by frame wCloseFilters
@[simp] theorem wCloseFilters_bad (h : Handle) : (wCloseFilters h).bad = h.bad := by frame wCloseFilters
@[simp] theorem wCloseFilters_lost (h : Handle) : (wCloseFilters h).lost = h.lost := by frame wCloseFilters
@[simp] theorem wFreeFilters_kind (h : Handle) : (wFreeFilters h).kind = h.kind := by frame wFreeFilters
@[simp] theorem wFreeFilters_st (h : Handle) : (wFreeFilters h).st = h.st := by frame wFreeFilters
@[simp] theorem wFreeFilters_alive (h : Handle) : (wFreeFilters h).alive = h.alive := by frame wFreeFilters
@[simp] theorem wFreeFilters_regs (h : Handle) : (wFreeFilters h).regs = h.regs := by frame wFreeFilters
@[simp] theorem wFreeFilters_hasReader (h : Handle) : (wFreeFilters h).hasReader = h.hasReader := by frame wFreeFilters
@[simp] theorem wFreeFilters_ent (h : Handle) : (wFreeFilters h).ent = h.ent := by frame wFreeFilters
@[simp] theorem wFreeFilters_fd (h : Handle) : (wFreeFilters h).fd = h.fd := by frame wFreeFilters
@[simp] theorem wFreeFilters_fixups (h : Handle) : (wFreeFilters h).fixups = h.fixups := by frame wFreeFilters
@[simp] theorem wFreeFilters_tree (h : Handle) : (wFreeFilters h).tree = h.tree := by frame wFreeFilters
@[simp] theorem wFreeFilters_topen (h : Handle) : (wFreeFilters h).topen = h.topen := by frame wFreeFilters
@[simp] theorem wFreeFilters_bad (h : Handle) : (wFreeFilters h).bad = h.bad := by frame wFreeFilters
@[simp] theorem kCloseTree_kind (h : Handle) : (kCloseTree h).kind = h.kind := by frame kCloseTree
@[simp] theorem kCloseTree_st (h : Handle) : (kCloseTree h).st = h.st := by frame kCloseTree
@[simp] theorem kCloseTree_alive (h : Handle) : (kCloseTree h).alive = h.alive := by frame kCloseTree
@[simp] theorem kCloseTree_regs (h : Handle) : (kCloseTree h).regs = h.regs := by frame kCloseTree
@[simp] theorem kCloseTree_hasReader (h : Handle) : (kCloseTree h).hasReader = h.hasReader := by frame kCloseTree
@[simp] theorem kCloseTree_filters (h : Handle) : (kCloseTree h).filters = h.filters := by frame kCloseTree
@[simp] theorem kCloseTree_client (h : Handle) : (kCloseTree h).client = h.client := by frame kCloseTree
@[simp] theorem kCloseTree_ent (h : Handle) : (kCloseTree h).ent = h.ent := by frame kCloseTree
@[simp] theorem kCloseTree_fd (h : Handle) : (kCloseTree h).fd = h.fd := by frame kCloseTree
@[simp] theorem kCloseTree_fixups (h : Handle) : (kCloseTree h).fixups = h.fixups := by frame kCloseTree
@[simp] theorem kCloseTree_tree (h : Handle) : (kCloseTree h).tree = h.tree := by frame kCloseTree
@[simp] theorem kCloseTree_bad (h : Handle) : (kCloseTree h).bad = h.bad := by frame kCloseTree
@[simp] theorem kCloseTree_lost (h : Handle) : (kCloseTree h).lost = h.lost := by frame kCloseTree

@[simp] theorem relFd_fd (h : Handle) : (relFd h).fd = false := by
  simp only [relFd]; split <;> simp_all
@[simp] theorem relEnt_ent (h : Handle) : (relEnt h).ent = false := by
  simp only [relEnt]; split <;> simp_all
@[simp] theorem relHandle_alive' (h : Handle) : (relHandle h).alive = false := by
  simp only [relHandle]; split <;> simp_all
@[simp] theorem relRegs_regs (h : Handle) : (relRegs h).regs = 0 := rfl
@[simp] theorem relFixups_fixups (h : Handle) : (relFixups h).fixups = 0 := rfl
@[simp] theorem wCloseFilters_filters (h : Handle) : (wCloseFilters h).filters = h.filters.map closeF := by
  frame wCloseFilters
@[simp] theorem rCloseFilters_filters (h : Handle) : (rCloseFilters h).filters = h.filters.map closeF := by
  frame rCloseFilters callCloser
@[simp] theorem rFreeFilters_filters (h : Handle) : (rFreeFilters h).filters = [] := rfl
@[simp] theorem wFreeFilters_filters (h : Handle) : (wFreeFilters h).filters = [] := by frame wFreeFilters

theorem wCloseFilters_fix (g : Handle) (h1 : (g.filters.getLast? == some FSt.opened) = false)
    (h2 : g.filters.map closeF = g.filters) : wCloseFilters g = g := by
  cases g; simp only [wCloseFilters] at *; simp [h1, h2]

theorem wCloseFilters_idem (h : Handle) : wCloseFilters (wCloseFilters h) = wCloseFilters h := by
  apply wCloseFilters_fix
  · rw [wCloseFilters_filters]; exact getLast?_map_closeF _
  · rw [wCloseFilters_filters]; exact map_closeF_idem _

theorem rCloseFilters_fix (g : Handle) (h1 : (g.filters.getLast? == some FSt.opened) = false)
    (h2 : g.filters.map closeF = g.filters) : rCloseFilters g = g := by
  cases g; simp only [rCloseFilters] at *; simp [h1, h2]

theorem rCloseFilters_idem (h : Handle) : rCloseFilters (rCloseFilters h) = rCloseFilters h := by
  apply rCloseFilters_fix
  · rw [rCloseFilters_filters]; exact getLast?_map_closeF _
  · rw [rCloseFilters_filters]; exact map_closeF_idem _

/-! ### the handle kind never changes -/

theorem checked_kind (h : Handle) (f : String) (body : Handle → Handle × Rc)
    (hb : ∀ g, (body g).1.kind = g.kind) : (checked h f body).1.kind = h.kind := by
  unfold checked; split
  · rfl
  · split
    · exact hb h
    · rfl

macro "kt" ds:ident* : tactic => `(tactic| (
  simp only [$[$ds:ident],*] <;> (try apply checked_kind) <;> (try intro g) <;> (repeat' split) <;>
    simp_all [relFd_kind, relEnt_kind, relRegs_kind, relFixups_kind, callCloser_kind, relHandle_kind,
      rCloseFilters_kind, rFreeFilters_kind, wCloseFilters_kind, wFreeFilters_kind, kCloseTree_kind]))

theorem rDataSkip_kind (h : Handle) (r : Rc) : (rDataSkip h r).1.kind = h.kind := by kt rDataSkip
theorem rOpen1Body_kind (o : Outcome) (h : Handle) : (rOpen1Body o h).1.kind = h.kind := by kt rOpen1Body rSetFilters
theorem rNextHeaderBody_kind (o : Outcome) (h : Handle) : (rNextHeaderBody o h).1.kind = h.kind := by
  simp only [rNextHeaderBody]; (repeat' split) <;> simp_all [rDataSkip_kind]
theorem rClose_kind (o : Outcome) (h : Handle) : (rClose o h).1.kind = h.kind := by kt rClose
theorem rFree_kind (o : Outcome) (h : Handle) : (rFree o h).1.kind = h.kind := by
  simp only [rFree]; apply checked_kind; intro g; simp; split <;> simp [rClose_kind]
theorem wFinishEntry_kind (h : Handle) (r : Rc) : (wFinishEntry h r).1.kind = h.kind := by kt wFinishEntry
theorem wOpenBody_kind (o : Outcome) (h : Handle) : (wOpenBody o h).1.kind = h.kind := by kt wOpenBody
theorem wHeaderBody_kind (o : Outcome) (h : Handle) : (wHeaderBody o h).1.kind = h.kind := by
  simp only [wHeaderBody]; (repeat' split) <;> simp_all [wFinishEntry_kind]
theorem wClose_kind (o : Outcome) (h : Handle) : (wClose o h).1.kind = h.kind := by kt wClose
theorem wFree_kind (o : Outcome) (h : Handle) : (wFree o h).1.kind = h.kind := by
  simp only [wFree]; apply checked_kind; intro g; simp; split <;> simp [wClose_kind]
theorem dFinishEntry_kind (o : Outcome) (h : Handle) : (dFinishEntry o h).1.kind = h.kind := by kt dFinishEntry
theorem dHeaderBody_kind (o : Outcome) (h : Handle) : (dHeaderBody o h).1.kind = h.kind := by
  simp only [dHeaderBody]; (repeat' split) <;> simp_all [dFinishEntry_kind]
theorem dClose_kind (o : Outcome) (h : Handle) : (dClose o h).1.kind = h.kind := by
  simp only [dClose]; apply checked_kind; intro g; simp; split <;> simp [dFinishEntry_kind]
theorem dFree_kind (o : Outcome) (h : Handle) : (dFree o h).1.kind = h.kind := by
  simp only [dFree]; apply checked_kind; intro g; simp [dClose_kind]
theorem kClose_kind (h : Handle) : (kClose h).1.kind = h.kind := by kt kClose
theorem kFree_kind (h : Handle) : (kFree h).1.kind = h.kind := by
  simp only [kFree]; apply checked_kind; intro g; simp; split <;> simp [kClose_kind]

theorem step_core (h : Handle) (op : Op) (o : Outcome) (halive : h.alive = true)
    (hb : op.belongs h.kind = true) : step h op o = stepCore h op o := by
  simp [step, halive, hb]

theorem step_kind (h : Handle) (op : Op) (o : Outcome) : (step h op o).1.kind = h.kind := by
  unfold step
  split
  · rfl
  split
  · rfl
  unfold stepCore
  cases op with
  | rOpen w reg =>
    have go : ∀ g : Handle, (checked (if reg = true then
        (checked g "archive_read_set_read_callback" fun h => ({ h with hasReader := true }, Rc.ok)).1
        else g) "archive_read_open1" (rOpen1Body o)).1.kind = g.kind := by
      intro g
      rw [checked_kind _ _ _ (rOpen1Body_kind o)]
      split
      · exact checked_kind _ _ _ (fun _ => rfl)
      · rfl
    cases w with
    | none => exact go h
    | some w => exact checked_kind _ _ _ go
  | wOpen w =>
    cases w with
    | none => exact checked_kind _ _ _ (wOpenBody_kind o)
    | some w => exact checked_kind _ _ _ (fun g => checked_kind _ _ _ (wOpenBody_kind o))
  | close => cases hk : h.kind <;> simp [rClose_kind, wClose_kind, dClose_kind, kClose_kind, hk]
  | free =>
    cases hk : h.kind <;> simp [rFree_kind, wFree_kind, dFree_kind, kFree_kind, hk]
    exact (checked_kind _ _ _ (fun _ => by simp)).trans hk
  | lookup pre setter =>
    apply checked_kind; intro g
    simp only
    rw [checked_kind _ _ _ (fun _ => rfl), checked_kind _ _ _ (fun _ => rfl)]
  | plain f => apply checked_kind; intro g; split <;> rfl
  | unchecked => rfl
  | fail => rfl
  | rReadData => simp only; split; rfl; exact checked_kind _ _ _ (fun _ => rfl)
  | rDataSkip => exact rDataSkip_kind _ _
  | wFinishEntry => exact wFinishEntry_kind _ _
  | dFinishEntry => exact dFinishEntry_kind _ _
  | rNextHeader => exact checked_kind _ _ _ (rNextHeaderBody_kind o)
  | wHeader => exact checked_kind _ _ _ (wHeaderBody_kind o)
  | dHeader => exact checked_kind _ _ _ (dHeaderBody_kind o)
  | kReadDataBlock => apply checked_kind; intro g; split <;> rfl
  | kOpen => apply checked_kind; intro g; split <;> rfl
  | kNextHeader => apply checked_kind; intro g; split <;> rfl
  | _ => exact checked_kind _ _ _ (fun _ => rfl)

/-! ### table facts: the masks of the life-cycle functions, by evaluation of the generated table -/

/-- The mask the table gives a function for a handle kind. -/
def maskOf (k : Kind) (f : String) : Option Nat := (siteOf k f).map (·.mask)

theorem checked_mask {h : Handle} {f : String} {body : Handle → Handle × Rc} {m : Nat}
    (hm : maskOf h.kind f = some m) :
    checked h f body = if allowed h.st m then body h else ({ h with st := .fatal }, .fatal) := by
  unfold maskOf at hm
  cases hs : siteOf h.kind f with
  | none => simp [hs] at hm
  | some s => simp [hs] at hm; subst hm; simp [checked, hs]

theorem tbl_read_archive_read_close : maskOf .read "_archive_read_close" = some 65535 := by decide
theorem tbl_read_archive_read_free : maskOf .read "_archive_read_free" = some 65535 := by decide
theorem tbl_read_archive_read_next_header2 : maskOf .read "_archive_read_next_header2" = some 6 := by decide
theorem tbl_read_archive_read_data_block : maskOf .read "_archive_read_data_block" = some 4 := by decide
theorem tbl_read_archive_read_data_skip : maskOf .read "archive_read_data_skip" = some 4 := by decide
theorem tbl_read_archive_seek_data : maskOf .read "archive_seek_data" = some 4 := by decide
theorem tbl_read_archive_read_open1 : maskOf .read "archive_read_open1" = some 1 := by decide
theorem tbl_read_archive_read_set_read_callback : maskOf .read "archive_read_set_read_callback" = some 1 := by decide
theorem tbl_write_archive_write_close : maskOf .write "_archive_write_close" = some 65535 := by decide
theorem tbl_write_archive_write_free : maskOf .write "_archive_write_free" = some 65535 := by decide
theorem tbl_write_archive_write_header : maskOf .write "_archive_write_header" = some 6 := by decide
theorem tbl_write_archive_write_data : maskOf .write "_archive_write_data" = some 4 := by decide
theorem tbl_write_archive_write_finish_entry : maskOf .write "_archive_write_finish_entry" = some 6 := by decide
theorem tbl_write_archive_write_open2 : maskOf .write "archive_write_open2" = some 1 := by decide
theorem tbl_writeDisk_archive_write_disk_close : maskOf .writeDisk "_archive_write_disk_close" = some 32774 := by decide
theorem tbl_writeDisk_archive_write_disk_free : maskOf .writeDisk "_archive_write_disk_free" = some 65535 := by decide
theorem tbl_writeDisk_archive_write_disk_header : maskOf .writeDisk "_archive_write_disk_header" = some 6 := by decide
theorem tbl_writeDisk_archive_write_disk_data : maskOf .writeDisk "_archive_write_disk_data" = some 4 := by decide
theorem tbl_writeDisk_archive_write_disk_data_block : maskOf .writeDisk "_archive_write_disk_data_block" = some 4 := by decide
theorem tbl_writeDisk_archive_write_disk_finish_entry : maskOf .writeDisk "_archive_write_disk_finish_entry" = some 6 := by decide
theorem tbl_readDisk_archive_read_close : maskOf .readDisk "_archive_read_close" = some 65535 := by decide
theorem tbl_readDisk_archive_read_free : maskOf .readDisk "_archive_read_free" = some 65535 := by decide
theorem tbl_readDisk_archive_read_next_header2 : maskOf .readDisk "_archive_read_next_header2" = some 6 := by decide
theorem tbl_readDisk_archive_read_data_block : maskOf .readDisk "_archive_read_data_block" = some 4 := by decide
theorem tbl_readDisk_archive_read_disk_open : maskOf .readDisk "archive_read_disk_open" = some 33 := by decide
theorem tbl_match_archive_match_free : maskOf .«match» "archive_match_free" = some 65535 := by decide

/-! ### `checked` at the life-cycle functions, with the table's mask filled in -/

theorem checked_k {h : Handle} {f : String} {body : Handle → Handle × Rc} {k : Kind} {m : Nat}
    (hk : h.kind = k) (hm : maskOf k f = some m) :
    checked h f body = if allowed h.st m then body h else ({ h with st := .fatal }, .fatal) :=
  checked_mask (hk ▸ hm)

theorem chk_read_archive_read_close (h : Handle) (body : Handle → Handle × Rc) (hk : h.kind = .read) :
    checked h "_archive_read_close" body = if allowed h.st 65535 then body h else ({ h with st := .fatal }, .fatal) :=
  checked_k hk tbl_read_archive_read_close
theorem chk_read_archive_read_free (h : Handle) (body : Handle → Handle × Rc) (hk : h.kind = .read) :
    checked h "_archive_read_free" body = if allowed h.st 65535 then body h else ({ h with st := .fatal }, .fatal) :=
  checked_k hk tbl_read_archive_read_free
theorem chk_read_archive_read_next_header2 (h : Handle) (body : Handle → Handle × Rc) (hk : h.kind = .read) :
    checked h "_archive_read_next_header2" body = if allowed h.st 6 then body h else ({ h with st := .fatal }, .fatal) :=
  checked_k hk tbl_read_archive_read_next_header2
theorem chk_read_archive_read_data_block (h : Handle) (body : Handle → Handle × Rc) (hk : h.kind = .read) :
    checked h "_archive_read_data_block" body = if allowed h.st 4 then body h else ({ h with st := .fatal }, .fatal) :=
  checked_k hk tbl_read_archive_read_data_block
theorem chk_read_archive_read_data_skip (h : Handle) (body : Handle → Handle × Rc) (hk : h.kind = .read) :
    checked h "archive_read_data_skip" body = if allowed h.st 4 then body h else ({ h with st := .fatal }, .fatal) :=
  checked_k hk tbl_read_archive_read_data_skip
theorem chk_read_archive_seek_data (h : Handle) (body : Handle → Handle × Rc) (hk : h.kind = .read) :
    checked h "archive_seek_data" body = if allowed h.st 4 then body h else ({ h with st := .fatal }, .fatal) :=
  checked_k hk tbl_read_archive_seek_data
theorem chk_read_archive_read_open1 (h : Handle) (body : Handle → Handle × Rc) (hk : h.kind = .read) :
    checked h "archive_read_open1" body = if allowed h.st 1 then body h else ({ h with st := .fatal }, .fatal) :=
  checked_k hk tbl_read_archive_read_open1
theorem chk_read_archive_read_set_read_callback (h : Handle) (body : Handle → Handle × Rc) (hk : h.kind = .read) :
    checked h "archive_read_set_read_callback" body = if allowed h.st 1 then body h else ({ h with st := .fatal }, .fatal) :=
  checked_k hk tbl_read_archive_read_set_read_callback
theorem chk_write_archive_write_close (h : Handle) (body : Handle → Handle × Rc) (hk : h.kind = .write) :
    checked h "_archive_write_close" body = if allowed h.st 65535 then body h else ({ h with st := .fatal }, .fatal) :=
  checked_k hk tbl_write_archive_write_close
theorem chk_write_archive_write_free (h : Handle) (body : Handle → Handle × Rc) (hk : h.kind = .write) :
    checked h "_archive_write_free" body = if allowed h.st 65535 then body h else ({ h with st := .fatal }, .fatal) :=
  checked_k hk tbl_write_archive_write_free
theorem chk_write_archive_write_header (h : Handle) (body : Handle → Handle × Rc) (hk : h.kind = .write) :
    checked h "_archive_write_header" body = if allowed h.st 6 then body h else ({ h with st := .fatal }, .fatal) :=
  checked_k hk tbl_write_archive_write_header
theorem chk_write_archive_write_data (h : Handle) (body : Handle → Handle × Rc) (hk : h.kind = .write) :
    checked h "_archive_write_data" body = if allowed h.st 4 then body h else ({ h with st := .fatal }, .fatal) :=
  checked_k hk tbl_write_archive_write_data
theorem chk_write_archive_write_finish_entry (h : Handle) (body : Handle → Handle × Rc) (hk : h.kind = .write) :
    checked h "_archive_write_finish_entry" body = if allowed h.st 6 then body h else ({ h with st := .fatal }, .fatal) :=
  checked_k hk tbl_write_archive_write_finish_entry
theorem chk_write_archive_write_open2 (h : Handle) (body : Handle → Handle × Rc) (hk : h.kind = .write) :
    checked h "archive_write_open2" body = if allowed h.st 1 then body h else ({ h with st := .fatal }, .fatal) :=
  checked_k hk tbl_write_archive_write_open2
theorem chk_writeDisk_archive_write_disk_close (h : Handle) (body : Handle → Handle × Rc) (hk : h.kind = .writeDisk) :
    checked h "_archive_write_disk_close" body = if allowed h.st 32774 then body h else ({ h with st := .fatal }, .fatal) :=
  checked_k hk tbl_writeDisk_archive_write_disk_close
theorem chk_writeDisk_archive_write_disk_free (h : Handle) (body : Handle → Handle × Rc) (hk : h.kind = .writeDisk) :
    checked h "_archive_write_disk_free" body = if allowed h.st 65535 then body h else ({ h with st := .fatal }, .fatal) :=
  checked_k hk tbl_writeDisk_archive_write_disk_free
theorem chk_writeDisk_archive_write_disk_header (h : Handle) (body : Handle → Handle × Rc) (hk : h.kind = .writeDisk) :
    checked h "_archive_write_disk_header" body = if allowed h.st 6 then body h else ({ h with st := .fatal }, .fatal) :=
  checked_k hk tbl_writeDisk_archive_write_disk_header
theorem chk_writeDisk_archive_write_disk_data (h : Handle) (body : Handle → Handle × Rc) (hk : h.kind = .writeDisk) :
    checked h "_archive_write_disk_data" body = if allowed h.st 4 then body h else ({ h with st := .fatal }, .fatal) :=
  checked_k hk tbl_writeDisk_archive_write_disk_data
theorem chk_writeDisk_archive_write_disk_data_block (h : Handle) (body : Handle → Handle × Rc) (hk : h.kind = .writeDisk) :
    checked h "_archive_write_disk_data_block" body = if allowed h.st 4 then body h else ({ h with st := .fatal }, .fatal) :=
  checked_k hk tbl_writeDisk_archive_write_disk_data_block
theorem chk_writeDisk_archive_write_disk_finish_entry (h : Handle) (body : Handle → Handle × Rc) (hk : h.kind = .writeDisk) :
    checked h "_archive_write_disk_finish_entry" body = if allowed h.st 6 then body h else ({ h with st := .fatal }, .fatal) :=
  checked_k hk tbl_writeDisk_archive_write_disk_finish_entry
theorem chk_readDisk_archive_read_close (h : Handle) (body : Handle → Handle × Rc) (hk : h.kind = .readDisk) :
    checked h "_archive_read_close" body = if allowed h.st 65535 then body h else ({ h with st := .fatal }, .fatal) :=
  checked_k hk tbl_readDisk_archive_read_close
theorem chk_readDisk_archive_read_free (h : Handle) (body : Handle → Handle × Rc) (hk : h.kind = .readDisk) :
    checked h "_archive_read_free" body = if allowed h.st 65535 then body h else ({ h with st := .fatal }, .fatal) :=
  checked_k hk tbl_readDisk_archive_read_free
theorem chk_readDisk_archive_read_next_header2 (h : Handle) (body : Handle → Handle × Rc) (hk : h.kind = .readDisk) :
    checked h "_archive_read_next_header2" body = if allowed h.st 6 then body h else ({ h with st := .fatal }, .fatal) :=
  checked_k hk tbl_readDisk_archive_read_next_header2
theorem chk_readDisk_archive_read_data_block (h : Handle) (body : Handle → Handle × Rc) (hk : h.kind = .readDisk) :
    checked h "_archive_read_data_block" body = if allowed h.st 4 then body h else ({ h with st := .fatal }, .fatal) :=
  checked_k hk tbl_readDisk_archive_read_data_block
theorem chk_readDisk_archive_read_disk_open (h : Handle) (body : Handle → Handle × Rc) (hk : h.kind = .readDisk) :
    checked h "archive_read_disk_open" body = if allowed h.st 33 then body h else ({ h with st := .fatal }, .fatal) :=
  checked_k hk tbl_readDisk_archive_read_disk_open
theorem chk_match_archive_match_free (h : Handle) (body : Handle → Handle × Rc) (hk : h.kind = .«match») :
    checked h "archive_match_free" body = if allowed h.st 65535 then body h else ({ h with st := .fatal }, .fatal) :=
  checked_k hk tbl_match_archive_match_free

/-! ### `allowed` against the masks that occur -/

@[simp] theorem allowed_65535 (st : St) : allowed st 65535 = true := by cases st <;> rfl
@[simp] theorem allowed_32774 (st : St) :
    allowed st 32774 = (st == .header || st == .data || st == .fatal) := by cases st <;> rfl
@[simp] theorem allowed_6 (st : St) : allowed st 6 = (st == .header || st == .data) := by cases st <;> rfl
@[simp] theorem allowed_4 (st : St) : allowed st 4 = (st == .data) := by cases st <;> rfl
@[simp] theorem allowed_1 (st : St) : allowed st 1 = (st == .new) := by cases st <;> rfl
@[simp] theorem allowed_33 (st : St) : allowed st 33 = (st == .new || st == .closed) := by cases st <;> rfl

/-! ### more table facts, and what close does to a handle of each kind -/

/-- Table fact: over all kinds. -/
theorem acceptFatal_eq : acceptFatal =
    ["archive_match_free", "_archive_read_close", "_archive_read_free", "_archive_write_close",
     "_archive_write_free", "_archive_write_disk_close", "_archive_write_disk_free"] := by decide

theorem lit_not_exempt (f : String)
    (h : (["archive_match_free", "_archive_read_close", "_archive_read_free", "_archive_write_close",
     "_archive_write_free", "_archive_write_disk_close", "_archive_write_disk_free"].contains f) = false) :
    f ∉ acceptFatal := by
  rw [acceptFatal_eq]; intro hm
  have := List.contains_iff_mem.mpr hm
  simp_all

theorem rClose_fst (o : Outcome) (h : Handle) (hk : h.kind = .read) :
    (rClose o h).1 = if h.st = .closed then h else rCloseFilters { h with st := .closed } := by
  simp only [rClose, chk_read_archive_read_close h _ hk, allowed_65535]
  by_cases hc : h.st = .closed <;> simp [hc]

theorem wClose_fst (o : Outcome) (h : Handle) (hk : h.kind = .write) :
    (wClose o h).1 =
      if h.st = .new ∨ h.st = .closed then h
      else if h.st = .fatal then wCloseFilters h
      else { wCloseFilters (if h.st = .data then relEnt h else h) with st := .closed } := by
  simp only [wClose, chk_write_archive_write_close h _ hk, allowed_65535]
  cases hs : h.st <;> simp [hs, fatal_eta]

theorem dClose_fst (o : Outcome) (h : Handle) (hk : h.kind = .writeDisk) :
    (dClose o h).1 =
      if h.st = .fatal then relFixups (relEnt (relFd h))
      else if h.st = .header then relFixups h
      else if h.st = .data then
        (if o.alt = 2 then relFixups (relFd h) else relFixups { relEnt (relFd h) with st := .header })
      else { h with st := .fatal } := by
  simp only [dClose, dFinishEntry, chk_writeDisk_archive_write_disk_close h _ hk,
    chk_writeDisk_archive_write_disk_finish_entry h _ hk]
  cases hs : h.st <;> simp [hs]
  split <;> simp

theorem kClose_fst (h : Handle) (hk : h.kind = .readDisk) :
    (kClose h).1 = kCloseTree (if h.st = .fatal then h else { h with st := .closed }) := by
  simp only [kClose, chk_readDisk_archive_read_close h _ hk, allowed_65535]
  cases hs : h.st <;> simp [hs]

theorem step_close (h : Handle) (o : Outcome) (halive : h.alive = true) :
    (step h .close o).1 = match h.kind with
      | .read => (rClose o h).1 | .write => (wClose o h).1 | .writeDisk => (dClose o h).1
      | .readDisk => (kClose h).1 | .«match» => h := by
  cases hk : h.kind <;> simp [step, stepCore, halive, hk, Op.belongs]

end LA.Handle
