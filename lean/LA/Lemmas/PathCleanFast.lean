/-
A proved compile-time replacement for the in-place model of
`cleanup_pathname_fsobj`: on a NUL-free string `cleanup` equals its component-level
meaning `cleanSpec` (`cleanup_eq_spec`), which runs in linear time, whereas the
literal in-place model copies the whole buffer for every byte it writes.  The
`@[csimp]` equation lets the compiled driver use the fast form; nothing else changes.
-/
import LA.Lemmas.PathClean
namespace LA.PathClean

def cleanupFast (f : Flags) (p : List Nat) : Res :=
  if p.all (fun x => x != 0) then cleanSpec f p else cleanup f p

@[csimp] theorem cleanup_eq_fast : @cleanup = @cleanupFast := by
  funext f p
  unfold cleanupFast
  split
  · rename_i h
    apply cleanup_eq_spec
    intro x hx
    have := List.all_eq_true.mp h x hx
    simpa using this
  · rfl

end LA.PathClean
