/-
Unfolding equations for `LA.Pm` (kept in a module of their own: they are the slow part).
-/
import LA.Model.Pm
set_option linter.unusedSimpArgs false
namespace LA.Pm

/-! ### Unfolding equations
`X_eq`: the six mutually recursive functions in non-dependent form (the `h :`
binders of the definitions exist only for the termination proofs); every later
proof unfolds through these.  Text produced by `tools/dev/pm_eq_gen.py`, checked
here against the definitions. -/

/-- Proves `f … = body` where `body` is the definition with the `h :` binders dropped. -/
macro "deq" : tactic => `(tactic| (repeat' (first | rfl | (split <;> (try simp only [*])))))

theorem matchAt_eq (cfg : Cfg) (p s : List Nat) (fl : Flags) (pi si : Nat) :
    matchAt cfg p s fl pi si = (
  match rd p pi with
  | none => .oob
  | some c0 =>
    if c0 = 0 then
      match rd s si with
      | none => .oob
      | some d => .ofBool (d = 0)
    else if c0 = C_CARET then matchBody cfg p s { fl with noStart := false } (pi + 1) si
    else matchBody cfg p s fl pi si) := by
  rw [matchAt]
  deq

theorem matchBody_eq (cfg : Cfg) (p s : List Nat) (fl : Flags) (pi si : Nat) :
    matchBody cfg p s fl pi si = (
  match rd p pi with
  | none => .oob
  | some c =>
    match rd s si with
    | none => .oob
    | some d =>
      if c = C_SLASH ∧ d ≠ C_SLASH then .no
      else if c = C_STAR ∨ c = C_SLASH then
        match skipSlashes p pi, skipSlashes s si with
        | some pi2, some si2 => pm cfg p s fl pi2 si2
        | _, _ => .oob
      else if fl.noStart then unanch cfg p s fl pi si
      else pm cfg p s fl pi si) := by
  rw [matchBody]
  deq

theorem unanch_eq (cfg : Cfg) (p s : List Nat) (fl : Flags) (pi si : Nat) :
    unanch cfg p s fl pi si = (
  match rd s si with
  | none => .oob
  | some d =>
    match pm cfg p s fl pi (if d = C_SLASH then si + 1 else si) with
    | .yes => .yes
    | .oob => .oob
    | .no =>
      match strchrSlash s (if d = C_SLASH then si + 1 else si) with
      | none => .oob
      | some none => .no
      | some (some sj) => unanch cfg p s fl pi sj) := by
  rw [unanch]
  deq

theorem pm_eq (cfg : Cfg) (p s : List Nat) (fl : Flags) (pi si : Nat) :
    pm cfg p s fl pi si = (
  match dotSlash s si with
  | none => .oob
  | some si1 =>
    match dotSlash p pi with
    | none => .oob
    | some pi1 => pmLoop cfg p s fl pi1 si1) := by
  rw [pm]
  deq

theorem pmLoop_eq (cfg : Cfg) (p s : List Nat) (fl : Flags) (pi si : Nat) :
    pmLoop cfg p s fl pi si = (
  match rd p pi with
  | none => .oob
  | some c =>
    if c = 0 then
      match rd s si with
      | none => .oob
      | some d =>
        if d = C_SLASH then
          if fl.noEnd then .yes
          else
            match slashskip s si with
            | none => .oob
            | some sj =>
              match rd s sj with
              | none => .oob
              | some d' => .ofBool (d' = 0)
        else .ofBool (d = 0)
    else if c = C_QUEST then
      match rd s si with
      | none => .oob
      | some d => if d = 0 then .no else pmLoop cfg p s fl (pi + 1) (si + 1)
    else if c = C_STAR then
      match skipStars p pi with
      | none => .oob
      | some pj =>
        match rd p pj with
        | none => .oob
        | some c' =>
          if c' = 0 then .yes else star cfg p s fl pj si
    else if c = C_LBRACK then
      match classEnd p (pi + 1) with
      | none => .oob
      | some e =>
        match rd p e with
        | none => .oob
        | some ce =>
          match rd s si with
          | none => .oob
          | some d =>
            if ce = C_RBRACK then
              if cfg.guardClass ∧ d = 0 then .no
              else
                match pmList cfg p (pi + 1) e d with
                | none => .oob
                | some false => .no
                | some true => pmLoop cfg p s fl (e + 1) (si + 1)
            else
              if c ≠ d then .no else pmLoop cfg p s fl (pi + 1) (si + 1)
    else if c = C_BSL then
      match rd p (pi + 1) with
      | none => .oob
      | some c1 =>
        match rd s si with
        | none => .oob
        | some d =>
          if c1 = 0 then
            if d ≠ C_BSL then .no else pmLoop cfg p s fl (pi + 1) (si + 1)
          else
            if c1 ≠ d then .no else pmLoop cfg p s fl (pi + 2) (si + 1)
    else if c = C_SLASH then
      match rd s si with
      | none => .oob
      | some d =>
        if d ≠ C_SLASH ∧ d ≠ 0 then .no
        else
          match slashskip p pi, slashskip s si with
          | some pj, some sj =>
            match rd p pj with
            | none => .oob
            | some c' =>
              if c' = 0 ∧ fl.noEnd then .yes
              else pmLoop cfg p s fl pj sj
          | _, _ => .oob
    else
      match rd p (pi + 1) with
      | none => .oob
      | some c1 =>
        if c = C_DOLLAR ∧ c1 = 0 ∧ fl.noEnd then
          match slashskip s si with
          | none => .oob
          | some sj =>
            match rd s sj with
            | none => .oob
            | some d' => .ofBool (d' = 0)
        else
          match rd s si with
          | none => .oob
          | some d => if c ≠ d then .no else pmLoop cfg p s fl (pi + 1) (si + 1)) := by
  rw [pmLoop]
  deq

theorem star_eq (cfg : Cfg) (p s : List Nat) (fl : Flags) (pi si : Nat) :
    star cfg p s fl pi si = (
  match rd s si with
  | none => .oob
  | some d =>
    if d = 0 then .no
    else
      match matchAt cfg p s fl pi si with
      | .yes => .yes
      | .oob => .oob
      | .no => star cfg p s fl pi (si + 1)) := by
  rw [star]
  deq


/-! ### the small loops, same treatment -/

theorem slashskip_eq (s : List Nat) (i : Nat) :
    slashskip s i = (
  match rd s i with
  | none => none
  | some c =>
    if c = C_SLASH then slashskip s (i + 1)
    else if c = C_DOT then
      match rd s (i + 1) with
      | none => none
      | some d => if d = C_SLASH ∨ d = 0 then slashskip s (i + 1) else some i
    else some i) := by
  rw [slashskip]
  deq

theorem skipStars_eq (p : List Nat) (i : Nat) :
    skipStars p i = (
  match rd p i with
  | none => none
  | some c => if c = C_STAR then skipStars p (i + 1) else some i) := by
  rw [skipStars]
  deq

theorem skipSlashes_eq (s : List Nat) (i : Nat) :
    skipSlashes s i = (
  match rd s i with
  | none => none
  | some c => if c = C_SLASH then skipSlashes s (i + 1) else some i) := by
  rw [skipSlashes]
  deq

theorem classEnd_eq (p : List Nat) (i : Nat) :
    classEnd p i = (
  match rd p i with
  | none => none
  | some c =>
    if c = 0 then some i
    else if c = C_RBRACK then some i
    else if c = C_BSL then
      match rd p (i + 1) with
      | none => none
      | some d => if d ≠ 0 then classEnd p (i + 2) else classEnd p (i + 1)
    else classEnd p (i + 1)) := by
  rw [classEnd]
  deq

theorem strchrSlash_eq (s : List Nat) (i : Nat) :
    strchrSlash s i = (
  match rd s i with
  | none => none
  | some c =>
    if c = C_SLASH then some (some i)
    else if c = 0 then some none
    else strchrSlash s (i + 1)) := by
  rw [strchrSlash]
  deq

end LA.Pm
