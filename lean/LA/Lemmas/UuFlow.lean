/-
The control flow of `uudecode_filter_read` on a stream made of well-formed
lines: whatever the read-ahead windows are, the filter hands out exactly the
bytes the lines decode to.  The stream is described line by line (`Item`); the
codec-specific facts live in `LA/Lemmas/UuCodec.lean`.
-/
import LA.Lemmas.UuCodec
namespace LA.UuRead
open LA.Gen.UuTables

/-! ### `get_line` on printable text -/

theorem getLine_partial : ∀ (l : List Nat) (a : Nat), Printable l → a ≤ l.length →
    getLine a l = (some a, 0)
  | _, 0, _, _ => by simp [getLine]
  | [], a + 1, _, h => by simp at h
  | c :: rest, a + 1, hp, h => by
    have hc : cls c = 1 := cls_printable (hp c (by simp))
    have ih := getLine_partial rest a (fun x hx => hp x (by simp [hx])) (by simpa using h)
    simp [getLine, hc, ih]

theorem getLine_line : ∀ (body : List Nat) (a : Nat) (tail : List Nat), Printable body → body.length < a →
    getLine a (body ++ 10 :: tail) = (some (body.length + 1), 1)
  | [], a + 1, tail, _, _ => by simp [getLine, cls]
  | [], 0, _, _, h => by simp at h
  | c :: rest, 0, _, _, h => by simp at h
  | c :: rest, a + 1, tail, hp, h => by
    have hc : cls c = 1 := cls_printable (hp c (by simp))
    have ih := getLine_line rest a tail (fun x hx => hp x (by simp [hx])) (by simpa using h)
    simp [getLine, hc, ih]

/-! ### streams described line by line -/

/-- One line of the stream and what the filter is expected to do with it. -/
structure Item where
  body : List Nat          -- without the terminating '\n'
  ph : Phase               -- state in which the line is met
  ph' : Phase              -- state afterwards
  out : List Nat           -- bytes it decodes to
  mdf : Meta → Meta        -- effect on `mode` / `name`

def Item.line (it : Item) : List Nat := it.body ++ [10]
def Item.len (it : Item) : Nat := it.body.length + 1

def text (items : List Item) : List Nat := (items.map Item.line).flatten
def outs (items : List Item) : List Nat := (items.map (·.out)).flatten

@[simp] theorem text_nil : text [] = [] := rfl
@[simp] theorem text_cons (it : Item) (r : List Item) : text (it :: r) = it.line ++ text r := by simp [text]
@[simp] theorem outs_nil : outs [] = [] := rfl
@[simp] theorem outs_cons (it : Item) (r : List Item) : outs (it :: r) = it.out ++ outs r := by simp [outs]
theorem text_append (a b : List Item) : text (a ++ b) = text a ++ text b := by simp [text]
theorem outs_append (a b : List Item) : outs (a ++ b) = outs a ++ outs b := by simp [outs]
@[simp] theorem Item.line_length (it : Item) : it.line.length = it.len := by simp [Item.line, Item.len]

def needsRoom : Phase → Bool
  | .readUU => true
  | .readB64 => true
  | _ => false

structure ItemOk (it : Item) : Prop where
  printable : Printable it.body
  small : it.len * 2 ≤ outBuffSize ∨ needsRoom it.ph = false
  short : it.len ≤ maxLineLength
  outLe : it.out.length ≤ it.len * 2
  outNil : needsRoom it.ph = false → it.out = []
  notIgnore : it.ph ≠ .ignore ∧ it.ph' ≠ .ignore
  step : ∀ total md, total ≤ outBuffSize → (needsRoom it.ph = true → total + it.len * 2 ≤ outBuffSize) →
    lineStep it.ph total it.len it.line 1 md = .next it.ph' it.out (it.mdf md)
  full : ∀ total md, needsRoom it.ph = true → total + it.len * 2 > outBuffSize →
    lineStep it.ph total it.len it.line 1 md = .full

/-- Consecutive lines: each is met in the state the previous one left. -/
def Chain : Phase → List Item → Prop
  | _, [] => True
  | ph, it :: rest => it.ph = ph ∧ Chain it.ph' rest

/-- The line loop on items instead of bytes. -/
def specLoop : Nat → List Item → Nat → Nat → Phase → Meta → LoopR
  | _, [], used, _, ph, md => .fin used [] ph [] md
  | a, it :: rest, used, total, ph, md =>
    if a = 0 then .fin used [] ph [] md
    else if a < it.len then
      (if total = 0 then .more (it.line.take a) ph md else .fin (used + a) (it.line.take a) ph [] md)
    else if needsRoom ph = true ∧ total + it.len * 2 > outBuffSize then .fin used [] ph [] md
    else LoopR.cons it.out (specLoop (a - it.len) rest (used + it.len) (total + it.out.length) it.ph' (it.mdf md))

theorem lineLoop_zero (ravail tot0 : Nat) (l : List Nat) (used total : Nat) (ph : Phase) (md : Meta) :
    lineLoop ravail tot0 0 l used total ph md = .fin used [] ph [] md := by
  unfold lineLoop; simp

/-- One unfolding of `lineLoop` when `get_line` found a line (or the end of the window). -/
theorem lineLoop_cons (ravail tot0 a c : Nat) (tl : List Nat) (used total : Nat) (ph : Phase) (md : Meta)
    (len nl : Nat) (hg : getLine (a + 1) (c :: tl) = (some len, nl)) :
    lineLoop ravail tot0 (a + 1) (c :: tl) used total ph md =
      if nl = 0 ∧ (ph ≠ .uuEnd ∨ ravail > 0) then
        if total = 0 ∧ ravail = 0 then .fatal
        else if total = 0 then .more ((c :: tl).take len) ph md
        else .fin (used + len) ((c :: tl).take len) ph [] md
      else
        match lineStep ph total len ((c :: tl).take len) nl md with
        | .next ph' o md' =>
          LoopR.cons o (lineLoop ravail tot0 (a + 1 - len) ((c :: tl).drop len) (used + len) (total + o.length) ph' md')
        | .full => .fin used [] ph [] md
        | .fatal => .fatal
        | .oob => .oob := by
  conv => lhs; unfold lineLoop
  split
  · rename_i heq; rw [hg] at heq; cases heq
  · rename_i len' nl' heq; rw [hg] at heq; cases heq; rfl

/-- `lineLoop` on the visible prefix of a well-formed text is `specLoop`. -/
theorem lineLoop_spec (ravail tot0 : Nat) : ∀ (items : List Item) (a used total : Nat) (ph : Phase) (md : Meta),
    Chain ph items → (∀ it ∈ items, ItemOk it) → a ≤ (text items).length → total ≤ outBuffSize →
    (a = 0 ∨ 0 < ravail) →
    lineLoop ravail tot0 a ((text items).take a) used total ph md = specLoop a items used total ph md
  | [], a, used, total, ph, md, _, _, ha, _, _ => by
    have : a = 0 := by simpa using ha
    subst this; simp [lineLoop_zero, specLoop]
  | it :: rest, a, used, total, ph, md, hc, hok, ha, ht, hr => by
    have hit := hok it (by simp)
    obtain ⟨hph, hc'⟩ := hc
    by_cases ha0 : a = 0
    · subst ha0; simp [lineLoop_zero, specLoop]
    · have hrv : 0 < ravail := by
        rcases hr with h | h
        · exact absurd h ha0
        · exact h
      rw [specLoop]; simp only [ha0, if_false]
      by_cases hlt : a < it.len
      · -- the window ends inside this line
        simp only [hlt, if_true]
        have htk : (text (it :: rest)).take a = it.body.take a := by
          simp only [text_cons, Item.line, List.append_assoc]
          rw [List.take_append_of_le_length (by simp [Item.len] at hlt; omega)]
        have hlen : (it.body.take a).length = a := by
          simp [Item.len] at hlt; simp [List.length_take]; omega
        have hg := getLine_partial (it.body.take a) a
          (fun x hx => hit.printable x (List.mem_of_mem_take hx)) (by omega)
        rw [htk]
        have hline : it.line.take a = it.body.take a := by
          simp only [Item.line]; rw [List.take_append_of_le_length (by simp [Item.len] at hlt; omega)]
        rw [hline]
        obtain ⟨a', rfl⟩ : ∃ a', a = a' + 1 := ⟨a - 1, by omega⟩
        cases hb : it.body.take (a' + 1) with
        | nil => simp [hb] at hlen
        | cons c tl =>
          rw [hb] at hg
          rw [lineLoop_cons ravail tot0 a' c tl used total ph md _ _ hg]
          have hcond : (0 = 0 ∧ (ph ≠ Phase.uuEnd ∨ ravail > 0)) := ⟨rfl, Or.inr hrv⟩
          simp only [hcond, and_self, if_true]
          have hrv' : ¬ ravail = 0 := by omega
          have htake : (c :: tl).take (a' + 1) = c :: tl := by
            rw [← hb, List.take_take]; simp
          by_cases ht0 : total = 0
          · simp [ht0, hrv', htake]
          · simp [ht0, htake]
      · -- a complete line
        simp only [hlt, if_false]
        have hge : it.len ≤ a := by omega
        have htk : (text (it :: rest)).take a = it.body ++ 10 :: (text rest).take (a - it.len) := by
          simp only [text_cons, Item.line, List.append_assoc, List.singleton_append]
          rw [List.take_append, List.take_of_length_le (by simp [Item.len] at hge; omega)]
          congr 1
          have : a - it.body.length = (a - it.len) + 1 := by simp [Item.len] at hge ⊢; omega
          rw [this, List.take_succ_cons]
        have hg := getLine_line it.body a ((text rest).take (a - it.len)) hit.printable
          (by simp [Item.len] at hge; omega)
        rw [htk]
        obtain ⟨a', rfl⟩ : ∃ a', a = a' + 1 := ⟨a - 1, by omega⟩
        have htk1 : (it.body ++ 10 :: (text rest).take (a' + 1 - it.len)).take (it.body.length + 1) = it.line := by
          rw [show it.body ++ 10 :: (text rest).take (a' + 1 - it.len) = (it.body ++ [10]) ++ (text rest).take (a' + 1 - it.len) by simp]
          rw [List.take_append_of_le_length (by simp), List.take_of_length_le (by simp)]
          rfl
        have hdr1 : (it.body ++ 10 :: (text rest).take (a' + 1 - it.len)).drop (it.body.length + 1) = (text rest).take (a' + 1 - it.len) := by
          rw [show it.body ++ 10 :: (text rest).take (a' + 1 - it.len) = (it.body ++ [10]) ++ (text rest).take (a' + 1 - it.len) by simp]
          rw [List.drop_append_of_le_length (by simp), List.drop_of_length_le (by simp)]
          simp
        cases hb : it.body ++ 10 :: (text rest).take (a' + 1 - it.len) with
        | nil => simp at hb
        | cons c tl =>
          rw [hb] at hg htk1 hdr1
          rw [lineLoop_cons ravail tot0 a' c tl used total ph md _ _ hg]
          have hcond : ¬ ((1 : Nat) = 0 ∧ (ph ≠ Phase.uuEnd ∨ ravail > 0)) := by simp
          simp only [hcond, if_false, htk1, hdr1]
          have hlen' : it.body.length + 1 = it.len := rfl
          rw [hlen']
          by_cases hfull : needsRoom ph = true ∧ total + it.len * 2 > outBuffSize
          · simp only [hfull, and_self, if_true]
            rw [← hph] at hfull ⊢
            rw [hit.full total md hfull.1 hfull.2]
          · simp only [hfull, if_false]
            have hstep := hit.step total md ht (by
              intro hn; rw [hph] at hn
              by_cases h2 : total + it.len * 2 > outBuffSize
              · exact absurd ⟨hn, h2⟩ hfull
              · omega)
            rw [← hph, hstep]
            simp only []
            have hle : (text rest).length ≥ a' + 1 - it.len := by
              simp only [text_cons, List.length_append, Item.line_length] at ha; omega
            have ht' : total + it.out.length ≤ outBuffSize := by
              by_cases hn : needsRoom it.ph = true
              · have : ¬ (total + it.len * 2 > outBuffSize) := fun h2 => hfull ⟨hph ▸ hn, h2⟩
                have := hit.outLe; omega
              · have := hit.outNil (by simpa using hn); simp [this]; exact ht
            rw [lineLoop_spec ravail tot0 rest (a' + 1 - it.len) (used + it.len) (total + it.out.length) it.ph' (it.mdf md)
              hc' (fun x hx => hok x (by simp [hx])) hle ht' (Or.inr hrv)]


/-! ### the consumer's loop -/

theorem cons_cons (o1 o2 : List Nat) (r : LoopR) : LoopR.cons o1 (LoopR.cons o2 r) = LoopR.cons (o1 ++ o2) r := by
  cases r <;> simp [LoopR.cons]

/-- What `decodeLoop` does with the outcome of the line loop of one call. -/
def cont (orc : List Nat) (tot0 : Nat) (rem w : List Nat) (A : Nat) : LoopR → Final
  | .fatal => .fatal []
  | .oob => .oob
  | .more carry ph md =>
    if w.length = 0 then .fatal [] else decodeLoop orc.tail ⟨ph, carry, tot0, md⟩ (rem.drop w.length)
  | .fin used carry ph out md =>
    if out = [] ∧ w.length = 0 ∧ (ph = .readUU ∨ ph = .readB64) then .fatal []    -- truncated: missing end marker
    else if out = [] then .eof []
    else if (used : Int) - ((A : Int) - w.length) ≤ 0 ∨ rem = [] then .stall out
    else Final.cons out (decodeLoop orc.tail ⟨ph, carry, tot0 + out.length, md⟩
      (rem.drop ((used : Int) - ((A : Int) - w.length)).toNat))

theorem decodeLoop_eq (orc : List Nat) (st : RState) (rem : List Nat)
    (hph : st.phase ≠ .ignore) (hc : st.carry.length ≤ maxLineLength) :
    decodeLoop orc st rem =
      cont orc st.total rem (window orc rem) (st.carry ++ window orc rem).length
        (lineLoop (window orc rem).length st.total (st.carry ++ window orc rem).length
          (st.carry ++ window orc rem) 0 0 st.phase st.md) := by
  conv => lhs; unfold decodeLoop
  simp only [filterRead, hph, if_false]
  have h2 : ¬ (st.carry ≠ [] ∧ st.carry.length > maxLineLength) := by omega
  simp only [h2, if_false]
  generalize lineLoop (window orc rem).length st.total (st.carry ++ window orc rem).length
    (st.carry ++ window orc rem) 0 0 st.phase st.md = r
  cases r with
  | fatal => simp [cont]
  | oob => simp [cont]
  | more carry ph md =>
    simp only [cont]
    split <;> rfl
  | fin used carry ph out md =>
    simp only [cont]
    by_cases ht : out = [] ∧ (window orc rem).length = 0 ∧ (ph = .readUU ∨ ph = .readB64)
    · simp [ht]
    · simp only [ht, if_false]
      by_cases ho : out = []
      · simp [ho]
      · simp only [ho, if_false]
        split <;> rfl


/-- Lines that decode to something first, then lines that decode to nothing. -/
def Shape (items : List Item) : Prop :=
  ∃ data tail, items = data ++ tail ∧ (∀ it ∈ data, it.out ≠ []) ∧ (∀ it ∈ tail, it.out = [])

/-- If a call ends exactly after `done` without having produced anything, nothing is lost:
the rest of the stream decodes to nothing either. -/
def Safe (items0 : List Item) (A : Nat) : Prop :=
  ∀ done items, items0 = done ++ items → outs done = [] → (text done).length = A → outs items = []

def CarryOk (carry : List Nat) : List Item → Prop
  | [] => carry = []
  | it :: _ => carry.length < it.len

structure Pre (st : RState) (rem : List Nat) (items : List Item) : Prop where
  chain : Chain st.phase items
  ok : ∀ it ∈ items, ItemOk it
  txt : st.carry ++ rem = text items
  carry : CarryOk st.carry items
  notIgn : st.phase ≠ .ignore

theorem outs_eq_nil (l : List Item) : outs l = [] ↔ ∀ it ∈ l, it.out = [] := by
  induction l with
  | nil => simp
  | cons a r ih => simp [ih]

theorem shape_suffix (done items : List Item) (h : Shape (done ++ items)) : Shape items := by
  obtain ⟨data, tail, h1, h2, h3⟩ := h
  induction done generalizing data with
  | nil => exact ⟨data, tail, by simpa using h1, h2, h3⟩
  | cons d ds ih =>
    cases data with
    | nil =>
      -- everything is tail
      refine ⟨[], items, by simp, by simp, ?_⟩
      intro it hit
      exact h3 it (by rw [← List.nil_append tail, ← h1]; simp [hit])
    | cons x xs =>
      simp only [List.cons_append, List.cons.injEq] at h1
      exact ih xs h1.2 (fun it hit => h2 it (by simp [hit]))

theorem safe_of_shape (items0 : List Item) (A : Nat) (hs : Shape items0) (h0 : A = 0 → items0 = []) :
    Safe items0 A := by
  intro done items hsplit hnil hlen
  obtain ⟨data, tail, h1, h2, h3⟩ := hs
  cases done with
  | nil =>
    have : items0 = [] := h0 (by simpa using hlen.symm)
    rw [this] at hsplit
    have : items = [] := by simpa using hsplit.symm
    simp [this]
  | cons d ds =>
    have hd : d.out = [] := (outs_eq_nil _).mp hnil d (by simp)
    cases data with
    | nil =>
      rw [outs_eq_nil]
      intro it hit
      exact h3 it (by rw [← List.nil_append tail, ← h1, hsplit]; simp [hit])
    | cons x xs =>
      rw [hsplit] at h1
      simp only [List.cons_append, List.cons.injEq] at h1
      exact absurd (h1.1 ▸ hd) (h2 x (by simp))

theorem text_length_pos (it : Item) (r : List Item) : 0 < (text (it :: r)).length := by
  simp [Item.line]; omega

theorem window_take (orc rem : List Nat) : window orc rem = rem.take (window orc rem).length := by
  unfold window; split
  · simp
  · rw [List.length_take]
    rw [Nat.min_def]; split
    · rfl
    · rw [List.take_of_length_le (by omega), List.take_of_length_le (by omega)]

theorem window_ne_nil (orc rem : List Nat) (h : rem ≠ []) : window orc rem ≠ [] := by
  unfold window; split
  · exact h
  · cases rem with
    | nil => exact absurd rfl h
    | cons a r => simp

theorem final_cons_eof (a b : List Nat) : Final.cons a (.eof b) = .eof (a ++ b) := rfl

/-- The state the filter is in after all the lines. -/
def lastPhase : Phase → List Item → Phase
  | ph, [] => ph
  | _, it :: r => lastPhase it.ph' r

/-- How the consumer's loop ends when the upstream is exhausted in state `ph`:
inside the encoded body that is an error ("missing end marker"), otherwise the
end of the data. -/
def endR (ph : Phase) (o : List Nat) : Final := if needsRoom ph = true then .fatal o else .eof o

theorem final_cons_endR (a b : List Nat) (ph : Phase) : Final.cons a (endR ph b) = endR ph (a ++ b) := by
  unfold endR; split <;> rfl

theorem needsRoom_iff (ph : Phase) : (ph = .readUU ∨ ph = .readB64) ↔ needsRoom ph = true := by
  cases ph <;> simp [needsRoom]

/-- In a stream that ends inside the encoded body no line after the data decodes to
nothing (there is no trailer): whenever a call returns without output, the
upstream is exhausted. -/
def NoZeroSuffix (L : Phase) (items0 : List Item) : Prop :=
  needsRoom L = true → ∀ done items, items0 = done ++ items → items ≠ [] → outs items ≠ []

theorem noZero_suffix (L : Phase) (done items : List Item) (h : NoZeroSuffix L (done ++ items)) :
    NoZeroSuffix L items := by
  intro hL d2 i2 hs hne
  exact h hL (done ++ d2) i2 (by rw [hs]; simp) hne

theorem lastPhase_append (ph : Phase) (a b : List Item) :
    lastPhase ph (a ++ b) = lastPhase (lastPhase ph a) b := by
  induction a generalizing ph with
  | nil => rfl
  | cons x xs ih => simp [lastPhase, ih]

theorem loopR_cons_fin (o : List Nat) (u : Nat) (c : List Nat) (ph : Phase) (out : List Nat) (md : Meta) :
    LoopR.cons o (.fin u c ph out md) = .fin u c ph (o ++ out) md := rfl
theorem loopR_cons_more (o : List Nat) (c : List Nat) (ph : Phase) (md : Meta) :
    LoopR.cons o (.more c ph md) = .more c ph md := rfl


theorem drop_of_app (l1 l2 : List Nat) (n : Nat) (h : l1.length ≤ n) :
    (l1 ++ l2).drop n = l2.drop (n - l1.length) := by
  have : n = l1.length + (n - l1.length) := by omega
  rw [this, List.drop_append]; simp

theorem carry_lt_done (carry0 : List Nat) (d : Item) (ds items : List Item)
    (h : CarryOk carry0 ((d :: ds) ++ items)) : carry0.length < (text (d :: ds)).length := by
  simp only [List.cons_append, CarryOk] at h
  simp only [text_cons, List.length_append, Item.line_length]; omega

/-- The heart of the argument: wherever one call of `uudecode_filter_read` stops,
the consumer's loop goes on to deliver exactly what the remaining lines decode
to — and then ends as the last state demands (`endR`). -/
theorem inner (orc : List Nat) (tot0 : Nat) (carry0 rem : List Nat) (items0 : List Item) (L : Phase)
    (hT : carry0 ++ rem = text items0) (hcar : CarryOk carry0 items0) (hok : ∀ it ∈ items0, ItemOk it)
    (hsafe : Safe items0 (carry0.length + (window orc rem).length))
    (hnz : NoZeroSuffix L items0)
    (hsh : ∀ done items, items0 = done ++ items →
        (done ≠ [] ∨ items = [] ∨ ∃ it rest, items = it :: rest ∧ carry0.length + (window orc rem).length < it.len) →
        Shape items)
    (IH : ∀ (orc' : List Nat) (st' : RState) (rem' : List Nat) (items' : List Item), rem'.length < rem.length →
        Pre st' rem' items' → Shape items' → NoZeroSuffix (lastPhase st'.phase items') items' →
        decodeLoop orc' st' rem' = endR (lastPhase st'.phase items') (outs items')) :
    ∀ (items done : List Item) (ph : Phase) (md : Meta), items0 = done ++ items →
      (text done).length ≤ carry0.length + (window orc rem).length → Chain ph items → ph ≠ .ignore →
      lastPhase ph items = L →
      cont orc tot0 rem (window orc rem) (carry0.length + (window orc rem).length)
        (LoopR.cons (outs done) (specLoop (carry0.length + (window orc rem).length - (text done).length) items
          (text done).length (outs done).length ph md)) = endR L (outs done ++ outs items) := by
  have hwl : (window orc rem).length ≤ rem.length := window_length_le orc rem
  intro items
  induction items with
  | nil =>
    intro done ph md hsplit hu hch hph hL
    simp only [lastPhase] at hL
    subst hL
    have hTT : carry0 ++ rem = text done := by rw [hT, hsplit]; simp
    have hlen : carry0.length + rem.length = (text done).length := by rw [← hTT]; simp
    simp only [specLoop, loopR_cons_fin, List.append_nil, cont, outs_nil]
    by_cases hop : outs done = []
    · simp only [hop, true_and, if_true]
      by_cases hroom : needsRoom ph = true
      · -- the stream ends inside the body: nothing is left, so the window is empty, and that is an error
        have hi0 : items0 = [] := by
          cases hi : items0 with
          | nil => rfl
          | cons x xs =>
            exact absurd (by rw [hsplit, List.append_nil]; exact hop)
              (hnz hroom [] items0 (by simp) (by rw [hi]; simp))
        have hrem : rem.length = 0 := by
          have := congrArg List.length hT; rw [hi0] at this; simp at this
          rw [this.2]; rfl
        have hw0 : (window orc rem).length = 0 := by omega
        rw [if_pos ⟨hw0, (needsRoom_iff ph).mpr hroom⟩]
        simp [endR, hroom]
      · have : ¬ ((window orc rem).length = 0 ∧ (ph = .readUU ∨ ph = .readB64)) :=
          fun h => hroom ((needsRoom_iff ph).mp h.2)
        rw [if_neg this]; simp [endR, hroom]
    · have hc1 : ¬ (outs done = [] ∧ (window orc rem).length = 0 ∧ (ph = .readUU ∨ ph = .readB64)) :=
        fun h => hop h.1
      simp only [hc1, hop, if_false]
      have hdne : done ≠ [] := by intro h; subst h; exact hop rfl
      obtain ⟨d, ds, rfl⟩ : ∃ d ds, done = d :: ds := by
        cases done with
        | nil => exact absurd rfl hdne
        | cons d ds => exact ⟨d, ds, rfl⟩
      have hc0 := carry_lt_done carry0 d ds [] (by rw [← hsplit]; exact hcar)
      have hwr : (window orc rem).length = rem.length := by omega
      have hrem : rem ≠ [] := by
        intro h; rw [h] at hlen; simp only [List.length_nil] at hlen; omega
      have hu' : ¬ (((text (d :: ds)).length : Int) - (((carry0.length + (window orc rem).length : Nat) : Int) - ((window orc rem).length : Nat)) ≤ 0 ∨ rem = []) := by
        intro h; rcases h with h | h
        · omega
        · exact hrem h
      simp only [hu', if_false]
      have hk : (((text (d :: ds)).length : Int) - (((carry0.length + (window orc rem).length : Nat) : Int) - ((window orc rem).length : Nat))).toNat = rem.length := by omega
      rw [hk, List.drop_length]
      rw [IH orc.tail ⟨ph, [], tot0 + (outs (d :: ds)).length, md⟩ [] []
        (by simp; exact List.length_pos_iff.mpr hrem)
        ⟨trivial, by simp, by simp, rfl, hph⟩ ⟨[], [], rfl, by simp, by simp⟩
        (by intro _ d2 i2 hs hne; simp at hs; exact absurd hs.2 hne)]
      simp [lastPhase, final_cons_endR]
  | cons it rest ih =>
    intro done ph md hsplit hu hch hph hL
    obtain ⟨hitph, hch'⟩ := hch
    have hit : ItemOk it := hok it (by rw [hsplit]; simp)
    have hTT : carry0 ++ rem = text done ++ text (it :: rest) := by rw [hT, hsplit, text_append]
    have hlen : carry0.length + rem.length = (text done).length + (text (it :: rest)).length := by
      have := congrArg List.length hTT; simpa using this
    have hF : ∀ n, carry0.length ≤ n → (text done).length ≤ n →
        rem.drop (n - carry0.length) = (text (it :: rest)).drop (n - (text done).length) := by
      intro n h1 h2
      rw [← drop_of_app carry0 rem n h1, hTT, drop_of_app _ _ n h2]
    have hdc : done ≠ [] → carry0.length < (text done).length := by
      intro hd
      cases done with
      | nil => exact absurd rfl hd
      | cons d ds => exact carry_lt_done carry0 d ds (it :: rest) (by rw [← hsplit]; exact hcar)
    have hopd : outs done ≠ [] → done ≠ [] := by
      intro h hd; subst hd; exact h rfl
    have hnzi : NoZeroSuffix L (it :: rest) := noZero_suffix L done (it :: rest) (hsplit ▸ hnz)
    have hLi : lastPhase ph (it :: rest) = L := hL
    have hrem : rem ≠ [] := by
      intro h
      have h1 : carry0.length = (text items0).length := by rw [← hT, h]; simp
      cases hi : items0 with
      | nil => rw [hi] at hsplit; simp at hsplit
      | cons x xs =>
        rw [hi] at hcar h1
        simp only [CarryOk] at hcar
        simp only [text_cons, List.length_append, Item.line_length] at h1
        omega
    have hwne : window orc rem ≠ [] := window_ne_nil orc rem hrem
    have hwpos : 0 < (window orc rem).length := List.length_pos_iff.mpr hwne
    generalize hA : carry0.length + (window orc rem).length = A at *
    generalize hU : (text done).length = u at *
    have hitl : (text (it :: rest)).length = it.len + (text rest).length := by simp
    have hnotrunc : ∀ (o : List Nat) (p : Phase), ¬ (o = [] ∧ (window orc rem).length = 0 ∧ (p = .readUU ∨ p = .readB64)) := by
      intro o p h; omega
    rw [specLoop]
    by_cases ha0 : A - u = 0
    · -- the window ends exactly at a line boundary
      simp only [ha0, if_true, loopR_cons_fin, List.append_nil, cont, hnotrunc, if_false]
      have hAu : u = A := by omega
      by_cases hop : outs done = []
      · simp only [hop, if_true, List.nil_append]
        have ho := hsafe done (it :: rest) hsplit hop (by omega)
        rw [ho]
        have : ¬ (needsRoom L = true) := fun hr => hnzi hr [] (it :: rest) rfl (by simp) ho
        simp [endR, this]
      · simp only [hop, if_false]
        have hc0 := hdc (hopd hop)
        have hu' : ¬ ((u : Int) - ((A : Int) - ((window orc rem).length : Nat)) ≤ 0 ∨ rem = []) := by
          intro h; rcases h with h | h
          · omega
          · exact hrem h
        simp only [hu', if_false]
        have hk : ((u : Int) - ((A : Int) - ((window orc rem).length : Nat))).toNat = u - carry0.length := by omega
        rw [hk]
        have hdrop := hF u (by omega) (by omega)
        simp only [Nat.sub_self, List.drop_zero] at hdrop
        rw [IH orc.tail ⟨ph, [], tot0 + (outs done).length, md⟩ (rem.drop (u - carry0.length)) (it :: rest)
          (by simp; omega)
          ⟨⟨hitph, hch'⟩, fun x hx => hok x (by rw [hsplit]; simp [hx]), by simp [hdrop],
            by simp [CarryOk, Item.len], hph⟩
          (hsh done (it :: rest) hsplit (Or.inl (hopd hop))) (hLi ▸ hnzi)]
        simp [hLi, final_cons_endR]
    · simp only [ha0, if_false]
      by_cases hlt : A - u < it.len
      · -- the window ends inside this line
        simp only [hlt, if_true]
        have hdrop := hF A (by omega) (by omega)
        have hcarry : it.line.take (A - u) ++ rem.drop (A - carry0.length) = text (it :: rest) := by
          rw [hdrop]
          have : it.line.take (A - u) = (text (it :: rest)).take (A - u) := by
            simp only [text_cons]; rw [List.take_append_of_le_length (by simp; omega)]
          rw [this, List.take_append_drop]
        have hAc : A - carry0.length = (window orc rem).length := by omega
        have hpre : ∀ tot', Pre ⟨ph, it.line.take (A - u), tot', md⟩ (rem.drop (window orc rem).length) (it :: rest) := by
          intro tot'
          refine ⟨⟨hitph, hch'⟩, fun x hx => hok x (by rw [hsplit]; simp [hx]), ?_, ?_, hph⟩
          · simp only; rw [← hAc]; exact hcarry
          · simp only [CarryOk, List.length_take, Item.line_length]; omega
        have hshape : Shape (it :: rest) := by
          apply hsh done (it :: rest) hsplit
          by_cases hd : done = []
          · right; right
            refine ⟨it, rest, rfl, ?_⟩
            subst hd; simp at hU; omega
          · exact Or.inl hd
        by_cases ht0 : (outs done).length = 0
        · have hop : outs done = [] := List.eq_nil_of_length_eq_zero ht0
          simp only [ht0, if_true, loopR_cons_more, cont]
          have : ¬ ((window orc rem).length = 0) := by omega
          simp only [this, if_false]
          rw [IH orc.tail ⟨ph, it.line.take (A - u), tot0, md⟩ _ (it :: rest) (by simp; omega) (hpre tot0) hshape
            (hLi ▸ hnzi), hop]
          simp only [hLi, List.nil_append]
        · have hop : outs done ≠ [] := by intro h; rw [h] at ht0; exact ht0 rfl
          simp only [ht0, if_false, loopR_cons_fin, List.append_nil, cont, hnotrunc, hop]
          have hu' : ¬ (((u + (A - u) : Nat) : Int) - ((A : Int) - ((window orc rem).length : Nat)) ≤ 0 ∨ rem = []) := by
            intro h; rcases h with h | h
            · omega
            · exact hrem h
          simp only [hu', if_false]
          have hk : (((u + (A - u) : Nat) : Int) - ((A : Int) - ((window orc rem).length : Nat))).toNat = (window orc rem).length := by omega
          rw [hk, IH orc.tail ⟨ph, it.line.take (A - u), tot0 + (outs done).length, md⟩ _ (it :: rest)
            (by simp; omega) (hpre _) hshape (hLi ▸ hnzi)]
          simp [hLi, final_cons_endR]
      · simp only [hlt, if_false]
        by_cases hfull : needsRoom ph = true ∧ (outs done).length + it.len * 2 > outBuffSize
        · -- no room left in the output buffer: the call returns what it has
          simp only [hfull, and_self, if_true, loopR_cons_fin, List.append_nil, cont, hnotrunc, if_false]
          have htpos : 0 < (outs done).length := by
            rcases hit.small with h | h
            · omega
            · rw [hitph] at h; rw [h] at hfull; exact absurd hfull.1 (by simp)
          have hop : outs done ≠ [] := by intro h; rw [h] at htpos; simp at htpos
          have hc0 := hdc (hopd hop)
          simp only [hop, if_false]
          have hu' : ¬ ((u : Int) - ((A : Int) - ((window orc rem).length : Nat)) ≤ 0 ∨ rem = []) := by
            intro h; rcases h with h | h
            · omega
            · exact hrem h
          simp only [hu', if_false]
          have hk : ((u : Int) - ((A : Int) - ((window orc rem).length : Nat))).toNat = u - carry0.length := by omega
          rw [hk]
          have hdrop := hF u (by omega) (by omega)
          simp only [Nat.sub_self, List.drop_zero] at hdrop
          rw [IH orc.tail ⟨ph, [], tot0 + (outs done).length, md⟩ (rem.drop (u - carry0.length)) (it :: rest)
            (by simp; omega)
            ⟨⟨hitph, hch'⟩, fun x hx => hok x (by rw [hsplit]; simp [hx]), by simp [hdrop],
              by simp [CarryOk, Item.len], hph⟩
            (hsh done (it :: rest) hsplit (Or.inl (hopd hop))) (hLi ▸ hnzi)]
          simp [hLi, final_cons_endR]
        · -- the line is processed; go on with the next one
          simp only [hfull, if_false, cons_cons]
          have hsplit' : items0 = (done ++ [it]) ++ rest := by rw [hsplit]; simp
          have h1 : (text (done ++ [it])).length = u + it.len := by simp [text_append, hU]
          have h2 : outs (done ++ [it]) = outs done ++ it.out := by simp [outs_append]
          have := ih (done ++ [it]) it.ph' (it.mdf md) hsplit' (by rw [h1]; omega) hch' hit.notIgnore.2
            (by simpa [lastPhase] using hLi)
          rw [h1, h2] at this
          have h3 : A - (u + it.len) = A - u - it.len := by omega
          rw [h3] at this
          simp only [List.length_append] at this
          rw [this]; simp

theorem loopR_cons_nil (r : LoopR) : LoopR.cons [] r = r := by cases r <;> simp [LoopR.cons]

theorem carry_le_max (carry : List Nat) (items : List Item) (hc : CarryOk carry items)
    (hok : ∀ it ∈ items, ItemOk it) : carry.length ≤ maxLineLength := by
  cases items with
  | nil => simp [CarryOk] at hc; simp [hc]
  | cons it r => simp only [CarryOk] at hc; have := (hok it (by simp)).short; omega

/-- The visible bytes of a call are a prefix of the text that is left. -/
theorem buf_take (carry rem : List Nat) (orc : List Nat) (T : List Nat) (hT : carry ++ rem = T) :
    carry ++ window orc rem = T.take (carry.length + (window orc rem).length) := by
  rw [← hT, List.take_append]
  simp only [Nat.add_sub_cancel_left]
  rw [List.take_of_length_le (by omega), ← window_take]

/-- One call of the consumer's loop in terms of `specLoop`. -/
theorem decodeLoop_spec (orc : List Nat) (st : RState) (rem : List Nat) (items : List Item)
    (hpre : Pre st rem items) :
    decodeLoop orc st rem =
      cont orc st.total rem (window orc rem) (st.carry.length + (window orc rem).length)
        (specLoop (st.carry.length + (window orc rem).length) items 0 0 st.phase st.md) := by
  obtain ⟨hch, hok, hT, hcar, hph⟩ := hpre
  rw [decodeLoop_eq orc st rem hph (carry_le_max _ _ hcar hok)]
  have hwl := window_length_le orc rem
  have hlenT : st.carry.length + rem.length = (text items).length := by rw [← hT]; simp
  rw [List.length_append, buf_take st.carry rem orc (text items) hT]
  rw [lineLoop_spec (window orc rem).length st.total items _ 0 0 st.phase st.md hch hok (by omega) (by simp)]
  -- an empty window means the stream is exhausted, and then nothing is carried either
  by_cases hw : 0 < (window orc rem).length
  · exact Or.inr hw
  · left
    have hr : rem = [] := by
      by_cases hr : rem = []
      · exact hr
      · exact absurd (List.length_pos_iff.mpr (window_ne_nil orc rem hr)) hw
    subst hr
    cases items with
    | nil => simp [CarryOk] at hcar; simp [hcar, window]; cases orc <;> simp
    | cons it r =>
      simp only [CarryOk] at hcar
      simp only [text_cons, List.length_append, Item.line_length, List.length_nil] at hlenT
      omega

/-- **Every sequence of read windows**: from a line boundary (possibly with a
partial line carried over), the consumer gets exactly what the remaining lines
decode to; then the end of data — or, when the lines stop inside the encoded
body, an error. -/
theorem decode_items : ∀ (n : Nat) (orc : List Nat) (st : RState) (rem : List Nat) (items : List Item),
    rem.length = n → Pre st rem items → Shape items → NoZeroSuffix (lastPhase st.phase items) items →
    decodeLoop orc st rem = endR (lastPhase st.phase items) (outs items) := by
  intro n
  induction n using Nat.strongRecOn with
  | _ n ihn =>
    intro orc st rem items hn hpre hshape hnz
    rw [decodeLoop_spec orc st rem items hpre]
    obtain ⟨hch, hok, hT, hcar, hph⟩ := hpre
    have hwl := window_length_le orc rem
    have hlenT : st.carry.length + rem.length = (text items).length := by rw [← hT]; simp
    have h0 : st.carry.length + (window orc rem).length = 0 → items = [] := by
      intro h
      have hr : rem = [] := by
        by_cases hr : rem = []
        · exact hr
        · have := List.length_pos_iff.mpr (window_ne_nil orc rem hr); omega
      cases items with
      | nil => rfl
      | cons it r =>
        subst hr
        simp only [text_cons, List.length_append, Item.line_length, List.length_nil] at hlenT
        simp [Item.len] at hlenT; omega
    have := inner orc st.total st.carry rem items (lastPhase st.phase items) hT hcar hok
      (safe_of_shape items _ hshape h0) hnz
      (fun done items' hs _ => shape_suffix done items' (hs ▸ hshape))
      (fun orc' st' rem' items' hlt hp hs hz => ihn rem'.length (by omega) orc' st' rem' items' rfl hp hs hz)
      items [] st.phase st.md rfl (by simp) hch hph rfl
    simpa [loopR_cons_nil] using this

/-- The same from the very beginning of a stream whose first line (the `begin`
line) decodes to nothing: the first window must reach beyond that line. -/
theorem decode_with_header (first : Nat) (orc : List Nat) (hdr : Item) (rest0 : List Item)
    (hch : Chain .findHead (hdr :: rest0)) (hok : ∀ it ∈ hdr :: rest0, ItemOk it)
    (hout : hdr.out = []) (hshape : Shape rest0) (hfirst : hdr.len ≤ first)
    (hnz : NoZeroSuffix (lastPhase hdr.ph' rest0) (hdr :: rest0)) :
    decode first orc (text (hdr :: rest0)) = endR (lastPhase hdr.ph' rest0) (outs rest0) := by
  unfold decode
  have hpre : Pre ({} : RState) (text (hdr :: rest0)) (hdr :: rest0) :=
    ⟨hch, hok, by simp, by simp [CarryOk, Item.len], by simp⟩
  rw [decodeLoop_spec _ _ _ _ hpre]
  have hwin : window (first :: orc) (text (hdr :: rest0)) = (text (hdr :: rest0)).take (first + 1) := rfl
  have hwl : (window (first :: orc) (text (hdr :: rest0))).length = min (first + 1) (text (hdr :: rest0)).length := by
    rw [hwin, List.length_take]
  have hTl : (text (hdr :: rest0)).length = hdr.len + (text rest0).length := by simp
  generalize hA : ({} : RState).carry.length + (window (first :: orc) (text (hdr :: rest0))).length = A at *
  have hA' : A = min (first + 1) (hdr.len + (text rest0).length) := by
    rw [← hA, hwl, hTl]; simp
  have hAge : hdr.len ≤ A := by omega
  have hAgt : hdr.len < A ∨ rest0 = [] := by
    by_cases hr : rest0 = []
    · exact Or.inr hr
    · left
      cases rest0 with
      | nil => exact absurd rfl hr
      | cons x xs => have := text_length_pos x xs; omega
  have hsafe : Safe (hdr :: rest0) A := by
    intro done items hs hnil hlen
    cases done with
    | nil => simp at hlen; have := hdr.len; simp [Item.len] at hAge; omega
    | cons d ds =>
      simp only [List.cons_append, List.cons.injEq] at hs
      obtain ⟨rfl, hs2⟩ := hs
      have hds : outs ds = [] := by
        simp only [outs_cons, List.append_eq_nil_iff] at hnil; exact hnil.2
      cases ds with
      | nil =>
        simp at hlen
        rcases hAgt with h | h
        · omega
        · rw [h] at hs2; have : items = [] := by simpa using hs2.symm
          simp [this]
      | cons e es =>
        exact safe_of_shape rest0 (text (e :: es)).length hshape
          (fun h => by have := text_length_pos e es; omega) (e :: es) items hs2 hds rfl
  have hsh : ∀ done items, hdr :: rest0 = done ++ items →
      (done ≠ [] ∨ items = [] ∨ ∃ it rest, items = it :: rest ∧
        ({} : RState).carry.length + (window (first :: orc) (text (hdr :: rest0))).length < it.len) → Shape items := by
    intro done items hs hcase
    cases done with
    | nil =>
      rcases hcase with h | h | ⟨it, rest, h1, h2⟩
      · exact absurd rfl h
      · rw [h] at hs; simp at hs
      · simp only [List.nil_append] at hs
        rw [h1] at hs
        simp only [List.cons.injEq] at hs
        rw [hA, ← hs.1] at h2; omega
    | cons d ds =>
      simp only [List.cons_append, List.cons.injEq] at hs
      exact shape_suffix ds items (hs.2 ▸ hshape)
  rw [← hA] at hsafe
  have := inner (first :: orc) ({} : RState).total ({} : RState).carry (text (hdr :: rest0)) (hdr :: rest0)
    (lastPhase hdr.ph' rest0)
    (by simp) (by simp [CarryOk, Item.len]) hok hsafe hnz hsh
    (fun orc' st' rem' items' _ hp hs hz => decode_items rem'.length orc' st' rem' items' rfl hp hs hz)
    (hdr :: rest0) [] .findHead {} rfl (by simp) hch (by simp) rfl
  rw [hA] at this
  simpa [loopR_cons_nil, hout] using this

end LA.UuRead
