/- Lemmas about the ustar header writer and the tar header reader (C10, C02). Core Lean only. -/
import LA.Lemmas.Bytes
import LA.Lemmas.NumFmt
namespace LA.Codec
open LA.NumFmt LA.Gen.TarLayout

/-! ### `strchr` -/

theorem findSlash_some (s : List Nat) (k : Nat) (h : findSlash s = some k) :
    k < s.length ∧ s[k]? = some slash := by
  induction s generalizing k with
  | nil => simp [findSlash] at h
  | cons c r ih =>
    simp only [findSlash] at h
    by_cases hc : c = slash
    · rw [if_pos hc] at h; cases h; simp [hc]
    · rw [if_neg hc] at h
      cases hr : findSlash r with
      | none => rw [hr] at h; simp at h
      | some j =>
        rw [hr] at h; simp at h; subst h
        have := ih j hr
        simp only [List.length_cons, List.getElem?_cons_succ]
        exact ⟨by omega, this.2⟩

theorem findSlashFrom_some (s : List Nat) (i p : Nat) (h : findSlashFrom s i = some p) :
    i ≤ p ∧ p < s.length ∧ s[p]? = some slash := by
  unfold findSlashFrom at h
  cases hr : findSlash (s.drop i) with
  | none => rw [hr] at h; simp at h
  | some j =>
    rw [hr] at h; simp at h; subst h
    have := findSlash_some _ _ hr
    simp only [List.length_drop, List.getElem?_drop] at this
    refine ⟨by omega, by omega, ?_⟩
    rw [Nat.add_comm]; exact this.2

theorem ustarSep_some (pp : List Nat) (p : Nat) (h : ustarSep pp = some p) :
    pp.length - ustar_name_size - 1 ≤ p ∧ 0 < p ∧ p < pp.length ∧ pp[p]? = some slash := by
  unfold ustarSep at h
  cases h0 : findSlashFrom pp (pp.length - ustar_name_size - 1) with
  | none => rw [h0] at h; cases h
  | some j =>
    rw [h0] at h
    have hj := findSlashFrom_some _ _ _ h0
    cases j with
    | zero =>
      simp only [] at h
      have := findSlashFrom_some _ _ _ h
      exact ⟨by omega, by omega, this.2.1, this.2.2⟩
    | succ j =>
      simp only [] at h
      cases h
      exact ⟨hj.1, by omega, hj.2.1, hj.2.2⟩

/-- What an accepted prefix/name split guarantees. -/
theorem ustarSplit_split (pp : List Nat) (p : Nat) (h : ustarSplit pp = .split p) :
    0 < p ∧ p ≤ ustar_prefix_size ∧ p + 1 < pp.length ∧ pp.length - (p + 1) ≤ ustar_name_size
    ∧ pp[p]? = some slash := by
  unfold ustarSplit at h
  by_cases hlen : pp.length ≤ ustar_name_size
  · rw [if_pos hlen] at h; cases h
  · rw [if_neg hlen] at h
    cases hq : ustarSep pp with
    | none => rw [hq] at h; cases h
    | some k =>
      rw [hq] at h
      simp only [] at h
      by_cases h1 : k + 1 = pp.length
      · rw [if_pos h1] at h; cases h
      · rw [if_neg h1] at h
        by_cases h2 : k > ustar_prefix_size
        · rw [if_pos h2] at h; cases h
        · rw [if_neg h2] at h
          cases h
          have hk := ustarSep_some _ _ hq
          refine ⟨hk.2.1, by omega, by omega, ?_, hk.2.2.2⟩
          simp only [ustar_name_size] at *; omega

theorem ustarSplit_whole (pp : List Nat) (h : ustarSplit pp = .whole) : pp.length ≤ ustar_name_size := by
  unfold ustarSplit at h
  by_cases hlen : pp.length ≤ ustar_name_size
  · exact hlen
  · rw [if_neg hlen] at h
    cases hq : ustarSep pp with
    | none => rw [hq] at h; cases h
    | some k =>
      rw [hq] at h
      simp only [] at h
      split at h
      · cases h
      · split at h <;> cases h

/-! ### the header as a table of fields -/

def splitPrefix (path : List Nat) : List Nat := match ustarSplit path with | .split p => path.take p | _ => []
def splitName (path : List Nat) : List Nat :=
  match ustarSplit path with | .whole => path | .split p => path.drop (p + 1) | .tooLong => []

/-- The fields of the header with the widths the *reader* uses (`struct archive_entry_header_ustar`). -/
def ustarFields (e : Entry) (path : List Nat) (size : Int) : List FieldW :=
  let nf := ustarNumFields e size
  [ ⟨ustar_prefix_offset, rd_prefix_size, splitPrefix path⟩,
    ⟨ustar_name_offset, rd_name_size, splitName path⟩,
    ⟨ustar_linkname_offset, rd_linkname_size, (tarLink e).take ustar_linkname_size⟩,
    ⟨ustar_uname_offset, rd_uname_size, e.uname.take ustar_uname_size⟩,
    ⟨ustar_gname_offset, rd_gname_size, e.gname.take ustar_gname_size⟩ ] ++
  (nf.zip [rd_mode_size, rd_uid_size, rd_gid_size, rd_size_size, rd_mtime_size, rd_rdevmajor_size, rd_rdevminor_size]).map
    (fun fw => ⟨fw.1.off, fw.2, fw.1.bytes true⟩) ++
  [ ⟨ustar_typeflag_offset, rd_typeflag_size, match ustarType e none with | some t => [t] | none => []⟩ ]

theorem ustarWrites_eq_fields (e : Entry) (path : List Nat) (size : Int) :
    ustarWrites e path size none true = fieldWrites (ustarFields e path size) := by
  simp only [ustarWrites, ustarFields, fieldWrites, ustarNumFields, splitPrefix, splitName,
    List.map, List.zip, List.zipWith, List.cons_append, List.nil_append]
  rfl

theorem ustarFields_disjoint (e : Entry) (path : List Nat) (size : Int) :
    (ustarFields e path size).Pairwise FieldW.disjoint := by
  simp only [ustarFields, ustarNumFields, List.map, List.zip, List.zipWith, List.cons_append, List.nil_append,
    List.pairwise_cons, List.mem_cons, List.mem_nil_iff, or_false, forall_eq_or_imp, forall_eq, FieldW.disjoint,
    List.Pairwise.nil, List.not_mem_nil, false_imp_iff, implies_true, and_true,
    ustar_prefix_offset, ustar_name_offset, ustar_linkname_offset, ustar_uname_offset, ustar_gname_offset,
    ustar_mode_offset, ustar_uid_offset, ustar_gid_offset, ustar_size_offset, ustar_mtime_offset,
    ustar_rdevmajor_offset, ustar_rdevminor_offset, ustar_typeflag_offset,
    rd_prefix_size, rd_name_size, rd_linkname_size, rd_uname_size, rd_gname_size, rd_mode_size, rd_uid_size,
    rd_gid_size, rd_size_size, rd_mtime_size, rd_rdevmajor_size, rd_rdevminor_size, rd_typeflag_size]
  omega

set_option maxRecDepth 8192 in
theorem ustar_template_length : ustar_template.length = 512 := by decide

theorem numfield_bytes_length (f : NumField) : (f.bytes true).length = if f.active then f.size else 0 := by
  unfold NumField.bytes
  by_cases h : f.active
  · simp only [h, if_true]
    rw [ustarFormatNumber]; simp only [if_true]
    rw [ustarFormatOctal_eq]; split
    · simp
    · split <;> simp [octHead_length]
  · simp [h]

theorem splitPrefix_length (path : List Nat) : (splitPrefix path).length ≤ rd_prefix_size := by
  unfold splitPrefix
  cases h : ustarSplit path with
  | whole => simp
  | tooLong => simp
  | split p =>
    have := ustarSplit_split _ _ h
    simp only [List.length_take, rd_prefix_size, ustar_prefix_size] at *; omega

theorem splitName_length (path : List Nat) : (splitName path).length ≤ rd_name_size := by
  unfold splitName
  cases h : ustarSplit path with
  | whole => have := ustarSplit_whole _ h; simp only [rd_name_size, ustar_name_size] at *; omega
  | tooLong => simp
  | split p =>
    have := ustarSplit_split _ _ h
    simp only [List.length_drop, rd_name_size, ustar_name_size] at *; omega

theorem ustarFields_fit (e : Entry) (path : List Nat) (size : Int) :
    ∀ f ∈ ustarFields e path size, f.bytes.length ≤ f.width ∧ f.off + f.width ≤ ustar_template.length := by
  rw [ustar_template_length]
  have hp := splitPrefix_length path
  have hn := splitName_length path
  simp only [ustarFields, ustarNumFields, List.map, List.zip, List.zipWith, List.cons_append, List.nil_append,
    List.mem_cons, List.mem_nil_iff, or_false, forall_eq_or_imp, forall_eq, numfield_bytes_length,
    List.length_take, ↓reduceIte,
    ustar_prefix_offset, ustar_name_offset, ustar_linkname_offset, ustar_uname_offset, ustar_gname_offset,
    ustar_mode_offset, ustar_uid_offset, ustar_gid_offset, ustar_size_offset, ustar_mtime_offset,
    ustar_rdevmajor_offset, ustar_rdevminor_offset, ustar_typeflag_offset,
    ustar_linkname_size, ustar_uname_size, ustar_gname_size, ustar_mode_size, ustar_uid_size, ustar_gid_size,
    ustar_size_size, ustar_mtime_size, ustar_rdevmajor_size, ustar_rdevminor_size,
    rd_prefix_size, rd_name_size, rd_linkname_size, rd_uname_size, rd_gname_size, rd_mode_size, rd_uid_size,
    rd_gid_size, rd_size_size, rd_mtime_size, rd_rdevmajor_size, rd_rdevminor_size, rd_typeflag_size] at *
  refine ⟨by omega, by omega, by omega, by omega, by omega, ?_⟩
  refine ⟨by omega, by omega, by omega, by omega, by omega, ?_, ?_, ?_⟩
  · split <;> omega
  · split <;> omega
  · split <;> simp

/-- The header before the checksum is stored. -/
def ustarPre (e : Entry) (path : List Nat) (size : Int) : List Nat :=
  applyWrites ustar_template (ustarWrites e path size none true)

theorem ustarPre_length (e : Entry) (path : List Nat) (size : Int) : (ustarPre e path size).length = 512 := by
  unfold ustarPre
  rw [ustarWrites_eq_fields, fieldWrites_length _ _ (ustarFields_fit e path size), ustar_template_length]

/-- Reading one field of the table out of the pre-checksum header. -/
theorem ustarPre_field (e : Entry) (path : List Nat) (size : Int) (f : FieldW) (hf : f ∈ ustarFields e path size) :
    slice (ustarPre e path size) f.off f.width
      = f.bytes ++ slice ustar_template (f.off + f.bytes.length) (f.width - f.bytes.length) := by
  unfold ustarPre
  rw [ustarWrites_eq_fields]
  exact field_read _ _ (ustarFields_fit e path size) (ustarFields_disjoint e path size) f hf

/-! ### what the template holds around the fields -/

section template
set_option maxRecDepth 16384

theorem tpl_zero_name : ((ustar_template.drop 0).take (100 - 0)).all (· == 0) = true := by decide
theorem tpl_zero_link : ((ustar_template.drop 157).take (257 - 157)).all (· == 0) = true := by decide
theorem tpl_zero_names : ((ustar_template.drop 265).take (329 - 265)).all (· == 0) = true := by decide
theorem tpl_zero_prefix : ((ustar_template.drop 345).take (500 - 345)).all (· == 0) = true := by decide
theorem tpl_mode_tail : slice ustar_template 106 2 = [32, 0] := by decide
theorem tpl_uid_tail : slice ustar_template 114 2 = [32, 0] := by decide
theorem tpl_gid_tail : slice ustar_template 122 2 = [32, 0] := by decide
theorem tpl_size_tail : slice ustar_template 135 1 = [32] := by decide
theorem tpl_mtime_tail : slice ustar_template 147 1 = [32] := by decide
theorem tpl_rdevmajor_tail : slice ustar_template 335 2 = [32, 0] := by decide
theorem tpl_rdevminor_tail : slice ustar_template 343 2 = [32, 0] := by decide
theorem tpl_rdevmajor : slice ustar_template 329 8 = [48, 48, 48, 48, 48, 48, 32, 0] := by decide
theorem tpl_rdevminor : slice ustar_template 337 8 = [48, 48, 48, 48, 48, 48, 32, 0] := by decide
theorem tpl_typeflag : slice ustar_template 156 1 = [48] := by decide
theorem tpl_magic : slice ustar_template 257 8 = [117, 115, 116, 97, 114, 0, 48, 48] := by decide
theorem tpl_checksum : slice ustar_template 148 8 = [32, 32, 32, 32, 32, 32, 32, 32] := by decide
theorem tpl_isBytes : ustar_template.all (· < 256) = true := by decide

end template

theorem tpl_zero_slice (a b : Nat) (hall : ((ustar_template.drop a).take (b - a)).all (· == 0) = true)
    (o n : Nat) (ha : a ≤ o) (hb : o + n ≤ b) (hb512 : b ≤ 512) :
    slice ustar_template o n = List.replicate n 0 := by
  apply slice_eq_replicate
  · rw [ustar_template_length]; omega
  · intro i h1 h2
    exact zone_of_all _ a b 0 hall i (by omega) (by omega) (by rw [ustar_template_length]; omega)

/-- A string field of the pre-checksum header: the stored bytes, then zeros. -/
theorem ustarPre_string (e : Entry) (path : List Nat) (size : Int) (f : FieldW) (hf : f ∈ ustarFields e path size)
    (a b : Nat) (hall : ((ustar_template.drop a).take (b - a)).all (· == 0) = true)
    (ha : a ≤ f.off) (hb : f.off + f.width ≤ b) (hb512 : b ≤ 512) :
    slice (ustarPre e path size) f.off f.width = f.bytes ++ List.replicate (f.width - f.bytes.length) 0 := by
  rw [ustarPre_field e path size f hf]
  have := (ustarFields_fit e path size f hf).1
  rw [tpl_zero_slice a b hall _ _ (by omega) (by omega) hb512]

/-! ### the checksum -/

theorem ustarChecksum_digits_length (h : List Nat) : (ustarFormatOctal (sumBytes h) 6).2.length = 6 := by
  rw [ustarFormatOctal_eq]; split
  · simp
  · split <;> simp [octHead_length]

/-- Storing the checksum leaves everything outside bytes 148 … 154 alone. -/
theorem slice_ustarChecksum (h : List Nat) (hlen : h.length = 512) (o n : Nat) (hd : o + n ≤ 148 ∨ 155 ≤ o) :
    slice (ustarChecksum h) o n = slice h o n := by
  unfold ustarChecksum
  simp only [ustar_checksum_offset]
  have hl := ustarChecksum_digits_length h
  have h1 : (poke h (148 + 6) [0]).length = 512 := by rw [poke_length _ _ _ (by simp; omega)]; exact hlen
  rw [slice_poke_disjoint _ _ _ _ _ (by rw [h1, hl]; omega) (by rw [hl]; omega)]
  exact slice_poke_disjoint _ _ _ _ _ (by simp; omega) (by simp; omega)

theorem ustarChecksum_length (h : List Nat) (hlen : h.length = 512) : (ustarChecksum h).length = 512 := by
  unfold ustarChecksum
  simp only [ustar_checksum_offset]
  have hl := ustarChecksum_digits_length h
  have h1 : (poke h (148 + 6) [0]).length = 512 := by rw [poke_length _ _ _ (by simp; omega)]; exact hlen
  rw [poke_length _ _ _ (by rw [h1, hl]; omega)]; exact h1

/-- The checksum field as the reader sees it: six digits, NUL, and the byte that was at 155. -/
theorem slice_ustarChecksum_field (h : List Nat) (hlen : h.length = 512) :
    slice (ustarChecksum h) 148 8 = (ustarFormatOctal (sumBytes h) 6).2 ++ ([0] ++ slice h 155 1) := by
  unfold ustarChecksum
  simp only [ustar_checksum_offset]
  have hl := ustarChecksum_digits_length h
  have h1 : (poke h (148 + 6) [0]).length = 512 := by rw [poke_length _ _ _ (by simp; omega)]; exact hlen
  rw [slice_poke_own _ _ _ 8 (by rw [h1, hl]; omega) (by rw [hl]; omega), hl]
  congr 1
  show slice (poke h 154 [0]) 154 2 = _
  rw [slice_poke_own _ _ _ 2 (by simp; omega) (by simp)]
  rfl

theorem toI64_small (n : Nat) (h : n < 9223372036854775808) : toI64 n = (n : Int) := by
  unfold toI64
  have : n % 18446744073709551616 = n := Nat.mod_eq_of_lt (by omega)
  simp only [this, if_pos h]

/-- The reader accepts the checksum the writer stored. -/
theorem tarChecksumOk_ustarChecksum (pre : List Nat) (hlen : pre.length = 512) (hb : isBytes pre)
    (hsp : slice pre 148 8 = List.replicate 8 32) (hsp1 : slice pre 155 1 = [32]) :
    tarChecksumOk (ustarChecksum pre) = true := by
  have hS : sumBytes pre ≤ 130560 := by have := sumBytes_le pre hb; rw [hlen] at this; omega
  have hS8 : sumBytes pre < 8 ^ 6 := by have : (8 : Nat) ^ 6 = 262144 := by decide
                                        omega
  have hd6 : (ustarFormatOctal (sumBytes pre) 6).2 = octHead (sumBytes pre) 6 := by
    rw [ustarFormatOctal_eq]
    have h1 : ¬ ((sumBytes pre : Nat) : Int) < 0 := by omega
    have h2 : ((sumBytes pre : Nat) : Int).toNat < 8 ^ 6 := by simpa using hS8
    rw [if_neg h1, if_pos h2]; simp
  have hfield : slice (ustarChecksum pre) rd_checksum_offset rd_checksum_size
      = octHead (sumBytes pre) 6 ++ [0, 32] := by
    simp only [rd_checksum_offset, rd_checksum_size]
    rw [slice_ustarChecksum_field pre hlen, hd6, hsp1]; rfl
  have hatol : tarAtol (octHead (sumBytes pre) 6 ++ [0, 32]) = ((sumBytes pre : Nat) : Int) :=
    tarAtol_octHead _ 6 _ (by decide) hS8 (by omega) (Or.inr ⟨0, [32], rfl, by unfold nonOctal c0; omega⟩)
  have hchars : (octHead (sumBytes pre) 6 ++ [0, 32]).all (fun c => c == 32 || c == 0 || (48 ≤ c && c ≤ 55)) = true := by
    rw [List.all_eq_true]
    intro c hc
    rcases List.mem_append.1 hc with hc | hc
    · have := octHead_digit _ _ c hc
      simp only [c0, c7] at this
      simp only [Bool.or_eq_true, beq_iff_eq, Bool.and_eq_true, decide_eq_true_eq]
      right; exact this
    · simp only [List.mem_cons, List.mem_nil_iff, or_false] at hc
      rcases hc with rfl | rfl <;> decide
  -- the blanked block sums to the same value
  have hblank : sumBytes (poke (ustarChecksum pre) rd_checksum_offset (List.replicate 8 32)) = sumBytes pre := by
    simp only [rd_checksum_offset]
    have hFlen := ustarChecksum_length pre hlen
    have hBlen : (poke (ustarChecksum pre) 148 (List.replicate 8 32)).length = 512 := by
      rw [poke_length _ _ _ (by simp; omega)]; exact hFlen
    rw [split3 (poke (ustarChecksum pre) 148 (List.replicate 8 32)) 148 8 (by omega)]
    conv => rhs; rw [split3 pre 148 8 (by omega)]
    simp only [sumBytes_append, hBlen, hlen]
    have e1 : slice (poke (ustarChecksum pre) 148 (List.replicate 8 32)) 0 148 = slice pre 0 148 := by
      rw [slice_poke_disjoint _ _ _ _ _ (by simp; omega) (by simp)]
      exact slice_ustarChecksum pre hlen 0 148 (by omega)
    have e2 : slice (poke (ustarChecksum pre) 148 (List.replicate 8 32)) 148 8 = List.replicate 8 32 := by
      rw [slice_poke_own _ _ _ 8 (by simp; omega) (by simp)]; simp [slice]
    have e3 : slice (poke (ustarChecksum pre) 148 (List.replicate 8 32)) (148 + 8) (512 - (148 + 8))
        = slice pre (148 + 8) (512 - (148 + 8)) := by
      rw [slice_poke_disjoint _ _ _ _ _ (by simp; omega) (by simp)]
      exact slice_ustarChecksum pre hlen _ _ (by omega)
    rw [e1, e2, e3, hsp]
  unfold tarChecksumOk
  simp only [hfield, hchars, hatol, hblank, Bool.not_true, Bool.false_eq_true, if_false]
  have hm : (((sumBytes pre : Nat) : Int) % 4294967296).toNat = sumBytes pre := by omega
  rw [hm, toI64_small _ (by omega)]
  have hlt : ¬ ((sumBytes pre : Nat) : Int) ≥ 2147483648 := by omega
  simp only [if_neg hlt, beq_self_eq_true, Bool.true_or]

/-! ### the finished header, field by field -/

/-- A C string of bytes: no NUL, every element a byte. -/
def wfStr (s : List Nat) : Prop := ∀ c ∈ s, c ≠ 0 ∧ c < 256

theorem wfStr_noNul {s : List Nat} (h : wfStr s) : noNul s := fun c hc => (h c hc).1
theorem wfStr_isBytes {s : List Nat} (h : wfStr s) : isBytes s := fun c hc => (h c hc).2
theorem wfStr_take {s : List Nat} (h : wfStr s) (n : Nat) : wfStr (s.take n) := fun c hc => h c (List.mem_of_mem_take hc)
theorem wfStr_drop {s : List Nat} (h : wfStr s) (n : Nat) : wfStr (s.drop n) := fun c hc => h c (List.mem_of_mem_drop hc)

def ustarHdr (e : Entry) (path : List Nat) (size : Int) : List Nat := (ustarFormatHeader e path size none true).2

theorem ustarHdr_eq (e : Entry) (path : List Nat) (size : Int) :
    ustarHdr e path size = ustarChecksum (ustarPre e path size) := rfl

theorem ustarHdr_length (e : Entry) (path : List Nat) (size : Int) : (ustarHdr e path size).length = 512 := by
  rw [ustarHdr_eq]; exact ustarChecksum_length _ (ustarPre_length e path size)

theorem ustarHdr_slice (e : Entry) (path : List Nat) (size : Int) (o n : Nat) (hd : o + n ≤ 148 ∨ 155 ≤ o) :
    slice (ustarHdr e path size) o n = slice (ustarPre e path size) o n := by
  rw [ustarHdr_eq]; exact slice_ustarChecksum _ (ustarPre_length e path size) o n hd

theorem splitPrefix_wf (path : List Nat) (h : wfStr path) : wfStr (splitPrefix path) := by
  unfold splitPrefix; split
  · exact wfStr_take h _
  · intro c hc; cases hc

theorem splitName_wf (path : List Nat) (h : wfStr path) : wfStr (splitName path) := by
  unfold splitName; split
  · exact h
  · exact wfStr_drop h _
  · intro c hc; cases hc

theorem mem_ustarFields_prefix (e : Entry) (path : List Nat) (size : Int) :
    (⟨ustar_prefix_offset, rd_prefix_size, splitPrefix path⟩ : FieldW) ∈ ustarFields e path size := by
  simp [ustarFields]
theorem mem_ustarFields_name (e : Entry) (path : List Nat) (size : Int) :
    (⟨ustar_name_offset, rd_name_size, splitName path⟩ : FieldW) ∈ ustarFields e path size := by
  simp [ustarFields]
theorem mem_ustarFields_link (e : Entry) (path : List Nat) (size : Int) :
    (⟨ustar_linkname_offset, rd_linkname_size, (tarLink e).take ustar_linkname_size⟩ : FieldW) ∈ ustarFields e path size := by
  simp [ustarFields]
theorem mem_ustarFields_uname (e : Entry) (path : List Nat) (size : Int) :
    (⟨ustar_uname_offset, rd_uname_size, e.uname.take ustar_uname_size⟩ : FieldW) ∈ ustarFields e path size := by
  simp [ustarFields]
theorem mem_ustarFields_gname (e : Entry) (path : List Nat) (size : Int) :
    (⟨ustar_gname_offset, rd_gname_size, e.gname.take ustar_gname_size⟩ : FieldW) ∈ ustarFields e path size := by
  simp [ustarFields]

/-- Reading a string field of the finished header. -/
theorem ustarHdr_str (e : Entry) (path : List Nat) (size : Int) (off width : Nat) (bytes : List Nat)
    (hf : (⟨off, width, bytes⟩ : FieldW) ∈ ustarFields e path size)
    (a b : Nat) (hall : ((ustar_template.drop a).take (b - a)).all (· == 0) = true)
    (ha : a ≤ off) (hb : off + width ≤ b) (hb512 : b ≤ 512)
    (hd : off + width ≤ 148 ∨ 155 ≤ off) (hwf : wfStr bytes) :
    tarStr (ustarHdr e path size) off width = bytes := by
  unfold tarStr
  rw [ustarHdr_slice _ _ _ _ _ hd]
  have := ustarPre_string e path size ⟨off, width, bytes⟩ hf a b hall ha hb hb512
  simp only [] at this
  rw [this]
  exact cstr_field _ _ (wfStr_noNul hwf)

theorem ustarHdr_name (e : Entry) (path : List Nat) (size : Int) (hwf : wfStr path) :
    tarStr (ustarHdr e path size) rd_name_offset rd_name_size = splitName path := by
  have := ustarHdr_str e path size 0 100 (splitName path) (mem_ustarFields_name e path size) 0 100 tpl_zero_name
    (by omega) (by omega) (by omega) (by omega) (splitName_wf path hwf)
  exact this

theorem ustarHdr_prefix (e : Entry) (path : List Nat) (size : Int) (hwf : wfStr path) :
    tarStr (ustarHdr e path size) rd_prefix_offset rd_prefix_size = splitPrefix path := by
  have := ustarHdr_str e path size 345 155 (splitPrefix path) (mem_ustarFields_prefix e path size) 345 500 tpl_zero_prefix
    (by omega) (by omega) (by omega) (by omega) (splitPrefix_wf path hwf)
  exact this

theorem ustarHdr_link (e : Entry) (path : List Nat) (size : Int) (hwf : wfStr (tarLink e))
    (hlen : (tarLink e).length ≤ ustar_linkname_size) :
    tarStr (ustarHdr e path size) rd_linkname_offset rd_linkname_size = tarLink e := by
  have := ustarHdr_str e path size 157 100 _ (mem_ustarFields_link e path size) 157 257 tpl_zero_link
    (by omega) (by omega) (by omega) (by omega) (wfStr_take hwf _)
  rw [List.take_of_length_le hlen] at this
  exact this

theorem ustarHdr_uname (e : Entry) (path : List Nat) (size : Int) (hwf : wfStr e.uname)
    (hlen : e.uname.length ≤ ustar_uname_size) :
    tarStr (ustarHdr e path size) rd_uname_offset rd_uname_size = e.uname := by
  have := ustarHdr_str e path size 265 32 _ (mem_ustarFields_uname e path size) 265 329 tpl_zero_names
    (by omega) (by omega) (by omega) (by omega) (wfStr_take hwf _)
  rw [List.take_of_length_le hlen] at this
  exact this

theorem ustarHdr_gname (e : Entry) (path : List Nat) (size : Int) (hwf : wfStr e.gname)
    (hlen : e.gname.length ≤ ustar_gname_size) :
    tarStr (ustarHdr e path size) rd_gname_offset rd_gname_size = e.gname := by
  have := ustarHdr_str e path size 297 32 _ (mem_ustarFields_gname e path size) 265 329 tpl_zero_names
    (by omega) (by omega) (by omega) (by omega) (wfStr_take hwf _)
  rw [List.take_of_length_le hlen] at this
  exact this

/-! ### numeric fields -/

/-- Reading an active numeric field whose `format_number` did not overflow: the reader's
`tar_atol` over its (wider) field returns the value. -/
theorem ustarHdr_num (e : Entry) (path : List Nat) (size : Int) (v : Int) (off s mx : Nat) (act : Bool) (w : Nat)
    (hf : (⟨off, w, (⟨v, off, s, mx, act⟩ : NumField).bytes true⟩ : FieldW) ∈ ustarFields e path size)
    (hact : act = true) (hok : (⟨v, off, s, mx, act⟩ : NumField).failed true = false) (hs : 0 < s) (hs20 : s ≤ 20)
    (tail : List Nat) (htail : slice ustar_template (off + s) (w - s) = tail)
    (ht : tail = [] ∨ ∃ c r, tail = c :: r ∧ nonOctal c)
    (hd : off + w ≤ 148 ∨ 155 ≤ off) :
    tarNum (ustarHdr e path size) off w = v := by
  unfold tarNum
  rw [ustarHdr_slice _ _ _ _ _ hd]
  have hr := ustarPre_field e path size ⟨off, w, (⟨v, off, s, mx, act⟩ : NumField).bytes true⟩ hf
  simp only [] at hr
  have hlen : ((⟨v, off, s, mx, act⟩ : NumField).bytes true).length = s := by
    rw [numfield_bytes_length]; simp [hact]
  rw [hr, hlen, htail]
  have hb : (⟨v, off, s, mx, act⟩ : NumField).bytes true = (ustarFormatOctal v s).2 := by
    unfold NumField.bytes; simp [hact, ustarFormatNumber]
  have hok' : (ustarFormatOctal v s).1 = false := by
    unfold NumField.failed at hok; simpa [hact, ustarFormatNumber] using hok
  rw [hb]
  exact tarAtol_ustarFormatOctal _ _ _ hs hs20 hok' ht

/-! ### putting the header back together -/

theorem ustarFailed_false (e : Entry) (path : List Nat) (size : Int)
    (h : ustarFailed e path size none true = false) :
    ustarSplit path ≠ .tooLong ∧ (tarLink e).length ≤ ustar_linkname_size
    ∧ e.uname.length ≤ ustar_uname_size ∧ e.gname.length ≤ ustar_gname_size
    ∧ (∀ f ∈ ustarNumFields e size, f.failed true = false) ∧ (ustarType e none).isSome = true := by
  unfold ustarFailed at h
  simp only [Bool.or_eq_false_iff, beq_eq_false_iff_ne, decide_eq_false_iff_not, Bool.and_eq_false_imp,
    decide_eq_true_eq, List.any_eq_false, Option.isNone_eq_false_iff] at h
  obtain ⟨⟨⟨⟨⟨h1, h2⟩, h3⟩, h4⟩, h5⟩, h6⟩ := h
  refine ⟨h1, by omega, ?_, ?_, ?_, ?_⟩
  · by_cases hu : e.uname.length > ustar_uname_size
    · have := h3 hu; simp at this
    · omega
  · by_cases hg : e.gname.length > ustar_gname_size
    · have := h4 hg; simp at this
    · omega
  · intro f hf; have := h5 f hf; simpa using this
  · exact h6

theorem take_slash_drop (l : List Nat) (p : Nat) (hp : l[p]? = some slash) :
    l.take p ++ [slash] ++ l.drop (p + 1) = l := by
  have hlt : p < l.length := by
    rcases Nat.lt_or_ge p l.length with h | h
    · exact h
    · rw [List.getElem?_eq_none h] at hp; cases hp
  have hget : l[p] = slash := by
    rw [List.getElem?_eq_getElem hlt] at hp; exact Option.some.inj hp
  rw [List.append_assoc, List.singleton_append, ← hget, List.getElem_cons_drop, List.take_append_drop]

/-- The reader rebuilds the pathname, provided a split prefix does not end in '/'. -/
theorem tarPath_ustarHdr (e : Entry) (path : List Nat) (size : Int) (hwf : wfStr path)
    (hsplit : ustarSplit path ≠ .tooLong)
    (hnodbl : ∀ p, ustarSplit path = .split p → (path.take p).getLast? ≠ some slash) :
    tarPath (ustarHdr e path size) false = path := by
  unfold tarPath
  simp only [ustarHdr_name e path size hwf, ustarHdr_prefix e path size hwf, Bool.false_eq_true, if_false]
  unfold splitPrefix splitName
  cases hs : ustarSplit path with
  | whole => simp
  | tooLong => exact absurd hs hsplit
  | split p =>
    simp only []
    obtain ⟨hp0, _, hplen, _, hslash⟩ := ustarSplit_split path p hs
    have hne : path.take p ≠ [] := by
      intro h
      have := congrArg List.length h
      simp only [List.length_take, List.length_nil] at this; omega
    rw [if_pos hne, if_pos (hnodbl p hs)]
    exact take_slash_drop path p hslash

/-- What the reader is expected to make of the header of `e`, in terms of `e` alone
(`t` = the type flag the writer chose). -/
def ustarSpecRB (e : Entry) (path : List Nat) (size : Int) (t : Nat) : Option (RB × Nat) :=
  match tarTypeSwitch { path := path, ftype := 0, perm := e.perm % 4096, uid := e.uid, gid := e.gid,
                        mtime := some e.mtime, size := some size } t (tarLink e) size with
  | none => none
  | some (rb, rem) =>
    some (tarDirFix
      (if t = 51 ∨ t = 52 then
        { rb with uname := e.uname, gname := e.gname, rdevmajor := e.rdevmajor, rdevminor := e.rdevminor }
       else { rb with uname := e.uname, gname := e.gname }, rem))

theorem ustarType_dev (e : Entry) (t : Nat) (h : ustarType e none = some t) (ht : t = 51 ∨ t = 52) :
    e.ftype = .blk ∨ e.ftype = .chr := by
  unfold ustarType at h
  simp only [] at h
  by_cases hh : e.hard ≠ []
  · rw [if_pos hh] at h; have := Option.some.inj h; omega
  · rw [if_neg hh] at h
    cases hf : e.ftype <;> simp [hf, ustarTypeflag] at h ⊢ <;> omega

/-- The type flag byte of the finished header. -/
theorem ustarHdr_typeflag (e : Entry) (path : List Nat) (size : Int) (t : Nat) (ht : ustarType e none = some t) :
    (slice (ustarHdr e path size) rd_typeflag_offset 1).headD 0 = t := by
  have hmem : (⟨ustar_typeflag_offset, rd_typeflag_size, [t]⟩ : FieldW) ∈ ustarFields e path size := by
    simp [ustarFields, ht]
  have := ustarPre_field e path size _ hmem
  simp only [List.length_singleton, rd_typeflag_size, Nat.sub_self] at this
  rw [show rd_typeflag_offset = ustar_typeflag_offset from rfl,
      ustarHdr_slice _ _ _ _ _ (by simp [ustar_typeflag_offset]), this]
  simp [slice]

theorem ustarType_range (e : Entry) (t : Nat) (h : ustarType e none = some t) : 48 ≤ t ∧ t ≤ 54 := by
  unfold ustarType at h
  simp only [] at h
  by_cases hh : e.hard ≠ []
  · rw [if_pos hh] at h; have := Option.some.inj h; omega
  · rw [if_neg hh] at h
    cases hf : e.ftype <;> simp [hf, ustarTypeflag] at h <;> omega

section template2
set_option maxRecDepth 16384
theorem tpl_magic5 : slice ustar_template 257 5 = [117, 115, 116, 97, 114] := by decide
end template2

/-- The magic field is the template's: "ustar\0" "00". -/
theorem ustarHdr_magic (e : Entry) (path : List Nat) (size : Int) (n : Nat) (hn : n ≤ 8) :
    slice (ustarHdr e path size) 257 n = slice ustar_template 257 n := by
  rw [ustarHdr_slice _ _ _ _ _ (by omega)]
  unfold ustarPre
  rw [ustarWrites_eq_fields]
  apply field_untouched _ _ _ _ (ustarFields_fit e path size)
  simp only [ustarFields, ustarNumFields, List.map, List.zip, List.zipWith, List.cons_append, List.nil_append,
    List.mem_cons, List.mem_nil_iff, or_false, forall_eq_or_imp, forall_eq,
    ustar_prefix_offset, ustar_name_offset, ustar_linkname_offset, ustar_uname_offset, ustar_gname_offset,
    ustar_mode_offset, ustar_uid_offset, ustar_gid_offset, ustar_size_offset, ustar_mtime_offset,
    ustar_rdevmajor_offset, ustar_rdevminor_offset, ustar_typeflag_offset,
    rd_prefix_size, rd_name_size, rd_linkname_size, rd_uname_size, rd_gname_size, rd_mode_size, rd_uid_size,
    rd_gid_size, rd_size_size, rd_mtime_size, rd_rdevmajor_size, rd_rdevminor_size, rd_typeflag_size]
  omega

/-- **Decoding what the writer encoded**: the model reader on the model writer's 512 bytes
returns the entry's own field values. -/
theorem ustarDecode_ustarHdr (e : Entry) (path : List Nat) (size : Int) (t : Nat)
    (hpath : wfStr path) (hlink : wfStr (tarLink e)) (huname : wfStr e.uname) (hgname : wfStr e.gname)
    (hnf : ustarFailed e path size none true = false) (ht : ustarType e none = some t)
    (hnodbl : ∀ p, ustarSplit path = .split p → (path.take p).getLast? ≠ some slash) :
    ustarDecode (ustarHdr e path size) false = ustarSpecRB e path size t := by
  obtain ⟨hsplit, hll, hul, hgl, hnum, _⟩ := ustarFailed_false e path size hnf
  have nonOct32 : ∃ c r, ([32, 0] : List Nat) = c :: r ∧ nonOctal c := ⟨32, [0], rfl, by unfold nonOctal c0; omega⟩
  have nonOct32' : ∃ c r, ([32] : List Nat) = c :: r ∧ nonOctal c := ⟨32, [], rfl, by unfold nonOctal c0; omega⟩
  -- the five always-present numbers
  have hmode : tarNum (ustarHdr e path size) rd_mode_offset rd_mode_size = ((e.perm % 4096 : Nat) : Int) :=
    ustarHdr_num e path size ((e.perm % 4096 : Nat) : Int) ustar_mode_offset ustar_mode_size ustar_mode_max_size true 8
      (by simp [ustarFields, ustarNumFields, rd_mode_size]) rfl (hnum _ (by simp [ustarNumFields])) (by decide) (by decide)
      [32, 0] tpl_mode_tail (Or.inr nonOct32) (by decide)
  have huid : tarNum (ustarHdr e path size) rd_uid_offset rd_uid_size = e.uid :=
    ustarHdr_num e path size e.uid ustar_uid_offset ustar_uid_size ustar_uid_max_size true 8
      (by simp [ustarFields, ustarNumFields, rd_uid_size]) rfl (hnum _ (by simp [ustarNumFields])) (by decide) (by decide)
      [32, 0] tpl_uid_tail (Or.inr nonOct32) (by decide)
  have hgid : tarNum (ustarHdr e path size) rd_gid_offset rd_gid_size = e.gid :=
    ustarHdr_num e path size e.gid ustar_gid_offset ustar_gid_size ustar_gid_max_size true 8
      (by simp [ustarFields, ustarNumFields, rd_gid_size]) rfl (hnum _ (by simp [ustarNumFields])) (by decide) (by decide)
      [32, 0] tpl_gid_tail (Or.inr nonOct32) (by decide)
  have hsize : tarNum (ustarHdr e path size) rd_size_offset rd_size_size = size :=
    ustarHdr_num e path size size ustar_size_offset ustar_size_size ustar_size_max_size true 12
      (by simp [ustarFields, ustarNumFields, rd_size_size]) rfl (hnum _ (by simp [ustarNumFields])) (by decide) (by decide)
      [32] tpl_size_tail (Or.inr nonOct32') (by decide)
  have hmtime : tarNum (ustarHdr e path size) rd_mtime_offset rd_mtime_size = e.mtime :=
    ustarHdr_num e path size e.mtime ustar_mtime_offset ustar_mtime_size ustar_mtime_max_size true 12
      (by simp [ustarFields, ustarNumFields, rd_mtime_size]) rfl (hnum _ (by simp [ustarNumFields])) (by decide) (by decide)
      [32] tpl_mtime_tail (Or.inr nonOct32') (by decide)
  -- size is in range for the reader
  have hsz : ¬(size < 0 ∨ size > (rd_entry_limit : Int)) := by
    have hok := hnum ⟨size, ustar_size_offset, ustar_size_size, ustar_size_max_size, true⟩ (by simp [ustarNumFields])
    have hok' : (ustarFormatOctal size ustar_size_size).1 = false := by
      simpa [NumField.failed, ustarFormatNumber] using hok
    obtain ⟨h0, h1, _⟩ := ustarFormatOctal_ok _ _ hok'
    have : (8 : Nat) ^ ustar_size_size = 8589934592 := by decide
    simp only [rd_entry_limit]; omega
  -- type flag byte
  have htf : (slice (ustarHdr e path size) rd_typeflag_offset 1).headD 0 = t := by
    have hmem : (⟨ustar_typeflag_offset, rd_typeflag_size, [t]⟩ : FieldW) ∈ ustarFields e path size := by
      simp [ustarFields, ht]
    have := ustarPre_field e path size _ hmem
    simp only [List.length_singleton, rd_typeflag_size, Nat.sub_self] at this
    rw [show rd_typeflag_offset = ustar_typeflag_offset from rfl,
        ustarHdr_slice _ _ _ _ _ (by simp [ustar_typeflag_offset]), this]
    simp [slice]
  unfold ustarDecode
  simp only [hsize, if_neg hsz, htf, ustarHdr_link e path size hlink hll,
    tarPath_ustarHdr e path size hpath hsplit hnodbl]
  -- the common fields
  have hbase : tarBase (ustarHdr e path size) path size
      = { path := path, ftype := 0, perm := e.perm % 4096, uid := e.uid, gid := e.gid,
          mtime := some e.mtime, size := some size } := by
    unfold tarBase
    simp only [hmode, huid, hgid, hmtime]
    have h1 : (((e.perm % 4096 : Nat) : Int) % 4294967296).toNat = e.perm % 4096 := by omega
    rw [h1]
    have h2 : e.perm % 4096 % 65536 / 4096 * 4096 = 0 := by omega
    have h3 : e.perm % 4096 % 4096 + e.perm % 4096 / 65536 * 65536 = e.perm % 4096 := by omega
    rw [h2, h3]
  rw [hbase]
  unfold ustarSpecRB
  cases hsw : tarTypeSwitch { path := path, ftype := 0, perm := e.perm % 4096, uid := e.uid, gid := e.gid,
                              mtime := some e.mtime, size := some size } t (tarLink e) size with
  | none => rfl
  | some r =>
    obtain ⟨rb, rem⟩ := r
    have hx : ustarExtras rb (ustarHdr e path size) t =
        (if t = 51 ∨ t = 52 then
          { rb with uname := e.uname, gname := e.gname, rdevmajor := e.rdevmajor, rdevminor := e.rdevminor }
         else { rb with uname := e.uname, gname := e.gname }) := by
      unfold ustarExtras
      simp only [ustarHdr_uname e path size huname hul, ustarHdr_gname e path size hgname hgl]
      by_cases hdev : t = 51 ∨ t = 52
      · rw [if_pos hdev, if_pos hdev]
        have hact : (decide (e.ftype = .blk ∨ e.ftype = .chr)) = true := by
          simpa using ustarType_dev e t ht hdev
        have hmaj : tarNum (ustarHdr e path size) rd_rdevmajor_offset rd_rdevmajor_size = e.rdevmajor :=
          ustarHdr_num e path size e.rdevmajor ustar_rdevmajor_offset ustar_rdevmajor_size ustar_rdevmajor_max_size
              (decide (e.ftype = .blk ∨ e.ftype = .chr)) 8
            (by simp [ustarFields, ustarNumFields, rd_rdevmajor_size]) hact (hnum _ (by simp [ustarNumFields])) (by decide) (by decide)
            [32, 0] tpl_rdevmajor_tail (Or.inr nonOct32) (by decide)
        have hmin : tarNum (ustarHdr e path size) rd_rdevminor_offset rd_rdevminor_size = e.rdevminor :=
          ustarHdr_num e path size e.rdevminor ustar_rdevminor_offset ustar_rdevminor_size ustar_rdevminor_max_size
              (decide (e.ftype = .blk ∨ e.ftype = .chr)) 8
            (by simp [ustarFields, ustarNumFields, rd_rdevminor_size]) hact (hnum _ (by simp [ustarNumFields])) (by decide) (by decide)
            [32, 0] tpl_rdevminor_tail (Or.inr nonOct32) (by decide)
        rw [hmaj, hmin]
      · rw [if_neg hdev, if_neg hdev]
    simp only [Bool.false_eq_true, if_false, hx]

/-! ### the checksum of the finished header verifies -/

theorem numfield_bytes_isBytes (f : NumField) : isBytes (f.bytes true) := by
  unfold NumField.bytes
  by_cases h : f.active
  · simp only [h, if_true, ustarFormatNumber]
    rw [ustarFormatOctal_eq]
    intro c hc
    split at hc
    · simp only [List.mem_replicate] at hc; rw [hc.2]; decide
    · split at hc
      · have := octHead_digit _ _ c hc; simp only [c0, c7] at this; omega
      · simp only [List.mem_replicate] at hc; rw [hc.2]; decide
  · simp only [h]; intro c hc; cases hc

theorem ustarType_lt (e : Entry) (t : Nat) (h : ustarType e none = some t) : t < 256 := by
  unfold ustarType at h
  simp only [] at h
  by_cases hh : e.hard ≠ []
  · rw [if_pos hh] at h; have := Option.some.inj h; omega
  · rw [if_neg hh] at h
    cases hf : e.ftype <;> simp [hf, ustarTypeflag] at h <;> omega

theorem ustarPre_isBytes (e : Entry) (path : List Nat) (size : Int)
    (hpath : wfStr path) (hlink : wfStr (tarLink e)) (huname : wfStr e.uname) (hgname : wfStr e.gname) :
    isBytes (ustarPre e path size) := by
  unfold ustarPre
  apply isBytes_applyWrites
  · intro c hc
    have := tpl_isBytes
    rw [List.all_eq_true] at this
    simpa using this c hc
  · intro w hw
    simp only [ustarWrites, ustarNumFields, List.map, List.cons_append, List.nil_append, List.mem_cons,
      List.mem_nil_iff, or_false] at hw
    rcases hw with rfl | rfl | rfl | rfl | rfl | rfl | rfl | rfl | rfl | rfl | rfl | rfl | rfl
    · simp only []; split
      · exact wfStr_isBytes (wfStr_take hpath _)
      · intro c hc; cases hc
    · simp only []; split
      · exact wfStr_isBytes hpath
      · exact wfStr_isBytes (wfStr_drop hpath _)
      · intro c hc; cases hc
    · exact wfStr_isBytes (wfStr_take hlink _)
    · exact wfStr_isBytes (wfStr_take huname _)
    · exact wfStr_isBytes (wfStr_take hgname _)
    · simp only []; exact numfield_bytes_isBytes _
    · simp only []; exact numfield_bytes_isBytes _
    · simp only []; exact numfield_bytes_isBytes _
    · simp only []; exact numfield_bytes_isBytes _
    · simp only []; exact numfield_bytes_isBytes _
    · simp only []; exact numfield_bytes_isBytes _
    · simp only []; exact numfield_bytes_isBytes _
    · simp only []
      cases ht : ustarType e none with
      | none => intro c hc; cases hc
      | some t =>
        intro c hc
        simp only [List.mem_singleton] at hc
        rw [hc]; exact ustarType_lt e t ht

theorem ustarPre_checksum_blank (e : Entry) (path : List Nat) (size : Int) (o n : Nat)
    (ho : 148 ≤ o) (hn : o + n ≤ 156) :
    slice (ustarPre e path size) o n = slice ustar_template o n := by
  unfold ustarPre
  rw [ustarWrites_eq_fields]
  apply field_untouched _ _ _ _ (ustarFields_fit e path size)
  simp only [ustarFields, ustarNumFields, List.map, List.zip, List.zipWith, List.cons_append, List.nil_append,
    List.mem_cons, List.mem_nil_iff, or_false, forall_eq_or_imp, forall_eq,
    ustar_prefix_offset, ustar_name_offset, ustar_linkname_offset, ustar_uname_offset, ustar_gname_offset,
    ustar_mode_offset, ustar_uid_offset, ustar_gid_offset, ustar_size_offset, ustar_mtime_offset,
    ustar_rdevmajor_offset, ustar_rdevminor_offset, ustar_typeflag_offset,
    rd_prefix_size, rd_name_size, rd_linkname_size, rd_uname_size, rd_gname_size, rd_mode_size, rd_uid_size,
    rd_gid_size, rd_size_size, rd_mtime_size, rd_rdevmajor_size, rd_rdevminor_size, rd_typeflag_size]
  omega

/-- The reader's `checksum()` accepts every header the writer produces. -/
theorem tarChecksumOk_ustarHdr (e : Entry) (path : List Nat) (size : Int)
    (hpath : wfStr path) (hlink : wfStr (tarLink e)) (huname : wfStr e.uname) (hgname : wfStr e.gname) :
    tarChecksumOk (ustarHdr e path size) = true := by
  rw [ustarHdr_eq]
  apply tarChecksumOk_ustarChecksum _ (ustarPre_length e path size)
    (ustarPre_isBytes e path size hpath hlink huname hgname)
  · rw [ustarPre_checksum_blank e path size 148 8 (by omega) (by omega), tpl_checksum]; rfl
  · rw [ustarPre_checksum_blank e path size 155 1 (by omega) (by omega)]
    have := tpl_checksum
    unfold slice at this ⊢
    have h2 : (ustar_template.drop 155).take 1 = ((ustar_template.drop 148).take 8).drop 7 := by
      rw [List.drop_take, List.drop_drop]
    rw [h2, this]; rfl

end LA.Codec
